(* C16 -- lemmas.  Level 0: strip algebra.  Level 1: scanner on rendered text, backslash runs.
   Level 2: connective grouping.  Then the layout theorem. *)
From Coq Require Import List ZArith Bool Lia.
Import ListNotations.
Require Import V.gen.C16_Tables V.C16.Model.
Open Scope Z_scope.

(* ---------- shape facts of the generated tables the hand model was written for ---------- *)
Lemma shape_cont_suffix : gen_cont_suffix = [BS; 10]. Proof. reflexivity. Qed.
Lemma shape_comment_char : gen_comment_char = [HASH]. Proof. reflexivity. Qed.
Lemma shape_join_sep : gen_join_sep = [SP]. Proof. reflexivity. Qed.
Lemma shape_chunk_src : gen_chunk_src =
  [35; 46; 42; 124; 91; 94; 32; 34; 39; 93; 43; 124; 34; 91; 94; 34; 93; 42; 34; 124; 39; 91; 94; 39; 93; 42; 39].
Proof. reflexivity. Qed.
(* the obligation that fails on a tree where the last line of a backslash run is only
   right-stripped (its indentation then leaks into the joined command) *)
Lemma mode_is_strip : gen_last_mode = LStrip. Proof. reflexivity. Qed.

(* ---------- level 0: ldrop / rdrop ---------- *)
Lemma ldrop_all : forall p w s, forallb p w = true -> ldrop p (w ++ s) = ldrop p s.
Proof. induction w; simpl; intros; auto. apply andb_true_iff in H as [H1 H2]. rewrite H1. auto. Qed.

Lemma ldrop_keep : forall p c s, p c = false -> ldrop p (c :: s) = c :: s.
Proof. intros. simpl. rewrite H. reflexivity. Qed.

Lemma rdrop_all : forall p w, forallb p w = true -> rdrop p w = [].
Proof. induction w; simpl; intros; auto. apply andb_true_iff in H as [H1 H2]. rewrite IHw, H1; auto. Qed.

Lemma rdrop_app_all : forall p s w, forallb p w = true -> rdrop p (s ++ w) = rdrop p s.
Proof. induction s; simpl; intros. apply rdrop_all; auto. rewrite IHs; auto. Qed.

Lemma rdrop_app_keep : forall p s t, rdrop p t <> [] -> rdrop p (s ++ t) = s ++ rdrop p t.
Proof.
  induction s; simpl; intros; auto. rewrite IHs; auto.
  destruct (s ++ rdrop p t) eqn:E.
  - apply app_eq_nil in E as [_ E]. contradiction.
  - rewrite andb_false_r. reflexivity.
Qed.

Lemma rdrop_snoc : forall p s c, p c = false -> rdrop p (s ++ [c]) = s ++ [c].
Proof. intros. rewrite rdrop_app_keep; simpl; rewrite H; simpl; auto. discriminate. Qed.

Lemma rdrop_none : forall p s, forallb (fun c => negb (p c)) s = true -> rdrop p s = s.
Proof.
  induction s; simpl; intros; auto. apply andb_true_iff in H as [H1 H2].
  rewrite IHs; auto. apply negb_true_iff in H1. rewrite H1. reflexivity.
Qed.

Lemma rdrop_idem : forall p s, rdrop p (rdrop p s) = rdrop p s.
Proof.
  induction s; simpl; auto.
  destruct (p a && nullb (rdrop p s)) eqn:E; simpl; auto.
  rewrite IHs, E. reflexivity.
Qed.

Lemma rdrop_cons_keep : forall p c s, p c = false -> rdrop p (c :: s) = c :: rdrop p s.
Proof. intros. simpl. rewrite H. reflexivity. Qed.

(* a string is "closed" when strip leaves it alone and it is non-empty *)
Definition solid (s : str) : Prop :=
  (exists c s', s = c :: s' /\ is_space c = false) /\ rstrip s = s.
Definition clean (s : str) : Prop := s = [] \/ solid s.

Lemma ldrop_spec : forall p s, ldrop p s = [] \/ exists c s', ldrop p s = c :: s' /\ p c = false.
Proof.
  induction s; simpl; auto. destruct (p a) eqn:E; auto. right. eauto.
Qed.

Lemma strip_clean : forall x, clean (strip x).
Proof.
  intros. unfold strip, lstrip, rstrip.
  destruct (ldrop_spec is_space x) as [E | (c & s' & E & Hc)]; rewrite E.
  - left. reflexivity.
  - right. split.
    + rewrite rdrop_cons_keep by auto. eauto.
    + apply rdrop_idem.
Qed.

Lemma solid_ne : forall s, solid s -> s <> [].
Proof. intros s [(c & s' & E & _) _]. subst. discriminate. Qed.

Lemma rstrip_app_solid : forall x y, solid y -> rstrip (x ++ y) = x ++ y.
Proof.
  intros x y Hy. pose proof (solid_ne _ Hy). destruct Hy as [_ Hr].
  unfold rstrip in *. rewrite rdrop_app_keep; rewrite Hr; auto.
Qed.

Lemma solid_app : forall x m y, solid x -> solid y -> solid (x ++ m ++ y).
Proof.
  intros x m y Hx Hy. split.
  - destruct Hx as [(c & s' & E & Hc) _]. subst. simpl. eauto.
  - rewrite app_assoc. apply rstrip_app_solid; auto.
Qed.

Lemma all_space_spaces : forall k, all_space (spaces k) = true.
Proof. induction k; simpl; auto. Qed.

Lemma strip_wrap : forall a m b, all_space a = true -> all_space b = true -> clean m ->
  strip (a ++ m ++ b) = m.
Proof.
  intros a m b Ha Hb [-> | Hm]; unfold strip, lstrip, rstrip, all_space in *.
  - simpl. rewrite ldrop_all by auto.
    destruct (ldrop_spec is_space b) as [E | (c & s' & E & Hc)].
    + rewrite E. reflexivity.
    + (* impossible: b is all space, ldrop leaves [] *)
      assert (ldrop is_space b = []).
      { clear -Hb. induction b; simpl in *; auto. apply andb_true_iff in Hb as [H1 H2]. rewrite H1. auto. }
      rewrite H. reflexivity.
  - rewrite ldrop_all by auto.
    destruct Hm as [(c & s' & E & Hc) Hr]. subst m. simpl. rewrite Hc.
    change (c :: s' ++ b) with ((c :: s') ++ b).
    rewrite rdrop_app_all by auto. exact Hr.
Qed.

Lemma strip_all_space : forall a, all_space a = true -> strip a = [].
Proof.
  intros. replace a with (a ++ [] ++ []) by (simpl; apply app_nil_r).
  apply strip_wrap; auto. left; reflexivity.
Qed.

Lemma spaces_app : forall a b, spaces a ++ spaces b = spaces (a + b).
Proof. induction a; simpl; intros; auto. rewrite IHa. reflexivity. Qed.

Lemma spaces_snoc : forall k, spaces (S k) = spaces k ++ [SP].
Proof. induction k; simpl in *; auto. rewrite <- IHk. reflexivity. Qed.

(* the join of clean pieces is a clean core between runs of plain spaces *)
Lemma join_cons2 : forall p q r, join (p :: q :: r) = p ++ SP :: join (q :: r).
Proof. reflexivity. Qed.

Lemma join_clean_form : forall ps, Forall clean ps ->
  exists a s0 b, join ps = spaces a ++ s0 ++ spaces b /\ clean s0.
Proof.
  induction ps as [|p ps IH]; intros H.
  - exists 0%nat, [], 0%nat. split; [reflexivity | left; reflexivity].
  - inversion H as [|? ? Hp Hps]; subst. destruct ps as [|q r].
    + exists 0%nat, p, 0%nat. simpl. rewrite app_nil_r. auto.
    + rewrite join_cons2. destruct (IH Hps) as (a & s0 & b & E & Hs0). rewrite E.
      destruct Hp as [-> | Hp].
      * exists (S a), s0, b. simpl. auto.
      * destruct Hs0 as [-> | Hs0].
        -- exists 0%nat, p, (S a + b)%nat. simpl. rewrite spaces_app. split; auto. right; auto.
        -- exists 0%nat, (p ++ (SP :: spaces a) ++ s0), b. simpl. split.
           ++ repeat (rewrite <- app_assoc; simpl). reflexivity.
           ++ right. apply (solid_app p (SP :: spaces a) s0); auto.
Qed.

(* ---------- level 1: the scanner ---------- *)
Lemma scan_idle_spaces : forall k s, scan Idle (spaces k ++ s) = scan Idle s.
Proof. induction k; simpl; intros; auto. Qed.

Lemma mem_app : forall c a b, mem c (a ++ b) = mem c a || mem c b.
Proof. intros. unfold mem. apply existsb_app. Qed.

Lemma mem_spaces : forall c k, is_quote c = true -> mem c (spaces k) = false.
Proof.
  induction k; simpl; intros; auto. rewrite IHk by auto.
  unfold is_quote, DQ, SQ, SP in *. destruct (c =? 32) eqn:E; auto.
  apply Z.eqb_eq in E. subst. discriminate.
Qed.

Definition mode_ok (m : mode) (s : str) : Prop :=
  match m with InQ q => mem q s = true | _ => True end.

Lemma scan_app_spaces : forall k s m, mode_ok m s -> scan m (s ++ spaces k) = scan m s.
Proof.
  induction s as [|c s IH]; intros m Hm.
  - simpl. destruct m; simpl in Hm; try discriminate.
    + rewrite <- (app_nil_r (spaces k)). rewrite scan_idle_spaces. reflexivity.
    + destruct k; simpl; auto.
      rewrite <- (app_nil_r (spaces k)). rewrite scan_idle_spaces. reflexivity.
  - simpl. destruct m.
    + destruct (c =? HASH); auto. destruct (c =? SP). { apply IH. exact I. }
      destruct (is_quote c) eqn:Q.
      * rewrite mem_app, mem_spaces, orb_false_r by auto.
        destruct (mem c s) eqn:M.
        -- rewrite IH by (simpl; auto). reflexivity.
        -- apply IH. exact I.
      * rewrite IH by (simpl; auto). reflexivity.
    + destruct (c =? SP). { rewrite IH by (simpl; auto). reflexivity. }
      destruct (is_quote c) eqn:Q.
      * rewrite mem_app, mem_spaces, orb_false_r by auto.
        destruct (mem c s) eqn:M.
        -- rewrite IH by (simpl; auto). reflexivity.
        -- rewrite IH by (simpl; auto). reflexivity.
      * rewrite IH by (simpl; auto). reflexivity.
    + simpl in Hm. destruct (c =? q) eqn:E.
      * rewrite IH by (simpl; auto). reflexivity.
      * rewrite IH; auto. simpl. rewrite Z.eqb_sym in E. rewrite E in Hm. exact Hm.
Qed.

Lemma strip_form : forall a s0 b, clean s0 -> strip (spaces a ++ s0 ++ spaces b) = s0.
Proof. intros. apply strip_wrap; auto using all_space_spaces. Qed.

Lemma finish_clean : forall ps, Forall clean ps -> finish ps = scan Idle (join ps).
Proof.
  intros ps H. unfold finish, tokens_of.
  destruct (join_clean_form ps H) as (a & s0 & b & E & Hs). rewrite E, strip_form by auto.
  rewrite scan_idle_spaces, scan_app_spaces; auto. exact I.
Qed.

(* tokens *)
Definition sep_ok (rest : str) : Prop := rest = [] \/ exists r, rest = SP :: r.

Lemma space_SP : is_space SP = true. Proof. reflexivity. Qed.

Lemma scan_plain_run : forall s rest,
  forallb (fun c => negb (is_space c) && negb (is_quote c)) s = true -> sep_ok rest ->
  scan Plain (s ++ rest) = s :: scan Idle rest.
Proof.
  induction s as [|c s IH]; intros rest H Hr.
  - destruct Hr as [-> | (r & ->)]; reflexivity.
  - simpl in H. apply andb_true_iff in H as [H1 H2]. apply andb_true_iff in H1 as [Hs Hq].
    apply negb_true_iff in Hs, Hq. simpl.
    assert (c =? SP = false).
    { destruct (c =? SP) eqn:E; auto. apply Z.eqb_eq in E. subst. discriminate. }
    rewrite H, Hq, IH by auto. reflexivity.
Qed.

Lemma scan_inq : forall q b rest, mem q b = false ->
  scan (InQ q) (b ++ q :: rest) = (b ++ [q]) :: scan Idle rest.
Proof.
  induction b as [|c b IH]; intros rest H; simpl.
  - rewrite Z.eqb_refl. reflexivity.
  - simpl in H. apply orb_false_iff in H as [H1 H2]. rewrite Z.eqb_sym in H1. rewrite H1.
    rewrite IH by auto. reflexivity.
Qed.

Lemma quote_not_hash_sp : forall q, is_quote q = true -> (q =? HASH) = false /\ (q =? SP) = false.
Proof.
  intros q H. unfold is_quote, DQ, SQ, HASH, SP in *.
  apply orb_true_iff in H as [H | H]; apply Z.eqb_eq in H; subst; auto.
Qed.

Lemma scan_tok : forall t rest, tok_ok t = true -> sep_ok rest ->
  scan Idle (text t ++ rest) = text t :: scan Idle rest.
Proof.
  intros [s | q b] rest H Hr; simpl in *.
  - destruct s as [|c s]; [discriminate|].
    apply andb_true_iff in H as [H _]. apply andb_true_iff in H as [Hh Hall].
    apply negb_true_iff in Hh. pose proof Hall as Hall'. simpl in Hall.
    apply andb_true_iff in Hall as [H1 H2]. apply andb_true_iff in H1 as [Hs Hq].
    apply negb_true_iff in Hs, Hq. simpl. rewrite Hh.
    assert (c =? SP = false).
    { destruct (c =? SP) eqn:E; auto. apply Z.eqb_eq in E. subst. discriminate. }
    rewrite H, Hq. rewrite scan_plain_run by auto. reflexivity.
  - apply andb_true_iff in H as [Hq Hm]. apply negb_true_iff in Hm.
    destruct (quote_not_hash_sp q Hq) as [E1 E2]. rewrite E1, E2, Hq.
    rewrite <- app_assoc. simpl.
    rewrite mem_app. simpl. rewrite Z.eqb_refl. rewrite orb_true_r. simpl.
    rewrite scan_inq by auto. reflexivity.
Qed.

Lemma tailb_sep : forall r rest, sep_ok rest -> sep_ok (tailb r ++ rest).
Proof. intros [|[k t] r] rest H; simpl; auto. right. eauto. Qed.

Lemma scan_tailb : forall r rest, forallb (fun kt => tok_ok (snd kt)) r = true -> sep_ok rest ->
  scan Idle (tailb r ++ rest) = map (fun kt => text (snd kt)) r ++ scan Idle rest.
Proof.
  induction r as [|[k t] r IH]; intros rest H Hr; simpl; auto.
  simpl in H. apply andb_true_iff in H as [H1 H2].
  change (SP :: spaces k ++ text t ++ tailb r) with (spaces (S k) ++ text t ++ tailb r).
  rewrite <- !app_assoc. rewrite scan_idle_spaces. rewrite scan_tok; auto using tailb_sep.
  rewrite IH; auto.
Qed.

Lemma scan_body : forall l rest, forallb (fun kt => tok_ok (snd kt)) l = true -> sep_ok rest ->
  scan Idle (body l ++ rest) = map (fun kt => text (snd kt)) l ++ scan Idle rest.
Proof.
  intros [|[k t] r] rest H Hr; simpl; auto.
  simpl in H. apply andb_true_iff in H as [H1 H2].
  rewrite <- app_assoc. rewrite scan_tok; auto using tailb_sep. rewrite scan_tailb; auto.
Qed.

(* solidity of rendered token text *)
Lemma tok_solid : forall t, tok_ok t = true -> solid (text t).
Proof.
  intros [s | q b] H; simpl in *.
  - destruct s as [|c s]; [discriminate|].
    apply andb_true_iff in H as [H _]. apply andb_true_iff in H as [_ Hall]. split.
    + simpl in Hall. apply andb_true_iff in Hall as [H1 _]. apply andb_true_iff in H1 as [Hs _].
      apply negb_true_iff in Hs. eauto.
    + apply rdrop_none. eapply forallb_forall. intros x Hx.
      rewrite forallb_forall in Hall. apply Hall in Hx. apply andb_true_iff in Hx as [Hx _]. exact Hx.
  - apply andb_true_iff in H as [Hq _].
    assert (is_space q = false).
    { unfold is_quote, DQ, SQ in Hq. apply orb_true_iff in Hq as [E | E]; apply Z.eqb_eq in E; subst; reflexivity. }
    split; eauto. change (q :: b ++ [q]) with ((q :: b) ++ [q]). apply rdrop_snoc. auto.
Qed.

Lemma tailb_clean : forall r, forallb (fun kt => tok_ok (snd kt)) r = true ->
  tailb r = [] \/ (tailb r <> [] /\ rstrip (tailb r) = tailb r).
Proof.
  induction r as [|[k t] r IH]; intros H; simpl; auto. right.
  simpl in H. apply andb_true_iff in H as [H1 H2]. split; [discriminate|].
  change (SP :: spaces k ++ text t ++ tailb r) with (spaces (S k) ++ text t ++ tailb r).
  destruct (IH H2) as [E | [Hne Hr]].
  - rewrite E, app_nil_r. apply rstrip_app_solid. apply tok_solid; auto.
  - rewrite !app_assoc. unfold rstrip in *. rewrite rdrop_app_keep; rewrite Hr; auto.
Qed.

Lemma body_clean : forall l, forallb (fun kt => tok_ok (snd kt)) l = true -> clean (body l).
Proof.
  intros [|[k t] r] H; simpl. { left; reflexivity. } right.
  simpl in H. apply andb_true_iff in H as [H1 H2]. pose proof (tok_solid t H1) as Ht.
  destruct (tailb_clean r H2) as [E | [Hne Hr]].
  - rewrite E, app_nil_r. auto.
  - split.
    + destruct Ht as [(c & s' & E & Hc) _]. rewrite E. simpl. eauto.
    + unfold rstrip in *. rewrite rdrop_app_keep; rewrite Hr; auto.
Qed.

(* pieces of rendered lines *)
Lemma ends_bs_snoc : forall s c, ends_bs (s ++ [c]) = (c =? BS).
Proof. intros. unfold ends_bs. rewrite rev_unit. reflexivity. Qed.

Lemma mid_continues : forall pk, continues (mid_line pk) = true.
Proof.
  intros [p k]. unfold continues, mid_line. cbn [nl txt fst snd].
  rewrite !app_assoc. rewrite ends_bs_snoc. reflexivity.
Qed.

Lemma mid_piece : forall p k, piece_ok p = true -> piece_mid (mid_line (p, k)) = body (ptoks p).
Proof.
  intros p k H. apply andb_true_iff in H as [Hi Ht].
  unfold piece_mid, mid_line. cbn [txt fst snd].
  unfold rstrip at 1. rewrite !app_assoc. rewrite rdrop_snoc by reflexivity.
  unfold rstrip_bs. rewrite rdrop_app_all by reflexivity.
  rewrite spaces_snoc. rewrite !app_assoc. rewrite rdrop_snoc by reflexivity.
  rewrite <- !app_assoc. rewrite <- spaces_snoc.
  apply strip_wrap; auto using all_space_spaces, body_clean.
Qed.

Lemma ends_bs_false_last : forall s c, (c =? BS) = false -> ends_bs (s ++ [c]) = false.
Proof. intros. rewrite ends_bs_snoc. auto. Qed.

Lemma all_space_not_bs : forall w, all_space w = true -> ends_bs w = false.
Proof.
  intros w H. destruct w as [|c w] using rev_ind; auto.
  rewrite ends_bs_snoc. unfold all_space in H. rewrite forallb_app in H.
  apply andb_true_iff in H as [_ H]. simpl in H. rewrite andb_true_r in H.
  destruct (c =? BS) eqn:E; auto. apply Z.eqb_eq in E. subst. discriminate.
Qed.

Lemma ends_bs_app : forall a b, b <> [] -> ends_bs (a ++ b) = ends_bs b.
Proof.
  intros a b H. destruct b as [|c b] using rev_ind; [contradiction|].
  rewrite app_assoc, !ends_bs_snoc. reflexivity.
Qed.

Lemma tok_not_bs : forall t, tok_ok t = true -> ends_bs (text t) = false.
Proof.
  intros [s | q b] H; simpl in *.
  - apply andb_true_iff in H as [_ H]. unfold last_not_bs in H. apply negb_true_iff in H. auto.
  - apply andb_true_iff in H as [Hq _]. change (q :: b ++ [q]) with ((q :: b) ++ [q]).
    rewrite ends_bs_snoc. unfold is_quote, DQ, SQ in Hq.
    apply orb_true_iff in Hq as [E | E]; apply Z.eqb_eq in E; subst; reflexivity.
Qed.

Lemma tailb_not_bs : forall r, forallb (fun kt => tok_ok (snd kt)) r = true -> r <> [] ->
  ends_bs (tailb r) = false.
Proof.
  induction r as [|[k t] r IH]; intros H Hne; [contradiction|].
  simpl in H. apply andb_true_iff in H as [H1 H2]. simpl tailb.
  change (SP :: spaces k ++ text t ++ tailb r) with (spaces (S k) ++ text t ++ tailb r).
  destruct r as [|kt r].
  - simpl tailb. rewrite app_nil_r. rewrite ends_bs_app. apply tok_not_bs; auto.
    destruct t; simpl; try discriminate. simpl in H1. destruct s; discriminate.
  - rewrite app_assoc. rewrite ends_bs_app. apply IH; auto. discriminate.
    destruct kt. simpl. discriminate.
Qed.

Lemma body_not_bs : forall l, forallb (fun kt => tok_ok (snd kt)) l = true -> ends_bs (body l) = false.
Proof.
  intros [|[k t] r] H; auto. simpl in H. apply andb_true_iff in H as [H1 H2]. simpl body.
  destruct r as [|kt r].
  - simpl. rewrite app_nil_r. apply tok_not_bs; auto.
  - rewrite ends_bs_app. apply tailb_not_bs; auto. discriminate. destruct kt; simpl; discriminate.
Qed.

Lemma text_ne : forall t, tok_ok t = true -> text t <> [].
Proof. intros. apply solid_ne. apply tok_solid. auto. Qed.

Lemma body_ne : forall kt r, forallb (fun kt => tok_ok (snd kt)) (kt :: r) = true -> body (kt :: r) <> [].
Proof.
  intros [k t] r H. simpl in H. apply andb_true_iff in H as [H _]. simpl.
  pose proof (text_ne t H). destruct (text t); [contradiction | discriminate].
Qed.

Lemma last_not_continues : forall p t, piece_ok p = true -> trail_ok t = true ->
  continues (last_line p t) = false.
Proof.
  intros p t Hp Ht. apply andb_true_iff in Hp as [Hi Hk].
  unfold continues, last_line. cbn [nl txt]. simpl andb.
  destruct t as [w | k c]; simpl trail_text.
  - simpl in Ht. destruct w as [|x w].
    + rewrite app_nil_r. destruct (ptoks p) as [|kt r] eqn:E.
      * simpl. rewrite app_nil_r. apply all_space_not_bs; auto.
      * rewrite ends_bs_app. apply body_not_bs; auto. apply body_ne; auto.
    + rewrite app_assoc. rewrite ends_bs_app by discriminate. apply all_space_not_bs; auto.
  - simpl in Ht. unfold last_not_bs in Ht. apply negb_true_iff in Ht.
    rewrite app_assoc. change (SP :: spaces k ++ HASH :: c) with ((SP :: spaces k) ++ HASH :: c).
    rewrite app_assoc. destruct c as [|x c].
    + rewrite ends_bs_app by discriminate. reflexivity.
    + change (HASH :: x :: c) with ([HASH] ++ x :: c). rewrite app_assoc.
      rewrite ends_bs_app by discriminate. exact Ht.
Qed.

(* the last piece: clean, and scanning it (at the end of the joined text) gives its tokens *)
Lemma last_piece_spec : forall p t, piece_ok p = true -> trail_ok t = true ->
  clean (piece_last_with LStrip (last_line p t)) /\
  scan Idle (piece_last_with LStrip (last_line p t)) = piece_toks p.
Proof.
  intros p t Hp Ht. split. { apply strip_clean. }
  apply andb_true_iff in Hp as [Hi Hk]. unfold piece_last_with, last_line. cbn [txt].
  destruct t as [w | k c]; simpl trail_text.
  - simpl in Ht. rewrite strip_wrap by auto using body_clean.
    rewrite <- (app_nil_r (body (ptoks p))). rewrite scan_body; auto. simpl. apply app_nil_r.
    left; reflexivity.
  - (* comment: strip = lstrip then rstrip; the text before '#' survives *)
    unfold strip, lstrip, rstrip. rewrite ldrop_all by auto.
    destruct (body_clean (ptoks p) Hk) as [E | Hs].
    + rewrite E. simpl app.
      change (SP :: spaces k ++ HASH :: c) with (spaces (S k) ++ HASH :: c).
      rewrite ldrop_all by apply all_space_spaces.
      rewrite ldrop_keep by reflexivity. rewrite rdrop_cons_keep by reflexivity.
      simpl. unfold piece_toks. destruct (ptoks p) as [|kt r]; auto.
      exfalso. exact (body_ne kt r Hk E).
    + pose proof Hs as [(x & s' & E & Hx) _]. rewrite E. simpl app. rewrite ldrop_keep by auto.
      change (x :: s' ++ SP :: spaces k ++ HASH :: c) with ((x :: s') ++ (spaces (S k)) ++ HASH :: c).
      rewrite <- E. rewrite app_assoc. rewrite rdrop_app_keep.
      2:{ rewrite rdrop_cons_keep by reflexivity. discriminate. }
      rewrite rdrop_cons_keep by reflexivity. rewrite <- app_assoc.
      rewrite scan_body; auto. 2:{ right. simpl. eauto. }
      rewrite scan_idle_spaces. simpl. apply app_nil_r.
Qed.

Lemma join_mids : forall (ms : list (piece * nat)) (lastS : str),
  forallb (fun pk => piece_ok (fst pk)) ms = true ->
  scan Idle (join (map (fun pk => body (ptoks (fst pk))) ms ++ [lastS])) =
  concat (map (fun pk => piece_toks (fst pk)) ms) ++ scan Idle lastS.
Proof.
  induction ms as [|[p k] ms IH]; intros lastS H; simpl map; simpl app; auto.
  simpl in H. apply andb_true_iff in H as [H1 H2]. apply andb_true_iff in H1 as [_ Hk].
  destruct (map (fun pk => body (ptoks (fst pk))) ms ++ [lastS]) as [|q r] eqn:E.
  { destruct (map (fun pk => body (ptoks (fst pk))) ms); discriminate. }
  rewrite join_cons2. rewrite scan_body; auto. 2:{ right; eauto. }
  simpl concat. rewrite <- app_assoc. f_equal.
  change (SP :: join (q :: r)) with (spaces 1 ++ join (q :: r)). rewrite scan_idle_spaces.
  rewrite <- E. apply IH; auto.
Qed.

(* backslash runs of rendered segments *)
Lemma runs_seg : forall s rest, seg_ok s = true ->
  runs_with LStrip (seg_lines s ++ rest) =
  (map (fun pk => body (ptoks (fst pk))) (mids s) ++ [piece_last_with LStrip (last_line (lastp s) (tr s))])
  :: runs_with LStrip rest.
Proof.
  intros [ms lp t] rest H. unfold seg_ok in H. cbn [mids lastp tr] in *.
  apply andb_true_iff in H as [H Ht]. apply andb_true_iff in H as [Hm Hl].
  unfold seg_lines. cbn [mids lastp tr]. induction ms as [|[p k] ms IH].
  - simpl. rewrite last_not_continues by auto. reflexivity.
  - simpl in Hm. apply andb_true_iff in Hm as [H1 H2].
    simpl map. simpl app. cbn [runs_with]. rewrite mid_continues.
    rewrite IH by auto. rewrite mid_piece by auto. reflexivity.
Qed.

Lemma finish_seg : forall s, seg_ok s = true ->
  finish (map (fun pk => body (ptoks (fst pk))) (mids s) ++ [piece_last_with LStrip (last_line (lastp s) (tr s))])
  = seg_toks s.
Proof.
  intros s H. pose proof H as H0. unfold seg_ok in H.
  apply andb_true_iff in H as [H Ht]. apply andb_true_iff in H as [Hm Hl].
  destruct (last_piece_spec (lastp s) (tr s) Hl Ht) as [Hc Hs].
  rewrite finish_clean.
  - rewrite join_mids by auto. rewrite Hs. reflexivity.
  - apply Forall_app. split.
    + apply Forall_forall. intros x Hx. apply in_map_iff in Hx as ((p & k) & <- & Hin).
      rewrite forallb_forall in Hm. apply Hm in Hin. apply andb_true_iff in Hin as [_ Hk].
      apply body_clean; auto.
    + constructor; auto.
Qed.

Lemma level1 : forall segs, forallb seg_ok segs = true ->
  map finish (runs_with LStrip (concat (map seg_lines segs))) = map seg_toks segs.
Proof.
  induction segs as [|s segs IH]; intros H; simpl; auto.
  apply andb_true_iff in H as [H1 H2].
  rewrite runs_seg by auto. simpl map. rewrite finish_seg by auto. rewrite IH; auto.
Qed.

(* ---------- level 2: connective grouping ---------- *)
Lemma grp_fillers : forall cur (fs : list segment) rest,
  forallb filler_ok fs = true -> grp cur (map seg_toks fs ++ rest) = grp cur rest.
Proof.
  induction fs as [|f fs IH]; intros rest H; simpl; auto.
  apply andb_true_iff in H as [H1 H2]. apply andb_true_iff in H1 as [_ Hn].
  destruct (seg_toks f); [|discriminate]. auto.
Qed.

Lemma grp_conts : forall (cs : list (list segment * segment)) c rest,
  forallb (fun fs => forallb filler_ok (fst fs) && seg_ok (snd fs)
                     && hd_is reserved (seg_toks (snd fs))) cs = true ->
  grp (Some c) (map seg_toks (concat (map (fun fs => fst fs ++ [snd fs]) cs)) ++ rest) =
  grp (Some (c ++ concat (map (fun fs => seg_toks (snd fs)) cs))) rest.
Proof.
  induction cs as [|[fl s] cs IH]; intros c rest H; simpl.
  - rewrite app_nil_r. reflexivity.
  - apply andb_true_iff in H as [H1 H2]. apply andb_true_iff in H1 as [H1 Hr].
    apply andb_true_iff in H1 as [Hf Hs]. cbn [fst snd] in *.
    rewrite !map_app. rewrite <- !app_assoc. rewrite grp_fillers by auto.
    simpl map. simpl app. cbn [grp].
    destruct (seg_toks s) as [|h T] eqn:E; [discriminate|]. simpl in Hr. rewrite Hr.
    rewrite IH by auto. rewrite <- app_assoc. reflexivity.
Qed.

(* grouping a sequence of rendered commands, whatever command is still open *)
Definition flush (cur : option (list str)) : list (list str) :=
  match cur with Some c => [c] | None => [] end.

Lemma grp_cmds : forall (cl : list lcmd) cur tail,
  forallb cmd_ok cl = true -> forallb filler_ok tail = true ->
  grp cur (map seg_toks (concat (map cmd_segs cl) ++ tail)) = flush cur ++ map cmd_toks cl.
Proof.
  induction cl as [|c cl IH]; intros cur tail H Ht.
  - simpl. rewrite <- (app_nil_r (map seg_toks tail)). rewrite grp_fillers by auto.
    simpl. rewrite app_nil_r. reflexivity.
  - simpl in H. apply andb_true_iff in H as [Hc Hcl]. unfold cmd_ok in Hc.
    apply andb_true_iff in Hc as [Hc Hload]. apply andb_true_iff in Hc as [Hc Hconts].
    apply andb_true_iff in Hc as [Hc Hhd]. apply andb_true_iff in Hc as [Hpre Hseg].
    simpl concat. unfold cmd_segs at 1. rewrite <- !app_assoc. rewrite map_app.
    rewrite grp_fillers by auto. simpl app. simpl map.
    destruct (seg_toks (chead c)) as [|h T] eqn:E; [discriminate|]. simpl in Hhd.
    apply negb_true_iff in Hhd.
    assert (Hopen : forall cur',
      grp cur' ((h :: T) :: map seg_toks (concat (map (fun fs => fst fs ++ [snd fs]) (conts c))
                                           ++ concat (map cmd_segs cl) ++ tail))
      = flush cur' ++ cmd_toks c :: map cmd_toks cl).
    { intros cur'. unfold cmd_toks. rewrite E.
      assert (Hbody : (if loadish h
               then (h :: T) :: grp None (map seg_toks (concat (map (fun fs => fst fs ++ [snd fs]) (conts c)) ++ concat (map cmd_segs cl) ++ tail))
               else grp (Some (h :: T)) (map seg_toks (concat (map (fun fs => fst fs ++ [snd fs]) (conts c)) ++ concat (map cmd_segs cl) ++ tail)))
              = ((h :: T) ++ concat (map (fun fs => seg_toks (snd fs)) (conts c))) :: map cmd_toks cl).
      { destruct (loadish h) eqn:L.
        - simpl in Hload. rewrite L in Hload. simpl in Hload. rewrite orb_false_r in Hload.
          destruct (conts c); [|discriminate].
          simpl. rewrite IH by auto. rewrite app_nil_r. reflexivity.
        - rewrite map_app. rewrite grp_conts by auto. rewrite IH by auto. reflexivity. }
      cbn [grp]. destruct cur' as [c0|]; simpl flush.
      - rewrite Hhd. rewrite Hbody. reflexivity.
      - rewrite Hbody. reflexivity. }
    rewrite Hopen. simpl. reflexivity.
Qed.

(* ---------- the layout theorem ---------- *)
Lemma fillers_seg_ok : forall l, forallb filler_ok l = true -> forallb seg_ok l = true.
Proof.
  induction l; simpl; intros; auto. apply andb_true_iff in H as [H1 H2].
  apply andb_true_iff in H1 as [H1 _]. rewrite H1, IHl; auto.
Qed.

Lemma doc_segs_ok : forall d, doc_ok d = true -> forallb seg_ok (doc_segs d) = true.
Proof.
  intros [cl po] H. unfold doc_ok in H. cbn [cmds post] in H. apply andb_true_iff in H as [Hc Hp].
  unfold doc_segs. cbn [cmds post]. rewrite forallb_app. apply andb_true_iff. split.
  - clear Hp. induction cl as [|c cl IH]; simpl; auto. simpl in Hc.
    apply andb_true_iff in Hc as [Hc Hcl]. rewrite forallb_app. rewrite IH by auto. rewrite andb_true_r.
    unfold cmd_ok in Hc.
    apply andb_true_iff in Hc as [Hc Hload]. apply andb_true_iff in Hc as [Hc Hconts].
    apply andb_true_iff in Hc as [Hc Hhd]. apply andb_true_iff in Hc as [Hpre Hseg].
    unfold cmd_segs. rewrite forallb_app. apply andb_true_iff. split.
    + apply fillers_seg_ok; auto.
    + simpl. rewrite Hseg. simpl. clear -Hconts. induction (conts c) as [|[fl s] cs IH]; simpl; auto.
      simpl in Hconts. apply andb_true_iff in Hconts as [H1 H2]. apply andb_true_iff in H1 as [H1 _].
      apply andb_true_iff in H1 as [Hf Hs]. cbn [fst snd] in *.
      rewrite !forallb_app. rewrite IH by auto. simpl. rewrite Hs. simpl. rewrite !andb_true_r.
      apply fillers_seg_ok; auto.
  - apply fillers_seg_ok; auto.
Qed.

Theorem layout_strip : forall d, doc_ok d = true -> commands_with LStrip (render d) = doc_cmds d.
Proof.
  intros d H. unfold commands_with, render. rewrite level1 by (apply doc_segs_ok; auto).
  unfold doc_ok in H. apply andb_true_iff in H as [Hc Hp].
  unfold doc_segs. rewrite grp_cmds by auto. reflexivity.
Qed.

Theorem layout_invariant_proof : forall d, doc_ok d = true -> commands (render d) = doc_cmds d.
Proof. unfold commands. rewrite mode_is_strip. exact layout_strip. Qed.

Theorem layout_invariant2_proof : forall d1 d2, doc_ok d1 = true -> doc_ok d2 = true ->
  doc_cmds d1 = doc_cmds d2 -> commands (render d1) = commands (render d2).
Proof. intros. rewrite !layout_invariant_proof by auto. auto. Qed.

Lemma outer_spaces : forall a b s, tokens_of (spaces a ++ s ++ spaces b) = tokens_of s.
Proof.
  intros. unfold tokens_of. rewrite scan_idle_spaces. apply scan_app_spaces. exact I.
Qed.
