(* C16 -- Builder.tokenize / Builder.build front end (ioflo/base/building.py) and the chunk
   regex REO_Chunks (ioflo/base/globaling.py).   Hand model (tie H), definitions only.
   Tables (Reserved, 'load', how the last line of a backslash run is stripped) are GENERATED
   from the source on every run: coq/gen/C16_Tables.v (tie T).

   characters  = code points (Z);   str = list Z;   a physical line = text without its newline
   + a flag "terminated by a newline" (readline() returns txt + newline or, for an unterminated
   last line, txt).  Assumption: txt contains no newline.

   Builder.build, for ONE file, does:
     1. cut the file into BACKSLASH RUNS: tokenize(line) consumes the line and, while the raw
        line ends with backslash-newline, the following one (EOF inside a run reads '' as last piece);
        every run yields one token list ([] for blank / comment-only runs);
        every physical line belongs to exactly one run, in order       -> [runs], [finish]
     2. group the token lists into commands by the connective look-ahead -> [grp]
     3. dispatch each command in order (not modelled here: dispatch is a function of the
        token list and the builder state; a ParseError stops the build at that command).  *)
From Coq Require Import List ZArith Bool.
Import ListNotations.
Require Import V.gen.C16_Tables.
Open Scope Z_scope.

Definition str := list Z.
Definition SP : Z := 32.
Definition BS : Z := 92.
Definition HASH : Z := 35.
Definition DQ : Z := 34.
Definition SQ : Z := 39.

(* str.isspace() on code points < 256 *)
Definition is_space (c : Z) : bool :=
  ((9 <=? c) && (c <=? 13)) || ((28 <=? c) && (c <=? 32)) || (c =? 133) || (c =? 160).
Definition is_quote (c : Z) : bool := (c =? DQ) || (c =? SQ).

Definition nullb {A} (l : list A) : bool := match l with [] => true | _ => false end.

(* s.lstrip(), s.rstrip(), s.strip(), s.rstrip('\\') *)
Fixpoint ldrop (p : Z -> bool) (s : str) : str :=
  match s with c :: s' => if p c then ldrop p s' else s | [] => [] end.
Fixpoint rdrop (p : Z -> bool) (s : str) : str :=
  match s with
  | [] => []
  | c :: s' => let r := rdrop p s' in if p c && nullb r then [] else c :: r
  end.
Definition lstrip := ldrop is_space.
Definition rstrip := rdrop is_space.
Definition strip (s : str) : str := rstrip (lstrip s).
Definition rstrip_bs := rdrop (Z.eqb BS).

Fixpoint str_eqb (a b : str) : bool :=
  match a, b with
  | [], [] => true
  | x :: a', y :: b' => (x =? y) && str_eqb a' b'
  | _, _ => false
  end.
Definition mem (c : Z) (s : str) : bool := existsb (Z.eqb c) s.
Definition in_words (w : str) (l : list str) : bool := existsb (str_eqb w) l.

(* python  a in b  for strings: substring test *)
Fixpoint is_prefix (a b : str) : bool :=
  match a, b with
  | [], _ => true
  | x :: a', y :: b' => (x =? y) && is_prefix a' b'
  | _ :: _, [] => false
  end.
Fixpoint is_substr (a b : str) : bool :=
  is_prefix a b || match b with [] => false | _ :: b' => is_substr a b' end.

(* ---- REO_Chunks.findall(line) followed by the "stop at the first chunk starting with #" loop.
   Regex (source in gen_chunk_src): comment | plain run | dquoted | squoted,  leftmost, alternatives in order, greedy classes:
     at '#'          : comment to the end -> tokenize stops
     at a quote q    : if a closing q exists later, the chunk is q..q (first closing q);
                       otherwise NO alternative matches at this position and findall moves on
                       one character (the lone quote is skipped)
     at ' '          : no match, skipped
     otherwise       : maximal run of characters other than space and quotes (may contain #)
   Modes Plain / InQ carry the rest of the current chunk as the HEAD of the result. *)
Inductive mode := Idle | Plain | InQ (q : Z).

Definition push (c : Z) (l : list str) : list str :=
  match l with t :: r => (c :: t) :: r | [] => [[c]] end.

Fixpoint scan (m : mode) (s : str) : list str :=
  match s with
  | [] => match m with Idle => [] | _ => [[]] end
  | c :: s' =>
    match m with
    | Idle =>
        if c =? HASH then []
        else if c =? SP then scan Idle s'
        else if is_quote c then (if mem c s' then push c (scan (InQ c) s') else scan Idle s')
        else push c (scan Plain s')
    | Plain =>
        if c =? SP then [] :: scan Idle s'
        else if is_quote c then [] :: (if mem c s' then push c (scan (InQ c) s') else scan Idle s')
        else push c (scan Plain s')
    | InQ q =>
        if c =? q then [c] :: scan Idle s' else push c (scan (InQ q) s')
    end
  end.

Definition tokens_of (s : str) : list str := scan Idle s.

(* ---- physical lines and backslash runs ---- *)
Record pline := mkline { txt : str; nl : bool }.

Definition ends_bs (s : str) : bool := match rev s with c :: _ => c =? BS | [] => false end.
(* line.endswith('\\\n') *)
Definition continues (l : pline) : bool := nl l && ends_bs (txt l).

Fixpoint join (ps : list str) : str :=
  match ps with
  | [] => []
  | [p] => p
  | p :: rest => p ++ SP :: join rest
  end.

(* piece contributed by a line that ends in backslash-newline *)
Definition piece_mid (l : pline) : str := strip (rstrip_bs (rstrip (txt l))).
(* piece contributed by the last line of a run: generated mode *)
Definition piece_last_with (m : last_mode) (l : pline) : str :=
  match m with LRstrip => rstrip (txt l) | LStrip => strip (txt l) end.
Definition piece_last := piece_last_with gen_last_mode.

Fixpoint runs_with (m : last_mode) (ls : list pline) : list (list str) :=
  match ls with
  | [] => []
  | l :: rest =>
      if continues l then
        match runs_with m rest with
        | r :: rs => (piece_mid l :: r) :: rs
        | [] => [[piece_mid l; []]]          (* EOF inside a run: readline() returns '' *)
        end
      else [piece_last_with m l] :: runs_with m rest
  end.
Definition runs := runs_with gen_last_mode.

Definition finish (pieces : list str) : list str := tokens_of (strip (join pieces)).

(* ---- connective look-ahead of Builder.build ---- *)
Definition reserved (t : str) : bool := in_words t gen_reserved.
Definition loadish (t : str) : bool := is_substr t gen_load_word.   (* tokens[0] in ('load') *)

(* cur = command being accumulated (a non-load command whose continuation is still open) *)
Fixpoint grp (cur : option (list str)) (ts : list (list str)) : list (list str) :=
  match ts with
  | [] => match cur with Some c => [c] | None => [] end
  | T :: rest =>
      match T with
      | [] => grp cur rest                              (* blank / comment-only: skipped *)
      | h :: _ =>
          match cur with
          | Some c =>
              if reserved h then grp (Some (c ++ T)) rest
              else c :: (if loadish h then T :: grp None rest else grp (Some T) rest)
          | None => if loadish h then T :: grp None rest else grp (Some T) rest
          end
      end
  end.

Definition commands_with (m : last_mode) (ls : list pline) : list (list str) :=
  grp None (map finish (runs_with m ls)).
(* the sequence of token lists handed to Builder.dispatch *)
Definition commands := commands_with gen_last_mode.

(* ======================================================================================
   Layout grammar: a laid-out document and its rendering to physical lines.
   ====================================================================================== *)
Inductive tok := TPlain (s : str) | TQuoted (q : Z) (body : str).

Definition text (t : tok) : str :=
  match t with TPlain s => s | TQuoted q b => q :: b ++ [q] end.

Definition last_not_bs (s : str) : bool := negb (ends_bs s).

(* plain: non-empty, no white space, no quotes, does not start with '#', does not end in '\'
   quoted: q is a double or single quote, body does not contain q                     *)
Definition tok_ok (t : tok) : bool :=
  match t with
  | TPlain s => match s with [] => false | c :: _ => negb (c =? HASH) end
                && forallb (fun c => negb (is_space c) && negb (is_quote c)) s
                && last_not_bs s
  | TQuoted q b => is_quote q && negb (mem q b)
  end.

Fixpoint spaces (k : nat) : str := match k with O => [] | S k' => SP :: spaces k' end.
Definition all_space (w : str) : bool := forallb is_space w.

(* tokens of one physical line: the first follows the indentation directly, every further
   token is preceded by (S k) spaces *)
Fixpoint tailb (r : list (nat * tok)%type) : str :=
  match r with [] => [] | (k, t) :: r' => spaces (S k) ++ text t ++ tailb r' end.
Definition body (l : list (nat * tok)%type) : str :=
  match l with [] => [] | (_, t) :: r => text t ++ tailb r end.

Record piece := mkpiece { indent : str; ptoks : list (nat * tok)%type }.
Definition piece_ok (p : piece) : bool :=
  all_space (indent p) && forallb (fun kt => tok_ok (snd kt)) (ptoks p).
Definition piece_toks (p : piece) : list str := map (fun kt => text (snd kt)) (ptoks p).

(* end of the last line of a run: arbitrary white space, or >= 1 space(s) + '#' + comment *)
Inductive trail := TWs (w : str) | TCom (k : nat) (c : str).
Definition trail_text (t : trail) : str :=
  match t with TWs w => w | TCom k c => spaces (S k) ++ HASH :: c end.
Definition trail_ok (t : trail) : bool :=
  match t with TWs w => all_space w | TCom _ c => last_not_bs c end.

(* a backslash run:  mids (each: piece, S k spaces, backslash, newline)  then the last line *)
Record segment := mkseg { mids : list (piece * nat)%type; lastp : piece; tr : trail }.
Definition seg_ok (s : segment) : bool :=
  forallb (fun pk => piece_ok (fst pk)) (mids s) && piece_ok (lastp s) && trail_ok (tr s).
Definition seg_toks (s : segment) : list str :=
  concat (map (fun pk => piece_toks (fst pk)) (mids s)) ++ piece_toks (lastp s).

Definition mid_line (pk : (piece * nat)%type) : pline :=
  mkline (indent (fst pk) ++ body (ptoks (fst pk)) ++ spaces (S (snd pk)) ++ [BS]) true.
Definition last_line (p : piece) (t : trail) : pline :=
  mkline (indent p ++ body (ptoks p) ++ trail_text t) true.
Definition seg_lines (s : segment) : list pline :=
  map mid_line (mids s) ++ [last_line (lastp s) (tr s)].

(* a command: filler runs (blank lines, comment lines: runs without tokens), the head run,
   then continuation runs, each after fillers and each starting with a Reserved word *)
Definition hd_is (p : str -> bool) (T : list str) : bool :=
  match T with h :: _ => p h | [] => false end.

Record lcmd := mkcmd { pre : list segment; chead : segment; conts : list (list segment * segment)%type }.
Definition filler_ok (s : segment) : bool := seg_ok s && nullb (seg_toks s).
Definition cmd_ok (c : lcmd) : bool :=
  forallb filler_ok (pre c) && seg_ok (chead c)
  && hd_is (fun h => negb (reserved h)) (seg_toks (chead c))
  && forallb (fun fs => forallb filler_ok (fst fs) && seg_ok (snd fs)
                        && hd_is reserved (seg_toks (snd fs))) (conts c)
  && (nullb (conts c) || negb (hd_is loadish (seg_toks (chead c)))).
Definition cmd_toks (c : lcmd) : list str :=
  seg_toks (chead c) ++ concat (map (fun fs => seg_toks (snd fs)) (conts c)).
Definition cmd_segs (c : lcmd) : list segment :=
  pre c ++ chead c :: concat (map (fun fs => fst fs ++ [snd fs]) (conts c)).

Record ldoc := mkdoc { cmds : list lcmd; post : list segment }.
Definition doc_ok (d : ldoc) : bool := forallb cmd_ok (cmds d) && forallb filler_ok (post d).
Definition doc_segs (d : ldoc) : list segment := concat (map cmd_segs (cmds d)) ++ post d.
Definition render (d : ldoc) : list pline := concat (map seg_lines (doc_segs d)).
(* what the document means, independent of every layout field *)
Definition doc_cmds (d : ldoc) : list (list str) := map cmd_toks (cmds d).

(* ======================================================================================
   Layout transformations (edits of the layout fields of a laid-out document) and lists
   of them.  An edit is a function ldoc -> ldoc; [apply_edits] applies a list left to right.
   ====================================================================================== *)
Definition apply_edits (L : list (ldoc -> ldoc)) (d : ldoc) : ldoc := fold_left (fun d f => f d) L d.

Definition map_seg_pieces (g : piece -> piece) (s : segment) : segment :=
  mkseg (map (fun pk => (g (fst pk), snd pk)) (mids s)) (g (lastp s)) (tr s).
Definition map_cmd_segs (h : segment -> segment) (c : lcmd) : lcmd :=
  mkcmd (map h (pre c)) (h (chead c)) (map (fun fs => (map h (fst fs), h (snd fs))) (conts c)).
Definition map_doc_segs (h : segment -> segment) (d : ldoc) : ldoc :=
  mkdoc (map (map_cmd_segs h) (cmds d)) (map h (post d)).

(* re-indent every physical line with the white space w *)
Definition x_reindent (w : str) : ldoc -> ldoc :=
  map_doc_segs (map_seg_pieces (fun p => mkpiece w (ptoks p))).
(* put S k spaces between all tokens *)
Definition x_respace (k : nat) : ldoc -> ldoc :=
  map_doc_segs (map_seg_pieces (fun p => mkpiece (indent p) (map (fun kt => (k, snd kt)) (ptoks p)))).
(* end every run with the trail t (white space or a trailing comment) *)
Definition x_trail (t : trail) : ldoc -> ldoc :=
  map_doc_segs (fun s => mkseg (mids s) (lastp s) t).
(* split the last line of every run after its first n tokens with a backslash-newline,
   the new last line indented by w *)
Definition x_backslash (n k : nat) (w : str) : ldoc -> ldoc :=
  map_doc_segs (fun s => mkseg (mids s ++ [(mkpiece (indent (lastp s)) (firstn n (ptoks (lastp s))), k)])
                               (mkpiece w (skipn n (ptoks (lastp s)))) (tr s)).
(* insert a filler run (blank line, comment line) before every command *)
Definition x_filler (f : segment) : ldoc -> ldoc :=
  fun d => mkdoc (map (fun c => mkcmd (f :: pre c) (chead c) (conts c)) (cmds d)) (post d).

(* ======================================================================================
   The load verb: Builder.buildLoad pushes the current file, opens the named one and the
   build loop goes on reading THERE; at its end the pushed file is resumed after the load
   line.  A load command is never connective-continued and the look-ahead never crosses a
   file boundary (EOF ends it), so the dispatched stream of a set of files is the
   substitution of each file's own command list at its load commands.
   cmdsOf n = the commands of file n (None: the file cannot be opened -> IOError, build stops).
   Result: the commands offered to dispatch, and whether the build loop ran to the end
   (false: malformed load -> ParseError, missing file, or fuel exhausted by recursive loads).
   Dispatch failures of OTHER verbs are outside this model.
   ====================================================================================== *)
Inductive load_kind := LNo | LBad | LFile (n : str).
Definition load_target (c : list str) : load_kind :=
  match c with
  | h :: args => if str_eqb h gen_load_word then
                   match args with [n] => LFile n | _ => LBad end
                 else LNo
  | [] => LNo
  end.

Section Load.
Variable cmdsOf : str -> option (list (list str)).

Fixpoint expand (fuel : nat) (cs : list (list str)) {struct fuel} : list (list str) * bool :=
  (fix go (cs : list (list str)) : list (list str) * bool :=
     match cs with
     | [] => ([], true)
     | c :: rest =>
         match load_target c with
         | LNo => (c :: fst (go rest), snd (go rest))
         | LBad => ([c], false)
         | LFile n =>
             match fuel with
             | O => ([c], false)
             | S f =>
                 match cmdsOf n with
                 | None => ([c], false)
                 | Some sub =>
                     if snd (expand f sub)
                     then (c :: fst (expand f sub) ++ fst (go rest), snd (go rest))
                     else (c :: fst (expand f sub), false)
                 end
             end
         end
     end) cs.
End Load.

(* a file system of physical files / of laid-out documents *)
Definition stream_of_files (fs : str -> option (list pline)) (fuel : nat) (root : list pline) :=
  expand (fun n => option_map commands (fs n)) fuel (commands root).
Definition render_fs (fsd : str -> option ldoc) : str -> option (list pline) :=
  fun n => option_map render (fsd n).
