(* C16 -- layout transformations: each generator preserves well-formedness and the commands of
   the document; a LIST of transformations does too (induction on the list). *)
From Coq Require Import List ZArith Bool Lia.
Import ListNotations.
Require Import V.gen.C16_Tables V.C16.Model V.C16.Proofs.
Open Scope Z_scope.

(* an edit that only touches layout: keeps the document well formed and its commands *)
Definition layout_edit (f : ldoc -> ldoc) : Prop :=
  forall d, doc_ok d = true -> doc_ok (f d) = true /\ doc_cmds (f d) = doc_cmds d.

Lemma apply_edits_keep : forall L, Forall layout_edit L -> forall d, doc_ok d = true ->
  doc_ok (apply_edits L d) = true /\ doc_cmds (apply_edits L d) = doc_cmds d.
Proof.
  induction L as [|f L IH]; intros HL d Hd; simpl; auto.
  inversion HL as [|? ? Hf HL']; subst. destruct (Hf d Hd) as [H1 H2].
  destruct (IH HL' (f d) H1) as [H3 H4]. split; auto. congruence.
Qed.

Theorem layout_edits_invariant_proof : forall L, Forall layout_edit L -> forall d, doc_ok d = true ->
  commands (render (apply_edits L d)) = commands (render d).
Proof.
  intros L HL d Hd. destruct (apply_edits_keep L HL d Hd) as [H1 H2].
  rewrite !layout_invariant_proof by auto. exact H2.
Qed.

(* ---- a segment map that keeps seg_ok and seg_toks is a layout edit ---- *)
Section SegMap.
Variable h : segment -> segment.
Hypothesis h_ok : forall s, seg_ok s = true -> seg_ok (h s) = true.
Hypothesis h_toks : forall s, seg_toks (h s) = seg_toks s.

Lemma h_filler : forall s, filler_ok s = true -> filler_ok (h s) = true.
Proof.
  intros s H. unfold filler_ok in *. apply andb_true_iff in H as [H1 H2].
  rewrite h_ok, h_toks by auto. exact H2.
Qed.

Lemma h_fillers : forall l, forallb filler_ok l = true -> forallb filler_ok (map h l) = true.
Proof.
  induction l; simpl; intros; auto. apply andb_true_iff in H as [H1 H2].
  rewrite h_filler, IHl by auto. reflexivity.
Qed.

Lemma h_cmd_toks : forall c, cmd_toks (map_cmd_segs h c) = cmd_toks c.
Proof.
  intros c. unfold cmd_toks, map_cmd_segs. cbn [chead conts]. rewrite h_toks. f_equal.
  rewrite map_map. f_equal. apply map_ext. intros [fl s]. cbn [snd]. apply h_toks.
Qed.

Lemma h_cmd_ok : forall c, cmd_ok c = true -> cmd_ok (map_cmd_segs h c) = true.
Proof.
  intros c H. unfold cmd_ok in *. unfold map_cmd_segs. cbn [pre chead conts].
  apply andb_true_iff in H as [H Hl]. apply andb_true_iff in H as [H Hc].
  apply andb_true_iff in H as [H Hh]. apply andb_true_iff in H as [Hp Hs].
  rewrite h_fillers, h_ok, h_toks by auto. rewrite Hh. simpl.
  assert (Hc' : forallb (fun fs => forallb filler_ok (fst fs) && seg_ok (snd fs) && hd_is reserved (seg_toks (snd fs)))
                  (map (fun fs => (map h (fst fs), h (snd fs))) (conts c)) = true).
  { clear -Hc h_ok h_toks. induction (conts c) as [|[fl s] cs IH]; simpl in *; auto.
    apply andb_true_iff in Hc as [H1 H2]. apply andb_true_iff in H1 as [H1 Hr].
    apply andb_true_iff in H1 as [Hf Hs]. rewrite h_fillers, h_ok, h_toks, Hr, IH by auto. reflexivity. }
  rewrite Hc'. simpl. destruct (conts c); simpl in *; auto.
Qed.

Lemma seg_map_edit : layout_edit (map_doc_segs h).
Proof.
  intros [cl po] H. unfold doc_ok in *. cbn [cmds post] in *. apply andb_true_iff in H as [Hc Hp].
  unfold map_doc_segs, doc_cmds. cbn [cmds post]. split.
  - rewrite h_fillers by auto. rewrite andb_true_r.
    clear Hp. induction cl; simpl in *; auto. apply andb_true_iff in Hc as [H1 H2].
    rewrite h_cmd_ok, IHcl by auto. reflexivity.
  - rewrite map_map. apply map_ext. apply h_cmd_toks.
Qed.
End SegMap.

(* ---- a piece map that keeps piece_ok and piece_toks ---- *)
Section PieceMap.
Variable g : piece -> piece.
Hypothesis g_ok : forall p, piece_ok p = true -> piece_ok (g p) = true.
Hypothesis g_toks : forall p, piece_toks (g p) = piece_toks p.

Lemma piece_map_edit : layout_edit (map_doc_segs (map_seg_pieces g)).
Proof.
  apply seg_map_edit.
  - intros [ms lp t] H. unfold seg_ok, map_seg_pieces in *. cbn [mids lastp tr] in *.
    apply andb_true_iff in H as [H Ht]. apply andb_true_iff in H as [Hm Hl].
    rewrite g_ok, Ht by auto. rewrite !andb_true_r.
    clear Hl Ht. induction ms as [|[p k] ms IH]; simpl in *; auto.
    apply andb_true_iff in Hm as [H1 H2]. rewrite g_ok, IH by auto. reflexivity.
  - intros [ms lp t]. unfold seg_toks, map_seg_pieces. cbn [mids lastp tr]. rewrite g_toks. f_equal.
    rewrite map_map. f_equal. apply map_ext. intros [p k]. cbn [fst]. apply g_toks.
Qed.
End PieceMap.

Lemma forallb_map' : forall A B (f : B -> bool) (g : A -> B) l, forallb f (map g l) = forallb (fun x => f (g x)) l.
Proof. induction l; simpl; auto. rewrite IHl. reflexivity. Qed.

(* ---- the generators ---- *)
Lemma x_reindent_edit : forall w, all_space w = true -> layout_edit (x_reindent w).
Proof.
  intros w Hw. apply piece_map_edit.
  - intros p H. unfold piece_ok in *. cbn [indent ptoks]. apply andb_true_iff in H as [_ H]. rewrite Hw, H. reflexivity.
  - reflexivity.
Qed.

Lemma x_respace_edit : forall k, layout_edit (x_respace k).
Proof.
  intros k. apply piece_map_edit.
  - intros p H. unfold piece_ok in *. cbn [indent ptoks]. apply andb_true_iff in H as [Hi H]. rewrite Hi. simpl.
    rewrite forallb_map'. exact H.
  - intros p. unfold piece_toks. cbn [ptoks]. rewrite map_map. reflexivity.
Qed.

Lemma x_trail_edit : forall t, trail_ok t = true -> layout_edit (x_trail t).
Proof.
  intros t Ht. apply seg_map_edit.
  - intros s H. unfold seg_ok in *. cbn [mids lastp tr]. apply andb_true_iff in H as [H _]. rewrite H, Ht. reflexivity.
  - reflexivity.
Qed.

Lemma forallb_firstn : forall A (f : A -> bool) n l, forallb f l = true -> forallb f (firstn n l) = true.
Proof. induction n; destruct l; simpl; intros; auto. apply andb_true_iff in H as [H1 H2]. rewrite H1, IHn; auto. Qed.
Lemma forallb_skipn : forall A (f : A -> bool) n l, forallb f l = true -> forallb f (skipn n l) = true.
Proof. induction n; destruct l; simpl; intros; auto. apply andb_true_iff in H as [H1 H2]. auto. Qed.

Lemma x_backslash_edit : forall n k w, all_space w = true -> layout_edit (x_backslash n k w).
Proof.
  intros n k w Hw. apply seg_map_edit.
  - intros s H. unfold seg_ok in *. cbn [mids lastp tr].
    apply andb_true_iff in H as [H Ht]. apply andb_true_iff in H as [Hm Hl].
    unfold piece_ok in Hl. apply andb_true_iff in Hl as [Hi Hk].
    rewrite forallb_app, Hm, Ht. simpl. unfold piece_ok. cbn [indent ptoks].
    rewrite Hi, Hw, forallb_firstn, forallb_skipn by auto. reflexivity.
  - intros s. unfold seg_toks. cbn [mids lastp tr]. rewrite map_app, concat_app. simpl.
    rewrite app_nil_r, <- app_assoc. f_equal. unfold piece_toks. cbn [ptoks].
    rewrite <- map_app, firstn_skipn. reflexivity.
Qed.

Lemma x_filler_edit : forall f, filler_ok f = true -> layout_edit (x_filler f).
Proof.
  intros f Hf [cl po] H. unfold doc_ok in *. cbn [cmds post] in *. apply andb_true_iff in H as [Hc Hp].
  unfold x_filler, doc_cmds. cbn [cmds post]. split.
  - rewrite Hp, andb_true_r. clear Hp. induction cl as [|c cl IH]; simpl in *; auto.
    apply andb_true_iff in Hc as [H1 H2]. rewrite IH by auto. rewrite andb_true_r.
    unfold cmd_ok in *. cbn [pre chead conts]. simpl. rewrite Hf. simpl. exact H1.
  - rewrite map_map. apply map_ext. intros c. reflexivity.
Qed.

(* ---------- load: the stream of several files ---------- *)
Lemma expand_ext : forall c1 c2, (forall n, c1 n = c2 n) ->
  forall fuel cs, expand c1 fuel cs = expand c2 fuel cs.
Proof.
  intros c1 c2 H. induction fuel as [|f IH]; intros cs.
  - induction cs as [|c rest IHc]; [reflexivity|].
    cbn [expand]. cbn [expand] in IHc. destruct (load_target c); try reflexivity; try (rewrite IHc; reflexivity).
  - induction cs as [|c rest IHc]; [reflexivity|].
    cbn [expand]. cbn [expand] in IHc. destruct (load_target c); try reflexivity.
    + rewrite IHc. reflexivity.
    + rewrite H. destruct (c2 n); try reflexivity. rewrite !IH. rewrite IHc. reflexivity.
Qed.

(* every file laid out two ways (same commands per file, both well formed): same stream *)
Theorem load_layout_invariant_proof : forall (fsd1 fsd2 : str -> option ldoc) fuel d1 d2,
  (forall n, match fsd1 n, fsd2 n with
             | Some a, Some b => doc_ok a = true /\ doc_ok b = true /\ doc_cmds a = doc_cmds b
             | None, None => True
             | _, _ => False
             end) ->
  doc_ok d1 = true -> doc_ok d2 = true -> doc_cmds d1 = doc_cmds d2 ->
  stream_of_files (render_fs fsd1) fuel (render d1) = stream_of_files (render_fs fsd2) fuel (render d2).
Proof.
  intros fsd1 fsd2 fuel d1 d2 H H1 H2 He. unfold stream_of_files.
  rewrite !layout_invariant_proof by auto. rewrite He.
  apply expand_ext. intros n. unfold render_fs. specialize (H n).
  destruct (fsd1 n) as [a|], (fsd2 n) as [b|]; simpl; try contradiction; auto.
  destruct H as (Ha & Hb & E). rewrite !layout_invariant_proof by auto. rewrite E. reflexivity.
Qed.
