(* C16 -- property theorems only.  Each closed by [exact]; Print Assumptions beneath. *)
From Coq Require Import List ZArith Bool String.
Import ListNotations.
Require Import V.gen.C16_Tables V.Lib.C16_Str V.C16.Model V.C16.Words V.C16.Proofs V.C16.Xform.
Open Scope Z_scope.
Open Scope string_scope.

(* For every laid-out document d in the layout grammar (indentation by any white space,
   any number of spaces between tokens, backslash-newline breaks at token boundaries,
   breaks before a Reserved word with optional trailing comment, blank lines, comment-only
   lines, trailing white space / trailing comments; tokens = plain words or quoted strings),
   the command sequence that Builder.build hands to dispatch, computed by the model of
   tokenize + the connective look-ahead over the GENERATED tables, is the document's token
   structure -- it does not depend on any layout field. *)
Theorem layout_invariant : forall d, doc_ok d = true -> commands (render d) = doc_cmds d.
Proof. exact layout_invariant_proof. Qed.
Print Assumptions layout_invariant.

(* two layouts of the same commands build from the same dispatch sequence *)
Theorem layout_invariant_any_two : forall d1 d2, doc_ok d1 = true -> doc_ok d2 = true ->
  doc_cmds d1 = doc_cmds d2 -> commands (render d1) = commands (render d2).
Proof. exact layout_invariant2_proof. Qed.
Print Assumptions layout_invariant_any_two.

(* Transformation-list form.  A layout edit is a function on laid-out documents that keeps the
   document well formed and its commands; ANY list of layout edits, applied in order, leaves
   the dispatched command sequence unchanged (induction on the list). *)
Theorem layout_edits_invariant : forall L, Forall layout_edit L -> forall d, doc_ok d = true ->
  commands (render (apply_edits L d)) = commands (render d).
Proof. exact layout_edits_invariant_proof. Qed.
Print Assumptions layout_edits_invariant.

(* the generators of the transformation grammar are layout edits: re-indent every line with any
   white space, change the number of spaces between tokens, end every run with trailing white
   space or a trailing comment, split the last line of every run after n tokens with
   backslash-newline, insert a blank / comment-only run before every command *)
Theorem generators_are_layout_edits :
  (forall w, all_space w = true -> layout_edit (x_reindent w)) /\
  (forall k, layout_edit (x_respace k)) /\
  (forall t, trail_ok t = true -> layout_edit (x_trail t)) /\
  (forall n k w, all_space w = true -> layout_edit (x_backslash n k w)) /\
  (forall f, filler_ok f = true -> layout_edit (x_filler f)).
Proof. exact (conj x_reindent_edit (conj x_respace_edit (conj x_trail_edit (conj x_backslash_edit x_filler_edit)))). Qed.
Print Assumptions generators_are_layout_edits.

(* The load verb.  For file systems of laid-out documents: if every file is laid out two ways
   (both well formed, same commands per file; same files missing) and so is the root file, the
   stream of commands offered to dispatch across all loaded files, and whether the build loop
   runs to the end, are the same -- for every nesting depth bound (fuel). *)
Theorem load_layout_invariant : forall (fsd1 fsd2 : str -> option ldoc) fuel d1 d2,
  (forall n, match fsd1 n, fsd2 n with
             | Some a, Some b => doc_ok a = true /\ doc_ok b = true /\ doc_cmds a = doc_cmds b
             | None, None => True
             | _, _ => False
             end) ->
  doc_ok d1 = true -> doc_ok d2 = true -> doc_cmds d1 = doc_cmds d2 ->
  stream_of_files (render_fs fsd1) fuel (render d1) = stream_of_files (render_fs fsd2) fuel (render d2).
Proof. exact load_layout_invariant_proof. Qed.
Print Assumptions load_layout_invariant.

(* The Builder keeps no layout state that dispatch can see: the attributes written by tokenize
   and the build loop are exactly these four (extracted from the AST on this run; the translator
   also fails unless every OTHER method reads the line counter only as a `count=` argument --
   the declaration's line number kept for messages -- and never touches the file state).
   currentHuman is ' '.join(tokens), a function of the command. *)
Theorem loop_state_shape :
  gen_loop_writes = map zs ["currentCount"; "currentFile"; "currentHuman"; "fileName"].
Proof. exact eq_refl. Qed.
Print Assumptions loop_state_shape.

(* The continuation rule uses the EXTRACTED Reserved list.  It consists of documented words only
   (a lost comma, e.g. 'not' '+-', makes an undocumented entry), and every documented word that a
   command parser compares the current token with (extracted: gen_parser_connectives) is in it --
   so a clause may be moved to a line of its own whatever connective it starts with. *)
Theorem reserved_words_documented_and_complete : reserved_sound = true /\ reserved_complete = true.
Proof. exact (conj eq_refl eq_refl). Qed.
Print Assumptions reserved_words_documented_and_complete.

(* the scanner never depends on surrounding plain spaces, whatever the text *)
Theorem chunks_ignore_outer_spaces : forall a b s,
  tokens_of (app (spaces a) (app s (spaces b))) = tokens_of s.
Proof. exact outer_spaces. Qed.
Print Assumptions chunks_ignore_outer_spaces.

(* ---- non-vacuity: a document using every layout device ---- *)
Definition P (i : string) (l : list string) : piece :=
  mkpiece (zs i) (map (fun w => (1%nat, TPlain (zs w))) l).
Definition TAB : string := String (Ascii.ascii_of_nat 9) EmptyString.

Definition ex_doc : ldoc :=
  mkdoc
    [ mkcmd [ mkseg [] (P "" []) (TCom 0 (zs " header \ with stray backslash ")) ; mkseg [] (P "   " []) (TWs []) ]
            (mkseg [ (P "  " ["put"; "true"], 0%nat) ] (P (TAB ++ "  ") ["into"; "stuff"]) (TCom 2 (zs " trailing")))
            [ ([ mkseg [] (P "      " []) (TCom 0 (zs "between")) ], mkseg [] (P "      " ["of"; "framer"]) (TWs (zs "  "))) ];
      mkcmd [] (mkseg [] (mkpiece [] [(0%nat, TPlain (zs "print")); (3%nat, TQuoted DQ (zs "a  #b 'c' \"))]) (TWs [])) [];
      mkcmd [] (mkseg [] (P "" ["load"; "x.flo"]) (TWs [])) [] ]
    [ mkseg [] (P "" []) (TWs []) ].

Example ex_doc_ok : doc_ok ex_doc = true.
Proof. vm_compute. reflexivity. Qed.

Example ex_doc_commands :
  commands (render ex_doc) =
  [ map zs ["put"; "true"; "into"; "stuff"; "of"; "framer"]%string;
    [zs "print"; DQ :: app (zs "a  #b 'c' \") [DQ]];
    map zs ["load"; "x.flo"]%string ].
Proof. vm_compute. reflexivity. Qed.

Example ex_doc_lines : List.length (render ex_doc) = 9%nat.
Proof. vm_compute. reflexivity. Qed.

Example ex_edit_list :
  let L := [x_reindent (zs TAB); x_backslash 1 0 (zs "  "); x_trail (TCom 1 (zs " c")); x_respace 2;
            x_filler (mkseg [] (P "" []) (TWs []))] in
  commands (render (apply_edits L ex_doc)) = commands (render ex_doc) /\
  List.length (render (apply_edits L ex_doc)) = 20%nat.
Proof. vm_compute. split; reflexivity. Qed.

(* ---- OUTSIDE the grammar, shown to change the result (so the restrictions are visible) ---- *)
Definition L (s : string) : pline := mkline (zs s) true.

(* a comment line inside a backslash run ends the run *)
Example outside_comment_in_run :
  commands [L "print hello \"; L "# note"; L "  world"] = [ map zs ["print"; "hello"]; [zs "world"] ] /\
  commands [L "print hello \"; L "  world"] = [ map zs ["print"; "hello"; "world"] ].
Proof. vm_compute. split; reflexivity. Qed.

(* a backslash followed by a space is not a continuation: the backslash becomes a token *)
Example outside_backslash_space :
  commands [L "put true \ "; L "  into x"] = [ map zs ["put"; "true"; "\"; "into"; "x"]%string ].
Proof. vm_compute. reflexivity. Qed.

(* a comment-only line that ends in a backslash swallows the next line *)
Example outside_comment_backslash :
  commands [L "# note \"; L "frame a"; L "frame b"] = [ map zs ["frame"; "b"]%string ].
Proof. vm_compute. reflexivity. Qed.

(* a final line without newline that ends in a backslash keeps the backslash *)
Example outside_unterminated_backslash :
  commands [mkline (zs "frame a \") false] = [ map zs ["frame"; "a"; "\"]%string ].
Proof. vm_compute. reflexivity. Qed.

(* a tab between words is not a separator (only the space is) *)
Example outside_tab_separator :
  commands [L ("put" ++ TAB ++ "true")] = [ [zs ("put" ++ TAB ++ "true")] ].
Proof. vm_compute. reflexivity. Qed.

(* ... so a trailing comment after a tab is not a comment: the tab and '#' join the token *)
Example outside_tab_before_comment :
  commands [L ("frame a" ++ TAB ++ "# note")] = [ [zs "frame"; zs ("a" ++ TAB ++ "#"); zs "note"] ].
Proof. vm_compute. reflexivity. Qed.

(* load: the loaded file's commands are spliced in after the load command *)
Example ex_load_stream :
  stream_of_files (fun n => if str_eqb n (zs "b.flo") then Some [L "frame b"; L "  go c \"; L "  if x"] else None) 3
                  [L "frame a"; L "load b.flo"; L "  to q"; L "load missing.flo"; L "frame z"]
  = ([ map zs ["frame"; "a"]; map zs ["load"; "b.flo"]; map zs ["frame"; "b"]; map zs ["go"; "c"; "if"; "x"];
       map zs ["to"; "q"]; map zs ["load"; "missing.flo"] ], false).
Proof. vm_compute. reflexivity. Qed.

(* 'load' cannot be continued on a connective line *)
Example outside_load_continuation :
  commands [L "load a.flo"; L "  to b"] = [ map zs ["load"; "a.flo"]%string; map zs ["to"; "b"]%string ].
Proof. vm_compute. reflexivity. Qed.

(* the defect this check found (fixed by fixes/C16-strip-last-continuation-line.patch):
   with the last line of a run only right-stripped, its tab indentation leaks into a token *)
Example unfixed_tab_indent_leaks :
  commands_with LRstrip [L "put true \"; L (TAB ++ "into x")]
  = [ [zs "put"; zs "true"; zs (TAB ++ "into"); zs "x"] ] /\
  commands_with LStrip [L "put true \"; L (TAB ++ "into x")]
  = [ map zs ["put"; "true"; "into"; "x"]%string ].
Proof. vm_compute. split; reflexivity. Qed.
