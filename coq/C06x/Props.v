(* C06x -- the static methods Framer.ExEn / Framer.Uncommon, TRANSLATED from the current
   ioflo/base/framing.py (coq/gen/Framing.v; frames = nat ids, `is` = Nat.eqb, far.outline = the
   extra argument), equal their specifications for ALL lists and all far.  Theorems closed by exact. *)
From Coq Require Import ZArith List Bool.
Import ListNotations.
Require Import V.Lib.C40_PyRt V.gen.Framing V.Kernel.Model V.C06x.Model V.C06x.Proofs.

(* the source of Framer.ExEn computes exactly the kernel model's exen (whose properties exen_correct,
   exen_partition, exen_self are proved in coq/Kernel/ExEnProofs.v); it never raises *)
Theorem gen_ExEn_is_exen : forall nears fars far, gen_ExEn nears fars far = Ok (exen nears fars far []).
Proof. exact gen_ExEn_exen. Qed.
Print Assumptions gen_ExEn_is_exen.

Theorem gen_Uncommon_is_uncommon : forall near far, gen_Uncommon near far = Ok (uncommon near far).
Proof. exact gen_Uncommon_uncommon. Qed.
Print Assumptions gen_Uncommon_is_uncommon.

(* uncommon = split at the first index where the outlines differ (nothing if one is a prefix of the other) *)
Theorem uncommon_is_first_difference : forall near far ex en, uncommon near far = (ex, en) ->
  (ex = [] /\ en = [] /\ exists c r, (near = c /\ far = c ++ r) \/ (far = c /\ near = c ++ r)) \/
  (exists c x y ex' en', near = c ++ x :: ex' /\ far = c ++ y :: en' /\ x <> y /\ ex = x :: ex' /\ en = y :: en').
Proof. exact uncommon_first_difference. Qed.
Print Assumptions uncommon_is_first_difference.

Local Open Scope nat_scope.
Example c06x_exen_forced : gen_ExEn [1;2;3] [1;2;4] 2 = Ok ([2;3], [2;4], [1]).
Proof. vm_compute. reflexivity. Qed.
Example c06x_uncommon : gen_Uncommon [1;2;3] [1;2;4;5] = Ok ([3], [4;5]).
Proof. vm_compute. reflexivity. Qed.
