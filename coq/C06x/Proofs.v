(* C06x -- the translated Framer.ExEn / Framer.Uncommon (coq/gen/Framing.v) equal their specifications.
   Self-contained (does not depend on the C40 proofs). *)
From Coq Require Import ZArith List Bool Lia ZifyBool.
Import ListNotations.
Require Import V.Lib.C40_PyRt V.gen.Framing V.Kernel.Model V.C06x.Model.
Open Scope Z_scope.

(* ---- prelude facts ---- *)
Lemma x_py_len_app : forall A (a b : list A), py_len (a ++ b) = py_len a + py_len b.
Proof. intros. unfold py_len. rewrite app_length. lia. Qed.
Lemma x_range_up : forall n, 0 <= n -> py_range 0 n 1 = map Z.of_nat (seq 0 (Z.to_nat n)).
Proof.
  intros. unfold py_range. change (0 <? 1) with true. cbv iota.
  replace ((n - 0 + 1 - 1) / 1) with n by (rewrite Z.div_1_r; lia). apply map_ext. intros. lia.
Qed.
Lemma x_min_len : forall A B (a : list A) (b : list B),
  Z.min (py_len a) (py_len b) = Z.of_nat (Nat.min (length a) (length b)).
Proof. intros. unfold py_len. rewrite Nat2Z.inj_min. reflexivity. Qed.
Lemma x_index : forall A (pre : list A) v post, py_index (pre ++ v :: post) (Z.of_nat (length pre)) = Ok v.
Proof.
  intros. unfold py_index, py_len. destruct (Z.of_nat (length pre) <? 0) eqn:E; [lia|]. rewrite E.
  rewrite Nat2Z.id, nth_error_app2 by lia. rewrite Nat.sub_diag. reflexivity.
Qed.
Lemma x_slice_tail : forall A (pre rest : list A),
  py_slice (pre ++ rest) (Z.of_nat (length pre)) (py_len (pre ++ rest)) = rest.
Proof.
  intros. unfold py_slice, py_clip. rewrite x_py_len_app. unfold py_len.
  destruct (Z.of_nat (length pre) <? 0) eqn:E1; [lia|].
  destruct (Z.of_nat (length pre) + Z.of_nat (length rest) <? 0) eqn:E2; [lia|].
  rewrite Z.min_id, Z.min_l by lia.
  replace (Z.to_nat (Z.of_nat (length pre) + Z.of_nat (length rest) - Z.of_nat (length pre))) with (length rest) by lia.
  rewrite Nat2Z.id, skipn_app, skipn_all, Nat.sub_diag. cbn [skipn app]. apply firstn_all.
Qed.
Lemma x_slice_head : forall A (pre rest : list A), py_slice (pre ++ rest) 0 (Z.of_nat (length pre)) = pre.
Proof.
  intros. unfold py_slice, py_clip. rewrite x_py_len_app. unfold py_len. change (0 <? 0) with false. cbv iota.
  destruct (Z.of_nat (length pre) <? 0) eqn:E1; [lia|].
  rewrite (Z.min_l 0), Z.min_l, Z.sub_0_r by lia. change (Z.to_nat 0) with 0%nat. cbn [skipn].
  rewrite Nat2Z.id, firstn_app, firstn_all, Nat.sub_diag. cbn [firstn]. apply app_nil_r.
Qed.
Lemma x_slice_all : forall A (l : list A), py_slice l 0 (py_len l) = l.
Proof. intros. pose proof (x_slice_head A l []) as H. rewrite app_nil_r in H. exact H. Qed.

(* ---- ExEn: the early-exit loop, generic in the body ---- *)
Section ExEnLoop.
Variables nears fars : list nat.
Variable far : nat.
Let T := (list nat * list nat * list nat)%type.
Variable F : unit -> Z -> res (unit + T).
Hypothesis HF : forall pn x ns pf y fs, nears = pn ++ x :: ns -> fars = pf ++ y :: fs -> length pn = length pf ->
  F tt (Z.of_nat (length pn)) =
  Ok (if Nat.eqb x far || negb (Nat.eqb x y) then inr (x :: ns, y :: fs, pn) else inl tt).

Lemma exen_loop : forall ns fs pn pf, nears = pn ++ ns -> fars = pf ++ fs -> length pn = length pf ->
  exists r, for_ret (map Z.of_nat (seq (length pn) (Nat.min (length ns) (length fs)))) tt F = Ok r /\
            match r with inr v => v | inl _ => ([], [], nears) end = exen ns fs far (rev pn).
Proof.
  induction ns as [|x ns IH]; intros fs pn pf Hn Hf Hl.
  - exists (inl tt). split; [reflexivity|]. cbn [exen]. rewrite rev_involutive, Hn. reflexivity.
  - destruct fs as [|y fs].
    + exists (inl tt). split; [reflexivity|]. cbn [exen]. rewrite rev_involutive, Hn. reflexivity.
    + cbn [length Nat.min seq map for_ret]. rewrite (HF pn x ns pf y fs Hn Hf Hl). cbn [bind exen].
      destruct (Nat.eqb x far || negb (Nat.eqb x y)).
      * eexists. split; [reflexivity|]. cbv iota. rewrite rev_involutive. reflexivity.
      * destruct (IH fs (pn ++ [x]) (pf ++ [y])) as [r [Hr Hfin]].
        { rewrite <- app_assoc. exact Hn. } { rewrite <- app_assoc. exact Hf. }
        { rewrite !app_length. cbn. lia. }
        rewrite app_length in Hr. cbn [length] in Hr. rewrite Nat.add_1_r in Hr.
        exists r. split; [exact Hr|]. rewrite Hfin, rev_app_distr. reflexivity.
Qed.
End ExEnLoop.

Lemma gen_ExEn_exen : forall nears fars far, gen_ExEn nears fars far = Ok (exen nears fars far []).
Proof.
  intros nears fars far. unfold gen_ExEn. cbv zeta.
  rewrite x_min_len, x_range_up by lia. rewrite Nat2Z.id.
  match goal with |- context [for_ret _ tt ?F] =>
    destruct (exen_loop nears fars far F) with (ns := nears) (fs := fars) (pn := @nil nat) (pf := @nil nat)
      as [r [Hr Hfin]] end; try reflexivity.
  - intros pn x ns pf y fs Hn Hf Hl. subst nears fars. cbv beta.
    rewrite x_index. cbn [bind].
    destruct (Nat.eqb x far) eqn:E1; cbn [orb].
    + cbn [bind]. rewrite x_slice_tail, Hl, x_slice_tail, <- Hl, x_slice_head. reflexivity.
    + rewrite ?x_index, Hl, ?x_index. cbn [bind].
      destruct (negb (Nat.eqb x y)); [|reflexivity].
      rewrite <- Hl, x_slice_tail, Hl, x_slice_tail, <- Hl, x_slice_head. reflexivity.
  - cbn [length] in Hr. rewrite Hr. cbn [bind rev] in *.
    destruct r as [u|v]; [rewrite x_slice_all|]; apply f_equal; exact Hfin.
Qed.

(* ---- Uncommon ---- *)
Section UncommonLoop.
Variables near far : list nat.
Let T := (list nat * list nat)%type.
Variable F : unit -> Z -> res (unit + T).
Hypothesis HF : forall pn x ns pf y fs, near = pn ++ x :: ns -> far = pf ++ y :: fs -> length pn = length pf ->
  F tt (Z.of_nat (length pn)) = Ok (if negb (Nat.eqb x y) then inr (x :: ns, y :: fs) else inl tt).

Lemma uncommon_loop : forall ns fs pn pf, near = pn ++ ns -> far = pf ++ fs -> length pn = length pf ->
  exists r, for_ret (map Z.of_nat (seq (length pn) (Nat.min (length ns) (length fs)))) tt F = Ok r /\
            match r with inr v => v | inl _ => ([], []) end = uncommon ns fs.
Proof.
  induction ns as [|x ns IH]; intros fs pn pf Hn Hf Hl.
  - exists (inl tt). split; reflexivity.
  - destruct fs as [|y fs].
    + exists (inl tt). split; reflexivity.
    + cbn [length Nat.min seq map for_ret]. rewrite (HF pn x ns pf y fs Hn Hf Hl). cbn [bind uncommon].
      destruct (negb (Nat.eqb x y)).
      * eexists. split; reflexivity.
      * destruct (IH fs (pn ++ [x]) (pf ++ [y])) as [r [Hr Hfin]].
        { rewrite <- app_assoc. exact Hn. } { rewrite <- app_assoc. exact Hf. }
        { rewrite !app_length. cbn. lia. }
        rewrite app_length in Hr. cbn [length] in Hr. rewrite Nat.add_1_r in Hr.
        exists r. split; assumption.
Qed.
End UncommonLoop.

Lemma gen_Uncommon_uncommon : forall near far, gen_Uncommon near far = Ok (uncommon near far).
Proof.
  intros near far. unfold gen_Uncommon. cbv zeta.
  rewrite x_min_len, x_range_up by lia. rewrite Nat2Z.id.
  match goal with |- context [for_ret _ tt ?F] =>
    destruct (uncommon_loop near far F) with (ns := near) (fs := far) (pn := @nil nat) (pf := @nil nat)
      as [r [Hr Hfin]] end; try reflexivity.
  - intros pn x ns pf y fs Hn Hf Hl. subst near far. cbv beta.
    rewrite x_index, Hl, x_index. cbn [bind].
    destruct (negb (Nat.eqb x y)); [|reflexivity].
    rewrite x_slice_tail, <- Hl, x_slice_tail. reflexivity.
  - cbn [length] in Hr. rewrite Hr. cbn [bind]. destruct r; apply f_equal; exact Hfin.
Qed.

(* the small spec, characterised: first index where the outlines differ *)
Lemma uncommon_first_difference : forall near far ex en, uncommon near far = (ex, en) ->
  (ex = [] /\ en = [] /\ exists c r, (near = c /\ far = c ++ r) \/ (far = c /\ near = c ++ r)) \/
  (exists c x y ex' en', near = c ++ x :: ex' /\ far = c ++ y :: en' /\ x <> y /\ ex = x :: ex' /\ en = y :: en').
Proof.
  induction near as [|n ns IH]; intros far ex en H.
  - cbn in H. inversion H; subst. left. repeat split; try reflexivity. exists [], far. left. split; reflexivity.
  - destruct far as [|f fs].
    + cbn in H. inversion H; subst. left. repeat split; try reflexivity. exists [], (n :: ns). right. split; reflexivity.
    + cbn [uncommon] in H. destruct (Nat.eqb n f) eqn:E; cbn [negb] in H.
      * apply Nat.eqb_eq in E. subst f. destruct (IH fs ex en H) as [[-> [-> [c [r Hc]]]] | [c [x [y [ex' [en' [A [B [C [D G]]]]]]]]]].
        -- left. repeat split; try reflexivity. exists (n :: c), r.
           destruct Hc as [[-> ->] | [-> ->]]; [left|right]; split; reflexivity.
        -- right. exists (n :: c), x, y, ex', en'. subst. repeat split; try reflexivity. assumption.
      * apply Nat.eqb_neq in E. inversion H; subst. right. exists [], n, f, ns, fs. repeat split; try reflexivity. assumption.
Qed.
