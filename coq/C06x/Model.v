(* C06x -- specification side for the translated static methods Framer.ExEn / Framer.Uncommon
   (definitions only).  The translated code is coq/gen/Framing.v; the specification of ExEn is the
   kernel model's [exen] (coq/Kernel/Model.v). *)
From Coq Require Import List Arith Bool.
Import ListNotations.

(* Framer.Uncommon: drop the longest common prefix (compared pointwise, up to the shorter list);
   if no position differs within the shorter list, nothing is uncommon *)
Fixpoint uncommon (near far : list nat) : list nat * list nat :=
  match near, far with
  | n :: ns, f :: fs => if negb (Nat.eqb n f) then (near, far) else uncommon ns fs
  | _, _ => ([], [])
  end.
