(* C36 composed with C24: the self-contained model of Incomer.serviceTxes used by C36
   (Model.conn_tx) IS C24's tx_loop for KIncomer, under the obvious translation of oracles
   (Acc n -> Sent n, Cut -> SCut; C36's exhausted oracle "accepts everything" = C24's oracle
   padded with over-long Sent counts).  Hence the per-connection prefix property of C36 is a
   corollary of C24's tx_exactly_once_in_order. *)
From Coq Require Import List ZArith Bool Arith Lia.
Import ListNotations.
Require Import V.C36.Model.
Require V.C24.Model V.C24.Props.
Module C24 := V.C24.Model.

Definition tr (r : sres) : C24.sres := match r with Acc n => C24.Sent n | Cut => C24.SCut end.
Definition w0 : C24.wcfg := C24.Build_wcfg false false false false.
Definition pad (N k : nat) : list C24.sres := repeat (C24.Sent N) k.

Lemma skipn_nil_iff {A} n (d : list A) : skipn n d = [] <-> (length d <= n)%nat.
Proof.
  split; intros H.
  - destruct (le_lt_dec (length d) n) as [L|L]; [exact L|].
    pose proof (skipn_length n d) as E. rewrite H in E. cbn in E. lia.
  - apply skipn_all2. exact H.
Qed.

Lemma conn_tx_is_C24 tx : forall orc s N k,
  C24.cutoff s = false -> (forall d, In d tx -> (length d <= N)%nat) -> (length tx <= k)%nat ->
  forall tx' w' cu o', conn_tx tx orc (C24.accepted s) = (tx', w', cu, o') ->
  exists s', C24.tx_loop C24.KIncomer w0 tx (map tr orc ++ pad N k) s = (s', false) /\
             C24.txes s' = tx' /\ C24.accepted s' = w' /\ C24.cutoff s' = cu /\
             C24.queued s' = C24.queued s.
Proof.
  induction tx as [|d tx IH]; intros orc s N k Hc HN Hk tx' w' cu o' H.
  - cbn in H. inversion H; subst. cbn. eexists; repeat split; cbn; auto.
  - cbn [conn_tx] in H. cbn [C24.tx_loop]. unfold C24.guard. rewrite Hc. cbn [negb].
    assert (Hd : (length d <= N)%nat) by (apply HN; left; reflexivity).
    assert (HN' : forall d0, In d0 tx -> (length d0 <= N)%nat) by (intros; apply HN; right; assumption).
    cbn [length] in Hk.
    destruct orc as [|[n|] o]; cbn [send_buf map app tr] in *.
    + (* oracle exhausted: C36 accepts all; C24 reads an over-long Sent from the padding *)
      destruct k as [|k]; [lia|]. cbn [pad repeat C24.next_s C24.send C24.is_driver negb].
      replace (N <? length d)%nat with false by (symmetry; apply Nat.ltb_ge; exact Hd).
      rewrite firstn_all2 by exact Hd.
      specialize (IH [] (C24.took w0 true s N d) N k). cbn [map app] in IH.
      destruct (IH Hc HN' ltac:(lia) tx' w' cu o' H) as (s' & E & R). exists s'. split; [exact E|]. exact R.
    + cbn [C24.next_s C24.send C24.is_driver negb].
      destruct (skipn n d) as [|x rest] eqn:Es.
      * assert (Hl : (length d <= n)%nat) by (apply skipn_nil_iff; exact Es).
        replace (n <? length d)%nat with false by (symmetry; apply Nat.ltb_ge; exact Hl).
        specialize (IH o (C24.took w0 true s n (firstn n d)) N k).
        destruct (IH Hc HN' ltac:(lia) tx' w' cu o' H) as (s' & E & R). exists s'. split; [exact E|]. exact R.
      * assert (Hl : (n < length d)%nat).
        { destruct (le_lt_dec (length d) n) as [L|L]; [|exact L].
          apply skipn_nil_iff in L. rewrite L in Es. discriminate. }
        replace (n <? length d)%nat with true by (symmetry; apply Nat.ltb_lt; exact Hl).
        inversion H; subst. eexists. split; [reflexivity|]. cbn. repeat split; auto.
    + cbn [C24.next_s C24.send C24.is_driver].
      destruct d as [|x d].
      * cbn [length Nat.ltb Nat.leb].
        destruct tx as [|d2 tx]; inversion H; subst; rewrite app_nil_r; cbn; eexists; repeat split; auto.
      * cbn [length]. replace (0 <? S (length d))%nat with true by reflexivity.
        inversion H; subst. rewrite app_nil_r. cbn. eexists. repeat split; auto.
Qed.
