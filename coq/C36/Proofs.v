From Coq Require Import List ZArith Bool Lia.
Import ListNotations.
Require Import V.C36.Model.
Open Scope Z_scope.

Lemma send_buf_split buf orc sent rest cu o' :
  send_buf buf orc = (sent, rest, cu, o') -> sent ++ rest = buf.
Proof.
  unfold send_buf. destruct orc as [|[n|] o]; intros H; inversion H; subst; cbn.
  - apply app_nil_r.
  - apply firstn_skipn.
  - reflexivity.
Qed.

(* ---------------- client tx ---------------- *)
Lemma c_tx_q_inv q : forall orc w q' b' w' cu o',
  c_tx_q q orc w = (q', b', w', cu, o') -> w' ++ b' ++ concat q' = w ++ concat q.
Proof.
  induction q as [|p q IH]; intros orc w q' b' w' cu o' H; cbn in H.
  - inversion H; subst. cbn. reflexivity.
  - destruct (send_buf p orc) as [[[sent rest] c] o1] eqn:E.
    pose proof (send_buf_split _ _ _ _ _ _ E) as Hs.
    destruct rest as [|x rest].
    + rewrite app_nil_r in Hs. subst sent. destruct c.
      * inversion H; subst. cbn. rewrite <- app_assoc. reflexivity.
      * apply IH in H. rewrite H. cbn. rewrite <- app_assoc. reflexivity.
    + inversion H; subst. cbn [concat]. rewrite <- !app_assoc. reflexivity.
Qed.

Definition cinv (s : cst) : Prop := cwire s ++ ctxbs s ++ concat (ctxq s) = concat (cqueued s).

Lemma c_service_inv s orc : cinv s -> cinv (fst (c_service_tx s orc)).
Proof.
  unfold cinv, c_service_tx. intros H. destruct (ccut s); [exact H|].
  destruct (ctxbs s) as [|x b] eqn:Eb.
  - destruct (c_tx_q (ctxq s) orc (cwire s)) as [[[[q' b'] w'] cu] o'] eqn:E. cbn.
    apply c_tx_q_inv in E. rewrite E. exact H.
  - destruct (send_buf (x :: b) orc) as [[[sent rest] c] o1] eqn:E.
    pose proof (send_buf_split _ _ _ _ _ _ E) as Hs.
    destruct rest as [|y rest].
    + rewrite app_nil_r in Hs. destruct c.
      * cbn. rewrite <- H, Hs. rewrite <- app_assoc. reflexivity.
      * destruct (c_tx_q (ctxq s) o1 (cwire s ++ sent)) as [[[[q' b'] w'] cu] o'] eqn:E2. cbn.
        apply c_tx_q_inv in E2. rewrite E2, Hs, <- H, <- app_assoc. reflexivity.
    + cbn. rewrite <- H, <- Hs, <- !app_assoc. reflexivity.
Qed.

Lemma c_step_inv s o : cinv s -> cinv (c_step s o).
Proof.
  destruct o as [p|orc]; [|apply c_service_inv].
  unfold cinv, c_step, c_enq. cbn. intros H. rewrite !concat_app. cbn. rewrite app_nil_r.
  rewrite <- H. rewrite <- !app_assoc. reflexivity.
Qed.

Lemma c_run_inv_gen ops : forall s, cinv s -> cinv (fold_left c_step ops s).
Proof. induction ops as [|o ops IH]; intros s H; [exact H|]. cbn. apply IH, c_step_inv, H. Qed.

Lemma c_run_inv ops : cinv (c_run ops).
Proof. apply c_run_inv_gen. reflexivity. Qed.

(* drain: an oracle that accepts everything empties queue and buffer in one pass *)
Lemma send_buf_all buf orc total : accept_all total orc -> (length buf <= total)%nat ->
  exists o', send_buf buf orc = (buf, [], false, o') /\ accept_all total o'.
Proof.
  intros Ha Hl. unfold send_buf. destruct orc as [|[n|] o].
  - exists []. split; [reflexivity|constructor].
  - inversion Ha; subst. exists o. rewrite firstn_all2 by lia. rewrite skipn_all2 by lia. auto.
  - inversion Ha; subst. contradiction.
Qed.

Lemma c_tx_q_all q : forall orc w total, accept_all total orc -> (length (concat q) <= total)%nat ->
  exists o', c_tx_q q orc w = ([], [], w ++ concat q, false, o').
Proof.
  induction q as [|p q IH]; intros orc w total Ha Hl; cbn.
  - rewrite app_nil_r. eauto.
  - cbn in Hl. rewrite app_length in Hl.
    destruct (send_buf_all p orc total Ha) as (o1 & E & Ha1); [lia|]. rewrite E.
    destruct (IH o1 (w ++ p) total Ha1) as (o2 & E2); [lia|]. rewrite E2, <- app_assoc. eauto.
Qed.

Lemma c_service_drains s orc :
  ccut s = false -> accept_all (length (ctxbs s ++ concat (ctxq s))) orc ->
  let s' := fst (c_service_tx s orc) in
  ctxbs s' = [] /\ ctxq s' = [] /\ ccut s' = false /\ cwire s' = cwire s ++ ctxbs s ++ concat (ctxq s).
Proof.
  intros Hc Ha. unfold c_service_tx. rewrite Hc. rewrite app_length in Ha.
  destruct (ctxbs s) as [|x b] eqn:Eb.
  - destruct (c_tx_q_all (ctxq s) orc (cwire s) _ Ha) as (o' & E); [cbn; lia|]. rewrite E. cbn. auto.
  - destruct (send_buf_all (x :: b) orc _ Ha) as (o1 & E & Ha1); [lia|]. rewrite E.
    destruct (c_tx_q_all (ctxq s) o1 (cwire s ++ x :: b) _ Ha1) as (o2 & E2); [lia|]. rewrite E2. cbn.
    rewrite <- app_assoc. auto.
Qed.

(* ---------------- one accepted connection ---------------- *)
Lemma conn_tx_inv tx : forall orc w tx' w' cu o',
  conn_tx tx orc w = (tx', w', cu, o') -> w' ++ concat tx' = w ++ concat tx.
Proof.
  induction tx as [|d tx IH]; intros orc w tx' w' cu o' H; cbn in H.
  - inversion H; subst. reflexivity.
  - destruct (send_buf d orc) as [[[sent rest] c] o1] eqn:E.
    pose proof (send_buf_split _ _ _ _ _ _ E) as Hs.
    destruct rest as [|x rest].
    + rewrite app_nil_r in Hs. subst sent. destruct c.
      * inversion H; subst. cbn. rewrite <- app_assoc. reflexivity.
      * apply IH in H. rewrite H. cbn. rewrite <- app_assoc. reflexivity.
    + inversion H; subst. cbn [concat]. rewrite <- !app_assoc. reflexivity.
Qed.

Definition pend (c : conn) : bytes := wire c ++ concat (txes c).

Lemma conn_service_inv c orc : pend (fst (conn_service c orc)) = pend c.
Proof.
  unfold conn_service, pend. destruct (cut c); [reflexivity|].
  destruct (conn_tx (txes c) orc (wire c)) as [[[tx' w'] cu] o'] eqn:E. cbn.
  apply conn_tx_inv in E. exact E.
Qed.

Lemma conn_tx_all tx : forall orc w total, accept_all total orc -> (length (concat tx) <= total)%nat ->
  exists o', conn_tx tx orc w = ([], w ++ concat tx, false, o').
Proof.
  induction tx as [|d tx IH]; intros orc w total Ha Hl; cbn.
  - rewrite app_nil_r. eauto.
  - cbn in Hl. rewrite app_length in Hl.
    destruct (send_buf_all d orc total Ha) as (o1 & E & Ha1); [lia|]. rewrite E.
    destruct (IH o1 (w ++ d) total Ha1) as (o2 & E2); [lia|]. rewrite E2, <- app_assoc. eauto.
Qed.

Lemma conn_service_drains c orc : cut c = false -> accept_all (length (concat (txes c))) orc ->
  let c' := fst (conn_service c orc) in txes c' = [] /\ cut c' = false /\ wire c' = wire c ++ concat (txes c).
Proof.
  intros Hc Ha. unfold conn_service. rewrite Hc.
  destruct (conn_tx_all (txes c) orc (wire c) _ Ha) as (o' & E); [lia|]. rewrite E. cbn. auto.
Qed.

(* ---------------- server stack tx, per connected peer ---------------- *)
Lemma get_upd_same ca f cs c : get ca cs = Some c -> get ca (upd ca f cs) = Some (f c).
Proof.
  induction cs as [|[k c0] cs IH]; cbn; [discriminate|].
  destruct (Z.eqb k ca) eqn:E; cbn; rewrite E; [intros H; inversion H; reflexivity | exact IH].
Qed.

Lemma get_upd_other ca ca' f cs : ca' <> ca -> get ca (upd ca' f cs) = get ca cs.
Proof.
  intros Hne. induction cs as [|[k c0] cs IH]; cbn; [reflexivity|].
  destruct (Z.eqb k ca') eqn:E; cbn.
  - apply Z.eqb_eq in E. subst k. destruct (Z.eqb ca' ca) eqn:E2; [apply Z.eqb_eq in E2; congruence|reflexivity].
  - destruct (Z.eqb k ca); [reflexivity | exact IH].
Qed.

Definition spend (ca : Z) (q : list (bytes * Z)) (cs : conns) : option bytes :=
  match get ca cs with Some c => Some (pend c ++ concat (to ca q)) | None => None end.

Lemma s_tx_q_inv q : forall cs r ca, s_tx_q q cs = r ->
  let '(q', cs') := unres r in spend ca q' cs' = spend ca q cs.
Proof.
  induction q as [|[p k] q IH]; intros cs r ca H; cbn in H.
  - subst r. cbn. reflexivity.
  - destruct (get k cs) as [c0|] eqn:G.
    + specialize (IH _ r ca H). destruct (unres r) as [q' cs']. rewrite IH.
      unfold spend, to. cbn [filter snd].
      destruct (Z.eqb k ca) eqn:E.
      * apply Z.eqb_eq in E. subst k. rewrite (get_upd_same ca _ cs c0 G), G.
        unfold pend, conn_push. cbn. rewrite concat_app. cbn. rewrite app_nil_r, <- !app_assoc. reflexivity.
      * rewrite get_upd_other by (intro; subst; rewrite Z.eqb_refl in E; discriminate). reflexivity.
    + subst r. cbn. unfold spend, to. cbn [filter snd].
      destruct (Z.eqb k ca) eqn:E; [|reflexivity].
      apply Z.eqb_eq in E. subst k. rewrite G. reflexivity.
Qed.

Lemma get_all_conn_service cs : forall orc ca,
  match get ca cs, get ca (fst (all_conn_service cs orc)) with
  | Some c, Some c' => pend c' = pend c
  | None, None => True
  | _, _ => False
  end.
Proof.
  induction cs as [|[k c] cs IH]; intros orc ca; cbn; [exact I|].
  destruct (conn_service c orc) as [c' o'] eqn:E.
  destruct (all_conn_service cs o') as [cs'' o''] eqn:E2. cbn.
  destruct (Z.eqb k ca).
  - pose proof (conn_service_inv c orc) as H. rewrite E in H. exact H.
  - specialize (IH o' ca). rewrite E2 in IH. exact IH.
Qed.

Lemma get_drop_same ca cs : get ca (drop ca cs) = None.
Proof.
  induction cs as [|[k c] cs IH]; cbn; [reflexivity|].
  destruct (Z.eqb k ca) eqn:E; cbn; [exact IH | rewrite E; exact IH].
Qed.

Lemma get_drop_other ca k cs : k <> ca -> get ca (drop k cs) = get ca cs.
Proof.
  intros Hne. induction cs as [|[k0 c] cs IH]; cbn; [reflexivity|].
  destruct (Z.eqb k0 k) eqn:E; cbn.
  - apply Z.eqb_eq in E. subst k0. destruct (Z.eqb k ca) eqn:E2; [apply Z.eqb_eq in E2; congruence | exact IH].
  - destruct (Z.eqb k0 ca); [reflexivity | exact IH].
Qed.

Definition sinv (s : sst) : Prop :=
  forall ca, match get ca (sconns s) with
             | Some c => pend c ++ concat (to ca (stxq s)) = concat (to ca (squeued s))
             | None => True
             end.

Lemma to_app ca a b : to ca (a ++ b) = to ca a ++ to ca b.
Proof. unfold to. rewrite filter_app, map_app. reflexivity. Qed.

Lemma s_step_inv s o : sinv s -> sinv (s_step s o).
Proof.
  intros H ca. specialize (H ca). destruct o as [p k| |orc|k]; cbn [s_step stxq sconns squeued].
  - destruct (get ca (sconns s)); [|exact I]. rewrite !to_app, !concat_app, app_assoc, H. reflexivity.
  - unfold s_service_tx.
    pose proof (s_tx_q_inv (stxq s) (sconns s) _ ca eq_refl) as Hq.
    destruct (s_tx_q (stxq s) (sconns s)) as [[q' cs']|[q' cs']]; cbn [unres stxq sconns squeued] in *;
      unfold spend in Hq; destruct (get ca cs') as [c'|]; destruct (get ca (sconns s)) as [c|];
      try exact I; try discriminate; inversion Hq as [Hq']; rewrite Hq'; exact H.
  - pose proof (get_all_conn_service (sconns s) orc ca) as G.
    destruct (get ca (sconns s)) as [c|], (get ca (fst (all_conn_service (sconns s) orc))) as [c'|];
      try exact I; try contradiction. rewrite G. exact H.
  - destruct (Z.eqb k ca) eqn:E.
    + apply Z.eqb_eq in E. subst k. rewrite get_drop_same. exact I.
    + rewrite get_drop_other by (intro; subst; rewrite Z.eqb_refl in E; discriminate). exact H.
Qed.

Lemma s_run_inv cas ops : sinv (s_run cas ops).
Proof.
  unfold s_run. assert (H0 : sinv (s_init cas)).
  { intros ca. unfold s_init. cbn. induction cas as [|k cas IH]; cbn; [exact I|].
    destruct (Z.eqb k ca); [reflexivity | exact IH]. }
  revert H0. generalize (s_init cas). induction ops as [|o ops IH]; intros s H; [exact H|].
  cbn. apply IH, s_step_inv, H.
Qed.

(* ---------------- receive ---------------- *)
Lemma consumed_app (used rest : list rres) : consumed (used ++ rest) rest = used.
Proof.
  unfold consumed. rewrite app_length. replace (length used + length rest - length rest)%nat with (length used) by lia.
  rewrite firstn_app, Nat.sub_diag, firstn_all. cbn. apply app_nil_r.
Qed.

Lemma datas_app a b : datas (a ++ b) = datas a ++ datas b.
Proof. induction a as [|[d| |] a IH]; cbn; rewrite ?IH, <- ?app_assoc; reflexivity. Qed.

Lemma c_rx_spec orc : forall cur got pk pk' b cu rest,
  c_rx orc cur got pk = (pk', b, cu, rest) ->
  exists used, orc = used ++ rest /\ concat pk' ++ b = concat pk ++ cur ++ datas used.
Proof.
  induction orc as [|r o IH]; intros cur got pk pk' b cu rest H; cbn in H.
  - exists []. destruct got; inversion H; subst; cbn; rewrite ?concat_app; cbn; rewrite ?app_nil_r; auto.
  - destruct r as [d| |].
    + apply IH in H. destruct H as (used & -> & H). exists (Data d :: used). cbn. rewrite H, <- !app_assoc. auto.
    + destruct got.
      * apply IH in H. destruct H as (used & -> & H). exists (Again :: used). cbn.
        rewrite H, concat_app. cbn. rewrite app_nil_r, <- !app_assoc. auto.
      * inversion H; subst. exists [Again]. cbn. rewrite app_nil_r. auto.
    + exists [Closed]. destruct got; inversion H; subst; cbn; rewrite ?concat_app; cbn; rewrite ?app_nil_r; auto.
Qed.

Definition crx_inv (s : crx) : Prop := concat (rxpk s) ++ rxbuf s = rxgot s.

Lemma crx_service_inv s orc : crx_inv s -> crx_inv (fst (crx_service s orc)).
Proof.
  unfold crx_inv, crx_service. intros H. destruct (rxcut s); [exact H|].
  destruct (c_rx orc (rxbuf s) false []) as [[[pk b] cu] rest] eqn:E. cbn.
  apply c_rx_spec in E. destruct E as (used & -> & E). rewrite consumed_app.
  rewrite concat_app, <- app_assoc, E, <- H. cbn. rewrite <- !app_assoc. reflexivity.
Qed.

Lemma crx_run_inv orcs : crx_inv (crx_run orcs).
Proof.
  unfold crx_run. assert (H0 : crx_inv crx_init) by reflexivity.
  revert H0. generalize crx_init. induction orcs as [|o os IH]; intros s H; [exact H|].
  cbn. apply IH, crx_service_inv, H.
Qed.

Lemma conn_rx_spec orc : forall rxbs b cu rest,
  conn_rx orc rxbs = (b, cu, rest) -> exists used, orc = used ++ rest /\ b = rxbs ++ datas used.
Proof.
  induction orc as [|r o IH]; intros rxbs b cu rest H; cbn in H.
  - inversion H; subst. exists []. cbn. rewrite app_nil_r. auto.
  - destruct r as [d| |].
    + apply IH in H. destruct H as (used & -> & ->). exists (Data d :: used). cbn. rewrite <- app_assoc. auto.
    + inversion H; subst. exists [Again]. cbn. rewrite app_nil_r. auto.
    + inversion H; subst. exists [Closed]. cbn. rewrite app_nil_r. auto.
Qed.

Definition rinv (c : rconn) : Prop := concat (rpk c) ++ rbuf c = rgot c.

Lemma rconn_recv_inv c orc : rinv c -> rinv (rconn_recv c orc).
Proof.
  unfold rinv, rconn_recv. intros H. destruct (rcut c); [exact H|].
  destruct (conn_rx orc (rbuf c)) as [[b cu] rest] eqn:E. cbn.
  apply conn_rx_spec in E. destruct E as (used & -> & ->). rewrite consumed_app, <- H, <- app_assoc. reflexivity.
Qed.

Lemma rconn_packetize_inv c : rinv c -> rinv (rconn_packetize c).
Proof.
  unfold rinv, rconn_packetize, s_rx_packets. intros H. destruct (rbuf c) as [|x b] eqn:E; cbn.
  - rewrite !app_nil_r in *. exact H.
  - rewrite concat_app. cbn. rewrite !app_nil_r. exact H.
Qed.

Lemma r_step_inv cs o : Forall (fun kc => rinv (snd kc)) cs -> Forall (fun kc => rinv (snd kc)) (r_step cs o).
Proof.
  intros H. destruct o as [orcs|]; cbn; apply Forall_map; eapply Forall_impl; try exact H; cbn; intros kc Hk.
  - apply rconn_recv_inv, Hk.
  - apply rconn_packetize_inv, Hk.
Qed.

Lemma r_run_inv cas ops : Forall (fun kc => rinv (snd kc)) (r_run cas ops).
Proof.
  unfold r_run. assert (H0 : Forall (fun kc : Z * rconn => rinv (snd kc)) (r_init cas)).
  { unfold r_init. apply Forall_map. apply Forall_forall. intros; reflexivity. }
  revert H0. generalize (r_init cas). induction ops as [|o ops IH]; intros s H; [exact H|].
  cbn. apply IH, r_step_inv, H.
Qed.

(* received packets are never empty when the chunks are not *)
Definition chunks_nonempty (orc : list rres) : Prop :=
  Forall (fun r => match r with Data b => b <> [] | _ => True end) orc.

(* ---------------- the stack queue drains past packets for dropped peers ---------------- *)
Lemma get_upd_none k ca f cs : get k (upd ca f cs) = None <-> get k cs = None.
Proof.
  destruct (Z.eq_dec ca k) as [->|Hne].
  - destruct (get k cs) as [c|] eqn:G.
    + rewrite (get_upd_same k f cs c G). split; discriminate.
    + split; auto. intros _. clear -G. induction cs as [|[k0 c0] cs IH]; cbn in *; [reflexivity|].
      destruct (Z.eqb k0 k) eqn:E; [discriminate|]. cbn. rewrite E. apply IH, G.
  - rewrite get_upd_other by exact Hne. tauto.
Qed.

Lemma unknowns_upd q ca f cs : unknowns q (upd ca f cs) = unknowns q cs.
Proof.
  unfold unknowns. f_equal. apply filter_ext. intros [p k]. cbn.
  pose proof (get_upd_none k ca f cs) as H.
  destruct (get k (upd ca f cs)), (get k cs); auto; exfalso; destruct H as [H1 H2];
    [specialize (H2 eq_refl) | specialize (H1 eq_refl)]; discriminate.
Qed.

Lemma s_tx_q_progress q : forall cs,
  match s_tx_q q cs with
  | Ok (q', cs') => q' = [] /\ unknowns q cs = 0%nat
  | ErrValue (q', cs') => S (unknowns q' cs') = unknowns q cs
  end.
Proof.
  induction q as [|[p k] q IH]; intros cs; cbn [s_tx_q].
  - split; reflexivity.
  - destruct (get k cs) as [c0|] eqn:G.
    + specialize (IH (upd k (conn_push p) cs)).
      assert (E : unknowns ((p, k) :: q) cs = unknowns q (upd k (conn_push p) cs)).
      { rewrite unknowns_upd. unfold unknowns. cbn [filter snd]. rewrite G. reflexivity. }
      rewrite E. exact IH.
    + unfold unknowns. cbn [filter snd]. rewrite G. reflexivity.
Qed.

Lemma stack_pass_progress s :
  (stxq (stack_pass s) = [] /\ unknowns (stxq s) (sconns s) = 0%nat) \/
  S (unknowns (stxq (stack_pass s)) (sconns (stack_pass s))) = unknowns (stxq s) (sconns s).
Proof.
  unfold stack_pass, s_service_tx. pose proof (s_tx_q_progress (stxq s) (sconns s)) as H.
  destruct (s_tx_q (stxq s) (sconns s)) as [[q' cs']|[q' cs']]; cbn; [left|right]; exact H.
Qed.

Lemma stack_pass_empty s : stxq s = [] -> stxq (stack_pass s) = [].
Proof. unfold stack_pass, s_service_tx. intros ->. reflexivity. Qed.

Lemma stack_passes_empty n : forall s, stxq s = [] -> stxq (stack_passes n s) = [].
Proof. induction n as [|n IH]; intros s H; [exact H|]. cbn. apply IH, stack_pass_empty, H. Qed.

Lemma stack_drains n : forall s, (unknowns (stxq s) (sconns s) <= n)%nat ->
  stxq (stack_passes (S n) s) = [].
Proof.
  induction n as [|n IH]; intros s H; cbn [stack_passes].
  - destruct (stack_pass_progress s) as [[E _]|E]; [exact E | lia].
  - destruct (stack_pass_progress s) as [[E _]|E].
    + apply (stack_passes_empty (S n)), E.
    + apply IH. lia.
Qed.

Lemma s_run_passes cas ops m : s_run cas (ops ++ repeat SSvcStack m) = stack_passes m (s_run cas ops).
Proof.
  unfold s_run. rewrite fold_left_app. generalize (fold_left s_step ops (s_init cas)).
  induction m as [|m IH]; intros s; [reflexivity|]. cbn. apply IH.
Qed.

Lemma tx_past_dropped cas ops n :
  (unknowns (stxq (s_run cas ops)) (sconns (s_run cas ops)) <= n)%nat ->
  let s' := s_run cas (ops ++ repeat SSvcStack (S n)) in
  stxq s' = [] /\
  forall ca c, get ca (sconns s') = Some c -> wire c ++ concat (txes c) = concat (to ca (squeued s')).
Proof.
  intros H s'. assert (E : stxq s' = []) by (subst s'; rewrite s_run_passes; apply stack_drains, H).
  split; [exact E|]. intros ca c G.
  pose proof (s_run_inv cas (ops ++ repeat SSvcStack (S n)) ca) as I. fold s' in I.
  rewrite G, E in I. cbn in I. rewrite app_nil_r in I. exact I.
Qed.

(* the client stack never leaves received bytes unparsed at the end of a receive pass *)
Lemma c_rx_empties orc : forall cur got pk pk' b cu rest,
  (got = false -> cur = []) -> c_rx orc cur got pk = (pk', b, cu, rest) -> b = [].
Proof.
  induction orc as [|r o IH]; intros cur got pk pk' b cu rest Hc H; cbn in H.
  - destruct got; inversion H; subst; auto.
  - destruct r as [d| |].
    + eapply IH; [|exact H]. discriminate.
    + destruct got; [eapply IH; [|exact H]; auto | inversion H; subst; auto].
    + destruct got; inversion H; subst; auto.
Qed.

Lemma crx_run_all_delivered orcs : rxbuf (crx_run orcs) = [] /\ concat (rxpk (crx_run orcs)) = rxgot (crx_run orcs).
Proof.
  assert (G : rxbuf (crx_run orcs) = []).
  { unfold crx_run. assert (H0 : rxbuf crx_init = []) by reflexivity.
    revert H0. generalize crx_init. induction orcs as [|o os IH]; intros s H; [exact H|].
    cbn. apply IH. unfold crx_service. destruct (rxcut s); [exact H|].
    destruct (c_rx o (rxbuf s) false []) as [[[pk b] cu] rest] eqn:E. cbn.
    eapply c_rx_empties; [|exact E]. intros _. exact H. }
  split; [exact G|]. pose proof (crx_run_inv orcs) as I. unfold crx_inv in I.
  rewrite G, app_nil_r in I. exact I.
Qed.
