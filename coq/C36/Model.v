(* C36 -- TCP stream stacks: transmit and receive paths (ioflo/aio/proto/stacking.py with
   aio/tcp/clienting.py Client.send/receive and aio/tcp/serving.py Incomer.tx/serviceTxes/
   serviceReceives, Server.transmitIx/serviceTxesAllIx/serviceReceivesAllIx).
   Hand model (tie H).  Definitions only.  Self-contained (does not depend on coq/C24).

   bytes = list Z.  Oracles (the environment):
     sres  one result per socket send call:  Acc n = the socket takes min n (len data) bytes
           (n = 0: EAGAIN),  Cut = a reset-class error (send returns 0, .cutoff := True);
           an exhausted oracle accepts everything,
     rres  one result per socket recv call:  Data b (b non-empty), Again (EAGAIN -> None),
           Closed (b'' -> .cutoff := True);  an exhausted oracle answers Again.
   [wire] is the ghost concatenation of all bytes the socket accepted = what the peer receives
   on a reliable stream.
   The client-stack model describes the FIXED serviceTxPkts (loop while txPkts OR txbs),
   the server-stack model the FIXED _serviceOneTxPkt (transmitIx(packed, ca)). *)
From Coq Require Import List ZArith Bool.
Import ListNotations.
Open Scope Z_scope.

Definition bytes := list Z.
Inductive sres := Acc (n : nat) | Cut.
Inductive rres := Data (b : bytes) | Again | Closed.

(* one socket send of buffer [buf]:  (bytes taken, bytes left, cutoff?, rest of the oracle) *)
Definition send_buf (buf : bytes) (orc : list sres) : bytes * bytes * bool * list sres :=
  match orc with
  | [] => (buf, [], false, [])
  | Acc n :: o => (firstn n buf, skipn n buf, false, o)
  | Cut :: o => ([], buf, true, o)
  end.

(* ---------------- client stack, transmit ---------------- *)
Record cst := mkC {
  ctxq : list bytes;     (* .txPkts (their .packed) *)
  ctxbs : bytes;         (* .txbs *)
  cwire : bytes;         (* ghost: accepted by the socket so far *)
  ccut : bool;           (* handler.cutoff *)
  cqueued : list bytes   (* ghost: every packet ever queued, in order *)
}.
Definition cinit : cst := mkC [] [] [] false [].

Definition c_enq (s : cst) (p : bytes) : cst :=
  mkC (ctxq s ++ [p]) (ctxbs s) (cwire s) (ccut s) (cqueued s ++ [p]).

(* the loop of serviceTxPkts once .txbs is empty: pop, send, continue while fully sent *)
Fixpoint c_tx_q (q : list bytes) (orc : list sres) (wire : bytes)
  : list bytes * bytes * bytes * bool * list sres :=
  match q with
  | [] => ([], [], wire, false, orc)
  | p :: q' =>
    let '(sent, rest, cut, o') := send_buf p orc in
    match rest with
    | [] => if cut then (q', [], wire ++ sent, true, o') else c_tx_q q' o' (wire ++ sent)
    | _ :: _ => (q', rest, wire ++ sent, cut, o')
    end
  end.

(* TcpClientStack.serviceTxPkts (handler.connected assumed, as guarded by serviceAll) *)
Definition c_service_tx (s : cst) (orc : list sres) : cst * list sres :=
  if ccut s then (s, orc) else
  match ctxbs s with
  | [] => let '(q', b', w', cut, o') := c_tx_q (ctxq s) orc (cwire s) in
          (mkC q' b' w' cut (cqueued s), o')
  | _ :: _ =>
    let '(sent, rest, cut, o') := send_buf (ctxbs s) orc in
    match rest with
    | [] => if cut then (mkC (ctxq s) [] (cwire s ++ sent) true (cqueued s), o')
            else let '(q', b', w', cut', o'') := c_tx_q (ctxq s) o' (cwire s ++ sent) in
                 (mkC q' b' w' cut' (cqueued s), o'')
    | _ :: _ => (mkC (ctxq s) rest (cwire s ++ sent) cut (cqueued s), o')
    end
  end.

Inductive cop := CEnq (p : bytes) | CSvc (orc : list sres).
Definition c_step (s : cst) (o : cop) : cst :=
  match o with CEnq p => c_enq s p | CSvc orc => fst (c_service_tx s orc) end.
Definition c_run (ops : list cop) : cst := fold_left c_step ops cinit.

Definition accept_all (buf_total : nat) (orc : list sres) : Prop :=
  Forall (fun r => match r with Acc n => (buf_total <= n)%nat | Cut => False end) orc.

(* ---------------- server side: one accepted connection (Incomer) ---------------- *)
Record conn := mkConn { txes : list bytes; wire : bytes; cut : bool }.

(* Incomer.serviceTxes *)
Fixpoint conn_tx (tx : list bytes) (orc : list sres) (w : bytes)
  : list bytes * bytes * bool * list sres :=
  match tx with
  | [] => ([], w, false, orc)
  | d :: tx' =>
    let '(sent, rest, cu, o') := send_buf d orc in
    match rest with
    | [] => if cu then (tx', w ++ sent, true, o') else conn_tx tx' o' (w ++ sent)
    | _ :: _ => (rest :: tx', w ++ sent, cu, o')
    end
  end.

Definition conn_service (c : conn) (orc : list sres) : conn * list sres :=
  if cut c then (c, orc) else
  let '(tx', w', cu, o') := conn_tx (txes c) orc (wire c) in (mkConn tx' w' cu, o').

(* ---------------- server stack, transmit ---------------- *)
Definition conns := list (Z * conn).     (* handler.ixes, insertion ordered, keyed by ca *)

Fixpoint get (ca : Z) (cs : conns) : option conn :=
  match cs with
  | [] => None
  | (k, c) :: cs' => if Z.eqb k ca then Some c else get ca cs'
  end.

Fixpoint upd (ca : Z) (f : conn -> conn) (cs : conns) : conns :=
  match cs with
  | [] => []
  | (k, c) :: cs' => if Z.eqb k ca then (k, f c) :: cs' else (k, c) :: upd ca f cs'
  end.

Definition conn_push (d : bytes) (c : conn) : conn := mkConn (txes c ++ [d]) (wire c) (cut c).

Record sst := mkS {
  stxq : list (bytes * Z);      (* .txPkts : (packed, ca) *)
  sconns : conns;
  squeued : list (bytes * Z)    (* ghost *)
}.

Inductive res (A : Type) := Ok (a : A) | ErrValue (a : A).
Arguments Ok {A} a. Arguments ErrValue {A} a.

(* TcpServerStack.serviceTxPkts: pop each (pkt, ca), handler.transmitIx(packed, ca);
   unknown ca -> ValueError propagates (the popped packet is lost, the rest stays queued) *)
Fixpoint s_tx_q (q : list (bytes * Z)) (cs : conns) : res (list (bytes * Z) * conns) :=
  match q with
  | [] => Ok ([], cs)
  | (p, ca) :: q' =>
    match get ca cs with
    | None => ErrValue (q', cs)
    | Some _ => s_tx_q q' (upd ca (conn_push p) cs)
    end
  end.

Definition s_service_tx (s : sst) : res sst :=
  match s_tx_q (stxq s) (sconns s) with
  | Ok (q, cs) => Ok (mkS q cs (squeued s))
  | ErrValue (q, cs) => ErrValue (mkS q cs (squeued s))
  end.

(* Server.serviceTxesAllIx: every connection in order, one shared oracle stream *)
Fixpoint all_conn_service (cs : conns) (orc : list sres) : conns * list sres :=
  match cs with
  | [] => ([], orc)
  | (k, c) :: cs' =>
    let '(c', o') := conn_service c orc in
    let '(cs'', o'') := all_conn_service cs' o' in ((k, c') :: cs'', o'')
  end.

(* SDrop ca: the connection is closed and removed from handler.ixes (TcpServerStack.closeConnection
   after a cut off or an idle timeout) *)
Inductive sop := SEnq (p : bytes) (ca : Z) | SSvcStack | SSvcConns (orc : list sres) | SDrop (ca : Z).

Definition drop (ca : Z) (cs : conns) : conns := filter (fun kc => negb (Z.eqb (fst kc) ca)) cs.

Definition unres {A} (r : res A) : A := match r with Ok a => a | ErrValue a => a end.

Definition s_step (s : sst) (o : sop) : sst :=
  match o with
  | SEnq p ca => mkS (stxq s ++ [(p, ca)]) (sconns s) (squeued s ++ [(p, ca)])
  | SSvcStack => unres (s_service_tx s)
  | SSvcConns orc => mkS (stxq s) (fst (all_conn_service (sconns s) orc)) (squeued s)
  | SDrop ca => mkS (stxq s) (drop ca (sconns s)) (squeued s)
  end.

(* packets of the stack queue whose destination is not (or no longer) a connection *)
Definition unknowns (q : list (bytes * Z)) (cs : conns) : nat :=
  length (filter (fun x => match get (snd x) cs with None => true | Some _ => false end) q).
Definition stack_pass (s : sst) : sst := unres (s_service_tx s).
Fixpoint stack_passes (n : nat) (s : sst) : sst :=
  match n with O => s | S n' => stack_passes n' (stack_pass s) end.

Definition s_init (cas : list Z) : sst := mkS [] (map (fun ca => (ca, mkConn [] [] false)) cas) [].
Definition s_run (cas : list Z) (ops : list sop) : sst := fold_left s_step ops (s_init cas).

Definition to (ca : Z) (l : list (bytes * Z)) : list bytes :=
  map fst (filter (fun x => Z.eqb (snd x) ca) l).

Definition known (cas : list Z) (ops : list sop) : Prop :=
  forall p ca, In (SEnq p ca) ops -> In ca cas.

(* ---------------- receive: connection buffer ---------------- *)
(* Incomer.serviceReceives : while not cutoff: data = receive(); if not data: break; rxbs += data *)
Fixpoint conn_rx (orc : list rres) (rxbs : bytes) : bytes * bool * list rres :=
  match orc with
  | [] => (rxbs, false, [])
  | Data b :: o => conn_rx o (rxbs ++ b)
  | Again :: o => (rxbs, false, o)
  | Closed :: o => (rxbs, true, o)
  end.

(* TcpServerStack.serviceReceives for one connection: with the base Packet parser the whole
   buffer becomes one packet; nothing when the buffer is empty *)
Definition s_rx_packets (rxbs : bytes) : list bytes * bytes :=
  match rxbs with [] => ([], []) | _ :: _ => ([rxbs], []) end.

(* TcpClientStack.serviceReceives: repeat _serviceOneReceived (drain the socket into .rxbs
   until a falsy receive; if anything arrived, the whole buffer becomes one packet) until a
   call receives nothing or the connection is cut off *)
Fixpoint c_rx (orc : list rres) (cur : bytes) (got : bool) (pk : list bytes)
  : list bytes * bytes * bool * list rres :=
  match orc with
  | [] => if got then (pk ++ [cur], [], false, []) else (pk, cur, false, [])
  | Data b :: o => c_rx o (cur ++ b) true pk
  | Again :: o => if got then c_rx o [] false (pk ++ [cur]) else (pk, cur, false, o)
  | Closed :: o => if got then (pk ++ [cur], [], true, o) else (pk, cur, true, o)
  end.

Fixpoint datas (orc : list rres) : bytes :=
  match orc with
  | [] => []
  | Data b :: o => b ++ datas o
  | _ :: o => datas o
  end.

(* the results actually consumed = orc minus the returned rest *)
Definition consumed (orc rest : list rres) : list rres := firstn (length orc - length rest) orc.

(* ---------------- receive: whole histories ---------------- *)
(* client stack *)
Record crx := mkCrx { rxbuf : bytes; rxpk : list bytes; rxcut : bool; rxgot : bytes }.
Definition crx_init : crx := mkCrx [] [] false [].
Definition crx_service (s : crx) (orc : list rres) : crx * nat :=
  if rxcut s then (s, length orc) else
  let '(pk, b, cu, rest) := c_rx orc (rxbuf s) false [] in
  (mkCrx b (rxpk s ++ pk) cu (rxgot s ++ datas (consumed orc rest)), length rest).
Definition crx_run (orcs : list (list rres)) : crx :=
  fold_left (fun s o => fst (crx_service s o)) orcs crx_init.

(* server stack, per accepted connection; rpk = the stack's .rxPkts projected on this ca *)
Record rconn := mkR { rbuf : bytes; rcut : bool; rgot : bytes; rpk : list bytes }.
Definition rconn_recv (c : rconn) (orc : list rres) : rconn :=
  if rcut c then c else
  let '(b, cu, rest) := conn_rx orc (rbuf c) in
  mkR b cu (rgot c ++ datas (consumed orc rest)) (rpk c).
Definition rconn_packetize (c : rconn) : rconn :=
  let '(pk, b) := s_rx_packets (rbuf c) in mkR b (rcut c) (rgot c) (rpk c ++ pk).

Fixpoint lookup (ca : Z) (l : list (Z * list rres)) : list rres :=
  match l with [] => [] | (k, o) :: l' => if Z.eqb k ca then o else lookup ca l' end.

Inductive rop := RRecv (orcs : list (Z * list rres)) | RPacketize.
Definition r_step (cs : list (Z * rconn)) (o : rop) : list (Z * rconn) :=
  match o with
  | RRecv orcs => map (fun kc => (fst kc, rconn_recv (snd kc) (lookup (fst kc) orcs))) cs
  | RPacketize => map (fun kc => (fst kc, rconn_packetize (snd kc))) cs
  end.
Definition r_init (cas : list Z) : list (Z * rconn) := map (fun ca => (ca, mkR [] false [] [])) cas.
Definition r_run (cas : list Z) (ops : list rop) : list (Z * rconn) := fold_left r_step ops (r_init cas).

(* ---------------- composite entry point: TcpServerStack.serviceAll, receive side ----------------
   The ORDER of the steps inside serviceAll is a parameter (generated from the source on every
   run into coq/gen/C36Order.v).  Connections carry no queued transmit data here (StTx / StSend
   are then no-ops on the receive state).
     StConnects  TcpServerStack.serviceConnects : every incomer whose .cutoff is set is closed and
                 REMOVED together with whatever is still unparsed in its .rxbs (palive := false;
                 pbuf keeps the lost bytes as a ghost)
     StRecv      handler.serviceReceivesAllIx   : Incomer.serviceReceives on every live, not cut-off one
     StRx        serviceAllRx : serviceReceives (whole buffer -> one packet) ; serviceRxPkts delivers
                 it to the remote of that connection (pdel)                                    *)
Inductive sstep := StConnects | StRecv | StRx | StTx | StSend.
(* pacc: accepted (present in handler.ixes at some time); prem: the stack created the remote for
   this connection address (haRemotes); packets parsed for an address without remote are dropped
   by RemoteStack.messagize *)
Record pconn := mkP { palive : bool; pbuf : bytes; pcut : bool; pgot : bytes; pdel : list bytes;
                      pacc : bool; prem : bool }.

(* serviceConnects: Server.serviceConnects accepts the peers that connected since the last call
   (appended to .ixes in arrival order), then for every connection of the table: a cut-off one is
   closed and removed -- and the loop CONTINUES --, any other gets its remote if it has none *)
Definition p_accept (arr : list Z) (kc : Z * pconn) : Z * pconn :=
  let c := snd kc in
  if existsb (Z.eqb (fst kc)) arr && negb (pacc c)
  then (fst kc, mkP (palive c) (pbuf c) (pcut c) (pgot c) (pdel c) true (prem c)) else kc.
Definition p_connects (c : pconn) : pconn :=
  if pacc c && palive c then
    (if pcut c then mkP false (pbuf c) (pcut c) (pgot c) (pdel c) true (prem c)
     else mkP true (pbuf c) (pcut c) (pgot c) (pdel c) true true)
  else c.
Definition p_recv (c : pconn) (orc : list rres) : pconn :=
  if pacc c && palive c && negb (pcut c) then
    let '(b, cu, rest) := conn_rx orc (pbuf c) in
    mkP true b cu (pgot c ++ datas (consumed orc rest)) (pdel c) true (prem c)
  else c.
Definition p_rx (c : pconn) : pconn :=
  if pacc c && palive c then
    match pbuf c with
    | [] => c
    | _ :: _ => mkP true [] (pcut c) (pgot c) (if prem c then pdel c ++ [pbuf c] else pdel c) true (prem c)
    end
  else c.

Definition ppass := (list Z * list (Z * list rres))%type.   (* (peers connecting, recv oracles) *)

Definition p_step (ps : ppass) (cs : list (Z * pconn)) (st : sstep) : list (Z * pconn) :=
  match st with
  | StConnects => map (fun kc => (fst kc, p_connects (snd kc))) (map (p_accept (fst ps)) cs)
  | StRecv => map (fun kc => (fst kc, p_recv (snd kc) (lookup (fst kc) (snd ps)))) cs
  | StRx => map (fun kc => (fst kc, p_rx (snd kc))) cs
  | StTx | StSend => cs
  end.

Definition p_pass (order : list sstep) (cs : list (Z * pconn)) (ps : ppass) : list (Z * pconn) :=
  fold_left (p_step ps) order cs.
(* cas lists the peers in the order in which they will connect (= order of handler.ixes) *)
Definition p_init (cas : list Z) : list (Z * pconn) := map (fun ca => (ca, mkP true [] false [] [] false false)) cas.
Definition p_run (order : list sstep) (cas : list Z) (passes : list ppass) : list (Z * pconn) :=
  fold_left (p_pass order) passes (p_init cas).

(* the order is safe when no serviceConnects runs while bytes read by StRecv are still unparsed
   (dirty), and a pass ends with everything parsed *)
Fixpoint order_check (order : list sstep) (dirty : bool) : option bool :=
  match order with
  | [] => Some dirty
  | StConnects :: o => if dirty then None else order_check o false
  | StRecv :: o => order_check o true
  | StRx :: o => order_check o false
  | (StTx | StSend) :: o => order_check o dirty
  end.
Definition order_ok (order : list sstep) : bool :=
  match order_check order false with Some false => true | _ => false end.
