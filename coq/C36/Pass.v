(* C36 -- the composite TcpServerStack.serviceAll: nothing received is lost when a connection
   is dropped, for every step order satisfying order_ok *)
From Coq Require Import List ZArith Bool Lia.
Import ListNotations.
Require Import V.C36.Model V.C36.Proofs.
Open Scope Z_scope.

Definition pinv (dirty : bool) (c : pconn) : Prop :=
  concat (pdel c) ++ pbuf c = pgot c /\ (dirty = false -> pbuf c = []) /\ (palive c = false -> pbuf c = []) /\
  (pacc c = true -> palive c = true -> prem c = true) /\ (pacc c = false -> pbuf c = []).

Lemma pinv_connects arr kc : pinv false (snd kc) -> pinv false (p_connects (snd (p_accept arr kc))).
Proof.
  unfold pinv, p_connects, p_accept. intros (H1 & H2 & H3 & H4 & H5). specialize (H2 eq_refl).
  destruct (existsb (Z.eqb (fst kc)) arr && negb (pacc (snd kc))); cbn [snd pacc palive pcut pbuf pgot pdel prem andb].
  - destruct (palive (snd kc)) eqn:Eb; cbv iota.
    + destruct (pcut (snd kc)); cbn; repeat split; auto; intros; congruence.
    + cbn. repeat split; auto; intros; congruence.
  - destruct (pacc (snd kc)) eqn:Ea, (palive (snd kc)) eqn:Eb; cbn [andb]; cbv iota;
      try (repeat split; auto; intros; congruence).
    destruct (pcut (snd kc)); cbn; repeat split; auto; intros; congruence.
Qed.

Lemma pinv_recv dirty c orc : pinv dirty c -> pinv true (p_recv c orc).
Proof.
  unfold pinv, p_recv. intros (H1 & H2 & H3 & H4 & H5).
  destruct (pacc c) eqn:Ec, (palive c) eqn:Ea; cbn [andb]; cbv iota;
    try (repeat split; auto; intros; congruence).
  destruct (negb (pcut c)); cbv iota; [|repeat split; auto; intros; congruence].
  destruct (conn_rx orc (pbuf c)) as [[b cu] rest] eqn:E. cbn.
  apply conn_rx_spec in E. destruct E as (used & -> & ->). rewrite consumed_app.
  repeat split; try (intros; discriminate); auto. rewrite <- H1, <- !app_assoc. reflexivity.
Qed.

Lemma pinv_rx dirty c : pinv dirty c -> pinv false (p_rx c).
Proof.
  unfold pinv, p_rx. intros (H1 & H2 & H3 & H4 & H5).
  destruct (pacc c) eqn:Ec, (palive c) eqn:Ea; cbn [andb]; cbv iota;
    try (repeat split; auto; intros; congruence).
  destruct (pbuf c) as [|x b] eqn:Eb; cbn.
  - rewrite Eb. repeat split; auto.
  - rewrite (H4 eq_refl eq_refl). rewrite concat_app. cbn. rewrite !app_nil_r. repeat split; auto.
Qed.

Lemma pinv_weaken c : pinv false c -> forall d, pinv d c.
Proof. unfold pinv. intros (H1 & H2 & H3 & H4 & H5) d. repeat split; auto. Qed.

Lemma p_order_inv (orcs : ppass) order : forall dirty dirty' cs,
  order_check order dirty = Some dirty' ->
  Forall (fun kc => pinv dirty (snd kc)) cs ->
  Forall (fun kc : Z * pconn => pinv dirty' (snd kc)) (fold_left (p_step orcs) order cs).
Proof.
  induction order as [|st order IH]; intros dirty dirty' cs Hc H; cbn in *.
  - inversion Hc; subst. exact H.
  - destruct st.
    + destruct dirty; [discriminate|]. apply (IH false dirty'); auto.
      apply Forall_map. apply Forall_map. eapply Forall_impl; [|exact H]. cbn. intros kc. apply pinv_connects.
    + apply (IH true dirty'); auto.
      apply Forall_map. eapply Forall_impl; [|exact H]. cbn. intros kc. apply pinv_recv.
    + apply (IH false dirty'); auto.
      apply Forall_map. eapply Forall_impl; [|exact H]. cbn. intros kc. apply pinv_rx.
    + apply (IH dirty dirty'); auto.
    + apply (IH dirty dirty'); auto.
Qed.

Lemma p_run_inv order cas passes : order_ok order = true ->
  Forall (fun kc : Z * pconn => pinv false (snd kc)) (p_run order cas passes).
Proof.
  unfold order_ok. intros Hok. destruct (order_check order false) as [[|]|] eqn:E; try discriminate.
  unfold p_run. assert (H0 : Forall (fun kc : Z * pconn => pinv false (snd kc)) (p_init cas)).
  { unfold p_init. apply Forall_map. apply Forall_forall. intros ca _. cbn. unfold pinv. cbn. auto. }
  revert H0. generalize (p_init cas). induction passes as [|orcs passes IH]; intros cs H; [exact H|].
  cbn. apply IH. unfold p_pass. apply (p_order_inv orcs order false false); auto.
Qed.

(* closed statement: at every pass boundary, for every connection ever accepted -- live or
   dropped --, the delivered packets are exactly the bytes read from its socket, nothing buffered *)
Lemma p_run_delivered order cas passes : order_ok order = true ->
  Forall (fun kc : Z * pconn => concat (pdel (snd kc)) = pgot (snd kc) /\ pbuf (snd kc) = [])
         (p_run order cas passes).
Proof.
  intros H. eapply Forall_impl; [|apply (p_run_inv order cas passes H)].
  intros kc (H1 & H2 & _). specialize (H2 eq_refl). rewrite H2, app_nil_r in H1. auto.
Qed.

(* the unsafe order loses bytes: receive, then serviceConnects, then parse *)
Lemma swapped_order_loses :
  let cs := p_run [StRecv; StConnects; StRx; StTx; StSend] [5001]
                  [([5001], []); ([], [(5001, [Data [1;2;3]; Closed])])] in
  cs = [(5001, mkP false [1;2;3] true [1;2;3] [] true true)].
Proof. vm_compute. reflexivity. Qed.
