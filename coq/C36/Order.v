(* the step order of TcpServerStack.serviceAll extracted from the source on this run is safe *)
From Coq Require Import List Bool.
Require Import V.C36.Model V.gen.C36Order.
Lemma gen_order_ok : order_ok server_all_order = true.
Proof. vm_compute. reflexivity. Qed.
