(* C36 -- property theorems only.  Each closed by [exact]; Print Assumptions beneath.
   See Model.v for the vocabulary (oracles, ghost [wire] = bytes the peer receives). *)
From Coq Require Import List ZArith Bool.
Import ListNotations.
Require Import V.C36.Model V.C36.Proofs V.C36.ViaC24 V.C36.Pass V.C36.Order V.gen.C36Order.
Open Scope Z_scope.

(* CLIENT STACK, transmit.  Over every history of enqueues and service passes and every send
   oracle (partial sends, EAGAIN, resets):  bytes the peer has received ++ the unsent tail of
   the current packet ++ the packets still queued  =  all queued packets concatenated in queue
   order.  So the peer always holds an exact prefix: nothing lost, duplicated or reordered. *)
Theorem client_tx_prefix : forall ops,
  let s := c_run ops in cwire s ++ ctxbs s ++ concat (ctxq s) = concat (cqueued s).
Proof. exact c_run_inv. Qed.
Print Assumptions client_tx_prefix.

(* ... and delivery completes: a service pass whose sends are all accepted leaves nothing
   behind -- neither in the queue nor in .txbs (the fixed loop condition). *)
Theorem client_tx_drains : forall s orc,
  ccut s = false -> accept_all (length (ctxbs s ++ concat (ctxq s))) orc ->
  let s' := fst (c_service_tx s orc) in
  ctxbs s' = [] /\ ctxq s' = [] /\ ccut s' = false /\ cwire s' = cwire s ++ ctxbs s ++ concat (ctxq s).
Proof. exact c_service_drains. Qed.
Print Assumptions client_tx_drains.

(* SERVER STACK, transmit.  Over every history (enqueue to any address, stack service pass,
   connection service pass with any shared send oracle), for every CONNECTED peer ca:
   bytes ca has received ++ data waiting in its connection deque ++ packets for ca still in
   the stack queue  =  all packets ever queued for ca, in queue order. *)
Theorem server_tx_per_peer : forall cas ops ca,
  let s := s_run cas ops in
  match get ca (sconns s) with
  | Some c => (wire c ++ concat (txes c)) ++ concat (to ca (stxq s)) = concat (to ca (squeued s))
  | None => True
  end.
Proof. exact s_run_inv. Qed.
Print Assumptions server_tx_per_peer.

(* PACKETS FOR DROPPED PEERS DO NOT BLOCK THE OTHERS.  After any history (connections may be
   dropped: SDrop), if at most n queued packets are addressed to something that is not (or no
   longer) a connection, then n+1 further stack service passes -- each may report one ValueError
   and loses exactly that packet -- empty the stack queue, and every connection then holds, sent
   or waiting in its deque, exactly the packets queued for it, in order. *)
Theorem server_tx_past_dropped_peers : forall cas ops n,
  (unknowns (stxq (s_run cas ops)) (sconns (s_run cas ops)) <= n)%nat ->
  let s' := s_run cas (ops ++ repeat SSvcStack (S n)) in
  stxq s' = [] /\
  forall ca c, get ca (sconns s') = Some c -> wire c ++ concat (txes c) = concat (to ca (squeued s')).
Proof. exact tx_past_dropped. Qed.
Print Assumptions server_tx_past_dropped_peers.

(* one stack pass moves every queued packet for connected peers to their connections, and an
   accepting connection pass then delivers everything *)
Theorem connection_tx_drains : forall c orc,
  cut c = false -> accept_all (length (concat (txes c))) orc ->
  let c' := fst (conn_service c orc) in
  txes c' = [] /\ cut c' = false /\ wire c' = wire c ++ concat (txes c).
Proof. exact conn_service_drains. Qed.
Print Assumptions connection_tx_drains.

(* COMPOSITION WITH C24.  C36's self-contained model of Incomer.serviceTxes (conn_tx) IS C24's
   tx_loop for the Incomer class: from any C24 state s that is not cut off, for every deque tx
   and every C36 oracle, C24's loop run on the translated oracle (Acc n -> Sent n, Cut -> SCut,
   padded with over-long Sent counts for C36's "exhausted oracle accepts everything") ends
   without exception in a state with exactly C36's deque, accepted bytes and cutoff flag.  So the
   connection-level facts used by server_tx_per_peer are C24's facts about the same function. *)
Theorem incomer_tx_model_is_C24 : forall tx orc s N k,
  C24.cutoff s = false -> (forall d, In d tx -> (length d <= N)%nat) -> (length tx <= k)%nat ->
  forall tx' w' cu o', conn_tx tx orc (C24.accepted s) = (tx', w', cu, o') ->
  exists s', C24.tx_loop C24.KIncomer w0 tx (map tr orc ++ pad N k) s = (s', false) /\
             C24.txes s' = tx' /\ C24.accepted s' = w' /\ C24.cutoff s' = cu /\
             C24.queued s' = C24.queued s.
Proof. exact conn_tx_is_C24. Qed.
Print Assumptions incomer_tx_model_is_C24.

(* RECEIVE, client stack.  Over every sequence of service calls and every recv oracle: the
   received packets concatenated ++ the buffer = exactly the bytes read from the socket, in
   order: every received byte is in exactly one packet (or still buffered). *)
Theorem client_rx_partition : forall orcs,
  let s := crx_run orcs in concat (rxpk s) ++ rxbuf s = rxgot s.
Proof. exact crx_run_inv. Qed.
Print Assumptions client_rx_partition.

(* ... and nothing stays behind: after every client receive pass (also one that read data and the
   end of stream together) the buffer is empty and the received packets are EXACTLY the bytes
   read from the socket. *)
Theorem client_rx_all_delivered : forall orcs,
  rxbuf (crx_run orcs) = [] /\ concat (rxpk (crx_run orcs)) = rxgot (crx_run orcs).
Proof. exact crx_run_all_delivered. Qed.
Print Assumptions client_rx_all_delivered.

(* RECEIVE, server stack, for every accepted connection. *)
Theorem server_rx_partition : forall cas ops,
  Forall (fun kc => concat (rpk (snd kc)) ++ rbuf (snd kc) = rgot (snd kc)) (r_run cas ops).
Proof. exact r_run_inv. Qed.
Print Assumptions server_rx_partition.

(* COMPOSITE ENTRY POINT TcpServerStack.serviceAll (receive side, no transmit data queued).
   For EVERY order of the five steps that satisfies order_ok (serviceConnects never runs while
   bytes read by serviceReceivesAllIx are still unparsed, a pass ends parsed), every set of
   peers CONNECTING AT ANY PASS (several per pass, while older connections are being closed in
   the same pass) and every sequence of passes with arbitrary per-connection recv oracles
   (data, EAGAIN, close -- in particular data followed by close within ONE pass, and data sent
   in the very pass of the connect): at every pass boundary, for every connection, LIVE OR
   ALREADY DROPPED, the packets delivered TO ITS REMOTE (packets parsed for an address that has
   no remote are dropped by messagize and do not count) concatenate to exactly the bytes read
   from its socket and nothing is buffered.
   So every byte received on a connection is delivered before the connection is dropped. *)
Theorem server_pass_delivers_before_drop : forall order cas passes,
  order_ok order = true ->
  Forall (fun kc : Z * pconn => concat (pdel (snd kc)) = pgot (snd kc) /\ pbuf (snd kc) = [])
         (p_run order cas passes).
Proof. exact p_run_delivered. Qed.
Print Assumptions server_pass_delivers_before_drop.

(* ... and the order extracted from the source of TcpServerStack.serviceAll ON THIS RUN
   (coq/gen/C36Order.v, regenerated by props/C36/translate.py) is such an order. *)
Theorem server_serviceAll_order_is_safe : order_ok server_all_order = true.
Proof. exact gen_order_ok. Qed.
Print Assumptions server_serviceAll_order_is_safe.

(* the premise matters: receive, THEN serviceConnects, then parse loses the last bytes *)
Example swapped_order_loses_bytes :
  p_run [StRecv; StConnects; StRx; StTx; StSend] [5001]
        [([5001], []); ([], [(5001, [Data [1;2;3]; Closed])])]
  = [(5001, mkP false [1;2;3] true [1;2;3] [] true true)].
Proof. exact swapped_order_loses. Qed.

(* non-vacuity *)
Example c36_client_tx :
  let s := c_run [CEnq [1;2;3;4;5;6]; CSvc [Acc 2]; CSvc []; CEnq [7]; CEnq [8;9]; CSvc [Acc 1; Acc 1]] in
  cwire s = [1;2;3;4;5;6;7;8] /\ ctxbs s = [9] /\ ctxq s = [].
Proof. vm_compute. repeat split; reflexivity. Qed.

Example c36_server_tx :
  let s := s_run [5001; 5002] [SEnq [1;2;3] 5001; SEnq [4] 5002; SEnq [5;6] 5001; SSvcStack; SSvcConns [Acc 2; Acc 9]] in
  get 5001 (sconns s) = Some (mkConn [[3]; [5;6]] [1;2] false) /\ get 5002 (sconns s) = Some (mkConn [] [4] false).
Proof. vm_compute. split; reflexivity. Qed.

Example c36_client_rx :
  let s := crx_run [[Data [1;2]; Data [3]; Again; Data [4]; Again; Again; Data [9]]; [Data [5]; Closed]] in
  rxpk s = [[1;2;3]; [4]; [5]] /\ rxbuf s = [] /\ rxcut s = true.
Proof. vm_compute. repeat split; reflexivity. Qed.
