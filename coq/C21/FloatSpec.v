(* C21 -- the written comparison in binary64 (specification side, definitions only).
   The theorems of C21/Props.v are over ideal rationals; on floats whose band edges are not
   representable (0.3 + 0.1, -1.0 - 0.1, inf - inf) the property's statement is read with IEEE
   arithmetic exactly as written:  '==' is  (goal - |tol|) <= state <= (goal + |tol|) , '!=' its
   complement.  Coq's primitive floats evaluate bit-exactly like CPython's (vm_compute).      *)
From Coq Require Import Floats Bool.
Open Scope float_scope.

Definition written_eq_f (s g t : float) : bool := ((g - abs t) <=? s) && (s <=? (g + abs t)).
Definition written_ne_f (s g t : float) : bool := negb (written_eq_f s g t).
