(* C21 -- default-field rule of NeedState._resolve / NeedIndirect._resolve (T-tie): property
   theorems only, about the definitions GENERATED into coq/gen/C21_Fields.v.                  *)
From Coq Require Import ZArith QArith List Bool.
Import ListNotations.
Require Import V.Lib.C45_PyVal V.gen.C21_Fields V.C21.FieldProofs.

(* a written field is kept *)
Theorem state_field_as_written : forall sh f, py_truthy f = true -> state_default_field sh f = Ok f.
Proof. exact state_given. Qed.
Print Assumptions state_field_as_written.

(* no field written: `value` when the share has no fields yet or has a field `value`; otherwise
   the field is ambiguous -> ResolveError *)
Theorem state_field_default_rule : forall sh f, py_truthy f = false ->
  state_default_field sh f =
  match sh with
  | [] => Ok (VStr fld_value)
  | _ => if has_value sh then Ok (VStr fld_value) else Err ResolveError
  end.
Proof. exact state_default. Qed.
Print Assumptions state_field_default_rule.

Theorem goal_field_as_written : forall sh g sf, py_truthy g = true -> goal_default_field sh g sf = Ok g.
Proof. exact goal_given. Qed.
Print Assumptions goal_field_as_written.

(* no goal field written: `value` when the goal share is empty or has `value`, otherwise the
   STATE's field; never an error (on the fixed code: unfixed, that last case is a NameError) *)
Theorem goal_field_default_rule : forall sh g sf, py_truthy g = false ->
  goal_default_field sh g sf =
  Ok (match sh with
      | [] => VStr fld_value
      | _ => if has_value sh then VStr fld_value else sf
      end).
Proof. exact goal_default. Qed.
Print Assumptions goal_field_default_rule.

Example goal_uses_state_field :
  goal_default_field [[120]; [121]]%Z (VStr []) (VStr [120]%Z) = Ok (VStr [120]%Z).
Proof. vm_compute. reflexivity. Qed.
