(* C21 -- default-field rule of NeedState._resolve / NeedIndirect._resolve (T-tie).
   state_default_field / goal_default_field are GENERATED (coq/gen/C21_Fields.v) from the
   `if not stateField:` / `if not goalField:` statements of the two _resolve methods; a share is
   seen as its ordered list of field names.  Lemmas.                         *)
From Coq Require Import ZArith QArith List Bool.
Import ListNotations.
Require Import V.Lib.C45_PyVal V.gen.C21_Fields.

Definition fld_value : list Z := [118; 97; 108; 117; 101]%Z.      (* "value" *)
Definition has_value (sh : share) : bool := existsb (str_eqb fld_value) sh.

Lemma state_given sh f : py_truthy f = true -> state_default_field sh f = Ok f.
Proof. intro H. unfold state_default_field, py_not. rewrite H. reflexivity. Qed.

Lemma state_default sh f : py_truthy f = false ->
  state_default_field sh f =
  match sh with
  | [] => Ok (VStr fld_value)
  | _ => if has_value sh then Ok (VStr fld_value) else Err ResolveError
  end.
Proof.
  intro H. unfold state_default_field, py_not, has_value, fld_value. rewrite H. cbn [negb py_truthy].
  destruct sh as [|x r]; [reflexivity|].
  cbn [py_share_truthy py_truthy py_in_share].
  destruct (existsb (str_eqb [118; 97; 108; 117; 101]%Z) (x :: r)); reflexivity.
Qed.

Lemma goal_given sh g sf : py_truthy g = true -> goal_default_field sh g sf = Ok g.
Proof. intro H. unfold goal_default_field, py_not. rewrite H. reflexivity. Qed.

Lemma goal_default sh g sf : py_truthy g = false ->
  goal_default_field sh g sf =
  Ok (match sh with
      | [] => VStr fld_value
      | _ => if has_value sh then VStr fld_value else sf
      end).
Proof.
  intro H. unfold goal_default_field, py_not, has_value, fld_value. rewrite H. cbn [negb py_truthy].
  destruct sh as [|x r]; [reflexivity|].
  cbn [py_share_truthy py_truthy py_in_share].
  destruct (existsb (str_eqb [118; 97; 108; 117; 101]%Z) (x :: r)); reflexivity.
Qed.

