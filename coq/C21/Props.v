(* C21 -- property theorems only.  Each closed by [exact]; Print Assumptions beneath.
   Check is the definition GENERATED from ioflo/base/needing.py (coq/gen/C21_Needing.v);
   need_action / clause_call / needs_hold / parse are the hand models of coq/C21/Model.v.
   Numbers are ideal rationals (python int, bool and float without rounding).              *)
From Coq Require Import ZArith QArith Qabs List Bool.
Import ListNotations.
Require Import V.Lib.C45_PyVal V.gen.C21_Needing V.C21.Model V.C21.Proofs.

(* On numbers (int / float / bool, any mix, any sign of the tolerance), for each of the six
   operators, Check is exactly the written comparison:  == is goal-|tol| <= state <= goal+|tol|,
   != its complement, the orderings compare state with goal (tolerance ignored). *)
Theorem check_is_written_comparison : forall o s g t sv gv tv,
  num_of s = Some sv -> num_of g = Some gv -> num_of t = Some tv ->
  Check s (op_str o) g t = Ok (VBool (written o sv gv tv)).
Proof. exact check_numeric. Qed.
Print Assumptions check_is_written_comparison.

(* When state, goal or tolerance is not a number (strings, None): == is python equality of goal
   and state, != its negation. *)
Theorem check_eq_is_equality_otherwise : forall s g t,
  num_of s = None \/ num_of g = None \/ num_of t = None ->
  Check s (op_str OpEq) g t = Ok (py_eq g s) /\ Check s (op_str OpNe) g t = Ok (py_ne g s).
Proof. exact check_eq_other. Qed.
Print Assumptions check_eq_is_equality_otherwise.

(* != is the complement of == for ALL python values (and neither ever raises) *)
Theorem check_ne_is_negation : forall s g t,
  exists b, Check s (op_str OpEq) g t = Ok (VBool b) /\ Check s (op_str OpNe) g t = Ok (VBool (negb b)).
Proof. exact check_ne_negation. Qed.
Print Assumptions check_ne_is_negation.

(* the ordering operators are python's  state < goal  etc. on ALL values (strings compare
   lexicographically, a string against a number raises TypeError -- as python does) *)
Theorem check_lt : forall s g t, Check s (op_str OpLt) g t = py_lt s g.
Proof. exact check_lt_unfold. Qed.
Print Assumptions check_lt.
Theorem check_le : forall s g t, Check s (op_str OpLe) g t = py_le s g.
Proof. exact check_le_unfold. Qed.
Print Assumptions check_le.
Theorem check_ge : forall s g t, Check s (op_str OpGe) g t = py_ge s g.
Proof. exact check_ge_unfold. Qed.
Print Assumptions check_ge.
Theorem check_gt : forall s g t, Check s (op_str OpGt) g t = py_gt s g.
Proof. exact check_gt_unfold. Qed.
Print Assumptions check_gt.

Theorem check_unknown_operator_false : forall c s g t,
  (forall o, py_eqb c (op_str o) = false) -> Check s c g t = Ok (VBool false).
Proof. exact check_unknown. Qed.
Print Assumptions check_unknown_operator_false.

(* a bare `if state` (optionally negated) is the truthiness of the state field *)
Theorem bool_need_truthy : forall e s neg,
  clause_call e {| negated := neg; nd := NBoolean s |} = Ok (VBool (xorb neg (py_truthy (e s)))).
Proof. exact boolean_need. Qed.
Print Assumptions bool_need_truthy.

(* `not` negates whatever the need returns *)
Theorem nact_negates : forall e n v, need_action e n = Ok v ->
  clause_call e {| negated := false; nd := n |} = Ok v /\
  clause_call e {| negated := true; nd := n |} = Ok (VBool (negb (py_truthy v))).
Proof. exact nact_negates_lemma. Qed.
Print Assumptions nact_negates.

(* a (possibly negated) direct or indirect comparison clause on numbers is the written comparison *)
Theorem direct_clause_is_written : forall e neg s o g t sv gv tv,
  num_of (e s) = Some sv -> num_of g = Some gv -> num_of t = Some tv ->
  clause_call e {| negated := neg; nd := NDirect s (op_str o) g t |}
  = Ok (VBool (xorb neg (written o sv gv tv))).
Proof. exact direct_numeric. Qed.
Print Assumptions direct_clause_is_written.

Theorem indirect_clause_is_written : forall e neg s o g t sv gv tv,
  num_of (e s) = Some sv -> num_of (e g) = Some gv -> num_of t = Some tv ->
  clause_call e {| negated := neg; nd := NIndirect s (op_str o) g t |}
  = Ok (VBool (xorb neg (written o sv gv tv))).
Proof. exact indirect_numeric. Qed.
Print Assumptions indirect_clause_is_written.

(* `and`: the transition's needs hold iff every clause is true (any number of clauses) ... *)
Theorem needs_conj : forall e cs,
  (forall c, In c cs -> is_ok (clause_call e c) = true) ->
  needs_hold e cs = Ok (forallb (clause_truth e) cs).
Proof. exact needs_conj_lemma. Qed.
Print Assumptions needs_conj.

(* ... and evaluation stops at the first false clause *)
Theorem needs_stop_at_first_false : forall e pre c post,
  (forall x, In x pre -> exists v, clause_call e x = Ok v /\ py_truthy v = true) ->
  (exists v, clause_call e c = Ok v /\ py_truthy v = false) ->
  needs_hold e (pre ++ c :: post) = Ok false.
Proof. exact needs_short_circuit. Qed.
Print Assumptions needs_stop_at_first_false.

(* attempted once per tick: the transition is taken at the first tick whose environment makes
   every clause true *)
Theorem taken_at_first_true_tick : forall cs envs k,
  (forall e c, In e envs -> In c cs -> is_ok (clause_call e c) = true) ->
  first_tick cs envs k =
  Ok (match find (fun p => forallb (clause_truth (snd p)) cs) (combine (seq k (length envs)) envs) with
      | Some p => Some (fst p) | None => None end).
Proof. exact first_tick_spec. Qed.
Print Assumptions taken_at_first_true_tick.

(* clause syntax: every written condition (non-empty list of clauses, each `[not] state`,
   `[not] state op goal` or `[not] state op goal +- tol`, joined by `and`) is parsed back into
   exactly the clauses written *)
Theorem parse_render : forall cs, cs <> [] ->
  forall fuel, (length cs <= fuel)%nat -> parse fuel (render cs) = Some cs.
Proof. exact parse_render_lemma. Qed.
Print Assumptions parse_render.

(* ---- non-vacuity ------------------------------------------------------------------- *)
Example on_boundary : Check (VFlt (5#2)) (op_str OpEq) (VInt 2) (VFlt (-1#2)) = Ok (VBool true).
Proof. vm_compute. reflexivity. Qed.
Example just_outside : Check (VFlt (21#8)) (op_str OpEq) (VInt 2) (VFlt (1#2)) = Ok (VBool false).
Proof. vm_compute. reflexivity. Qed.
Example string_eq : Check (VStr [97;98]%Z) (op_str OpEq) (VStr [97;98]%Z) (VInt 0) = Ok (VBool true).
Proof. vm_compute. reflexivity. Qed.
Example string_vs_number_order_raises : Check (VStr [97]%Z) (op_str OpLt) (VInt 1) (VInt 0) = Err TypeError.
Proof. vm_compute. reflexivity. Qed.
Example conj_example :
  let e := fun id => if Z.eqb id 1 then VInt 3 else VStr [] in
  needs_hold e [ {| negated := false; nd := NDirect 1 (op_str OpGe) (VInt 3) (VInt 0) |};
                 {| negated := true; nd := NBoolean 2 |} ] = Ok true.
Proof. vm_compute. reflexivity. Qed.
