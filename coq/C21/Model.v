(* C21 -- comparison conditions.  Definitions only.

   Tie T : Need.Check is GENERATED (coq/gen/C21_Needing.v) from ioflo/base/needing.py.
   Tie H : below, hand models of
       NeedBoolean/NeedDirect/NeedIndirect.action   (needing.py)
       Act.__call__ / Nact.__call__                  (acting.py: Nact negates)
       the `for act in needs: if not act(): return None` loop of Transiter.action (acting.py)
       the clause syntax  [not] state [op goal [+- tol]] {and ...}  built by
       Builder.buildGo / makeNeed (building.py): render / parse on classified tokens.

   A state or goal reference (share + field, or a framer clock elapsed/recurred) is an
   interned id (Z); the environment maps ids to python values at the moment the transition
   is attempted.                                                                          *)
From Coq Require Import ZArith QArith Qabs List Bool.
Import ListNotations.
Require Import V.Lib.C45_PyVal V.gen.C21_Needing.

Definition env := Z -> val.

Inductive need :=
| NBoolean (s : Z)                                   (* if state *)
| NDirect (s : Z) (cmp : val) (goal : val) (tol : val)   (* if state cmp literal [+- tol] *)
| NIndirect (s : Z) (cmp : val) (g : Z) (tol : val).     (* if state cmp goalshare [+- tol] *)

(* Need*.action *)
Definition need_action (e : env) (n : need) : res val :=
  match n with
  | NBoolean s => Ok (VBool (py_truthy (e s)))      (* if state[f]: result = True else: False *)
  | NDirect s c g t => Check (e s) c g t
  | NIndirect s c g t => Check (e s) c (e g) t
  end.

Record clause := { negated : bool; nd : need }.

(* Act.__call__ : actor(kwparms)        Nact.__call__ : not actor(kwparms) *)
Definition clause_call (e : env) (c : clause) : res val :=
  bind (need_action e (nd c)) (fun v => Ok (if negated c then py_not v else v)).

(* Transiter.action:  for act in needs: if not act(): return None   -> all hold? *)
Fixpoint needs_hold (e : env) (cs : list clause) : res bool :=
  match cs with
  | [] => Ok true
  | c :: r => bind (clause_call e c) (fun v => if py_truthy v then needs_hold e r else Ok false)
  end.

(* the transition is attempted once per tick (envs = environment at ticks k, k+1, ...) until
   taken: the tick at which it is taken *)
Fixpoint first_tick (cs : list clause) (envs : list env) (k : nat) : res (option nat) :=
  match envs with
  | [] => Ok None
  | e :: r => bind (needs_hold e cs) (fun b => if b then Ok (Some k) else first_tick cs r (S k))
  end.

(* ---- the written comparison (specification side) ------------------------------------ *)
Inductive cmpop := OpEq | OpNe | OpLt | OpLe | OpGe | OpGt.

Definition op_str (o : cmpop) : val :=
  VStr (match o with
        | OpEq => [61; 61] | OpNe => [33; 61] | OpLt => [60] | OpLe => [60; 61]
        | OpGe => [62; 61] | OpGt => [62]
        end)%Z.

(* on numbers:  ==  is  goal-|tol| <= state <= goal+|tol| ; != its complement; orderings compare
   state with goal and ignore the tolerance *)
Definition written (o : cmpop) (s g t : Q) : bool :=
  match o with
  | OpEq => Qle_bool (g - Qabs t) s && Qle_bool s (g + Qabs t)
  | OpNe => negb (Qle_bool (g - Qabs t) s && Qle_bool s (g + Qabs t))
  | OpLt => Qlt_bool s g
  | OpLe => Qle_bool s g
  | OpGe => Qle_bool g s
  | OpGt => Qlt_bool g s
  end.

Definition clause_truth (e : env) (c : clause) : bool :=
  match clause_call e c with Ok v => py_truthy v | Err _ => false end.

(* ---- clause syntax: classified tokens ------------------------------------------------ *)
(* the harness classifies each FloScript token the way building.py does: `not`, `and`, `+-`,
   one of the six comparison strings, a literal (Convert2StrBoolCoordNum succeeds) or a path *)
Inductive tok :=
| TNot | TAnd | TPm
| TCmp (o : cmpop)
| TLit (v : val)
| TPath (id : Z).

Inductive goal_syn := GLit (v : val) | GPath (id : Z).
Record csyn := { s_neg : bool; s_state : Z; s_cmp : option (cmpop * goal_syn * option val) }.

Definition render1 (c : csyn) : list tok :=
  (if s_neg c then [TNot] else []) ++ [TPath (s_state c)] ++
  match s_cmp c with
  | None => []
  | Some (o, g, t) =>
      [TCmp o] ++ [match g with GLit v => TLit v | GPath p => TPath p end] ++
      match t with Some tv => [TPm; TLit tv] | None => [] end
  end.

Fixpoint render (cs : list csyn) : list tok :=
  match cs with
  | [] => []
  | [c] => render1 c
  | c :: r => render1 c ++ [TAnd] ++ render r
  end.

(* makeNeed on one clause: returns the clause and the rest of the tokens *)
Definition parse1 (ts : list tok) : option (csyn * list tok) :=
  let '(ng, ts1) := match ts with TNot :: r => (true, r) | _ => (false, ts) end in
  match ts1 with
  | TPath s :: TCmp o :: g :: r =>
      match (match g with TLit v => Some (GLit v) | TPath p => Some (GPath p) | _ => None end) with
      | None => None
      | Some gs =>
          match r with
          | TPm :: TLit tv :: r' => Some ({| s_neg := ng; s_state := s; s_cmp := Some (o, gs, Some tv) |}, r')
          | TPm :: _ => None
          | _ => Some ({| s_neg := ng; s_state := s; s_cmp := Some (o, gs, None) |}, r)
          end
      end
  | TPath s :: r => Some ({| s_neg := ng; s_state := s; s_cmp := None |}, r)
  | _ => None
  end.

(* buildGo's loop: need {and need} ; fuel = number of tokens *)
Fixpoint parse (fuel : nat) (ts : list tok) : option (list csyn) :=
  match fuel with
  | O => None
  | S f =>
      match parse1 ts with
      | None => None
      | Some (c, []) => Some [c]
      | Some (c, TAnd :: r) => match parse f r with Some cs => Some (c :: cs) | None => None end
      | Some (_, _) => None
      end
  end.

(* the need built for a parsed clause (makeBoolenNeed / makeDirectNeed / makeIndirectNeed + Nact);
   tolerance defaults to int 0 *)
Definition build1 (c : csyn) : clause :=
  {| negated := s_neg c;
     nd := match s_cmp c with
           | None => NBoolean (s_state c)
           | Some (o, GLit v, t) => NDirect (s_state c) (op_str o) v (match t with Some x => x | None => VInt 0 end)
           | Some (o, GPath p, t) => NIndirect (s_state c) (op_str o) p (match t with Some x => x | None => VInt 0 end)
           end |}.
