From Coq Require Import ZArith QArith Qabs List Bool Lia Lqa.
Import ListNotations.
Require Import V.Lib.C45_PyVal V.gen.C21_Needing V.C21.Model.

(* ---- Q booleans ------------------------------------------------------------------- *)
Lemma Qle_bool_compat a a' b b' : a == a' -> b == b' -> Qle_bool a b = Qle_bool a' b'.
Proof.
  intros E1 E2. apply eq_true_iff_eq. rewrite !Qle_bool_iff. rewrite E1, E2. reflexivity.
Qed.

(* ---- python arithmetic on numbers -------------------------------------------------- *)
Lemma num_abs a x : num_of a = Some x ->
  exists a' x', py_abs a = Ok a' /\ num_of a' = Some x' /\ x' == Qabs x.
Proof.
  destruct a as [|b|z|q|s]; cbn; intro H; inversion H; subst.
  - exists (VInt (b2z b)), (inject_Z (b2z b)). repeat split; try (destruct b; reflexivity).
  - exists (VInt (Z.abs z)), (inject_Z (Z.abs z)). repeat split; try reflexivity.
  - exists (VFlt (Qabs x)), (Qabs x). repeat split; try reflexivity.
Qed.

Lemma int_num a z : int_of a = Some z -> num_of a = Some (inject_Z z).
Proof. destruct a; cbn; intro H; inversion H; reflexivity. Qed.

Lemma num_sub a b x y : num_of a = Some x -> num_of b = Some y ->
  exists c z, py_sub a b = Ok c /\ num_of c = Some z /\ z == x - y.
Proof.
  intros Ha Hb. unfold py_sub.
  destruct (int_of a) as [ia|] eqn:Ia; [destruct (int_of b) as [ib|] eqn:Ib|].
  - apply int_num in Ia. apply int_num in Ib. rewrite Ha in Ia. rewrite Hb in Ib.
    inversion Ia; inversion Ib; subst.
    exists (VInt (ia - ib)), (inject_Z (ia - ib)). repeat split.
    unfold Z.sub. rewrite inject_Z_plus, inject_Z_opp. reflexivity.
  - rewrite Ha, Hb. exists (VFlt (Qred (x - y))), (Qred (x - y)). repeat split. apply Qred_correct.
  - rewrite Ha, Hb. exists (VFlt (Qred (x - y))), (Qred (x - y)). repeat split. apply Qred_correct.
Qed.

Lemma num_add a b x y : num_of a = Some x -> num_of b = Some y ->
  exists c z, py_add a b = Ok c /\ num_of c = Some z /\ z == x + y.
Proof.
  intros Ha Hb. unfold py_add.
  destruct (int_of a) as [ia|] eqn:Ia; [destruct (int_of b) as [ib|] eqn:Ib|].
  - apply int_num in Ia. apply int_num in Ib. rewrite Ha in Ia. rewrite Hb in Ib.
    inversion Ia; inversion Ib; subst.
    exists (VInt (ia + ib)), (inject_Z (ia + ib)). repeat split. rewrite inject_Z_plus. reflexivity.
  - rewrite Ha, Hb. exists (VFlt (Qred (x + y))), (Qred (x + y)). repeat split. apply Qred_correct.
  - rewrite Ha, Hb. exists (VFlt (Qred (x + y))), (Qred (x + y)). repeat split. apply Qred_correct.
Qed.

Lemma num_ord fq fs a b x y : num_of a = Some x -> num_of b = Some y ->
  py_ord fq fs a b = Ok (VBool (fq x y)).
Proof. intros Ha Hb. unfold py_ord. rewrite Ha, Hb. reflexivity. Qed.

(* a non-number on either side of - / + / abs raises TypeError, except str + str *)
Lemma sub_nonnum a b : num_of a = None \/ num_of b = None -> py_sub a b = Err TypeError.
Proof.
  intros [H|H]; unfold py_sub.
  - destruct a; cbn in H; try discriminate; cbn; destruct (int_of b); reflexivity.
  - destruct b; cbn in H; try discriminate; destruct (int_of a), (num_of a); reflexivity.
Qed.

Lemma abs_nonnum a : num_of a = None -> py_abs a = Err TypeError.
Proof. destruct a; cbn; intro H; try discriminate; reflexivity. Qed.

Lemma ord_nonnum_l fq fs a b : num_of a <> None -> num_of b = None -> py_ord fq fs a b = Err TypeError.
Proof.
  intros Ha Hb. unfold py_ord. rewrite Hb. destruct (num_of a) eqn:E; [|congruence].
  destruct a; cbn in E; try discriminate; reflexivity.
Qed.

(* ---- Need.Check (generated) --------------------------------------------------------- *)
(* the range test  (goal - abs(tol)) <= state <= (goal + abs(tol))  as python evaluates it *)
Definition range_test (s g t : val) : res val :=
  bind (bind (py_abs t) (fun t1 => py_sub g t1)) (fun lo =>
    bind (py_le lo s) (fun c => if py_truthy c
      then bind (bind (py_abs t) (fun t2 => py_add g t2)) (fun hi => py_le s hi) else Ok c)).

Lemma bind_ok_id {A} (r : res A) : bind r (fun x => Ok x) = r.
Proof. destruct r; reflexivity. Qed.

Ltac cmp_tests :=
  repeat match goal with
  | |- context [py_truthy (py_eq (VStr ?a) (VStr ?b))] =>
      let v := eval vm_compute in (py_truthy (py_eq (VStr a) (VStr b))) in
      change (py_truthy (py_eq (VStr a) (VStr b))) with v
  end; cbv iota.

Lemma check_eq_unfold s g t :
  Check s (op_str OpEq) g t = catch TypeError (range_test s g t) (Ok (py_eq g s)).
Proof. unfold Check, op_str. cmp_tests. rewrite !bind_ok_id. reflexivity. Qed.

Lemma check_ne_unfold s g t :
  Check s (op_str OpNe) g t =
  catch TypeError (bind (range_test s g t) (fun r => Ok (py_not r))) (Ok (py_ne g s)).
Proof. unfold Check, op_str. cmp_tests. rewrite !bind_ok_id. reflexivity. Qed.

Lemma check_lt_unfold s g t : Check s (op_str OpLt) g t = py_lt s g.
Proof. unfold Check, op_str. cmp_tests. rewrite !bind_ok_id. reflexivity. Qed.
Lemma check_le_unfold s g t : Check s (op_str OpLe) g t = py_le s g.
Proof. unfold Check, op_str. cmp_tests. rewrite !bind_ok_id. reflexivity. Qed.
Lemma check_ge_unfold s g t : Check s (op_str OpGe) g t = py_ge s g.
Proof. unfold Check, op_str. cmp_tests. rewrite !bind_ok_id. reflexivity. Qed.
Lemma check_gt_unfold s g t : Check s (op_str OpGt) g t = py_gt s g.
Proof. unfold Check, op_str. cmp_tests. rewrite !bind_ok_id. reflexivity. Qed.

Lemma range_numeric s g t sv gv tv :
  num_of s = Some sv -> num_of g = Some gv -> num_of t = Some tv ->
  range_test s g t = Ok (VBool (written OpEq sv gv tv)).
Proof.
  intros Hs Hg Ht. unfold range_test, written.
  destruct (num_abs t tv Ht) as [a [x [Ea [Na Xa]]]]. rewrite Ea. cbn [bind].
  destruct (num_sub g a gv x Hg Na) as [lo [z [El [Nl Zl]]]]. rewrite El. cbn [bind].
  unfold py_le. rewrite (num_ord _ _ lo s z sv Nl Hs). cbn [bind py_truthy].
  assert (C1 : Qle_bool z sv = Qle_bool (gv - Qabs tv) sv).
  { apply Qle_bool_compat; [rewrite Zl, Xa; reflexivity | reflexivity]. }
  rewrite C1. destruct (Qle_bool (gv - Qabs tv) sv); [|reflexivity].
  destruct (num_add g a gv x Hg Na) as [hi [w [Eh [Nh Wh]]]]. rewrite Eh. cbn [bind].
  rewrite (num_ord _ _ s hi sv w Hs Nh). cbn [andb].
  f_equal. f_equal. apply Qle_bool_compat; [reflexivity | rewrite Wh, Xa; reflexivity].
Qed.

Lemma range_nonnumeric s g t :
  num_of s = None \/ num_of g = None \/ num_of t = None -> range_test s g t = Err TypeError.
Proof.
  intro H. unfold range_test.
  destruct (num_of t) as [tv|] eqn:Ht.
  - destruct (num_abs t tv Ht) as [a [x [Ea [Na Xa]]]]. rewrite Ea. cbn [bind].
    destruct (num_of g) as [gv|] eqn:Hg.
    + destruct (num_sub g a gv x Hg Na) as [lo [z [El [Nl Zl]]]]. rewrite El. cbn [bind].
      destruct H as [H|[H|H]]; try discriminate.
      unfold py_le. rewrite ord_nonnum_l; [reflexivity | congruence | exact H].
    + rewrite sub_nonnum; [reflexivity | left; exact Hg].
  - rewrite abs_nonnum; [reflexivity | exact Ht].
Qed.

Lemma check_numeric o s g t sv gv tv :
  num_of s = Some sv -> num_of g = Some gv -> num_of t = Some tv ->
  Check s (op_str o) g t = Ok (VBool (written o sv gv tv)).
Proof.
  intros Hs Hg Ht. destruct o.
  - rewrite check_eq_unfold, (range_numeric s g t sv gv tv Hs Hg Ht). reflexivity.
  - rewrite check_ne_unfold, (range_numeric s g t sv gv tv Hs Hg Ht). reflexivity.
  - rewrite check_lt_unfold. unfold py_lt. rewrite (num_ord _ _ s g sv gv Hs Hg). reflexivity.
  - rewrite check_le_unfold. unfold py_le. rewrite (num_ord _ _ s g sv gv Hs Hg). reflexivity.
  - rewrite check_ge_unfold. unfold py_ge. rewrite (num_ord _ _ s g sv gv Hs Hg). reflexivity.
  - rewrite check_gt_unfold. unfold py_gt. rewrite (num_ord _ _ s g sv gv Hs Hg). reflexivity.
Qed.

(* == / != when something is not a number (strings, None): plain equality / inequality *)
Lemma check_eq_other s g t :
  num_of s = None \/ num_of g = None \/ num_of t = None ->
  Check s (op_str OpEq) g t = Ok (py_eq g s) /\ Check s (op_str OpNe) g t = Ok (py_ne g s).
Proof.
  intro H. rewrite check_eq_unfold, check_ne_unfold, (range_nonnumeric s g t H). split; reflexivity.
Qed.

Lemma num_dec v : {x | num_of v = Some x} + {num_of v = None}.
Proof. destruct (num_of v) as [x|]; [left; exists x; reflexivity | right; reflexivity]. Qed.

(* != is the complement of ==, for ALL python values *)
Lemma check_ne_negation s g t :
  exists b, Check s (op_str OpEq) g t = Ok (VBool b) /\ Check s (op_str OpNe) g t = Ok (VBool (negb b)).
Proof.
  destruct (num_dec s) as [[sv Hs]|Hs]; [destruct (num_dec g) as [[gv Hg]|Hg];
    [destruct (num_dec t) as [[tv Ht]|Ht]|]|].
  - exists (written OpEq sv gv tv).
    rewrite (check_numeric OpEq s g t sv gv tv Hs Hg Ht), (check_numeric OpNe s g t sv gv tv Hs Hg Ht).
    split; reflexivity.
  - exists (py_eqb g s). destruct (check_eq_other s g t) as [A B]; [auto|]. rewrite A, B. split; reflexivity.
  - exists (py_eqb g s). destruct (check_eq_other s g t) as [A B]; [auto|]. rewrite A, B. split; reflexivity.
  - exists (py_eqb g s). destruct (check_eq_other s g t) as [A B]; [auto|]. rewrite A, B. split; reflexivity.
Qed.

(* any other comparison string -> False *)
Lemma check_unknown c s g t :
  (forall o, py_eqb c (op_str o) = false) -> Check s c g t = Ok (VBool false).
Proof.
  intro H. unfold Check, py_eq.
  pose proof (H OpEq) as H1; pose proof (H OpLt) as H2; pose proof (H OpLe) as H3;
  pose proof (H OpGe) as H4; pose proof (H OpGt) as H5; pose proof (H OpNe) as H6.
  unfold op_str in *. rewrite H1, H2, H3, H4, H5, H6. reflexivity.
Qed.

(* ---- needs: boolean need, negation, conjunction -------------------------------------- *)
Lemma boolean_need e s neg :
  clause_call e {| negated := neg; nd := NBoolean s |} = Ok (VBool (xorb neg (py_truthy (e s)))).
Proof. unfold clause_call. cbn. destruct neg, (py_truthy (e s)); reflexivity. Qed.

Lemma nact_negates_lemma e n v : need_action e n = Ok v ->
  clause_call e {| negated := false; nd := n |} = Ok v /\
  clause_call e {| negated := true; nd := n |} = Ok (VBool (negb (py_truthy v))).
Proof. intro H. unfold clause_call. cbn. rewrite H. split; reflexivity. Qed.

Lemma direct_numeric e neg s o g t sv gv tv :
  num_of (e s) = Some sv -> num_of g = Some gv -> num_of t = Some tv ->
  clause_call e {| negated := neg; nd := NDirect s (op_str o) g t |}
  = Ok (VBool (xorb neg (written o sv gv tv))).
Proof.
  intros Hs Hg Ht. unfold clause_call. cbn [nd negated need_action].
  rewrite (check_numeric o (e s) g t sv gv tv Hs Hg Ht). cbn.
  destruct neg, (written o sv gv tv); reflexivity.
Qed.

Lemma indirect_numeric e neg s o g t sv gv tv :
  num_of (e s) = Some sv -> num_of (e g) = Some gv -> num_of t = Some tv ->
  clause_call e {| negated := neg; nd := NIndirect s (op_str o) g t |}
  = Ok (VBool (xorb neg (written o sv gv tv))).
Proof.
  intros Hs Hg Ht. unfold clause_call. cbn [nd negated need_action].
  rewrite (check_numeric o (e s) (e g) t sv gv tv Hs Hg Ht). cbn.
  destruct neg, (written o sv gv tv); reflexivity.
Qed.

Lemma needs_conj_lemma e cs :
  (forall c, In c cs -> is_ok (clause_call e c) = true) ->
  needs_hold e cs = Ok (forallb (clause_truth e) cs).
Proof.
  induction cs as [|c r IH]; intro H; [reflexivity|].
  cbn [needs_hold forallb]. unfold clause_truth at 1.
  pose proof (H c (or_introl eq_refl)) as Hc.
  destruct (clause_call e c) as [v|x]; [|discriminate]. cbn [bind].
  destruct (py_truthy v); [|reflexivity]. cbn [andb]. apply IH. intros c' Hc'. apply H. right. exact Hc'.
Qed.

(* the first false clause decides: nothing after it is evaluated (so cannot raise) *)
Lemma needs_short_circuit e pre c post :
  (forall x, In x pre -> exists v, clause_call e x = Ok v /\ py_truthy v = true) ->
  (exists v, clause_call e c = Ok v /\ py_truthy v = false) ->
  needs_hold e (pre ++ c :: post) = Ok false.
Proof.
  induction pre as [|p r IH]; intros Hp [v [Hc Hv]].
  - cbn. rewrite Hc. cbn. rewrite Hv. reflexivity.
  - cbn [app needs_hold]. destruct (Hp p (or_introl eq_refl)) as [w [Hw Tw]]. rewrite Hw. cbn [bind].
    rewrite Tw. apply IH; [|exists v; auto]. intros x Hx. apply Hp. right. exact Hx.
Qed.

Lemma first_tick_spec cs : forall envs k,
  (forall e c, In e envs -> In c cs -> is_ok (clause_call e c) = true) ->
  first_tick cs envs k =
  Ok (match find (fun p => forallb (clause_truth (snd p)) cs) (combine (seq k (length envs)) envs) with
      | Some p => Some (fst p) | None => None end).
Proof.
  induction envs as [|e r IH]; intros k H; [reflexivity|].
  cbn [first_tick length seq combine find snd fst].
  rewrite (needs_conj_lemma e cs); [|intros c Hc; apply H; [left; reflexivity|exact Hc]].
  cbn [bind]. destruct (forallb (clause_truth e) cs); [reflexivity|].
  apply IH. intros e' c He Hc. apply H; [right; exact He|exact Hc].
Qed.

(* ---- clause syntax: parse inverts render ---------------------------------------------- *)
Lemma parse1_render1 c rest :
  (match rest with [] => True | TAnd :: _ => True | _ => False end) ->
  parse1 (render1 c ++ rest) = Some (c, rest).
Proof.
  intro R. destruct c as [ng s cmp]. unfold render1. cbn [s_neg s_state s_cmp].
  destruct cmp as [[[o g] t]|].
  - destruct ng, g, t as [tv|]; cbn; try reflexivity;
      destruct rest as [|[] ?]; try contradiction; reflexivity.
  - destruct ng; cbn; destruct rest as [|[] ?]; try contradiction; reflexivity.
Qed.

Lemma parse_render_lemma cs : cs <> [] ->
  forall fuel, (length cs <= fuel)%nat -> parse fuel (render cs) = Some cs.
Proof.
  induction cs as [|c r IH]; intros N fuel L; [congruence|].
  destruct fuel as [|f]; [cbn in L; lia|]. destruct r as [|c2 r2].
  - cbn [render parse]. rewrite <- (app_nil_r (render1 c)). rewrite parse1_render1; [reflexivity|exact I].
  - change (render (c :: c2 :: r2)) with (render1 c ++ [TAnd] ++ render (c2 :: r2)).
    cbn [parse]. rewrite parse1_render1; [|exact I]. cbn [app].
    rewrite IH; [reflexivity|discriminate|cbn in *; lia].
Qed.
