(* C03 -- the scheduler stops when nothing runs and aborts every remaining tasker. *)
From Coq Require Import List ZArith Bool Arith.
Import ListNotations.
Require Import V.Kernel.Model V.Kernel.SkedProofs V.Kernel.RunInv V.Kernel.MoreProofs.

(* how the main loop can end: no tasker left (EndEmpty), right after a tick in which no tasker was
   started or running (EndIdle), a KeyboardInterrupt or an exception raised from an action during a tick,
   or a KeyboardInterrupt between two ticks (EndTicks) *)
Theorem run_ends_when_idle : forall (O : TimeOps) (P : prog O) n s s' e, ticks P n s = (s', e) ->
  match e with
  | EndEmpty => ready s' = [] /\ crashed (sw s') = None
  | EndIdle => ready s' <> [] /\ crashed (sw s') = None /\
               exists s0 l, tick_loop P (length (ready s0)) s0 None false = (s', l, false)
  | EndKbd => crashed (sw s') = Some KbdInt
  | EndExcn => crashed (sw s') = Some Excn
  | EndTicks => True
  end.
Proof. exact ticks_end. Qed.
Print Assumptions run_ends_when_idle.

(* the finally clause, from ANY state the loop was left in: every tasker still in the queue is sent
   exactly one ABORT, in queue order, and the queue is empty afterwards *)
Theorem abort_sweep_exactly_once : forall (O : TimeOps) (P : prog O) n s, length (ready s) = n ->
  crashed (sw (sweep P n s)) = None ->
  ready (sweep P n s) = [] /\
  runlog (sweep P n s) = runlog s ++ map (fun e => (tk (sw s), rtid O e)) (ready s).
Proof. exact sweep_all. Qed.
Print Assumptions abort_sweep_exactly_once.

(* a started/running framer receiving ABORT (or STOP) exits its active outline and has no active frame left *)
Theorem abort_exits_all : forall (O : TimeOps) (P : prog O) n a c w w' r,
  framer_send P (lvl P n) a c w = (w', Some r) -> (c = CStop \/ c = CAbort) ->
  (st (gett w a) = Running \/ st (gett w a) = Started) -> a < length (tss w) ->
  active (gett w' a) = None /\ actives (gett w' a) = [] /\ (r = Stopped \/ r = Aborted).
Proof. exact send_stop_abort_clears. Qed.
Print Assumptions abort_exits_all.

(* only taskers of the initial queue are ever run by the scheduler loop *)
Theorem only_scheduled_taskers_run : forall (O : TimeOps) (P : prog O) n s s' e,
  ticks P n s = (s', e) -> crashed (sw s') = None ->
  forall x, In x (map snd (runlog s')) -> In x (map snd (runlog s)) \/ In x (map (rtid O) (ready s)).
Proof. exact ticks_runlog. Qed.
Print Assumptions only_scheduled_taskers_run.

(* For a scheduled framer t that no other framer can reach (it is nobody's auxiliary, fiat target or done
   target): invariant Q t = "alive and neither started nor running => no active frame"; it is preserved by
   EVERY runner send to any tasker ... *)
Require Import V.Kernel.SweepProofs V.Kernel.GenInd V.Kernel.Basics.
Theorem idle_framer_has_no_active_frames_inv : forall (O : TimeOps) (P : prog O) t,
  (forall a, a <> t -> ~ reach O P a t) ->
  forall a c w, t < length (tss w) -> Q O t w -> Q O t (fst (o_send (top P) a c w)).
Proof. exact Q_send. Qed.
Print Assumptions idle_framer_has_no_active_frames_inv.

(* ... so the ABORT of the final sweep leaves it ABORTED and (its generator being alive) with no active
   frame whatever state it was in: all its entered outline was exited bottom-up by exitAll ... *)
Theorem swept_framer_is_aborted_and_exited : forall (O : TimeOps) (P : prog O) t,
  (forall a, a <> t -> ~ reach O P a t) ->
  forall w w' r, t < length (tss w) -> Q O t w ->
  o_send (top P) t CAbort w = (w', Some r) ->
  st (gett w' t) = Aborted /\
  (alive (gett w' t) = true -> active (gett w' t) = None /\ actives (gett w' t) = []).
Proof. exact abort_leaves_nothing. Qed.
Print Assumptions swept_framer_is_aborted_and_exited.

(* ... and the rest of the sweep (sends to other taskers) cannot change that *)
Theorem swept_framer_stays_aborted : forall (O : TimeOps) (P : prog O) t,
  (forall a, a <> t -> ~ reach O P a t) ->
  forall a c w, a <> t -> core O (gett (fst (o_send (top P) a c w)) t) = core O (gett w t).
Proof. exact aborted_stays. Qed.
Print Assumptions swept_framer_stays_aborted.
