(* C06 -- enter/exit bracketing and order.  PARTIAL (see props/C06/meta.json):
   proved : the outline-difference computation for ALL pairs of outlines; the order of a taken
            transition; stop/abort exits the active outline bottom-up, auxiliaries of a frame before
            its own exit actions.
   refuted: the full bracketing statement is FALSE of the faithful model (and of the code): witnesses
            V.Kernel.Witness (frames suspended under a conditional auxiliary are never exited; an
            original auxiliary listed twice in one outline is entered twice) -- open known findings. *)
From Coq Require Import List ZArith Bool Arith.
Import ListNotations.
Require Import V.Kernel.Model V.Kernel.Inst V.Kernel.ExEnProofs V.Kernel.PrecurProofs V.Kernel.Witness.

(* Framer.ExEn, every pair (nears, far outline), every far: the split point is the first index where
   nears[i] is far or differs from fars[i]; exits/enters are the tails from there, reexens the common head *)
Theorem ExEn_spec : forall nears fars far ex en re,
  exen nears fars far [] = (ex, en, re) -> exen_spec nears fars far ex en re.
Proof. exact exen_correct. Qed.
Print Assumptions ExEn_spec.

Theorem ExEn_partition : forall nears fars far ex en re,
  exen nears fars far [] = (ex, en, re) ->
  (ex <> [] -> nears = re ++ ex /\ fars = re ++ en /\ ~ In far re /\ en <> []) /\
  (ex = [] -> en = [] /\ re = nears).
Proof. exact exen_partition. Qed.
Print Assumptions ExEn_partition.

(* forced re-entry: when the target itself appears in the current outline, exit from it downwards *)
Theorem ExEn_to_self_or_ancestor : forall pre far ns fs, ~ In far pre ->
  exen (pre ++ far :: ns) (pre ++ far :: fs) far [] = (far :: ns, far :: fs, pre).
Proof. exact exen_self. Qed.
Print Assumptions ExEn_to_self_or_ancestor.

(* a taken transition: guards true on the world of the attempt, then exits (bottom-up), re-exits
   (bottom-up), re-enters (top-down), enters (top-down), then the target becomes active *)
Theorem transit_order : forall (O : TimeOps) (P : prog O) sub t ns far w w',
  transit P sub t ns far w = (w', true) ->
  forallb (eval_need P t w) ns = true /\
  let '(ex, en, re) := ExEn P t (actives (gett w t)) far in
  framer_checkEnter P sub t en ex w = true /\
  w' = guard (framer_enter P sub t en (framer_renter P sub t re (framer_rexit P sub t re (framer_exit P sub t ex (run_acts P sub t (tracts_of ns) w)))))
             (activate P t far).
Proof. exact transit_taken. Qed.
Print Assumptions transit_order.

Theorem exits_bottom_up_enters_top_down : forall (O : TimeOps) (P : prog O) sub t l w,
  framer_exit P sub t l w = fold_left (frame_exit P sub t) (rev l) w /\
  framer_rexit P sub t l w = fold_left (fun w f => run_acts P sub t (rexacts (getf P t f)) w) (rev l) w /\
  framer_renter P sub t l w = fold_left (fun w f => run_acts P sub t (renacts (getf P t f)) w) l w.
Proof. intros. repeat split; reflexivity. Qed.
Print Assumptions exits_bottom_up_enters_top_down.

(* the full bracketing statement does not hold of the code as it is (open findings, replayed by the check) *)
Theorem bracketing_refuted_suspended :
  let w := sw (fst (run P_suspended 1 None 6)) in
  count_enter 0 1 (trace w) = 1 /\ count_exit 0 1 (trace w) = 0 /\
  status_n (Some (st (gett w 0))) = 3 /\ actives (gett w 0) = [].
Proof. exact suspended_frames_not_exited. Qed.
Print Assumptions bracketing_refuted_suspended.
