(* C19 -- property theorems only.  Each closed by [exact]; Print Assumptions beneath.
   State: the store clock (sstamp) and two shares: sh true = a share living in the store,
   sh false = a share without a store.  [run t0 ops] is the state after ANY interleaving of
   value= / update / change / create / stampNow / share[k]=v / share[k] / del share[k] /
   k in share / deck push-pull-gulp-spew on either share and store time advances, starting
   from a store whose stamp is t0 (None allowed).  [step] = FIXED behaviour
   (fixes/C19-*.patch), [step_orig] = the code as found.                                   *)
From Coq Require Import List ZArith Bool.
Import ListNotations.
Require Import V.C19.Model V.C19.Proofs.
Open Scope Z_scope.

(* Assigning the value, a successful update, installing a data record and stampNow stamp the share with
   its store's current time; store_stamp is None for a share that does not reference a store. *)
Theorem value_update_stamp_now : forall s w,
  (forall v, snd (step s (SetValue w v)) = ROk /\ stamp (sh w (fst (step s (SetValue w v)))) = store_stamp w s) /\
  (forall kvs, snd (step s (Update w kvs)) = ROk -> stamp (sh w (fst (step s (Update w kvs)))) = store_stamp w s) /\
  (forall kvs, snd (step s (SetData w kvs)) = ROk -> stamp (sh w (fst (step s (SetData w kvs)))) = store_stamp w s) /\
  (snd (step s (StampNow w)) = RVal (store_stamp w s) /\ stamp (sh w (fst (step s (StampNow w)))) = store_stamp w s) /\
  store_stamp w s = (if att w s then sstamp s else None).
Proof. exact (fun s w => conj (setvalue_stamps s w) (conj (update_stamps s w)
         (conj (fun kvs H => proj1 (setdata_stamps s w kvs H)) (conj (stampnow_stamps s w) eq_refl)))). Qed.
Print Assumptions value_update_stamp_now.

(* NO STAMP WITHOUT A STORE.  Whatever stamp a share carries (stamped while attached and then detached with
   changeStore(None), or given one explicitly), once it references no store every stamping operation
   -- value=, a successful update, a successful data assignment, stampNow, a create that adds a field --
   leaves its stamp None. *)
Theorem no_stamp_without_store : forall s w, att w s = false ->
  (forall v, stamp (sh w (fst (step s (SetValue w v)))) = None) /\
  (forall kvs, snd (step s (Update w kvs)) = ROk -> stamp (sh w (fst (step s (Update w kvs)))) = None) /\
  (forall kvs, snd (step s (SetData w kvs)) = ROk -> stamp (sh w (fst (step s (SetData w kvs)))) = None) /\
  (stamp (sh w (fst (step s (StampNow w)))) = None /\ snd (step s (StampNow w)) = RVal None) /\
  (forall kvs, snd (step s (Create w kvs)) = ROk ->
     forallb (fun kv => has (fst kv) (fl (sh w s))) kvs = false -> stamp (sh w (fst (step s (Create w kvs)))) = None).
Proof. exact no_stamp_without_store_l. Qed.
Print Assumptions no_stamp_without_store.

(* attachment: changeStore(None) / changeStore(store) flip the reference of that share only and touch no
   share's content; no other operation changes any attachment; an explicit stamp assignment sets exactly the stamp *)
Theorem attachment_rules : forall s w,
  (att w (fst (step s (Detach w))) = false /\ att w (fst (step s (Attach w))) = true /\
   (forall w', sh w' (fst (step s (Detach w))) = sh w' s /\ sh w' (fst (step s (Attach w))) = sh w' s) /\
   (forall w', w <> w' -> att w' (fst (step s (Detach w))) = att w' s /\ att w' (fst (step s (Attach w))) = att w' s)) /\
  (forall o, is_attach_op o = false -> att w (fst (step s o)) = att w s) /\
  (forall t, stamp (sh w (fst (step s (ForceStamp w t)))) = Some t /\
             fl (sh w (fst (step s (ForceStamp w t)))) = fl (sh w s) /\ att w (fst (step s (ForceStamp w t))) = att w s).
Proof. exact (fun s w => conj (detach_attach s w) (conj (fun o H => att_frame s o w H) (forcestamp_sets s w))). Qed.
Print Assumptions attachment_rules.

(* the data setter: a record with a non-public name is refused and nothing changes; an accepted one
   replaces the fields by exactly the abstract map built from the pairs *)
Theorem data_setter : forall s w kvs,
  (snd (step s (SetData w kvs)) = ROk -> live (fl (sh w (fst (step s (SetData w kvs))))) = a_set_all kvs []) /\
  (snd (step s (SetData w kvs)) <> ROk -> fst (step s (SetData w kvs)) = s).
Proof. exact (fun s w kvs => conj (fun H => proj2 (setdata_stamps s w kvs H)) (setdata_rejected s w kvs)). Qed.
Print Assumptions data_setter.

(* change, share[k]=v, del share[k], lookups, every deck operation and every store time
   advance leave every share's stamp alone: only value= / update / create / stampNow / data= stamp
   (and an explicit assignment to .stamp, counted as stamping). *)
Theorem change_keeps_stamp : forall s o w, stamping o = false -> stamp (sh w (fst (step s o))) = stamp (sh w s).
Proof. exact nonstamping_keeps_stamp. Qed.
Print Assumptions change_keeps_stamp.

(* an update refused because of a field name does not stamp *)
Theorem rejected_update_keeps_stamp : forall s w kvs, snd (step s (Update w kvs)) <> ROk ->
  stamp (sh w (fst (step s (Update w kvs)))) = stamp (sh w s).
Proof. exact update_rejected_keeps_stamp. Qed.
Print Assumptions rejected_update_keeps_stamp.

(* create stamps exactly when it added a field; when every named field exists nothing changes *)
Theorem create_stamps_iff_added : forall s w kvs, snd (step s (Create w kvs)) = ROk ->
  if forallb (fun kv => has (fst kv) (fl (sh w s))) kvs
  then fst (step s (Create w kvs)) = s
  else stamp (sh w (fst (step s (Create w kvs)))) = store_stamp w s.
Proof. exact create_stamps_iff_added_l. Qed.
Print Assumptions create_stamps_iff_added.

(* create never overwrites an existing field (whether or not it completes) *)
Theorem create_never_overwrites : forall s w kvs k v,
  fget k (fl (sh w s)) = Some (Some v) -> fget k (fl (sh w (fst (step s (Create w kvs))))) = Some (Some v).
Proof. exact create_never_overwrites_l. Qed.
Print Assumptions create_never_overwrites.

(* field names must be public identifiers: a new name that is not one is refused and the whole
   state is unchanged; a public identifier is always accepted; an update/change that fails did
   meet a non-public name *)
Theorem field_names_public : forall s w k v,
  (fget k (fl (sh w s)) = None -> ident_pub true k = false -> step s (SetItem w k v) = (s, RErrKey)) /\
  (ident_pub true k = true -> snd (step s (SetItem w k v)) = ROk).
Proof. exact (fun s w k v => conj (setitem_rejected s w k v) (setitem_public_accepted s w k v)). Qed.
Print Assumptions field_names_public.

Theorem refused_batch_has_nonpublic_name : forall kvs f, snd (set_all true kvs f) = false ->
  exists k v, In (k, v) kvs /\ ident_pub true k = false.
Proof. exact set_all_rejected. Qed.
Print Assumptions refused_batch_has_nonpublic_name.

(* over every history: every field name of either share is a public identifier, keys are distinct,
   the odict key list never goes stale (no ghost), and items()/keys()/len() are those of the
   abstract association list [live] *)
Theorem fields_well_formed_all_histories : forall t0 ops w,
  let f := fl (sh w (run t0 ops)) in
  no_ghostb f = true /\ NoDup (keys f) /\ (forall k, In k (keys f) -> ident_pub true k = true) /\
  items f = Some (live f) /\ keys f = map fst (live f) /\ len f = Z.of_nat (length (live f)).
Proof. exact fields_ok_all_histories. Qed.
Print Assumptions fields_well_formed_all_histories.

(* fields_are_ordered_map: after every history, each operation acts on the addressed share's fields
   exactly as the abstract insertion-ordered map does (a_fstep: overwrite in place, new key last,
   delete removes the key), and leaves the other share alone *)
Theorem fields_are_ordered_map : forall t0 ops o w, op_share o = Some w ->
  live (fl (sh w (run t0 (ops ++ [o])))) = a_fstep (live (fl (sh w (run t0 ops)))) o.
Proof. exact fields_refine_all_histories. Qed.
Print Assumptions fields_are_ordered_map.

Theorem other_share_unchanged : forall s o w w', op_share o = Some w -> w <> w' -> sh w' (fst (step s o)) = sh w' s.
Proof. exact other_share_untouched. Qed.
Print Assumptions other_share_unchanged.

Theorem time_advance_changes_no_share : forall s o w, op_share o = None -> sh w (fst (step s o)) = sh w s.
Proof. exact clock_ops_keep_shares. Qed.
Print Assumptions time_advance_changes_no_share.

(* the store's own .time share (created by Store.__init__, rewritten by changeStamp/advanceStamp):
   after every history its stamp is the store stamp and its only field is value = the store stamp
   (0 while the store has no stamp); no share operation ever touches it *)
Theorem time_share_tracks_clock : forall t0 ops,
  let s := run t0 ops in
  stamp (shT s) = sstamp s /\
  fl (shT s) = [(value_key, Some (match sstamp s with Some t => t | None => 0 end))] /\ deck (shT s) = [].
Proof. exact time_inv_run. Qed.
Print Assumptions time_share_tracks_clock.

(* laws of the abstract ordered map (what "insertion-ordered mapping" means) *)
Theorem ordered_map_laws : forall k v (m : amap),
  (forall m', a_setattr k v m = Some m' -> a_get k m' = Some v) /\
  (forall m' k', a_setattr k v m = Some m' -> str_eqb k' k = false -> a_get k' m' = a_get k' m) /\
  (forall m', a_setattr k v m = Some m' ->
      map fst m' = match a_get k m with Some _ => map fst m | None => map fst m ++ [k] end) /\
  (NoDup (map fst m) -> a_get k (a_del k m) = None) /\
  (forall k', str_eqb k' k = false -> a_get k' (a_del k m) = a_get k' m) /\
  (NoDup (map fst m) -> ident_pub true k = true -> a_setattr k v (a_del k m) = Some (a_del k m ++ [(k, v)])).
Proof. exact (fun k v m => conj (a_set_get_same k v m) (conj (fun m' k' => a_set_get_other k v m m' k')
         (conj (a_set_keys k v m) (conj (a_del_get_same k m) (conj (fun k' => a_del_get_other k k' m) (a_readd_last k v m)))))). Qed.
Print Assumptions ordered_map_laws.

(* deck_fifo: over every interleaving, for each share, everything ever enqueued (push e, gulp of a
   non-None e) = everything dequeued so far (pull / spew from a nonempty deck), in order, followed by
   what is still in the deck *)
Theorem deck_fifo : forall t0 ops w,
  enq w (irun t0 ops) = deq w (irun t0 ops) ++ deck (sh w (cur (irun t0 ops))) /\ cur (irun t0 ops) = run t0 ops.
Proof. exact (fun t0 ops w => conj (deck_fifo_l t0 ops w) (cur_irun t0 ops)). Qed.
Print Assumptions deck_fifo.

Theorem gulp_ignores_none : forall s w, step s (Gulp w None) = (s, ROk).
Proof. exact gulp_none. Qed.
Print Assumptions gulp_ignores_none.

(* spew returns None only when the deck is empty -- for histories in which None was never pushed
   (push(None) is legal and makes the answer ambiguous; the hypothesis is part of the statement) *)
Theorem spew_none_iff_empty : forall t0 ops w, forallb (fun o => negb (pushes_none o)) ops = true ->
  (snd (step (run t0 ops) (Spew w)) = RVal None <-> deck (sh w (run t0 ops)) = []).
Proof. exact spew_none_iff_empty_l. Qed.
Print Assumptions spew_none_iff_empty.

(* ---- the code AS FOUND refutes the property (replayed on the implementation by the check) *)
Theorem delete_orig_refuted :
  exists ops, let s := fold_left (fun s o => fst (step_orig s o)) ops (init (Some 0)) in
    items (fl (shA s)) = None /\ no_ghostb (fl (shA s)) = false.
Proof. exact orig_delete_refuted. Qed.
Print Assumptions delete_orig_refuted.

Theorem ident_orig_refuted :
  exists k v, ident_pub true k = false /\ snd (step_orig (init (Some 0)) (SetItem true k v)) = ROk.
Proof. exact orig_ident_refuted. Qed.
Print Assumptions ident_orig_refuted.

(* ---- non-vacuity *)
Definition k_y : str := [121].
Definition k_1a : str := [49; 97].
Example c19_nonvacuous :
  let s := run (Some 0) [SetItem true k_x 1; Advance 2; Update true [(k_y, 2)]; DelItem true k_x; Create true [(k_x, 5); (k_y, 9)];
                         Advance 1; Change true [(k_y, 3)]; Update true [(k_1a, 0)]; Push true (Some 4); Gulp true None; Gulp true (Some 6);
                         Update false [(k_x, 1)]] in
  items (fl (shA s)) = Some [(k_y, 3); (k_x, 5)] /\ stamp (shA s) = Some 2 /\ sstamp s = Some 3 /\
  deck (shA s) = [Some 4; Some 6] /\ stamp (shB s) = None /\ items (fl (shB s)) = Some [(k_x, 1)].
Proof. vm_compute. repeat split; reflexivity. Qed.

Example c19_storeless_nonvacuous :
  let s := run (Some 0) [SetStamp 5; SetValue true 1; Detach true; Change true [(k_x, 1)]] in
  stamp (shA s) = Some 5 /\ att true s = false /\
  stamp (shA (fst (step s (Update true [(k_x, 2)])))) = None /\
  stamp (shB (run (Some 0) [ForceStamp false 7; Change false [(k_x, 1)]])) = Some 7 /\
  stamp (shB (run (Some 0) [ForceStamp false 7; Update false [(k_x, 1)]])) = None /\
  stamp (shA (run (Some 0) [Detach true; Attach true; SetStamp 4; Update true [(k_x, 9)]])) = Some 4.
Proof. vm_compute. repeat split; reflexivity. Qed.
