(* C19 -- lemmas: stamps, frame, field names, ordered map, deck *)
From Coq Require Import List ZArith Bool Lia.
Import ListNotations.
Require Import V.C19.Model.
Open Scope Z_scope.

Lemma str_eqb_eq a : forall b, str_eqb a b = true <-> a = b.
Proof.
  induction a as [|x a IH]; intros [|y b]; cbn; split; intros H; try reflexivity; try discriminate.
  - apply andb_true_iff in H. destruct H as [H1 H2]. apply Z.eqb_eq in H1. apply IH in H2. congruence.
  - inversion H; subst. rewrite Z.eqb_refl. cbn. apply IH. reflexivity.
Qed.
Lemma str_eqb_refl a : str_eqb a a = true.
Proof. apply str_eqb_eq. reflexivity. Qed.
Lemma str_eqb_neq a b : str_eqb a b = false <-> a <> b.
Proof.
  split; intros H.
  - intros E. apply str_eqb_eq in E. congruence.
  - destruct (str_eqb a b) eqn:E; [|reflexivity]. apply str_eqb_eq in E. contradiction.
Qed.
Lemma str_eqb_sym a b : str_eqb a b = str_eqb b a.
Proof.
  destruct (str_eqb a b) eqn:E.
  - apply str_eqb_eq in E. subst. symmetry. apply str_eqb_refl.
  - symmetry. apply str_eqb_neq. apply str_eqb_neq in E. congruence.
Qed.

(* ---------------------------------------------------------------- state plumbing *)
Lemma sh_set_same w x s : sh w (set_sh w x s) = x.
Proof. destruct w; reflexivity. Qed.
Lemma sh_set_other w w' x s : w <> w' -> sh w' (set_sh w x s) = sh w' s.
Proof. destruct w, w'; intros H; try reflexivity; congruence. Qed.
Lemma sstamp_set w x s : sstamp (set_sh w x s) = sstamp s.
Proof. destruct w; reflexivity. Qed.
Lemma sh_set_att w b w' s : sh w' (set_att w b s) = sh w' s.
Proof. destruct w, w'; reflexivity. Qed.
Lemma set_sh_id w s : set_sh w (sh w s) s = s.
Proof. destruct w, s; reflexivity. Qed.

(* ------------------------------------------------------------------------ stamps *)
Lemma ident_value : ident_pub true value_key = true.
Proof. reflexivity. Qed.

Lemma setattr_value_ok f v : exists f', setattr true value_key v f = Some f'.
Proof.
  unfold setattr. destruct (fget value_key f) as [[x|]|]; try rewrite ident_value; eexists; reflexivity.
Qed.

Lemma setvalue_stamps s w v :
  snd (step s (SetValue w v)) = ROk /\
  stamp (sh w (fst (step s (SetValue w v)))) = store_stamp w s.
Proof.
  unfold step. cbn [step_gen]. destruct (setattr_value_ok (fl (sh w s)) v) as [f' Hf]. rewrite Hf.
  cbn [fst snd]. rewrite sh_set_same. split; reflexivity.
Qed.

Lemma update_stamps s w kvs : snd (step s (Update w kvs)) = ROk ->
  stamp (sh w (fst (step s (Update w kvs)))) = store_stamp w s.
Proof.
  unfold step. cbn [step_gen]. destruct (set_all true kvs (fl (sh w s))) as [f ok]. destruct ok; cbn [fst snd].
  - intros _. rewrite sh_set_same. reflexivity.
  - discriminate.
Qed.

Lemma update_rejected_keeps_stamp s w kvs : snd (step s (Update w kvs)) <> ROk ->
  stamp (sh w (fst (step s (Update w kvs)))) = stamp (sh w s).
Proof.
  unfold step. cbn [step_gen]. destruct (set_all true kvs (fl (sh w s))) as [f ok]. destruct ok; cbn [fst snd].
  - congruence.
  - intros _. rewrite sh_set_same. reflexivity.
Qed.

Lemma stampnow_stamps s w :
  snd (step s (StampNow w)) = RVal (store_stamp w s) /\
  stamp (sh w (fst (step s (StampNow w)))) = store_stamp w s.
Proof. unfold step. cbn [step_gen fst snd]. rewrite sh_set_same. split; reflexivity. Qed.

(* no operation other than value= / update / create / stampNow ever touches a stamp *)
Lemma nonstamping_keeps_stamp s o w : stamping o = false ->
  stamp (sh w (fst (step s o))) = stamp (sh w s).
Proof.
  intros Hs. destruct o; try discriminate; unfold step; cbn [step_gen].
  - reflexivity.
  - destruct (set_all true kvs (fl (sh w0 s))) as [f ok]. cbn [fst].
    destruct (Bool.bool_dec w0 w) as [->|Hn]; [rewrite sh_set_same; reflexivity | rewrite sh_set_other by exact Hn; reflexivity].
  - destruct (setattr true k v (fl (sh w0 s))); cbn [fst]; [|reflexivity].
    destruct (Bool.bool_dec w0 w) as [->|Hn]; [rewrite sh_set_same; reflexivity | rewrite sh_set_other by exact Hn; reflexivity].
  - reflexivity.
  - destruct (delattr true k (fl (sh w0 s))); cbn [fst]; [|reflexivity].
    destruct (Bool.bool_dec w0 w) as [->|Hn]; [rewrite sh_set_same; reflexivity | rewrite sh_set_other by exact Hn; reflexivity].
  - reflexivity.
  - cbn [fst]. destruct (Bool.bool_dec w0 w) as [->|Hn]; [rewrite sh_set_same; reflexivity | rewrite sh_set_other by exact Hn; reflexivity].
  - destruct (deck (sh w0 s)); cbn [fst]; [reflexivity|].
    destruct (Bool.bool_dec w0 w) as [->|Hn]; [rewrite sh_set_same; reflexivity | rewrite sh_set_other by exact Hn; reflexivity].
  - destruct e; cbn [fst]; [|reflexivity].
    destruct (Bool.bool_dec w0 w) as [->|Hn]; [rewrite sh_set_same; reflexivity | rewrite sh_set_other by exact Hn; reflexivity].
  - destruct (deck (sh w0 s)); cbn [fst]; [reflexivity|].
    destruct (Bool.bool_dec w0 w) as [->|Hn]; [rewrite sh_set_same; reflexivity | rewrite sh_set_other by exact Hn; reflexivity].
  - destruct (sstamp s); cbn [fst]; destruct w; reflexivity.
  - destruct w; reflexivity.
  - cbn [fst]. rewrite sh_set_att. reflexivity.
  - cbn [fst]. rewrite sh_set_att. reflexivity.
Qed.

(* frame: an operation on one share leaves the other share exactly as it was *)
Lemma other_share_untouched s o w w' : op_share o = Some w -> w <> w' -> sh w' (fst (step s o)) = sh w' s.
Proof.
  intros Ho Hn. destruct o; cbn in Ho; inversion Ho; subst; unfold step; cbn [step_gen].
  - destruct (setattr true value_key v (fl (sh w s))); cbn [fst]; [apply sh_set_other; exact Hn|reflexivity].
  - reflexivity.
  - destruct (set_all true kvs (fl (sh w s))) as [f ok]. destruct ok; cbn [fst]; apply sh_set_other; exact Hn.
  - destruct (set_all true kvs (fl (sh w s))) as [f ok]. cbn [fst]. apply sh_set_other; exact Hn.
  - destruct (create_all true kvs (fl (sh w s)) false) as [[f upd] ok]. destruct ok; cbn [fst]; apply sh_set_other; exact Hn.
  - cbn [fst]. apply sh_set_other; exact Hn.
  - destruct (setattr true k v (fl (sh w s))); cbn [fst]; [apply sh_set_other; exact Hn|reflexivity].
  - reflexivity.
  - destruct (delattr true k (fl (sh w s))); cbn [fst]; [apply sh_set_other; exact Hn|reflexivity].
  - reflexivity.
  - cbn [fst]. apply sh_set_other; exact Hn.
  - destruct (deck (sh w s)); cbn [fst]; [reflexivity|apply sh_set_other; exact Hn].
  - destruct e; cbn [fst]; [apply sh_set_other; exact Hn|reflexivity].
  - destruct (deck (sh w s)); cbn [fst]; [reflexivity|apply sh_set_other; exact Hn].
  - cbn [fst]. apply sh_set_att.
  - cbn [fst]. apply sh_set_att.
  - cbn [fst]. apply sh_set_other; exact Hn.
  - destruct (set_all true kvs []) as [f ok]. destruct ok; cbn [fst]; [apply sh_set_other; exact Hn|reflexivity].
Qed.

(* store time advances change no share at all *)
Lemma clock_ops_keep_shares s o w : op_share o = None -> sh w (fst (step s o)) = sh w s.
Proof.
  destruct o; cbn; try discriminate; intros _.
  - destruct (sstamp s); destruct w; reflexivity.
  - destruct w; reflexivity.
Qed.

(* ------------------------------------------------------------ odict-level lemmas *)
Lemma fget_fput_same k v f x : fget k f = Some x -> fget k (fput k v f) = Some v.
Proof.
  induction f as [|[k' v'] r IH]; cbn; [discriminate|].
  destruct (str_eqb k k') eqn:E; cbn; rewrite E; [reflexivity|exact IH].
Qed.
Lemma fget_fput_other k k' v f : str_eqb k' k = false -> fget k' (fput k v f) = fget k' f.
Proof.
  intros Hn. induction f as [|[k2 v2] r IH]; cbn; [reflexivity|].
  destruct (str_eqb k k2) eqn:E; cbn.
  - apply str_eqb_eq in E. subst k2. rewrite Hn. reflexivity.
  - rewrite IH. reflexivity.
Qed.
Lemma fget_app k' f k v :
  fget k' (f ++ [(k, v)]) = match fget k' f with Some x => Some x | None => if str_eqb k' k then Some v else None end.
Proof.
  induction f as [|[k2 v2] r IH]; cbn; [reflexivity|]. destruct (str_eqb k' k2); [reflexivity|exact IH].
Qed.
Lemma notin_fget_none k f : ~ In k (keys f) -> fget k f = None.
Proof.
  induction f as [|[k' v'] r IH]; cbn; [reflexivity|]. intros H. destruct (str_eqb k k') eqn:E.
  - apply str_eqb_eq in E. subst. exfalso. apply H. left. reflexivity.
  - apply IH. intros Hi. apply H. right. exact Hi.
Qed.
Lemma fget_fdel_same k f : NoDup (keys f) -> fget k (fdel k f) = None.
Proof.
  induction f as [|[k' v'] r IH]; cbn; [reflexivity|]. intros Hnd. inversion Hnd as [|? ? Hni Hnd']; subst.
  destruct (str_eqb k k') eqn:E.
  - apply str_eqb_eq in E. subst k'. apply notin_fget_none. exact Hni.
  - cbn. rewrite E. apply IH. exact Hnd'.
Qed.
Lemma fget_fdel_other k k' f : str_eqb k' k = false -> fget k' (fdel k f) = fget k' f.
Proof.
  intros Hn. induction f as [|[k2 v2] r IH]; cbn; [reflexivity|].
  destruct (str_eqb k k2) eqn:E; cbn.
  - apply str_eqb_eq in E. subst k2. rewrite Hn. reflexivity.
  - rewrite IH. reflexivity.
Qed.
Lemma keys_fput k v f : keys (fput k v f) = keys f.
Proof.
  induction f as [|[k' v'] r IH]; cbn; [reflexivity|]. destruct (str_eqb k k'); cbn; [reflexivity|].
  unfold keys in IH. rewrite IH. reflexivity.
Qed.
Lemma keys_app f k v : keys (f ++ [(k, v)]) = keys f ++ [k].
Proof. unfold keys. rewrite map_app. reflexivity. Qed.
Lemma fget_none_notin k f : fget k f = None -> ~ In k (keys f).
Proof.
  induction f as [|[k' v'] r IH]; cbn; [tauto|]. destruct (str_eqb k k') eqn:E; [discriminate|].
  intros H [H1|H1]; [subst; rewrite str_eqb_refl in E; discriminate | apply (IH H H1)].
Qed.
Lemma fget_in k f x : fget k f = Some x -> In k (keys f).
Proof.
  induction f as [|[k' v'] r IH]; cbn; [discriminate|]. destruct (str_eqb k k') eqn:E.
  - apply str_eqb_eq in E. subst. left. reflexivity.
  - intros H. right. apply IH. exact H.
Qed.
Lemma keys_fdel_incl k f x : In x (keys (fdel k f)) -> In x (keys f).
Proof.
  induction f as [|[k' v'] r IH]; cbn; [tauto|]. destruct (str_eqb k k'); cbn; [tauto|].
  intros [H|H]; [left; exact H | right; apply IH; exact H].
Qed.
Lemma nodup_fdel k f : NoDup (keys f) -> NoDup (keys (fdel k f)).
Proof.
  induction f as [|[k' v'] r IH]; cbn; [tauto|]. intros Hnd. inversion Hnd; subst.
  destruct (str_eqb k k'); cbn; [assumption|]. constructor; [|apply IH; assumption].
  intros H. apply keys_fdel_incl in H. contradiction.
Qed.

(* ---------------------------------------------------------------------- setattr *)
Lemma setattr_other fixed k v f f' k' : setattr fixed k v f = Some f' -> str_eqb k' k = false -> fget k' f' = fget k' f.
Proof.
  unfold setattr. intros H Hn.
  destruct (fget k f) as [[x|]|].
  - inversion H; subst. apply fget_fput_other; exact Hn.
  - destruct (ident_pub fixed k); inversion H; subst. apply fget_fput_other; exact Hn.
  - destruct (ident_pub fixed k); inversion H; subst. rewrite fget_app. rewrite Hn. destruct (fget k' f); reflexivity.
Qed.
Lemma setattr_same fixed k v f f' : setattr fixed k v f = Some f' -> fget k f' = Some (Some v).
Proof.
  unfold setattr. intros H.
  destruct (fget k f) as [[x|]|] eqn:E.
  - inversion H; subst. apply (fget_fput_same _ _ _ _ E).
  - destruct (ident_pub fixed k); inversion H; subst. apply (fget_fput_same _ _ _ _ E).
  - destruct (ident_pub fixed k); inversion H; subst. rewrite fget_app. rewrite E. rewrite str_eqb_refl. reflexivity.
Qed.
(* a name that is neither an existing field nor a public identifier is refused *)
Lemma setattr_refuses k v f : fget k f = None -> ident_pub true k = false -> setattr true k v f = None.
Proof. unfold setattr. intros -> ->. reflexivity. Qed.
Lemma setattr_accepts_public k v f : ident_pub true k = true -> exists f', setattr true k v f = Some f'.
Proof. unfold setattr. intros ->. destruct (fget k f) as [[x|]|]; eexists; reflexivity. Qed.

(* ----------------------------------------------------------------------- create *)
Lemma create_all_keeps fixed kvs : forall f upd f' upd' ok k0 v0,
  create_all fixed kvs f upd = (f', upd', ok) -> fget k0 f = Some (Some v0) -> fget k0 f' = Some (Some v0).
Proof.
  induction kvs as [|[k v] r IH]; intros f upd f' upd' ok k0 v0 H H0; cbn in H.
  - inversion H; subst. exact H0.
  - destruct (has k f) eqn:Eh; [apply (IH _ _ _ _ _ _ _ H H0)|].
    destruct (setattr fixed k v f) as [f2|] eqn:Es.
    + apply (IH _ _ _ _ _ _ _ H). rewrite (setattr_other _ _ _ _ _ k0 Es); [exact H0|].
      destruct (str_eqb k0 k) eqn:E; [|reflexivity]. apply str_eqb_eq in E. subst k0.
      unfold has in Eh. rewrite H0 in Eh. discriminate.
    + inversion H; subst. exact H0.
Qed.

Lemma create_all_true fixed kvs : forall f f' upd' ok, create_all fixed kvs f true = (f', upd', ok) -> upd' = true.
Proof.
  induction kvs as [|[k v] r IH]; intros f f' upd' ok H; cbn in H.
  - inversion H; reflexivity.
  - destruct (has k f); [apply (IH _ _ _ _ H)|].
    destruct (setattr fixed k v f); [apply (IH _ _ _ _ H)|inversion H; reflexivity].
Qed.

Lemma create_all_flag fixed kvs : forall f f' upd' ok, create_all fixed kvs f false = (f', upd', ok) -> ok = true ->
  if forallb (fun kv => has (fst kv) f) kvs then upd' = false /\ f' = f else upd' = true.
Proof.
  induction kvs as [|[k v] r IH]; intros f f' upd' ok H Hok; cbn in H.
  - inversion H; subst. cbn. split; reflexivity.
  - cbn [forallb fst]. destruct (has k f) eqn:Eh; cbn [andb].
    + apply (IH _ _ _ _ H Hok).
    + destruct (setattr fixed k v f) as [f2|].
      * apply (create_all_true _ _ _ _ _ _ H).
      * inversion H; subst. discriminate.
Qed.

Lemma create_never_overwrites_l s w kvs k v :
  fget k (fl (sh w s)) = Some (Some v) -> fget k (fl (sh w (fst (step s (Create w kvs))))) = Some (Some v).
Proof.
  intros H. unfold step. cbn [step_gen].
  destruct (create_all true kvs (fl (sh w s)) false) as [[f upd] ok] eqn:E.
  pose proof (create_all_keeps _ _ _ _ _ _ _ _ _ E H) as Hk.
  destruct ok; cbn [fst]; rewrite sh_set_same; [destruct upd|]; exact Hk.
Qed.

Lemma create_stamps_iff_added_l s w kvs : snd (step s (Create w kvs)) = ROk ->
  if forallb (fun kv => has (fst kv) (fl (sh w s))) kvs
  then fst (step s (Create w kvs)) = s                                        (* nothing added: nothing changes *)
  else stamp (sh w (fst (step s (Create w kvs)))) = store_stamp w s.          (* something added: stamped now *)
Proof.
  unfold step. cbn [step_gen].
  destruct (create_all true kvs (fl (sh w s)) false) as [[f upd] ok] eqn:E.
  destruct ok; cbn [fst snd]; [intros _|discriminate].
  pose proof (create_all_flag _ _ _ _ _ _ E eq_refl) as H.
  destruct (forallb (fun kv => has (fst kv) (fl (sh w s))) kvs).
  - destruct H as [-> ->]. destruct w, s as [t [fa sa da] [fb sb db]]; reflexivity.
  - subst upd. rewrite sh_set_same. reflexivity.
Qed.

(* ------------------------------------------------------ field names are public *)
Definition public (f : flds) : Prop := forall k, In k (keys f) -> ident_pub true k = true.

Lemma public_setattr k v f f' : public f -> setattr true k v f = Some f' -> public f'.
Proof.
  unfold setattr. intros Hp H k0 Hin.
  destruct (fget k f) as [[x|]|] eqn:E.
  - inversion H; subst. rewrite keys_fput in Hin. apply Hp. exact Hin.
  - destruct (ident_pub true k); inversion H; subst. rewrite keys_fput in Hin. apply Hp. exact Hin.
  - destruct (ident_pub true k) eqn:Ei; inversion H; subst. rewrite keys_app in Hin. apply in_app_or in Hin.
    destruct Hin as [Hin|[<-|[]]]; [apply Hp; exact Hin | exact Ei].
Qed.
Lemma public_set_all kvs : forall f, public f -> public (fst (set_all true kvs f)).
Proof.
  induction kvs as [|[k v] r IH]; intros f Hp; cbn; [exact Hp|].
  destruct (setattr true k v f) as [f2|] eqn:E; [apply IH; apply (public_setattr _ _ _ _ Hp E) | exact Hp].
Qed.
Lemma public_create_all kvs : forall f upd, public f -> public (fst (fst (create_all true kvs f upd))).
Proof.
  induction kvs as [|[k v] r IH]; intros f upd Hp; cbn; [exact Hp|].
  destruct (has k f); [apply IH; exact Hp|].
  destruct (setattr true k v f) as [f2|] eqn:E; [apply IH; apply (public_setattr _ _ _ _ Hp E) | exact Hp].
Qed.
Lemma public_fdel k f : public f -> public (fdel k f).
Proof. intros Hp k0 Hin. apply Hp. apply (keys_fdel_incl _ _ _ Hin). Qed.

(* ---------------------------------------------- ordered-map invariant: no ghost, no dup *)
Definition okf (f : flds) : Prop := no_ghostb f = true /\ NoDup (keys f) /\ public f.

Lemma no_ghostb_fget f : no_ghostb f = true -> forall k, fget k f <> Some None.
Proof.
  induction f as [|[k' [v'|]] r IH]; cbn; intros H k; try discriminate.
  destruct (str_eqb k k'); [discriminate | apply IH; exact H].
Qed.
Lemma no_ghostb_fput k v f : no_ghostb f = true -> no_ghostb (fput k (Some v) f) = true.
Proof.
  induction f as [|[k' [v'|]] r IH]; cbn; intros H; try discriminate; [reflexivity|].
  destruct (str_eqb k k'); cbn; [exact H | apply IH; exact H].
Qed.
Lemma no_ghostb_app k v f : no_ghostb f = true -> no_ghostb (f ++ [(k, Some v)]) = true.
Proof. induction f as [|[k' [v'|]] r IH]; cbn; intros H; try discriminate; [reflexivity | apply IH; exact H]. Qed.
Lemma no_ghostb_fdel k f : no_ghostb f = true -> no_ghostb (fdel k f) = true.
Proof.
  induction f as [|[k' [v'|]] r IH]; cbn; intros H; try discriminate; [reflexivity|].
  destruct (str_eqb k k'); cbn; [exact H | apply IH; exact H].
Qed.

Lemma NoDup_snoc {A} (l : list A) x : NoDup l -> ~ In x l -> NoDup (l ++ [x]).
Proof.
  induction l as [|y l IH]; cbn; intros Hnd Hni; [constructor; [tauto|constructor]|].
  inversion Hnd; subst. constructor.
  - intros H. apply in_app_or in H. destruct H as [H|[H|[]]]; [contradiction | subst; apply Hni; left; reflexivity].
  - apply IH; [assumption | intros H; apply Hni; right; exact H].
Qed.
Lemma okf_setattr k v f f' : okf f -> setattr true k v f = Some f' -> okf f'.
Proof.
  intros (Hg & Hnd & Hp) H. split; [|split; [|apply (public_setattr _ _ _ _ Hp H)]]; unfold setattr in H;
    destruct (fget k f) as [[x|]|] eqn:E.
  - inversion H; subst. apply no_ghostb_fput; exact Hg.
  - exfalso. apply (no_ghostb_fget _ Hg k E).
  - destruct (ident_pub true k); inversion H; subst. apply no_ghostb_app; exact Hg.
  - inversion H; subst. rewrite keys_fput. exact Hnd.
  - exfalso. apply (no_ghostb_fget _ Hg k E).
  - destruct (ident_pub true k); inversion H; subst. rewrite keys_app.
    apply NoDup_snoc; [exact Hnd | apply fget_none_notin; exact E].
Qed.

Lemma okf_set_all kvs : forall f, okf f -> okf (fst (set_all true kvs f)).
Proof.
  induction kvs as [|[k v] r IH]; intros f Hp; cbn; [exact Hp|].
  destruct (setattr true k v f) as [f2|] eqn:E; [apply IH; apply (okf_setattr _ _ _ _ Hp E) | exact Hp].
Qed.
Lemma okf_create_all kvs : forall f upd, okf f -> okf (fst (fst (create_all true kvs f upd))).
Proof.
  induction kvs as [|[k v] r IH]; intros f upd Hp; cbn; [exact Hp|].
  destruct (has k f); [apply IH; exact Hp|].
  destruct (setattr true k v f) as [f2|] eqn:E; [apply IH; apply (okf_setattr _ _ _ _ Hp E) | exact Hp].
Qed.
Lemma okf_fdel k f : okf f -> okf (fdel k f).
Proof.
  intros (Hg & Hnd & Hp). split; [apply no_ghostb_fdel; exact Hg|]. split; [apply nodup_fdel; exact Hnd|apply public_fdel; exact Hp].
Qed.

Lemma okf_nil : okf [].
Proof. split; [reflexivity|]. split; [constructor | intros k []]. Qed.

Lemma okf_step s o w : okf (fl (sh w s)) -> okf (fl (sh w (fst (step s o)))).
Proof.
  intros Hok. destruct (op_share o) as [w0|] eqn:Eo; [|rewrite (clock_ops_keep_shares _ _ _ Eo); exact Hok].
  destruct (Bool.bool_dec w0 w) as [->|Hn]; [|rewrite (other_share_untouched _ _ _ _ Eo Hn); exact Hok].
  destruct o; cbn in Eo; inversion Eo; subst; unfold step; cbn [step_gen]; try exact Hok.
  - destruct (setattr true value_key v (fl (sh w s))) eqn:E; cbn [fst]; [|exact Hok].
    rewrite sh_set_same. cbn. apply (okf_setattr _ _ _ _ Hok E).
  - pose proof (okf_set_all kvs _ Hok) as H. destruct (set_all true kvs (fl (sh w s))) as [f ok].
    destruct ok; cbn [fst] in *; rewrite sh_set_same; exact H.
  - pose proof (okf_set_all kvs _ Hok) as H. destruct (set_all true kvs (fl (sh w s))) as [f ok].
    cbn [fst] in *; rewrite sh_set_same; exact H.
  - pose proof (okf_create_all kvs _ false Hok) as H. destruct (create_all true kvs (fl (sh w s)) false) as [[f upd] ok].
    destruct ok; cbn [fst] in *; rewrite sh_set_same; [destruct upd|]; exact H.
  - cbn [fst]. rewrite sh_set_same. exact Hok.
  - destruct (setattr true k v (fl (sh w s))) eqn:E; cbn [fst]; [|exact Hok].
    rewrite sh_set_same. cbn. apply (okf_setattr _ _ _ _ Hok E).
  - unfold delattr. destruct (has k (fl (sh w s))); cbn [fst]; [|exact Hok].
    rewrite sh_set_same. cbn. apply okf_fdel. exact Hok.
  - cbn [fst]. rewrite sh_set_same. exact Hok.
  - destruct (deck (sh w s)); cbn [fst]; [exact Hok|]. rewrite sh_set_same. exact Hok.
  - destruct e; cbn [fst]; [|exact Hok]. rewrite sh_set_same. exact Hok.
  - destruct (deck (sh w s)); cbn [fst]; [exact Hok|]. rewrite sh_set_same. exact Hok.
  - cbn [fst]. rewrite sh_set_att. exact Hok.
  - cbn [fst]. rewrite sh_set_att. exact Hok.
  - cbn [fst]. rewrite sh_set_same. exact Hok.
  - pose proof (okf_set_all kvs _ okf_nil) as H. destruct (set_all true kvs []) as [f ok].
    destruct ok; cbn [fst] in *; [rewrite sh_set_same; exact H|exact Hok].
Qed.

Lemma okf_run_from ops : forall s, (forall w, okf (fl (sh w s))) -> forall w, okf (fl (sh w (run_from s ops))).
Proof.
  induction ops as [|o ops IH]; intros s Hs w; [apply Hs|].
  cbn. apply IH. intros w'. apply okf_step. apply Hs.
Qed.
Lemma okf_run t0 ops w : okf (fl (sh w (run t0 ops))).
Proof. apply okf_run_from. intros w'. destruct w'; apply okf_nil. Qed.

(* ----------------------------------------- refinement to the abstract ordered map *)
Lemma live_get f : no_ghostb f = true -> forall k,
  a_get k (live f) = match fget k f with Some (Some v) => Some v | _ => None end.
Proof.
  induction f as [|[k' [v'|]] r IH]; cbn; intros H k; try discriminate; [reflexivity|].
  destruct (str_eqb k k'); [reflexivity | apply IH; exact H].
Qed.
Lemma live_fput k v f : no_ghostb f = true -> live (fput k (Some v) f) = a_replace k v (live f).
Proof.
  induction f as [|[k' [v'|]] r IH]; cbn; intros H; try discriminate; [reflexivity|].
  destruct (str_eqb k k'); cbn; [reflexivity | rewrite IH by exact H; reflexivity].
Qed.
Lemma live_app k v f : live (f ++ [(k, Some v)]) = live f ++ [(k, v)].
Proof. induction f as [|[k' [v'|]] r IH]; cbn; [reflexivity | rewrite IH; reflexivity | exact IH]. Qed.
Lemma live_fdel k f : no_ghostb f = true -> live (fdel k f) = a_del k (live f).
Proof.
  induction f as [|[k' [v'|]] r IH]; cbn; intros H; try discriminate; [reflexivity|].
  destruct (str_eqb k k'); cbn; [reflexivity | rewrite IH by exact H; reflexivity].
Qed.
Lemma items_live f : no_ghostb f = true -> items f = Some (live f).
Proof.
  induction f as [|[k' [v'|]] r IH]; cbn; intros H; try discriminate; [reflexivity|]. rewrite (IH H). reflexivity.
Qed.
Lemma keys_live f : no_ghostb f = true -> keys f = map fst (live f).
Proof.
  induction f as [|[k' [v'|]] r IH]; cbn; intros H; try discriminate; [reflexivity|]. f_equal. apply IH. exact H.
Qed.
Lemma a_del_absent k m : a_get k m = None -> a_del k m = m.
Proof.
  induction m as [|[k' v'] r IH]; cbn; [reflexivity|]. destruct (str_eqb k k'); [discriminate|].
  intros H. rewrite (IH H). reflexivity.
Qed.

Lemma live_setattr k v f : no_ghostb f = true ->
  match setattr true k v f with
  | Some f' => a_setattr k v (live f) = Some (live f')
  | None => a_setattr k v (live f) = None
  end.
Proof.
  intros Hg. unfold setattr, a_setattr. rewrite (live_get _ Hg).
  destruct (fget k f) as [[x|]|] eqn:E.
  - rewrite (live_fput _ _ _ Hg). reflexivity.
  - exfalso. apply (no_ghostb_fget _ Hg k E).
  - destruct (ident_pub true k); [rewrite live_app|]; reflexivity.
Qed.

Lemma live_set_all kvs : forall f, okf f -> live (fst (set_all true kvs f)) = a_set_all kvs (live f).
Proof.
  induction kvs as [|[k v] r IH]; intros f Hok; cbn; [reflexivity|].
  pose proof (live_setattr k v f (proj1 Hok)) as H.
  destruct (setattr true k v f) as [f2|] eqn:E; rewrite H; [|reflexivity].
  apply IH. apply (okf_setattr _ _ _ _ Hok E).
Qed.
Lemma live_create_all kvs : forall f upd, okf f -> live (fst (fst (create_all true kvs f upd))) = a_create_all kvs (live f).
Proof.
  induction kvs as [|[k v] r IH]; intros f upd Hok; cbn; [reflexivity|].
  rewrite (live_get _ (proj1 Hok)). unfold has.
  destruct (fget k f) as [[x|]|] eqn:Eg.
  - apply IH. exact Hok.
  - exfalso. apply (no_ghostb_fget _ (proj1 Hok) k Eg).
  - pose proof (live_setattr k v f (proj1 Hok)) as H.
    destruct (setattr true k v f) as [f2|] eqn:E; rewrite H; [|reflexivity].
    apply IH. apply (okf_setattr _ _ _ _ Hok E).
Qed.

Lemma set_all_ok_iff kvs : forall f, public f ->
  snd (set_all true kvs f) = forallb (fun kv => ident_pub true (fst kv)) kvs.
Proof.
  induction kvs as [|[k v] r IH]; intros f Hp; [reflexivity|]. cbn [set_all forallb fst].
  destruct (setattr true k v f) as [f2|] eqn:E.
  - rewrite (IH _ (public_setattr _ _ _ _ Hp E)).
    assert (Hk : ident_pub true k = true).
    { unfold setattr in E. destruct (fget k f) as [[x|]|] eqn:Eg.
      - apply Hp. apply (fget_in _ _ _ Eg).
      - destruct (ident_pub true k); [reflexivity|discriminate].
      - destruct (ident_pub true k); [reflexivity|discriminate]. }
    rewrite Hk. reflexivity.
  - unfold setattr in E. destruct (fget k f) as [[x|]|]; try discriminate; destruct (ident_pub true k); try discriminate; reflexivity.
Qed.

Lemma fields_refine s o w : okf (fl (sh w s)) -> op_share o = Some w ->
  live (fl (sh w (fst (step s o)))) = a_fstep (live (fl (sh w s))) o.
Proof.
  intros Hok Eo. destruct o; cbn in Eo; inversion Eo; subst; unfold step; cbn [step_gen a_fstep]; try reflexivity.
  - pose proof (live_setattr value_key v _ (proj1 Hok)) as H.
    destruct (setattr true value_key v (fl (sh w s))); rewrite H; cbn [fst]; [rewrite sh_set_same|]; reflexivity.
  - pose proof (live_set_all kvs _ Hok) as H. destruct (set_all true kvs (fl (sh w s))) as [f ok].
    destruct ok; cbn [fst] in *; rewrite sh_set_same; exact H.
  - pose proof (live_set_all kvs _ Hok) as H. destruct (set_all true kvs (fl (sh w s))) as [f ok].
    cbn [fst] in *; rewrite sh_set_same; exact H.
  - pose proof (live_create_all kvs _ false Hok) as H. destruct (create_all true kvs (fl (sh w s)) false) as [[f upd] ok].
    destruct ok; cbn [fst] in *; rewrite sh_set_same; [destruct upd|]; exact H.
  - cbn [fst]. rewrite sh_set_same. reflexivity.
  - pose proof (live_setattr k v _ (proj1 Hok)) as H.
    destruct (setattr true k v (fl (sh w s))); rewrite H; cbn [fst]; [rewrite sh_set_same|]; reflexivity.
  - unfold delattr, has. pose proof (live_get _ (proj1 Hok) k) as Hg.
    destruct (fget k (fl (sh w s))) as [[x|]|] eqn:E; cbn [fst].
    + rewrite sh_set_same. cbn. apply live_fdel. exact (proj1 Hok).
    + rewrite (a_del_absent _ _ Hg). reflexivity.
    + rewrite (a_del_absent _ _ Hg). reflexivity.
  - cbn [fst]. rewrite sh_set_same. reflexivity.
  - destruct (deck (sh w s)); cbn [fst]; [reflexivity|]. rewrite sh_set_same. reflexivity.
  - destruct e; cbn [fst]; [|reflexivity]. rewrite sh_set_same. reflexivity.
  - destruct (deck (sh w s)); cbn [fst]; [reflexivity|]. rewrite sh_set_same. reflexivity.
  - cbn [fst]. rewrite sh_set_att. reflexivity.
  - cbn [fst]. rewrite sh_set_att. reflexivity.
  - cbn [fst]. rewrite sh_set_same. reflexivity.
  - pose proof (set_all_ok_iff kvs [] (fun k H => match H with end)) as Hokk.
    pose proof (live_set_all kvs [] okf_nil) as Hl.
    destruct (set_all true kvs []) as [f ok]. cbn [fst snd] in *. rewrite <- Hokk.
    destruct ok; cbn [fst]; [rewrite sh_set_same; exact Hl|reflexivity].
Qed.

(* --------------------------------------------------- laws of the abstract ordered map *)
Lemma a_get_replace_same k v m x : a_get k m = Some x -> a_get k (a_replace k v m) = Some v.
Proof.
  induction m as [|[k' v'] r IH]; cbn; [discriminate|]. destruct (str_eqb k k') eqn:E; cbn; rewrite E; [reflexivity|exact IH].
Qed.
Lemma a_get_replace_other k k' v m : str_eqb k' k = false -> a_get k' (a_replace k v m) = a_get k' m.
Proof.
  intros Hn. induction m as [|[k2 v2] r IH]; cbn; [reflexivity|]. destruct (str_eqb k k2) eqn:E; cbn.
  - apply str_eqb_eq in E. subst k2. rewrite Hn. reflexivity.
  - rewrite IH. reflexivity.
Qed.
Lemma a_get_app k' m k v : a_get k' (m ++ [(k, v)]) = match a_get k' m with Some x => Some x | None => if str_eqb k' k then Some v else None end.
Proof. induction m as [|[k2 v2] r IH]; cbn; [reflexivity|]. destruct (str_eqb k' k2); [reflexivity|exact IH]. Qed.
Lemma a_keys_replace k v m : map fst (a_replace k v m) = map fst m.
Proof. induction m as [|[k' v'] r IH]; cbn; [reflexivity|]. destruct (str_eqb k k'); cbn; [reflexivity|rewrite IH; reflexivity]. Qed.

Lemma a_set_get_same k v m m' : a_setattr k v m = Some m' -> a_get k m' = Some v.
Proof.
  unfold a_setattr. destruct (a_get k m) eqn:E; intros H.
  - inversion H; subst. apply (a_get_replace_same _ _ _ _ E).
  - destruct (ident_pub true k); inversion H; subst. rewrite a_get_app, E, str_eqb_refl. reflexivity.
Qed.
Lemma a_set_get_other k v m m' k' : a_setattr k v m = Some m' -> str_eqb k' k = false -> a_get k' m' = a_get k' m.
Proof.
  unfold a_setattr. destruct (a_get k m) eqn:E; intros H Hn.
  - inversion H; subst. apply a_get_replace_other; exact Hn.
  - destruct (ident_pub true k); inversion H; subst. rewrite a_get_app, Hn. destruct (a_get k' m); reflexivity.
Qed.
(* order: overwriting keeps the position, a new field goes last *)
Lemma a_set_keys k v m m' : a_setattr k v m = Some m' ->
  map fst m' = match a_get k m with Some _ => map fst m | None => map fst m ++ [k] end.
Proof.
  unfold a_setattr. destruct (a_get k m) eqn:E; intros H.
  - inversion H; subst. apply a_keys_replace.
  - destruct (ident_pub true k); inversion H; subst. rewrite map_app. reflexivity.
Qed.
Lemma a_notin_get k m : ~ In k (map fst m) -> a_get k m = None.
Proof.
  induction m as [|[k' v'] r IH]; cbn; [reflexivity|]. intros H. destruct (str_eqb k k') eqn:E.
  - apply str_eqb_eq in E. subst. exfalso. apply H. left. reflexivity.
  - apply IH. intros Hi. apply H. right. exact Hi.
Qed.
Lemma a_del_get_same k m : NoDup (map fst m) -> a_get k (a_del k m) = None.
Proof.
  induction m as [|[k' v'] r IH]; cbn; [reflexivity|]. intros Hnd. inversion Hnd; subst.
  destruct (str_eqb k k') eqn:E.
  - apply str_eqb_eq in E. subst k'. apply a_notin_get. assumption.
  - cbn. rewrite E. apply IH. assumption.
Qed.
Lemma a_del_get_other k k' m : str_eqb k' k = false -> a_get k' (a_del k m) = a_get k' m.
Proof.
  intros Hn. induction m as [|[k2 v2] r IH]; cbn; [reflexivity|]. destruct (str_eqb k k2) eqn:E; cbn.
  - apply str_eqb_eq in E. subst k2. rewrite Hn. reflexivity.
  - rewrite IH. reflexivity.
Qed.
(* delete then add again: the field moves to the end *)
Lemma a_readd_last k v m : NoDup (map fst m) -> ident_pub true k = true ->
  a_setattr k v (a_del k m) = Some (a_del k m ++ [(k, v)]).
Proof. intros Hnd Hp. unfold a_setattr. rewrite (a_del_get_same _ _ Hnd), Hp. reflexivity. Qed.

(* --------------------------------------------------------------- rejected names *)
Lemma setitem_rejected s w k v : fget k (fl (sh w s)) = None -> ident_pub true k = false ->
  step s (SetItem w k v) = (s, RErrKey).
Proof. intros H1 H2. unfold step. cbn [step_gen]. rewrite (setattr_refuses _ _ _ H1 H2). reflexivity. Qed.
Lemma setitem_public_accepted s w k v : ident_pub true k = true -> snd (step s (SetItem w k v)) = ROk.
Proof.
  intros H. unfold step. cbn [step_gen]. destruct (setattr_accepts_public k v (fl (sh w s)) H) as [f' Hf]. rewrite Hf. reflexivity.
Qed.
(* update/change/create stop at the first refused name: everything refused is not public *)
Lemma set_all_rejected kvs : forall f, snd (set_all true kvs f) = false ->
  exists k v, In (k, v) kvs /\ ident_pub true k = false.
Proof.
  induction kvs as [|[k v] r IH]; intros f H; cbn in H; [discriminate|].
  destruct (setattr true k v f) as [f2|] eqn:E.
  - destruct (IH _ H) as (k0 & v0 & Hin & Hp). exists k0, v0. split; [right; exact Hin|exact Hp].
  - exists k, v. split; [left; reflexivity|]. unfold setattr in E.
    destruct (fget k f) as [[x|]|]; try discriminate; destruct (ident_pub true k); [discriminate|reflexivity|discriminate|reflexivity].
Qed.
Lemma set_all_public_ok kvs : forall f, (forall k v, In (k, v) kvs -> ident_pub true k = true) -> snd (set_all true kvs f) = true.
Proof.
  intros f H. destruct (snd (set_all true kvs f)) eqn:E; [reflexivity|].
  destruct (set_all_rejected _ _ E) as (k & v & Hin & Hp). rewrite (H _ _ Hin) in Hp. discriminate.
Qed.

(* ------------------------------------------------------------------------- deck *)
Lemma gulp_none s w : step s (Gulp w None) = (s, ROk).
Proof. reflexivity. Qed.

Definition is_deck_op (o : op) : bool :=
  match o with Push _ _ | Pull _ | Gulp _ _ | Spew _ => true | _ => false end.

Lemma nondeck_keeps_deck s o w : is_deck_op o = false -> deck (sh w (fst (step s o))) = deck (sh w s).
Proof.
  intros Hd. destruct (op_share o) as [w0|] eqn:Eo; [|rewrite (clock_ops_keep_shares _ _ _ Eo); reflexivity].
  destruct (Bool.bool_dec w0 w) as [->|Hn]; [|rewrite (other_share_untouched _ _ _ _ Eo Hn); reflexivity].
  destruct o; try discriminate; cbn in Eo; inversion Eo; subst; unfold step; cbn [step_gen]; try reflexivity.
  - destruct (setattr true value_key v (fl (sh w s))); cbn [fst]; [rewrite sh_set_same|]; reflexivity.
  - destruct (set_all true kvs (fl (sh w s))) as [f ok]. destruct ok; cbn [fst]; rewrite sh_set_same; reflexivity.
  - destruct (set_all true kvs (fl (sh w s))) as [f ok]. cbn [fst]; rewrite sh_set_same; reflexivity.
  - destruct (create_all true kvs (fl (sh w s)) false) as [[f upd] ok]. destruct ok; cbn [fst]; rewrite sh_set_same; [destruct upd|]; reflexivity.
  - cbn [fst]. rewrite sh_set_same. reflexivity.
  - destruct (setattr true k v (fl (sh w s))); cbn [fst]; [rewrite sh_set_same|]; reflexivity.
  - destruct (delattr true k (fl (sh w s))); cbn [fst]; [rewrite sh_set_same|]; reflexivity.
  - cbn [fst]. rewrite sh_set_att. reflexivity.
  - cbn [fst]. rewrite sh_set_att. reflexivity.
  - cbn [fst]. rewrite sh_set_same. reflexivity.
  - destruct (set_all true kvs []) as [f ok]. destruct ok; cbn [fst]; [rewrite sh_set_same|]; reflexivity.
Qed.

Lemma cur_istep i o : cur (istep i o) = fst (step (cur i) o).
Proof.
  unfold istep. destruct o; try reflexivity.
  - destruct w; reflexivity.
  - destruct (deck (sh w (cur i))); [reflexivity|]. destruct w; reflexivity.
  - destruct e; [destruct w|]; reflexivity.
  - destruct (deck (sh w (cur i))); [reflexivity|]. destruct w; reflexivity.
Qed.

Definition queue_inv (i : ist) : Prop := forall w, enq w i = deq w i ++ deck (sh w (cur i)).

Lemma queue_inv_step i o : queue_inv i -> queue_inv (istep i o).
Proof.
  intros Hi w. destruct (is_deck_op o) eqn:Ed.
  - pose proof (Hi true) as HA. pose proof (Hi false) as HB. cbn in HA, HB.
    destruct o; try discriminate; unfold istep, step; cbn [step_gen fst].
    + (* Push *) destruct w0, w; cbn; rewrite ?HA, ?HB; rewrite <- ?app_assoc; reflexivity.
    + (* Pull *) destruct w0; cbn [sh].
      * destruct (deck (shA (cur i))) as [|e d] eqn:Edk; destruct w; cbn; rewrite ?HA, ?HB, ?Edk; rewrite <- ?app_assoc; reflexivity.
      * destruct (deck (shB (cur i))) as [|e d] eqn:Edk; destruct w; cbn; rewrite ?HA, ?HB, ?Edk; rewrite <- ?app_assoc; reflexivity.
    + (* Gulp *) destruct e as [v|].
      * destruct w0, w; cbn; rewrite ?HA, ?HB; rewrite <- ?app_assoc; reflexivity.
      * destruct w; cbn; assumption.
    + (* Spew *) destruct w0; cbn [sh].
      * destruct (deck (shA (cur i))) as [|e d] eqn:Edk; destruct w; cbn; rewrite ?HA, ?HB, ?Edk; rewrite <- ?app_assoc; reflexivity.
      * destruct (deck (shB (cur i))) as [|e d] eqn:Edk; destruct w; cbn; rewrite ?HA, ?HB, ?Edk; rewrite <- ?app_assoc; reflexivity.
  - assert (He : enq w (istep i o) = enq w i /\ deq w (istep i o) = deq w i).
    { destruct o; try discriminate; split; reflexivity. }
    destruct He as [-> ->]. rewrite cur_istep. rewrite (nondeck_keeps_deck _ _ _ Ed). apply Hi.
Qed.

Lemma queue_inv_run ops : forall i, queue_inv i -> queue_inv (fold_left istep ops i).
Proof. induction ops as [|o ops IH]; intros i Hi; [exact Hi|]. cbn. apply IH. apply queue_inv_step. exact Hi. Qed.

Lemma deck_fifo_l t0 ops w : enq w (irun t0 ops) = deq w (irun t0 ops) ++ deck (sh w (cur (irun t0 ops))).
Proof. apply queue_inv_run. intros w'. destruct w'; reflexivity. Qed.

Lemma cur_irun_from ops : forall i, cur (fold_left istep ops i) = run_from (cur i) ops.
Proof. induction ops as [|o ops IH]; intros i; [reflexivity|]. cbn. rewrite IH, cur_istep. reflexivity. Qed.
Lemma cur_irun t0 ops : cur (irun t0 ops) = run t0 ops.
Proof. apply cur_irun_from. Qed.

(* spew answers None exactly when the deck is empty -- provided None was never pushed *)
Definition nonone (d : list (option Z)) : Prop := forall e, In e d -> e <> None.

Lemma nonone_step s o w : pushes_none o = false -> (forall w, nonone (deck (sh w s))) -> nonone (deck (sh w (fst (step s o)))).
Proof.
  intros Hp Hs. destruct (is_deck_op o) eqn:Ed; [|rewrite (nondeck_keeps_deck _ _ _ Ed); apply Hs].
  destruct o; try discriminate; unfold step; cbn [step_gen].
  - destruct e as [v|]; [|discriminate]. cbn [fst].
    destruct (Bool.bool_dec w0 w) as [->|Hn]; [rewrite sh_set_same|rewrite sh_set_other by exact Hn; apply Hs].
    cbn. intros e Hin. apply in_app_or in Hin. destruct Hin as [Hin|[<-|[]]]; [apply (Hs w); exact Hin|discriminate].
  - destruct (deck (sh w0 s)) as [|e d] eqn:Edk; cbn [fst]; [apply Hs|].
    destruct (Bool.bool_dec w0 w) as [->|Hn]; [rewrite sh_set_same|rewrite sh_set_other by exact Hn; apply Hs].
    cbn. intros x Hin. apply (Hs w). rewrite Edk. right. exact Hin.
  - destruct e as [v|]; cbn [fst]; [|apply Hs].
    destruct (Bool.bool_dec w0 w) as [->|Hn]; [rewrite sh_set_same|rewrite sh_set_other by exact Hn; apply Hs].
    cbn. intros e Hin. apply in_app_or in Hin. destruct Hin as [Hin|[<-|[]]]; [apply (Hs w); exact Hin|discriminate].
  - destruct (deck (sh w0 s)) as [|e d] eqn:Edk; cbn [fst]; [apply Hs|].
    destruct (Bool.bool_dec w0 w) as [->|Hn]; [rewrite sh_set_same|rewrite sh_set_other by exact Hn; apply Hs].
    cbn. intros x Hin. apply (Hs w). rewrite Edk. right. exact Hin.
Qed.

Lemma nonone_run_from ops : forall s, forallb (fun o => negb (pushes_none o)) ops = true ->
  (forall w, nonone (deck (sh w s))) -> forall w, nonone (deck (sh w (run_from s ops))).
Proof.
  induction ops as [|o ops IH]; intros s Hf Hs w; [apply Hs|].
  cbn in Hf. apply andb_true_iff in Hf. destruct Hf as [Ho Hf]. apply negb_true_iff in Ho.
  cbn. apply IH; [exact Hf|]. intros w'. apply nonone_step; assumption.
Qed.

Lemma spew_none_iff_empty_l t0 ops w : forallb (fun o => negb (pushes_none o)) ops = true ->
  (snd (step (run t0 ops) (Spew w)) = RVal None <-> deck (sh w (run t0 ops)) = []).
Proof.
  intros Hf. pose proof (nonone_run_from ops (init t0) Hf) as Hn.
  assert (H0 : forall w, nonone (deck (sh w (init t0)))) by (intros w' e; destruct w'; intros []).
  specialize (Hn H0 w). fold (run t0 ops) in Hn.
  unfold step. cbn [step_gen]. destruct (deck (sh w (run t0 ops))) as [|e d] eqn:E; cbn [snd].
  - split; reflexivity.
  - split; [|discriminate]. intros H. inversion H; subst. exfalso. apply (Hn None); [left; reflexivity|reflexivity].
Qed.

(* ------------------------------------------------------------- history-level corollaries *)
Lemma run_snoc t0 ops o : run t0 (ops ++ [o]) = fst (step (run t0 ops) o).
Proof. unfold run, run_from. rewrite fold_left_app. reflexivity. Qed.

Lemma fields_ok_all_histories t0 ops w :
  let f := fl (sh w (run t0 ops)) in
  no_ghostb f = true /\ NoDup (keys f) /\ (forall k, In k (keys f) -> ident_pub true k = true) /\
  items f = Some (live f) /\ keys f = map fst (live f) /\ len f = Z.of_nat (length (live f)).
Proof.
  cbv zeta. destruct (okf_run t0 ops w) as (Hg & Hnd & Hp). repeat split; try assumption.
  - apply items_live; exact Hg.
  - apply keys_live; exact Hg.
  - unfold len. f_equal. clear Hnd Hp. induction (fl (sh w (run t0 ops))) as [|[k [v|]] r IH]; cbn in *; try discriminate; [reflexivity|].
    f_equal. apply IH. exact Hg.
Qed.

Lemma fields_refine_all_histories t0 ops o w : op_share o = Some w ->
  live (fl (sh w (run t0 (ops ++ [o])))) = a_fstep (live (fl (sh w (run t0 ops)))) o.
Proof. intros H. rewrite run_snoc. apply fields_refine; [apply okf_run|exact H]. Qed.

(* ------------------------------------------------ the code as found: refutation witnesses *)
Definition k_x : str := [120].
Definition k_xnl : str := [120; 10].
Lemma orig_delete_witness :
  let s := fst (step_orig (fst (step_orig (init (Some 0)) (SetItem true k_x 1))) (DelItem true k_x)) in
  snd (step_orig (fst (step_orig (init (Some 0)) (SetItem true k_x 1))) (DelItem true k_x)) = ROk /\
  items (fl (shA s)) = None /\ keys (fl (shA s)) = [k_x] /\ len (fl (shA s)) = 0.
Proof. vm_compute. repeat split; reflexivity. Qed.
Lemma orig_delete_refuted :
  exists ops, let s := fold_left (fun s o => fst (step_orig s o)) ops (init (Some 0)) in
    items (fl (shA s)) = None /\ no_ghostb (fl (shA s)) = false.
Proof. exists [SetItem true k_x 1; DelItem true k_x]. vm_compute. split; reflexivity. Qed.
Lemma orig_ident_refuted :
  exists k v, ident_pub true k = false /\ snd (step_orig (init (Some 0)) (SetItem true k v)) = ROk.
Proof. exists k_xnl, 1. vm_compute. split; reflexivity. Qed.

(* ------------------------------------------------- the store's own .time share *)
Definition time_inv (s : st) : Prop :=
  stamp (shT s) = sstamp s /\
  fl (shT s) = [(value_key, Some (match sstamp s with Some t => t | None => 0 end))] /\ deck (shT s) = [].

Lemma set_sh_keeps_time w x s : shT (set_sh w x s) = shT s /\ sstamp (set_sh w x s) = sstamp s.
Proof. destruct w; split; reflexivity. Qed.

Lemma time_inv_step s o : time_inv s -> time_inv (fst (step s o)).
Proof.
  intros (H1 & H2 & H3). unfold time_inv.
  assert (Hset : forall w x, time_inv (set_sh w x s)).
  { intros w x. unfold time_inv. destruct (set_sh_keeps_time w x s) as [-> ->]. repeat split; assumption. }
  destruct o; unfold step; cbn [step_gen]; try (repeat split; assumption).
  - destruct (setattr true value_key v (fl (sh w s))); cbn [fst]; [apply Hset|repeat split; assumption].
  - destruct (set_all true kvs (fl (sh w s))) as [f ok]. destruct ok; cbn [fst]; apply Hset.
  - destruct (set_all true kvs (fl (sh w s))) as [f ok]. cbn [fst]; apply Hset.
  - destruct (create_all true kvs (fl (sh w s)) false) as [[f upd] ok]. destruct ok; cbn [fst]; apply Hset.
  - cbn [fst]. apply Hset.
  - destruct (setattr true k v (fl (sh w s))); cbn [fst]; [apply Hset|repeat split; assumption].
  - destruct (delattr true k (fl (sh w s))); cbn [fst]; [apply Hset|repeat split; assumption].
  - cbn [fst]. apply Hset.
  - destruct (deck (sh w s)); cbn [fst]; [repeat split; assumption|apply Hset].
  - destruct e; cbn [fst]; [apply Hset|repeat split; assumption].
  - destruct (deck (sh w s)); cbn [fst]; [repeat split; assumption|apply Hset].
  - destruct (sstamp s) as [t|] eqn:Et; cbn [fst]; [|rewrite Et; repeat split; assumption].
    cbn [shT sstamp]. unfold tick. rewrite H2. cbn. repeat split. exact H3.
  - cbn [fst shT sstamp]. unfold tick. rewrite H2. cbn. repeat split. exact H3.
  - cbn [fst]. destruct w; cbn; repeat split; assumption.
  - cbn [fst]. destruct w; cbn; repeat split; assumption.
  - cbn [fst]. apply Hset.
  - destruct (set_all true kvs []) as [f ok]. destruct ok; cbn [fst]; [apply Hset|repeat split; assumption].
Qed.

Lemma time_inv_run t0 ops : time_inv (run t0 ops).
Proof.
  unfold run. assert (H : forall s, time_inv s -> time_inv (run_from s ops)).
  { induction ops as [|o ops IH]; intros s Hs; [exact Hs|]. cbn. apply IH. apply time_inv_step. exact Hs. }
  apply H. unfold time_inv. cbn. repeat split.
Qed.

(* ----------------------------------------------- attachment, data setter, explicit stamp *)
Lemma att_set_sh w x w' s : att w' (set_sh w x s) = att w' s.
Proof. destruct w, w'; reflexivity. Qed.

Lemma setdata_stamps s w kvs : snd (step s (SetData w kvs)) = ROk ->
  stamp (sh w (fst (step s (SetData w kvs)))) = store_stamp w s /\
  live (fl (sh w (fst (step s (SetData w kvs))))) = a_set_all kvs [].
Proof.
  unfold step. cbn [step_gen]. pose proof (live_set_all kvs [] okf_nil) as Hl.
  destruct (set_all true kvs []) as [f ok]. destruct ok; cbn [fst snd] in *; [intros _|discriminate].
  rewrite sh_set_same. split; [reflexivity|exact Hl].
Qed.
Lemma setdata_rejected s w kvs : snd (step s (SetData w kvs)) <> ROk -> fst (step s (SetData w kvs)) = s.
Proof.
  unfold step. cbn [step_gen]. destruct (set_all true kvs []) as [f ok]. destruct ok; cbn [fst snd]; [congruence|reflexivity].
Qed.

Lemma forcestamp_sets s w t : stamp (sh w (fst (step s (ForceStamp w t)))) = Some t /\
  fl (sh w (fst (step s (ForceStamp w t)))) = fl (sh w s) /\ att w (fst (step s (ForceStamp w t))) = att w s.
Proof. unfold step. cbn [step_gen fst]. rewrite sh_set_same, att_set_sh. repeat split. Qed.

Lemma detach_attach s w :
  att w (fst (step s (Detach w))) = false /\ att w (fst (step s (Attach w))) = true /\
  (forall w', sh w' (fst (step s (Detach w))) = sh w' s /\ sh w' (fst (step s (Attach w))) = sh w' s) /\
  (forall w', w <> w' -> att w' (fst (step s (Detach w))) = att w' s /\ att w' (fst (step s (Attach w))) = att w' s).
Proof.
  unfold step. cbn [step_gen fst]. repeat split; try (destruct w; reflexivity); try apply sh_set_att;
    destruct w, w'; try reflexivity; congruence.
Qed.

Definition is_attach_op (o : op) : bool := match o with Detach _ | Attach _ => true | _ => false end.

Lemma att_frame s o w : is_attach_op o = false -> att w (fst (step s o)) = att w s.
Proof.
  intros H. destruct o; try discriminate; unfold step; cbn [step_gen]; try reflexivity.
  - destruct (setattr true value_key v (fl (sh w0 s))); cbn [fst]; [apply att_set_sh|reflexivity].
  - destruct (set_all true kvs (fl (sh w0 s))) as [f ok]. destruct ok; cbn [fst]; apply att_set_sh.
  - destruct (set_all true kvs (fl (sh w0 s))) as [f ok]. cbn [fst]; apply att_set_sh.
  - destruct (create_all true kvs (fl (sh w0 s)) false) as [[f upd] ok]. destruct ok; cbn [fst]; apply att_set_sh.
  - cbn [fst]. apply att_set_sh.
  - destruct (setattr true k v (fl (sh w0 s))); cbn [fst]; [apply att_set_sh|reflexivity].
  - destruct (delattr true k (fl (sh w0 s))); cbn [fst]; [apply att_set_sh|reflexivity].
  - cbn [fst]. apply att_set_sh.
  - destruct (deck (sh w0 s)); cbn [fst]; [reflexivity|apply att_set_sh].
  - destruct e; cbn [fst]; [apply att_set_sh|reflexivity].
  - destruct (deck (sh w0 s)); cbn [fst]; [reflexivity|apply att_set_sh].
  - destruct (sstamp s); cbn [fst]; destruct w; reflexivity.
  - cbn [fst]. apply att_set_sh.
  - destruct (set_all true kvs []) as [f ok]. destruct ok; cbn [fst]; [apply att_set_sh|reflexivity].
Qed.

(* NO STAMP WITHOUT A STORE: on a share that does not reference a store, every stamping operation
   leaves the stamp None, whatever stamp the share carried before *)
Lemma no_stamp_without_store_l s w : att w s = false ->
  (forall v, stamp (sh w (fst (step s (SetValue w v)))) = None) /\
  (forall kvs, snd (step s (Update w kvs)) = ROk -> stamp (sh w (fst (step s (Update w kvs)))) = None) /\
  (forall kvs, snd (step s (SetData w kvs)) = ROk -> stamp (sh w (fst (step s (SetData w kvs)))) = None) /\
  (stamp (sh w (fst (step s (StampNow w)))) = None /\ snd (step s (StampNow w)) = RVal None) /\
  (forall kvs, snd (step s (Create w kvs)) = ROk ->
     forallb (fun kv => has (fst kv) (fl (sh w s))) kvs = false -> stamp (sh w (fst (step s (Create w kvs)))) = None).
Proof.
  intros Ha. assert (Hs : store_stamp w s = None) by (unfold store_stamp; rewrite Ha; reflexivity).
  split; [|split; [|split; [|split]]].
  - intros v. rewrite (proj2 (setvalue_stamps s w v)). exact Hs.
  - intros kvs H. rewrite (update_stamps s w kvs H). exact Hs.
  - intros kvs H. rewrite (proj1 (setdata_stamps s w kvs H)). exact Hs.
  - destruct (stampnow_stamps s w) as [H1 H2]. rewrite H1, H2, Hs. split; reflexivity.
  - intros kvs H Hf. pose proof (create_stamps_iff_added_l s w kvs H) as Hc. rewrite Hf in Hc. rewrite Hc. exact Hs.
Qed.
