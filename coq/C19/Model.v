(* C19 -- Share stamps, fields and decks (ioflo/base/storing.py: Share.value setter / update /
   change / create / stampNow / __setitem__ / __delitem__ / __getitem__ / __contains__,
   Data.__setattr__ with REO_IdentPub, Deck.push / pull / gulp / spew).
   Hand model (tie H).  Definitions only.

   Two shares are modelled side by side: share A lives in a Store (A.store.stamp = sstamp),
   share B has no store.  Times and field values are Python numbers the model never inspects
   beyond copying and adding: Z (the harness uses integer-valued floats / ints).
   Field names are Python str = lists of code points (below 592: ASCII, Latin-1, Latin Extended A/B).

   flds = Data.__dict__, an ioflo odict: the list of keys in insertion order (odict._keys)
   with the dict value of each key, or None for a GHOST key: one that is still listed in
   ._keys but no longer in the dict.  Ghosts arise only in the code as found (fixed = false):
   delattr on a Data goes through object.__delattr__, which deletes from the instance dict
   at C level and never calls odict.__delitem__.                                           *)
From Coq Require Import List ZArith Bool.
Import ListNotations.
Require Import V.gen.C19_Word.   (* word_hi: GENERATED on every run from REO_IdentPub itself *)
Open Scope Z_scope.

Definition str := list Z.

Fixpoint str_eqb (a b : str) : bool :=
  match a, b with
  | [], [] => true
  | x :: a', y :: b' => Z.eqb x y && str_eqb a' b'
  | _, _ => false
  end.

(* ---- REO_IdentPub: a letter followed by word characters up to the end of the string.
        The pattern as found ends with a dollar sign, which also matches just before one final
        newline; fixed = anchored at the very end. *)
Definition is_alpha (c : Z) : bool := ((65 <=? c) && (c <=? 90)) || ((97 <=? c) && (c <=? 122)).
(* \w on str patterns is Unicode aware: beyond ASCII the word characters are the code points listed in
   the generated table word_hi (all code points 128..591 that the implementation's own REO_IdentPub
   accepts after a letter); names are limited to code points below 592 *)
Definition is_word (c : Z) : bool :=
  is_alpha c || ((48 <=? c) && (c <=? 57)) || (c =? 95) || existsb (Z.eqb c) word_hi.
Fixpoint words (fixed : bool) (r : str) : bool :=
  match r with
  | [] => true
  | c :: r' => match r' with
               | [] => is_word c || (negb fixed && (c =? 10))
               | _ => is_word c && words fixed r'
               end
  end.
Definition ident_pub (fixed : bool) (s : str) : bool :=
  match s with [] => false | c :: r => is_alpha c && words fixed r end.

(* ---- Data.__dict__ *)
Definition flds := list (str * option Z).

Fixpoint fget (k : str) (f : flds) : option (option Z) :=      (* position in ._keys *)
  match f with
  | [] => None
  | (k', v) :: r => if str_eqb k k' then Some v else fget k r
  end.
Definition has (k : str) (f : flds) : bool :=                  (* k in dict / hasattr *)
  match fget k f with Some (Some _) => true | _ => false end.
Fixpoint fput (k : str) (v : option Z) (f : flds) : flds :=    (* overwrite in place *)
  match f with
  | [] => []
  | (k', v') :: r => if str_eqb k k' then (k', v) :: r else (k', v') :: fput k v r
  end.
Fixpoint fdel (k : str) (f : flds) : flds :=                   (* odict.__delitem__ *)
  match f with
  | [] => []
  | (k', v') :: r => if str_eqb k k' then r else (k', v') :: fdel k r
  end.

(* setattr(data, k, v):  None = AttributeError("Invalid attribute name") *)
Definition setattr (fixed : bool) (k : str) (v : Z) (f : flds) : option flds :=
  match fget k f with
  | Some (Some _) => Some (fput k (Some v) f)            (* existing field *)
  | Some None => if ident_pub fixed k then Some (fput k (Some v) f) else None  (* ghost revived in place *)
  | None => if ident_pub fixed k then Some (f ++ [(k, Some v)]) else None
  end.
(* delattr(data, k): None = AttributeError *)
Definition delattr (fixed : bool) (k : str) (f : flds) : option flds :=
  if has k f then Some (if fixed then fdel k f else fput k None f) else None.

(* for k, v in kvs: setattr(data, k, v)  -- stops at the first bad name, earlier ones stay *)
Fixpoint set_all (fixed : bool) (kvs : list (str * Z)) (f : flds) : flds * bool :=
  match kvs with
  | [] => (f, true)
  | (k, v) :: r => match setattr fixed k v f with
                   | Some f' => set_all fixed r f'
                   | None => (f, false)
                   end
  end.
(* Share.create loop: returns (fields, update flag, completed) *)
Fixpoint create_all (fixed : bool) (kvs : list (str * Z)) (f : flds) (upd : bool) : flds * bool * bool :=
  match kvs with
  | [] => (f, upd, true)
  | (k, v) :: r => if has k f then create_all fixed r f upd
                   else match setattr fixed k v f with
                        | Some f' => create_all fixed r f' true
                        | None => (f, upd, false)
                        end
  end.

Record share := { fl : flds; stamp : option Z; deck : list (option Z) }.
(* shT = the store's own .time share (Store.timeShr): created by Store.__init__, rewritten by every
   changeStamp / advanceStamp; no operation of the model addresses it *)
(* attA / attB = does the share currently reference the store (share.store is the Store)?  Initially A does
   (store.create) and B does not (Share(name=...)); changeStore(None) / changeStore(store) flip it. *)
Record st := { sstamp : option Z; shA : share; shB : share; shT : share; attA : bool; attB : bool }.

Definition sh (w : bool) (s : st) : share := if w then shA s else shB s.
Definition set_sh (w : bool) (x : share) (s : st) : st :=
  if w then {| sstamp := sstamp s; shA := x; shB := shB s; shT := shT s; attA := attA s; attB := attB s |}
  else {| sstamp := sstamp s; shA := shA s; shB := x; shT := shT s; attA := attA s; attB := attB s |}.
Definition att (w : bool) (s : st) : bool := if w then attA s else attB s.
Definition set_att (w : bool) (b : bool) (s : st) : st :=
  if w then {| sstamp := sstamp s; shA := shA s; shB := shB s; shT := shT s; attA := b; attB := attB s |}
  else {| sstamp := sstamp s; shA := shA s; shB := shB s; shT := shT s; attA := attA s; attB := b |}.
(* self.store.stamp, or None when there is no store (AttributeError caught) *)
Definition store_stamp (w : bool) (s : st) : option Z := if att w s then sstamp s else None.

Definition value_key : str := [118; 97; 108; 117; 101].   (* "value" *)

Definition with_fl (x : share) (f : flds) : share := {| fl := f; stamp := stamp x; deck := deck x |}.
Definition with_stamp (x : share) (t : option Z) : share := {| fl := fl x; stamp := t; deck := deck x |}.
Definition with_deck (x : share) (d : list (option Z)) : share := {| fl := fl x; stamp := stamp x; deck := d |}.
(* timeShr.update(value=t) right after store.stamp := t *)
Definition tick (fixed : bool) (t : Z) (x : share) : share :=
  {| fl := match setattr fixed value_key t (fl x) with Some f => f | None => fl x end; stamp := Some t; deck := deck x |}.

Inductive op :=
| SetValue (w : bool) (v : Z)                   (* share.value = v *)
| GetValue (w : bool)
| Update (w : bool) (kvs : list (str * Z))      (* share.update(kvs), also with keyword arguments *)
| Change (w : bool) (kvs : list (str * Z))
| Create (w : bool) (kvs : list (str * Z))
| StampNow (w : bool)
| SetItem (w : bool) (k : str) (v : Z)          (* share[k] = v *)
| GetItem (w : bool) (k : str)
| DelItem (w : bool) (k : str)
| Contains (w : bool) (k : str)
| Push (w : bool) (e : option Z)                (* deck.push(e), e may be None *)
| Pull (w : bool)
| Gulp (w : bool) (e : option Z)
| Spew (w : bool)
| Advance (d : Z)                               (* store.advanceStamp(d) *)
| SetStamp (t : Z)                              (* store.changeStamp(t)  *)
| Detach (w : bool)                             (* share.changeStore(None)  *)
| Attach (w : bool)                             (* share.changeStore(store) *)
| ForceStamp (w : bool) (t : Z)                 (* share.stamp = t, or Share(name, stamp=t) when first *)
| SetData (w : bool) (kvs : list (str * Z)).    (* share.data = Data(kvs): the data setter *)

Inductive res :=
| ROk                      (* returned self / None, nothing to compare *)
| RVal (v : option Z)      (* a value, or Python None *)
| RBool (b : bool)
| RErrAttr | RErrKey | RErrIndex | RErrType
| RCrash.                  (* implementation only *)

Definition step_gen (fixed : bool) (s : st) (o : op) : st * res :=
  match o with
  | SetValue w v =>
      let x := sh w s in
      match setattr fixed value_key v (fl x) with
      | Some f => (set_sh w (with_stamp (with_fl x f) (store_stamp w s)) s, ROk)
      | None => (s, RErrAttr)
      end
  | GetValue w =>
      (s, RVal (match fget value_key (fl (sh w s)) with Some (Some v) => Some v | _ => None end))
  | Update w kvs =>
      let x := sh w s in
      let '(f, ok) := set_all fixed kvs (fl x) in
      if ok then (set_sh w (with_stamp (with_fl x f) (store_stamp w s)) s, ROk)
      else (set_sh w (with_fl x f) s, RErrAttr)
  | Change w kvs =>
      let x := sh w s in
      let '(f, ok) := set_all fixed kvs (fl x) in
      (set_sh w (with_fl x f) s, if ok then ROk else RErrAttr)
  | Create w kvs =>
      let x := sh w s in
      let '(f, upd, ok) := create_all fixed kvs (fl x) false in
      if ok then (set_sh w (if upd then with_stamp (with_fl x f) (store_stamp w s) else with_fl x f) s, ROk)
      else (set_sh w (with_fl x f) s, RErrAttr)
  | StampNow w =>
      (set_sh w (with_stamp (sh w s) (store_stamp w s)) s, RVal (store_stamp w s))
  | SetItem w k v =>
      let x := sh w s in
      match setattr fixed k v (fl x) with
      | Some f => (set_sh w (with_fl x f) s, ROk)
      | None => (s, RErrKey)
      end
  | GetItem w k =>
      (s, match fget k (fl (sh w s)) with Some (Some v) => RVal (Some v) | _ => RErrKey end)
  | DelItem w k =>
      let x := sh w s in
      match delattr fixed k (fl x) with
      | Some f => (set_sh w (with_fl x f) s, ROk)
      | None => (s, RErrKey)
      end
  | Contains w k => (s, RBool (has k (fl (sh w s))))
  | Push w e => let x := sh w s in (set_sh w (with_deck x (deck x ++ [e])) s, ROk)
  | Pull w =>
      let x := sh w s in
      match deck x with
      | [] => (s, RErrIndex)
      | e :: d => (set_sh w (with_deck x d) s, RVal e)
      end
  | Gulp w e =>
      let x := sh w s in
      match e with
      | None => (s, ROk)
      | Some _ => (set_sh w (with_deck x (deck x ++ [e])) s, ROk)
      end
  | Spew w =>
      let x := sh w s in
      match deck x with
      | [] => (s, RVal None)
      | e :: d => (set_sh w (with_deck x d) s, RVal e)
      end
  | Advance d =>
      match sstamp s with
      | Some t => ({| sstamp := Some (t + d); shA := shA s; shB := shB s; shT := tick fixed (t + d) (shT s);
                      attA := attA s; attB := attB s |}, ROk)
      | None => (s, RErrType)
      end
  | SetStamp t => ({| sstamp := Some t; shA := shA s; shB := shB s; shT := tick fixed t (shT s);
                      attA := attA s; attB := attB s |}, ROk)
  | Detach w => (set_att w false s, ROk)
  | Attach w => (set_att w true s, ROk)
  | ForceStamp w t => (set_sh w (with_stamp (sh w s) (Some t)) s, ROk)
  | SetData w kvs =>
      (* Data(kvs) is built first (a bad name raises there and the share is untouched), then installed
         and the share stamped from its store, None without one *)
      let '(f, ok) := set_all fixed kvs [] in
      if ok then (set_sh w (with_stamp (with_fl (sh w s) f) (store_stamp w s)) s, ROk) else (s, RErrAttr)
  end.

Definition step := step_gen true.
Definition step_orig := step_gen false.

Definition empty_share : share := {| fl := []; stamp := None; deck := [] |}.
(* Store.__init__: self.timeShr = self.create('.time').update(value = self.stamp or 0.0) *)
Definition init_time (t0 : option Z) : share :=
  {| fl := [(value_key, Some (match t0 with Some t => t | None => 0 end))]; stamp := t0; deck := [] |}.
Definition init (t0 : option Z) : st :=
  {| sstamp := t0; shA := empty_share; shB := empty_share; shT := init_time t0; attA := true; attB := false |}.

Definition run_from (s : st) (ops : list op) : st := fold_left (fun s o => fst (step s o)) ops s.
Definition run (t0 : option Z) (ops : list op) : st := run_from (init t0) ops.

(* ---- what the harness observes of one share after every step *)
(* share.items(): KeyError when a ghost key is met *)
Fixpoint items (f : flds) : option (list (str * Z)) :=
  match f with
  | [] => Some []
  | (k, Some v) :: r => match items r with Some l => Some ((k, v) :: l) | None => None end
  | (_, None) :: _ => None
  end.
Definition keys (f : flds) : list str := map fst f.
Definition len (f : flds) : Z := Z.of_nat (length (filter (fun kv => match snd kv with Some _ => true | None => false end) f)).

Definition obs_share := (option (list (str * Z)) * list str * Z * option Z * list (option Z))%type.
Definition observe1 (x : share) : obs_share := (items (fl x), keys (fl x), len (fl x), stamp x, deck x).
(* store stamp, share A, share B, the .time share, and the stamps of the .realtime and .datetime shares
   (their values are wall-clock readings and are not modelled; their stamps are the store stamp) *)
Definition obs := (option Z * obs_share * obs_share * obs_share * option Z * option Z * bool * bool)%type.
Definition observe (s : st) : obs :=
  (sstamp s, observe1 (shA s), observe1 (shB s), observe1 (shT s), sstamp s, sstamp s, attA s, attB s).

Fixpoint trace_gen (fixed : bool) (s : st) (ops : list op) : list (res * obs) :=
  match ops with
  | [] => []
  | o :: r => let '(s', x) := step_gen fixed s o in (x, observe s') :: trace_gen fixed s' r
  end.
Definition trace (t0 : option Z) := trace_gen true (init t0).

(* ---- boolean equality for the correspondence *)
Definition oz_eqb (a b : option Z) : bool :=
  match a, b with Some x, Some y => Z.eqb x y | None, None => true | _, _ => false end.
Fixpoint list_eqb {A} (e : A -> A -> bool) (a b : list A) : bool :=
  match a, b with
  | [], [] => true
  | x :: a', y :: b' => e x y && list_eqb e a' b'
  | _, _ => false
  end.
Definition kv_eqb (a b : str * Z) : bool := str_eqb (fst a) (fst b) && Z.eqb (snd a) (snd b).
Definition items_eqb (a b : option (list (str * Z))) : bool :=
  match a, b with Some x, Some y => list_eqb kv_eqb x y | None, None => true | _, _ => false end.
Definition obs1_eqb (a b : obs_share) : bool :=
  let '(i1, k1, l1, s1, d1) := a in let '(i2, k2, l2, s2, d2) := b in
  items_eqb i1 i2 && list_eqb str_eqb k1 k2 && Z.eqb l1 l2 && oz_eqb s1 s2 && list_eqb oz_eqb d1 d2.
Definition obs_eqb (a b : obs) : bool :=
  let '(t1, a1, b1, c1, r1, d1, x1, y1) := a in let '(t2, a2, b2, c2, r2, d2, x2, y2) := b in
  oz_eqb t1 t2 && obs1_eqb a1 a2 && obs1_eqb b1 b2 && obs1_eqb c1 c2 && oz_eqb r1 r2 && oz_eqb d1 d2 &&
  Bool.eqb x1 x2 && Bool.eqb y1 y2.
Definition res_eqb (a b : res) : bool :=
  match a, b with
  | ROk, ROk | RErrAttr, RErrAttr | RErrKey, RErrKey | RErrIndex, RErrIndex | RErrType, RErrType
  | RCrash, RCrash => true
  | RVal x, RVal y => oz_eqb x y
  | RBool x, RBool y => Bool.eqb x y
  | _, _ => false
  end.
Definition step_eqb (a b : res * obs) : bool := res_eqb (fst a) (fst b) && obs_eqb (snd a) (snd b).
Definition trace_eqb := list_eqb step_eqb.

(* ---------------------------------------------------------------- specifications ---- *)
(* abstract insertion-ordered map: association list without ghosts *)
Definition amap := list (str * Z).
Fixpoint a_get (k : str) (m : amap) : option Z :=
  match m with [] => None | (k', v) :: r => if str_eqb k k' then Some v else a_get k r end.
Fixpoint a_replace (k : str) (v : Z) (m : amap) : amap :=
  match m with [] => [] | (k', v') :: r => if str_eqb k k' then (k', v) :: r else (k', v') :: a_replace k v r end.
Definition a_set (k : str) (v : Z) (m : amap) : amap :=
  match a_get k m with Some _ => a_replace k v m | None => m ++ [(k, v)] end.
Fixpoint a_del (k : str) (m : amap) : amap :=
  match m with [] => [] | (k', v') :: r => if str_eqb k k' then r else (k', v') :: a_del k r end.

(* setattr on the abstract map: an existing field is overwritten in place, a new one must be a
   public identifier and goes last *)
Definition a_setattr (k : str) (v : Z) (m : amap) : option amap :=
  match a_get k m with
  | Some _ => Some (a_replace k v m)
  | None => if ident_pub true k then Some (m ++ [(k, v)]) else None
  end.
Fixpoint a_set_all (kvs : list (str * Z)) (m : amap) : amap :=
  match kvs with
  | [] => m
  | (k, v) :: r => match a_setattr k v m with Some m' => a_set_all r m' | None => m end
  end.
Fixpoint a_create_all (kvs : list (str * Z)) (m : amap) : amap :=
  match kvs with
  | [] => m
  | (k, v) :: r => match a_get k m with
                   | Some _ => a_create_all r m
                   | None => match a_setattr k v m with Some m' => a_create_all r m' | None => m end
                   end
  end.
(* the effect of any operation on the fields of the share it addresses *)
Definition a_fstep (m : amap) (o : op) : amap :=
  match o with
  | SetValue _ v => match a_setattr value_key v m with Some m' => m' | None => m end
  | Update _ kvs | Change _ kvs => a_set_all kvs m
  | Create _ kvs => a_create_all kvs m
  | SetItem _ k v => match a_setattr k v m with Some m' => m' | None => m end
  | DelItem _ k => a_del k m
  | SetData _ kvs => if forallb (fun kv => ident_pub true (fst kv)) kvs then a_set_all kvs [] else m
  | _ => m
  end.

(* abstraction: drop nothing, there must be no ghost *)
Fixpoint live (f : flds) : amap :=
  match f with [] => [] | (k, Some v) :: r => (k, v) :: live r | (_, None) :: r => live r end.
Definition no_ghost (f : flds) : Prop := forall k, fget k f <> Some None.
Fixpoint no_ghostb (f : flds) : bool :=
  match f with [] => true | (_, Some _) :: r => no_ghostb r | (_, None) :: _ => false end.

(* ---- deck as a queue: instrumented run with the log of everything enqueued / dequeued *)
Record ist := { cur : st; enqA : list (option Z); deqA : list (option Z);
                enqB : list (option Z); deqB : list (option Z) }.
Definition enq (w : bool) (i : ist) := if w then enqA i else enqB i.
Definition deq (w : bool) (i : ist) := if w then deqA i else deqB i.
Definition log_enq (w : bool) (e : option Z) (i : ist) (s' : st) : ist :=
  if w then {| cur := s'; enqA := enqA i ++ [e]; deqA := deqA i; enqB := enqB i; deqB := deqB i |}
  else {| cur := s'; enqA := enqA i; deqA := deqA i; enqB := enqB i ++ [e]; deqB := deqB i |}.
Definition log_deq (w : bool) (e : option Z) (i : ist) (s' : st) : ist :=
  if w then {| cur := s'; enqA := enqA i; deqA := deqA i ++ [e]; enqB := enqB i; deqB := deqB i |}
  else {| cur := s'; enqA := enqA i; deqA := deqA i; enqB := enqB i; deqB := deqB i ++ [e] |}.
Definition log_none (i : ist) (s' : st) : ist :=
  {| cur := s'; enqA := enqA i; deqA := deqA i; enqB := enqB i; deqB := deqB i |}.

Definition istep (i : ist) (o : op) : ist :=
  let s := cur i in
  let s' := fst (step s o) in
  match o with
  | Push w e => log_enq w e i s'
  | Gulp w (Some v) => log_enq w (Some v) i s'
  | Pull w | Spew w => match deck (sh w s) with e :: _ => log_deq w e i s' | [] => log_none i s' end
  | _ => log_none i s'
  end.
Definition iinit (t0 : option Z) : ist := {| cur := init t0; enqA := []; deqA := []; enqB := []; deqB := [] |}.
Definition irun (t0 : option Z) (ops : list op) : ist := fold_left istep ops (iinit t0).

Definition pushes_none (o : op) : bool := match o with Push _ None => true | _ => false end.
Definition op_share (o : op) : option bool :=
  match o with
  | SetValue w _ | GetValue w | Update w _ | Change w _ | Create w _ | StampNow w | SetItem w _ _
  | GetItem w _ | DelItem w _ | Contains w _ | Push w _ | Pull w | Gulp w _ | Spew w
  | Detach w | Attach w | ForceStamp w _ | SetData w _ => Some w
  | Advance _ | SetStamp _ => None
  end.
Definition stamping (o : op) : bool :=
  match o with SetValue _ _ | Update _ _ | Create _ _ | StampNow _ | SetData _ _ | ForceStamp _ _ => true | _ => false end.
