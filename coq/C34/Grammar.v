(* C34 -- the model's urlsplit on rendered absolute and path references: parse o print = id
   (for ALL schemes / hosts / port strings / paths / queries meeting the side conditions). *)
From Coq Require Import List ZArith Bool Lia.
Import ListNotations.
Require Import V.C34.Model V.C34.Proofs.
Open Scope Z_scope.

Lemma break_at_app : forall p a c r, (forall x, In x a -> p x = false) -> p c = true ->
  break_at p (a ++ c :: r) = (a, c :: r).
Proof.
  induction a as [|x a IH]; intros c r Ha Hc.
  - cbn. rewrite Hc. reflexivity.
  - cbn [app break_at]. rewrite (Ha x (or_introl eq_refl)).
    rewrite IH; [reflexivity| |exact Hc]. intros y Hy. apply Ha. right. exact Hy.
Qed.

Lemma break_at_none : forall p a, (forall x, In x a -> p x = false) -> break_at p a = (a, []).
Proof.
  induction a as [|x a IH]; intros Ha; [reflexivity|].
  cbn [break_at]. rewrite (Ha x (or_introl eq_refl)). rewrite IH; [reflexivity|].
  intros y Hy. apply Ha. right. exact Hy.
Qed.

Definition render_abs (sch host : str) (ps : option str) (path : str) (q : option str) : str :=
  sch ++ COLON :: SLASH :: SLASH ::
      (host ++ match ps with Some p => COLON :: p | None => [] end) ++
      (path ++ match q with Some x => QUEST :: x | None => [] end).

Definition render_rel (path : str) (q : option str) : str :=
  path ++ match q with Some x => QUEST :: x | None => [] end.

Definition wf_scheme (sch : str) : Prop :=
  (exists c t, sch = c :: t /\ is_alpha c = true) /\ forallb scheme_char sch = true.
Definition no (bad : list Z) (s : str) : Prop := forall x, In x s -> ~ In x bad.
Definition wf_path (path : str) : Prop :=
  (path = [] \/ exists t, path = SLASH :: t) /\ no [QUEST; HASH] path.

Lemma no_false : forall bad s p, no bad s -> (forall x, p x = true -> In x bad) ->
  forall x, In x s -> p x = false.
Proof.
  intros bad s p Hno Hp x Hx. destruct (p x) eqn:E; [|reflexivity].
  exfalso. apply (Hno x Hx). apply Hp. exact E.
Qed.

Lemma eqb_in1 : forall c x, Z.eqb c x = true -> forall bad, In c bad -> In x bad.
Proof. intros c x H bad Hb. apply Z.eqb_eq in H. subst. exact Hb. Qed.

Lemma tail_split : forall path (q : option str), wf_path path -> (forall x, q = Some x -> no [HASH] x) ->
  let tailp := path ++ match q with Some x => QUEST :: x | None => [] end in
  break_at (Z.eqb HASH) tailp = (tailp, []) /\
  break_at (Z.eqb QUEST) tailp = (path, match q with Some x => QUEST :: x | None => [] end).
Proof.
  intros path q [Hshape Hno] Hq tailp. split.
  - apply break_at_none. intros x Hx. unfold tailp in Hx. apply in_app_or in Hx.
    destruct (Z.eqb HASH x) eqn:E; [|reflexivity]. apply Z.eqb_eq in E. subst x. exfalso.
    destruct Hx as [Hx|Hx].
    + apply (Hno _ Hx). right. left. reflexivity.
    + destruct q as [x|]; [|contradiction]. destruct Hx as [Hx|Hx]; [discriminate|].
      apply (Hq x eq_refl _ Hx). left. reflexivity.
  - assert (Hp : forall x, In x path -> Z.eqb QUEST x = false).
    { intros x Hx. destruct (Z.eqb QUEST x) eqn:E; [|reflexivity]. apply Z.eqb_eq in E. subst x.
      exfalso. apply (Hno _ Hx). left. reflexivity. }
    unfold tailp. destruct q as [x|].
    + apply break_at_app; [exact Hp|reflexivity].
    + rewrite app_nil_r. apply break_at_none. exact Hp.
Qed.

Lemma urlsplit_abs : forall sch host ps path q,
  wf_scheme sch ->
  host <> [] -> no [COLON; SLASH; QUEST; HASH] host ->
  (forall p, ps = Some p -> no [SLASH; QUEST; HASH] p) ->
  wf_path path ->
  (forall x, q = Some x -> no [HASH] x) ->
  urlsplit (render_abs sch host ps path q) =
  {| p_scheme := lower_str sch; p_netloc := true; p_host := Some (lower_str host);
     p_port := match ps with Some p => parse_port p | None => None end;
     p_path := path; p_hasq := match q with Some _ => true | None => false end;
     p_query := match q with Some x => x | None => [] end |}.
Proof.
  intros sch host ps path q [[c [t [Esch Halpha]]] Hsc] Hhne Hhost Hps Hpath Hq.
  unfold urlsplit, render_abs.
  set (netloc := host ++ match ps with Some p => COLON :: p | None => [] end).
  set (tailp := path ++ match q with Some x => QUEST :: x | None => [] end).
  (* 1. scheme *)
  assert (Hnocolon : forall x, In x sch -> Z.eqb COLON x = false).
  { intros x Hx. destruct (Z.eqb COLON x) eqn:E; [|reflexivity]. apply Z.eqb_eq in E. subst x.
    rewrite forallb_forall in Hsc. specialize (Hsc _ Hx). vm_compute in Hsc. discriminate. }
  rewrite (break_at_app (Z.eqb COLON) sch COLON (SLASH :: SLASH :: netloc ++ tailp) Hnocolon eq_refl).
  assert (Hhas : match COLON :: SLASH :: SLASH :: netloc ++ tailp, sch with
                 | _ :: _, c0 :: _ => is_alpha c0 && forallb scheme_char sch
                 | _, _ => false end = true).
  { rewrite Esch. rewrite <- Esch. rewrite Halpha, Hsc. reflexivity. }
  rewrite Hhas. cbn [tl starts_slashslash]. rewrite Z.eqb_refl. cbn [andb].
  (* 2. netloc *)
  assert (Hnet : break_at (fun c0 => (c0 =? SLASH) || (c0 =? QUEST) || (c0 =? HASH)) (netloc ++ tailp)
                 = (netloc, tailp)).
  { assert (Hn : forall x, In x netloc -> ((x =? SLASH) || (x =? QUEST) || (x =? HASH)) = false).
    { intros x Hx. unfold netloc in Hx. apply in_app_or in Hx.
      destruct ((x =? SLASH) || (x =? QUEST) || (x =? HASH)) eqn:E; [|reflexivity]. exfalso.
      assert (Hbad : In x [SLASH; QUEST; HASH]).
      { apply orb_true_iff in E. destruct E as [E|E]; [apply orb_true_iff in E; destruct E as [E|E]|];
          apply Z.eqb_eq in E; subst x; cbn; auto. }
      destruct Hx as [Hx|Hx].
      - apply (Hhost _ Hx). right. exact Hbad.
      - destruct ps as [p|]; [|contradiction]. destruct Hx as [Hx|Hx].
        + subst x. cbn in Hbad. destruct Hbad as [H|[H|[H|[]]]]; discriminate.
        + apply (Hps p eq_refl _ Hx). exact Hbad. }
    destruct Hpath as [Hshape Hno]. unfold tailp. destruct Hshape as [Hp|[t' Hp]].
    - subst path. cbn [app]. destruct q as [x|].
      + apply break_at_app; [exact Hn|reflexivity].
      + rewrite app_nil_r. apply break_at_none. exact Hn.
    - subst path. cbn [app]. apply break_at_app; [exact Hn|reflexivity]. }
  rewrite Hnet.
  (* 3. fragment, query *)
  destruct (tail_split path q Hpath Hq) as [Hh Hqs]. fold tailp in Hh, Hqs.
  rewrite Hh, Hqs.
  (* 4. host / port *)
  assert (Hhp : break_at (Z.eqb COLON) netloc = (host, match ps with Some p => COLON :: p | None => [] end)).
  { assert (Hc : forall x, In x host -> Z.eqb COLON x = false).
    { intros x Hx. destruct (Z.eqb COLON x) eqn:E; [|reflexivity]. apply Z.eqb_eq in E. subst x.
      exfalso. apply (Hhost _ Hx). left. reflexivity. }
    unfold netloc. destruct ps as [p|].
    - apply break_at_app; [exact Hc|reflexivity].
    - rewrite app_nil_r. apply break_at_none. exact Hc. }
  rewrite Hhp.
  destruct host as [|h0 ht]; [contradiction|].
  destruct ps as [p|]; destruct q as [x|]; reflexivity.
Qed.

(* a path reference (no scheme, no authority): "/p?q", "rel/x", "?q" *)
Lemma urlsplit_rel : forall path q,
  no [COLON; QUEST; HASH] path ->
  starts_slashslash path = false ->
  (forall x, q = Some x -> no [HASH; COLON] x) ->
  urlsplit (render_rel path q) =
  {| p_scheme := []; p_netloc := false; p_host := None; p_port := None;
     p_path := path; p_hasq := match q with Some _ => true | None => false end;
     p_query := match q with Some x => x | None => [] end |}.
Proof.
  intros path q Hpath Hss Hq. unfold urlsplit, render_rel.
  set (tailp := path ++ match q with Some x => QUEST :: x | None => [] end).
  assert (Hnc : forall x, In x tailp -> Z.eqb COLON x = false).
  { intros x Hx. destruct (Z.eqb COLON x) eqn:E; [|reflexivity]. apply Z.eqb_eq in E. subst x. exfalso.
    unfold tailp in Hx. apply in_app_or in Hx. destruct Hx as [Hx|Hx].
    - apply (Hpath _ Hx). left. reflexivity.
    - destruct q as [x|]; [|contradiction]. destruct Hx as [Hx|Hx]; [discriminate|].
      apply (Hq x eq_refl _ Hx). right. left. reflexivity. }
  rewrite (break_at_none _ _ Hnc). cbn [tl].
  assert (Hss2 : starts_slashslash tailp = false).
  { unfold tailp. destruct path as [|a [|b r]].
    - destruct q as [x|]; [destruct x|]; reflexivity.
    - destruct q as [x|]; cbn; [apply andb_false_r|reflexivity].
    - exact Hss. }
  rewrite Hss2.
  assert (Hh : break_at (Z.eqb HASH) tailp = (tailp, [])).
  { apply break_at_none. intros x Hx. destruct (Z.eqb HASH x) eqn:E; [|reflexivity].
    apply Z.eqb_eq in E. subst x. exfalso. unfold tailp in Hx. apply in_app_or in Hx. destruct Hx as [Hx|Hx].
    - apply (Hpath _ Hx). right. right. left. reflexivity.
    - destruct q as [x|]; [|contradiction]. destruct Hx as [Hx|Hx]; [discriminate|].
      apply (Hq x eq_refl _ Hx). left. reflexivity. }
  rewrite Hh.
  assert (Hp : forall x, In x path -> Z.eqb QUEST x = false).
  { intros x Hx. destruct (Z.eqb QUEST x) eqn:E; [|reflexivity]. apply Z.eqb_eq in E. subst x.
    exfalso. apply (Hpath _ Hx). right. left. reflexivity. }
  assert (Hqs : break_at (Z.eqb QUEST) tailp = (path, match q with Some x => QUEST :: x | None => [] end)).
  { unfold tailp. destruct q as [x|].
    - apply break_at_app; [exact Hp|reflexivity].
    - rewrite app_nil_r. apply break_at_none. exact Hp. }
  rewrite Hqs. cbn. destruct q; reflexivity.
Qed.

(* ---------------------------------------------------------------- end to end on Location strings *)

Lemma redirect_abs : forall norm cur sch host ps path q t,
  wf_scheme sch -> host <> [] -> no [COLON; SLASH; QUEST; HASH] host ->
  (forall p, ps = Some p -> no [SLASH; QUEST; HASH] p) -> wf_path path ->
  (forall x, q = Some x -> no [HASH] x) ->
  redirect norm cur (render_abs sch host ps path q) = Ok t ->
  t_https t = str_eqb (lower_str sch) HTTPS /\
  norm (t_host t) = norm (lower_str host) /\
  t_port t = match (match ps with Some p => parse_port p | None => None end) with
             | Some n => n
             | None => if str_eqb (lower_str sch) HTTPS then 443 else 80
             end /\
  t_path t = match path with [] => [SLASH] | _ => path end /\
  t_query t = match q with Some x => x | None => [] end.
Proof.
  intros norm cur sch host ps path q t Hs Hh Hno Hps Hpath Hq H.
  unfold redirect in H. rewrite urlsplit_abs in H by assumption.
  destruct Hs as [[c [tl [Esch Ha]]] Hsc].
  unfold resolve in H. cbn [p_scheme p_netloc] in H. rewrite Esch in H. cbn [lower_str map] in H.
  apply decide_ok_fields in H. cbn [p_scheme p_host p_port p_path p_query] in H.
  rewrite Esch. cbn [lower_str map].
  destruct H as [A [_ [B [C [D E]]]]]. repeat split; assumption.
Qed.

Lemma redirect_rel : forall norm cur path q,
  no [COLON; QUEST; HASH] path -> starts_slashslash path = false ->
  (forall x, q = Some x -> no [HASH; COLON] x) ->
  exists t, redirect norm cur (render_rel path q) = Ok t /\
            t_https t = o_https cur /\ t_host t = o_host cur /\ t_port t = o_port cur /\
            t_reconnect t = false /\ t_query t = match q with Some x => x | None => [] end.
Proof.
  intros norm cur path q Hp Hss Hq. unfold redirect. rewrite urlsplit_rel by assumption.
  destruct (relative_same_origin norm cur
             {| p_scheme := []; p_netloc := false; p_host := None; p_port := None; p_path := path;
                p_hasq := match q with Some _ => true | None => false end;
                p_query := match q with Some x => x | None => [] end |} eq_refl)
    as [t [H [A [B [C [D [E _]]]]]]].
  exists t. repeat split; assumption.
Qed.
