From Coq Require Import List ZArith Bool Lia.
Import ListNotations.
Require Import V.C34.Model.
Open Scope Z_scope.

Lemma str_eqb_eq : forall a b, str_eqb a b = true <-> a = b.
Proof.
  induction a as [|x a IH]; destruct b as [|y b]; cbn; split; intro H; try reflexivity; try discriminate.
  - apply andb_true_iff in H. destruct H as [H1 H2]. apply Z.eqb_eq in H1. apply IH in H2. congruence.
  - inversion H; subst. rewrite Z.eqb_refl. cbn. apply IH. reflexivity.
Qed.

Lemma str_eqb_refl : forall a, str_eqb a a = true.
Proof. intro a. apply str_eqb_eq. reflexivity. Qed.

Lemma str_eqb_neq : forall a b, str_eqb a b = false <-> a <> b.
Proof.
  intros a b. split.
  - intros H E. apply str_eqb_eq in E. congruence.
  - intros H. destruct (str_eqb a b) eqn:E; [|reflexivity]. apply str_eqb_eq in E. contradiction.
Qed.

Lemma scheme_of_https : forall b, str_eqb (scheme_of b) HTTPS = b.
Proof. destruct b; reflexivity. Qed.

(* ---------------------------------------------------------------- decision *)

Section DecisionProofs.
  Variable norm : str -> str.

  Lemma decide_ok_fields : forall cur r t, decide norm cur r = Ok t ->
    t_https t = str_eqb (p_scheme r) HTTPS /\
    t_host t = (if t_reconnect t then match p_host r with Some h => h | None => [] end else o_host cur) /\
    norm (t_host t) = norm (match p_host r with Some h => h | None => [] end) /\
    t_port t = match p_port r with Some n => n | None => if str_eqb (p_scheme r) HTTPS then 443 else 80 end /\
    t_path t = match p_path r with [] => [SLASH] | _ => p_path r end /\
    t_query t = p_query r.
  Proof.
    intros cur r t H. unfold decide in H.
    destruct (_ && _ && _) in H; [discriminate|]. inversion H; subst; cbn. clear H.
    repeat split; try reflexivity.
    destruct (negb _ || _) eqn:E; [reflexivity|].
    apply orb_false_iff in E. destruct E as [E _]. apply negb_false_iff in E.
    apply andb_true_iff in E. destruct E as [E _]. apply str_eqb_eq in E. symmetry. exact E.
  Qed.

  Lemma decide_no_downgrade : forall cur r t,
    o_https cur = true -> decide norm cur r = Ok t -> t_https t = true.
  Proof.
    intros cur r t Hc H. unfold decide in H. rewrite Hc in H.
    destruct (str_eqb (p_scheme r) HTTPS) eqn:Hs.
    - destruct (_ && _ && _) in H; [discriminate|]. inversion H; subst; reflexivity.
    - cbn in H. rewrite orb_true_r in H. cbn in H. discriminate.
  Qed.

  Lemma decide_downgrade_refused : forall cur r,
    o_https cur = true -> str_eqb (p_scheme r) HTTPS = false -> decide norm cur r = Err ValueError.
  Proof.
    intros cur r Hc Hs. unfold decide. rewrite Hc, Hs. cbn. rewrite orb_true_r. reflexivity.
  Qed.

  (* outside the https -> http case a redirect is never refused *)
  Lemma decide_ok_otherwise : forall cur r,
    (o_https cur = false \/ str_eqb (p_scheme r) HTTPS = true) -> exists t, decide norm cur r = Ok t.
  Proof.
    intros cur r H. unfold decide.
    destruct (_ && _ && _) eqn:E; [|eexists; reflexivity].
    apply andb_true_iff in E. destruct E as [E1 E3]. apply andb_true_iff in E1. destruct E1 as [E1 E2].
    destruct H as [H|H].
    - rewrite H in E2. discriminate.
    - rewrite H in E3. discriminate.
  Qed.

  Lemma decide_reconnect_iff : forall cur r t, decide norm cur r = Ok t ->
    (t_reconnect t = true <->
     (norm (t_host t) <> norm (o_host cur) \/ t_port t <> o_port cur \/ t_https t <> o_https cur)).
  Proof.
    intros cur r t H. unfold decide in H.
    destruct (_ && _ && _) in H; [discriminate|]. inversion H; subst; cbn. clear H.
    set (h := match p_host r with Some h => h | None => [] end).
    set (pt := match p_port r with Some n => n | None => if str_eqb (p_scheme r) HTTPS then 443 else 80 end).
    set (hs := str_eqb (p_scheme r) HTTPS).
    destruct (negb (str_eqb (norm h) (norm (o_host cur)) && (pt =? o_port cur)) || negb (eqb hs (o_https cur))) eqn:D.
    - split; [intros _|reflexivity].
      apply orb_true_iff in D. destruct D as [Hd|Hd].
      + apply negb_true_iff in Hd. apply andb_false_iff in Hd. destruct Hd as [Hd|Hd].
        * left. apply str_eqb_neq. exact Hd.
        * right. left. apply Z.eqb_neq. exact Hd.
      + right. right. apply negb_true_iff in Hd. apply eqb_false_iff in Hd. exact Hd.
    - split; [discriminate|]. intros Hx. exfalso.
      apply orb_false_iff in D. destruct D as [D1 D2].
      apply negb_false_iff in D1. apply andb_true_iff in D1. destruct D1 as [Dh Dp].
      apply negb_false_iff in D2. apply eqb_prop in D2. apply Z.eqb_eq in Dp.
      destruct Hx as [Hx|[Hx|Hx]]; congruence.
  Qed.

  (* a reference without authority (relative Location) stays on the same scheme, host and port,
     is never refused, and does not replace the connection *)
  Lemma relative_same_origin : forall cur r, p_netloc r = false ->
    exists t, decide norm cur (resolve cur r) = Ok t /\
              t_https t = o_https cur /\ t_host t = o_host cur /\ t_port t = o_port cur /\
              t_reconnect t = false /\ t_query t = p_query r /\
              t_path t = match (match p_path r with
                                | [] => o_path cur
                                | c :: _ => if c =? SLASH then p_path r else dir_of (o_path cur) ++ p_path r
                                end) with [] => [SLASH] | x => x end.
  Proof.
    intros cur r Hn. unfold resolve. rewrite Hn.
    assert (E : forall (s : str), match s with _ :: _ | _ =>
      {| p_scheme := scheme_of (o_https cur); p_netloc := true; p_host := Some (o_host cur);
         p_port := Some (o_port cur);
         p_path := match p_path r with
                   | [] => o_path cur
                   | c :: _ => if c =? SLASH then p_path r else dir_of (o_path cur) ++ p_path r
                   end; p_hasq := p_hasq r; p_query := p_query r |} end =
      {| p_scheme := scheme_of (o_https cur); p_netloc := true; p_host := Some (o_host cur);
         p_port := Some (o_port cur);
         p_path := match p_path r with
                   | [] => o_path cur
                   | c :: _ => if c =? SLASH then p_path r else dir_of (o_path cur) ++ p_path r
                   end; p_hasq := p_hasq r; p_query := p_query r |}) by (intros [|? ?]; reflexivity).
    rewrite E. clear E. unfold decide. cbn [p_scheme p_host p_port p_path p_query].
    rewrite scheme_of_https, str_eqb_refl, Z.eqb_refl, eqb_reflx. cbn.
    eexists. split; [reflexivity|]. cbn. repeat split; try reflexivity.
    match goal with |- match ?x with [] => _ | _ => _ end = _ => destruct x; reflexivity end.
  Qed.

  Lemma follow_no_downgrade : forall locs cur ts e,
    o_https cur = true -> follow norm cur locs = (ts, e) -> Forall (fun t => t_https t = true) ts.
  Proof.
    induction locs as [|l ls IH]; intros cur ts e Hc H; cbn in H.
    - inversion H; subst. constructor.
    - unfold redirect in H. destruct (decide norm cur (resolve cur (urlsplit l))) as [t|er] eqn:E.
      + destruct (follow norm (origin_of t) ls) as [ts' e'] eqn:F. inversion H; subst.
        pose proof (decide_no_downgrade _ _ _ Hc E) as Ht.
        constructor; [exact Ht|]. apply (IH (origin_of t) ts' e); [exact Ht|exact F].
      + inversion H; subst. constructor.
  Qed.

  (* follow issues one request per Location until a refusal; a refusal ends the chain *)
  Lemma follow_length : forall locs cur ts e, follow norm cur locs = (ts, e) ->
    (e = None -> length ts = length locs) /\ (length ts <= length locs)%nat.
  Proof.
    induction locs as [|l ls IH]; intros cur ts e H; cbn in H.
    - inversion H; subst. split; auto.
    - destruct (redirect norm cur l) as [t|er].
      + destruct (follow norm (origin_of t) ls) as [ts' e'] eqn:F. inversion H; subst.
        destruct (IH _ _ _ F) as [A B]. split; cbn; [intro; f_equal; auto|lia].
      + inversion H; subst. split; [discriminate|cbn; lia].
  Qed.
End DecisionProofs.

(* ---------------------------------------------------------------- bookkeeping *)

Lemma service_all_cons : forall b p r rs,
  service_all b p (r :: rs) = service_all b (service_response b p (fst r) (snd r)) rs.
Proof. reflexivity. Qed.

Lemma service_all_app : forall b p rs1 rs2,
  service_all b p (rs1 ++ rs2) = service_all b (service_all b p rs1) rs2.
Proof. intros. unfold service_all. apply fold_left_app. Qed.

Lemma service_all_redirects : forall rs p,
  Forall (fun r => is_redirect_status (fst r) = true) rs ->
  service_all true p rs =
  match rs with
  | [] => p
  | _ => {| redirects := redirects p ++ rs; responses := responses p; waited := true |}
  end.
Proof.
  induction rs as [|r rs IH]; intros p H; [reflexivity|].
  inversion H as [|x l Hs Hr]; subst.
  rewrite service_all_cons. unfold service_response at 1. rewrite Hs. cbn [andb].
  rewrite IH by exact Hr. destruct rs as [|r2 rs'].
  - destruct r; reflexivity.
  - cbn [redirects responses]. rewrite <- app_assoc. destruct r; reflexivity.
Qed.

Lemma chain_in_order_gen : forall rs fs ft p,
  Forall (fun r => is_redirect_status (fst r) = true) rs ->
  is_redirect_status fs = false ->
  service_all true p (rs ++ [(fs, ft)]) =
  {| redirects := [];
     responses := responses p ++ [{| rs_status := fs; rs_tag := ft; rs_redirects := redirects p ++ rs |}];
     waited := false |}.
Proof.
  intros rs fs ft p H Hf. rewrite service_all_app.
  rewrite (service_all_redirects rs p H). rewrite service_all_cons. cbn [fst snd].
  unfold service_all. cbn [fold_left].
  unfold service_response. rewrite Hf. cbn [andb].
  destruct rs; cbn; [rewrite app_nil_r|]; reflexivity.
Qed.

Lemma not_redirectable_files_each : forall rs p,
  responses (service_all false p rs) =
  responses p ++
  match rs with
  | [] => []
  | r :: t => {| rs_status := fst r; rs_tag := snd r; rs_redirects := redirects p |}
              :: map (fun r => {| rs_status := fst r; rs_tag := snd r; rs_redirects := [] |}) t
  end.
Proof.
  induction rs as [|r rs IH]; intros p; [cbn; rewrite app_nil_r; reflexivity|].
  rewrite service_all_cons. rewrite IH. unfold service_response. cbn [andb responses redirects].
  rewrite <- app_assoc. destruct rs as [|r2 rs']; reflexivity.
Qed.

(* ---------------------------------------------------------------- several requests on one Patron *)

(* the responses a Patron parses while serving a list of requests one after the other: for each
   request its redirect responses, then its final response *)
Definition flatten_chains (chains : list (list (Z * Z) * (Z * Z))) : list (Z * Z) :=
  concat (map (fun c => fst c ++ [snd c]) chains).

Definition chain_ok (c : list (Z * Z) * (Z * Z)) : Prop :=
  Forall (fun r => is_redirect_status (fst r) = true) (fst c) /\ is_redirect_status (fst (snd c)) = false.

Lemma chains_in_order_gen : forall chains p, redirects p = [] -> Forall chain_ok chains ->
  service_all true p (flatten_chains chains) =
  {| redirects := [];
     responses := responses p ++
                  map (fun c => {| rs_status := fst (snd c); rs_tag := snd (snd c); rs_redirects := fst c |}) chains;
     waited := match chains with [] => waited p | _ => false end |}.
Proof.
  induction chains as [|[rs [fs ft]] cs IH]; intros p Hp H.
  - cbn. rewrite app_nil_r. destruct p; cbn in *; subst; reflexivity.
  - inversion H as [|x l [Hr Hf] Hcs]; subst. cbn [fst snd] in Hr, Hf.
    unfold flatten_chains. cbn [map concat fst snd]. rewrite service_all_app.
    rewrite (chain_in_order_gen rs fs ft p Hr Hf). rewrite Hp. cbn [app].
    fold (flatten_chains cs). rewrite IH; [|reflexivity|exact Hcs].
    cbn [responses redirects waited map fst snd]. rewrite <- app_assoc. cbn [app].
    destruct cs; reflexivity.
Qed.
