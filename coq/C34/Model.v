(* C34 -- HTTP redirects are followed safely to the final response.  Hand model (tie H), definitions only.

   Strings are lists of code points (Z).
   Part 1  a URL-reference splitter that follows urllib.parse.urlsplit step by step (scheme
           detection, '//' netloc, '#', '?', hostname/port of the netloc) for references
           without userinfo '@' and without IPv6 brackets, and reference resolution
           (urllib.parse.urljoin) for references without dot segments / empty segments.
           Both are validated against CPython on the generated grammar by the check.
   Part 2  Patron.redirect decision logic (FIXED behaviour, fixes/C34-*.patch): which scheme /
           host / port / path / query the request is reissued to, whether the connection is
           replaced, and the refusal to go from https to http.
   Part 3  Patron.serviceResponse redirect bookkeeping (.redirects, .responses, .waited).     *)
From Coq Require Import List ZArith Bool.
Import ListNotations.
Open Scope Z_scope.

Definition str := list Z.

Fixpoint str_eqb (a b : str) : bool :=
  match a, b with
  | [], [] => true
  | x :: a', y :: b' => Z.eqb x y && str_eqb a' b'
  | _, _ => false
  end.

(* ---------------------------------------------------------------- Part 1: urlsplit / urljoin *)

(* (prefix before the first element satisfying p, remainder starting at that element) *)
Fixpoint break_at (p : Z -> bool) (l : str) : str * str :=
  match l with
  | [] => ([], [])
  | c :: t => if p c then ([], l) else let '(a, b) := break_at p t in (c :: a, b)
  end.

Definition is_upper (c : Z) : bool := (65 <=? c) && (c <=? 90).
Definition is_lower (c : Z) : bool := (97 <=? c) && (c <=? 122).
Definition is_alpha (c : Z) : bool := is_upper c || is_lower c.
Definition is_digit (c : Z) : bool := (48 <=? c) && (c <=? 57).
(* urllib.parse.scheme_chars: letters digits + - . *)
Definition scheme_char (c : Z) : bool := is_alpha c || is_digit c || (c =? 43) || (c =? 45) || (c =? 46).
Definition lower (c : Z) : Z := if is_upper c then c + 32 else c.
Definition lower_str (s : str) : str := map lower s.

Definition COLON := 58. Definition SLASH := 47. Definition QUEST := 63. Definition HASH := 35.

(* int(s) for a non-empty all-digit string, else None *)
Fixpoint digits_val (s : str) (acc : Z) : option Z :=
  match s with
  | [] => Some acc
  | c :: t => if is_digit c then digits_val t (10 * acc + (c - 48)) else None
  end.
Definition parse_port (s : str) : option Z :=
  match s with [] => None | _ => digits_val s 0 end.

(* SplitResult restricted to what Patron.redirect reads *)
Record parts := {
  p_scheme : str;            (* ''  when absent; lower-cased                          *)
  p_netloc : bool;           (* reference had '//' authority                          *)
  p_host : option str;       (* .hostname: lower-cased, None when empty               *)
  p_port : option Z;         (* .port                                                 *)
  p_path : str;
  p_hasq : bool;             (* a '?' was present                                     *)
  p_query : str
}.

Definition starts_slashslash (u : str) : bool :=
  match u with a :: b :: _ => (a =? SLASH) && (b =? SLASH) | _ => false end.

Definition urlsplit (url : str) : parts :=
  (* scheme: i = url.find(':'); i > 0, first char a letter, all of url[:i] scheme chars *)
  let '(pre, rest) := break_at (Z.eqb COLON) url in
  let has_scheme :=
      match rest, pre with
      | _ :: _, c :: _ => is_alpha c && forallb scheme_char pre
      | _, _ => false
      end in
  let scheme := if has_scheme then lower_str pre else [] in
  let url1 := if has_scheme then tl rest else url in
  (* netloc *)
  let has_netloc := starts_slashslash url1 in
  let '(netloc, url2) :=
      if has_netloc
      then break_at (fun c => (c =? SLASH) || (c =? QUEST) || (c =? HASH)) (tl (tl url1))
      else ([], url1) in
  (* fragment, query *)
  let '(url3, _) := break_at (Z.eqb HASH) url2 in
  let '(path, q) := break_at (Z.eqb QUEST) url3 in
  let hasq := match q with [] => false | _ => true end in
  (* hostname / port of the netloc *)
  let '(h, p) := break_at (Z.eqb COLON) netloc in
  {| p_scheme := scheme; p_netloc := has_netloc;
     p_host := match h with [] => None | _ => Some (lower_str h) end;
     p_port := parse_port (tl p);
     p_path := path; p_hasq := hasq; p_query := tl q |}.

(* everything up to and including the last '/' of an absolute path *)
Fixpoint dir_of (path : str) : str :=
  match path with
  | [] => []
  | c :: t => let d := dir_of t in
              match d with
              | [] => if c =? SLASH then [c] else []
              | _ => c :: d
              end
  end.

(* the connection a Patron currently talks to, and the path of its last request *)
Record origin := { o_https : bool; o_host : str; o_port : Z; o_path : str }.

Definition HTTP : str := [104; 116; 116; 112].
Definition HTTPS : str := [104; 116; 116; 112; 115].
Definition scheme_of (https : bool) : str := if https then HTTPS else HTTP.

(* urlsplit(urljoin(base, ref)) for a base 'scheme://host:port/path' and a reference without
   dot segments; only used when the reference lacks a scheme or an authority *)
Definition resolve (cur : origin) (r : parts) : parts :=
  match p_scheme r, p_netloc r with
  | _ :: _, true => r                                   (* absolute URL: taken as is *)
  | _, true =>                                          (* //host/path keeps the scheme *)
      {| p_scheme := scheme_of (o_https cur); p_netloc := true; p_host := p_host r; p_port := p_port r;
         p_path := p_path r; p_hasq := p_hasq r; p_query := p_query r |}
  | _, false =>
      let path := match p_path r with
                  | [] => o_path cur
                  | c :: _ => if c =? SLASH then p_path r else dir_of (o_path cur) ++ p_path r
                  end in
      {| p_scheme := scheme_of (o_https cur); p_netloc := true; p_host := Some (o_host cur);
         p_port := Some (o_port cur); p_path := path; p_hasq := p_hasq r; p_query := p_query r |}
  end.

(* ---------------------------------------------------------------- Part 2: Patron.redirect *)

Inductive err := ValueError.
Inductive result (A : Type) := Ok (a : A) | Err (e : err).
Arguments Ok {A}. Arguments Err {A}.

Record target := {
  t_https : bool; t_host : str; t_port : Z; t_path : str; t_query : str;
  t_reconnect : bool       (* the connector is closed and replaced *)
}.

Section Decision.
  (* aioing.normalizeHost: name -> address; the OS resolver, an arbitrary function here *)
  Variable norm : str -> str.

  (* the decision once the Location has been split and resolved *)
  Definition decide (cur : origin) (r : parts) : result target :=
    let https := str_eqb (p_scheme r) HTTPS in              (* 'https' if scheme == 'https' else 'http' *)
    let default_port := if https then 443 else 80 in
    let host := match p_host r with Some h => h | None => [] end in
    let port := match p_port r with Some n => n | None => default_port end in   (* normalizeHostPort *)
    let path := match p_path r with [] => [SLASH] | _ => p_path r end in
    let differs := negb (str_eqb (norm host) (norm (o_host cur)) && (port =? o_port cur))
                   || negb (Bool.eqb https (o_https cur)) in
    if differs && o_https cur && negb https
    then Err ValueError                                     (* never from https to http *)
    else Ok {| t_https := https;
               (* requester.reinit(hostname=...) happens only when the connector is replaced: another
                  NAME of the same address keeps the old name in the Host header (the repository's
                  testPatronRedirectSimple pins this) *)
               t_host := if differs then host else o_host cur;
               t_port := port; t_path := path;
               t_query := p_query r; t_reconnect := differs |}.

  Definition redirect (cur : origin) (location : str) : result target :=
    decide cur (resolve cur (urlsplit location)).

  (* following a whole chain of Locations from an origin: the requests reissued, or the refusal *)
  Definition origin_of (t : target) : origin :=
    {| o_https := t_https t; o_host := t_host t; o_port := t_port t; o_path := t_path t |}.

  Fixpoint follow (cur : origin) (locs : list str) : list target * option err :=
    match locs with
    | [] => ([], None)
    | l :: ls => match redirect cur l with
                 | Err e => ([], Some e)
                 | Ok t => let '(ts, e) := follow (origin_of t) ls in (t :: ts, e)
                 end
    end.
End Decision.

(* ---------------------------------------------------------------- Part 3: serviceResponse *)

(* a response as Patron files it: status, an identifying tag, and the redirects it carries *)
Record response := { rs_status : Z; rs_tag : Z; rs_redirects : list (Z * Z) }.

Definition is_redirect_status (s : Z) : bool :=
  (s =? 300) || (s =? 301) || (s =? 302) || (s =? 303) || (s =? 307).

Record patron := {
  redirects : list (Z * Z);     (* Patron.redirects: (status, tag) of pending redirect responses *)
  responses : list response;    (* Patron.responses                                             *)
  waited : bool
}.

(* Patron.serviceResponse once a response (status, tag) has been parsed completely while waited;
   ok = Patron.redirect() did not raise *)
Definition service_response (redirectable : bool) (p : patron) (status tag : Z) : patron :=
  if redirectable && is_redirect_status status
  then {| redirects := redirects p ++ [(status, tag)]; responses := responses p; waited := true |}
  else {| redirects := [];
          responses := responses p ++ [{| rs_status := status; rs_tag := tag; rs_redirects := redirects p |}];
          waited := false |}.

Definition service_all (redirectable : bool) (p : patron) (rs : list (Z * Z)) : patron :=
  fold_left (fun p r => service_response redirectable p (fst r) (snd r)) rs p.
