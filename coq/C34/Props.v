(* C34 -- property theorems only.  Each closed by [exact]; Print Assumptions beneath.
   [norm] is aioing.normalizeHost (the OS resolver): an arbitrary function in every theorem. *)
From Coq Require Import List ZArith Bool.
Import ListNotations.
Require Import V.C34.Model V.C34.Proofs V.C34.Grammar.
Open Scope Z_scope.

(* Where the request is reissued: scheme, port (default 443/80 by scheme), path ('/' when
   empty) and query are those of the resolved Location -- for EVERY split Location; the host
   NAME is the Location's when the connection is replaced and otherwise the current name, which
   then resolves to the same address as the Location's host. *)
Theorem redirect_target : forall norm cur r t, decide norm cur r = Ok t ->
  t_https t = str_eqb (p_scheme r) HTTPS /\
  t_host t = (if t_reconnect t then match p_host r with Some h => h | None => [] end else o_host cur) /\
  norm (t_host t) = norm (match p_host r with Some h => h | None => [] end) /\
  t_port t = match p_port r with Some n => n | None => if str_eqb (p_scheme r) HTTPS then 443 else 80 end /\
  t_path t = match p_path r with [] => [SLASH] | _ => p_path r end /\
  t_query t = p_query r.
Proof. exact decide_ok_fields. Qed.
Print Assumptions redirect_target.

(* A relative Location (no authority) keeps scheme, host and port of the redirected request, is
   never refused and does not replace the connection; an absolute path replaces the path, a
   relative one is merged with the directory of the current path, an empty one keeps it. *)
Theorem relative_location_same_origin : forall norm cur r, p_netloc r = false ->
  exists t, decide norm cur (resolve cur r) = Ok t /\
            t_https t = o_https cur /\ t_host t = o_host cur /\ t_port t = o_port cur /\
            t_reconnect t = false /\ t_query t = p_query r /\
            t_path t = match (match p_path r with
                              | [] => o_path cur
                              | c :: _ => if c =? SLASH then p_path r else dir_of (o_path cur) ++ p_path r
                              end) with [] => [SLASH] | x => x end.
Proof. exact relative_same_origin. Qed.
Print Assumptions relative_location_same_origin.

(* never from https to http: a secure client only ever reissues to https ... *)
Theorem no_downgrade : forall norm cur r t,
  o_https cur = true -> decide norm cur r = Ok t -> t_https t = true.
Proof. exact decide_no_downgrade. Qed.
Print Assumptions no_downgrade.

(* ... a non-https Location is refused with ValueError, and nothing else is ever refused ... *)
Theorem downgrade_refused : forall norm cur r,
  o_https cur = true -> str_eqb (p_scheme r) HTTPS = false -> decide norm cur r = Err ValueError.
Proof. exact decide_downgrade_refused. Qed.
Print Assumptions downgrade_refused.

Theorem only_downgrade_refused : forall norm cur r,
  (o_https cur = false \/ str_eqb (p_scheme r) HTTPS = true) -> exists t, decide norm cur r = Ok t.
Proof. exact decide_ok_otherwise. Qed.
Print Assumptions only_downgrade_refused.

(* ... along a chain of ANY length. *)
Theorem no_downgrade_along_chain : forall norm locs cur ts e,
  o_https cur = true -> follow norm cur locs = (ts, e) -> Forall (fun t => t_https t = true) ts.
Proof. exact follow_no_downgrade. Qed.
Print Assumptions no_downgrade_along_chain.

(* the connection is replaced iff resolved host address, port or scheme differ *)
Theorem reconnect_iff_ha_or_scheme_differs : forall norm cur r t, decide norm cur r = Ok t ->
  (t_reconnect t = true <->
   (norm (t_host t) <> norm (o_host cur) \/ t_port t <> o_port cur \/ t_https t <> o_https cur)).
Proof. exact decide_reconnect_iff. Qed.
Print Assumptions reconnect_iff_ha_or_scheme_differs.

(* Bookkeeping of Patron.serviceResponse for a chain of ANY length: k redirect responses then a
   non-redirect response leave exactly one more response in .responses, carrying the k redirect
   responses in arrival order; .redirects is empty again and .waited is cleared. *)
Theorem chain_in_order : forall rs fs ft p,
  Forall (fun r => is_redirect_status (fst r) = true) rs ->
  is_redirect_status fs = false ->
  service_all true p (rs ++ [(fs, ft)]) =
  {| redirects := [];
     responses := responses p ++ [{| rs_status := fs; rs_tag := ft; rs_redirects := redirects p ++ rs |}];
     waited := false |}.
Proof. exact chain_in_order_gen. Qed.
Print Assumptions chain_in_order.

(* SEVERAL requests, one after the other, on ONE Patron (any number, any chain lengths): every
   delivered response carries exactly ITS OWN request's redirect responses, in arrival order -- no
   chain leaks into a later request's response. *)
Theorem each_response_carries_its_own_chain : forall chains p, redirects p = [] -> Forall chain_ok chains ->
  service_all true p (flatten_chains chains) =
  {| redirects := [];
     responses := responses p ++
                  map (fun c => {| rs_status := fst (snd c); rs_tag := snd (snd c); rs_redirects := fst c |}) chains;
     waited := match chains with [] => waited p | _ => false end |}.
Proof. exact chains_in_order_gen. Qed.
Print Assumptions each_response_carries_its_own_chain.

(* while redirect responses keep arriving nothing is delivered and the client keeps waiting *)
Theorem redirects_are_not_delivered : forall rs p,
  Forall (fun r => is_redirect_status (fst r) = true) rs ->
  service_all true p rs =
  match rs with
  | [] => p
  | _ => {| redirects := redirects p ++ rs; responses := responses p; waited := true |}
  end.
Proof. exact service_all_redirects. Qed.
Print Assumptions redirects_are_not_delivered.

(* On Location STRINGS.  An absolute Location scheme://host[:port][/path][?query] (any scheme of
   scheme characters starting with a letter, any host without ':/?#', any path that is empty or
   starts with '/', any query without '#') is reissued to exactly its own scheme (https iff the
   lower-cased scheme is "https"), host address, port (default 443/80), path ('/' if empty) and
   query. *)
Theorem redirect_absolute_location : forall norm cur sch host ps path q t,
  wf_scheme sch -> host <> [] -> no [COLON; SLASH; QUEST; HASH] host ->
  (forall p, ps = Some p -> no [SLASH; QUEST; HASH] p) -> wf_path path ->
  (forall x, q = Some x -> no [HASH] x) ->
  redirect norm cur (render_abs sch host ps path q) = Ok t ->
  t_https t = str_eqb (lower_str sch) HTTPS /\
  norm (t_host t) = norm (lower_str host) /\
  t_port t = match (match ps with Some p => parse_port p | None => None end) with
             | Some n => n
             | None => if str_eqb (lower_str sch) HTTPS then 443 else 80
             end /\
  t_path t = match path with [] => [SLASH] | _ => path end /\
  t_query t = match q with Some x => x | None => [] end.
Proof. exact redirect_abs. Qed.
Print Assumptions redirect_absolute_location.

(* A path reference path[?query] (no ':' '?' '#' in the path, not starting with "//") is always
   followed, on the same connection, to the same scheme, host and port. *)
Theorem redirect_relative_location : forall norm cur path q,
  no [COLON; QUEST; HASH] path -> starts_slashslash path = false ->
  (forall x, q = Some x -> no [HASH; COLON] x) ->
  exists t, redirect norm cur (render_rel path q) = Ok t /\
            t_https t = o_https cur /\ t_host t = o_host cur /\ t_port t = o_port cur /\
            t_reconnect t = false /\ t_query t = match q with Some x => x | None => [] end.
Proof. exact redirect_rel. Qed.
Print Assumptions redirect_relative_location.

(* non-vacuity: urlsplit/resolve/decide on concrete Locations *)
Definition s (l : list Z) := l.
Example c34_examples :
  let idn := fun h : str => h in
  let cur := {| o_https := false; o_host := [49;50;55;46;48;46;48;46;49]; o_port := 6101; o_path := [47;100;47;97] |} in
  (* "/rel?y=2" *)
  (exists t, redirect idn cur [47;114;101;108;63;121;61;50] = Ok t /\ t_reconnect t = false /\
             t_port t = 6101 /\ t_path t = [47;114;101;108] /\ t_query t = [121;61;50]) /\
  (* "rel" -> /d/rel *)
  (exists t, redirect idn cur [114;101;108] = Ok t /\ t_path t = [47;100;47;114;101;108]) /\
  (* "https://h/x" -> port 443, reconnect *)
  (exists t, redirect idn cur [104;116;116;112;115;58;47;47;104;47;120] = Ok t /\ t_https t = true /\
             t_port t = 443 /\ t_reconnect t = true /\ t_host t = [104]) /\
  (* https client, "http://h/x" -> refused *)
  redirect idn {| o_https := true; o_host := [104]; o_port := 443; o_path := [47] |}
           [104;116;116;112;58;47;47;104;47;120] = Err ValueError.
Proof. vm_compute. repeat split; eexists; repeat split; reflexivity. Qed.
