From Coq Require Import List ZArith QArith Bool String Lqa.
Import ListNotations.
Require Import V.Lib.C42_StoreTimer V.Lib.C42_StoreTimerFacts V.C38.Model.
Open Scope Q_scope.

(* ------------------------------------------------------------ constructor parameters *)
Definition binds (params : list string) (e : env) : Prop :=
  forall n, memS n params = true -> exists v, lookup e n = Some v.

Definition given (e : env) (cls : string -> Q) (a : asrc) : Q :=
  match lookup e (a_test a) with Some (Some v) => v | _ => cls (a_default a) end.

Lemma eval_assign_ok params e cls a : wellformed params a = true -> binds params e ->
  eval_assign e cls a = inr (given e cls a).
Proof.
  unfold wellformed, eval_assign, given. intros H Hb. apply andb_true_iff in H. destruct H as [He Hm].
  apply String.eqb_eq in He. destruct (Hb _ Hm) as [v Hv]. rewrite He, Hv.
  destruct v; reflexivity.
Qed.

(* ------------------------------------------------------------ process, one call *)
Lemma timed_out_iff x stamp :
  timed_out x stamp = true <-> 0 < x_timeout x /\ s_stop (x_timer x) <= stamp.
Proof.
  unfold timed_out. rewrite andb_true_iff, qltb_true. cbn. rewrite qleb_true. tauto.
Qed.

Lemma redo_due_iff x stamp :
  redo_due x stamp = true <-> 0 < x_redo x /\ s_stop (x_rtimer x) <= stamp.
Proof.
  unfold redo_due. rewrite andb_true_iff, qltb_true. cbn. rewrite qleb_true. tauto.
Qed.

Lemma process_spec x stamp :
  (timed_out x stamp = true ->
     x_process x stamp = (set_flags x true true, [])) /\
  (timed_out x stamp = false -> redo_due x stamp = true ->
     x_process x stamp = (set_rtimer x (st_now (x_rtimer x) stamp),
                          match x_tx x with Some m => [m] | None => [] end)) /\
  (timed_out x stamp = false -> redo_due x stamp = false -> x_process x stamp = (x, [])).
Proof.
  unfold x_process. repeat split; intros.
  - rewrite H. reflexivity.
  - rewrite H, H0. reflexivity.
  - rewrite H, H0. reflexivity.
Qed.

Lemma process_keeps x stamp x' sent : x_process x stamp = (x', sent) ->
  x_timeout x' = x_timeout x /\ x_redo x' = x_redo x /\ x_timer x' = x_timer x /\ x_tx x' = x_tx x /\
  s_dur (x_rtimer x') = s_dur (x_rtimer x) /\ (List.length sent <= 1)%nat /\
  (forall m, In m sent -> x_tx x = Some m) /\
  (x_failed x' = true <-> x_failed x = true \/ timed_out x stamp = true) /\
  (x_done x' = true <-> x_done x = true \/ timed_out x stamp = true).
Proof.
  unfold x_process. destruct (timed_out x stamp) eqn:Et.
  - intros H; inversion H; subst; cbn. repeat split; auto; try tauto.
  - destruct (redo_due x stamp) eqn:Er; intros H; inversion H; subst; cbn.
    + assert (Hl : (List.length (match x_tx x with Some m => [m] | None => [] end) <= 1)%nat)
        by (destruct (x_tx x); cbn; auto).
      assert (Hm : forall m, In m (match x_tx x with Some m => [m] | None => [] end) -> x_tx x = Some m).
      { intros m Hm. destruct (x_tx x); cbn in Hm; [destruct Hm as [->|[]]; reflexivity | destruct Hm]. }
      repeat split; auto; try tauto; intros [?|?]; try assumption; discriminate.
    + repeat split; auto; try tauto; intros [?|?]; try assumption; discriminate.
Qed.

(* ------------------------------------------------------------ the driver *)
Fixpoint qsum (l : list Q) : Q := match l with [] => 0 | d :: r => d + qsum r end.

Lemma qsum_nonneg l : Forall (Qle 0) l -> 0 <= qsum l.
Proof. induction 1; cbn; lraq. Qed.

Lemma drive_done sched : forall x stamp, x_done x = true ->
  exists sf, drive x stamp sched = (x, sf, []) /\ sf == stamp + qsum sched.
Proof.
  induction sched as [|d r IH]; intros x stamp Hd; cbn [drive qsum].
  - eexists. split; [reflexivity | lraq].
  - rewrite Hd. destruct (IH x (qadd stamp d) Hd) as (sf & H & Hs). exists sf. split; [exact H | lraq].
Qed.

Lemma drive_stamp sched : forall x stamp xf sf log, drive x stamp sched = (xf, sf, log) ->
  sf == stamp + qsum sched.
Proof.
  induction sched as [|d r IH]; intros x stamp xf sf log H; cbn [drive qsum] in *.
  - inversion H; subst. lraq.
  - destruct (x_done x).
    + apply IH in H. lraq.
    + destruct (x_process x (qadd stamp d)) as [x' sent].
      destruct (drive x' (qadd stamp d) r) as [[xf' sf'] log'] eqn:E. inversion H; subst.
      apply IH in E. lraq.
Qed.

(* a timeout <= 0 never expires: whatever the schedule, the exchange does not fail *)
Lemma drive_zero_timeout sched : forall x stamp xf sf log, x_timeout x <= 0 -> x_failed x = false ->
  drive x stamp sched = (xf, sf, log) -> x_failed xf = false.
Proof.
  induction sched as [|d r IH]; intros x stamp xf sf log Ht Hf H; cbn [drive] in H.
  - inversion H; subst. exact Hf.
  - destruct (x_done x).
    + eapply IH; eauto.
    + destruct (x_process x (qadd stamp d)) as [x' sent] eqn:Ep.
      destruct (drive x' (qadd stamp d) r) as [[xf' sf'] log'] eqn:E. inversion H; subst.
      destruct (process_keeps _ _ _ _ Ep) as (K1 & _ & _ & _ & _ & _ & _ & Kf & _).
      eapply IH; [rewrite K1; exact Ht | | exact E].
      destruct (x_failed x') eqn:Ef; [|reflexivity]. exfalso.
      destruct (proj1 Kf eq_refl) as [Hc|Hc]; [congruence|].
      apply timed_out_iff in Hc. lraq.
Qed.

(* with a positive timeout the exchange fails exactly when the stamp reaches timer.stop
   at some processing step; the stamps being non-decreasing, that is: the schedule is not
   empty and the final stamp has reached timer.stop *)
Lemma drive_fails_iff sched : forall x stamp xf sf log,
  Forall (Qle 0) sched -> x_done x = false -> x_failed x = false -> 0 < x_timeout x ->
  drive x stamp sched = (xf, sf, log) ->
  (x_failed xf = true <-> sched <> [] /\ s_stop (x_timer x) <= sf).
Proof.
  induction sched as [|d r IH]; intros x stamp xf sf log Hs Hd Hf Ht H; cbn [drive] in H.
  - inversion H; subst. rewrite Hf. split; [discriminate | intros [Hc _]; congruence].
  - rewrite Hd in H. inversion Hs as [|? ? Hd0 Hr]; subst.
    destruct (x_process x (qadd stamp d)) as [x' sent] eqn:Ep.
    destruct (drive x' (qadd stamp d) r) as [[xf' sf'] log'] eqn:E. inversion H; subst.
    pose proof (drive_stamp _ _ _ _ _ _ E) as Hsf. pose proof (qsum_nonneg _ Hr) as Hq.
    destruct (process_keeps _ _ _ _ Ep) as (K1 & _ & K3 & _ & _ & _ & _ & Kf & Kd).
    destruct (timed_out x (qadd stamp d)) eqn:Eto.
    + (* fails now *)
      assert (Hd' : x_done x' = true) by (apply Kd; right; reflexivity).
      assert (Hf' : x_failed x' = true) by (apply Kf; right; reflexivity).
      destruct (drive_done r x' (qadd stamp d) Hd') as (sf2 & Hdr & _). rewrite Hdr in E.
      inversion E; subst. rewrite Hf'. split; [|reflexivity]. intros _. split; [discriminate|].
      apply timed_out_iff in Eto. lraq.
    + assert (Hd' : x_done x' = false).
      { destruct (x_done x') eqn:Ed; [|reflexivity]. destruct (proj1 Kd eq_refl); congruence. }
      assert (Hf' : x_failed x' = false).
      { destruct (x_failed x') eqn:Ed; [|reflexivity]. destruct (proj1 Kf eq_refl); congruence. }
      assert (Ht' : 0 < x_timeout x') by (rewrite K1; exact Ht).
      rewrite (IH x' _ _ _ _ Hr Hd' Hf' Ht' E). rewrite K3. split.
      * intros [_ Hle]. split; [discriminate | exact Hle].
      * intros [_ Hle]. split; [|exact Hle]. intros ->. cbn in E. inversion E; subst.
        assert (Hn : ~ (0 < x_timeout x /\ s_stop (x_timer x) <= qadd stamp d)).
        { rewrite <- timed_out_iff. congruence. }
        apply Hn. split; [exact Ht | exact Hle].
Qed.

(* retransmissions: [spaced r l] = consecutive stamps in l are at least r apart *)
Fixpoint spaced (r : Q) (l : list Q) : Prop :=
  match l with
  | a :: ((b :: _) as t) => a + r <= b /\ spaced r t
  | _ => True
  end.

Lemma spaced_weaken r a a' l : 0 <= r -> a <= a' -> spaced r (a' :: l) -> spaced r (a :: l).
Proof. intros Hr Ha. destruct l as [|b t]; cbn; [auto|]. intros [H1 H2]. split; [lraq | exact H2]. Qed.

Definition rinv (x : exch) : Prop :=
  s_stop (x_rtimer x) == s_start (x_rtimer x) + s_dur (x_rtimer x) /\ s_dur (x_rtimer x) == x_redo x.

Lemma drive_redo sched : forall x stamp xf sf log, rinv x -> 0 < x_redo x ->
  drive x stamp sched = (xf, sf, log) ->
  spaced (x_redo x) (s_start (x_rtimer x) :: map fst log) /\
  Forall (fun p => x_tx x = Some (snd p)) log.
Proof.
  induction sched as [|d r IH]; intros x stamp xf sf log Hi Hr H; cbn [drive] in H.
  - inversion H; subst. cbn. auto.
  - destruct (x_done x).
    + eapply IH; eauto.
    + destruct (x_process x (qadd stamp d)) as [x' sent] eqn:Ep.
      destruct (drive x' (qadd stamp d) r) as [[xf' sf'] log'] eqn:E. inversion H; subst. clear H.
      destruct (process_spec x (qadd stamp d)) as (P1 & P2 & P3).
      destruct Hi as [I1 I2].
      destruct (timed_out x (qadd stamp d)) eqn:Eto.
      * rewrite (P1 eq_refl) in Ep. inversion Ep; subst. cbn [map app].
        eapply (IH (set_flags x true true)); [split; cbn; assumption | exact Hr | exact E].
      * destruct (redo_due x (qadd stamp d)) eqn:Erd.
        -- rewrite (P2 eq_refl eq_refl) in Ep. inversion Ep; subst. clear Ep.
           apply redo_due_iff in Erd. destruct Erd as [_ Hle].
           assert (Hi' : rinv (set_rtimer x (st_now (x_rtimer x) (qadd stamp d)))).
           { split; cbn; [lraq | exact I2]. }
           destruct (IH _ _ _ _ _ Hi' Hr E) as [Hsp Hall]. cbn in Hsp, Hall.
           destruct (x_tx x) as [m|] eqn:Etx; cbn [map app fst].
           ++ split.
              ** cbn. split; [lraq | exact Hsp].
              ** constructor; [reflexivity | exact Hall].
           ++ split; [|exact Hall].
              eapply spaced_weaken; [lraq | | exact Hsp]. lraq.
        -- rewrite (P3 eq_refl eq_refl) in Ep. inversion Ep; subst. cbn [map app].
           eapply IH; [split; assumption | exact Hr | exact E].
Qed.

(* the started exchange *)
Lemma started_spec dt dr stamp0 timeout redo m :
  let x := started dt dr stamp0 timeout redo m in
  x_done x = false /\ x_failed x = false /\ x_tx x = Some m /\
  x_timeout x = match timeout with Some v => v | None => dt end /\
  x_redo x = match redo with Some v => v | None => dr end /\
  s_start (x_timer x) = stamp0 /\ s_stop (x_timer x) == stamp0 + qabs (x_timeout x) /\
  s_start (x_rtimer x) = stamp0 /\ s_stop (x_rtimer x) == stamp0 + qabs (x_redo x) /\
  s_dur (x_rtimer x) = qabs (x_redo x).
Proof.
  unfold started. cbn. repeat split; lraq.
Qed.

(* ------------------------------------------------------------ the driver IS the walk *)
Lemma drive_is_walk sched : forall x stamp xf sf log m,
  x_done x = false -> x_failed x = false -> x_tx x = Some m ->
  s_stop (x_rtimer x) = qadd (s_start (x_rtimer x)) (s_dur (x_rtimer x)) ->
  drive x stamp sched = (xf, sf, log) ->
  let W := walk (s_stop (x_timer x)) (x_timeout x) (x_redo x) (s_dur (x_rtimer x))
                (s_start (x_rtimer x)) stamp sched in
  x_failed xf = fst W /\ x_done xf = fst W /\ log = map (fun s => (s, m)) (snd W).
Proof.
  induction sched as [|d r IH]; intros x stamp xf sf log m Hd Hf Htx Hsh H; cbn [drive walk] in *.
  - inversion H; subst. cbn. auto.
  - rewrite Hd in H.
    destruct (process_spec x (qadd stamp d)) as (P1 & P2 & P3).
    change (qltb 0 (x_timeout x) && qleb (s_stop (x_timer x)) (qadd stamp d))
      with (timed_out x (qadd stamp d)).
    destruct (timed_out x (qadd stamp d)) eqn:Eto.
    + rewrite (P1 eq_refl) in H.
      destruct (drive_done r (set_flags x true true) (qadd stamp d) eq_refl) as (sf2 & Hdr & _).
      rewrite Hdr in H. inversion H; subst. cbn. auto.
    + assert (Erd : redo_due x (qadd stamp d) =
                    qltb 0 (x_redo x) && qleb (qadd (s_start (x_rtimer x)) (s_dur (x_rtimer x))) (qadd stamp d)).
      { unfold redo_due. cbn. rewrite Hsh. reflexivity. }
      rewrite <- Erd. destruct (redo_due x (qadd stamp d)) eqn:Er.
      * rewrite (P2 eq_refl eq_refl), Htx in H.
        destruct (drive (set_rtimer x (st_now (x_rtimer x) (qadd stamp d))) (qadd stamp d) r)
          as [[xf' sf'] log'] eqn:E.
        specialize (IH (set_rtimer x (st_now (x_rtimer x) (qadd stamp d))) (qadd stamp d) xf' sf' log' m
                       Hd Hf Htx eq_refl E). cbn in IH.
        inversion H; subst. clear H.
        destruct (walk (s_stop (x_timer x)) (x_timeout x) (x_redo x) (s_dur (x_rtimer x))
                       (qadd stamp d) (qadd stamp d) r) as [f l].
        cbn in *. destruct IH as (A & B & C). subst log'. auto.
      * rewrite (P3 eq_refl eq_refl) in H.
        destruct (drive x (qadd stamp d) r) as [[xf' sf'] log'] eqn:E. inversion H; subst. clear H.
        cbn [app map]. exact (IH _ _ _ _ _ m Hd Hf Htx Hsh E).
Qed.

Definition tof (dflt : Q) (o : option Q) : Q := match o with Some v => v | None => dflt end.

Lemma lifetime_is_walk dt dr stamp0 timeout redo m sched xf sf log :
  lifetime dt dr stamp0 timeout redo m sched = (xf, sf, log) ->
  let T := tof dt timeout in let R := tof dr redo in
  let W := walk (qadd stamp0 (qabs T)) T R (qabs R) stamp0 stamp0 sched in
  x_failed xf = fst W /\ x_done xf = fst W /\ log = map (fun s => (s, m)) (snd W).
Proof.
  unfold lifetime. intros H.
  exact (drive_is_walk sched (started dt dr stamp0 timeout redo m) stamp0 xf sf log m
           eq_refl eq_refl eq_refl eq_refl H).
Qed.

Lemma lifetime_fails_iff dt dr stamp0 timeout redo m sched xf sf log :
  Forall (Qle 0) sched -> 0 < tof dt timeout ->
  lifetime dt dr stamp0 timeout redo m sched = (xf, sf, log) ->
  (x_failed xf = true <-> sched <> [] /\ stamp0 + tof dt timeout <= stamp0 + qsum sched).
Proof.
  unfold lifetime. intros Hs Ht H.
  destruct (started_spec dt dr stamp0 timeout redo m) as (S1 & S2 & _ & S4 & _ & _ & S7 & _).
  cbv zeta in *. unfold tof in *.
  assert (Ht' : 0 < x_timeout (started dt dr stamp0 timeout redo m)) by (rewrite S4; exact Ht).
  rewrite (drive_fails_iff sched _ _ _ _ _ Hs S1 S2 Ht' H).
  pose proof (drive_stamp _ _ _ _ _ _ H) as Hsf. rewrite S4 in S7.
  pose proof (qabs_id _ (Qlt_le_weak _ _ Ht)) as Ha.
  split; intros [A B]; (split; [exact A|]); lraq.
Qed.

Lemma lifetime_redo dt dr stamp0 timeout redo m sched xf sf log :
  0 < tof dr redo -> lifetime dt dr stamp0 timeout redo m sched = (xf, sf, log) ->
  spaced (tof dr redo) (stamp0 :: map fst log) /\ Forall (fun p => snd p = m) log.
Proof.
  unfold lifetime. intros Hr H.
  destruct (started_spec dt dr stamp0 timeout redo m) as (_ & _ & S3 & _ & S5 & _ & _ & S8 & S9 & S10).
  cbv zeta in *. unfold tof in *.
  pose proof (qabs_id _ (Qlt_le_weak _ _ Hr)) as Ha.
  assert (Hi : rinv (started dt dr stamp0 timeout redo m)).
  { split; [rewrite S8; exact S9 | rewrite S10, S5; exact Ha]. }
  assert (Hr' : 0 < x_redo (started dt dr stamp0 timeout redo m)) by (rewrite S5; exact Hr).
  destruct (drive_redo sched _ _ _ _ _ Hi Hr' H) as [A B]. rewrite S5, S8 in A. split; [exact A|].
  eapply Forall_impl; [|exact B]. intros p Hp. cbv beta in Hp. rewrite S3 in Hp. congruence.
Qed.

Lemma lifetime_zero_timeout dt dr stamp0 timeout redo m sched xf sf log :
  tof dt timeout <= 0 -> lifetime dt dr stamp0 timeout redo m sched = (xf, sf, log) -> x_failed xf = false.
Proof.
  unfold lifetime. intros Ht H.
  destruct (started_spec dt dr stamp0 timeout redo m) as (_ & S2 & _ & S4 & _).
  cbv zeta in *. unfold tof in *.
  eapply drive_zero_timeout; [|exact S2|exact H]. rewrite S4. exact Ht.
Qed.
