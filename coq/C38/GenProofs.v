(* facts about the GENERATED description of Exchange.__init__ (coq/gen/C38_Ctor.v) *)
From Coq Require Import List QArith Bool String.
Import ListNotations.
Require Import V.Lib.C42_StoreTimer V.C38.Model V.C38.Proofs V.gen.C38_Ctor.

(* finite check on the generated data: the value name and the tested name coincide and are
   parameters, for both assignments *)
Lemma gen_wellformed : wellformed gen_params gen_timeout_src = true /\ wellformed gen_params gen_redo_src = true.
Proof. vm_compute. split; reflexivity. Qed.

Lemma ctor_total_gen : forall (e : env) (cls : string -> Q), binds gen_params e ->
  eval_assign e cls gen_timeout_src = inr (given e cls gen_timeout_src) /\
  eval_assign e cls gen_redo_src = inr (given e cls gen_redo_src).
Proof.
  intros e cls Hb. split; eapply eval_assign_ok; try exact Hb; apply gen_wellformed.
Qed.
