(* C38 -- ioflo/aio/proto/exchanging.py : Exchange.__init__ timers, process, send, start,
   finish.  Hand model (tie H), definitions only.  Time = Q; StoreTimer from
   V.Lib.C42_StoreTimer; the stack's stamper is a Stamper (stamp is always a number).

   Messages are interned as Z by the harness.  The stack double records transmit(tx).

   The constructor is modelled AS FIXED by fixes/C38-exchange-redo-timeout.patch
   (the signature spelled the parameter `redoTimout`, the body read `redoTimeout`:
   NameError whenever a redo timeout was passed).  The name-binding side of the
   constructor (every name read by the two timeout assignments is bound) is NOT hand
   modelled: it is generated from the source into coq/gen/C38_Ctor.v on every run.      *)
From Coq Require Import List ZArith QArith Bool String.
Import ListNotations.
Require Import V.Lib.C42_StoreTimer.
Open Scope Q_scope.

Record exch := {
  x_timeout : Q;          (* .timeout  (raw: its sign matters in process) *)
  x_redo : Q;             (* .redoTimeout *)
  x_timer : stimer;       (* .timer     = StoreTimer(stamper, duration=timeout) *)
  x_rtimer : stimer;      (* .redoTimer = StoreTimer(stamper, duration=redoTimeout) *)
  x_tx : option Z;        (* .tx latest/next transmitted *)
  x_done : bool;
  x_failed : bool
}.

(* Exchange(stack, timeout=, redoTimeout=, tx=) at stamper.stamp = stamp.
   dt, dr : the class attributes Timeout / RedoTimeout (Exchange 2.0/0.5, Exchangent 0.5/0.1) *)
Definition x_ctor (dt dr : Q) (stamp : Q) (timeout redo : option Q) (tx : option Z) : exch :=
  let t := match timeout with Some v => v | None => dt end in
  let r := match redo with Some v => v | None => dr end in
  {| x_timeout := t; x_redo := r;
     x_timer := st_ctor (Some stamp) t; x_rtimer := st_ctor (Some stamp) r;
     x_tx := tx; x_done := false; x_failed := false |}.

(* StoreTimer.restart() with no arguments at a numeric stamp *)
Definition st_now (t : stimer) (stamp : Q) : stimer :=
  {| s_start := stamp; s_stop := qadd stamp (s_dur t); s_dur := s_dur t |}.

Definition set_flags (x : exch) (d f : bool) : exch :=
  {| x_timeout := x_timeout x; x_redo := x_redo x; x_timer := x_timer x; x_rtimer := x_rtimer x;
     x_tx := x_tx x; x_done := d; x_failed := f |}.
Definition set_rtimer (x : exch) (t : stimer) : exch :=
  {| x_timeout := x_timeout x; x_redo := x_redo x; x_timer := x_timer x; x_rtimer := t;
     x_tx := x_tx x; x_done := x_done x; x_failed := x_failed x |}.
Definition set_timers (x : exch) (t r : stimer) : exch :=
  {| x_timeout := x_timeout x; x_redo := x_redo x; x_timer := t; x_rtimer := r;
     x_tx := x_tx x; x_done := x_done x; x_failed := x_failed x |}.
Definition set_tx (x : exch) (m : option Z) : exch :=
  {| x_timeout := x_timeout x; x_redo := x_redo x; x_timer := x_timer x; x_rtimer := x_rtimer x;
     x_tx := m; x_done := x_done x; x_failed := x_failed x |}.

Definition timed_out (x : exch) (stamp : Q) : bool :=
  qltb 0 (x_timeout x) && st_expired (x_timer x) (Some stamp).
Definition redo_due (x : exch) (stamp : Q) : bool :=
  qltb 0 (x_redo x) && st_expired (x_rtimer x) (Some stamp).

(* Exchange.process() : returns the new state and the messages queued on the stack.
   The model never looks at a message: "a .tx is present" is [Some _], i.e. Python [self.tx is not None]
   (NOT truthiness -- an empty Packet(), b'' or an empty odict is a present message and is retransmitted;
   the harness hands such present-but-falsy objects to the implementation, see props/C38/check.py Msgs). *)
Definition x_process (x : exch) (stamp : Q) : exch * list Z :=
  if timed_out x stamp then (set_flags x true true, [])               (* fail(): failed, finish(): done *)
  else if redo_due x stamp then
    (set_rtimer x (st_now (x_rtimer x) stamp),
     match x_tx x with Some m => [m] | None => [] end)
  else (x, []).

(* Exchange.send(tx) : prepSend + transmit; None result = ValueError (no .tx) *)
Definition x_send (x : exch) (m : option Z) : option (exch * list Z) :=
  let x1 := match m with Some _ => set_tx x m | None => x end in
  match x_tx x1 with
  | Some v => Some (x1, [v])
  | None => None
  end.

Inductive op :=
| Adv (d : Q)               (* stack.stamper.advance(d) *)
| Proc                      (* exchange.process() *)
| Send (m : option Z)       (* exchange.send(m) *)
| Transmit (m : option Z)   (* exchange.transmit(m): records m as .tx (if given), queues .tx on the stack *)
| Message (m : option Z)    (* exchange.message(m): same through stack.message *)
| Start (m : option Z)      (* Exchanger.start(m): prepStart, both timers restart, send(m) *)
| Finish.                   (* exchange.finish() *)

(* per-op observation: messages queued by the op, done, failed, raised ValueError *)
Definition obs := (list Z * bool * bool * bool)%type.

Definition x_step (x : exch) (stamp : Q) (o : op) : exch * Q * obs :=
  match o with
  | Adv d => (x, qadd stamp d, ([], x_done x, x_failed x, false))
  | Proc => let '(x', s) := x_process x stamp in (x', stamp, (s, x_done x', x_failed x', false))
  | Send m =>
      match x_send x m with
      | Some (x', s) => (x', stamp, (s, x_done x', x_failed x', false))
      | None => (x, stamp, ([], x_done x, x_failed x, true))
      end
  | Transmit m | Message m =>     (* same effect as send: the given message becomes the latest .tx *)
      match x_send x m with
      | Some (x', s) => (x', stamp, (s, x_done x', x_failed x', false))
      | None => (x, stamp, ([], x_done x, x_failed x, true))
      end
  | Start m =>
      let x1 := set_timers (set_flags x false false)
                           (st_now (x_timer x) stamp) (st_now (x_rtimer x) stamp) in
      match x_send x1 m with
      | Some (x', s) => (x', stamp, (s, x_done x', x_failed x', false))
      | None => (x1, stamp, ([], false, false, true))
      end
  | Finish => let x' := set_flags x true (x_failed x) in (x', stamp, ([], true, x_failed x, false))
  end.

Fixpoint x_runfrom (x : exch) (stamp : Q) (ops : list op) : list obs * (exch * Q) :=
  match ops with
  | [] => ([], (x, stamp))
  | o :: r => let '(x', s', ob) := x_step x stamp o in
              let '(l, fin) := x_runfrom x' s' r in (ob :: l, fin)
  end.

(* whole history: constructor at stamp0, ops; returns observations + final timer fields
   (timer.start, timer.stop, redoTimer.start, redoTimer.stop) *)
Definition x_run (dt dr stamp0 : Q) (timeout redo : option Q) (tx : option Z) (ops : list op)
  : list obs * list Q :=
  let '(l, (x, _)) := x_runfrom (x_ctor dt dr stamp0 timeout redo tx) stamp0 ops in
  (l, [s_start (x_timer x); s_stop (x_timer x); s_start (x_rtimer x); s_stop (x_rtimer x)]).

(* The driver of the property: the stamp advances by the schedule's steps and the exchange is
   processed after every step while it is not finished.  Returns the final state, the final
   stamp and the log of (stamp, message) retransmissions. *)
Fixpoint drive (x : exch) (stamp : Q) (sched : list Q) : exch * Q * list (Q * Z) :=
  match sched with
  | [] => (x, stamp, [])
  | d :: r =>
      let s1 := qadd stamp d in
      if x_done x then drive x s1 r
      else let '(x', sent) := x_process x s1 in
           let '(xf, sf, log) := drive x' s1 r in
           (xf, sf, map (fun m => (s1, m)) sent ++ log)
  end.

(* started exchange: Exchanger.start(m) right after construction at stamp0 *)
Definition started (dt dr stamp0 : Q) (timeout redo : option Q) (m : Z) : exch :=
  let '(x, _, _) := x_step (x_ctor dt dr stamp0 timeout redo None) stamp0 (Start (Some m)) in x.

(* The whole lifetime of an exchange: constructed at stamp0, started with message m, then the
   driver above over the schedule. *)
Definition lifetime (dt dr stamp0 : Q) (timeout redo : option Q) (m : Z) (sched : list Q)
  : exch * Q * list (Q * Z) :=
  drive (started dt dr stamp0 timeout redo m) stamp0 sched.

(* The schedule read arithmetically, with no exchange object: walking the processing stamps
   s_i = stamp + d_1 + ... + d_i,
     - the first s_i >= tstop (when T > 0) fails the exchange and ends everything;
     - otherwise an s_i >= last + rdur (when R > 0) is a retransmission stamp and becomes `last`.
   Returns (failed, retransmission stamps). *)
Fixpoint walk (tstop T R rdur last stamp : Q) (sched : list Q) : bool * list Q :=
  match sched with
  | [] => (false, [])
  | d :: r =>
      let s := qadd stamp d in
      if qltb 0 T && qleb tstop s then (true, [])
      else if qltb 0 R && qleb (qadd last rdur) s
           then let '(f, l) := walk tstop T R rdur s s r in (f, s :: l)
           else walk tstop T R rdur last s r
  end.

(* ---- parameter handling of the constructor (instantiated with GENERATED data) -------- *)
(* The translator (props/C38/translate.py) extracts from Exchange.__init__ the parameter
   list and, for `self.timeout = A if B is not None else self.C` and the same statement for
   `self.redoTimeout`, the names A, B, C.  Semantics of such a statement in an environment
   binding exactly the parameters (value None or a number): B is looked up first (unbound:
   NameError); if it is None the class attribute C is used; otherwise A is looked up
   (unbound: NameError; None: the StoreTimer would fail with TypeError). *)
Record asrc := { a_val : string; a_test : string; a_default : string }.

Definition env := list (string * option Q).
Fixpoint lookup (e : env) (n : string) : option (option Q) :=
  match e with
  | [] => None
  | (k, v) :: r => if String.eqb k n then Some v else lookup r n
  end.

Definition eval_assign (e : env) (cls : string -> Q) (a : asrc) : err + Q :=
  match lookup e (a_test a) with
  | None => inl NameError
  | Some None => inr (cls (a_default a))
  | Some (Some _) =>
      match lookup e (a_val a) with
      | None => inl NameError
      | Some None => inl TypeError
      | Some (Some v) => inr v
      end
  end.

Definition memS (n : string) (l : list string) : bool := existsb (String.eqb n) l.
Definition wellformed (params : list string) (a : asrc) : bool :=
  String.eqb (a_val a) (a_test a) && memS (a_test a) params.
