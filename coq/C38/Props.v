(* C38 -- property theorems only.  Each closed by [exact]; Print Assumptions beneath. *)
From Coq Require Import List ZArith QArith Bool String.
Import ListNotations.
Require Import V.Lib.C42_StoreTimer V.Lib.C42_StoreTimerFacts V.C38.Model V.C38.Proofs V.gen.C38_Ctor V.C38.GenProofs.
Open Scope Q_scope.

(* "An exchange can be created with any combination of timeout and redo-timeout settings":
   stated about the GENERATED description of Exchange.__init__ (parameter list and the names
   read by `self.timeout = ...` / `self.redoTimeout = ...`).  In every environment binding the
   parameters (each to None or a number) neither assignment raises NameError/TypeError; the
   value is the parameter when given, else the class default. *)
Theorem ctor_total : forall (e : env) (cls : string -> Q), binds gen_params e ->
  eval_assign e cls gen_timeout_src = inr (given e cls gen_timeout_src) /\
  eval_assign e cls gen_redo_src = inr (given e cls gen_redo_src).
Proof. exact ctor_total_gen. Qed.
Print Assumptions ctor_total.

(* one process() call, any state, any stamp: fail exactly if the (positive) timeout has
   elapsed; otherwise retransmit the latest message (at most one) exactly if the (positive)
   redo interval has elapsed, restarting the redo timer at this stamp; otherwise nothing *)
Theorem process_step_spec : forall x stamp,
  (timed_out x stamp = true -> x_process x stamp = (set_flags x true true, [])) /\
  (timed_out x stamp = false -> redo_due x stamp = true ->
     x_process x stamp = (set_rtimer x (st_now (x_rtimer x) stamp),
                          match x_tx x with Some m => [m] | None => [] end)) /\
  (timed_out x stamp = false -> redo_due x stamp = false -> x_process x stamp = (x, [])).
Proof. exact process_spec. Qed.
Print Assumptions process_step_spec.

Theorem timed_out_exactly : forall x stamp,
  timed_out x stamp = true <-> 0 < x_timeout x /\ s_stop (x_timer x) <= stamp.
Proof. exact timed_out_iff. Qed.
Print Assumptions timed_out_exactly.

Theorem redo_due_exactly : forall x stamp,
  redo_due x stamp = true <-> 0 < x_redo x /\ s_stop (x_rtimer x) <= stamp.
Proof. exact redo_due_iff. Qed.
Print Assumptions redo_due_exactly.

(* ANY schedule of stamp advances, exchange processed after each advance while not finished *)

(* a timeout of zero (or less) never expires *)
Theorem zero_timeout_never_expires : forall sched x stamp xf sf log,
  x_timeout x <= 0 -> x_failed x = false -> drive x stamp sched = (xf, sf, log) -> x_failed xf = false.
Proof. exact drive_zero_timeout. Qed.
Print Assumptions zero_timeout_never_expires.

(* positive timeout, non-negative advances: the exchange has failed at the end exactly when the
   stamp reached timer.stop at a processing step (final stamp >= stop, schedule not empty);
   and the final stamp is the initial one plus the advances *)
Theorem fails_iff_timeout_elapsed : forall sched x stamp xf sf log,
  Forall (Qle 0) sched -> x_done x = false -> x_failed x = false -> 0 < x_timeout x ->
  drive x stamp sched = (xf, sf, log) ->
  (x_failed xf = true <-> sched <> [] /\ s_stop (x_timer x) <= sf).
Proof. exact drive_fails_iff. Qed.
Print Assumptions fails_iff_timeout_elapsed.

Theorem drive_final_stamp : forall sched x stamp xf sf log, drive x stamp sched = (xf, sf, log) ->
  sf == stamp + qsum sched.
Proof. exact drive_stamp. Qed.
Print Assumptions drive_final_stamp.

(* retransmissions: consecutive retransmission stamps (starting from the redo timer's start)
   are at least the redo interval apart -- hence at most one per processing step -- and every
   retransmitted message is the exchange's latest tx *)
Theorem redo_once_per_interval : forall sched x stamp xf sf log,
  (s_stop (x_rtimer x) == s_start (x_rtimer x) + s_dur (x_rtimer x) /\ s_dur (x_rtimer x) == x_redo x) ->
  0 < x_redo x -> drive x stamp sched = (xf, sf, log) ->
  spaced (x_redo x) (s_start (x_rtimer x) :: map fst log) /\
  Forall (fun p => x_tx x = Some (snd p)) log.
Proof. exact drive_redo. Qed.
Print Assumptions redo_once_per_interval.

(* the exchange as left by Exchanger.start(m) right after construction at stamp0 satisfies the
   hypotheses of the theorems above with timer.stop = stamp0 + |timeout| etc. *)
Theorem started_exchange : forall dt dr stamp0 timeout redo m,
  let x := started dt dr stamp0 timeout redo m in
  x_done x = false /\ x_failed x = false /\ x_tx x = Some m /\
  x_timeout x = match timeout with Some v => v | None => dt end /\
  x_redo x = match redo with Some v => v | None => dr end /\
  s_start (x_timer x) = stamp0 /\ s_stop (x_timer x) == stamp0 + qabs (x_timeout x) /\
  s_start (x_rtimer x) = stamp0 /\ s_stop (x_rtimer x) == stamp0 + qabs (x_redo x) /\
  s_dur (x_rtimer x) = qabs (x_redo x).
Proof. exact started_spec. Qed.
Print Assumptions started_exchange.

(* ---- the WHOLE LIFETIME of an exchange: constructed at stamp0 with any (timeout, redo) setting
   (None = class default dt / dr), started with message m, then driven over ANY schedule
   (the driver -- process after every advance while not done -- is part of the model) ---- *)

(* the lifetime is exactly the arithmetical reading of the schedule [walk]: fail at the first
   processing stamp >= stamp0 + |T| (if T > 0, checked first); otherwise retransmit m exactly at
   each processing stamp that is >= (previous retransmission or stamp0) + |R| (if R > 0) *)
Theorem lifetime_is_schedule_walk : forall dt dr stamp0 timeout redo m sched xf sf log,
  lifetime dt dr stamp0 timeout redo m sched = (xf, sf, log) ->
  let T := tof dt timeout in let R := tof dr redo in
  let W := walk (qadd stamp0 (qabs T)) T R (qabs R) stamp0 stamp0 sched in
  x_failed xf = fst W /\ x_done xf = fst W /\ log = map (fun s => (s, m)) (snd W).
Proof. exact lifetime_is_walk. Qed.
Print Assumptions lifetime_is_schedule_walk.

(* fails exactly when the overall timeout elapses (first): T > 0, advances >= 0 *)
Theorem lifetime_fails_iff_timeout_first : forall dt dr stamp0 timeout redo m sched xf sf log,
  Forall (Qle 0) sched -> 0 < tof dt timeout ->
  lifetime dt dr stamp0 timeout redo m sched = (xf, sf, log) ->
  (x_failed xf = true <-> sched <> [] /\ stamp0 + tof dt timeout <= stamp0 + qsum sched).
Proof. exact lifetime_fails_iff. Qed.
Print Assumptions lifetime_fails_iff_timeout_first.

(* a timeout of zero (or less) never expires, over the whole lifetime *)
Theorem lifetime_zero_timeout_never_expires : forall dt dr stamp0 timeout redo m sched xf sf log,
  tof dt timeout <= 0 -> lifetime dt dr stamp0 timeout redo m sched = (xf, sf, log) -> x_failed xf = false.
Proof. exact lifetime_zero_timeout. Qed.
Print Assumptions lifetime_zero_timeout_never_expires.

(* retransmissions over the whole lifetime: stamps (counted from stamp0) at least R apart,
   every one carries the started message *)
Theorem lifetime_redo_once_per_interval : forall dt dr stamp0 timeout redo m sched xf sf log,
  0 < tof dr redo -> lifetime dt dr stamp0 timeout redo m sched = (xf, sf, log) ->
  spaced (tof dr redo) (stamp0 :: map fst log) /\ Forall (fun p => snd p = m) log.
Proof. exact lifetime_redo. Qed.
Print Assumptions lifetime_redo_once_per_interval.

(* non-vacuity: timeout 2, redo 1/2, message 7, advances of 1/4: retransmissions at 1/2, 1, 3/2,
   failure at 2 (timeout checked first), nothing afterwards *)
Example c38_schedule :
  let x := started 2 (1#2) 0 None None 7%Z in
  let '(xf, sf, log) := drive x 0 [1#4;1#4;1#4;1#4;1#4;1#4;1#4;1#4;1#4;1#4] in
  (x_failed xf, x_done xf, Qred sf, map (fun p => (Qred (fst p), snd p)) log)
  = (true, true, 5#2, [(1#2, 7%Z); (1, 7%Z); (3#2, 7%Z)]).
Proof. vm_compute. reflexivity. Qed.

Example c38_zero_timeout :
  let x := started 2 (1#2) 0 (Some 0) (Some 1) 7%Z in
  let '(xf, sf, log) := drive x 0 [1; 1; 1; 100] in
  (x_failed xf, x_done xf, List.length log) = (false, false, 4%nat).
Proof. vm_compute. reflexivity. Qed.

(* Exchangent defaults (0.5 / 0.1, the latter not a dyadic float): exact in Q *)
Example c38_exchangent_defaults :
  let '(xf, sf, log) := lifetime (1#2) (1#10) 0 None None 7%Z [1#20; 1#10; 1#10; 1#10; 1#10; 1#10] in
  (x_failed xf, map (fun p => Qred (fst p)) log) = (true, [3#20; 1#4; 7#20; 9#20]).
Proof. vm_compute. reflexivity. Qed.
