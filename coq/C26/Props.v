(* C26 -- property theorems only.  Each closed by [exact]; Print Assumptions beneath. *)
From Coq Require Import List ZArith Bool Arith.
Import ListNotations.
Require Import V.C26.Model V.C26.Proofs V.C26.Pending V.C26.Reaccept V.C26.Released V.gen.C26_Flags.

(* For the plain and the TLS server, over EVERY history of service calls (any batch of accepted
   peers incl. repeated addresses, any handshake outcomes), shutdownIx / closeIx / closeAllIx /
   removeIx calls (valid or not):
   - the table has exactly one entry per peer address (and so has the TLS pending table);
   - every referenced incomer was created by the server;
   - no live socket is orphaned: an incomer whose socket is still open is referenced by a table,
     or was handed to the caller by removeIx(ca, shutclose=False).  In particular a stale entry
     that is replaced has been shut down, and a removed entry has been closed. *)
Theorem table_functional_no_orphans : forall tls cleans ops, table_ok (run tls cleans ops).
Proof. exact ok_run. Qed.
Print Assumptions table_functional_no_orphans.

(* ... in particular for the server as it is: the clean-up flag EXTRACTED from
   ServerTls.serviceCxes on this run (coq/gen/C26_Flags.v) *)
Theorem table_functional_no_orphans_as_built : forall tls ops,
  table_ok (run tls ServerTls_cleans_failed_handshake ops).
Proof. exact (fun tls ops => ok_run tls ServerTls_cleans_failed_handshake ops). Qed.
Print Assumptions table_functional_no_orphans_as_built.

(* WITH A CLEAN-UP of failed handshakes (mode CleanRaise: del + re-raise, or CleanContinue: the
   current `except (ssl.SSLError, OSError): ... del self.cxes[ca]; continue`), over every history
   incl. failing handshakes, plain and TLS: every entry of the pending table is alive (its socket
   is open), no incomer sits in two table slots, no service call ever dies on a dead pending
   entry; and in mode CleanContinue no handshake error ever leaves serviceConnects.
   (For NoCleanup this is FALSE: Example reset_peer_is_still_closed_on_removal :
  let s := run false CleanContinue [ServiceConnects [7; 8]%Z []; PeerReset 7%Z; ShutdownIx 7%Z;
                                    RemoveIx 7%Z true; PeerReset 8%Z; ServiceConnects [8]%Z []] in
  sock_states s = [Closed; Dead; Open] /\ released s = [0].
Proof. vm_compute. split; reflexivity. Qed.
Example failed_handshake_wedges_uncleaned_server.) *)
Theorem pending_entries_are_live : forall tls m ops, cleaning m = true ->
  pending_live (run tls m ops) /\ ids_distinct (run tls m ops) /\ wedged (run tls m ops) = 0 /\
  (m = CleanContinue -> hraised (run tls m ops) = 0).
Proof. exact pending_live_run. Qed.
Print Assumptions pending_entries_are_live.

(* ... and the server AS BUILT (mode extracted from ServerTls.serviceCxes on this run) cleans up *)
Theorem server_as_built_cleans_up : forall tls ops,
  cleaning ServerTls_cleans_failed_handshake = true /\
  pending_live (run tls ServerTls_cleans_failed_handshake ops) /\
  wedged (run tls ServerTls_cleans_failed_handshake ops) = 0.
Proof.
  exact (fun tls ops =>
    match pending_live_run tls ServerTls_cleans_failed_handshake ops eq_refl with
    | conj L (conj _ (conj W _)) => conj eq_refl (conj L W) end).
Qed.
Print Assumptions server_as_built_cleans_up.

(* conversely every peer accepted by a service call has an entry afterwards: in the table, or
   (TLS, handshake still pending) in the pending table -- or its handshake failed in this very call *)
Theorem accepted_peers_have_entries : forall tls cleans s cas hs ca,
  table_ok s -> In ca cas ->
  let s' := step tls cleans s (ServiceConnects cas hs) in
  has_entry ca (ixes s') \/ (tls = true /\ (has_entry ca (cxes s') \/ hfails s < hfails s')).
Proof. exact accepted_have_entries. Qed.
Print Assumptions accepted_peers_have_entries.

(* plain server: accepting ca while a stale entry for ca exists raises nothing, shuts the stale
   socket down, maps ca to the new incomer (open) at the same table position and touches no
   other entry *)
Theorem reaccept_replaces_and_shuts_stale : forall cleans s ca old hs,
  table_ok s -> lookup ca (ixes s) = Some old ->
  let s' := step false cleans s (ServiceConnects [ca] hs) in
  errors s' = errors s /\ lookup ca (ixes s') = Some (next s) /\ keys (ixes s') = keys (ixes s) /\
  sk s' old <> Open /\ sk s' (next s) = Open /\
  (forall ca2, ca2 <> ca -> lookup ca2 (ixes s') = lookup ca2 (ixes s)).
Proof. exact reaccept_plain. Qed.
Print Assumptions reaccept_replaces_and_shuts_stale.

(* TLS server (no other handshake pending): same once the new connection's handshake completes *)
Theorem reaccept_replaces_and_shuts_stale_tls : forall cleans s ca old,
  table_ok s -> lookup ca (ixes s) = Some old -> cxes s = [] ->
  let s' := step true cleans s (ServiceConnects [ca] [HDone]) in
  errors s' = errors s /\ lookup ca (ixes s') = Some (next s) /\ keys (ixes s') = keys (ixes s) /\
  cxes s' = [] /\ sk s' old <> Open /\ sk s' (next s) = Open.
Proof. exact reaccept_tls. Qed.
Print Assumptions reaccept_replaces_and_shuts_stale_tls.

(* TLS server IN GENERAL -- any number of other handshakes pending, any handshake outcomes (done,
   want more, failed), with or without clean-up: after re-accepting ca while the table holds a stale
   entry `old` for it, either the table still maps ca to `old` (the new connection is still
   handshaking, or its handshake failed), or it maps ca to the new incomer and `old` has been shut
   down.  Never: replaced and still open. *)
Theorem reaccept_tls_any_pending : forall cleans s ca old hs,
  table_ok s -> lookup ca (ixes s) = Some old ->
  let s' := step true cleans s (ServiceConnects [ca] hs) in
  lookup ca (ixes s') = Some old \/ (lookup ca (ixes s') = Some (next s) /\ sk s' old <> Open).
Proof. exact reaccept_tls_general. Qed.
Print Assumptions reaccept_tls_any_pending.

(* REMOVED ENTRIES ARE CLOSED, whatever shutdown() did.  Over every history (incl. peers resetting
   their connection, so that the later shutdown() of that socket raises ENOTCONN and has no effect),
   every handshake outcome and every clean-up mode, plain and TLS: every incomer on which the server
   called shutclose() -- closeIx, closeAllIx, removeIx(shutclose=True), failed TLS handshake -- has a
   CLOSED socket: close() is called whether or not shutdown() succeeded. *)
Theorem removed_entries_are_closed : forall tls m ops, released_closed (run tls m ops).
Proof. exact released_closed_run. Qed.
Print Assumptions removed_entries_are_closed.

(* SEVERAL ACCEPTS IN ONE SERVICE CALL (plain server): whatever else is accepted in the same call, the
   entry for ca afterwards is the LAST connection accepted from ca in that call (incomers are numbered
   in accept order); the older ones are unreferenced, hence shut down by table_functional_no_orphans. *)
Theorem batch_entry_is_newest_accept : forall m s pre ca post hs,
  ~ In ca post ->
  lookup ca (ixes (step false m s (ServiceConnects (pre ++ ca :: post) hs))) = Some (next s + length pre).
Proof. exact batch_keeps_newest. Qed.
Print Assumptions batch_entry_is_newest_accept.

(* removing an entry closes its socket and deletes exactly that entry *)
Theorem remove_closes_socket : forall tls cleans s ca i,
  table_ok s -> lookup ca (ixes s) = Some i ->
  let s' := step tls cleans s (RemoveIx ca true) in
  errors s' = errors s /\ lookup ca (ixes s') = None /\ sk s' i = Closed /\
  (forall ca2, ca2 <> ca -> lookup ca2 (ixes s') = lookup ca2 (ixes s)).
Proof. exact remove_closes. Qed.
Print Assumptions remove_closes_socket.

(* an unknown address is rejected (ValueError) without touching the table *)
Theorem unknown_address_is_rejected : forall tls cleans s ca,
  lookup ca (ixes s) = None ->
  step tls cleans s (RemoveIx ca true) = err s /\ step tls cleans s (CloseIx ca) = err s /\
  step tls cleans s (ShutdownIx ca) = err s.
Proof. exact unknown_address_rejected. Qed.
Print Assumptions unknown_address_is_rejected.

(* non-vacuity *)
Example c26_nonvacuous :
  let s := run false CleanContinue [ServiceConnects [7; 8; 7]%Z []; CloseIx 8%Z; ServiceConnects [8]%Z [];
                      RemoveIx 7%Z true; RemoveIx 9%Z true] in
  ixes s = [(8%Z, 3)] /\ sock_states s = [Shut; Closed; Closed; Open] /\ errors s = 1.
Proof. vm_compute. repeat split; reflexivity. Qed.
Example c26_nonvacuous_tls :
  let s := run true CleanContinue [ServiceConnects [7; 8]%Z [HDone; HWant]; ServiceConnects [7]%Z [HWant; HDone];
                     ServiceConnects [] [HWant]] in
  ixes s = [(7%Z, 2)] /\ cxes s = [(8%Z, 1)] /\ sock_states s = [Shut; Open; Open].
Proof. vm_compute. repeat split; reflexivity. Qed.

(* THE WEDGE (behaviour of a serviceCxes WITHOUT clean-up): peer 7's handshake fails, its dead entry
   stays in the pending table; peer 8 connects afterwards and could complete its handshake, but
   every later service call dies on the dead entry before reaching it: 8 is never promoted, the
   dead entry is never removed.  With del + re-raise the same history serves peer 8 and one error
   propagates; with del + continue nothing propagates, and a batch [7 fails; 8 done] accepted in
   ONE call serves 8 in that same call. *)
Example failed_handshake_wedges_uncleaned_server :
  let h := [ServiceConnects [7]%Z [HFail]; ServiceConnects [8]%Z [HDone]; ServiceConnects [] [HDone];
            ServiceConnects [] [HDone]] in
  (let s := run true NoCleanup h in
   ixes s = [] /\ cxes s = [(7%Z, 0); (8%Z, 1)] /\ sock_states s = [Closed; Open] /\ wedged s = 3) /\
  (let s := run true CleanRaise h in
   ixes s = [(8%Z, 1)] /\ cxes s = [] /\ sock_states s = [Closed; Open] /\ wedged s = 0 /\ hraised s = 1) /\
  (let s := run true CleanContinue h in
   ixes s = [(8%Z, 1)] /\ cxes s = [] /\ sock_states s = [Closed; Open] /\ wedged s = 0 /\ hraised s = 0) /\
  (ixes (run true CleanContinue [ServiceConnects [7; 8]%Z [HFail; HDone]]) = [(8%Z, 1)] /\
   ixes (run true CleanRaise [ServiceConnects [7; 8]%Z [HFail; HDone]]) = []).
Proof. vm_compute. repeat split; reflexivity. Qed.
