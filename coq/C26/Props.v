(* C26 -- property theorems only.  Each closed by [exact]; Print Assumptions beneath. *)
From Coq Require Import List ZArith Bool Arith.
Import ListNotations.
Require Import V.C26.Model V.C26.Proofs.

(* For the plain and the TLS server, over EVERY history of service calls (any batch of accepted
   peers incl. repeated addresses, any handshake outcomes), shutdownIx / closeIx / closeAllIx /
   removeIx calls (valid or not):
   - the table has exactly one entry per peer address (and so has the TLS pending table);
   - every referenced incomer was created by the server;
   - no live socket is orphaned: an incomer whose socket is still open is referenced by a table,
     or was handed to the caller by removeIx(ca, shutclose=False).  In particular a stale entry
     that is replaced has been shut down, and a removed entry has been closed. *)
Theorem table_functional_no_orphans : forall tls ops, table_ok (run tls ops).
Proof. exact ok_run. Qed.
Print Assumptions table_functional_no_orphans.

(* conversely every peer accepted by a service call has an entry afterwards: in the table, or
   (TLS, handshake still pending) in the pending table *)
Theorem accepted_peers_have_entries : forall tls s cas hs ca,
  table_ok s -> In ca cas ->
  let s' := step tls s (ServiceConnects cas hs) in
  has_entry ca (ixes s') \/ (tls = true /\ has_entry ca (cxes s')).
Proof. exact accepted_have_entries. Qed.
Print Assumptions accepted_peers_have_entries.

(* plain server: accepting ca while a stale entry for ca exists raises nothing, shuts the stale
   socket down, maps ca to the new incomer (open) at the same table position and touches no
   other entry *)
Theorem reaccept_replaces_and_shuts_stale : forall s ca old hs,
  table_ok s -> lookup ca (ixes s) = Some old ->
  let s' := step false s (ServiceConnects [ca] hs) in
  errors s' = errors s /\ lookup ca (ixes s') = Some (next s) /\ keys (ixes s') = keys (ixes s) /\
  sk s' old <> Open /\ sk s' (next s) = Open /\
  (forall ca2, ca2 <> ca -> lookup ca2 (ixes s') = lookup ca2 (ixes s)).
Proof. exact reaccept_plain. Qed.
Print Assumptions reaccept_replaces_and_shuts_stale.

(* TLS server (no other handshake pending): same once the new connection's handshake completes *)
Theorem reaccept_replaces_and_shuts_stale_tls : forall s ca old,
  table_ok s -> lookup ca (ixes s) = Some old -> cxes s = [] ->
  let s' := step true s (ServiceConnects [ca] [true]) in
  errors s' = errors s /\ lookup ca (ixes s') = Some (next s) /\ keys (ixes s') = keys (ixes s) /\
  cxes s' = [] /\ sk s' old <> Open /\ sk s' (next s) = Open.
Proof. exact reaccept_tls. Qed.
Print Assumptions reaccept_replaces_and_shuts_stale_tls.

(* removing an entry closes its socket and deletes exactly that entry *)
Theorem remove_closes_socket : forall tls s ca i,
  table_ok s -> lookup ca (ixes s) = Some i ->
  let s' := step tls s (RemoveIx ca true) in
  errors s' = errors s /\ lookup ca (ixes s') = None /\ sk s' i = Closed /\
  (forall ca2, ca2 <> ca -> lookup ca2 (ixes s') = lookup ca2 (ixes s)).
Proof. exact remove_closes. Qed.
Print Assumptions remove_closes_socket.

(* an unknown address is rejected (ValueError) without touching the table *)
Theorem unknown_address_is_rejected : forall tls s ca,
  lookup ca (ixes s) = None ->
  step tls s (RemoveIx ca true) = err s /\ step tls s (CloseIx ca) = err s /\
  step tls s (ShutdownIx ca) = err s.
Proof. exact unknown_address_rejected. Qed.
Print Assumptions unknown_address_is_rejected.

(* non-vacuity *)
Example c26_nonvacuous :
  let s := run false [ServiceConnects [7; 8; 7]%Z []; CloseIx 8%Z; ServiceConnects [8]%Z [];
                      RemoveIx 7%Z true; RemoveIx 9%Z true] in
  ixes s = [(8%Z, 3)] /\ sock_states s = [Shut; Closed; Closed; Open] /\ errors s = 1.
Proof. vm_compute. repeat split; reflexivity. Qed.
Example c26_nonvacuous_tls :
  let s := run true [ServiceConnects [7; 8]%Z [true; false]; ServiceConnects [7]%Z [false; true];
                     ServiceConnects [] [false]] in
  ixes s = [(7%Z, 2)] /\ cxes s = [(8%Z, 1)] /\ sock_states s = [Shut; Open; Open].
Proof. vm_compute. repeat split; reflexivity. Qed.
