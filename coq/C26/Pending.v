(* C26 -- with the clean-up of failed handshakes (cleans = true) the pending table never holds a dead
   entry, and no service call ever dies on one. *)
From Coq Require Import List ZArith Bool Arith Lia Permutation.
Import ListNotations.
Require Import V.C26.Model V.C26.Proofs.

Lemma nodup_comm {A} (a b : list A) : NoDup (a ++ b) -> NoDup (b ++ a).
Proof. apply Permutation_NoDup. apply Permutation_app_comm. Qed.

Lemma nodup_ids_aset k v l r :
  NoDup (ids l ++ r) -> ~ In v (ids l ++ r) -> NoDup (ids (aset k v l) ++ r).
Proof.
  unfold ids. induction l as [|[k' v'] l IH]; cbn; intros Hd Hn.
  - constructor; [tauto|exact Hd].
  - inversion Hd as [|? ? Hx Hd']; subst. destruct (Z.eqb k k'); cbn.
    + constructor; [tauto|exact Hd'].
    + constructor; [|apply IH; [exact Hd'|tauto]].
      intro Hin. apply in_app_or in Hin. destruct Hin as [Hin|Hin].
      * apply (ids_aset_in k v l v') in Hin. destruct Hin as [E|Hin]; [subst; tauto|].
        apply Hx. apply in_or_app. left. exact Hin.
      * apply Hx. apply in_or_app. right. exact Hin.
Qed.

Lemma nodup_ids_aremove k l r : NoDup (ids l ++ r) -> NoDup (ids (aremove k l) ++ r).
Proof.
  unfold ids. induction l as [|[k' v'] l IH]; cbn; intro Hd; [exact Hd|].
  inversion Hd as [|? ? Hx Hd']; subst. destruct (Z.eqb k k'); cbn; [exact Hd'|].
  constructor; [|apply IH; exact Hd']. intro Hin. apply Hx. apply in_app_or in Hin.
  apply in_or_app. destruct Hin as [Hin|Hin]; [left; exact (ids_aremove_in k l v' Hin)|right; exact Hin].
Qed.

Lemma lookup_removed_id k l v : NoDup (ids l) -> lookup k l = Some v -> ~ In v (ids (aremove k l)).
Proof.
  unfold ids. induction l as [|[k' v'] l IH]; cbn; intros Hd L; [discriminate|].
  inversion Hd as [|? ? Hx Hd']; subst. destruct (Z.eqb k k'); cbn.
  - inversion L; subst. exact Hx.
  - intros [E|Hin]; [subst; apply Hx; eapply lookup_in_ids; exact L|exact (IH Hd' L Hin)].
Qed.

Lemma lookup_same_id k1 k2 l v :
  NoDup (ids l) -> lookup k1 l = Some v -> lookup k2 l = Some v -> k1 = k2.
Proof.
  unfold ids. induction l as [|[k' v'] l IH]; cbn; intros Hd L1 L2; [discriminate|].
  inversion Hd as [|? ? Hx Hd']; subst.
  destruct (Z.eqb k1 k') eqn:E1, (Z.eqb k2 k') eqn:E2.
  - apply Z.eqb_eq in E1, E2. congruence.
  - inversion L1; subst. exfalso. apply Hx. eapply lookup_in_ids. exact L2.
  - inversion L2; subst. exfalso. apply Hx. eapply lookup_in_ids. exact L1.
  - exact (IH Hd' L1 L2).
Qed.

Lemma nodup_app_l {A} (a b : list A) : NoDup (a ++ b) -> NoDup a.
Proof. induction a; cbn; intro H; [constructor|]. inversion H; subst. constructor; [|auto].
  intro Hi. apply H2. apply in_or_app. auto. Qed.
Lemma nodup_app_r {A} (a b : list A) : NoDup (a ++ b) -> NoDup b.
Proof. intro H. apply nodup_comm in H. exact (nodup_app_l _ _ H). Qed.
Lemma nodup_app_disj {A} (a b : list A) x : NoDup (a ++ b) -> In x a -> In x b -> False.
Proof.
  induction a; cbn; intros H Ha Hb; [tauto|]. inversion H; subst. destruct Ha as [E|Ha].
  - subst. apply H2. apply in_or_app. auto.
  - exact (IHa H3 Ha Hb).
Qed.

Lemma sock_eq_dec (a b : sock) : {a = b} + {a <> b}.
Proof. decide equality. Qed.

(* the invariant *)
Record live_inv (s : srv) : Prop := {
  li_ok : table_ok s;
  li_distinct : ids_distinct s;
  li_live : pending_live s
}.

Lemma live_init : live_inv init.
Proof. constructor; [apply ok_init|constructor|intros ca cx H; discriminate]. Qed.

Lemma bounded_tables s i : table_ok s -> In i (ids (ixes s) ++ ids (cxes s)) -> i < next s.
Proof.
  intros Hs Hi. apply (ok_ids_bounded _ Hs). apply in_referenced. apply in_app_or in Hi. tauto.
Qed.

Lemma live_accept_plain s ca : live_inv s -> live_inv (accept_plain s ca).
Proof.
  intros [Hs Hd Hl]. constructor; [apply ok_accept_plain; exact Hs| |].
  - unfold ids_distinct in *. cbn [accept_plain ixes cxes]. apply nodup_ids_aset; [exact Hd|].
    intro Hin. pose proof (bounded_tables s _ Hs Hin). lia.
  - intros k cx L. cbn [accept_plain cxes sk] in *. pose proof (Hl k cx L) as Ho.
    assert (Hc : In cx (ids (cxes s))) by (eapply lookup_in_ids; exact L).
    unfold upd. destruct (Nat.eqb cx (next s)); [reflexivity|].
    destruct (lookup ca (ixes s)) as [old|] eqn:Lo; cbn [shut_opt]; [|exact Ho].
    unfold upd. destruct (Nat.eqb cx old) eqn:E; [|exact Ho]. apply Nat.eqb_eq in E. subst.
    exfalso. eapply (nodup_app_disj _ _ old Hd); [eapply lookup_in_ids; exact Lo|exact Hc].
Qed.

Lemma live_accept_tls s ca : live_inv s -> live_inv (accept_tls s ca).
Proof.
  intros [Hs Hd Hl]. constructor; [apply ok_accept_tls; exact Hs| |].
  - unfold ids_distinct in *. cbn [accept_tls ixes cxes]. apply nodup_comm. apply nodup_ids_aset.
    + apply nodup_comm. exact Hd.
    + intro Hin. assert (Hin' : In (next s) (ids (ixes s) ++ ids (cxes s))).
      { apply in_app_or in Hin. apply in_or_app. tauto. }
      pose proof (bounded_tables s _ Hs Hin'). lia.
  - intros k cx L. cbn [accept_tls cxes sk] in *.
    destruct (Z.eq_dec k ca) as [E|E].
    + subst. rewrite lookup_aset_same in L. inversion L; subst. unfold upd. rewrite Nat.eqb_refl. reflexivity.
    + rewrite lookup_aset_other in L by exact E. pose proof (Hl k cx L) as Ho.
      unfold upd. destruct (Nat.eqb cx (next s)); [reflexivity|].
      destruct (lookup ca (cxes s)) as [old|] eqn:Lo; cbn [shut_opt]; [|exact Ho].
      unfold upd. destruct (Nat.eqb cx old) eqn:E2; [|exact Ho]. apply Nat.eqb_eq in E2. subst.
      exfalso. apply E. eapply lookup_same_id; [exact (nodup_app_r _ _ Hd)|exact L|exact Lo].
Qed.

Lemma live_promote s ca cx : lookup ca (cxes s) = Some cx -> live_inv s -> live_inv (promote s ca cx).
Proof.
  intros L [Hs Hd Hl]. constructor; [apply ok_promote; assumption| |].
  - unfold ids_distinct in *. cbn [promote ixes cxes]. apply nodup_ids_aset.
    + apply nodup_comm. apply nodup_ids_aremove. apply nodup_comm. exact Hd.
    + intro Hin. apply in_app_or in Hin. destruct Hin as [Hin|Hin].
      * eapply (nodup_app_disj _ _ cx Hd); [exact Hin|eapply lookup_in_ids; exact L].
      * exact (lookup_removed_id ca _ cx (nodup_app_r _ _ Hd) L Hin).
  - intros k c L'. cbn [promote cxes sk] in *.
    destruct (Z.eq_dec k ca) as [E|E].
    + subst. rewrite lookup_aremove_same in L' by (apply (ok_cxes_functional _ Hs)). discriminate.
    + rewrite lookup_aremove_other in L' by exact E. pose proof (Hl k c L') as Ho.
      destruct (lookup ca (ixes s)) as [old|] eqn:Lo; [|exact Ho].
      destruct (Nat.eqb old cx); cbn [shut_opt]; [exact Ho|].
      unfold upd. destruct (Nat.eqb c old) eqn:E2; [|exact Ho]. apply Nat.eqb_eq in E2. subst.
      exfalso. eapply (nodup_app_disj _ _ old Hd); [eapply lookup_in_ids; exact Lo|eapply lookup_in_ids; exact L'].
Qed.

Lemma live_failed p s ca cx : lookup ca (cxes s) = Some cx -> live_inv s -> live_inv (handshake_failed true p s ca cx).
Proof.
  intros L [Hs Hd Hl]. constructor; [apply ok_handshake_failed; assumption| |].
  - unfold ids_distinct in *. cbn [handshake_failed ixes cxes]. apply nodup_comm. apply nodup_ids_aremove.
    apply nodup_comm. exact Hd.
  - intros k c L'. cbn [handshake_failed cxes sk] in *.
    destruct (Z.eq_dec k ca) as [E|E].
    + subst. rewrite lookup_aremove_same in L' by (apply (ok_cxes_functional _ Hs)). discriminate.
    + rewrite lookup_aremove_other in L' by exact E. pose proof (Hl k c L') as Ho.
      unfold upd. destruct (Nat.eqb c cx) eqn:E2; [|exact Ho]. apply Nat.eqb_eq in E2. subst.
      exfalso. apply E. eapply lookup_same_id; [exact (nodup_app_r _ _ Hd)|exact L'|exact L].
Qed.

Lemma live_service_cxes m : cleaning m = true -> forall snap hs s,
  NoDup (keys snap) -> (forall ca cx, In (ca, cx) snap -> lookup ca (cxes s) = Some cx) ->
  live_inv s ->
  live_inv (service_cxes m snap hs s) /\ wedged (service_cxes m snap hs s) = wedged s /\
  (m = CleanContinue -> hraised (service_cxes m snap hs s) = hraised s).
Proof.
  intro Hm. induction snap as [|[ca cx] snap IH]; intros hs s Hd Hl Hs; cbn [service_cxes]; [auto|].
  inversion Hd as [|? ? Hn Hd']; subst.
  assert (L : lookup ca (cxes s) = Some cx) by (apply Hl; left; reflexivity).
  rewrite (li_live _ Hs ca cx L).
  assert (Hrest : forall ca' cx', In (ca', cx') snap -> lookup ca' (cxes s) = Some cx')
    by (intros; apply Hl; right; assumption).
  assert (Hne : forall ca' cx', In (ca', cx') snap -> ca' <> ca).
  { intros ca' cx' Hin E. subst. apply Hn. change ca with (fst (ca, cx')). apply in_map. exact Hin. }
  destruct hs as [|[| |] hs].
  - apply IH; assumption.
  - change (wedged s) with (wedged (promote s ca cx)). change (hraised s) with (hraised (promote s ca cx)).
    apply IH; [exact Hd'| |apply live_promote; assumption].
    intros ca' cx' Hin. cbn [promote cxes]. rewrite lookup_aremove_other; [apply Hrest; exact Hin|eapply Hne; exact Hin].
  - apply IH; assumption.
  - destruct m; [discriminate| |].
    + split; [apply live_failed; assumption|split; [reflexivity|discriminate]].
    + change (wedged s) with (wedged (handshake_failed true false s ca cx)).
      change (hraised s) with (hraised (handshake_failed true false s ca cx)).
      apply IH; [exact Hd'| |apply live_failed; assumption].
      intros ca' cx' Hin. cbn [handshake_failed cxes]. rewrite lookup_aremove_other; [apply Hrest; exact Hin|eapply Hne; exact Hin].
Qed.

Lemma fold_live (f : srv -> Z -> srv) :
  (forall s ca, live_inv s -> live_inv (f s ca)) -> (forall s ca, wedged (f s ca) = wedged s) ->
  forall cas s, live_inv s -> live_inv (fold_left f cas s) /\ wedged (fold_left f cas s) = wedged s.
Proof.
  intros Hf Hw. induction cas as [|ca cas IH]; intros s Hs; [auto|]. cbn.
  destruct (IH (f s ca) (Hf s ca Hs)) as [A B]. split; [exact A|]. rewrite B. apply Hw.
Qed.

Lemma live_sk_only s f :
  (forall j, f j <> sk s j -> In j (ids (ixes s))) -> (forall j, f j = Open -> sk s j = Open) ->
  live_inv s -> live_inv (with_sk s f).
Proof.
  intros Hch Hop [Hs Hd Hl]. constructor; [apply ok_with_sk; assumption|exact Hd|].
  intros k c L. cbn [with_sk cxes sk] in *. pose proof (Hl k c L) as Ho.
  destruct (sock_eq_dec (f c) (sk s c)) as [E|E]; [rewrite E; exact Ho|].
  exfalso. eapply (nodup_app_disj _ _ c Hd); [exact (Hch c E)|eapply lookup_in_ids; exact L].
Qed.

Lemma live_released s f l :
  (forall j, f j <> sk s j -> In j (ids (ixes s))) -> (forall j, f j = Open -> sk s j = Open) ->
  live_inv s -> live_inv (with_released s f l).
Proof.
  intros Hch Hop [Hs Hd Hl]. constructor; [apply ok_with_released; assumption|exact Hd|].
  intros k c L. cbn [with_released cxes sk] in *. pose proof (Hl k c L) as Ho.
  destruct (sock_eq_dec (f c) (sk s c)) as [E|E]; [rewrite E; exact Ho|].
  exfalso. eapply (nodup_app_disj _ _ c Hd); [exact (Hch c E)|eapply lookup_in_ids; exact L].
Qed.

Lemma close_fold_changes (l : alist) : forall f j,
  fold_left (fun f (p : Z * nat) => upd f (snd p) close1) l f j <> f j -> In j (ids l).
Proof.
  unfold ids. induction l as [|[k v] l IH]; intros f j H; cbn in *; [congruence|].
  destruct (Nat.eq_dec j v) as [E|E]; [left; congruence|]. right. apply (IH (upd f v close1) j).
  assert (U : upd f v close1 j = f j).
  { unfold upd. destruct (Nat.eqb j v) eqn:E2; [apply Nat.eqb_eq in E2; congruence|reflexivity]. }
  rewrite U. exact H.
Qed.

Lemma upd_changes f i g j : upd f i g j <> f j -> j = i.
Proof. unfold upd. destruct (Nat.eqb j i) eqn:E; [apply Nat.eqb_eq in E; auto|congruence]. Qed.

Lemma hraised_fold (f : srv -> Z -> srv) : (forall s ca, hraised (f s ca) = hraised s) ->
  forall cas s, hraised (fold_left f cas s) = hraised s.
Proof. intros Hf. induction cas as [|c cas IH]; intro s; [reflexivity|]. cbn. rewrite IH. apply Hf. Qed.

Lemma live_step tls m s o : cleaning m = true ->
  live_inv s -> live_inv (step tls m s o) /\ wedged (step tls m s o) = wedged s /\
  (m = CleanContinue -> hraised (step tls m s o) = hraised s).
Proof.
  intros Hm Hs. destruct o as [cas hs|ca|ca| |ca sc|ca]; cbn [step].
  - destruct tls.
    + destruct (fold_live accept_tls live_accept_tls (fun _ _ => eq_refl) cas s Hs) as [H1 W1].
      rewrite <- W1. rewrite <- (hraised_fold accept_tls (fun _ _ => eq_refl) cas s).
      apply (live_service_cxes m Hm); [apply (ok_cxes_functional _ (li_ok _ H1))| |exact H1].
      intros ca cx Hin. apply lookup_of_in; [apply (ok_cxes_functional _ (li_ok _ H1))|exact Hin].
    + destruct (fold_live accept_plain live_accept_plain (fun _ _ => eq_refl) cas s Hs) as [A B].
      split; [exact A|split; [exact B|]]. intros _. apply (hraised_fold accept_plain (fun _ _ => eq_refl)).
  - destruct (lookup ca (ixes s)) as [i|] eqn:L.
    + split; [|split; reflexivity]. apply live_sk_only; [| |exact Hs].
      * intros j Hj. apply upd_changes in Hj. subst. eapply lookup_in_ids. exact L.
      * intros j Hj. apply upd_open_inv in Hj; [tauto|apply shut1_not_open].
    + split; [|split; reflexivity]. destruct Hs as [H1 H2 H3]. constructor; [apply ok_err; exact H1|exact H2|exact H3].
  - destruct (lookup ca (ixes s)) as [i|] eqn:L.
    + split; [|split; reflexivity]. apply live_released; [| |exact Hs].
      * intros j Hj. apply upd_changes in Hj. subst. eapply lookup_in_ids. exact L.
      * intros j Hj. apply upd_open_inv in Hj; [tauto|intro; discriminate].
    + split; [|split; reflexivity]. destruct Hs as [H1 H2 H3]. constructor; [apply ok_err; exact H1|exact H2|exact H3].
  - split; [|split; reflexivity]. apply live_released; [| |exact Hs].
    + intros j Hj. eapply close_fold_changes. exact Hj.
    + intros j Hj. eapply close_fold_open_inv. exact Hj.
  - pose proof (ok_step tls m s (RemoveIx ca sc) (li_ok _ Hs)) as Hok. cbn [step] in Hok.
    destruct (lookup ca (ixes s)) as [i|] eqn:L.
    + split; [|split; reflexivity]. destruct Hs as [H1 H2 H3]. constructor; [exact Hok| |].
      * unfold ids_distinct in *. cbn [ixes cxes]. apply nodup_ids_aremove. exact H2.
      * intros k c L'. cbn [cxes sk] in *. pose proof (H3 k c L') as Ho.
        destruct sc; [|exact Ho]. unfold upd. destruct (Nat.eqb c i) eqn:E; [|exact Ho].
        apply Nat.eqb_eq in E. subst. exfalso.
        eapply (nodup_app_disj _ _ i H2); [eapply lookup_in_ids; exact L|eapply lookup_in_ids; exact L'].
    + split; [|split; reflexivity]. destruct Hs as [H1 H2 H3]. constructor; [apply ok_err; exact H1|exact H2|exact H3].
  - destruct (lookup ca (ixes s)) as [i|] eqn:L; [|split; [exact Hs|split; reflexivity]].
    split; [|split; reflexivity]. apply live_sk_only; [| |exact Hs].
    + intros j Hj. apply upd_changes in Hj. subst. eapply lookup_in_ids. exact L.
    + intros j Hj. apply upd_open_inv in Hj; [tauto|intro x; destruct x; discriminate].
Qed.

Lemma live_run tls m ops : cleaning m = true ->
  live_inv (run tls m ops) /\ wedged (run tls m ops) = 0 /\ (m = CleanContinue -> hraised (run tls m ops) = 0).
Proof.
  intro Hm. unfold run.
  assert (G : forall ops s, live_inv s -> live_inv (fold_left (step tls m) ops s) /\
                           wedged (fold_left (step tls m) ops s) = wedged s /\
                           (m = CleanContinue -> hraised (fold_left (step tls m) ops s) = hraised s)).
  { induction ops0 as [|o ops0 IH]; intros s Hs; [auto|]. cbn [fold_left].
    destruct (live_step tls m s o Hm Hs) as [A [B C]]. destruct (IH _ A) as [D [E F]].
    split; [exact D|split; [congruence|]]. intro Hc. rewrite (F Hc). exact (C Hc). }
  apply (G ops init live_init).
Qed.

Lemma pending_live_run tls m ops : cleaning m = true ->
  pending_live (run tls m ops) /\ ids_distinct (run tls m ops) /\ wedged (run tls m ops) = 0 /\
  (m = CleanContinue -> hraised (run tls m ops) = 0).
Proof.
  intro Hm. destruct (live_run tls m ops Hm) as [Hi [W R]].
  exact (conj (li_live _ Hi) (conj (li_distinct _ Hi) (conj W R))).
Qed.
