(* C26 -- TLS re-accept in general: any number of other handshakes pending, any handshake outcomes
   (done / want more / failed), with or without clean-up. *)
From Coq Require Import List ZArith Bool Arith Lia.
Import ListNotations.
Require Import V.C26.Model V.C26.Proofs.

(* for address ca: the ready table still maps ca to the stale incomer, or it maps ca to the new
   incomer and the stale one has been shut down *)
Definition replaced_or_kept (ca : Z) (old n : nat) (s : srv) : Prop :=
  lookup ca (ixes s) = Some old \/ (lookup ca (ixes s) = Some n /\ sk s old <> Open).

Lemma shut_opt_keeps_not_open o f j : f j <> Open -> shut_opt o f j <> Open.
Proof. intros H E. apply shut_opt_open_inv in E. tauto. Qed.

Lemma rk_promote ca old n s k v :
  old <> n -> (k = ca -> v = n) -> replaced_or_kept ca old n s -> replaced_or_kept ca old n (promote s k v).
Proof.
  intros Hne Hv R. unfold replaced_or_kept in *. cbn [promote ixes sk].
  destruct (Z.eq_dec k ca) as [E|E].
  - subst k. rewrite (Hv eq_refl). right. split; [apply lookup_aset_same|].
    destruct R as [R|[R Ho]]; rewrite R.
    + destruct (Nat.eqb old n) eqn:E2; [apply Nat.eqb_eq in E2; contradiction|].
      cbn [shut_opt]. unfold upd. rewrite Nat.eqb_refl. apply shut1_not_open.
    + rewrite Nat.eqb_refl. exact Ho.
  - rewrite lookup_aset_other by (intro; apply E; congruence).
    destruct R as [R|[R Ho]]; [left; exact R|right; split; [exact R|]].
    apply shut_opt_keeps_not_open. exact Ho.
Qed.

Lemma rk_service_cxes cleans ca old n : old <> n -> forall snap hs s,
  (forall v, In (ca, v) snap -> v = n) ->
  replaced_or_kept ca old n s -> replaced_or_kept ca old n (service_cxes cleans snap hs s).
Proof.
  intros Hne. induction snap as [|[k v] snap IH]; intros hs s Hv R; cbn [service_cxes]; [exact R|].
  assert (Hv' : forall v', In (ca, v') snap -> v' = n) by (intros; apply Hv; right; assumption).
  assert (Hk : k = ca -> v = n) by (intro; subst; apply Hv; left; reflexivity).
  assert (Hf : forall d p, replaced_or_kept ca old n (handshake_failed d p s k v)).
  { intros d p. unfold replaced_or_kept in *. cbn [handshake_failed ixes sk].
    destruct R as [R|[R Ho]]; [left; exact R|right; split; [exact R|]].
    intro E. apply upd_open_inv in E; [tauto|intro; discriminate]. }
  destruct (sk s v); [| | |exact R];
    (destruct hs as [|[| |] hs];
     [apply IH; assumption | apply IH; [exact Hv'|apply rk_promote; assumption]
     | apply IH; assumption
     | destruct cleans; [apply Hf|apply Hf|apply IH; [exact Hv'|apply Hf]]]).
Qed.

Lemma reaccept_tls_general cleans s ca old hs :
  table_ok s -> lookup ca (ixes s) = Some old ->
  let s' := step true cleans s (ServiceConnects [ca] hs) in
  lookup ca (ixes s') = Some old \/ (lookup ca (ixes s') = Some (next s) /\ sk s' old <> Open).
Proof.
  intros Hs L. cbn [step fold_left].
  assert (Hb : old < next s).
  { apply (ok_ids_bounded _ Hs). apply in_referenced. left. eapply lookup_in_ids. exact L. }
  pose proof (ok_accept_tls s ca Hs) as H1.
  apply (rk_service_cxes cleans ca old (next s)); [lia| |left; exact L].
  intros v Hin. apply (lookup_of_in _ _ _ (ok_cxes_functional _ H1)) in Hin.
  cbn [accept_tls cxes] in Hin. rewrite lookup_aset_same in Hin. congruence.
Qed.

(* ------------------------------------------------------------------ several accepts in ONE service call *)
Lemma next_fold_plain : forall cas s, next (fold_left accept_plain cas s) = next s + length cas.
Proof. induction cas as [|c cas IH]; intro s; cbn; [lia|]. rewrite IH. cbn. lia. Qed.

Lemma lookup_fold_plain_other : forall post s ca,
  ~ In ca post -> lookup ca (ixes (fold_left accept_plain post s)) = lookup ca (ixes s).
Proof.
  induction post as [|c post IH]; intros s ca Hn; [reflexivity|]. cbn [fold_left].
  rewrite IH by (intro; apply Hn; right; assumption). cbn [accept_plain ixes].
  apply lookup_aset_other. intro; subst. apply Hn. left. reflexivity.
Qed.

(* the plain server's entry for ca after a batch is the LAST connection accepted from ca in it *)
Lemma batch_keeps_newest m s pre ca post hs :
  ~ In ca post ->
  lookup ca (ixes (step false m s (ServiceConnects (pre ++ ca :: post) hs))) = Some (next s + length pre).
Proof.
  intro Hn. cbn [step]. rewrite fold_left_app. cbn [fold_left].
  rewrite lookup_fold_plain_other by exact Hn. cbn [accept_plain ixes].
  rewrite lookup_aset_same. rewrite next_fold_plain. reflexivity.
Qed.
