(* C26 -- TCP server connection table.
   Hand model (tie H) of ioflo/aio/tcp/serving.py
     Server.serviceAxes / serviceConnects / shutdownIx / closeIx / closeAllIx / removeIx
     ServerTls.serviceAxes / serviceCxes / serviceConnects
     Incomer(.Tls).shutdown / shutclose (as far as the socket state is concerned)
   It describes the FIXED behaviour (fixes/C26-stale-entry-shutdown.patch): a stale entry for a
   re-accepted peer address is shut down before it is replaced.  Definitions only.

   addr   = peer address (ca), interned as Z by the harness
   id     = nat, the n-th Incomer object the server created (creation order)
   socket = Open | Dead (reset by the peer: shutdown() raises) | Shut (shutdown() succeeded, fd not
            closed) | Closed (close() called, .cs = None)
   .ixes / .cxes are odicts: association lists in first-insertion order; assigning an existing
   key keeps its position.                                                              *)
From Coq Require Import List ZArith Bool Arith.
Import ListNotations.

(* Open = live; Dead = the far side reset the connection: shutdown() on it raises ENOTCONN (swallowed by
   Incomer.shutdown) and changes nothing; Shut = shutdown() succeeded; Closed = close() called *)
Inductive sock := Open | Dead | Shut | Closed.

Definition alist := list (Z * nat).

Fixpoint lookup (k : Z) (l : alist) : option nat :=
  match l with
  | [] => None
  | (k', v) :: l' => if Z.eqb k k' then Some v else lookup k l'
  end.

(* odict.__setitem__ *)
Fixpoint aset (k : Z) (v : nat) (l : alist) : alist :=
  match l with
  | [] => [(k, v)]
  | (k', v') :: l' => if Z.eqb k k' then (k', v) :: l' else (k', v') :: aset k v l'
  end.

(* odict.__delitem__ *)
Fixpoint aremove (k : Z) (l : alist) : alist :=
  match l with
  | [] => []
  | (k', v') :: l' => if Z.eqb k k' then l' else (k', v') :: aremove k l'
  end.

Record srv := {
  next : nat;                 (* number of Incomer objects created so far *)
  sk : nat -> sock;           (* socket state of incomer id *)
  ixes : alist;               (* .ixes  : ca -> incomer (ready) *)
  cxes : alist;               (* .cxes  : ca -> incomer (TLS: accepted, handshake pending) *)
  detached : list nat;        (* ghost: removed with removeIx(ca, shutclose=False) *)
  errors : nat;               (* ghost: number of calls that raised ValueError *)
  hfails : nat;               (* ghost: number of TLS handshakes that failed (do_handshake raised SSLError/OSError) *)
  wedged : nat;               (* ghost: service calls that died on a dead pending entry (AttributeError:
                                 .cs is None) *)
  hraised : nat;              (* ghost: service calls out of which a handshake error propagated *)
  released : list nat         (* ghost: incomers on which the server called shutclose(): closeIx, closeAllIx,
                                 removeIx(shutclose=True), failed handshake *)
}.

Definition init : srv :=
  {| next := 0; sk := fun _ => Closed; ixes := []; cxes := []; detached := []; errors := 0; hfails := 0; wedged := 0; hraised := 0; released := [] |}.

Definition upd (f : nat -> sock) (i : nat) (g : sock -> sock) : nat -> sock :=
  fun j => if Nat.eqb j i then g (f j) else f j.

(* Incomer.shutdown(): if self.cs: try: self.cs.shutdown(how) except socket.error: pass *)
Definition shut1 (s : sock) : sock := match s with Open => Shut | x => x end.
(* the far side resets the connection *)
Definition kill (s : sock) : sock := match s with Open => Dead | x => x end.
(* Incomer.shutclose(): if self.cs: self.shutdown() [never raises]; self.cs.close(); cs = None --
   close() is called whatever shutdown() did *)
Definition close1 (s : sock) : sock := Closed.

Definition with_sk (s : srv) (f : nat -> sock) : srv :=
  {| next := next s; sk := f; ixes := ixes s; cxes := cxes s; detached := detached s; errors := errors s; hfails := hfails s; wedged := wedged s; hraised := hraised s; released := released s |}.
Definition err (s : srv) : srv :=
  {| next := next s; sk := sk s; ixes := ixes s; cxes := cxes s; detached := detached s; errors := S (errors s); hfails := hfails s; wedged := wedged s; hraised := hraised s; released := released s |}.

Definition with_released (s : srv) (f : nat -> sock) (l : list nat) : srv :=
  {| next := next s; sk := f; ixes := ixes s; cxes := cxes s; detached := detached s; errors := errors s;
     hfails := hfails s; wedged := wedged s; hraised := hraised s; released := l ++ released s |}.

Definition shut_opt (o : option nat) (f : nat -> sock) : nat -> sock :=
  match o with Some i => upd f i shut1 | None => f end.

(* Server.serviceAxes, one accepted (cs, ca):
     incomer = Incomer(...); if ca in self.ixes and self.ixes[ca] is not incomer: self.shutdownIx(ca)
     self.ixes[ca] = incomer *)
Definition accept_plain (s : srv) (ca : Z) : srv :=
  let n := next s in
  {| next := S n;
     sk := upd (shut_opt (lookup ca (ixes s)) (sk s)) n (fun _ => Open);
     ixes := aset ca n (ixes s); cxes := cxes s; detached := detached s; errors := errors s; hfails := hfails s; wedged := wedged s; hraised := hraised s; released := released s |}.

(* ServerTls.serviceAxes, one accepted (cs, ca): same on .cxes *)
Definition accept_tls (s : srv) (ca : Z) : srv :=
  let n := next s in
  {| next := S n;
     sk := upd (shut_opt (lookup ca (cxes s)) (sk s)) n (fun _ => Open);
     ixes := ixes s; cxes := aset ca n (cxes s); detached := detached s; errors := errors s; hfails := hfails s; wedged := wedged s; hraised := hraised s; released := released s |}.

(* ServerTls.serviceCxes, one (ca, cx) of the snapshot whose handshake completed:
     if ca in self.ixes and self.ixes[ca] is not cx: self.shutdownIx(ca)
     self.ixes[ca] = cx ; del self.cxes[ca] *)
Definition promote (s : srv) (ca : Z) (cx : nat) : srv :=
  {| next := next s;
     sk := shut_opt (match lookup ca (ixes s) with
                     | Some old => if Nat.eqb old cx then None else Some old
                     | None => None end) (sk s);
     ixes := aset ca cx (ixes s); cxes := aremove ca (cxes s);
     detached := detached s; errors := errors s; hfails := hfails s; wedged := wedged s; hraised := hraised s; released := released s |}.

(* outcome of one do_handshake() call *)
Inductive hres := HDone | HWant | HFail.

(* what ServerTls.serviceCxes does when cx.serviceHandshake() raises SSLError / OSError (extracted
   from the source on every run):
     NoCleanup      the call is not inside a try: the error propagates, the dead entry stays in .cxes
     CleanRaise     except: del self.cxes[ca]; raise           (commit 982b860)
     CleanContinue  except (ssl.SSLError, OSError): del self.cxes[ca]; continue   (current) *)
Inductive mode := NoCleanup | CleanRaise | CleanContinue.
Definition cleaning (m : mode) : bool := match m with NoCleanup => false | _ => true end.

(* IncomerTls.handshake() failed: it shutcloses its socket and re-raises (C25: RaiseClose).
   drop = the entry is deleted from .cxes ; propagate = the error leaves serviceConnects *)
Definition handshake_failed (drop propagate : bool) (s : srv) (ca : Z) (cx : nat) : srv :=
  {| next := next s; sk := upd (sk s) cx close1; ixes := ixes s;
     cxes := if drop then aremove ca (cxes s) else cxes s;
     detached := detached s; errors := errors s; hfails := S (hfails s); wedged := wedged s;
     hraised := if propagate then S (hraised s) else hraised s; released := cx :: released s |}.

Definition wedge (s : srv) : srv :=
  {| next := next s; sk := sk s; ixes := ixes s; cxes := cxes s; detached := detached s;
     errors := errors s; hfails := hfails s; wedged := S (wedged s); hraised := hraised s; released := released s |}.

(* the loop over the snapshot self.cxes.items(); hs = outcome of each do_handshake() call in call
   order (exhausted = want more).  A pending entry whose socket is already closed (.cs is None)
   raises AttributeError before any handshake call (not an SSLError/OSError: it propagates in every
   mode); a propagating exception aborts the loop. *)
Fixpoint service_cxes (m : mode) (snap : alist) (hs : list hres) (s : srv) : srv :=
  match snap with
  | [] => s
  | (ca, cx) :: snap' =>
      match sk s cx with
      | Closed => wedge s
      | _ =>
          match hs with
          | HDone :: hs' => service_cxes m snap' hs' (promote s ca cx)
          | HWant :: hs' => service_cxes m snap' hs' s
          | HFail :: hs' =>
              match m with
              | NoCleanup => handshake_failed false true s ca cx
              | CleanRaise => handshake_failed true true s ca cx
              | CleanContinue => service_cxes m snap' hs' (handshake_failed true false s ca cx)
              end
          | [] => service_cxes m snap' [] s
          end
      end
  end.

Inductive op :=
| ServiceConnects (cas : list Z) (hs : list hres)  (* peers accepted by this call; TLS handshake outcomes *)
| ShutdownIx (ca : Z)
| CloseIx (ca : Z)
| CloseAllIx
| RemoveIx (ca : Z) (shutclose : bool)
| PeerReset (ca : Z).          (* environment: the peer of the ready connection ca resets it *)

Definition step (tls : bool) (cleans : mode) (s : srv) (o : op) : srv :=
  match o with
  | ServiceConnects cas hs =>
      if tls then let s1 := fold_left accept_tls cas s in service_cxes cleans (cxes s1) hs s1
      else fold_left accept_plain cas s
  | ShutdownIx ca =>
      match lookup ca (ixes s) with
      | None => err s
      | Some i => with_sk s (upd (sk s) i shut1)
      end
  | CloseIx ca =>
      match lookup ca (ixes s) with
      | None => err s
      | Some i => with_released s (upd (sk s) i close1) [i]
      end
  | CloseAllIx => with_released s (fold_left (fun f p => upd f (snd p) close1) (ixes s) (sk s)) (map snd (ixes s))
  | PeerReset ca =>
      match lookup ca (ixes s) with
      | None => s
      | Some i => with_sk s (upd (sk s) i kill)
      end
  | RemoveIx ca shutclose =>
      match lookup ca (ixes s) with
      | None => err s
      | Some i =>
          {| next := next s;
             sk := if shutclose then upd (sk s) i close1 else sk s;
             ixes := aremove ca (ixes s); cxes := cxes s;
             detached := if shutclose then detached s else i :: detached s;
             errors := errors s; hfails := hfails s; wedged := wedged s; hraised := hraised s;
             released := if shutclose then i :: released s else released s |}
      end
  end.

Definition run (tls : bool) (cleans : mode) (ops : list op) : srv := fold_left (step tls cleans) ops init.

(* ------------------------------------------------------------------ specification predicates *)
Definition keys (l : alist) : list Z := map fst l.
Definition ids (l : alist) : list nat := map snd l.

(* every incomer the server still references, or that the caller took over with shutclose=False *)
Definition referenced (s : srv) : list nat := ids (ixes s) ++ ids (cxes s) ++ detached s.

Record table_ok (s : srv) : Prop := {
  ok_ixes_functional : NoDup (keys (ixes s));          (* one entry per peer address *)
  ok_cxes_functional : NoDup (keys (cxes s));
  ok_ids_bounded : forall i, In i (referenced s) -> i < next s;
  ok_no_orphan_open : forall i, i < next s -> sk s i = Open -> In i (referenced s)
}.

(* one table slot per incomer *)
Definition ids_distinct (s : srv) : Prop := NoDup (ids (ixes s) ++ ids (cxes s)).

(* every connection still waiting for its TLS handshake is alive: the pending table holds no entry
   whose socket the server has closed *)
Definition pending_live (s : srv) : Prop :=
  forall ca cx, lookup ca (cxes s) = Some cx -> sk s cx = Open.

(* observation used by the correspondence: socket states of all incomers created so far *)
Definition sock_states (s : srv) : list sock := map (sk s) (seq 0 (next s)).

(* the table has an entry for peer address ca *)
Definition has_entry (ca : Z) (l : alist) : Prop := lookup ca l <> None.

(* every incomer the server has shutclosed (closeIx, closeAllIx, removeIx(shutclose=True), failed TLS
   handshake) has a CLOSED socket -- whatever its shutdown() did *)
Definition released_closed (s : srv) : Prop := forall i, In i (released s) -> sk s i = Closed.
