(* C26 -- every incomer the server has shutclosed has a CLOSED socket, whatever shutdown() did
   (the socket may have been reset by its peer, so that shutdown() raised). *)
From Coq Require Import List ZArith Bool Arith Lia.
Import ListNotations.
Require Import V.C26.Model V.C26.Proofs.

Definition rel (s : srv) : Prop := forall i, In i (released s) -> i < next s /\ sk s i = Closed.

Lemma upd_keeps_closed f i g j : (g Closed = Closed) -> f j = Closed -> upd f i g j = Closed.
Proof. unfold upd. intros Hg Hf. destruct (Nat.eqb j i); [rewrite Hf; exact Hg|exact Hf]. Qed.

Lemma shut_opt_keeps_closed o f j : f j = Closed -> shut_opt o f j = Closed.
Proof. destruct o; cbn; [apply upd_keeps_closed; reflexivity|auto]. Qed.

Lemma rel_accept (acc : srv -> Z -> srv) :
  (forall s ca, next (acc s ca) = S (next s) /\ released (acc s ca) = released s /\
                exists o, sk (acc s ca) = upd (shut_opt o (sk s)) (next s) (fun _ => Open)) ->
  forall s ca, rel s -> rel (acc s ca).
Proof.
  intros Ha s ca R i Hi. destruct (Ha s ca) as [Hn [Hr [o Hs]]]. rewrite Hr in Hi.
  destruct (R i Hi) as [Hb Hc]. rewrite Hn, Hs. split; [lia|].
  unfold upd. destruct (Nat.eqb i (next s)) eqn:E; [apply Nat.eqb_eq in E; lia|].
  apply shut_opt_keeps_closed. exact Hc.
Qed.

Lemma rel_accept_plain s ca : rel s -> rel (accept_plain s ca).
Proof. apply rel_accept. intros s0 c. cbn. repeat split. eexists. reflexivity. Qed.
Lemma rel_accept_tls s ca : rel s -> rel (accept_tls s ca).
Proof. apply rel_accept. intros s0 c. cbn. repeat split. eexists. reflexivity. Qed.

Lemma rel_promote s ca cx : rel s -> rel (promote s ca cx).
Proof.
  intros R i Hi. cbn [promote released next sk] in *. destruct (R i Hi) as [Hb Hc]. split; [exact Hb|].
  apply shut_opt_keeps_closed. exact Hc.
Qed.

Lemma rel_failed d p s ca cx : cx < next s -> rel s -> rel (handshake_failed d p s ca cx).
Proof.
  intros Hcx R i Hi. cbn [handshake_failed released next sk] in *. destruct Hi as [E|Hi].
  - subst. split; [exact Hcx|]. unfold upd. rewrite Nat.eqb_refl. reflexivity.
  - destruct (R i Hi) as [Hb Hc]. split; [exact Hb|]. apply upd_keeps_closed; [reflexivity|exact Hc].
Qed.

Lemma rel_service_cxes m : forall snap hs s,
  NoDup (keys snap) -> (forall ca cx, In (ca, cx) snap -> lookup ca (cxes s) = Some cx) ->
  table_ok s -> rel s -> rel (service_cxes m snap hs s).
Proof.
  induction snap as [|[ca cx] snap IH]; intros hs s Hd Hl Hs R; cbn [service_cxes]; [exact R|].
  inversion Hd as [|? ? Hn Hd']; subst.
  assert (L : lookup ca (cxes s) = Some cx) by (apply Hl; left; reflexivity).
  assert (Hcx : cx < next s).
  { apply (ok_ids_bounded _ Hs). apply in_referenced. right. left. eapply lookup_in_ids. exact L. }
  assert (Hrest : forall ca' cx', In (ca', cx') snap -> lookup ca' (cxes s) = Some cx')
    by (intros; apply Hl; right; assumption).
  assert (Hne : forall ca' cx', In (ca', cx') snap -> ca' <> ca).
  { intros ca' cx' Hin E. subst. apply Hn. change ca with (fst (ca, cx')). apply in_map. exact Hin. }
  assert (Hprom : forall hs', rel (service_cxes m snap hs' (promote s ca cx))).
  { intro hs'. apply IH; [exact Hd'| |apply ok_promote; assumption|apply rel_promote; exact R].
    intros ca' cx' Hin. cbn [promote cxes]. rewrite lookup_aremove_other; [apply Hrest; exact Hin|eapply Hne; exact Hin]. }
  assert (Hcont : forall hs', rel (service_cxes m snap hs' (handshake_failed true false s ca cx))).
  { intro hs'. apply IH; [exact Hd'| |apply ok_handshake_failed; assumption|apply rel_failed; assumption].
    intros ca' cx' Hin. cbn [handshake_failed cxes]. rewrite lookup_aremove_other; [apply Hrest; exact Hin|eapply Hne; exact Hin]. }
  destruct (sk s cx); [| | |exact R];
    (destruct hs as [|[| |] hs];
     [apply IH; assumption | apply Hprom | apply IH; assumption
     | destruct m; [apply rel_failed; assumption|apply rel_failed; assumption|apply Hcont]]).
Qed.

Lemma fold_ok_rel (f : srv -> Z -> srv) :
  (forall s ca, table_ok s -> table_ok (f s ca)) -> (forall s ca, rel s -> rel (f s ca)) ->
  forall cas s, table_ok s -> rel s -> table_ok (fold_left f cas s) /\ rel (fold_left f cas s).
Proof.
  intros H1 H2. induction cas as [|c cas IH]; intros s Hs R; [auto|]. cbn. apply IH; auto.
Qed.

Lemma close_fold_closed (l : alist) : forall f j,
  (In j (ids l) \/ f j = Closed) -> fold_left (fun f (p : Z * nat) => upd f (snd p) close1) l f j = Closed.
Proof.
  unfold ids. induction l as [|[k v] l IH]; intros f j H; cbn in *; [tauto|].
  apply IH. destruct H as [[E|H]|H]; [right|left; exact H|right].
  - subst. unfold upd. rewrite Nat.eqb_refl. reflexivity.
  - apply upd_keeps_closed; [reflexivity|exact H].
Qed.

Lemma rel_step tls m s o : table_ok s -> rel s -> rel (step tls m s o).
Proof.
  intros Hs R. destruct o as [cas hs|ca|ca| |ca sc|ca]; cbn [step].
  - destruct tls.
    + destruct (fold_ok_rel accept_tls ok_accept_tls rel_accept_tls cas s Hs R) as [H1 R1].
      apply rel_service_cxes; [apply (ok_cxes_functional _ H1)| |exact H1|exact R1].
      intros ca cx Hin. apply lookup_of_in; [apply (ok_cxes_functional _ H1)|exact Hin].
    + apply (fold_ok_rel accept_plain ok_accept_plain rel_accept_plain cas s Hs R).
  - destruct (lookup ca (ixes s)); [|exact R]. intros i Hi. cbn in *. destruct (R i Hi). split; [assumption|].
    apply upd_keeps_closed; [reflexivity|assumption].
  - destruct (lookup ca (ixes s)) as [i0|] eqn:L; [|exact R]. intros i Hi. cbn [with_released released next sk app] in *.
    destruct Hi as [E|Hi].
    + subst. split; [|unfold upd; rewrite Nat.eqb_refl; reflexivity].
      apply (ok_ids_bounded _ Hs). apply in_referenced. left. eapply lookup_in_ids. exact L.
    + destruct (R i Hi). split; [assumption|]. apply upd_keeps_closed; [reflexivity|assumption].
  - intros i Hi. cbn [with_released released next sk] in *. apply in_app_or in Hi. destruct Hi as [Hi|Hi].
    + split; [apply (ok_ids_bounded _ Hs); apply in_referenced; left; exact Hi|].
      apply close_fold_closed. left. exact Hi.
    + destruct (R i Hi). split; [assumption|]. apply close_fold_closed. right. assumption.
  - destruct (lookup ca (ixes s)) as [i0|] eqn:L; [|exact R]. intros i Hi. cbn [released next sk] in *.
    destruct sc.
    + destruct Hi as [E|Hi].
      * subst. split; [|unfold upd; rewrite Nat.eqb_refl; reflexivity].
        apply (ok_ids_bounded _ Hs). apply in_referenced. left. eapply lookup_in_ids. exact L.
      * destruct (R i Hi). split; [assumption|]. apply upd_keeps_closed; [reflexivity|assumption].
    + exact (R i Hi).
  - destruct (lookup ca (ixes s)); [|exact R]. intros i Hi. cbn in *. destruct (R i Hi). split; [assumption|].
    apply upd_keeps_closed; [reflexivity|assumption].
Qed.

Lemma released_closed_run tls m ops : released_closed (run tls m ops).
Proof.
  unfold run.
  assert (G : forall ops s, table_ok s -> rel s ->
              table_ok (fold_left (step tls m) ops s) /\ rel (fold_left (step tls m) ops s)).
  { induction ops0 as [|o ops0 IH]; intros s Hs R; [auto|]. cbn [fold_left].
    apply IH; [apply ok_step; exact Hs|apply rel_step; assumption]. }
  destruct (G ops init ok_init) as [_ R]; [intros i []|].
  intros i Hi. exact (proj2 (R i Hi)).
Qed.
