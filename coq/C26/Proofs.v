(* C26 -- proofs about the connection-table model *)
From Coq Require Import List ZArith Bool Arith Lia.
Import ListNotations.
Require Import V.C26.Model.

(* ------------------------------------------------------------------ association lists *)
Lemma lookup_in_ids k l i : lookup k l = Some i -> In i (ids l).
Proof.
  try unfold keys; try unfold ids.
  induction l as [|[k' v] l IH]; cbn; [discriminate|].
  destruct (Z.eqb k k'); intro H; [inversion H; auto|right; auto].
Qed.

Lemma lookup_in_keys k l i : lookup k l = Some i -> In k (keys l).
Proof.
  try unfold keys; try unfold ids.
  induction l as [|[k' v] l IH]; cbn; [discriminate|].
  destruct (Z.eqb k k') eqn:E; intro H; [apply Z.eqb_eq in E; auto|right; auto].
Qed.

Lemma lookup_none_keys k l : lookup k l = None -> ~ In k (keys l).
Proof.
  try unfold keys; try unfold ids.
  induction l as [|[k' v] l IH]; cbn; [tauto|].
  destruct (Z.eqb k k') eqn:E; [discriminate|]. intros H [H1|H1].
  - subst. rewrite Z.eqb_refl in E. discriminate.
  - exact (IH H H1).
Qed.

Lemma keys_aset_in k v l x : In x (keys (aset k v l)) -> x = k \/ In x (keys l).
Proof.
  try unfold keys; try unfold ids.
  induction l as [|[k' v'] l IH]; cbn.
  - intros [H|[]]; auto.
  - destruct (Z.eqb k k') eqn:E; cbn.
    + intros [H|H]; auto.
    + intros [H|H]; auto. destruct (IH H); auto.
Qed.

Lemma nodup_aset k v l : NoDup (keys l) -> NoDup (keys (aset k v l)).
Proof.
  try unfold keys; try unfold ids.
  induction l as [|[k' v'] l IH]; cbn; intro H.
  - constructor; [tauto|constructor].
  - inversion H as [|? ? Hn Hd]; subst. destruct (Z.eqb k k') eqn:E; cbn.
    + constructor; assumption.
    + constructor; [|apply IH; exact Hd]. intro Hin. apply keys_aset_in in Hin.
      destruct Hin as [Hin|Hin]; [|exact (Hn Hin)]. subst. rewrite Z.eqb_refl in E. discriminate.
Qed.

Lemma keys_aset_present k v l i : lookup k l = Some i -> keys (aset k v l) = keys l.
Proof.
  try unfold keys; try unfold ids.
  induction l as [|[k' v'] l IH]; cbn; [discriminate|].
  destruct (Z.eqb k k') eqn:E; cbn; [reflexivity|]. intro H. rewrite (IH H). reflexivity.
Qed.

Lemma keys_aremove_in k l x : In x (keys (aremove k l)) -> In x (keys l).
Proof.
  try unfold keys; try unfold ids.
  induction l as [|[k' v'] l IH]; cbn; [tauto|].
  destruct (Z.eqb k k'); cbn; [auto|]. intros [H|H]; auto.
Qed.

Lemma nodup_aremove k l : NoDup (keys l) -> NoDup (keys (aremove k l)).
Proof.
  try unfold keys; try unfold ids.
  induction l as [|[k' v'] l IH]; cbn; intro H; [constructor|].
  inversion H as [|? ? Hn Hd]; subst. destruct (Z.eqb k k'); cbn; [exact Hd|].
  constructor; [|apply IH; exact Hd]. intro Hin. apply Hn. eapply keys_aremove_in. exact Hin.
Qed.

Lemma ids_aset_in k v l i : In i (ids (aset k v l)) -> i = v \/ In i (ids l).
Proof.
  try unfold keys; try unfold ids.
  induction l as [|[k' v'] l IH]; cbn.
  - intros [H|[]]; auto.
  - destruct (Z.eqb k k'); cbn.
    + intros [H|H]; auto.
    + intros [H|H]; auto. destruct (IH H); auto.
Qed.

Lemma ids_aset_new k v l : In v (ids (aset k v l)).
Proof.
  try unfold keys; try unfold ids.
  induction l as [|[k' v'] l IH]; cbn; [auto|].
  destruct (Z.eqb k k'); cbn; auto.
Qed.

(* assigning a key drops at most the incomer that was stored under it *)
Lemma ids_aset_keep k v l i : In i (ids l) -> In i (ids (aset k v l)) \/ lookup k l = Some i.
Proof.
  try unfold keys; try unfold ids.
  induction l as [|[k' v'] l IH]; cbn; [tauto|].
  destruct (Z.eqb k k'); cbn.
  - intros [H|H]; [right; subst; reflexivity|left; auto].
  - intros [H|H]; [left; auto|]. destruct (IH H); auto.
Qed.

Lemma ids_aremove_in k l i : In i (ids (aremove k l)) -> In i (ids l).
Proof.
  try unfold keys; try unfold ids.
  induction l as [|[k' v'] l IH]; cbn; [tauto|].
  destruct (Z.eqb k k'); cbn; [auto|]. intros [H|H]; auto.
Qed.

Lemma ids_aremove_keep k l i : In i (ids l) -> In i (ids (aremove k l)) \/ lookup k l = Some i.
Proof.
  try unfold keys; try unfold ids.
  induction l as [|[k' v'] l IH]; cbn; [tauto|].
  destruct (Z.eqb k k'); cbn.
  - intros [H|H]; [right; subst; reflexivity|left; auto].
  - intros [H|H]; [left; auto|]. destruct (IH H); auto.
Qed.

Lemma lookup_aset_same k v l : lookup k (aset k v l) = Some v.
Proof.
  try unfold keys; try unfold ids.
  induction l as [|[k' v'] l IH]; cbn; [rewrite Z.eqb_refl; reflexivity|].
  destruct (Z.eqb k k') eqn:E; cbn; rewrite E; [reflexivity|exact IH].
Qed.

Lemma lookup_aset_other k k2 v l : k2 <> k -> lookup k2 (aset k v l) = lookup k2 l.
Proof.
  try unfold keys; try unfold ids.
  intro Hn. induction l as [|[k' v'] l IH]; cbn.
  - destruct (Z.eqb k2 k) eqn:E; [apply Z.eqb_eq in E; congruence|reflexivity].
  - destruct (Z.eqb k k') eqn:E; cbn.
    + apply Z.eqb_eq in E. subst k'. destruct (Z.eqb k2 k) eqn:E2; [apply Z.eqb_eq in E2; congruence|reflexivity].
    + rewrite IH. reflexivity.
Qed.

Lemma lookup_aremove_same k l : NoDup (keys l) -> lookup k (aremove k l) = None.
Proof.
  try unfold keys; try unfold ids.
  induction l as [|[k' v'] l IH]; cbn; intro H; [reflexivity|].
  inversion H as [|? ? Hn Hd]; subst. destruct (Z.eqb k k') eqn:E; cbn.
  - apply Z.eqb_eq in E. subst k'. destruct (lookup k l) eqn:L; [|reflexivity].
    exfalso. apply Hn. eapply lookup_in_keys. exact L.
  - rewrite E. apply IH. exact Hd.
Qed.

Lemma lookup_aremove_other k k2 l : k2 <> k -> lookup k2 (aremove k l) = lookup k2 l.
Proof.
  try unfold keys; try unfold ids.
  intro Hn. induction l as [|[k' v'] l IH]; cbn; [reflexivity|].
  destruct (Z.eqb k k') eqn:E; cbn.
  - apply Z.eqb_eq in E. subst k'. destruct (Z.eqb k2 k) eqn:E2; [apply Z.eqb_eq in E2; congruence|reflexivity].
  - rewrite IH. reflexivity.
Qed.

Lemma lookup_of_in k v l : NoDup (keys l) -> In (k, v) l -> lookup k l = Some v.
Proof.
  try unfold keys; try unfold ids.
  induction l as [|[k' v'] l IH]; cbn; intros Hd H; [tauto|].
  inversion Hd as [|? ? Hn Hd']; subst. destruct H as [H|H].
  - inversion H; subst. rewrite Z.eqb_refl. reflexivity.
  - destruct (Z.eqb k k') eqn:E.
    + apply Z.eqb_eq in E. subst k'. exfalso. apply Hn. change k with (fst (k, v)). apply in_map. exact H.
    + apply IH; assumption.
Qed.

(* ------------------------------------------------------------------ socket states *)
Lemma shut1_not_open s : shut1 s <> Open.
Proof. destruct s; discriminate. Qed.

Lemma upd_open_inv f i g j : (forall x, g x <> Open) -> upd f i g j = Open -> j <> i /\ f j = Open.
Proof.
  unfold upd. intros Hg H. destruct (Nat.eqb j i) eqn:E.
  - exfalso. exact (Hg _ H).
  - apply Nat.eqb_neq in E. auto.
Qed.

Lemma shut_opt_open_inv o f j : shut_opt o f j = Open -> f j = Open /\ o <> Some j.
Proof.
  destruct o as [i|]; cbn; intro H.
  - apply upd_open_inv in H; [|apply shut1_not_open]. destruct H. split; [assumption|congruence].
  - split; [assumption|discriminate].
Qed.

Lemma close_fold_open_inv (l : alist) : forall f j,
  fold_left (fun f (p : Z * nat) => upd f (snd p) close1) l f j = Open -> f j = Open.
Proof.
  induction l as [|p l IH]; intros f j H; [exact H|]. cbn in H. apply IH in H.
  apply upd_open_inv in H; [tauto|]. intro x. discriminate.
Qed.

(* ------------------------------------------------------------------ the invariant *)
Lemma ok_init : table_ok init.
Proof. constructor; cbn; try constructor; intros; try tauto; lia. Qed.

Lemma in_referenced s i :
  In i (referenced s) <-> In i (ids (ixes s)) \/ In i (ids (cxes s)) \/ In i (detached s).
Proof. unfold referenced. rewrite !in_app_iff. tauto. Qed.

Lemma ok_accept_plain s ca : table_ok s -> table_ok (accept_plain s ca).
Proof.
  intros [H1 H2 H3 H4]. constructor; cbn [accept_plain ixes cxes next sk detached].
  - apply nodup_aset. exact H1.
  - exact H2.
  - intros i Hi. apply in_referenced in Hi. cbn in Hi. destruct Hi as [Hi|Hi].
    + apply ids_aset_in in Hi. destruct Hi as [Hi|Hi]; [lia|].
      assert (i < next s) by (apply H3; apply in_referenced; auto). lia.
    + assert (i < next s) by (apply H3; apply in_referenced; tauto). lia.
  - intros i Hi Ho. apply in_referenced. cbn.
    unfold upd in Ho. destruct (Nat.eqb i (next s)) eqn:E.
    + apply Nat.eqb_eq in E. subst. left. apply ids_aset_new.
    + apply Nat.eqb_neq in E. apply shut_opt_open_inv in Ho. destruct Ho as [Ho Hne].
      assert (Hr : In i (referenced s)) by (apply H4; [lia|exact Ho]).
      apply in_referenced in Hr. destruct Hr as [Hr|Hr]; [|auto].
      destruct (ids_aset_keep ca (next s) _ _ Hr) as [K|K]; [auto|congruence].
Qed.

Lemma ok_accept_tls s ca : table_ok s -> table_ok (accept_tls s ca).
Proof.
  intros [H1 H2 H3 H4]. constructor; cbn [accept_tls ixes cxes next sk detached].
  - exact H1.
  - apply nodup_aset. exact H2.
  - intros i Hi. apply in_referenced in Hi. cbn in Hi. destruct Hi as [Hi|[Hi|Hi]].
    + assert (i < next s) by (apply H3; apply in_referenced; tauto). lia.
    + apply ids_aset_in in Hi. destruct Hi as [Hi|Hi]; [lia|].
      assert (i < next s) by (apply H3; apply in_referenced; auto). lia.
    + assert (i < next s) by (apply H3; apply in_referenced; tauto). lia.
  - intros i Hi Ho. apply in_referenced. cbn.
    unfold upd in Ho. destruct (Nat.eqb i (next s)) eqn:E.
    + apply Nat.eqb_eq in E. subst. right. left. apply ids_aset_new.
    + apply Nat.eqb_neq in E. apply shut_opt_open_inv in Ho. destruct Ho as [Ho Hne].
      assert (Hr : In i (referenced s)) by (apply H4; [lia|exact Ho]).
      apply in_referenced in Hr. destruct Hr as [Hr|[Hr|Hr]]; [auto| |auto].
      destruct (ids_aset_keep ca (next s) _ _ Hr) as [K|K]; [auto|congruence].
Qed.

Lemma ok_promote s ca cx : lookup ca (cxes s) = Some cx -> table_ok s -> table_ok (promote s ca cx).
Proof.
  intros L [H1 H2 H3 H4]. constructor; cbn [promote ixes cxes next sk detached].
  - apply nodup_aset. exact H1.
  - apply nodup_aremove. exact H2.
  - intros i Hi. apply in_referenced in Hi. cbn in Hi. apply H3. apply in_referenced.
    destruct Hi as [Hi|[Hi|Hi]]; [|right; left; eapply ids_aremove_in; exact Hi|auto].
    apply ids_aset_in in Hi. destruct Hi as [Hi|Hi]; [|auto].
    subst. right. left. eapply lookup_in_ids. exact L.
  - intros i Hi Ho. apply in_referenced. cbn. apply shut_opt_open_inv in Ho. destruct Ho as [Ho Hne].
    assert (Hr : In i (referenced s)) by (apply H4; assumption).
    apply in_referenced in Hr. destruct Hr as [Hr|[Hr|Hr]]; [| |auto].
    + destruct (ids_aset_keep ca cx _ _ Hr) as [K|K]; [auto|]. rewrite K in Hne.
      destruct (Nat.eqb i cx) eqn:E; [|congruence].
      apply Nat.eqb_eq in E. subst. left. apply ids_aset_new.
    + destruct (ids_aremove_keep ca _ _ Hr) as [K|K]; [auto|].
      rewrite K in L. inversion L; subst. left. apply ids_aset_new.
Qed.

Lemma ok_service_cxes : forall snap hs s,
  NoDup (keys snap) -> (forall ca cx, In (ca, cx) snap -> lookup ca (cxes s) = Some cx) ->
  table_ok s -> table_ok (service_cxes snap hs s).
Proof.
  induction snap as [|[ca cx] snap IH]; intros hs s Hd Hl Hs; cbn [service_cxes]; [exact Hs|].
  inversion Hd as [|? ? Hn Hd']; subst.
  destruct hs as [|[|] hs]; [exact Hs| |].
  - apply IH; [exact Hd'| |apply ok_promote; [apply Hl; left; reflexivity|exact Hs]].
    intros ca' cx' Hin. cbn [promote cxes]. rewrite lookup_aremove_other.
    + apply Hl. right. exact Hin.
    + intro; subst. apply Hn. change ca with (fst (ca, cx')). apply in_map. exact Hin.
  - apply IH; [exact Hd'| |exact Hs]. intros ca' cx' Hin. apply Hl. right. exact Hin.
Qed.

Lemma ok_fold_accept (f : srv -> Z -> srv) :
  (forall s ca, table_ok s -> table_ok (f s ca)) ->
  forall cas s, table_ok s -> table_ok (fold_left f cas s).
Proof. intros Hf. induction cas as [|ca cas IH]; intros s Hs; [exact Hs|]. cbn. apply IH. apply Hf. exact Hs. Qed.

Lemma ok_with_sk s f :
  (forall j, f j = Open -> sk s j = Open) -> table_ok s -> table_ok (with_sk s f).
Proof.
  intros Hf [H1 H2 H3 H4]. constructor; cbn; try assumption.
  intros i Hi Ho. apply H4; [exact Hi|apply Hf; exact Ho].
Qed.

Lemma ok_err s : table_ok s -> table_ok (err s).
Proof. intros [H1 H2 H3 H4]. constructor; cbn; assumption. Qed.

Lemma ok_step tls s o : table_ok s -> table_ok (step tls s o).
Proof.
  intro Hs. destruct o as [cas hs|ca|ca| |ca sc]; cbn [step].
  - destruct tls.
    + assert (H1 : table_ok (fold_left accept_tls cas s)) by (apply ok_fold_accept; [apply ok_accept_tls|exact Hs]).
      apply ok_service_cxes; [apply (ok_cxes_functional _ H1)| |exact H1].
      intros ca cx Hin. apply lookup_of_in; [apply (ok_cxes_functional _ H1)|exact Hin].
    + apply ok_fold_accept; [apply ok_accept_plain|exact Hs].
  - destruct (lookup ca (ixes s)); [|apply ok_err; exact Hs].
    apply ok_with_sk; [|exact Hs]. intros j H. apply upd_open_inv in H; [tauto|apply shut1_not_open].
  - destruct (lookup ca (ixes s)); [|apply ok_err; exact Hs].
    apply ok_with_sk; [|exact Hs]. intros j H. apply upd_open_inv in H; [tauto|]. intro; discriminate.
  - apply ok_with_sk; [|exact Hs]. intros j H. eapply close_fold_open_inv. exact H.
  - destruct (lookup ca (ixes s)) as [i|] eqn:L; [|apply ok_err; exact Hs].
    destruct Hs as [H1 H2 H3 H4]. constructor; cbn [ixes cxes next sk detached].
    + apply nodup_aremove. exact H1.
    + exact H2.
    + intros j Hj. apply H3. apply in_referenced. apply in_referenced in Hj. cbn in Hj.
      destruct Hj as [Hj|[Hj|Hj]]; [left; eapply ids_aremove_in; exact Hj|auto|].
      destruct sc; [auto|]. destruct Hj as [Hj|Hj]; [|auto]. subst. left. eapply lookup_in_ids. exact L.
    + intros j Hj Ho. apply in_referenced. cbn.
      assert (Ho' : sk s j = Open /\ (sc = true -> j <> i)).
      { destruct sc; [|split; [exact Ho|discriminate]].
        apply upd_open_inv in Ho; [|intro; discriminate]. destruct Ho. split; auto. }
      destruct Ho' as [Ho1 Ho2].
      assert (Hr : In j (referenced s)) by (apply H4; assumption).
      apply in_referenced in Hr. destruct Hr as [Hr|[Hr|Hr]]; [|auto|destruct sc; cbn; auto].
      destruct (ids_aremove_keep ca _ _ Hr) as [K|K]; [auto|].
      rewrite K in L. inversion L; subst. destruct sc; [exfalso; apply Ho2; reflexivity|].
      right. right. left. reflexivity.
Qed.

Lemma ok_run tls ops : table_ok (run tls ops).
Proof.
  unfold run. assert (G : forall ops s, table_ok s -> table_ok (fold_left (step tls) ops s)).
  { induction ops0 as [|o ops0 IH]; intros s Hs; [exact Hs|]. cbn. apply IH. apply ok_step. exact Hs. }
  apply G. apply ok_init.
Qed.

(* ------------------------------------------------------------------ re-accept and remove *)
Lemma reaccept_plain s ca old hs :
  table_ok s -> lookup ca (ixes s) = Some old ->
  let s' := step false s (ServiceConnects [ca] hs) in
  errors s' = errors s /\ lookup ca (ixes s') = Some (next s) /\ keys (ixes s') = keys (ixes s) /\
  sk s' old <> Open /\ sk s' (next s) = Open /\
  (forall ca2, ca2 <> ca -> lookup ca2 (ixes s') = lookup ca2 (ixes s)).
Proof.
  intros Hs L. cbn [step fold_left accept_plain errors ixes sk].
  assert (Hb : old < next s).
  { apply (ok_ids_bounded _ Hs). apply in_referenced. left. eapply lookup_in_ids. exact L. }
  repeat split.
  - apply lookup_aset_same.
  - eapply keys_aset_present. exact L.
  - rewrite L. cbn. unfold upd. destruct (Nat.eqb old (next s)) eqn:E; [apply Nat.eqb_eq in E; lia|].
    rewrite Nat.eqb_refl. apply shut1_not_open.
  - unfold upd. rewrite Nat.eqb_refl. reflexivity.
  - intros ca2 Hn. apply lookup_aset_other. exact Hn.
Qed.

Lemma reaccept_tls s ca old :
  table_ok s -> lookup ca (ixes s) = Some old -> cxes s = [] ->
  let s' := step true s (ServiceConnects [ca] [true]) in
  errors s' = errors s /\ lookup ca (ixes s') = Some (next s) /\ keys (ixes s') = keys (ixes s) /\
  cxes s' = [] /\ sk s' old <> Open /\ sk s' (next s) = Open.
Proof.
  intros Hs L C. cbn [step fold_left accept_tls cxes]. rewrite C. cbn [lookup aset service_cxes].
  cbn [promote errors ixes cxes sk next accept_tls shut_opt]. rewrite L.
  assert (Hb : old < next s).
  { apply (ok_ids_bounded _ Hs). apply in_referenced. left. eapply lookup_in_ids. exact L. }
  destruct (Nat.eqb old (next s)) eqn:E; [apply Nat.eqb_eq in E; lia|].
  repeat split.
  - apply lookup_aset_same.
  - eapply keys_aset_present. exact L.
  - rewrite C. cbn. rewrite Z.eqb_refl. reflexivity.
  - rewrite C. cbn. unfold upd. rewrite Nat.eqb_refl. apply shut1_not_open.
  - rewrite C. cbn. unfold upd. apply Nat.eqb_neq in E.
    destruct (Nat.eqb (next s) old) eqn:E2; [apply Nat.eqb_eq in E2; lia|]. rewrite Nat.eqb_refl. reflexivity.
Qed.

Lemma remove_closes tls s ca i :
  table_ok s -> lookup ca (ixes s) = Some i ->
  let s' := step tls s (RemoveIx ca true) in
  errors s' = errors s /\ lookup ca (ixes s') = None /\ sk s' i = Closed /\
  (forall ca2, ca2 <> ca -> lookup ca2 (ixes s') = lookup ca2 (ixes s)).
Proof.
  intros Hs L. cbn [step]. rewrite L. cbn [errors ixes sk]. repeat split.
  - apply lookup_aremove_same. apply (ok_ixes_functional _ Hs).
  - unfold upd. rewrite Nat.eqb_refl. reflexivity.
  - intros ca2 Hn. apply lookup_aremove_other. exact Hn.
Qed.

Lemma unknown_address_rejected tls s ca :
  lookup ca (ixes s) = None ->
  step tls s (RemoveIx ca true) = err s /\ step tls s (CloseIx ca) = err s /\
  step tls s (ShutdownIx ca) = err s.
Proof. intro L. cbn [step]. rewrite L. auto. Qed.

(* ------------------------------------------------------------------ every accepted peer gets an entry *)

Lemma has_entry_aset ca k v l : ca = k \/ has_entry ca l -> has_entry ca (aset k v l).
Proof.
  unfold has_entry. intros [H|H].
  - subst. rewrite lookup_aset_same. discriminate.
  - destruct (Z.eq_dec ca k) as [E|E]; [subst; rewrite lookup_aset_same; discriminate|].
    rewrite lookup_aset_other; assumption.
Qed.

Lemma fold_accept_plain_entries : forall cas s ca,
  In ca cas \/ has_entry ca (ixes s) -> has_entry ca (ixes (fold_left accept_plain cas s)).
Proof.
  induction cas as [|c cas IH]; intros s ca H; cbn [fold_left].
  - destruct H as [[]|H]. exact H.
  - apply IH. destruct H as [[H|H]|H]; [right|left; exact H|right].
    + subst. cbn [accept_plain ixes]. apply has_entry_aset. left. reflexivity.
    + cbn [accept_plain ixes]. apply has_entry_aset. right. exact H.
Qed.

Lemma fold_accept_tls_entries : forall cas s ca,
  In ca cas \/ has_entry ca (cxes s) -> has_entry ca (cxes (fold_left accept_tls cas s)).
Proof.
  induction cas as [|c cas IH]; intros s ca H; cbn [fold_left].
  - destruct H as [[]|H]. exact H.
  - apply IH. destruct H as [[H|H]|H]; [right|left; exact H|right].
    + subst. cbn [accept_tls cxes]. apply has_entry_aset. left. reflexivity.
    + cbn [accept_tls cxes]. apply has_entry_aset. right. exact H.
Qed.

(* serviceCxes only moves entries from the pending to the ready table *)
Lemma service_cxes_keeps_entries : forall snap hs s ca,
  has_entry ca (ixes s) \/ has_entry ca (cxes s) ->
  (forall k v, In (k, v) snap -> lookup k (cxes s) = Some v) -> NoDup (keys snap) ->
  has_entry ca (ixes (service_cxes snap hs s)) \/ has_entry ca (cxes (service_cxes snap hs s)).
Proof.
  induction snap as [|[k v] snap IH]; intros hs s ca H Hl Hd; cbn [service_cxes]; [exact H|].
  inversion Hd as [|? ? Hn Hd']; subst.
  destruct hs as [|[|] hs]; [exact H| |].
  - apply IH; [| |exact Hd'].
    + cbn [promote ixes cxes]. destruct (Z.eq_dec ca k) as [E|E].
      * left. apply has_entry_aset. left. exact E.
      * destruct H as [H|H]; [left; apply has_entry_aset; right; exact H|].
        right. unfold has_entry. rewrite lookup_aremove_other; assumption.
    + intros k' v' Hin. cbn [promote cxes]. rewrite lookup_aremove_other.
      * apply Hl. right. exact Hin.
      * intro; subst. apply Hn. change k with (fst (k, v')). apply in_map. exact Hin.
  - apply IH; [exact H| |exact Hd']. intros k' v' Hin. apply Hl. right. exact Hin.
Qed.

Lemma accepted_have_entries tls s cas hs ca :
  table_ok s -> In ca cas ->
  let s' := step tls s (ServiceConnects cas hs) in
  has_entry ca (ixes s') \/ (tls = true /\ has_entry ca (cxes s')).
Proof.
  intros Hs Hin. cbn [step]. destruct tls.
  - assert (H1 : table_ok (fold_left accept_tls cas s)) by (apply ok_fold_accept; [apply ok_accept_tls|exact Hs]).
    destruct (service_cxes_keeps_entries (cxes (fold_left accept_tls cas s)) hs (fold_left accept_tls cas s) ca) as [H|H].
    + right. apply fold_accept_tls_entries. left. exact Hin.
    + intros k v Hi. apply lookup_of_in; [apply (ok_cxes_functional _ H1)|exact Hi].
    + apply (ok_cxes_functional _ H1).
    + left. exact H.
    + right. split; [reflexivity|exact H].
  - left. apply fold_accept_plain_entries. left. exact Hin.
Qed.
