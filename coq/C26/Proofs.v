(* C26 -- proofs about the connection-table model *)
From Coq Require Import List ZArith Bool Arith Lia.
Import ListNotations.
Require Import V.C26.Model.

(* ------------------------------------------------------------------ association lists *)
Lemma lookup_in_ids k l i : lookup k l = Some i -> In i (ids l).
Proof.
  try unfold keys; try unfold ids.
  induction l as [|[k' v] l IH]; cbn; [discriminate|].
  destruct (Z.eqb k k'); intro H; [inversion H; auto|right; auto].
Qed.

Lemma lookup_in_keys k l i : lookup k l = Some i -> In k (keys l).
Proof.
  try unfold keys; try unfold ids.
  induction l as [|[k' v] l IH]; cbn; [discriminate|].
  destruct (Z.eqb k k') eqn:E; intro H; [apply Z.eqb_eq in E; auto|right; auto].
Qed.

Lemma lookup_none_keys k l : lookup k l = None -> ~ In k (keys l).
Proof.
  try unfold keys; try unfold ids.
  induction l as [|[k' v] l IH]; cbn; [tauto|].
  destruct (Z.eqb k k') eqn:E; [discriminate|]. intros H [H1|H1].
  - subst. rewrite Z.eqb_refl in E. discriminate.
  - exact (IH H H1).
Qed.

Lemma keys_aset_in k v l x : In x (keys (aset k v l)) -> x = k \/ In x (keys l).
Proof.
  try unfold keys; try unfold ids.
  induction l as [|[k' v'] l IH]; cbn.
  - intros [H|[]]; auto.
  - destruct (Z.eqb k k') eqn:E; cbn.
    + intros [H|H]; auto.
    + intros [H|H]; auto. destruct (IH H); auto.
Qed.

Lemma nodup_aset k v l : NoDup (keys l) -> NoDup (keys (aset k v l)).
Proof.
  try unfold keys; try unfold ids.
  induction l as [|[k' v'] l IH]; cbn; intro H.
  - constructor; [tauto|constructor].
  - inversion H as [|? ? Hn Hd]; subst. destruct (Z.eqb k k') eqn:E; cbn.
    + constructor; assumption.
    + constructor; [|apply IH; exact Hd]. intro Hin. apply keys_aset_in in Hin.
      destruct Hin as [Hin|Hin]; [|exact (Hn Hin)]. subst. rewrite Z.eqb_refl in E. discriminate.
Qed.

Lemma keys_aset_present k v l i : lookup k l = Some i -> keys (aset k v l) = keys l.
Proof.
  try unfold keys; try unfold ids.
  induction l as [|[k' v'] l IH]; cbn; [discriminate|].
  destruct (Z.eqb k k') eqn:E; cbn; [reflexivity|]. intro H. rewrite (IH H). reflexivity.
Qed.

Lemma keys_aremove_in k l x : In x (keys (aremove k l)) -> In x (keys l).
Proof.
  try unfold keys; try unfold ids.
  induction l as [|[k' v'] l IH]; cbn; [tauto|].
  destruct (Z.eqb k k'); cbn; [auto|]. intros [H|H]; auto.
Qed.

Lemma nodup_aremove k l : NoDup (keys l) -> NoDup (keys (aremove k l)).
Proof.
  try unfold keys; try unfold ids.
  induction l as [|[k' v'] l IH]; cbn; intro H; [constructor|].
  inversion H as [|? ? Hn Hd]; subst. destruct (Z.eqb k k'); cbn; [exact Hd|].
  constructor; [|apply IH; exact Hd]. intro Hin. apply Hn. eapply keys_aremove_in. exact Hin.
Qed.

Lemma ids_aset_in k v l i : In i (ids (aset k v l)) -> i = v \/ In i (ids l).
Proof.
  try unfold keys; try unfold ids.
  induction l as [|[k' v'] l IH]; cbn.
  - intros [H|[]]; auto.
  - destruct (Z.eqb k k'); cbn.
    + intros [H|H]; auto.
    + intros [H|H]; auto. destruct (IH H); auto.
Qed.

Lemma ids_aset_new k v l : In v (ids (aset k v l)).
Proof.
  try unfold keys; try unfold ids.
  induction l as [|[k' v'] l IH]; cbn; [auto|].
  destruct (Z.eqb k k'); cbn; auto.
Qed.

(* assigning a key drops at most the incomer that was stored under it *)
Lemma ids_aset_keep k v l i : In i (ids l) -> In i (ids (aset k v l)) \/ lookup k l = Some i.
Proof.
  try unfold keys; try unfold ids.
  induction l as [|[k' v'] l IH]; cbn; [tauto|].
  destruct (Z.eqb k k'); cbn.
  - intros [H|H]; [right; subst; reflexivity|left; auto].
  - intros [H|H]; [left; auto|]. destruct (IH H); auto.
Qed.

Lemma ids_aremove_in k l i : In i (ids (aremove k l)) -> In i (ids l).
Proof.
  try unfold keys; try unfold ids.
  induction l as [|[k' v'] l IH]; cbn; [tauto|].
  destruct (Z.eqb k k'); cbn; [auto|]. intros [H|H]; auto.
Qed.

Lemma ids_aremove_keep k l i : In i (ids l) -> In i (ids (aremove k l)) \/ lookup k l = Some i.
Proof.
  try unfold keys; try unfold ids.
  induction l as [|[k' v'] l IH]; cbn; [tauto|].
  destruct (Z.eqb k k'); cbn.
  - intros [H|H]; [right; subst; reflexivity|left; auto].
  - intros [H|H]; [left; auto|]. destruct (IH H); auto.
Qed.

Lemma lookup_aset_same k v l : lookup k (aset k v l) = Some v.
Proof.
  try unfold keys; try unfold ids.
  induction l as [|[k' v'] l IH]; cbn; [rewrite Z.eqb_refl; reflexivity|].
  destruct (Z.eqb k k') eqn:E; cbn; rewrite E; [reflexivity|exact IH].
Qed.

Lemma lookup_aset_other k k2 v l : k2 <> k -> lookup k2 (aset k v l) = lookup k2 l.
Proof.
  try unfold keys; try unfold ids.
  intro Hn. induction l as [|[k' v'] l IH]; cbn.
  - destruct (Z.eqb k2 k) eqn:E; [apply Z.eqb_eq in E; congruence|reflexivity].
  - destruct (Z.eqb k k') eqn:E; cbn.
    + apply Z.eqb_eq in E. subst k'. destruct (Z.eqb k2 k) eqn:E2; [apply Z.eqb_eq in E2; congruence|reflexivity].
    + rewrite IH. reflexivity.
Qed.

Lemma lookup_aremove_same k l : NoDup (keys l) -> lookup k (aremove k l) = None.
Proof.
  try unfold keys; try unfold ids.
  induction l as [|[k' v'] l IH]; cbn; intro H; [reflexivity|].
  inversion H as [|? ? Hn Hd]; subst. destruct (Z.eqb k k') eqn:E; cbn.
  - apply Z.eqb_eq in E. subst k'. destruct (lookup k l) eqn:L; [|reflexivity].
    exfalso. apply Hn. eapply lookup_in_keys. exact L.
  - rewrite E. apply IH. exact Hd.
Qed.

Lemma lookup_aremove_other k k2 l : k2 <> k -> lookup k2 (aremove k l) = lookup k2 l.
Proof.
  try unfold keys; try unfold ids.
  intro Hn. induction l as [|[k' v'] l IH]; cbn; [reflexivity|].
  destruct (Z.eqb k k') eqn:E; cbn.
  - apply Z.eqb_eq in E. subst k'. destruct (Z.eqb k2 k) eqn:E2; [apply Z.eqb_eq in E2; congruence|reflexivity].
  - rewrite IH. reflexivity.
Qed.

Lemma lookup_of_in k v l : NoDup (keys l) -> In (k, v) l -> lookup k l = Some v.
Proof.
  try unfold keys; try unfold ids.
  induction l as [|[k' v'] l IH]; cbn; intros Hd H; [tauto|].
  inversion Hd as [|? ? Hn Hd']; subst. destruct H as [H|H].
  - inversion H; subst. rewrite Z.eqb_refl. reflexivity.
  - destruct (Z.eqb k k') eqn:E.
    + apply Z.eqb_eq in E. subst k'. exfalso. apply Hn. change k with (fst (k, v)). apply in_map. exact H.
    + apply IH; assumption.
Qed.

(* ------------------------------------------------------------------ socket states *)
Lemma shut1_not_open s : shut1 s <> Open.
Proof. destruct s; discriminate. Qed.

Lemma upd_open_inv f i g j : (forall x, g x <> Open) -> upd f i g j = Open -> j <> i /\ f j = Open.
Proof.
  unfold upd. intros Hg H. destruct (Nat.eqb j i) eqn:E.
  - exfalso. exact (Hg _ H).
  - apply Nat.eqb_neq in E. auto.
Qed.

Lemma shut_opt_open_inv o f j : shut_opt o f j = Open -> f j = Open /\ o <> Some j.
Proof.
  destruct o as [i|]; cbn; intro H.
  - apply upd_open_inv in H; [|apply shut1_not_open]. destruct H. split; [assumption|congruence].
  - split; [assumption|discriminate].
Qed.

Lemma close_fold_open_inv (l : alist) : forall f j,
  fold_left (fun f (p : Z * nat) => upd f (snd p) close1) l f j = Open -> f j = Open.
Proof.
  induction l as [|p l IH]; intros f j H; [exact H|]. cbn in H. apply IH in H.
  apply upd_open_inv in H; [tauto|]. intro x. discriminate.
Qed.

(* ------------------------------------------------------------------ the invariant *)
Lemma ok_init : table_ok init.
Proof. constructor; cbn; try constructor; intros; try tauto; lia. Qed.

Lemma in_referenced s i :
  In i (referenced s) <-> In i (ids (ixes s)) \/ In i (ids (cxes s)) \/ In i (detached s).
Proof. unfold referenced. rewrite !in_app_iff. tauto. Qed.

Lemma ok_accept_plain s ca : table_ok s -> table_ok (accept_plain s ca).
Proof.
  intros [H1 H2 H3 H4]. constructor; cbn [accept_plain ixes cxes next sk detached].
  - apply nodup_aset. exact H1.
  - exact H2.
  - intros i Hi. apply in_referenced in Hi. cbn in Hi. destruct Hi as [Hi|Hi].
    + apply ids_aset_in in Hi. destruct Hi as [Hi|Hi]; [lia|].
      assert (i < next s) by (apply H3; apply in_referenced; auto). lia.
    + assert (i < next s) by (apply H3; apply in_referenced; tauto). lia.
  - intros i Hi Ho. apply in_referenced. cbn.
    unfold upd in Ho. destruct (Nat.eqb i (next s)) eqn:E.
    + apply Nat.eqb_eq in E. subst. left. apply ids_aset_new.
    + apply Nat.eqb_neq in E. apply shut_opt_open_inv in Ho. destruct Ho as [Ho Hne].
      assert (Hr : In i (referenced s)) by (apply H4; [lia|exact Ho]).
      apply in_referenced in Hr. destruct Hr as [Hr|Hr]; [|auto].
      destruct (ids_aset_keep ca (next s) _ _ Hr) as [K|K]; [auto|congruence].
Qed.

Lemma ok_accept_tls s ca : table_ok s -> table_ok (accept_tls s ca).
Proof.
  intros [H1 H2 H3 H4]. constructor; cbn [accept_tls ixes cxes next sk detached].
  - exact H1.
  - apply nodup_aset. exact H2.
  - intros i Hi. apply in_referenced in Hi. cbn in Hi. destruct Hi as [Hi|[Hi|Hi]].
    + assert (i < next s) by (apply H3; apply in_referenced; tauto). lia.
    + apply ids_aset_in in Hi. destruct Hi as [Hi|Hi]; [lia|].
      assert (i < next s) by (apply H3; apply in_referenced; auto). lia.
    + assert (i < next s) by (apply H3; apply in_referenced; tauto). lia.
  - intros i Hi Ho. apply in_referenced. cbn.
    unfold upd in Ho. destruct (Nat.eqb i (next s)) eqn:E.
    + apply Nat.eqb_eq in E. subst. right. left. apply ids_aset_new.
    + apply Nat.eqb_neq in E. apply shut_opt_open_inv in Ho. destruct Ho as [Ho Hne].
      assert (Hr : In i (referenced s)) by (apply H4; [lia|exact Ho]).
      apply in_referenced in Hr. destruct Hr as [Hr|[Hr|Hr]]; [auto| |auto].
      destruct (ids_aset_keep ca (next s) _ _ Hr) as [K|K]; [auto|congruence].
Qed.

Lemma ok_promote s ca cx : lookup ca (cxes s) = Some cx -> table_ok s -> table_ok (promote s ca cx).
Proof.
  intros L [H1 H2 H3 H4]. constructor; cbn [promote ixes cxes next sk detached].
  - apply nodup_aset. exact H1.
  - apply nodup_aremove. exact H2.
  - intros i Hi. apply in_referenced in Hi. cbn in Hi. apply H3. apply in_referenced.
    destruct Hi as [Hi|[Hi|Hi]]; [|right; left; eapply ids_aremove_in; exact Hi|auto].
    apply ids_aset_in in Hi. destruct Hi as [Hi|Hi]; [|auto].
    subst. right. left. eapply lookup_in_ids. exact L.
  - intros i Hi Ho. apply in_referenced. cbn. apply shut_opt_open_inv in Ho. destruct Ho as [Ho Hne].
    assert (Hr : In i (referenced s)) by (apply H4; assumption).
    apply in_referenced in Hr. destruct Hr as [Hr|[Hr|Hr]]; [| |auto].
    + destruct (ids_aset_keep ca cx _ _ Hr) as [K|K]; [auto|]. rewrite K in Hne.
      destruct (Nat.eqb i cx) eqn:E; [|congruence].
      apply Nat.eqb_eq in E. subst. left. apply ids_aset_new.
    + destruct (ids_aremove_keep ca _ _ Hr) as [K|K]; [auto|].
      rewrite K in L. inversion L; subst. left. apply ids_aset_new.
Qed.

Lemma ok_handshake_failed drop prop s ca cx :
  lookup ca (cxes s) = Some cx -> table_ok s -> table_ok (handshake_failed drop prop s ca cx).
Proof.
  intros L [H1 H2 H3 H4]. constructor; cbn [handshake_failed ixes cxes next sk detached].
  - exact H1.
  - destruct drop; [apply nodup_aremove|]; exact H2.
  - intros i Hi. apply H3. apply in_referenced. apply in_referenced in Hi. cbn in Hi.
    destruct Hi as [Hi|[Hi|Hi]]; [auto| |auto]. destruct drop; [|auto].
    right. left. eapply ids_aremove_in. exact Hi.
  - intros i Hi Ho. apply upd_open_inv in Ho; [|intro; discriminate]. destruct Ho as [Hne Ho].
    assert (Hr : In i (referenced s)) by (apply H4; assumption).
    apply in_referenced. cbn. apply in_referenced in Hr. destruct Hr as [Hr|[Hr|Hr]]; [auto| |auto].
    destruct drop; [|auto]. destruct (ids_aremove_keep ca _ _ Hr) as [K|K]; [auto|].
    rewrite K in L. inversion L. contradiction.
Qed.

Lemma ok_wedge s : table_ok s -> table_ok (wedge s).
Proof. intros [H1 H2 H3 H4]. constructor; cbn; assumption. Qed.

Lemma ok_service_cxes cleans : forall snap hs s,
  NoDup (keys snap) -> (forall ca cx, In (ca, cx) snap -> lookup ca (cxes s) = Some cx) ->
  table_ok s -> table_ok (service_cxes cleans snap hs s).
Proof.
  induction snap as [|[ca cx] snap IH]; intros hs s Hd Hl Hs; cbn [service_cxes]; [exact Hs|].
  inversion Hd as [|? ? Hn Hd']; subst.
  assert (Hrest : forall ca' cx', In (ca', cx') snap -> lookup ca' (cxes s) = Some cx')
    by (intros; apply Hl; right; assumption).
  assert (Hne : forall ca' cx', In (ca', cx') snap -> ca' <> ca).
  { intros ca' cx' Hin E. subst. apply Hn. change ca with (fst (ca, cx')). apply in_map. exact Hin. }
  assert (Hprom : forall hs', table_ok (service_cxes cleans snap hs' (promote s ca cx))).
  { intro hs'. apply IH; [exact Hd'| |apply ok_promote; [apply Hl; left; reflexivity|exact Hs]].
    intros ca' cx' Hin. cbn [promote cxes]. rewrite lookup_aremove_other; [apply Hrest; exact Hin|eapply Hne; exact Hin]. }
  assert (Hfail : forall d p, table_ok (handshake_failed d p s ca cx))
    by (intros; apply ok_handshake_failed; [apply Hl; left; reflexivity|exact Hs]).
  assert (Hcont : forall hs', table_ok (service_cxes cleans snap hs' (handshake_failed true false s ca cx))).
  { intro hs'. apply IH; [exact Hd'| |apply Hfail].
    intros ca' cx' Hin. cbn [handshake_failed cxes]. rewrite lookup_aremove_other; [apply Hrest; exact Hin|eapply Hne; exact Hin]. }
  destruct (sk s cx); [| | |apply ok_wedge; exact Hs];
    (destruct hs as [|[| |] hs];
     [apply IH; assumption | apply Hprom | apply IH; assumption
     | destruct cleans; [apply Hfail|apply Hfail|apply Hcont]]).
Qed.

Lemma ok_fold_accept (f : srv -> Z -> srv) :
  (forall s ca, table_ok s -> table_ok (f s ca)) ->
  forall cas s, table_ok s -> table_ok (fold_left f cas s).
Proof. intros Hf. induction cas as [|ca cas IH]; intros s Hs; [exact Hs|]. cbn. apply IH. apply Hf. exact Hs. Qed.

Lemma ok_with_sk s f :
  (forall j, f j = Open -> sk s j = Open) -> table_ok s -> table_ok (with_sk s f).
Proof.
  intros Hf [H1 H2 H3 H4]. constructor; cbn; try assumption.
  intros i Hi Ho. apply H4; [exact Hi|apply Hf; exact Ho].
Qed.

Lemma ok_with_released s f l :
  (forall j, f j = Open -> sk s j = Open) -> table_ok s -> table_ok (with_released s f l).
Proof.
  intros Hf [H1 H2 H3 H4]. constructor; cbn; try assumption.
  intros i Hi Ho. apply H4; [exact Hi|apply Hf; exact Ho].
Qed.

Lemma ok_err s : table_ok s -> table_ok (err s).
Proof. intros [H1 H2 H3 H4]. constructor; cbn; assumption. Qed.

Lemma ok_step tls cleans s o : table_ok s -> table_ok (step tls cleans s o).
Proof.
  intro Hs. destruct o as [cas hs|ca|ca| |ca sc|ca]; cbn [step].
  - destruct tls.
    + assert (H1 : table_ok (fold_left accept_tls cas s)) by (apply ok_fold_accept; [apply ok_accept_tls|exact Hs]).
      apply ok_service_cxes; [apply (ok_cxes_functional _ H1)| |exact H1].
      intros ca cx Hin. apply lookup_of_in; [apply (ok_cxes_functional _ H1)|exact Hin].
    + apply ok_fold_accept; [apply ok_accept_plain|exact Hs].
  - destruct (lookup ca (ixes s)); [|apply ok_err; exact Hs].
    apply ok_with_sk; [|exact Hs]. intros j H. apply upd_open_inv in H; [tauto|apply shut1_not_open].
  - destruct (lookup ca (ixes s)); [|apply ok_err; exact Hs].
    apply ok_with_released; [|exact Hs]. intros j H. apply upd_open_inv in H; [tauto|]. intro; discriminate.
  - apply ok_with_released; [|exact Hs]. intros j H. eapply close_fold_open_inv. exact H.
  - destruct (lookup ca (ixes s)) as [i|] eqn:L; [|apply ok_err; exact Hs].
    destruct Hs as [H1 H2 H3 H4]. constructor; cbn [ixes cxes next sk detached].
    + apply nodup_aremove. exact H1.
    + exact H2.
    + intros j Hj. apply H3. apply in_referenced. apply in_referenced in Hj. cbn in Hj.
      destruct Hj as [Hj|[Hj|Hj]]; [left; eapply ids_aremove_in; exact Hj|auto|].
      destruct sc; [auto|]. destruct Hj as [Hj|Hj]; [|auto]. subst. left. eapply lookup_in_ids. exact L.
    + intros j Hj Ho. apply in_referenced. cbn.
      assert (Ho' : sk s j = Open /\ (sc = true -> j <> i)).
      { destruct sc; [|split; [exact Ho|discriminate]].
        apply upd_open_inv in Ho; [|intro; discriminate]. destruct Ho. split; auto. }
      destruct Ho' as [Ho1 Ho2].
      assert (Hr : In j (referenced s)) by (apply H4; assumption).
      apply in_referenced in Hr. destruct Hr as [Hr|[Hr|Hr]]; [|auto|destruct sc; cbn; auto].
      destruct (ids_aremove_keep ca _ _ Hr) as [K|K]; [auto|].
      rewrite K in L. inversion L; subst. destruct sc; [exfalso; apply Ho2; reflexivity|].
      right. right. left. reflexivity.
  - destruct (lookup ca (ixes s)); [|exact Hs].
    apply ok_with_sk; [|exact Hs]. intros j H. apply upd_open_inv in H; [tauto|]. intro x; destruct x; discriminate.
Qed.

Lemma ok_run tls cleans ops : table_ok (run tls cleans ops).
Proof.
  unfold run. assert (G : forall ops s, table_ok s -> table_ok (fold_left (step tls cleans) ops s)).
  { induction ops0 as [|o ops0 IH]; intros s Hs; [exact Hs|]. cbn. apply IH. apply ok_step. exact Hs. }
  apply G. apply ok_init.
Qed.

(* ------------------------------------------------------------------ re-accept and remove *)
Lemma reaccept_plain cleans s ca old hs :
  table_ok s -> lookup ca (ixes s) = Some old ->
  let s' := step false cleans s (ServiceConnects [ca] hs) in
  errors s' = errors s /\ lookup ca (ixes s') = Some (next s) /\ keys (ixes s') = keys (ixes s) /\
  sk s' old <> Open /\ sk s' (next s) = Open /\
  (forall ca2, ca2 <> ca -> lookup ca2 (ixes s') = lookup ca2 (ixes s)).
Proof.
  intros Hs L. cbn [step fold_left accept_plain errors ixes sk].
  assert (Hb : old < next s).
  { apply (ok_ids_bounded _ Hs). apply in_referenced. left. eapply lookup_in_ids. exact L. }
  repeat split.
  - apply lookup_aset_same.
  - eapply keys_aset_present. exact L.
  - rewrite L. cbn. unfold upd. destruct (Nat.eqb old (next s)) eqn:E; [apply Nat.eqb_eq in E; lia|].
    rewrite Nat.eqb_refl. apply shut1_not_open.
  - unfold upd. rewrite Nat.eqb_refl. reflexivity.
  - intros ca2 Hn. apply lookup_aset_other. exact Hn.
Qed.

Lemma reaccept_tls cleans s ca old :
  table_ok s -> lookup ca (ixes s) = Some old -> cxes s = [] ->
  let s' := step true cleans s (ServiceConnects [ca] [HDone]) in
  errors s' = errors s /\ lookup ca (ixes s') = Some (next s) /\ keys (ixes s') = keys (ixes s) /\
  cxes s' = [] /\ sk s' old <> Open /\ sk s' (next s) = Open.
Proof.
  intros Hs L C.
  assert (Hb : old < next s).
  { apply (ok_ids_bounded _ Hs). apply in_referenced. left. eapply lookup_in_ids. exact L. }
  assert (E : Nat.eqb old (next s) = false) by (apply Nat.eqb_neq; lia).
  assert (E2 : Nat.eqb (next s) old = false) by (apply Nat.eqb_neq; lia).
  set (s1 := accept_tls s ca).
  assert (C1 : cxes s1 = [(ca, next s)]) by (unfold s1; cbn [accept_tls cxes]; rewrite C; reflexivity).
  assert (O1 : sk s1 (next s) = Open).
  { unfold s1. cbn [accept_tls sk]. unfold upd. rewrite Nat.eqb_refl. reflexivity. }
  assert (St : step true cleans s (ServiceConnects [ca] [HDone]) = promote s1 ca (next s)).
  { cbn [step fold_left]. fold s1. rewrite C1. cbn [service_cxes]. rewrite O1. reflexivity. }
  cbv zeta. rewrite St.
  assert (L1 : lookup ca (ixes s1) = Some old) by (unfold s1; cbn [accept_tls ixes]; exact L).
  cbn [promote errors ixes cxes sk]. rewrite L1, E, C1.
  repeat split.
  - apply lookup_aset_same.
  - unfold s1. cbn [accept_tls ixes]. eapply keys_aset_present. exact L.
  - cbn. rewrite Z.eqb_refl. reflexivity.
  - cbn [shut_opt]. unfold upd at 1. rewrite Nat.eqb_refl. apply shut1_not_open.
  - cbn [shut_opt]. unfold upd at 1. rewrite E2. exact O1.
Qed.

Lemma remove_closes tls cleans s ca i :
  table_ok s -> lookup ca (ixes s) = Some i ->
  let s' := step tls cleans s (RemoveIx ca true) in
  errors s' = errors s /\ lookup ca (ixes s') = None /\ sk s' i = Closed /\
  (forall ca2, ca2 <> ca -> lookup ca2 (ixes s') = lookup ca2 (ixes s)).
Proof.
  intros Hs L. cbn [step]. rewrite L. cbn [errors ixes sk]. repeat split.
  - apply lookup_aremove_same. apply (ok_ixes_functional _ Hs).
  - unfold upd. rewrite Nat.eqb_refl. reflexivity.
  - intros ca2 Hn. apply lookup_aremove_other. exact Hn.
Qed.

Lemma unknown_address_rejected tls cleans s ca :
  lookup ca (ixes s) = None ->
  step tls cleans s (RemoveIx ca true) = err s /\ step tls cleans s (CloseIx ca) = err s /\
  step tls cleans s (ShutdownIx ca) = err s.
Proof. intro L. cbn [step]. rewrite L. auto. Qed.

(* ------------------------------------------------------------------ every accepted peer gets an entry *)

Lemma has_entry_aset ca k v l : ca = k \/ has_entry ca l -> has_entry ca (aset k v l).
Proof.
  unfold has_entry. intros [H|H].
  - subst. rewrite lookup_aset_same. discriminate.
  - destruct (Z.eq_dec ca k) as [E|E]; [subst; rewrite lookup_aset_same; discriminate|].
    rewrite lookup_aset_other; assumption.
Qed.

Lemma fold_accept_plain_entries : forall cas s ca,
  In ca cas \/ has_entry ca (ixes s) -> has_entry ca (ixes (fold_left accept_plain cas s)).
Proof.
  induction cas as [|c cas IH]; intros s ca H; cbn [fold_left].
  - destruct H as [[]|H]. exact H.
  - apply IH. destruct H as [[H|H]|H]; [right|left; exact H|right].
    + subst. cbn [accept_plain ixes]. apply has_entry_aset. left. reflexivity.
    + cbn [accept_plain ixes]. apply has_entry_aset. right. exact H.
Qed.

Lemma fold_accept_tls_entries : forall cas s ca,
  In ca cas \/ has_entry ca (cxes s) -> has_entry ca (cxes (fold_left accept_tls cas s)).
Proof.
  induction cas as [|c cas IH]; intros s ca H; cbn [fold_left].
  - destruct H as [[]|H]. exact H.
  - apply IH. destruct H as [[H|H]|H]; [right|left; exact H|right].
    + subst. cbn [accept_tls cxes]. apply has_entry_aset. left. reflexivity.
    + cbn [accept_tls cxes]. apply has_entry_aset. right. exact H.
Qed.

Lemma hfails_mono cleans : forall snap hs s, hfails s <= hfails (service_cxes cleans snap hs s).
Proof.
  induction snap as [|[k v] snap IH]; intros hs s; cbn [service_cxes]; [lia|].
  destruct (sk s v); try (cbn; lia);
    (destruct hs as [|[| |] hs];
     [apply IH | exact (IH hs (promote s k v)) | apply IH
     | destruct cleans; cbn [handshake_failed hfails]; try lia;
       specialize (IH hs (handshake_failed true false s k v)); cbn [handshake_failed hfails] in IH; lia]).
Qed.

(* serviceCxes only moves entries from the pending to the ready table -- unless a handshake fails
   (then that peer is no longer connected) *)
Lemma service_cxes_keeps_entries cleans : forall snap hs s ca,
  has_entry ca (ixes s) \/ has_entry ca (cxes s) ->
  (forall k v, In (k, v) snap -> lookup k (cxes s) = Some v) -> NoDup (keys snap) ->
  let s' := service_cxes cleans snap hs s in
  has_entry ca (ixes s') \/ has_entry ca (cxes s') \/ hfails s < hfails s'.
Proof.
  induction snap as [|[k v] snap IH]; intros hs s ca H Hl Hd; cbn [service_cxes]; [tauto|].
  inversion Hd as [|? ? Hn Hd']; subst.
  assert (Hrest : forall k' v', In (k', v') snap -> lookup k' (cxes s) = Some v')
    by (intros; apply Hl; right; assumption).
  assert (Hne : forall k' v', In (k', v') snap -> k' <> k).
  { intros k' v' Hin E. subst. apply Hn. change k with (fst (k, v')). apply in_map. exact Hin. }
  assert (Hprom : forall hs', let s' := service_cxes cleans snap hs' (promote s k v) in
            has_entry ca (ixes s') \/ has_entry ca (cxes s') \/ hfails s < hfails s').
  { intro hs'. change (hfails s) with (hfails (promote s k v)). apply IH; [| |exact Hd'].
    - cbn [promote ixes cxes]. destruct (Z.eq_dec ca k) as [E|E].
      + left. apply has_entry_aset. left. exact E.
      + destruct H as [H|H]; [left; apply has_entry_aset; right; exact H|].
        right. unfold has_entry. rewrite lookup_aremove_other; assumption.
    - intros k' v' Hin. cbn [promote cxes]. rewrite lookup_aremove_other; [apply Hrest; exact Hin|eapply Hne; exact Hin]. }
  assert (Hcont : forall hs', let s' := service_cxes cleans snap hs' (handshake_failed true false s k v) in
            has_entry ca (ixes s') \/ has_entry ca (cxes s') \/ hfails s < hfails s').
  { intro hs'. cbv zeta. right. right.
    pose proof (hfails_mono cleans snap hs' (handshake_failed true false s k v)) as M.
    cbn [handshake_failed hfails] in M. lia. }
  destruct (sk s v); [| | |cbn; tauto];
    (destruct hs as [|[| |] hs];
     [apply IH; assumption | apply Hprom | apply IH; assumption
     | destruct cleans; [right; right; cbn; lia|right; right; cbn; lia|apply Hcont]]).
Qed.

Lemma accepted_have_entries tls cleans s cas hs ca :
  table_ok s -> In ca cas ->
  let s' := step tls cleans s (ServiceConnects cas hs) in
  has_entry ca (ixes s') \/ (tls = true /\ (has_entry ca (cxes s') \/ hfails s < hfails s')).
Proof.
  intros Hs Hin. cbn [step]. destruct tls.
  - assert (H1 : table_ok (fold_left accept_tls cas s)) by (apply ok_fold_accept; [apply ok_accept_tls|exact Hs]).
    assert (Hf : hfails (fold_left accept_tls cas s) = hfails s).
    { clear. revert s. induction cas as [|c cas IH]; intro s; [reflexivity|]. cbn [fold_left]. rewrite IH. reflexivity. }
    rewrite <- Hf.
    destruct (service_cxes_keeps_entries cleans (cxes (fold_left accept_tls cas s)) hs (fold_left accept_tls cas s) ca) as [H|[H|H]].
    + right. apply fold_accept_tls_entries. left. exact Hin.
    + intros k v Hi. apply lookup_of_in; [apply (ok_cxes_functional _ H1)|exact Hi].
    + apply (ok_cxes_functional _ H1).
    + left. exact H.
    + right. split; [reflexivity|left; exact H].
    + right. split; [reflexivity|right; exact H].
  - left. apply fold_accept_plain_entries. left. exact Hin.
Qed.
