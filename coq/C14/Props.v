(* C14 -- property theorems only.  Each closed by [exact]; Print Assumptions beneath.
   PARTIAL with respect to the property (see props/C14/meta.json): these are the parts of
   "building terminates with success or a script error" that are theorems. *)
From Coq Require Import List NArith Bool.
Import ListNotations.
Require Import V.C14.Model V.C14.Proofs V.C14.SitesFacts V.gen.RaiseSites.
Require V.C13.Model V.C14.MissingCtx.
Open Scope N_scope.

(* Every message construction feeding an exception in the builder modules (generated table
   [sites]: first argument of every `raise X(...)` and every `msg = ...`, with its style and the
   number of arguments supplied) formats without raising: %-templates consume exactly the
   supplied arguments, str.format templates are well formed and refer only to supplied
   arguments.  Finite domain: the generated table. *)
Theorem all_error_messages_format : forallb fmt_ok sites = true.
Proof. exact all_error_messages_format_l. Qed.
Print Assumptions all_error_messages_format.

(* Every name read by a raise statement or a `msg = ...` statement of those modules is bound in
   the enclosing function, at module level (star imports of ioflo modules expanded), or is a
   builtin: no NameError while reporting a script error.  Finite domain: generated [uses]. *)
Theorem all_error_path_names_bound :
  forallb (use_ok scope_of globals_of builtin_names) uses = true.
Proof. exact all_error_path_names_bound_l. Qed.
Print Assumptions all_error_path_names_bound.

(* Every `raise excepting.X(...)` of those modules calls X.__init__ with a signature it accepts (generated
   tables [raises], [ctor_params] from ioflo/base/excepting.py): not too many positionals, only keywords
   that are parameters, none given twice -- OR the site is exempt with its guard in force.  The one
   exemption ([exempt_sites], generated): the "Invalid schedule" raise of Rearer._resolve
   (ResolveError(msg=...), a latent defect: fixes/C14-raise-keyword.patch, not a property fix) is
   unreachable from any script while Builder.buildRear keeps the test `schedule not in ['aux']` + ParseError;
   the translator extracts that guard from the AST on every run, and without it the exemption is void. *)
Theorem all_raise_sites_match_constructor :
  forallb (fun s => sig_ok (ctor_params (r_cls s)) s || exempt_b exempt_sites s) raises = true.
Proof. exact all_raise_sites_match_constructor_l. Qed.
Print Assumptions all_raise_sites_match_constructor.

(* Frame.resolveOverLinks as fixed (visited set): for EVERY frame registry g and starting frame,
   fuel = number of registered frames suffices -- the walk terminates. *)
Theorem over_resolution_terminates : forall g self fuel,
  (fuel >= length g)%nat -> resolve_over fuel g self <> OutOfFuel.
Proof. exact resolve_over_terminates. Qed.
Print Assumptions over_resolution_terminates.

(* ... and it reports EVERY cycle or dangling link: if the over chain of self never reaches a top
   frame the result is a ResolveError (Loop / BadLink), never success. *)
Theorem over_resolution_detects_every_cycle : forall g self ov fuel,
  (fuel >= length g)%nat -> lookup g self = Some ov ->
  (forall k, reaches_top k g ov = false) ->
  resolve_over fuel g self = Loop \/ exists n, resolve_over fuel g self = BadLink n.
Proof. exact resolve_over_detects. Qed.
Print Assumptions over_resolution_detects_every_cycle.

(* The code AS IT WAS (loop check against the starting frame only) does not terminate:
   frame a in b / frame b in c / frame c in b, resolving a. *)
Theorem over_resolution_orig_refuted :
  exists g self, forall fuel, resolve_over_orig fuel g self = OutOfFuel.
Proof. exact orig_refuted_l. Qed.
Print Assumptions over_resolution_orig_refuted.

(* The continuation loop of Builder.build consumes only continuation lines and hands back a
   suffix of the file: with the line reads of the outer loop this bounds the number of loop
   iterations by the number of lines. *)
Theorem build_loop_consumes_lines : forall lines,
  (length (continuation lines) <= length lines)%nat /\
  exists consumed, lines = consumed ++ continuation lines /\ forallb (fun b => b) consumed = true.
Proof. exact (fun lines => conj (continuation_length lines) (continuation_suffix lines)). Qed.
Print Assumptions build_loop_consumes_lines.

(* framing.resolveFramer (model): a name that resolves does so to a FRAMER of the registry --
   never to a logger/server sharing the tasker registry, with or without schedule contexts --
   and, when contexts are given, to one scheduled in one of them. *)
Theorem resolve_framer_only_framers : forall reg name contexts s,
  resolve_framer reg name contexts = FOk s ->
  lookup_t reg name = Some (TFramer s) /\ (contexts = [] \/ memN s contexts = true).
Proof. exact resolve_framer_only_framers_l. Qed.
Print Assumptions resolve_framer_only_framers.

(* Act.resolvePath (the model of coq/C13/Model.v, tied to the real method by the C13 and C14
   correspondences): a resolution that SUCCEEDS substitutes the main framer / main frame name only
   when the framer has a main frame, and the actor name only when the actor is resolved -- so every
   "missing context" case ends in ResolveError, never in a value built from a missing object. *)
Theorem resolve_missing_context_is_resolve_error :
  forall (T : Type) cls kw (c : V.C13.Model.ctx T) p l,
  V.C13.Model.resolve cls kw c p = V.C13.Model.Ok l -> Forall (V.C14.MissingCtx.needs_ok T c) l.
Proof. exact V.C14.MissingCtx.resolve_needs. Qed.
Print Assumptions resolve_missing_context_is_resolve_error.

(* the two main-context cases as equations: framer.main... and framer.<x>.frame.main... without a
   main frame are ResolveError *)
Theorem resolve_main_without_main_frame :
  forall (T : Type) cls (c : V.C13.Model.ctx T),
  V.C13.Model.has_main c = false ->
  (forall p0 p1 rest, V.C13.Model.is T cls V.C13.Model.KFramer p0 = true ->
     V.C13.Model.is T cls V.C13.Model.KMe p1 = false -> V.C13.Model.is T cls V.C13.Model.KMain p1 = true ->
     V.C13.Model.subst cls c (p0 :: p1 :: rest) = V.C13.Model.ErrResolve) /\
  (forall p0 p1 p2 p3 rest, V.C13.Model.is T cls V.C13.Model.KFramer p0 = true ->
     V.C13.Model.is T cls V.C13.Model.KMain p1 = false -> V.C13.Model.is T cls V.C13.Model.KFrame p2 = true ->
     V.C13.Model.is T cls V.C13.Model.KMe p3 = false -> V.C13.Model.is T cls V.C13.Model.KMain p3 = true ->
     V.C13.Model.subst cls c (p0 :: p1 :: p2 :: p3 :: rest) = V.C13.Model.ErrResolve).
Proof.
  exact (fun T cls c Hm => conj (fun p0 p1 rest => V.C14.MissingCtx.main_framer_missing T cls c p0 p1 rest Hm)
                                (fun p0 p1 p2 p3 rest => V.C14.MissingCtx.main_frame_missing T cls c p0 p1 p2 p3 rest Hm)).
Qed.
Print Assumptions resolve_main_without_main_frame.

(* non-vacuity: the format checkers do reject the defects they are about *)
Example c14_fmt_rejects :
  (* "reserved '{0}' instead" % (value)        : 1 argument, no %-conversion *)
  percent_ok [39; 123; 48; 125; 39] 1 = false /\
  (* "invalid connective '%s'" % (kind, connective) *)
  percent_ok [39; 37; 115; 39] 2 = false /\ percent_ok [39; 37; 115; 39] 1 = true /\
  (* "{0} and {2}".format(a, b)  and  "{1)".format(a, b) *)
  format_ok [123; 48; 125; 32; 123; 50; 125] 2 [] = false /\
  format_ok [123; 49; 41] 2 [] = false /\
  format_ok [123; 48; 125; 32; 123; 49; 125] 2 [] = true.
Proof. vm_compute. repeat split; reflexivity. Qed.

Example c14_table_nonempty :
  (300 <=? N.of_nat (length sites)) = true /\ (500 <=? N.of_nat (length uses)) = true.
Proof. vm_compute. split; reflexivity. Qed.

Example c14_fixed_walk_on_witness : resolve_over 3 g_hang 1 = Loop.
Proof. exact fixed_on_witness. Qed.
