(* C14 -- proofs: over-link resolution (termination, cycle detection, refutation of the
   original loop check) and the line-consumption argument of the builder's read loops. *)
From Coq Require Import List NArith Bool Lia.
Import ListNotations.
Require Import V.C14.Model.
Open Scope N_scope.

Lemma memN_In : forall x l, memN x l = true <-> In x l.
Proof.
  intros x l. unfold memN. rewrite existsb_exists. split.
  - intros [y [Hy He]]. apply N.eqb_eq in He. subst. exact Hy.
  - intros H. exists x. split; [exact H | apply N.eqb_refl].
Qed.

Lemma lookup_In : forall g n v, lookup g n = Some v -> In n (map fst g).
Proof.
  induction g as [|[k w] r IH]; intros n v H; simpl in *; try discriminate.
  destruct (N.eqb k n) eqn:E.
  - apply N.eqb_eq in E. left. exact E.
  - right. eapply IH. exact H.
Qed.

(* TERMINATION of the fixed walk: the visited list is duplicate free and inside the registry, so
   it cannot grow beyond the number of registered frames *)
Lemma climb_fuel : forall fuel g visited cur,
  NoDup visited -> incl visited (map fst g) ->
  (length visited + fuel > length (map fst g))%nat ->
  climb fuel g visited cur <> OutOfFuel.
Proof.
  induction fuel as [|f IH]; intros g visited cur Hnd Hin Hlen.
  - exfalso. pose proof (NoDup_incl_length Hnd Hin). lia.
  - destruct cur as [n|]; simpl; [|discriminate].
    destruct (lookup g n) as [ov|] eqn:El; [|discriminate].
    destruct (memN n visited) eqn:Em; [discriminate|].
    apply IH.
    + constructor; [|exact Hnd]. intro Hc. apply memN_In in Hc. congruence.
    + intros x [Hx|Hx]; [subst; eapply lookup_In; eauto | apply Hin; exact Hx].
    + simpl. lia.
Qed.

Lemma resolve_over_terminates : forall g self fuel,
  (fuel >= length g)%nat -> resolve_over fuel g self <> OutOfFuel.
Proof.
  intros g self fuel Hf. unfold resolve_over.
  destruct (lookup g self) as [ov|] eqn:El; [|discriminate].
  apply climb_fuel.
  - constructor; [intros []|constructor].
  - intros x [Hx|[]]. subst. eapply lookup_In; eauto.
  - rewrite map_length. simpl. lia.
Qed.

(* SOUNDNESS of Done: the walk only reports success when the over chain really reaches a top *)
Lemma climb_done_top : forall fuel g visited cur,
  climb fuel g visited cur = Done -> reaches_top fuel g cur = true.
Proof.
  induction fuel as [|f IH]; intros g visited cur H; destruct cur as [n|]; simpl in *; auto; try discriminate.
  destruct (lookup g n) as [ov|]; try discriminate.
  destruct (memN n visited); try discriminate. eapply IH; eauto.
Qed.

(* hence EVERY cycle (and every dangling link) is reported: if the over chain of self never
   reaches a top, the result is a ResolveError (Loop or BadLink), for every sufficient fuel *)
Lemma resolve_over_detects : forall g self ov fuel,
  (fuel >= length g)%nat -> lookup g self = Some ov ->
  (forall k, reaches_top k g ov = false) ->
  resolve_over fuel g self = Loop \/ exists n, resolve_over fuel g self = BadLink n.
Proof.
  intros g self ov fuel Hf El Hno.
  pose proof (resolve_over_terminates g self fuel Hf) as Ht.
  unfold resolve_over in *. rewrite El in *.
  destruct (climb fuel g [self] ov) eqn:E.
  - apply climb_done_top in E. rewrite Hno in E. discriminate.
  - right. eexists. reflexivity.
  - left. reflexivity.
  - congruence.
Qed.

(* Loop is only reported for a real revisit: completeness the other way (no false loop):
   a chain that reaches the top without repeating a frame is Done *)
Lemma climb_chain_done : forall k g visited cur,
  reaches_top k g cur = true ->
  (forall fuel, (fuel >= k)%nat ->
     climb fuel g visited cur = Done \/ climb fuel g visited cur = Loop).
Proof.
  induction k as [|k IH]; intros g visited cur H fuel Hf.
  - destruct cur; simpl in H; try discriminate. left. destruct fuel; reflexivity.
  - destruct cur as [n|]; [|left; destruct fuel; reflexivity].
    simpl in H. destruct (lookup g n) as [ov|] eqn:El; try discriminate.
    destruct fuel as [|f]; [lia|]. simpl. rewrite El.
    destruct (memN n visited); [right; reflexivity|].
    apply IH; [exact H | lia].
Qed.

(* REFUTATION of the original code: frame a in b / frame b in c / frame c in b.
   1 = a, 2 = b, 3 = c.  For every amount of fuel the original walk started at a is still
   running: the cycle b <-> c never meets a. *)
Definition g_hang : graph := [(1, Some 2); (2, Some 3); (3, Some 2)].

Lemma orig_spins : forall fuel,
  climb_orig fuel g_hang 1 (Some 2) = OutOfFuel /\ climb_orig fuel g_hang 1 (Some 3) = OutOfFuel.
Proof.
  induction fuel as [|f [IH2 IH3]]; [split; reflexivity|].
  split; simpl.
  - exact IH3.
  - exact IH2.
Qed.

Lemma orig_refuted_l : exists g self, forall fuel, resolve_over_orig fuel g self = OutOfFuel.
Proof.
  exists g_hang, 1. intros fuel. unfold resolve_over_orig. simpl. apply orig_spins.
Qed.

Lemma fixed_on_witness : resolve_over 3 g_hang 1 = Loop.
Proof. vm_compute. reflexivity. Qed.

(* builder read loops: the continuation loop returns a suffix of the lines it was given, and
   strictly shorter input is left after each command that had at least one continuation *)
Lemma continuation_suffix : forall lines, exists consumed, lines = consumed ++ continuation lines
  /\ forallb (fun b => b) consumed = true.
Proof.
  induction lines as [|b r [c [E F]]].
  - exists []. split; reflexivity.
  - destruct b; simpl.
    + exists (true :: c). split; [simpl; f_equal; exact E | simpl; exact F].
    + exists []. split; reflexivity.
Qed.

Lemma continuation_length : forall lines, (length (continuation lines) <= length lines)%nat.
Proof.
  induction lines as [|b r IH]; simpl; auto. destruct b; simpl; lia.
Qed.

(* resolveFramer never hands back anything but a framer, whatever contexts are (not) given *)
Lemma resolve_framer_only_framers_l : forall reg name contexts s,
  resolve_framer reg name contexts = FOk s ->
  lookup_t reg name = Some (TFramer s) /\ (contexts = [] \/ memN s contexts = true).
Proof.
  intros reg name contexts s H. unfold resolve_framer in H.
  destruct (lookup_t reg name) as [[s'|]|]; try discriminate.
  destruct contexts as [|c cs].
  - inversion H; subst. split; auto.
  - destruct (memN s' (c :: cs)) eqn:E; try discriminate. inversion H; subst. split; auto.
Qed.
