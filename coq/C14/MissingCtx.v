(* C14 -- Act.resolvePath (model of coq/C13/Model.v): every "missing context" case is a
   ResolveError, never a result.  Generic in the segment type. *)
From Coq Require Import List NArith Bool.
Import ListNotations.
Require Import V.C13.Model.
Open Scope N_scope.

Section MC.
  Variable T : Type.
  Variable cls : T -> kwc.
  Variable kw : kwc -> T.

  Definition needs_ok (c : ctx T) (o : out T) : Prop :=
    match o with
    | NM RMainFramer | NM RMainFrame => has_main c = true
    | NM RActor => actor_ok c = true
    | _ => True
    end.

  Lemma keep_needs : forall c l, Forall (needs_ok c) (keep T l).
  Proof. intros c l. unfold keep. induction l; simpl; constructor; simpl; auto. Qed.

  Lemma sub_name_needs : forall c p o,
    (sub_name T cls c RFramer RMainFramer p = Ok o -> needs_ok c o) /\
    (sub_name T cls c RFrame RMainFrame p = Ok o -> needs_ok c o).
  Proof.
    intros c p o. unfold sub_name. split; intros H;
    destruct (is T cls KMe p); [inversion H; simpl; auto| |inversion H; simpl; auto|];
    (destruct (is T cls KMain p); [destruct (has_main c) eqn:E; [inversion H; simpl; auto|discriminate]
                                  |inversion H; simpl; auto]).
  Qed.

  Lemma sub_actor_needs : forall c p o, sub_actor T cls c p = Ok o -> needs_ok c o.
  Proof.
    intros c p o H. unfold sub_actor in H. destruct (is T cls KMe p).
    - destruct (actor_ok c) eqn:E; [inversion H; simpl; auto|discriminate].
    - inversion H; simpl; auto.
  Qed.

  Ltac fa := repeat (constructor; simpl; auto).

  Lemma subst_needs : forall c parts l, subst cls c parts = Ok l -> Forall (needs_ok c) l.
  Proof.
    intros c parts l H. unfold subst in H.
    destruct parts as [|p0 r0]; [inversion H; constructor|].
    destruct (is T cls KFramer p0); [|inversion H; apply (keep_needs c (p0 :: r0))].
    destruct r0 as [|p1 r1]; [discriminate|].
    destruct (sub_name T cls c RFramer RMainFramer p1) as [o1| |] eqn:E1; simpl in H; try discriminate.
    apply (proj1 (sub_name_needs c p1 o1)) in E1.
    destruct r1 as [|p2 r2]; [inversion H; fa|].
    destruct (is T cls KFrame p2).
    - destruct r2 as [|p3 r3]; [discriminate|].
      destruct (sub_name T cls c RFrame RMainFrame p3) as [o3| |] eqn:E3; simpl in H; try discriminate.
      apply (proj2 (sub_name_needs c p3 o3)) in E3.
      destruct r3 as [|p4 r4]; [inversion H; fa|].
      destruct (is T cls KActor p4).
      + destruct r4 as [|p5 r5]; [discriminate|].
        destruct (sub_actor T cls c p5) as [o5| |] eqn:E5; simpl in H; try discriminate.
        apply sub_actor_needs in E5. inversion H.
        repeat (constructor; [simpl; auto|]). apply keep_needs.
      + inversion H. repeat (constructor; [simpl; auto|]). apply keep_needs.
    - destruct (is T cls KActor p2).
      + destruct r2 as [|p3 r3]; [discriminate|].
        destruct (sub_actor T cls c p3) as [o3| |] eqn:E3; simpl in H; try discriminate.
        apply sub_actor_needs in E3. inversion H.
        repeat (constructor; [simpl; auto|]). apply keep_needs.
      + inversion H. repeat (constructor; [simpl; auto|]). apply keep_needs.
  Qed.

  (* every successful resolution only substitutes names whose context exists *)
  Lemma resolve_needs : forall c p l, resolve cls kw c p = Ok l -> Forall (needs_ok c) l.
  Proof.
    intros c p l H. unfold resolve in H. destruct p as [|p0 r].
    - destruct (prefix cls kw c []) as [|q qs]; [inversion H; constructor|].
      destruct (is T cls KEmpty q); [inversion H; apply (keep_needs c (q :: qs)) | eapply subst_needs; eauto].
    - destruct (is T cls KEmpty p0); [inversion H; apply (keep_needs c (p0 :: r)) | eapply subst_needs; eauto].
  Qed.

  (* the three missing-context cases, as equations *)
  Lemma main_framer_missing : forall c p0 p1 rest,
    has_main c = false -> is T cls KFramer p0 = true -> is T cls KMe p1 = false -> is T cls KMain p1 = true ->
    subst cls c (p0 :: p1 :: rest) = ErrResolve.
  Proof.
    intros c p0 p1 rest Hm H0 H1 H2. unfold subst. rewrite H0. unfold sub_name. rewrite H1, H2, Hm. reflexivity.
  Qed.

  Lemma main_frame_missing : forall c p0 p1 p2 p3 rest,
    has_main c = false -> is T cls KFramer p0 = true -> is T cls KMain p1 = false ->
    is T cls KFrame p2 = true -> is T cls KMe p3 = false -> is T cls KMain p3 = true ->
    subst cls c (p0 :: p1 :: p2 :: p3 :: rest) = ErrResolve.
  Proof.
    intros c p0 p1 p2 p3 rest Hm H0 H1 H2 H3 H4. unfold subst. rewrite H0.
    unfold sub_name at 1. rewrite H1. destruct (is T cls KMe p1); simpl; rewrite H2;
    unfold sub_name; rewrite H3, H4, Hm; reflexivity.
  Qed.
End MC.
