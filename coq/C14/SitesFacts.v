(* C14 -- finite facts about the GENERATED raise-site table (gen/RaiseSites.v), by computation *)
From Coq Require Import List NArith Bool.
Import ListNotations.
Require Import V.C14.Model V.gen.RaiseSites.
Open Scope N_scope.

Lemma all_error_messages_format_l : forallb fmt_ok sites = true.
Proof. vm_compute. reflexivity. Qed.

Lemma all_error_path_names_bound_l :
  forallb (use_ok scope_of globals_of builtin_names) uses = true.
Proof. vm_compute. reflexivity. Qed.

Lemma all_raise_sites_match_constructor_l :
  forallb (fun s => sig_ok (ctor_params (r_cls s)) s || exempt_b exempt_sites s) raises = true.
Proof. vm_compute. reflexivity. Qed.
