(* C14 -- definitions only.
   Part 1: PyFormat -- how many arguments a Python %-template / str.format template consumes, and
           whether it is well formed; a raise site is [fmt_ok] when building its message cannot
           itself raise TypeError / IndexError / KeyError / ValueError.
   Part 2: name use -- every name read by a raise statement (or `msg = ...`) is bound in its
           function, at module level, or is a builtin.
   Part 3: OverLinks -- Frame.resolveOverLinks as a walk over a finite name graph, the code as
           it was (loop check against the starting frame only) and as fixed (visited set).
   Strings are lists of code points (N). *)
From Coq Require Import List NArith Bool.
Import ListNotations.
Open Scope N_scope.

(* ---------------------------------------------------------------------------------------- *)
(* Part 1                                                                                   *)

Inductive style := Plain | Percent | Format.

Record site := mksite {
  s_file : N; s_line : N; s_style : style; s_tpl : list N;
  s_nargs : N;                       (* positional arguments supplied *)
  s_kws : list (list N) }.           (* keyword arguments supplied (format only) *)

Definition memN (x : N) (l : list N) : bool := existsb (N.eqb x) l.

Fixpoint str_eqb (a b : list N) : bool :=
  match a, b with
  | [], [] => true
  | x :: a', y :: b' => N.eqb x y && str_eqb a' b'
  | _, _ => false
  end.

Definition is_digit (c : N) : bool := (48 <=? c) && (c <=? 57).
(* - + space # 0 *)
Definition is_flag (c : N) : bool := memN c [45; 43; 32; 35; 48].
(* h l L *)
Definition is_len (c : N) : bool := memN c [104; 108; 76].
(* d i o u x X e E f F g G c r s a *)
Definition is_conv (c : N) : bool :=
  memN c [100; 105; 111; 117; 120; 88; 101; 69; 102; 70; 103; 71; 99; 114; 115; 97].

(* %-formatting: number of tuple items consumed; None = the template itself is rejected
   (ValueError: unsupported format character / incomplete format; or a %(name)s mapping key)
   mode 0 text, 1 just after %, 5 after flags, 2 width, 3 precision, 4 after a length modifier *)
Fixpoint pct (l : list N) (mode : N) (n : N) : option N :=
  match l with
  | [] => if mode =? 0 then Some n else None
  | c :: r =>
    match mode with
    | 0 => if c =? 37 then pct r 1 n else pct r 0 n
    | 1 => if c =? 37 then pct r 0 n                      (* "%%": literal, consumes nothing *)
           else if c =? 40 then None
           else if is_conv c then pct r 0 (n + 1)
           else if is_flag c then pct r 5 n
           else if is_digit c then pct r 2 n
           else if c =? 42 then pct r 2 (n + 1)
           else if c =? 46 then pct r 3 n
           else if is_len c then pct r 4 n
           else None
    | 5 => if c =? 37 then None                           (* '%' after flags: never accepted *)
           else if c =? 40 then None
           else if is_conv c then pct r 0 (n + 1)
           else if is_flag c then pct r 5 n
           else if is_digit c then pct r 2 n
           else if c =? 42 then pct r 2 (n + 1)
           else if c =? 46 then pct r 3 n
           else if is_len c then pct r 4 n
           else None
    | 2 => if is_conv c then pct r 0 (n + 1)
           else if is_digit c then pct r 2 n
           else if c =? 46 then pct r 3 n
           else if is_len c then pct r 4 n
           else None
    | 3 => if is_conv c then pct r 0 (n + 1)
           else if is_digit c then pct r 3 n
           else if c =? 42 then pct r 3 (n + 1)
           else if is_len c then pct r 4 n
           else None
    | _ => if is_conv c then pct r 0 (n + 1) else None
    end
  end.

Definition percent_ok (tpl : list N) (nargs : N) : bool :=
  match pct tpl 0 0 with
  | Some k => k =? nargs      (* too few: TypeError not enough arguments; too many: TypeError not all converted *)
  | None => false
  end.

(* str.format: replacement fields *)
Record facc := mkfacc { autos : N; maxidx : option N; kwnames : list (list N) }.

Definition all_digits (s : list N) : bool := match s with [] => false | _ => forallb is_digit s end.
Definition to_num (s : list N) : N := fold_left (fun a c => a * 10 + (c - 48)) s 0.

Definition add_field (name : list N) (a : facc) : facc :=
  match name with
  | [] => mkfacc (autos a + 1) (maxidx a) (kwnames a)
  | _ => if all_digits name
         then let i := to_num name in
              mkfacc (autos a) (Some (match maxidx a with Some m => N.max m i | None => i end)) (kwnames a)
         else mkfacc (autos a) (maxidx a) (name :: kwnames a)
  end.

(* mode 0 text, 1 just saw '{', 2 in field name, 3 in field name after . or [, 4 in !conv / :spec,
   5 just saw '}' in text *)
Fixpoint fmt (l : list N) (mode : N) (name : list N) (a : facc) : option facc :=
  match l with
  | [] => if mode =? 0 then Some a else None      (* unclosed '{' or single '}' *)
  | c :: r =>
    match mode with
    | 0 => if c =? 123 then fmt r 1 [] a else if c =? 125 then fmt r 5 [] a else fmt r 0 [] a
    | 5 => if c =? 125 then fmt r 0 [] a else None                   (* single '}' *)
    | 1 => if c =? 123 then fmt r 0 [] a                              (* '{{' *)
           else if c =? 125 then fmt r 0 [] (add_field [] a)           (* '{}' *)
           else if (c =? 33) || (c =? 58) then fmt r 4 [] a
           else if (c =? 46) || (c =? 91) then fmt r 3 [] a
           else fmt r 2 [c] a
    | 2 => if c =? 125 then fmt r 0 [] (add_field (rev name) a)
           else if c =? 123 then None
           else if (c =? 33) || (c =? 58) then fmt r 4 name a
           else if (c =? 46) || (c =? 91) then fmt r 3 name a
           else fmt r 2 (c :: name) a
    | 3 => if c =? 125 then fmt r 0 [] (add_field (rev name) a)
           else if c =? 123 then None
           else if (c =? 33) || (c =? 58) then fmt r 4 name a
           else fmt r 3 name a
    | _ => if c =? 125 then fmt r 0 [] (add_field (rev name) a)
           else if c =? 123 then None                                  (* nested field: not supported *)
           else fmt r 4 name a
    end
  end.

Definition format_ok (tpl : list N) (nargs : N) (kws : list (list N)) : bool :=
  match fmt tpl 0 [] (mkfacc 0 None []) with
  | None => false                                                      (* ValueError *)
  | Some a =>
    match maxidx a with
    | Some m => (autos a =? 0) && (m <? nargs)                         (* mixing: ValueError; IndexError *)
    | None => autos a <=? nargs                                         (* IndexError *)
    end && forallb (fun k => existsb (str_eqb k) kws) (kwnames a)       (* KeyError *)
  end.

Definition fmt_ok (s : site) : bool :=
  match s_style s with
  | Plain => true
  | Percent => percent_ok (s_tpl s) (s_nargs s)
  | Format => format_ok (s_tpl s) (s_nargs s) (s_kws s)
  end.

(* ---------------------------------------------------------------------------------------- *)
(* Part 2                                                                                   *)

Record use := mkuse { u_file : N; u_line : N; u_scope : N; u_names : list N }.

Section Names.
  Variable scope_of : N -> list N.
  Variable globals_of : N -> list N.
  Variable builtin_names : list N.
  Definition use_ok (u : use) : bool :=
    forallb (fun n => memN n (scope_of (u_scope u)) || memN n (globals_of (u_file u)) || memN n builtin_names)
            (u_names u).
End Names.

(* ---------------------------------------------------------------------------------------- *)
(* Part 3                                                                                   *)

(* the frame registry: name -> its over link (None = top) ; a name absent from the list is not a
   registered frame (Frame.Names[name] raises KeyError -> ResolveError "Bad over link") *)
Definition graph := list (N * option N).

Fixpoint lookup (g : graph) (n : N) : option (option N) :=
  match g with
  | [] => None
  | (k, v) :: r => if N.eqb k n then Some v else lookup r n
  end.

Inductive ores := Done | BadLink (n : N) | Loop | OutOfFuel.

(* AS FIXED: every frame met on the way up is remembered; meeting one again is a loop *)
Fixpoint climb (fuel : nat) (g : graph) (visited : list N) (cur : option N) : ores :=
  match cur with
  | None => Done
  | Some n =>
    match fuel with
    | O => OutOfFuel
    | S f =>
      match lookup g n with
      | None => BadLink n
      | Some ov => if memN n visited then Loop else climb f g (n :: visited) ov
      end
    end
  end.

Definition resolve_over (fuel : nat) (g : graph) (self : N) : ores :=
  match lookup g self with
  | None => BadLink self
  | Some ov => climb fuel g [self] ov
  end.

(* AS IT WAS: the loop check compares with the starting frame only *)
Fixpoint climb_orig (fuel : nat) (g : graph) (self : N) (cur : option N) : ores :=
  match cur with
  | None => Done
  | Some n =>
    match fuel with
    | O => OutOfFuel
    | S f =>
      match lookup g n with
      | None => BadLink n
      | Some ov => if N.eqb n self then Loop else climb_orig f g self ov
      end
    end
  end.

Definition resolve_over_orig (fuel : nat) (g : graph) (self : N) : ores :=
  match lookup g self with
  | None => BadLink self
  | Some ov => climb_orig fuel g self ov
  end.

(* the over chain from cur reaches the top in at most k steps *)
Fixpoint reaches_top (k : nat) (g : graph) (cur : option N) : bool :=
  match cur with
  | None => true
  | Some n =>
    match k with
    | O => false
    | S k' => match lookup g n with Some ov => reaches_top k' g ov | None => false end
    end
  end.

(* tokenizer / continuation loop of Builder.build: every iteration of the inner loops reads one
   more line of a finite file; [lines] is what is left, the boolean says whether the line read
   continues the current command *)
Fixpoint continuation (lines : list bool) : list bool :=
  match lines with
  | [] => []
  | true :: r => continuation r      (* connective continuation line: consumed *)
  | false :: r => false :: r          (* next command: stop (it is kept as nextTokens) *)
  end.

(* ---------------------------------------------------------------------------------------- *)
(* Part 4: framing.resolveFramer -- the tasker name registry is shared by framers, loggers and
   servers; a name resolves only to a FRAMER, and, when schedule contexts are given, only to
   one scheduled in one of them *)

Inductive tkind := TFramer (schedule : N) | TOther.

Fixpoint lookup_t (reg : list (N * tkind)) (n : N) : option tkind :=
  match reg with
  | [] => None
  | (k, v) :: r => if N.eqb k n then Some v else lookup_t r n
  end.

Inductive fres := FOk (schedule : N) | FResolveError.

Definition resolve_framer (reg : list (N * tkind)) (name : N) (contexts : list N) : fres :=
  match lookup_t reg name with
  | None => FResolveError                                  (* Bad link name *)
  | Some TOther => FResolveError                           (* tasker not framer *)
  | Some (TFramer s) =>
    match contexts with
    | [] => FOk s
    | _ => if memN s contexts then FOk s else FResolveError (* not scheduled as one of contexts *)
    end
  end.

(* ---------------------------------------------------------------------------------------- *)
(* Part 5: call signature of a raise site  raise excepting.X(a1 .. an, k1=.., ..)  against X.__init__:
   not more positionals than parameters, every keyword IS a parameter, not also given positionally,
   not given twice -- otherwise constructing the exception raises TypeError *)

Record rsite := mkrsite { r_file : N; r_line : N; r_cls : N; r_npos : N; r_kws : list N }.

Fixpoint index_of (x : N) (l : list N) (i : N) : option N :=
  match l with [] => None | y :: r => if N.eqb x y then Some i else index_of x r (i + 1) end.

Fixpoint nodupb (l : list N) : bool :=
  match l with [] => true | x :: r => negb (memN x r) && nodupb r end.

Definition sig_ok (params : list N) (s : rsite) : bool :=
  (r_npos s <=? N.of_nat (length params))
  && forallb (fun k => match index_of k params 0 with Some i => r_npos s <=? i | None => false end) (r_kws s)
  && nodupb (r_kws s).

(* an exempt site counts only while its guard (extracted from the builder source) is in force *)
Definition exempt_b (ex : list (N * N * bool)) (s : rsite) : bool :=
  existsb (fun e => N.eqb (fst (fst e)) (r_file s) && N.eqb (snd (fst e)) (r_line s) && snd e) ex.
