(* C29 -- property theorems only.  Each closed by [exact]; Print Assumptions beneath. *)
From Coq Require Import String.
From Coq Require Import List ZArith Bool.
Import ListNotations.
Require Import V.Lib.C29_Http V.Lib.C29_HttpProofs V.Lib.C29_HttpMachine V.Lib.C29_HttpObs V.C29.Model V.C29.Proofs.
Open Scope Z_scope.

(* "a result on a prefix is final" -- for every limit, eol set, buffer b and continuation c *)
Theorem line_stable : forall m e b l r c,
  next_line m e b = LLine l r -> next_line m e (b ++ c) = LLine l (r ++ c).
Proof. exact next_line_line_stable. Qed.
Print Assumptions line_stable.

Theorem line_too_long_stable : forall m e b c,
  next_line m e b = LTooLong -> next_line m e (b ++ c) = LTooLong.
Proof. exact next_line_toolong_stable. Qed.
Print Assumptions line_too_long_stable.

Theorem leader_stable : forall cf h b c,
  (forall h' r, leader_step cf h b = LdMore h' r -> leader_step cf h (b ++ c) = LdMore h' (r ++ c)) /\
  (forall h' r, leader_step cf h b = LdDone h' r -> leader_step cf h (b ++ c) = LdDone h' (r ++ c)) /\
  (forall e r, leader_step cf h b = LdErr e r -> leader_step cf h (b ++ c) = LdErr e (r ++ c)).
Proof.
  exact (fun cf h b c => conj (fun h' r => leader_step_more_stable cf h b h' r c)
                        (conj (fun h' r => leader_step_done_stable cf h b h' r c)
                              (fun e r => leader_step_err_stable cf h b e r c))).
Qed.
Print Assumptions leader_stable.

(* every transition of the Requestant / Respondent machine (start line, 100-continue block,
   header lines, chunk size line, chunk data, chunk terminator, trailers, fixed-length body,
   close-delimited body, every failure) taken on a buffer is taken identically on any
   extension of that buffer, leaving the extension unconsumed behind it *)
Theorem step_stable : forall cf s b s' r c,
  http_step cf false s b = Adv s' r -> http_step cf false s (b ++ c) = Adv s' (r ++ c).
Proof. exact http_step_stable. Qed.
Print Assumptions step_stable.

(* SPLIT INDEPENDENCE for ALL splits: request or response parser, any limits and url oracle,
   any list of receives (a parse() call after each): same parser state -- start line, version,
   status, header map, framing, body so far, chunk extensions, trailers, stage, failure --
   and same unconsumed bytes as one receive of the concatenation. *)
Theorem http_split_independent : forall cf resp headreq pieces,
  http_feed_all cf (init_pst resp headreq, []) pieces =
  http_feed cf (init_pst resp headreq, []) (concat pieces).
Proof. exact http_split_independent_init. Qed.
Print Assumptions http_split_independent.

Theorem http_any_two_splits_agree : forall cf resp headreq ps qs, concat ps = concat qs ->
  http_feed_all cf (init_pst resp headreq, []) ps = http_feed_all cf (init_pst resp headreq, []) qs.
Proof. exact http_two_splits. Qed.
Print Assumptions http_any_two_splits_agree.

(* ... also when the peer then closes the connection (close-delimited responses) *)
Theorem http_any_two_splits_agree_after_close : forall cf resp headreq ps qs, concat ps = concat qs ->
  http_close cf (http_feed_all cf (init_pst resp headreq, []) ps) =
  http_close cf (http_feed_all cf (init_pst resp headreq, []) qs).
Proof. exact http_two_splits_then_close. Qed.
Print Assumptions http_any_two_splits_agree_after_close.

(* from any waiting configuration (second and later messages on a connection) *)
Theorem http_split_independent_midstream : forall cf pieces k,
  quiescent pst (http_step cf false) k ->
  http_feed_all cf k pieces = http_feed cf k (concat pieces).
Proof. exact http_feed_all_concat. Qed.
Print Assumptions http_split_independent_midstream.

(* LEFTOVER: once a message is complete (or has failed) the bytes after it stay unconsumed *)
Theorem bytes_after_message_left_unconsumed : forall cf s0 b s' b' c,
  http_feed cf (s0, []) b = (s', b') -> terminal (p_stage s') = true ->
  http_feed cf (s0, []) (b ++ c) = (s', b' ++ c).
Proof. exact http_done_leftover. Qed.
Print Assumptions bytes_after_message_left_unconsumed.

(* ------------------------------------------------------------------ *)
(* ROUND TRIP  parse (serialize m ++ rest) = (m, rest)                  *)
(* ------------------------------------------------------------------ *)
(* a header line written with ANY SP / HTAB padding before and after the colon -- in particular
   none ("Host:example") -- and ANY letter case in the name sets exactly lower(name) := value in the header map *)
Theorem header_line_with_or_without_space : forall h hs, hline_ok h = true ->
  header_line (hl_name h ++ hl_pre h ++ [58] ++ hl_post h ++ hl_value h) hs
  = Some (aset (lower (hl_name h)) (hl_value h) hs).
Proof. exact header_line_render. Qed.
Print Assumptions header_line_with_or_without_space.

(* what a header block announces, from the concrete header lines *)
Theorem content_length_header_announces : forall h ds,
  aget (bz "transfer-encoding") h = None -> aget (bz "content-length") h = Some (num ds) ->
  ds <> [] -> digits_ok 10 ds = true -> len ds <= 4300 ->
  is_chunked h = false /\ request_length h = Some (dval 10 ds 0).
Proof. exact request_length_fixed. Qed.
Print Assumptions content_length_header_announces.

Theorem no_framing_header_announces_no_body : forall h,
  aget (bz "transfer-encoding") h = None -> aget (bz "content-length") h = None ->
  is_chunked h = false /\ request_length h = Some 0.
Proof. exact request_length_nobody. Qed.
Print Assumptions no_framing_header_announces_no_body.

(* In all round trips the start line, every header line, the blank line and every trailer line
   end in CRLF or bare LF, chosen independently per line (e0, hl_end, e1, e2); header names have
   any letter case.  (Chunk size lines and chunk terminators are CRLF: parseChunk accepts only that.)

   REQUEST with no body / a Content-Length body.  The parser ends in SDone holding exactly the
   message's method, url, version, header map (lodict of the header lines) and body; [rest]
   (the next message) is left unconsumed. *)
Theorem request_roundtrip_fixed : forall cf method url v11 e0 lines e1 body rest,
  0 <= maxline cf ->
  tok_ok method = true -> existsb (beq method) METHODS = true -> tok_ok url = true -> url_ok cf url = true ->
  len (request_line method url v11) <= maxline cf ->
  forallb hline_ok lines = true -> forallb (line_len_ok cf) lines = true ->
  Z.of_nat (length lines) <= maxhdrs cf ->
  is_chunked (hdrs_of lines) = false -> request_length (hdrs_of lines) = Some (len body) ->
  http_feed cf (init_pst false false, []) (head_bytes (request_line method url v11) e0 lines e1 ++ body ++ rest)
  = (with_body (req_headed method url v11 lines) body [], rest).
Proof. exact request_fixed_roundtrip. Qed.
Print Assumptions request_roundtrip_fixed.

(* REQUEST, chunked: chunk sizes are any hex numeral, digits a-f / A-F in either case per digit (codes 10-15 / 16-21 of
   Model.dchar), leading zeros allowed, every
   chunk and the last chunk may carry extensions ;name / ;name=value, then trailer lines.
   .parms = the chunks' extensions merged in order (odict update), .trails = lodict of the trailers *)
Theorem request_roundtrip_chunked : forall cf method url v11 e0 lines e1 chunks zs les trailers e2 rest,
  0 <= maxline cf ->
  tok_ok method = true -> existsb (beq method) METHODS = true -> tok_ok url = true -> url_ok cf url = true ->
  len (request_line method url v11) <= maxline cf ->
  forallb hline_ok lines = true -> forallb (line_len_ok cf) lines = true ->
  Z.of_nat (length lines) <= maxhdrs cf ->
  is_chunked (hdrs_of lines) = true ->
  forallb (chunk_ok cf) chunks = true -> zeros_ok cf zs les = true ->
  forallb hline_ok trailers = true -> forallb (line_len_ok cf) trailers = true ->
  Z.of_nat (length trailers) <= maxhdrs cf ->
  http_feed cf (init_pst false false, [])
            (head_bytes (request_line method url v11) e0 lines e1 ++ chunked_bytes chunks zs les trailers e2 ++ rest)
  = (with_chunked (req_headed method url v11 lines) (concat (map ch_data chunks)) (parms_of chunks les [])
                  (hdrs_of trailers), rest).
Proof. exact request_chunked_roundtrip. Qed.
Print Assumptions request_roundtrip_chunked.

(* RESPONSE with announced length (Content-Length; 204 / 304 / 1xx / reply to HEAD: 0) *)
Theorem response_roundtrip_fixed : forall cf hr v11 ds reason e0 lines e1 body rest,
  0 <= maxline cf ->
  status_ok ds = true -> forallb tok_ok reason = true ->
  len (status_line v11 ds reason) <= maxline cf ->
  forallb hline_ok lines = true -> forallb (line_len_ok cf) lines = true ->
  Z.of_nat (length lines) <= maxhdrs cf ->
  is_chunked (hdrs_of lines) = false ->
  response_length hr (dval 10 ds 0) (hdrs_of lines) = Some (len body) ->
  http_feed cf (init_pst true hr, []) (head_bytes (status_line v11 ds reason) e0 lines e1 ++ body ++ rest)
  = (with_body (resp_headed hr v11 (dval 10 ds 0) reason lines) body [], rest).
Proof. exact response_fixed_roundtrip. Qed.
Print Assumptions response_roundtrip_fixed.

(* RESPONSE delimited by the close of the connection *)
Theorem response_roundtrip_close_delimited : forall cf hr v11 ds reason e0 lines e1 body,
  0 <= maxline cf ->
  status_ok ds = true -> forallb tok_ok reason = true ->
  len (status_line v11 ds reason) <= maxline cf ->
  forallb hline_ok lines = true -> forallb (line_len_ok cf) lines = true ->
  Z.of_nat (length lines) <= maxhdrs cf ->
  is_chunked (hdrs_of lines) = false ->
  response_length hr (dval 10 ds 0) (hdrs_of lines) = None ->
  http_close cf (http_feed cf (init_pst true hr, []) (head_bytes (status_line v11 ds reason) e0 lines e1 ++ body))
  = (with_body (resp_headed hr v11 (dval 10 ds 0) reason lines) body [], []).
Proof. exact response_close_roundtrip. Qed.
Print Assumptions response_roundtrip_close_delimited.

Theorem response_roundtrip_chunked : forall cf hr v11 ds reason e0 lines e1 chunks zs les trailers e2 rest,
  0 <= maxline cf ->
  status_ok ds = true -> forallb tok_ok reason = true ->
  len (status_line v11 ds reason) <= maxline cf ->
  forallb hline_ok lines = true -> forallb (line_len_ok cf) lines = true ->
  Z.of_nat (length lines) <= maxhdrs cf ->
  is_chunked (hdrs_of lines) = true ->
  forallb (chunk_ok cf) chunks = true -> zeros_ok cf zs les = true ->
  forallb hline_ok trailers = true -> forallb (line_len_ok cf) trailers = true ->
  Z.of_nat (length trailers) <= maxhdrs cf ->
  http_feed cf (init_pst true hr, [])
            (head_bytes (status_line v11 ds reason) e0 lines e1 ++ chunked_bytes chunks zs les trailers e2 ++ rest)
  = (with_chunked (resp_headed hr v11 (dval 10 ds 0) reason lines) (concat (map ch_data chunks))
                  (parms_of chunks les []) (hdrs_of trailers), rest).
Proof. exact response_chunked_roundtrip. Qed.
Print Assumptions response_roundtrip_chunked.

(* ... and therefore under EVERY split into receives *)
Theorem roundtrip_under_any_split : forall cf resp hr data R,
  http_feed cf (init_pst resp hr, []) data = R ->
  forall pieces, concat pieces = data -> http_feed_all cf (init_pst resp hr, []) pieces = R.
Proof. exact any_split_of. Qed.
Print Assumptions roundtrip_under_any_split.

(* non-vacuity: the hypotheses are satisfiable and the states are what one expects *)
Definition cfx := mkcfg 65536 100 [].
Definition hl (n pre post v : string) (e : leol) : hline :=
  {| hl_name := bz n; hl_pre := bz pre; hl_post := bz post; hl_value := bz v; hl_end := e |}.

Example c29_request_fixed_instance :
  let lines := [hl "Host" "" "" "example.org" LLf; hl "CONTENT-length" " " "  " "3" LCrLf] in
  (forallb hline_ok lines && negb (is_chunked (hdrs_of lines)))%bool = true /\
  request_length (hdrs_of lines) = Some 3 /\
  head_bytes (request_line (bz "POST") (bz "/a?b") true) LLf lines LLf =
    bz "POST /a?b HTTP/1.1" ++ [10] ++ bz "Host:example.org" ++ [10] ++ bz "CONTENT-length :  3" ++ [13; 10; 10] /\
  let k := http_feed_all cfx (init_pst false false, [])
             [bz "PO"; bz "ST /a?b HTTP/1.1" ++ [10] ++ bz "Host:example.org"; [10] ++
              bz "CONTENT-length :  3" ++ [13]; [10; 10] ++ bz "abcGET /next"] in
  k = (with_body (req_headed (bz "POST") (bz "/a?b") true lines) (bz "abc") [], bz "GET /next")
  /\ p_headers (fst k) = [(bz "host", bz "example.org"); (bz "content-length", bz "3")]
  /\ p_body (fst k) = bz "abc" /\ p_stage (fst k) = SDone /\ persisted (fst k) = true.
Proof. vm_compute. repeat split; reflexivity. Qed.

Example c29_response_chunked_instance :
  let lines := [hl "Transfer-Encoding" "" " " "chunked" LLf] in
  let chunks : list chunk := [([0; 3], [(bz "a", Some (bz "1")); (bz "b", None)], bz "abc");
                              ([16], [(bz "a", Some (bz "2"))], bz "0123456789")] in
  let les := [(bz "last", None)] in
  let trailers := [hl "X-Sum" "" "" "9" LLf] in
  (forallb (chunk_ok cfx) chunks && zeros_ok cfx [0; 0] les && is_chunked (hdrs_of lines) && status_ok [2; 0; 0])%bool = true /\
  chunked_bytes chunks [0; 0] les trailers LCrLf =
    bz "03;a=1;b" ++ [13; 10] ++ bz "abc" ++ [13; 10] ++ bz "A;a=2" ++ [13; 10] ++ bz "0123456789" ++ [13; 10] ++
    bz "00;last" ++ [13; 10] ++ bz "X-Sum:9" ++ [10; 13; 10] /\
  http_feed cfx (init_pst true false, [])
    (head_bytes (status_line true [2; 0; 0] [bz "OK"]) LCrLf lines LLf ++ chunked_bytes chunks [0; 0] les trailers LCrLf ++ bz "HTTP/1.1 ")
  = (with_chunked (resp_headed false true 200 [bz "OK"] lines) (bz "abc0123456789")
                  [(bz "a", Some (bz "2")); (bz "b", None); (bz "last", None)] [(bz "x-sum", bz "9")], bz "HTTP/1.1 ").
Proof. vm_compute. repeat split; reflexivity. Qed.

(* ------------------------------------------------------------------ *)
(* keep-alive flag (.persisted) as a function of the parsed head        *)
(* ------------------------------------------------------------------ *)
Theorem http11_persists_by_default : forall s, p_version s = 1 ->
  aget (bz "connection") (p_headers s) = None ->
  (p_chunked s = true \/ exists n, p_length s = Some n) -> persisted11 s = true.
Proof. exact persisted_http11_default. Qed.
Print Assumptions http11_persists_by_default.

Theorem connection_close_never_persists : forall s v, aget (bz "connection") (p_headers s) = Some v ->
  v <> [] -> contains (bz "close") (lower v) = true -> persisted11 s = false.
Proof. exact persisted_close. Qed.
Print Assumptions connection_close_never_persists.

Theorem http10_request_persists_iff_keep_alive : forall s, p_version s = 0 ->
  req_persisted s = hdr_has (bz "connection") (bz "keep-alive") (p_headers s).
Proof. exact req_persisted_http10. Qed.
Print Assumptions http10_request_persists_iff_keep_alive.

(* ------------------------------------------------------------------ *)
(* leniency of the chunk size field (int(x, 16) after bytes.strip())    *)
(* ------------------------------------------------------------------ *)
(* White space (SP, HTAB, ... bytes.strip()'s set) on either side of the size, and a 0x / 0X
   prefix optionally followed by one underscore, do not change the size and extensions that
   parseChunk reads from a chunk size line. *)
Theorem chunk_size_field_padding_and_0x_prefix : forall pre post (pfx : option (Z * bool)) ds es,
  forallb is_ws_b pre = true -> forallb is_ws_b post = true ->
  match pfx with Some (x, _) => x = 120 \/ x = 88 | None => True end ->
  ds <> [] -> digits_ok 16 ds = true -> len ds <= 4300 -> forallb ext_ok es = true ->
  parse_chunk_size (pre ++ (match pfx with Some (x, us) => hex_prefix x us | None => [] end ++ num ds)
                        ++ post ++ render_exts es)
  = Some (dval 16 ds 0, exts_map es).
Proof. exact parse_chunk_size_lenient. Qed.
Print Assumptions chunk_size_field_padding_and_0x_prefix.

Example c29_lenient_size_instance :
  parse_chunk_size (bz " 0X_1F " ++ bz ";a=1") = Some (31, [(bz "a", Some (bz "1"))]) /\
  [32] ++ (hex_prefix 88 true ++ num [1; 21]) ++ [32] ++ render_exts [(bz "a", Some (bz "1"))] = bz " 0X_1F ;a=1".
Proof. vm_compute. split; reflexivity. Qed.

(* ------------------------------------------------------------------ *)
(* REUSED PARSER: one Requestant / Respondent over a stream of messages *)
(* ------------------------------------------------------------------ *)
(* makeParser() after every complete message, next message parsed from the bytes left: the list
   of completed messages, the current parser state and the unconsumed bytes are the same for
   every split of the stream into receives *)
Theorem session_split_independent : forall cf resp hr pieces,
  sess_feed_all cf resp hr (sess_init resp hr) pieces = sess_feed cf resp hr (sess_init resp hr) (concat pieces).
Proof. exact sess_split_independent. Qed.
Print Assumptions session_split_independent.

(* the first message of a stream is parsed exactly as a fresh parser parses it alone (so every
   round-trip theorem above applies to it), it is logged, and the parse continues FROM THE INITIAL
   STATE on exactly the bytes that message left unconsumed: nothing is inherited from it *)
Theorem session_message_by_message : forall cf resp hr data s' r log,
  http_feed cf (init_pst resp hr, []) data = (s', r) -> stage_done s' = true ->
  sess_feed cf resp hr ((init_pst resp hr, log), []) data
  = sess_feed cf resp hr ((init_pst resp hr, log ++ [s']), []) r.
Proof. exact sess_feed_cons. Qed.
Print Assumptions session_message_by_message.

(* non-vacuity: POST with a body, then a GET without Content-Length, then another GET *)
Example c29_session_instance :
  let nl := [13; 10] in
  let m1 := bz "POST /i HTTP/1.1" ++ nl ++ bz "Content-Length: 5" ++ nl ++ nl ++ bz "hello" in
  let m2 := bz "GET /a HTTP/1.1" ++ nl ++ bz "Host:x" ++ nl ++ nl in
  let m3 := bz "GET /b HTTP/1.1" ++ nl ++ nl in
  let k := sess_feed_all cfx false false (sess_init false false)
             [firstn 30 (m1 ++ m2 ++ m3); skipn 30 (m1 ++ m2 ++ m3)] in
  map (fun s => (p_start s, p_body s)) (snd (fst k)) =
    [([bz "POST"; bz "/i"], bz "hello"); ([bz "GET"; bz "/a"], []); ([bz "GET"; bz "/b"], [])]
  /\ snd k = [].
Proof. vm_compute. split; reflexivity. Qed.
