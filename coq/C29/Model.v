(* C29 -- HTTP messages parse the same however their bytes arrive.
   The parser model (http_step, leader_step, next_line, parse_chunk_size, ...) is in
   V.Lib.C29_Http (shared with C32, C33).  Here: the serialisation side used by the
   round-trip theorems.  Definitions only. *)
From Coq Require Import String.
From Coq Require Import List ZArith Bool.
Import ListNotations.
Require Export V.Lib.C29_Http.
Require V.Lib.C29_HttpObs.   (* observation functions of the correspondence runs: keep in the build closure *)
Open Scope Z_scope.

Definition CRLF : bytes := [13; 10].

(* a header line as a sender may write it: optional white space (SP / HTAB) around the colon *)
(* line end of a start line / header line / trailer line: CRLF or bare LF, chosen per line *)
Inductive leol := LCrLf | LLf.
Definition eol_b (e : leol) : bytes := match e with LCrLf => [13; 10] | LLf => [10] end.

Record hline := { hl_name : bytes; hl_pre : bytes; hl_post : bytes; hl_value : bytes; hl_end : leol }.

Definition render_hline (h : hline) : bytes :=
  hl_name h ++ hl_pre h ++ [58] ++ hl_post h ++ hl_value h ++ eol_b (hl_end h).

Definition render_hlines (hs : list hline) : bytes := flat_map render_hline hs.

Definition is_sp (c : Z) : bool := (c =? 32) || (c =? 9).
Definition no_crlf (b : bytes) : bool := forallb (fun c => negb (c =? 13) && negb (c =? 10)) b.

(* name: non empty, no colon / CR / LF / white space, ANY letter case (the map key is its lower case);
   value: no CR / LF, no white space at either end; padding: SP / HTAB only *)
Definition name_ok (n : bytes) : bool :=
  negb (is_nil n) && forallb (fun c => negb (c =? 58) && negb (is_ws_u c)) n.
Definition value_ok (v : bytes) : bool :=
  no_crlf v && beq (strip is_ws_u v) v.
Definition hline_ok (h : hline) : bool :=
  name_ok (hl_name h) && value_ok (hl_value h) && forallb is_sp (hl_pre h) && forallb is_sp (hl_post h).

(* header map of a list of header lines with pairwise different names *)
Definition hmap (hs : list hline) : hdrs := map (fun h => (lower (hl_name h), hl_value h)) hs.

(* header map of a header block: lodict semantics (a repeated name overwrites, keeps its place) *)
Definition hdrs_of (lines : list hline) : hdrs :=
  fold_left (fun acc l => aset (lower (hl_name l)) (hl_value l) acc) lines [].

(* tokens: non empty, no white space (so no CR / LF either) *)
Definition no_ws (ws : Z -> bool) (b : bytes) : bool := forallb (fun c => negb (ws c)) b.
Definition tok_ok (t : bytes) : bool := negb (is_nil t) && no_ws is_ws_u t.

(* numerals as lists of digit codes: 0..9 -> '0'..'9', 10..15 -> 'a'..'f', 16..21 -> 'A'..'F'
   (the upper-case hex digits; only with base 16).  dv = the digit's value. *)
Definition dchar (d : Z) : Z := if d <? 10 then 48 + d else if d <? 16 then 87 + d else 49 + d.
Definition dv (d : Z) : Z := if d <? 16 then d else d - 6.
Definition dval (base : Z) (ds : list Z) (acc : Z) : Z := fold_left (fun a d => a * base + dv d) ds acc.
Definition dbound (base : Z) : Z := if base =? 16 then 22 else base.
Definition digits_ok (base : Z) (ds : list Z) : bool := forallb (fun d => (0 <=? d) && (d <? dbound base)) ds.
Definition num (ds : list Z) : bytes := map dchar ds.

(* ---- serialisation ---- *)
Definition version_str (v11 : bool) : bytes := if v11 then bz "HTTP/1.1" else bz "HTTP/1.0".

Definition request_line (method url : bytes) (v11 : bool) : bytes :=
  join_with [32] [method; url; version_str v11].

(* status given by its three digits, reason phrase as its words *)
Definition status_line (v11 : bool) (status_digits : list Z) (reason : list bytes) : bytes :=
  join_with [32] (version_str v11 :: num status_digits :: reason).

(* e0: line end of the start line, e1: of the empty line that ends the header block *)
Definition head_bytes (start : bytes) (e0 : leol) (lines : list hline) (e1 : leol) : bytes :=
  start ++ eol_b e0 ++ render_hlines lines ++ eol_b e1.

(* chunk extensions  ;name  |  ;name=value  *)
Definition ext := (bytes * option bytes)%type.
Definition ext_piece (e : ext) : bytes :=
  fst e ++ match snd e with Some v => 61 :: v | None => [] end.
Definition render_exts (es : list ext) : bytes := flat_map (fun e => 59 :: ext_piece e) es.
Definition ext_tok (t : bytes) : bool :=
  negb (is_nil t) && forallb (fun c => negb (c =? 59) && negb (c =? 61) && negb (is_ws_b c)) t.
Definition ext_ok (e : ext) : bool :=
  ext_tok (fst e) && match snd e with Some v => ext_tok v | None => true end.
(* odict of the extensions of one chunk *)
Definition exts_map (es : list ext) : parms := fold_left (fun acc e => aset (fst e) (snd e) acc) es [].

(* chunked body: chunks (size as hex digits, extensions, data), then the last chunk (zeros, extensions)
   and trailer lines *)
Definition chunk := (list Z * list ext * bytes)%type.
Definition ch_size (c : chunk) := fst (fst c).
Definition ch_exts (c : chunk) := snd (fst c).
Definition ch_data (c : chunk) := snd c.
Definition size_line (ds : list Z) (es : list ext) : bytes := num ds ++ render_exts es.
Definition chunk_bytes (c : chunk) : bytes := size_line (ch_size c) (ch_exts c) ++ CRLF ++ ch_data c ++ CRLF.
Definition chunked_bytes (chunks : list chunk) (zeros : list Z) (lastexts : list ext) (trailers : list hline)
           (e1 : leol) : bytes :=
  flat_map chunk_bytes chunks ++ size_line zeros lastexts ++ CRLF ++ render_hlines trailers ++ eol_b e1.
(* .parms after all chunks: update with each chunk's extensions in order *)
Definition parms_of (chunks : list chunk) (lastexts : list ext) (p0 : parms) : parms :=
  aupdate (fold_left (fun acc c => aupdate acc (exts_map (ch_exts c))) chunks p0) (exts_map lastexts).

(* ---- expected parser states ---- *)
Definition req_headed (method url : bytes) (v11 : bool) (lines : list hline) : pst :=
  head_done (set_start (init_pst false false) [method; url] (if v11 then 1 else 0) (-1) (SLeader []))
            (hdrs_of lines).

Definition resp_headed (headreq v11 : bool) (status : Z) (reason : list bytes) (lines : list hline) : pst :=
  head_done (set_start (init_pst true headreq) [join_with [32] reason] (if v11 then 1 else 0) status (SLeader []))
            (hdrs_of lines).

Definition with_body (s : pst) (body : bytes) (t : hdrs) : pst := set_body s body (p_parms s) t SDone.
Definition with_chunked (s : pst) (body : bytes) (p : parms) (t : hdrs) : pst := set_body s body p t SDone.
