(* C29 -- lemmas for the round trip parse (serialize m ++ rest) = (m, rest) *)
From Coq Require Import String.
From Coq Require Import List ZArith Bool Lia.
Import ListNotations.
Require Import V.Lib.C29_Http V.Lib.C29_HttpProofs V.Lib.C29_HttpMachine V.C29.Model.
Open Scope Z_scope.

(* ------------------------------------------------------------------ *)
(* byte string helpers                                                 *)
(* ------------------------------------------------------------------ *)
Lemma beq_refl b : beq b b = true.
Proof. induction b as [|x t IH]; [reflexivity|]. cbn. rewrite Z.eqb_refl. exact IH. Qed.

Lemma beq_eq : forall a b, beq a b = true -> a = b.
Proof.
  induction a as [|x a IH]; intros [|y b] H; try discriminate; [reflexivity|].
  cbn in H. apply andb_true_iff in H. destruct H as [H1 H2]. apply Z.eqb_eq in H1. subst.
  f_equal. apply IH. exact H2.
Qed.

Lemma lstrip_all ws : forall p v, forallb ws p = true -> lstrip ws (p ++ v) = lstrip ws v.
Proof.
  induction p as [|c t IH]; intros v H; [reflexivity|].
  cbn in H. apply andb_true_iff in H. destruct H as [H1 H2]. cbn. rewrite H1. apply IH. exact H2.
Qed.

Lemma rstrip_all ws : forall n p, forallb ws p = true -> rstrip ws (n ++ p) = rstrip ws n.
Proof.
  intros n p H. unfold rstrip. rewrite rev_app_distr. rewrite lstrip_all; [reflexivity|].
  rewrite forallb_forall in *. intros x Hx. apply H. apply in_rev. exact Hx.
Qed.


Lemma lstrip_no_ws ws : forall b, no_ws ws b = true -> lstrip ws b = b.
Proof.
  intros [|c t] H; [reflexivity|]. cbn in H. apply andb_true_iff in H. destruct H as [H _].
  apply negb_true_iff in H. cbn. rewrite H. reflexivity.
Qed.

Lemma no_ws_rev ws b : no_ws ws b = true -> no_ws ws (rev b) = true.
Proof.
  unfold no_ws. rewrite !forallb_forall. intros H x Hx. apply H. apply in_rev. exact Hx.
Qed.

Lemma rstrip_no_ws ws b : no_ws ws b = true -> rstrip ws b = b.
Proof.
  intros H. unfold rstrip. rewrite lstrip_no_ws by (apply no_ws_rev; exact H). apply rev_involutive.
Qed.

Lemma strip_no_ws ws b : no_ws ws b = true -> strip ws b = b.
Proof. intros H. unfold strip. rewrite lstrip_no_ws by exact H. apply rstrip_no_ws. exact H. Qed.

Lemma is_sp_ws c : is_sp c = true -> is_ws_u c = true.
Proof.
  unfold is_sp, is_ws_u, is_ws_b. intros H. apply orb_true_iff in H. destruct H as [H|H]; apply Z.eqb_eq in H; subst; reflexivity.
Qed.

Lemma forallb_sp_ws p : forallb is_sp p = true -> forallb is_ws_u p = true.
Proof. rewrite !forallb_forall. intros H x Hx. apply is_sp_ws. apply H. exact Hx. Qed.

(* partition at the first colon *)
Lemma partition_at_app x : forall a r, forallb (fun c => negb (c =? x)) a = true ->
  partition_at x (a ++ x :: r) = Some (a, r).
Proof.
  induction a as [|c t IH]; intros r H.
  - cbn. rewrite Z.eqb_refl. reflexivity.
  - cbn in H. apply andb_true_iff in H. destruct H as [H1 H2]. apply negb_true_iff in H1.
    cbn. rewrite H1. rewrite (IH r H2). reflexivity.
Qed.

(* ------------------------------------------------------------------ *)
(* lines                                                               *)
(* ------------------------------------------------------------------ *)
Lemma split_line_crlf e : forall l rest, no_crlf l = true ->
  split_line e (l ++ 13 :: 10 :: rest) = Some (l, rest).
Proof.
  induction l as [|c t IH]; intros rest H.
  - reflexivity.
  - cbn [no_crlf forallb] in H. apply andb_true_iff in H. destruct H as [H Ht].
    apply andb_true_iff in H. destruct H as [H13 H10].
    apply negb_true_iff in H13. apply negb_true_iff in H10.
    cbn [app split_line]. rewrite H13, H10. cbn [andb].
    fold (no_crlf t) in Ht. rewrite (IH rest Ht). reflexivity.
Qed.

Lemma split_line_lf e : lf_is_eol e = true -> forall l rest, no_crlf l = true ->
  split_line e (l ++ 10 :: rest) = Some (l, rest).
Proof.
  intros He. induction l as [|c t IH]; intros rest H.
  - cbn [app split_line]. rewrite He. reflexivity.
  - cbn [no_crlf forallb] in H. apply andb_true_iff in H. destruct H as [H Ht].
    apply andb_true_iff in H. destruct H as [H13 H10].
    apply negb_true_iff in H13. apply negb_true_iff in H10.
    cbn [app split_line]. rewrite H13, H10. cbn [andb].
    fold (no_crlf t) in Ht. rewrite (IH rest Ht). reflexivity.
Qed.

Lemma next_line_eol m l eo rest : no_crlf l = true -> len l <= m ->
  next_line m ECrLfLf (l ++ eol_b eo ++ rest) = LLine l rest.
Proof.
  intros H L. unfold next_line. destruct eo; cbn [eol_b app].
  - rewrite split_line_crlf by exact H.
    destruct (m <? len l) eqn:E; [apply Z.ltb_lt in E; lia|]. reflexivity.
  - rewrite split_line_lf by (try reflexivity; exact H).
    destruct (m <? len l) eqn:E; [apply Z.ltb_lt in E; lia|]. reflexivity.
Qed.

Lemma next_line_crlf m e l rest : no_crlf l = true -> len l <= m ->
  next_line m e (l ++ CRLF ++ rest) = LLine l rest.
Proof.
  intros H L. unfold next_line, CRLF. cbn [app]. rewrite split_line_crlf by exact H.
  destruct (m <? len l) eqn:E; [apply Z.ltb_lt in E; lia|]. reflexivity.
Qed.

(* ------------------------------------------------------------------ *)
(* header lines: any SP / HTAB padding around the colon                 *)
(* ------------------------------------------------------------------ *)
Lemma name_ok_parts n : name_ok n = true ->
  n <> [] /\ forallb (fun c => negb (c =? 58)) n = true /\ no_ws is_ws_u n = true.
Proof.
  unfold name_ok. intros H. apply andb_true_iff in H. destruct H as [Hn H].
  split; [destruct n; [discriminate|congruence]|].
  assert (A : forall c, In c n -> negb (c =? 58) = true /\ negb (is_ws_u c) = true).
  { rewrite forallb_forall in H. intros c Hc. specialize (H c Hc).
    apply andb_true_iff in H. destruct H as [H1 H2]. auto. }
  repeat split.
  - apply forallb_forall. intros c Hc. apply A. exact Hc.
  - apply forallb_forall. intros c Hc. apply A. exact Hc.
Qed.

Lemma sp_no_colon p : forallb is_sp p = true -> forallb (fun c => negb (c =? 58)) p = true.
Proof.
  rewrite !forallb_forall. intros H x Hx. specialize (H x Hx). unfold is_sp in H.
  apply orb_true_iff in H. destruct H as [H|H]; apply Z.eqb_eq in H; subst; reflexivity.
Qed.

Lemma lstrip_head ws c t : ws c = false -> lstrip ws (c :: t) = c :: t.
Proof. intros H. cbn. rewrite H. reflexivity. Qed.

Lemma header_line_render h hs : hline_ok h = true ->
  header_line (hl_name h ++ hl_pre h ++ [58] ++ hl_post h ++ hl_value h) hs
  = Some (aset (lower (hl_name h)) (hl_value h) hs).
Proof.
  unfold hline_ok. intros H. apply andb_true_iff in H. destruct H as [H Hpost].
  apply andb_true_iff in H. destruct H as [H Hpre]. apply andb_true_iff in H. destruct H as [Hn Hv].
  destruct (name_ok_parts _ Hn) as [Hne [Hnc Hnw]].
  unfold value_ok in Hv. apply andb_true_iff in Hv. destruct Hv as [_ Hv]. apply beq_eq in Hv.
  unfold header_line.
  rewrite app_assoc. cbn [app].
  rewrite partition_at_app.
  2:{ rewrite forallb_app. rewrite Hnc. rewrite (sp_no_colon _ Hpre). reflexivity. }
  f_equal. f_equal.
  - unfold strip.
    assert (L : lstrip is_ws_u (hl_name h ++ hl_pre h) = hl_name h ++ hl_pre h).
    { destruct (hl_name h) as [|c t]; [congruence|]. cbn [app]. apply lstrip_head.
      cbn in Hnw. apply andb_true_iff in Hnw. destruct Hnw as [Hc _]. apply negb_true_iff in Hc. exact Hc. }
    rewrite L. rewrite rstrip_all by (apply forallb_sp_ws; exact Hpre).
    rewrite rstrip_no_ws by exact Hnw. reflexivity.
  - unfold strip. rewrite lstrip_all by (apply forallb_sp_ws; exact Hpost). exact Hv.
Qed.

Lemma render_hline_no_crlf h : hline_ok h = true ->
  no_crlf (hl_name h ++ hl_pre h ++ [58] ++ hl_post h ++ hl_value h) = true.
Proof.
  unfold hline_ok. intros H. apply andb_true_iff in H. destruct H as [H Hpost].
  apply andb_true_iff in H. destruct H as [H Hpre]. apply andb_true_iff in H. destruct H as [Hn Hv].
  destruct (name_ok_parts _ Hn) as [_ [_ Hnw]].
  unfold value_ok in Hv. apply andb_true_iff in Hv. destruct Hv as [Hv _].
  unfold no_crlf in *. rewrite !forallb_app. rewrite Hv. cbn [forallb]. cbn.
  assert (S : forall p, forallb is_sp p = true ->
              forallb (fun c => negb (c =? 13) && negb (c =? 10)) p = true).
  { intros p Hp. rewrite forallb_forall in *. intros x Hx. specialize (Hp x Hx). unfold is_sp in Hp.
    apply orb_true_iff in Hp. destruct Hp as [E|E]; apply Z.eqb_eq in E; subst; reflexivity. }
  rewrite (S _ Hpre), (S _ Hpost). rewrite !andb_true_r.
  unfold no_ws in Hnw. rewrite forallb_forall in *. intros x Hx. specialize (Hnw x Hx).
  apply negb_true_iff in Hnw. unfold is_ws_u, is_ws_b in Hnw.
  destruct (x =? 13) eqn:E13; [apply Z.eqb_eq in E13; subst; discriminate|].
  destruct (x =? 10) eqn:E10; [apply Z.eqb_eq in E10; subst; discriminate|]. reflexivity.
Qed.

(* ------------------------------------------------------------------ *)
(* str.split() of tokens joined by single spaces                        *)
(* ------------------------------------------------------------------ *)

Lemma split_ws_aux_tok : forall t cur rest, no_ws is_ws_u t = true ->
  split_ws_aux is_ws_u cur (t ++ rest) = split_ws_aux is_ws_u (rev t ++ cur) rest.
Proof.
  induction t as [|c t IH]; intros cur rest H; [reflexivity|].
  cbn in H. apply andb_true_iff in H. destruct H as [Hc Ht]. apply negb_true_iff in Hc.
  cbn [app split_ws_aux]. rewrite Hc. rewrite (IH (c :: cur) rest Ht).
  cbn [rev]. rewrite <- app_assoc. reflexivity.
Qed.

Lemma split_ws_join : forall toks, forallb tok_ok toks = true ->
  split_ws (join_with [32] toks) = toks.
Proof.
  unfold split_ws. induction toks as [|t ts IH]; intros H; [reflexivity|].
  cbn [forallb] in H. apply andb_true_iff in H. destruct H as [Ht Hts].
  unfold tok_ok in Ht. apply andb_true_iff in Ht. destruct Ht as [Hne Hnw].
  destruct ts as [|t2 ts'].
  - cbn [join_with]. rewrite <- (app_nil_r t) at 1. rewrite split_ws_aux_tok by exact Hnw.
    rewrite app_nil_r. cbn. destruct (rev t) eqn:E.
    + apply (f_equal (@rev Z)) in E. rewrite rev_involutive in E. subst. discriminate.
    + rewrite <- E. rewrite rev_involutive. reflexivity.
  - change (join_with [32] (t :: t2 :: ts')) with (t ++ [32] ++ join_with [32] (t2 :: ts')).
    rewrite split_ws_aux_tok by exact Hnw. rewrite app_nil_r. cbn [app split_ws_aux].
    change (is_ws_u 32) with true. cbn iota.
    destruct (rev t) eqn:E.
    + apply (f_equal (@rev Z)) in E. rewrite rev_involutive in E. subst. discriminate.
    + rewrite <- E. rewrite rev_involutive. f_equal. apply IH. exact Hts.
Qed.

Lemma join_no_crlf : forall toks, forallb tok_ok toks = true -> no_crlf (join_with [32] toks) = true.
Proof.
  assert (T : forall t, tok_ok t = true -> no_crlf t = true).
  { intros t Ht. unfold tok_ok in Ht. apply andb_true_iff in Ht. destruct Ht as [_ Hnw].
    unfold no_crlf, no_ws in *. rewrite forallb_forall in *. intros x Hx. specialize (Hnw x Hx).
    apply negb_true_iff in Hnw. unfold is_ws_u, is_ws_b in Hnw.
    destruct (x =? 13) eqn:E13; [apply Z.eqb_eq in E13; subst; discriminate|].
    destruct (x =? 10) eqn:E10; [apply Z.eqb_eq in E10; subst; discriminate|]. reflexivity. }
  induction toks as [|t ts IH]; intros H; [reflexivity|].
  cbn [forallb] in H. apply andb_true_iff in H. destruct H as [Ht Hts].
  destruct ts as [|t2 ts']; [cbn; apply T; exact Ht|].
  change (join_with [32] (t :: t2 :: ts')) with (t ++ [32] ++ join_with [32] (t2 :: ts')).
  unfold no_crlf in *. rewrite !forallb_app. rewrite (T t Ht). rewrite (IH Hts). reflexivity.
Qed.

(* ------------------------------------------------------------------ *)
(* numerals                                                            *)
(* ------------------------------------------------------------------ *)

Lemma digit_cases base d : base = 10 \/ base = 16 -> 0 <= d < dbound base ->
  (base = 10 /\ (d = 0 \/ d = 1 \/ d = 2 \/ d = 3 \/ d = 4 \/ d = 5 \/ d = 6 \/ d = 7 \/ d = 8 \/ d = 9)) \/ (base = 16 /\ (d = 0 \/ d = 1 \/ d = 2 \/ d = 3 \/ d = 4 \/ d = 5 \/ d = 6 \/ d = 7 \/ d = 8 \/ d = 9 \/ d = 10 \/ d = 11 \/ d = 12 \/ d = 13 \/ d = 14 \/ d = 15 \/ d = 16 \/ d = 17 \/ d = 18 \/ d = 19 \/ d = 20 \/ d = 21)).
Proof.
  intros [Hb|Hb] Hd; subst base; [change (dbound 10) with 10 in Hd; left|change (dbound 16) with 22 in Hd; right]; split; try reflexivity; lia.
Qed.

Ltac digit_enum H :=
  destruct H as [[-> H]|[-> H]];
  repeat (destruct H as [H|H]; [subst|]); try subst.

Lemma digit_val_dchar base d : base = 10 \/ base = 16 -> 0 <= d < dbound base ->
  digit_val base (dchar d) = Some (dv d).
Proof. intros Hb Hd. pose proof (digit_cases base d Hb Hd) as H. digit_enum H; reflexivity. Qed.

Lemma dchar_range base d : base = 10 \/ base = 16 -> 0 <= d < dbound base -> 48 <= dchar d <= 102 /\
  dchar d <> 59 /\ dchar d <> 95 /\ dchar d <> 88 /\ (dchar d < 58 \/ 65 <= dchar d <= 70 \/ 97 <= dchar d).
Proof. intros Hb Hd. pose proof (digit_cases base d Hb Hd) as H. digit_enum H; vm_compute; intuition congruence. Qed.

Lemma dchar_not_us base d : base = 10 \/ base = 16 -> 0 <= d < dbound base -> (dchar d =? 95) = false.
Proof. intros Hb Hd. pose proof (dchar_range base d Hb Hd). apply Z.eqb_neq. lia. Qed.

Lemma digits_ok_in base ds d : digits_ok base ds = true -> In d ds -> 0 <= d < dbound base.
Proof.
  intros H Hd. unfold digits_ok in H. rewrite forallb_forall in H. specialize (H d Hd).
  apply andb_true_iff in H. destruct H as [H0 H1]. apply Z.leb_le in H0. apply Z.ltb_lt in H1. lia.
Qed.

Lemma digits_val_map base : base = 10 \/ base = 16 -> forall ds acc, digits_ok base ds = true ->
  digits_val base acc false (map dchar ds) = Some (dval base ds acc).
Proof.
  intros Hb. induction ds as [|d ds IH]; intros acc H; [reflexivity|].
  pose proof (digits_ok_in base (d :: ds) d H (or_introl eq_refl)) as Hd.
  cbn [digits_ok forallb] in H. apply andb_true_iff in H. destruct H as [_ Hds].
  cbn [map digits_val]. rewrite (dchar_not_us base) by assumption. rewrite digit_val_dchar by assumption.
  apply IH. exact Hds.
Qed.

Lemma dchar_facts base d : base = 10 \/ base = 16 -> 0 <= d < dbound base ->
  is_ws_int (dchar d) = false /\ (dchar d =? 43) = false /\ (dchar d =? 45) = false /\
  (dchar d =? 120) = false /\ (dchar d =? 88) = false /\ (dchar d <? 128) = true /\ is_ws_b (dchar d) = false.
Proof.
  intros Hb Hd. pose proof (dchar_range base d Hb Hd) as R. unfold is_ws_int, is_ws_b.
  repeat split;
  repeat match goal with
         | |- (_ =? _) = false => apply Z.eqb_neq; lia
         | |- (_ <? _) = true => apply Z.ltb_lt; lia
         | |- _ || _ = false => apply orb_false_iff; split
         | |- _ && _ = false => apply andb_false_iff
         end.
  all: try (right; apply Z.leb_gt; lia).
Qed.

Lemma digits_no_ws base ds : base = 10 \/ base = 16 -> digits_ok base ds = true -> no_ws is_ws_int (map dchar ds) = true.
Proof.
  intros Hb H. unfold no_ws, digits_ok in *. rewrite forallb_forall in *. intros x Hx.
  apply in_map_iff in Hx. destruct Hx as [d [<- Hd]]. specialize (H d Hd).
  apply andb_true_iff in H. destruct H as [H0 H1]. apply Z.leb_le in H0. apply Z.ltb_lt in H1.
  destruct (dchar_facts base d Hb (conj H0 H1)) as [W _]. rewrite W. reflexivity.
Qed.

Lemma count_digits_map base ds : base = 10 \/ base = 16 -> digits_ok base ds = true -> count_digits (map dchar ds) = len ds.
Proof.
  intros Hb H. unfold count_digits, len. f_equal.
  induction ds as [|d ds IH]; [reflexivity|].
  cbn [digits_ok forallb] in H. apply andb_true_iff in H. destruct H as [Hd Hds].
  apply andb_true_iff in Hd. destruct Hd as [H0 H1]. apply Z.leb_le in H0. apply Z.ltb_lt in H1.
  cbn [map filter]. rewrite (dchar_not_us base) by (try assumption; lia). cbn [negb length]. f_equal. apply IH. exact Hds.
Qed.

Lemma py_int_digits base ds : base = 10 \/ base = 16 -> ds <> [] -> digits_ok base ds = true ->
  len ds <= 4300 -> py_int base (map dchar ds) = Some (dval base ds 0).
Proof.
  intros Hb Hne Hok Hlen. pose proof Hb as Hb16.
  unfold py_int. rewrite strip_no_ws by (apply (digits_no_ws base); assumption).
  destruct ds as [|d ds]; [congruence|].
  pose proof Hok as Hok'. cbn [digits_ok forallb] in Hok. apply andb_true_iff in Hok. destruct Hok as [Hd Hds].
  apply andb_true_iff in Hd. destruct Hd as [H0 H1]. apply Z.leb_le in H0. apply Z.ltb_lt in H1.
  destruct (dchar_facts base d Hb16 (conj H0 H1)) as [_ [P [M [X1 [X2 _]]]]].
  cbn [map]. rewrite P, M. cbv beta iota zeta.
  assert (S3 : forall T (a b : T),
            (if base =? 16
             then match map dchar ds with
                  | [] => b
                  | x :: t => if (dchar d =? 48) && ((x =? 120) || (x =? 88)) then a else b
                  end
             else b) = b).
  { intros T a b. destruct (base =? 16); [|reflexivity]. destruct ds as [|d2 ds2]; [reflexivity|].
    cbn [map]. cbn [digits_ok forallb] in Hds. apply andb_true_iff in Hds. destruct Hds as [Hd2 _].
    apply andb_true_iff in Hd2. destruct Hd2 as [G0 G1]. apply Z.leb_le in G0. apply Z.ltb_lt in G1.
    destruct (dchar_facts base d2 Hb16 (conj G0 G1)) as [_ [_ [_ [Y1 [Y2 _]]]]].
    rewrite Y1, Y2. rewrite andb_false_r. reflexivity. }
  match goal with |- context [if base =? 16 then ?m else ?b] =>
    replace (if base =? 16 then m else b) with b end.
  2:{ symmetry. destruct (base =? 16); [|reflexivity]. destruct ds as [|d2 ds2]; [reflexivity|].
      cbn [map]. cbn [digits_ok forallb] in Hds. apply andb_true_iff in Hds. destruct Hds as [Hd2 _].
      apply andb_true_iff in Hd2. destruct Hd2 as [G0 G1]. apply Z.leb_le in G0. apply Z.ltb_lt in G1.
      destruct (dchar_facts base d2 Hb16 (conj G0 G1)) as [_ [_ [_ [Y1 [Y2 _]]]]].
      rewrite Y1, Y2. rewrite andb_false_r. reflexivity. }
  change (dchar d :: map dchar ds) with (map dchar (d :: ds)).
  rewrite (count_digits_map base) by assumption.
  replace ((base =? 10) && (4300 <? len (d :: ds))) with false
    by (symmetry; apply andb_false_iff; right; apply Z.ltb_ge; exact Hlen).
  cbn [map digits_top]. rewrite digit_val_dchar by (try assumption; lia).
  cbn [dval fold_left]. rewrite digits_val_map by assumption. reflexivity.
Qed.

(* ------------------------------------------------------------------ *)
(* multi-step runs                                                     *)
(* ------------------------------------------------------------------ *)
Inductive reach (cf : cfg) (closed : bool) : pst -> bytes -> pst -> bytes -> Prop :=
| reach_refl s b : reach cf closed s b s b
| reach_step s b s1 b1 s2 b2 :
    http_step cf closed s b = Adv s1 b1 -> reach cf closed s1 b1 s2 b2 -> reach cf closed s b s2 b2.

Lemma reach_trans cf cl s b s1 b1 s2 b2 :
  reach cf cl s b s1 b1 -> reach cf cl s1 b1 s2 b2 -> reach cf cl s b s2 b2.
Proof. induction 1; intros; [assumption|]. eapply reach_step; eauto. Qed.

Lemma reach_one cf cl s b s1 b1 : http_step cf cl s b = Adv s1 b1 -> reach cf cl s b s1 b1.
Proof. intros. eapply reach_step; [eassumption|apply reach_refl]. Qed.

Lemma run_reach cf cl : forall s b s' b', reach cf cl s b s' b' ->
  (forall x y, http_step cf cl s' b' <> Adv x y) ->
  forall n, (http_mu s b < n)%nat -> run pst (http_step cf cl) n s b = (s', b').
Proof.
  induction 1 as [s b|s b s1 b1 s2 b2 E R IH]; intros Q n Hn.
  - destruct n; [lia|]. cbn [run]. pose proof (Q) as Q'. destruct (http_step cf cl s b) eqn:E; try reflexivity.
    exfalso. eapply Q'. reflexivity.
  - destruct n; [lia|]. cbn [run]. rewrite E. apply IH; [exact Q|].
    apply http_step_dec in E. lia.
Qed.

Lemma feed_reach cf s0 data s' b' : reach cf false s0 data s' b' ->
  (forall x y, http_step cf false s' b' <> Adv x y) ->
  http_feed cf (s0, []) data = (s', b').
Proof.
  intros R Q. unfold http_feed, feed. cbn [fst snd app]. apply (run_reach cf false); auto.
Qed.

Lemma done_stuck cf cl s b : p_stage s = SDone -> forall x y, http_step cf cl s b <> Adv x y.
Proof. intros H x y. unfold http_step. rewrite H. discriminate. Qed.

(* ------------------------------------------------------------------ *)
(* header block                                                        *)
(* ------------------------------------------------------------------ *)
Definition fold_lines (lines : list hline) (h : hdrs) : hdrs :=
  fold_left (fun acc l => aset (lower (hl_name l)) (hl_value l) acc) lines h.

Lemma aset_length {V} k (v : V) : forall h, (length (aset k v h) <= S (length h))%nat.
Proof. induction h as [|[k' v'] t IH]; cbn; [lia|]. destruct (beq k k'); cbn; lia. Qed.

Lemma fold_lines_length : forall lines h, (length (fold_lines lines h) <= length lines + length h)%nat.
Proof.
  induction lines as [|l ls IH]; intros h; cbn; [lia|].
  unfold fold_lines in *. specialize (IH (aset (lower (hl_name l)) (hl_value l) h)).
  pose proof (aset_length (lower (hl_name l)) (hl_value l) h). lia.
Qed.

Definition line_len_ok (cf : cfg) (l : hline) : bool :=
  len (hl_name l ++ hl_pre l ++ [58] ++ hl_post l ++ hl_value l) <=? maxline cf.

Lemma render_hline_shape l rest :
  render_hline l ++ rest = (hl_name l ++ hl_pre l ++ [58] ++ hl_post l ++ hl_value l) ++ eol_b (hl_end l) ++ rest.
Proof. unfold render_hline. rewrite <- !app_assoc. reflexivity. Qed.

Lemma leader_step_line cf h l rest : hline_ok l = true -> line_len_ok cf l = true ->
  Z.of_nat (length (aset (lower (hl_name l)) (hl_value l) h)) <= maxhdrs cf ->
  leader_step cf h (render_hline l ++ rest) = LdMore (aset (lower (hl_name l)) (hl_value l) h) rest.
Proof.
  intros Hok Hlen Hmax. unfold leader_step. rewrite render_hline_shape.
  rewrite next_line_eol; [|apply render_hline_no_crlf; exact Hok|apply Z.leb_le; exact Hlen].
  destruct (is_nil _) eqn:En.
  - exfalso. unfold hline_ok in Hok. apply andb_true_iff in Hok. destruct Hok as [Hok _].
    apply andb_true_iff in Hok. destruct Hok as [Hok _]. apply andb_true_iff in Hok. destruct Hok as [Hn _].
    destruct (name_ok_parts _ Hn) as [Hne _]. destruct (hl_name l); [congruence|discriminate].
  - rewrite header_line_render by exact Hok.
    destruct (maxhdrs cf <? _) eqn:E; [apply Z.ltb_lt in E; lia|]. reflexivity.
Qed.

Lemma leader_step_end cf h e1 rest : 0 <= maxline cf -> Z.of_nat (length h) <= maxhdrs cf ->
  leader_step cf h (eol_b e1 ++ rest) = LdDone h rest.
Proof.
  intros H0 Hm. unfold leader_step. change (eol_b e1 ++ rest) with ([] ++ eol_b e1 ++ rest).
  rewrite next_line_eol; [|reflexivity|unfold len; cbn; lia]. cbn [is_nil].
  destruct (maxhdrs cf <? _) eqn:E; [apply Z.ltb_lt in E; lia|]. reflexivity.
Qed.

(* generic over the stage constructor that holds the header accumulator *)
Lemma leader_reach cf (mk : hdrs -> stage) (fin : pst -> hdrs -> pst) :
  (forall s h b, p_stage s = mk h ->
     http_step cf false s b = match leader_step cf h b with
                              | LdWait => Wait
                              | LdErr e r => fail s e r
                              | LdMore h' r => Adv (set_stage s (mk h')) r
                              | LdDone h' r => Adv (fin s h') r
                              end) ->
  0 <= maxline cf ->
  forall lines s h e1 rest, p_stage s = mk h ->
    forallb hline_ok lines = true -> forallb (line_len_ok cf) lines = true ->
    Z.of_nat (length lines + length h) <= maxhdrs cf ->
    reach cf false s (render_hlines lines ++ eol_b e1 ++ rest)
          (fin (set_stage s (mk (fold_lines lines h))) (fold_lines lines h)) rest.
Proof.
  intros Hstep H0. induction lines as [|l ls IH]; intros s h e1 rest Hs Hok Hlen Hmax.
  - cbn [render_hlines flat_map app fold_lines fold_left].
    apply reach_one. rewrite (Hstep s h _ Hs). rewrite leader_step_end; [|exact H0|cbn in Hmax; lia].
    replace (set_stage s (mk h)) with s; [reflexivity|].
    destruct s; cbn in *. subst. reflexivity.
  - cbn [forallb] in Hok, Hlen. apply andb_true_iff in Hok. destruct Hok as [Hl Hls].
    apply andb_true_iff in Hlen. destruct Hlen as [Ll Lls].
    cbn [render_hlines flat_map]. rewrite <- app_assoc.
    pose proof (aset_length (lower (hl_name l)) (hl_value l) h) as AL.
    eapply reach_step.
    + rewrite (Hstep s h _ Hs). rewrite leader_step_line; [reflexivity|exact Hl|exact Ll|]. cbn [length] in Hmax. lia.
    + cbn [fold_lines fold_left].
      specialize (IH (set_stage s (mk (aset (lower (hl_name l)) (hl_value l) h))) (aset (lower (hl_name l)) (hl_value l) h) e1 rest).
      replace (set_stage (set_stage s (mk (aset (lower (hl_name l)) (hl_value l) h)))
                         (mk (fold_lines ls (aset (lower (hl_name l)) (hl_value l) h))))
        with (set_stage s (mk (fold_lines ls (aset (lower (hl_name l)) (hl_value l) h)))) in IH by reflexivity.
      apply IH; [reflexivity|exact Hls|exact Lls|]. cbn [length] in Hmax. lia.
Qed.

(* ------------------------------------------------------------------ *)
(* start lines                                                         *)
(* ------------------------------------------------------------------ *)
Lemma version_tok v11 : tok_ok (version_str v11) = true.
Proof. destruct v11; reflexivity. Qed.

Lemma tok_nonnil t : tok_ok t = true -> is_nil t = false.
Proof. unfold tok_ok. intros H. apply andb_true_iff in H. destruct H as [H _]. apply negb_true_iff in H. exact H. Qed.

Lemma parse_request_line_ok cf method url v11 :
  tok_ok method = true -> existsb (beq method) METHODS = true -> tok_ok url = true -> url_ok cf url = true ->
  parse_request_line cf (request_line method url v11)
  = inr (method, url, version_str v11, if v11 then 1 else 0).
Proof.
  intros Hm HM Hu HU. unfold parse_request_line, request_line.
  assert (Hn : is_nil (join_with [32] [method; url; version_str v11]) = false).
  { cbn [join_with]. apply tok_nonnil in Hm. destruct method; [discriminate|reflexivity]. }
  rewrite Hn. rewrite split_ws_join by (cbn [forallb]; rewrite Hm, Hu, version_tok; reflexivity).
  cbn [nth_tok nth]. rewrite HM, HU. destruct v11; reflexivity.
Qed.

Lemma step_start_req cf method url v11 e0 rest :
  tok_ok method = true -> existsb (beq method) METHODS = true -> tok_ok url = true -> url_ok cf url = true ->
  len (request_line method url v11) <= maxline cf ->
  http_step cf false (init_pst false false) (request_line method url v11 ++ eol_b e0 ++ rest)
  = Adv (set_start (init_pst false false) [method; url] (if v11 then 1 else 0) (-1) (SLeader [])) rest.
Proof.
  intros Hm HM Hu HU HL. unfold http_step. cbn [init_pst p_stage p_resp andb].
  assert (Hn : is_nil (request_line method url v11 ++ eol_b e0 ++ rest) = false).
  { unfold request_line. cbn [join_with]. apply tok_nonnil in Hm. destruct method; [discriminate|reflexivity]. }
  rewrite Hn. cbn [andb].
  rewrite next_line_eol; [|apply join_no_crlf; cbn [forallb]; rewrite Hm, Hu, version_tok; reflexivity|exact HL].
  rewrite parse_request_line_ok by assumption. reflexivity.
Qed.

Lemma step_leader cf s h b : p_stage s = SLeader h ->
  http_step cf false s b = match leader_step cf h b with
                           | LdWait => Wait
                           | LdErr e r => fail s e r
                           | LdMore h' r => Adv (set_stage s (SLeader h')) r
                           | LdDone h' r => Adv (head_done s h') r
                           end.
Proof. intros Hs. unfold http_step. rewrite Hs. reflexivity. Qed.

Lemma step_length cf cl s body rest : p_stage s = SLength (len body) ->
  http_step cf cl s (body ++ rest) = Adv (set_body s body (p_parms s) (p_trails s) SDone) rest.
Proof.
  intros Hs. unfold http_step. rewrite Hs.
  assert (E : len (body ++ rest) <? len body = false).
  { apply Z.ltb_ge. unfold len. rewrite app_length. lia. }
  rewrite E. unfold len. rewrite Nat2Z.id. rewrite firstn_app, skipn_app, Nat.sub_diag.
  rewrite firstn_all, skipn_all. cbn. rewrite app_nil_r. reflexivity.
Qed.

(* REQUEST, no body or Content-Length body *)
Lemma request_fixed_roundtrip cf method url v11 e0 lines e1 body rest :
  0 <= maxline cf ->
  tok_ok method = true -> existsb (beq method) METHODS = true -> tok_ok url = true -> url_ok cf url = true ->
  len (request_line method url v11) <= maxline cf ->
  forallb hline_ok lines = true -> forallb (line_len_ok cf) lines = true ->
  Z.of_nat (length lines) <= maxhdrs cf ->
  is_chunked (hdrs_of lines) = false -> request_length (hdrs_of lines) = Some (len body) ->
  http_feed cf (init_pst false false, [])
            (head_bytes (request_line method url v11) e0 lines e1 ++ body ++ rest)
  = (with_body (req_headed method url v11 lines) body [], rest).
Proof.
  intros H0 Hm HM Hu HU HL Hok Hlen Hmax Hch Hrl.
  apply feed_reach; [|apply done_stuck; reflexivity].
  unfold head_bytes. rewrite <- !app_assoc.
  eapply reach_step; [apply step_start_req; assumption|].
  eapply reach_trans.
  - apply (leader_reach cf SLeader head_done (step_leader cf) H0 lines _ [] e1 (body ++ rest)); try assumption.
    + reflexivity.
    + cbn [length]. lia.
  - apply reach_one.
    change (fold_lines lines []) with (hdrs_of lines).
    match goal with |- http_step _ _ ?s _ = _ => assert (Hs : p_stage s = SLength (len body)) end.
    { unfold head_done. cbn [set_stage set_start init_pst p_resp]. rewrite Hch, Hrl. reflexivity. }
    rewrite (step_length cf false _ body rest Hs).
    unfold with_body, req_headed, head_done. cbn [set_stage set_start init_pst p_resp].
    rewrite Hch, Hrl. reflexivity.
Qed.

(* ---- what a header block announces ---- *)
Lemma dv_range base d : base = 10 \/ base = 16 -> 0 <= d < dbound base -> 0 <= dv d < base.
Proof. intros Hb Hd. pose proof (digit_cases base d Hb Hd) as H. digit_enum H; vm_compute; split; congruence. Qed.

Lemma dval_nonneg base : base = 10 \/ base = 16 -> forall ds acc, digits_ok base ds = true -> 0 <= acc -> 0 <= dval base ds acc.
Proof.
  intros Hb. induction ds as [|d ds IH]; intros acc H Ha; [exact Ha|].
  pose proof (dv_range base d Hb (digits_ok_in base (d :: ds) d H (or_introl eq_refl))) as R.
  cbn [digits_ok forallb] in H. apply andb_true_iff in H. destruct H as [_ Hds].
  cbn [dval fold_left]. apply IH; [exact Hds|]. destruct Hb; subst base; nia.
Qed.

Lemma content_length_of_header h ds :
  aget (bz "content-length") h = Some (num ds) -> ds <> [] -> digits_ok 10 ds = true -> len ds <= 4300 ->
  content_length h = Some (Some (dval 10 ds 0)).
Proof.
  intros Hc Hne Hok Hlen. unfold content_length. rewrite Hc.
  destruct ds as [|d ds']; [congruence|]. cbn [num map is_nil].
  change (dchar d :: map dchar ds') with (map dchar (d :: ds')).
  rewrite py_int_digits; [|left; reflexivity|discriminate|exact Hok|exact Hlen].
  pose proof (dval_nonneg 10 (or_introl eq_refl) (d :: ds') 0 Hok ltac:(lia)) as P.
  destruct (dval 10 (d :: ds') 0 <? 0) eqn:E; [apply Z.ltb_lt in E; lia|]. reflexivity.
Qed.

Lemma is_chunked_absent h : aget (bz "transfer-encoding") h = None -> is_chunked h = false.
Proof. intros H. unfold is_chunked. rewrite H. reflexivity. Qed.

Lemma request_length_fixed h ds : aget (bz "transfer-encoding") h = None ->
  aget (bz "content-length") h = Some (num ds) -> ds <> [] -> digits_ok 10 ds = true -> len ds <= 4300 ->
  is_chunked h = false /\ request_length h = Some (dval 10 ds 0).
Proof.
  intros Ht Hc Hne Hok Hlen. split; [apply is_chunked_absent; exact Ht|].
  unfold request_length. rewrite (is_chunked_absent h Ht).
  rewrite (content_length_of_header h ds) by assumption. reflexivity.
Qed.

Lemma request_length_nobody h : aget (bz "transfer-encoding") h = None ->
  aget (bz "content-length") h = None -> is_chunked h = false /\ request_length h = Some 0.
Proof.
  intros Ht Hc. split; [apply is_chunked_absent; exact Ht|].
  unfold request_length, content_length. rewrite (is_chunked_absent h Ht), Hc. reflexivity.
Qed.

Lemma is_chunked_present h v : aget (bz "transfer-encoding") h = Some v -> beq (lower v) (bz "chunked") = true ->
  is_chunked h = true.
Proof.
  intros H E. unfold is_chunked. rewrite H, E. destruct v; [discriminate|reflexivity].
Qed.

(* ---- responses ---- *)
Definition status_ok (ds : list Z) : bool :=
  (Nat.eqb (length ds) 3) && digits_ok 10 ds && (100 <=? dval 10 ds 0) && negb (dval 10 ds 0 =? 100).

Lemma num_tok ds : ds <> [] -> digits_ok 10 ds = true -> tok_ok (num ds) = true.
Proof.
  intros Hne Hok. unfold tok_ok. apply andb_true_iff. split.
  - destruct ds; [congruence|reflexivity].
  - unfold no_ws, num. rewrite forallb_forall. intros x Hx.
    apply in_map_iff in Hx. destruct Hx as [d [<- Hd]].
    pose proof (dchar_range 10 d (or_introl eq_refl) (digits_ok_in 10 ds d Hok Hd)) as R.
    apply negb_true_iff. unfold is_ws_u, is_ws_b.
    repeat (apply orb_false_iff; split); try (apply Z.eqb_neq; lia);
      apply andb_false_iff; right; apply Z.leb_gt; lia.
Qed.

Lemma dval3_lt ds : length ds = 3%nat -> digits_ok 10 ds = true -> dval 10 ds 0 <= 999.
Proof.
  intros L H. destruct ds as [|a [|b [|c [|? ?]]]]; try discriminate.
  pose proof (dv_range 10 a (or_introl eq_refl) (digits_ok_in 10 _ a H (or_introl eq_refl))).
  pose proof (dv_range 10 b (or_introl eq_refl) (digits_ok_in 10 _ b H (or_intror (or_introl eq_refl)))).
  pose proof (dv_range 10 c (or_introl eq_refl) (digits_ok_in 10 _ c H (or_intror (or_intror (or_introl eq_refl))))).
  cbn [dval fold_left]. lia.
Qed.

Lemma parse_status_line_ok v11 ds reason :
  status_ok ds = true -> forallb tok_ok reason = true ->
  parse_status_line (status_line v11 ds reason)
  = inr (version_str v11, dval 10 ds 0, join_with [32] reason).
Proof.
  intros Hs Hr. unfold status_ok in Hs.
  apply andb_true_iff in Hs. destruct Hs as [Hs Hn100]. apply andb_true_iff in Hs. destruct Hs as [Hs Hge].
  apply andb_true_iff in Hs. destruct Hs as [Hl Hok]. apply Nat.eqb_eq in Hl.
  assert (Hne : ds <> []) by (destruct ds; [discriminate|congruence]).
  unfold parse_status_line, status_line.
  assert (Hn : is_nil (join_with [32] (version_str v11 :: num ds :: reason)) = false).
  { destruct v11; reflexivity. }
  rewrite Hn. rewrite split_ws_join by (cbn [forallb]; rewrite version_tok, num_tok, Hr by assumption; reflexivity).
  cbn [nth_tok nth skipn].
  replace (starts_with (bz "HTTP/") (version_str v11)) with true by (destruct v11; reflexivity).
  cbn [negb]. unfold num. rewrite py_int_digits; [|left; reflexivity|exact Hne|exact Hok|unfold len; rewrite Hl; lia].
  apply Z.leb_le in Hge. pose proof (dval3_lt ds Hl Hok).
  replace ((dval 10 ds 0 <? 100) || (999 <? dval 10 ds 0)) with false; [reflexivity|].
  symmetry. apply orb_false_iff. split; [apply Z.ltb_ge|apply Z.ltb_ge]; lia.
Qed.

Lemma step_start_resp cf hr v11 ds reason e0 rest :
  status_ok ds = true -> forallb tok_ok reason = true ->
  len (status_line v11 ds reason) <= maxline cf ->
  http_step cf false (init_pst true hr) (status_line v11 ds reason ++ eol_b e0 ++ rest)
  = Adv (set_start (init_pst true hr) [join_with [32] reason] (if v11 then 1 else 0) (dval 10 ds 0) (SLeader [])) rest.
Proof.
  intros Hs Hr HL. pose proof Hs as Hs'. unfold status_ok in Hs'.
  apply andb_true_iff in Hs'. destruct Hs' as [Hs' Hn100]. apply andb_true_iff in Hs'. destruct Hs' as [Hs' _].
  apply andb_true_iff in Hs'. destruct Hs' as [Hl Hok]. apply Nat.eqb_eq in Hl.
  assert (Hne : ds <> []) by (destruct ds; [discriminate|congruence]).
  unfold http_step. cbn [init_pst p_stage p_resp andb].
  assert (Hn : is_nil (status_line v11 ds reason ++ eol_b e0 ++ rest) = false) by (destruct v11; reflexivity).
  rewrite Hn. cbn [andb].
  rewrite next_line_eol; [|apply join_no_crlf; cbn [forallb]; rewrite version_tok, num_tok, Hr by assumption; reflexivity|exact HL].
  rewrite parse_status_line_ok by assumption.
  apply negb_true_iff in Hn100. rewrite Hn100.
  replace (response_version (version_str v11)) with (Some (if v11 then 1 else 0)) by (destruct v11; reflexivity).
  reflexivity.
Qed.

(* RESPONSE with a body of announced length (Content-Length, or 204 / 304 / 1xx / HEAD: 0) *)
Lemma response_fixed_roundtrip cf hr v11 ds reason e0 lines e1 body rest :
  0 <= maxline cf ->
  status_ok ds = true -> forallb tok_ok reason = true ->
  len (status_line v11 ds reason) <= maxline cf ->
  forallb hline_ok lines = true -> forallb (line_len_ok cf) lines = true ->
  Z.of_nat (length lines) <= maxhdrs cf ->
  is_chunked (hdrs_of lines) = false ->
  response_length hr (dval 10 ds 0) (hdrs_of lines) = Some (len body) ->
  http_feed cf (init_pst true hr, [])
            (head_bytes (status_line v11 ds reason) e0 lines e1 ++ body ++ rest)
  = (with_body (resp_headed hr v11 (dval 10 ds 0) reason lines) body [], rest).
Proof.
  intros H0 Hs Hr HL Hok Hlen Hmax Hch Hrl.
  apply feed_reach; [|apply done_stuck; reflexivity].
  unfold head_bytes. rewrite <- !app_assoc.
  eapply reach_step; [apply step_start_resp; assumption|].
  eapply reach_trans.
  - apply (leader_reach cf SLeader head_done (step_leader cf) H0 lines _ [] e1 (body ++ rest)); try assumption.
    + reflexivity.
    + cbn [length]. lia.
  - apply reach_one.
    change (fold_lines lines []) with (hdrs_of lines).
    match goal with |- http_step _ _ ?s _ = _ => assert (Hst : p_stage s = SLength (len body)) end.
    { unfold head_done. cbn [set_stage set_start init_pst p_resp p_headreq p_status]. rewrite Hch, Hrl. reflexivity. }
    rewrite (step_length cf false _ body rest Hst).
    unfold with_body, resp_headed, head_done. cbn [set_stage set_start init_pst p_resp p_headreq p_status].
    rewrite Hch, Hrl. reflexivity.
Qed.

(* ---- close-delimited response ---- *)
Lemma set_body_same s : set_body s (p_body s ++ []) (p_parms s) (p_trails s) (p_stage s) = s.
Proof. destruct s; cbn. rewrite app_nil_r. reflexivity. Qed.

Lemma until_reach cf : forall data s, p_stage s = SUntil ->
  reach cf false s data (set_body s (p_body s ++ data) (p_parms s) (p_trails s) SUntil) [].
Proof.
  induction data as [|x r IH]; intros s Hs.
  - rewrite <- Hs at 1. rewrite set_body_same. apply reach_refl.
  - eapply reach_step.
    + unfold http_step. rewrite Hs. reflexivity.
    + specialize (IH (set_body s (p_body s ++ [x]) (p_parms s) (p_trails s) SUntil) eq_refl).
      cbn [set_body p_body p_parms p_trails] in IH. rewrite <- app_assoc in IH. exact IH.
Qed.

Lemma response_close_roundtrip cf hr v11 ds reason e0 lines e1 body :
  0 <= maxline cf ->
  status_ok ds = true -> forallb tok_ok reason = true ->
  len (status_line v11 ds reason) <= maxline cf ->
  forallb hline_ok lines = true -> forallb (line_len_ok cf) lines = true ->
  Z.of_nat (length lines) <= maxhdrs cf ->
  is_chunked (hdrs_of lines) = false ->
  response_length hr (dval 10 ds 0) (hdrs_of lines) = None ->
  http_close cf (http_feed cf (init_pst true hr, []) (head_bytes (status_line v11 ds reason) e0 lines e1 ++ body))
  = (with_body (resp_headed hr v11 (dval 10 ds 0) reason lines) body [], []).
Proof.
  intros H0 Hs Hr HL Hok Hlen Hmax Hch Hrl.
  assert (Hst : p_stage (resp_headed hr v11 (dval 10 ds 0) reason lines) = SUntil).
  { unfold resp_headed, head_done. cbn [set_stage set_start init_pst p_resp p_headreq p_status].
    rewrite Hch, Hrl. reflexivity. }
  assert (F : http_feed cf (init_pst true hr, []) (head_bytes (status_line v11 ds reason) e0 lines e1 ++ body)
              = (set_body (resp_headed hr v11 (dval 10 ds 0) reason lines) body [] [] SUntil, [])).
  { apply feed_reach.
    - unfold head_bytes. rewrite <- !app_assoc.
      eapply reach_step; [apply step_start_resp; assumption|].
      eapply reach_trans.
      + apply (leader_reach cf SLeader head_done (step_leader cf) H0 lines _ [] e1 body); try assumption.
        * reflexivity.
        * cbn [length]. lia.
      + change (fold_lines lines []) with (hdrs_of lines).
        pose proof (until_reach cf body (resp_headed hr v11 (dval 10 ds 0) reason lines) Hst) as U.
        exact U.
    - intros x y. unfold http_step. cbn [set_body p_stage]. discriminate. }
  rewrite F. unfold http_close. cbn [fst snd].
  apply (run_reach cf true).
  - apply reach_one. unfold http_step. cbn [set_body p_stage]. reflexivity.
  - apply done_stuck. reflexivity.
  - apply Nat.lt_succ_diag_r.
Qed.

(* ------------------------------------------------------------------ *)
(* chunked body (no extensions here; extensions: see chunk_ext lemmas)  *)
(* ------------------------------------------------------------------ *)
Lemma partition_at_absent x : forall b, forallb (fun c => negb (c =? x)) b = true -> partition_at x b = None.
Proof.
  induction b as [|c t IH]; intros H; [reflexivity|].
  cbn in H. apply andb_true_iff in H. destruct H as [H1 H2]. apply negb_true_iff in H1.
  cbn. rewrite H1. rewrite (IH H2). reflexivity.
Qed.

Lemma num_props ds : digits_ok 16 ds = true ->
  no_crlf (num ds) = true /\ forallb (fun c => negb (c =? 59)) (num ds) = true /\
  no_ws is_ws_b (num ds) = true /\ existsb (fun c => 127 <? c) (num ds) = false.
Proof.
  intros Hok.
  assert (A : forall x, In x (num ds) -> exists d, x = dchar d /\ 0 <= d < dbound 16).
  { intros x Hx. unfold num in Hx. apply in_map_iff in Hx. destruct Hx as [d [<- Hd]].
    exists d. split; [reflexivity|]. exact (digits_ok_in 16 ds d Hok Hd). }
  assert (R : forall d, 0 <= d < dbound 16 -> 48 <= dchar d <= 102 /\ dchar d <> 59).
  { intros d Hd. pose proof (dchar_range 16 d (or_intror eq_refl) Hd). lia. }
  repeat split.
  - unfold no_crlf. apply forallb_forall. intros x Hx. destruct (A x Hx) as [d [-> Hd]].
    destruct (R d Hd). apply andb_true_iff. split; apply negb_true_iff; apply Z.eqb_neq; lia.
  - apply forallb_forall. intros x Hx. destruct (A x Hx) as [d [-> Hd]].
    destruct (R d Hd). apply negb_true_iff; apply Z.eqb_neq; lia.
  - unfold no_ws. apply forallb_forall. intros x Hx. destruct (A x Hx) as [d [-> Hd]].
    destruct (dchar_facts 16 d (or_intror eq_refl) Hd) as [_ [_ [_ [_ [_ [_ W]]]]]]. rewrite W. reflexivity.
  - destruct (existsb _ (num ds)) eqn:E; [|reflexivity]. apply existsb_exists in E.
    destruct E as [x [Hx Hg]]. destruct (A x Hx) as [d [-> Hd]]. destruct (R d Hd). apply Z.ltb_lt in Hg. lia.
Qed.

(* ---- chunk extensions ---- *)
Lemma split_on_plain x : forall a, forallb (fun c => negb (c =? x)) a = true -> split_on x a = [a].
Proof.
  induction a as [|c t IH]; intros H; [reflexivity|].
  cbn in H. apply andb_true_iff in H. destruct H as [H1 H2]. apply negb_true_iff in H1.
  cbn. rewrite H1. rewrite (IH H2). reflexivity.
Qed.

Lemma split_on_app x : forall a r, forallb (fun c => negb (c =? x)) a = true ->
  split_on x (a ++ x :: r) = a :: split_on x r.
Proof.
  induction a as [|c t IH]; intros r H.
  - cbn. rewrite Z.eqb_refl. reflexivity.
  - cbn in H. apply andb_true_iff in H. destruct H as [H1 H2]. apply negb_true_iff in H1.
    cbn. rewrite H1. rewrite (IH r H2). reflexivity.
Qed.

Lemma ext_tok_parts t : ext_tok t = true ->
  is_nil t = false /\ forallb (fun c => negb (c =? 59)) t = true /\
  forallb (fun c => negb (c =? 61)) t = true /\ no_ws is_ws_b t = true.
Proof.
  unfold ext_tok. intros H. apply andb_true_iff in H. destruct H as [Hn H]. apply negb_true_iff in Hn.
  split; [exact Hn|].
  assert (A : forall c, In c t -> negb (c =? 59) = true /\ negb (c =? 61) = true /\ negb (is_ws_b c) = true).
  { rewrite forallb_forall in H. intros c Hc. specialize (H c Hc).
    apply andb_true_iff in H. destruct H as [H H3]. apply andb_true_iff in H. destruct H as [H1 H2]. auto. }
  repeat split; apply forallb_forall; intros c Hc; apply A; exact Hc.
Qed.

Lemma ext_piece_props e : ext_ok e = true ->
  forallb (fun c => negb (c =? 59)) (ext_piece e) = true /\ no_ws is_ws_b (ext_piece e) = true /\
  is_nil (ext_piece e) = false.
Proof.
  unfold ext_ok, ext_piece. intros H. apply andb_true_iff in H. destruct H as [Hn Hv].
  destruct (ext_tok_parts _ Hn) as [N0 [N1 [N2 N3]]].
  destruct (snd e) as [v|].
  - destruct (ext_tok_parts _ Hv) as [V0 [V1 [V2 V3]]].
    unfold no_ws in *. rewrite !forallb_app. cbn [forallb]. rewrite N1, N3, V1, V3.
    repeat split; try reflexivity. destruct (fst e); [discriminate|reflexivity].
  - rewrite app_nil_r. repeat split; assumption.
Qed.

Lemma parse_ext_piece acc e : ext_ok e = true -> parse_ext acc (ext_piece e) = aset (fst e) (snd e) acc.
Proof.
  intros H. destruct (ext_piece_props e H) as [_ [W _]].
  unfold parse_ext. rewrite strip_no_ws by exact W.
  unfold ext_ok in H. apply andb_true_iff in H. destruct H as [Hn Hv].
  destruct (ext_tok_parts _ Hn) as [N0 [N1 [N2 N3]]].
  unfold ext_piece, part2. destruct e as [n [v|]]; cbn [fst snd] in *.
  - destruct (ext_tok_parts _ Hv) as [V0 [V1 [V2 V3]]].
    rewrite partition_at_app by exact N2. rewrite !strip_no_ws by assumption. rewrite V0. reflexivity.
  - rewrite app_nil_r. rewrite partition_at_absent by exact N2.
    rewrite strip_no_ws by exact N3. reflexivity.
Qed.

Lemma split_exts : forall e es, ext_ok e = true -> forallb ext_ok es = true ->
  split_on 59 (ext_piece e ++ render_exts es) = ext_piece e :: map ext_piece es.
Proof.
  intros e es. revert e. induction es as [|e2 es IH]; intros e He Hes.
  - cbn [render_exts flat_map map]. rewrite app_nil_r. apply split_on_plain.
    destruct (ext_piece_props e He) as [P _]. exact P.
  - cbn [forallb] in Hes. apply andb_true_iff in Hes. destruct Hes as [He2 Hes].
    cbn [render_exts flat_map map app]. destruct (ext_piece_props e He) as [P _].
    rewrite split_on_app by exact P. f_equal. apply IH; assumption.
Qed.

Lemma fold_parse_exts : forall es acc, forallb ext_ok es = true ->
  fold_left parse_ext (map ext_piece es) acc = fold_left (fun a e => aset (fst e) (snd e) a) es acc.
Proof.
  induction es as [|e es IH]; intros acc H; [reflexivity|].
  cbn [forallb] in H. apply andb_true_iff in H. destruct H as [He Hes].
  cbn [map fold_left]. rewrite parse_ext_piece by exact He. apply IH. exact Hes.
Qed.

Lemma parse_chunk_size_line ds es : ds <> [] -> digits_ok 16 ds = true -> len ds <= 4300 ->
  forallb ext_ok es = true ->
  parse_chunk_size (size_line ds es) = Some (dval 16 ds 0, exts_map es).
Proof.
  intros Hne Hok Hlen Hes. destruct (num_props ds Hok) as [_ [Hsc [Hws Hasc]]].
  unfold parse_chunk_size, part2, size_line.
  pose proof (dval_nonneg 16 (or_intror eq_refl) ds 0 Hok ltac:(lia)) as P.
  destruct es as [|e es].
  - cbn [render_exts flat_map]. rewrite app_nil_r. rewrite partition_at_absent by exact Hsc.
    rewrite strip_no_ws by exact Hws. rewrite Hasc.
    unfold num. rewrite py_int_digits; [|right; reflexivity|exact Hne|exact Hok|exact Hlen].
    destruct (dval 16 ds 0 <? 0) eqn:E; [apply Z.ltb_lt in E; lia|]. reflexivity.
  - cbn [forallb] in Hes. apply andb_true_iff in Hes. destruct Hes as [He Hes].
    cbn [render_exts flat_map app]. fold (render_exts es).
    rewrite partition_at_app by exact Hsc.
    rewrite strip_no_ws by exact Hws. rewrite Hasc.
    unfold num. rewrite py_int_digits; [|right; reflexivity|exact Hne|exact Hok|exact Hlen].
    destruct (dval 16 ds 0 <? 0) eqn:E; [apply Z.ltb_lt in E; lia|].
    destruct (ext_piece_props e He) as [_ [_ Pn]].
    assert (Nn : is_nil (ext_piece e ++ render_exts es) = false) by (destruct (ext_piece e); [discriminate|reflexivity]).
    rewrite Nn. rewrite split_exts by assumption.
    change (ext_piece e :: map ext_piece es) with (map ext_piece (e :: es)).
    rewrite fold_parse_exts by (cbn [forallb]; rewrite He, Hes; reflexivity). reflexivity.
Qed.

Lemma size_line_no_crlf ds es : digits_ok 16 ds = true -> forallb ext_ok es = true ->
  no_crlf (size_line ds es) = true.
Proof.
  intros Hok Hes. destruct (num_props ds Hok) as [Hnc _].
  unfold size_line, no_crlf in *. rewrite forallb_app. rewrite Hnc. cbn [andb].
  induction es as [|e es IH]; [reflexivity|].
  cbn [forallb] in Hes. apply andb_true_iff in Hes. destruct Hes as [He Hes].
  cbn [render_exts flat_map app]. fold (render_exts es). cbn [forallb]. rewrite forallb_app. rewrite (IH Hes).
  destruct (ext_piece_props e He) as [_ [W _]].
  cbn. rewrite andb_true_r. unfold no_ws in W. rewrite forallb_forall in *. intros x Hx. specialize (W x Hx).
  apply negb_true_iff in W. unfold is_ws_b in W.
  destruct (x =? 13) eqn:E13; [apply Z.eqb_eq in E13; subst; discriminate|].
  destruct (x =? 10) eqn:E10; [apply Z.eqb_eq in E10; subst; discriminate|]. reflexivity.
Qed.

Definition chunk_ok (cf : cfg) (c : chunk) : bool :=
  negb (is_nil (ch_size c)) && digits_ok 16 (ch_size c) && (len (size_line (ch_size c) (ch_exts c)) <=? maxline cf)
  && (len (ch_size c) <=? 4300) && (dval 16 (ch_size c) 0 =? len (ch_data c)) && negb (is_nil (ch_data c))
  && forallb ext_ok (ch_exts c).

Lemma chunk_reach cf ch rest s : 0 <= maxline cf -> chunk_ok cf ch = true -> p_stage s = SChunkSize ->
  reach cf false s (chunk_bytes ch ++ rest)
        (set_body s (p_body s ++ ch_data ch) (aupdate (p_parms s) (exts_map (ch_exts ch))) (p_trails s) SChunkSize) rest.
Proof.
  intros H0 Hok Hs. destruct ch as [[ds es] data]. unfold ch_size, ch_exts, ch_data in *. cbn [fst snd] in *.
  unfold chunk_ok, ch_size, ch_exts, ch_data in Hok. cbn [fst snd] in Hok.
  repeat (apply andb_true_iff in Hok; destruct Hok as [Hok ?]).
  rename H into Hes, H1 into Hdata, H2 into Hval, H3 into H4300, H4 into Hml, H5 into Hdok.
  apply negb_true_iff in Hok. apply negb_true_iff in Hdata.
  apply Z.eqb_eq in Hval. apply Z.leb_le in H4300. apply Z.leb_le in Hml.
  assert (Hne : ds <> []) by (destruct ds; [discriminate|congruence]).
  assert (Hpos : 0 < len data) by (unfold len; destruct data; [discriminate|cbn [length]; lia]).
  unfold chunk_bytes, ch_size, ch_exts, ch_data. cbn [fst snd]. rewrite <- !app_assoc.
  eapply reach_step.
  { unfold http_step. rewrite Hs. cbn [andb].
    rewrite next_line_crlf; [|apply size_line_no_crlf; assumption|exact Hml].
    rewrite parse_chunk_size_line by assumption. rewrite Hval.
    replace (len data =? 0) with false by (symmetry; apply Z.eqb_neq; lia). reflexivity. }
  eapply reach_step.
  { unfold http_step. cbn [set_stage p_stage andb].
    replace (len data <=? 0) with false by (symmetry; apply Z.leb_gt; lia).
    replace (len (data ++ CRLF ++ rest) <? len data) with false
      by (symmetry; apply Z.ltb_ge; unfold len; rewrite app_length; lia).
    unfold len. rewrite Nat2Z.id. rewrite firstn_app, skipn_app, Nat.sub_diag, firstn_all, skipn_all.
    cbn [firstn skipn app]. rewrite app_nil_r. reflexivity. }
  apply reach_one.
  unfold http_step. cbn [set_stage p_stage andb].
  change (CRLF ++ rest) with ([] ++ CRLF ++ rest).
  rewrite next_line_crlf; [|reflexivity|unfold len; cbn; lia].
  cbn [is_nil negb]. cbn [set_stage p_body p_parms p_trails p_resp andb]. reflexivity.
Qed.

Definition parms_after (chunks : list chunk) (p0 : parms) : parms :=
  fold_left (fun acc c => aupdate acc (exts_map (ch_exts c))) chunks p0.

Lemma chunks_reach cf : 0 <= maxline cf -> forall chunks rest s, forallb (chunk_ok cf) chunks = true ->
  p_stage s = SChunkSize ->
  reach cf false s (flat_map chunk_bytes chunks ++ rest)
        (set_body s (p_body s ++ concat (map ch_data chunks)) (parms_after chunks (p_parms s)) (p_trails s) SChunkSize) rest.
Proof.
  intros H0. induction chunks as [|ch chs IH]; intros rest s Hok Hs.
  - cbn [flat_map map concat app parms_after fold_left]. rewrite <- Hs at 1. rewrite set_body_same. apply reach_refl.
  - cbn [forallb] in Hok. apply andb_true_iff in Hok. destruct Hok as [Hc Hcs].
    cbn [flat_map map concat]. rewrite <- app_assoc.
    eapply reach_trans; [apply chunk_reach; assumption|].
    specialize (IH rest (set_body s (p_body s ++ ch_data ch) (aupdate (p_parms s) (exts_map (ch_exts ch))) (p_trails s) SChunkSize) Hcs eq_refl).
    cbn [set_body p_body p_parms p_trails] in IH. rewrite <- app_assoc in IH. exact IH.
Qed.

Definition zeros_ok (cf : cfg) (zs : list Z) (es : list ext) : bool :=
  negb (is_nil zs) && forallb (fun d => d =? 0) zs && (len (size_line zs es) <=? maxline cf) && (len zs <=? 4300)
  && forallb ext_ok es.

Lemma zeros_val : forall zs acc, forallb (fun d => d =? 0) zs = true -> dval 16 zs acc = acc * 16 ^ Z.of_nat (length zs).
Proof.
  induction zs as [|z zs IH]; intros acc H; [cbn; lia|].
  cbn [forallb] in H. apply andb_true_iff in H. destruct H as [Hz Hzs]. apply Z.eqb_eq in Hz. subst.
  cbn [dval fold_left]. change (dv 0) with 0. fold (dval 16 zs (acc * 16 + 0)). rewrite IH by exact Hzs.
  cbn [length]. rewrite Nat2Z.inj_succ, Z.pow_succ_r by lia. lia.
Qed.

Lemma step_trailer cf s p h b : p_stage s = STrailer p h ->
  http_step cf false s b = match leader_step cf h b with
                           | LdWait => Wait
                           | LdErr e r => fail s e r
                           | LdMore h' r => Adv (set_stage s (STrailer p h')) r
                           | LdDone h' r => Adv (set_body s (p_body s) (aupdate (p_parms s) p) h' SDone) r
                           end.
Proof. intros Hs. unfold http_step. rewrite Hs. reflexivity. Qed.

(* from the first chunk size line to the end of the trailers *)
Lemma chunked_body_reach cf chunks zs les trailers e2 rest s :
  0 <= maxline cf -> forallb (chunk_ok cf) chunks = true -> zeros_ok cf zs les = true ->
  forallb hline_ok trailers = true -> forallb (line_len_ok cf) trailers = true ->
  Z.of_nat (length trailers) <= maxhdrs cf ->
  p_stage s = SChunkSize ->
  reach cf false s (chunked_bytes chunks zs les trailers e2 ++ rest)
        (set_body s (p_body s ++ concat (map ch_data chunks)) (parms_of chunks les (p_parms s))
                  (fold_lines trailers []) SDone) rest.
Proof.
  intros H0 Hch Hz Hok Hlen Hmax Hs.
  unfold zeros_ok in Hz. repeat (apply andb_true_iff in Hz; destruct Hz as [Hz ?]).
  rename H into Les, H1 into Z4300, H2 into Zml, H3 into Zall. apply negb_true_iff in Hz.
  apply Z.leb_le in Z4300. apply Z.leb_le in Zml.
  assert (Zne : zs <> []) by (destruct zs; [discriminate|congruence]).
  assert (Zok : digits_ok 16 zs = true).
  { unfold digits_ok. rewrite forallb_forall in *. intros d Hd. specialize (Zall d Hd). apply Z.eqb_eq in Zall. subst. reflexivity. }
  unfold chunked_bytes. rewrite <- !app_assoc.
  eapply reach_trans; [apply chunks_reach; assumption|].
  set (s1 := set_body s (p_body s ++ concat (map ch_data chunks)) (parms_after chunks (p_parms s)) (p_trails s) SChunkSize).
  eapply reach_step.
  { unfold http_step. cbn [s1 set_body p_stage andb].
    rewrite next_line_crlf; [|apply size_line_no_crlf; assumption|exact Zml].
    rewrite parse_chunk_size_line by assumption. rewrite zeros_val by exact Zall.
    cbn [Z.mul Z.eqb]. reflexivity. }
  eapply reach_trans.
  - apply (leader_reach cf (STrailer (exts_map les))
                        (fun s h => set_body s (p_body s) (aupdate (p_parms s) (exts_map les)) h SDone)
                        (fun s h b Hs => step_trailer cf s (exts_map les) h b Hs) H0 trailers _ [] e2 rest); try assumption.
    + reflexivity.
    + cbn [length]. lia.
  - apply reach_refl.
Qed.

Lemma request_chunked_roundtrip cf method url v11 e0 lines e1 chunks zs les trailers e2 rest :
  0 <= maxline cf ->
  tok_ok method = true -> existsb (beq method) METHODS = true -> tok_ok url = true -> url_ok cf url = true ->
  len (request_line method url v11) <= maxline cf ->
  forallb hline_ok lines = true -> forallb (line_len_ok cf) lines = true ->
  Z.of_nat (length lines) <= maxhdrs cf ->
  is_chunked (hdrs_of lines) = true ->
  forallb (chunk_ok cf) chunks = true -> zeros_ok cf zs les = true ->
  forallb hline_ok trailers = true -> forallb (line_len_ok cf) trailers = true ->
  Z.of_nat (length trailers) <= maxhdrs cf ->
  http_feed cf (init_pst false false, [])
            (head_bytes (request_line method url v11) e0 lines e1 ++ chunked_bytes chunks zs les trailers e2 ++ rest)
  = (with_chunked (req_headed method url v11 lines) (concat (map ch_data chunks)) (parms_of chunks les [])
                  (hdrs_of trailers), rest).
Proof.
  intros H0 Hm HM Hu HU HL Hok Hlen Hmax Hch Hcs Hzs Tok Tlen Tmax.
  apply feed_reach; [|apply done_stuck; reflexivity].
  unfold head_bytes. rewrite <- !app_assoc.
  eapply reach_step; [apply step_start_req; assumption|].
  eapply reach_trans.
  - apply (leader_reach cf SLeader head_done (step_leader cf) H0 lines _ [] e1
                        (chunked_bytes chunks zs les trailers e2 ++ rest)); try assumption.
    + reflexivity.
    + cbn [length]. lia.
  - change (fold_lines lines []) with (hdrs_of lines).
    assert (Hst : p_stage (req_headed method url v11 lines) = SChunkSize).
    { unfold req_headed, head_done. cbn [set_stage set_start init_pst p_resp]. rewrite Hch. reflexivity. }
    pose proof (chunked_body_reach cf chunks zs les trailers e2 rest (req_headed method url v11 lines)
                  H0 Hcs Hzs Tok Tlen Tmax Hst) as R.
    assert (Hb : p_body (req_headed method url v11 lines) = [] /\ p_parms (req_headed method url v11 lines) = []).
    { unfold req_headed, head_done. cbn [set_stage set_start init_pst p_resp]. rewrite Hch. split; reflexivity. }
    destruct Hb as [Hb Hp]. rewrite Hb, Hp in R. exact R.
Qed.

Lemma response_chunked_roundtrip cf hr v11 ds reason e0 lines e1 chunks zs les trailers e2 rest :
  0 <= maxline cf ->
  status_ok ds = true -> forallb tok_ok reason = true ->
  len (status_line v11 ds reason) <= maxline cf ->
  forallb hline_ok lines = true -> forallb (line_len_ok cf) lines = true ->
  Z.of_nat (length lines) <= maxhdrs cf ->
  is_chunked (hdrs_of lines) = true ->
  forallb (chunk_ok cf) chunks = true -> zeros_ok cf zs les = true ->
  forallb hline_ok trailers = true -> forallb (line_len_ok cf) trailers = true ->
  Z.of_nat (length trailers) <= maxhdrs cf ->
  http_feed cf (init_pst true hr, [])
            (head_bytes (status_line v11 ds reason) e0 lines e1 ++ chunked_bytes chunks zs les trailers e2 ++ rest)
  = (with_chunked (resp_headed hr v11 (dval 10 ds 0) reason lines) (concat (map ch_data chunks))
                  (parms_of chunks les []) (hdrs_of trailers), rest).
Proof.
  intros H0 Hs Hr HL Hok Hlen Hmax Hch Hcs Hzs Tok Tlen Tmax.
  apply feed_reach; [|apply done_stuck; reflexivity].
  unfold head_bytes. rewrite <- !app_assoc.
  eapply reach_step; [apply step_start_resp; assumption|].
  eapply reach_trans.
  - apply (leader_reach cf SLeader head_done (step_leader cf) H0 lines _ [] e1
                        (chunked_bytes chunks zs les trailers e2 ++ rest)); try assumption.
    + reflexivity.
    + cbn [length]. lia.
  - change (fold_lines lines []) with (hdrs_of lines).
    assert (Hst : p_stage (resp_headed hr v11 (dval 10 ds 0) reason lines) = SChunkSize).
    { unfold resp_headed, head_done. cbn [set_stage set_start init_pst p_resp]. rewrite Hch. reflexivity. }
    pose proof (chunked_body_reach cf chunks zs les trailers e2 rest (resp_headed hr v11 (dval 10 ds 0) reason lines)
                  H0 Hcs Hzs Tok Tlen Tmax Hst) as R.
    assert (Hb : p_body (resp_headed hr v11 (dval 10 ds 0) reason lines) = [] /\
                 p_parms (resp_headed hr v11 (dval 10 ds 0) reason lines) = []).
    { unfold resp_headed, head_done. cbn [set_stage set_start init_pst p_resp]. rewrite Hch. split; reflexivity. }
    destruct Hb as [Hb Hp]. rewrite Hb, Hp in R. exact R.
Qed.

(* round trip under any split *)
Lemma any_split_of cf resp hr data R : http_feed cf (init_pst resp hr, []) data = R ->
  forall pieces, concat pieces = data -> http_feed_all cf (init_pst resp hr, []) pieces = R.
Proof. intros H pieces E. rewrite http_split_independent_init, E. exact H. Qed.

(* ---- checkPersisted ---- *)
Lemma persisted_http11_default s : p_version s = 1 -> aget (bz "connection") (p_headers s) = None ->
  (p_chunked s = true \/ exists n, p_length s = Some n) -> persisted11 s = true.
Proof.
  intros _ Hc Hf. unfold persisted11, hdr_has. rewrite Hc.
  destruct Hf as [Hf|[n Hf]]; rewrite Hf; [reflexivity|]. rewrite andb_false_r. reflexivity.
Qed.

Lemma persisted_close s v : aget (bz "connection") (p_headers s) = Some v -> v <> [] ->
  contains (bz "close") (lower v) = true -> persisted11 s = false.
Proof.
  intros Hc Hn Hk. unfold persisted11, hdr_has. rewrite Hc, Hk. destruct v; [congruence|reflexivity].
Qed.

Lemma req_persisted_http10 s : p_version s = 0 ->
  req_persisted s = hdr_has (bz "connection") (bz "keep-alive") (p_headers s).
Proof. intros H. unfold req_persisted. rewrite H. reflexivity. Qed.

(* ------------------------------------------------------------------ *)
(* what else int(x, 16) -- hence parseChunk -- accepts as a chunk size  *)
(* ------------------------------------------------------------------ *)
(* optional 0x / 0X prefix, optionally followed by one underscore *)
Definition hex_prefix (x : Z) (us : bool) : bytes := 48 :: x :: (if us then [95] else []).

Lemma py_int16_tail ds : ds <> [] -> digits_ok 16 ds = true ->
  digits_top 16 (map dchar ds) = Some (dval 16 ds 0).
Proof.
  intros Hne Hok. destruct ds as [|d ds]; [congruence|].
  pose proof (digits_ok_in 16 (d :: ds) d Hok (or_introl eq_refl)) as Hd.
  cbn [digits_ok forallb] in Hok. apply andb_true_iff in Hok. destruct Hok as [_ Hds].
  cbn [map digits_top]. rewrite (digit_val_dchar 16) by (try right; try reflexivity; exact Hd).
  rewrite (digits_val_map 16) by (try right; try reflexivity; exact Hds). reflexivity.
Qed.

Lemma py_int16_prefixed x us ds : x = 120 \/ x = 88 -> ds <> [] -> digits_ok 16 ds = true ->
  len ds <= 4300 -> py_int 16 (hex_prefix x us ++ num ds) = Some (dval 16 ds 0).
Proof.
  intros Hx Hne Hok Hlen. unfold py_int.
  assert (W : no_ws is_ws_int (hex_prefix x us ++ num ds) = true).
  { unfold no_ws. rewrite forallb_app. fold (no_ws is_ws_int (num ds)).
    unfold num. rewrite (digits_no_ws 16) by (try right; try reflexivity; exact Hok).
    destruct Hx; subst x; destruct us; reflexivity. }
  rewrite strip_no_ws by exact W.
  destruct ds as [|d ds]; [congruence|].
  pose proof (digits_ok_in 16 (d :: ds) d Hok (or_introl eq_refl)) as Hd.
  pose proof (dchar_range 16 d (or_intror eq_refl) Hd) as R.
  assert (U : (dchar d =? 95) = false) by (apply Z.eqb_neq; lia).
  destruct Hx; subst x; destruct us; unfold hex_prefix; cbn [app num map];
    cbn [Z.eqb Pos.eqb andb orb]; cbv beta iota zeta; cbn [Z.eqb Pos.eqb andb orb];
    try rewrite U; change (dchar d :: map dchar ds) with (map dchar (d :: ds));
    rewrite (py_int16_tail (d :: ds)) by assumption; reflexivity.
Qed.

Lemma strip_padded ws pre core post : forallb ws pre = true -> forallb ws post = true ->
  core <> [] -> no_ws ws core = true -> strip ws (pre ++ core ++ post) = core.
Proof.
  intros Hpre Hpost Hne Hc. unfold strip. rewrite lstrip_all by exact Hpre.
  assert (L : lstrip ws (core ++ post) = core ++ post).
  { destruct core as [|c t]; [congruence|]. cbn [app]. apply lstrip_head.
    cbn in Hc. apply andb_true_iff in Hc. destruct Hc as [Hc _]. apply negb_true_iff in Hc. exact Hc. }
  rewrite L. rewrite rstrip_all by exact Hpost. apply rstrip_no_ws. exact Hc.
Qed.

Definition no_semi (b : bytes) : bool := forallb (fun c => negb (c =? 59)) b.

Lemma ws_b_no_semi p : forallb is_ws_b p = true -> no_semi p = true.
Proof.
  unfold no_semi. rewrite !forallb_forall. intros H x Hx. specialize (H x Hx).
  unfold is_ws_b in H. apply negb_true_iff. apply Z.eqb_neq. intros ->. discriminate.
Qed.

(* the size field of a chunk size line may be padded with white space and carry a 0x / 0X
   prefix (optionally followed by one underscore): parseChunk reads the same size and extensions *)
Lemma parse_chunk_size_lenient pre post (pfx : option (Z * bool)) ds es :
  forallb is_ws_b pre = true -> forallb is_ws_b post = true ->
  match pfx with Some (x, _) => x = 120 \/ x = 88 | None => True end ->
  ds <> [] -> digits_ok 16 ds = true -> len ds <= 4300 -> forallb ext_ok es = true ->
  parse_chunk_size (pre ++ (match pfx with Some (x, us) => hex_prefix x us | None => [] end ++ num ds)
                        ++ post ++ render_exts es)
  = Some (dval 16 ds 0, exts_map es).
Proof.
  intros Hpre Hpost Hpfx Hne Hok Hlen Hes.
  set (core := match pfx with Some (x, us) => hex_prefix x us | None => [] end ++ num ds).
  destruct (num_props ds Hok) as [_ [Hsc [Hws Hasc]]].
  assert (Cne : core <> []).
  { unfold core. destruct pfx as [[x us]|]; [discriminate|]. destruct ds; [congruence|discriminate]. }
  assert (Csc : no_semi core = true).
  { unfold core, no_semi. rewrite forallb_app. fold (no_semi (num ds)). unfold no_semi. rewrite Hsc.
    destruct pfx as [[x us]|]; [|reflexivity]. destruct Hpfx; subst x; destruct us; reflexivity. }
  assert (Cws : no_ws is_ws_b core = true).
  { unfold core, no_ws. rewrite forallb_app. fold (no_ws is_ws_b (num ds)). rewrite Hws.
    destruct pfx as [[x us]|]; [|reflexivity]. destruct Hpfx; subst x; destruct us; reflexivity. }
  assert (Casc : existsb (fun c => 127 <? c) core = false).
  { unfold core. rewrite existsb_app, Hasc.
    destruct pfx as [[x us]|]; [|reflexivity]. destruct Hpfx; subst x; destruct us; reflexivity. }
  assert (Cint : py_int 16 core = Some (dval 16 ds 0)).
  { unfold core. destruct pfx as [[x us]|].
    - apply py_int16_prefixed; assumption.
    - cbn [app]. unfold num. apply py_int_digits; [right; reflexivity|assumption..]. }
  pose proof (dval_nonneg 16 (or_intror eq_refl) ds 0 Hok ltac:(lia)) as P.
  assert (Nn : (dval 16 ds 0 <? 0) = false) by (apply Z.ltb_ge; exact P).
  assert (S1 : no_semi (pre ++ core ++ post) = true).
  { unfold no_semi in *. rewrite !forallb_app. fold (no_semi pre) (no_semi post).
    rewrite (ws_b_no_semi _ Hpre), Csc, (ws_b_no_semi _ Hpost). reflexivity. }
  unfold parse_chunk_size, part2.
  destruct es as [|e es].
  - cbn [render_exts flat_map]. rewrite !app_nil_r.
    rewrite partition_at_absent by exact S1.
    rewrite strip_padded by assumption. rewrite Casc, Cint, Nn. reflexivity.
  - cbn [forallb] in Hes. apply andb_true_iff in Hes. destruct Hes as [He Hes].
    cbn [render_exts flat_map app]. fold (render_exts es).
    replace (pre ++ core ++ post ++ 59 :: ext_piece e ++ render_exts es)
      with ((pre ++ core ++ post) ++ 59 :: ext_piece e ++ render_exts es) by (rewrite <- !app_assoc; reflexivity).
    rewrite partition_at_app by exact S1.
    rewrite strip_padded by assumption. rewrite Casc, Cint, Nn.
    destruct (ext_piece_props e He) as [_ [_ Pn]].
    assert (Nx : is_nil (ext_piece e ++ render_exts es) = false) by (destruct (ext_piece e); [discriminate|reflexivity]).
    rewrite Nx. rewrite split_exts by assumption.
    change (ext_piece e :: map ext_piece es) with (map ext_piece (e :: es)).
    rewrite fold_parse_exts by (cbn [forallb]; rewrite He, Hes; reflexivity). reflexivity.
Qed.

(* ------------------------------------------------------------------ *)
(* reused parser over a stream of messages                              *)
(* ------------------------------------------------------------------ *)
Lemma start_not_done cf cl s b s' r f0 : p_stage s = SStart f0 ->
  http_step cf cl s b = Adv s' r -> stage_done s' = false.
Proof.
  intros Hs H. unfold http_step, fail in H. rewrite Hs in H.
  repeat match type of H with
         | context [match ?x with _ => _ end] => destruct x eqn:?
         | context [if ?x then _ else _] => destruct x eqn:?
         end; try discriminate; inversion H; subst; reflexivity.
Qed.

Lemma sess_rank_le s : (sess_rank s <= 2)%nat.
Proof. unfold sess_rank. destruct (p_stage s); lia. Qed.

Lemma sess_step_dec cf resp hr : forall st b st' r,
  sess_step cf resp hr st b = Adv st' r -> (sess_mu st' r < sess_mu st b)%nat.
Proof.
  intros [s n] b [s2 n2] r H. unfold sess_step in H. cbn [fst snd] in H.
  destruct (http_step cf false s b) as [s' r'| |] eqn:E; try discriminate.
  pose proof (http_step_dec cf false _ _ _ _ E) as D. unfold http_mu in D.
  unfold sess_mu. cbn [fst].
  pose proof (sess_rank_le s2). pose proof (sess_rank_le s).
  destruct (Nat.lt_ge_cases (length r') (length b)) as [Hlt|Hge].
  - destruct (stage_done s'); inversion H; subst; lia.
  - assert (T' : terminal (p_stage s') = true) by (destruct (terminal (p_stage s')); [reflexivity|destruct (terminal (p_stage s)); lia]).
    assert (T : terminal (p_stage s) = false) by (destruct (terminal (p_stage s)); [rewrite T' in D; lia|reflexivity]).
    assert (L : length r' = length b) by (rewrite T', T in D; lia).
    destruct (stage_done s') eqn:R; inversion H; subst.
    + assert (K : sess_rank s = 2%nat).
      { unfold sess_rank. destruct (p_stage s) eqn:Hs; try reflexivity; try discriminate T.
        rewrite (start_not_done cf false s b s' r first Hs E) in R. discriminate. }
      rewrite K, L. cbn. lia.
    + assert (K' : sess_rank s2 = 0%nat) by (unfold sess_rank; destruct (p_stage s2); try discriminate T'; reflexivity).
      assert (K : (1 <= sess_rank s)%nat) by (unfold sess_rank; destruct (p_stage s); try discriminate T; lia).
      rewrite K', L. lia.
Qed.

Lemma sess_step_stable cf resp hr : forall st b st' r c,
  sess_step cf resp hr st b = Adv st' r -> sess_step cf resp hr st (b ++ c) = Adv st' (r ++ c).
Proof.
  intros [s n] b st' r c H. unfold sess_step in *. cbn [fst snd] in *.
  destruct (http_step cf false s b) as [s' r'| |] eqn:E; try discriminate.
  rewrite (http_step_stable cf _ _ _ _ c E).
  destruct (stage_done s'); inversion H; reflexivity.
Qed.

Lemma sess_init_quiescent cf resp hr : quiescent (pst * list pst) (sess_step cf resp hr) (sess_init resp hr).
Proof. intros s' r. cbn. discriminate. Qed.

Lemma sess_split_independent cf resp hr : forall pieces,
  sess_feed_all cf resp hr (sess_init resp hr) pieces = sess_feed cf resp hr (sess_init resp hr) (concat pieces).
Proof.
  intros. unfold sess_feed_all, sess_feed.
  apply feed_all_concat; [apply sess_step_dec | apply sess_step_stable | apply sess_init_quiescent].
Qed.

(* the first message of a stream is parsed exactly as by a fresh parser, logged, and the parse
   goes on, from the initial state, with the bytes it left *)
Lemma sess_run_cons cf resp hr : forall n s b s' r log,
  stage_done s = false ->
  run pst (http_step cf false) n s b = (s', r) -> stage_done s' = true ->
  forall m, (sess_mu (s, log) b < m)%nat ->
  run (pst * list pst) (sess_step cf resp hr) m (s, log) b =
  run (pst * list pst) (sess_step cf resp hr) (S (sess_mu (init_pst resp hr, log ++ [s']) r))
      (init_pst resp hr, log ++ [s']) r.
Proof.
  induction n as [|n IH]; intros s b s' r log Hs R Hd m Hm.
  - cbn in R. inversion R; subst. congruence.
  - cbn [run] in R. destruct (http_step cf false s b) as [s1 b1| |] eqn:E.
    + destruct m; [lia|].
      assert (SD : sess_step cf resp hr (s, log) b =
                   if stage_done s1 then Adv (init_pst resp hr, log ++ [s1]) b1 else Adv (s1, log) b1).
      { unfold sess_step. cbn [fst snd]. rewrite E. reflexivity. }
      destruct (stage_done s1) eqn:D1.
      * (* the message is complete: the plain run stops here *)
        assert (Hh : http_step cf false s1 b1 = Halt).
        { apply http_terminal_halts. unfold stage_done in D1. destruct (p_stage s1); try discriminate; reflexivity. }
        assert (Rs : (s1, b1) = (s', r)).
        { destruct n; cbn [run] in R; [exact R|rewrite Hh in R; exact R]. }
        inversion Rs; subst s1 b1.
        pose proof (sess_step_dec cf resp hr _ _ _ _ SD) as Dd.
        etransitivity; [exact (f_equal (fun x => match x with Adv s2 r2 => run (pst * list pst) (sess_step cf resp hr) m s2 r2 | _ => ((s, log), b) end) SD)|].
        apply (run_fuel (pst * list pst) (sess_step cf resp hr) sess_mu (sess_step_dec cf resp hr)); lia.
      * pose proof (sess_step_dec cf resp hr _ _ _ _ SD) as Dd.
        etransitivity; [exact (f_equal (fun x => match x with Adv s2 r2 => run (pst * list pst) (sess_step cf resp hr) m s2 r2 | _ => ((s, log), b) end) SD)|].
        apply (IH s1 b1 s' r log D1 R Hd). lia.
    + inversion R; subst. congruence.
    + inversion R; subst. congruence.
Qed.

Lemma sess_feed_cons cf resp hr data s' r log :
  http_feed cf (init_pst resp hr, []) data = (s', r) -> stage_done s' = true ->
  sess_feed cf resp hr ((init_pst resp hr, log), []) data
  = sess_feed cf resp hr ((init_pst resp hr, log ++ [s']), []) r.
Proof.
  intros F D. unfold http_feed, feed in F. cbn [fst snd app] in F.
  unfold sess_feed, feed. cbn [fst snd app].
  assert (I0 : stage_done (init_pst resp hr) = false) by reflexivity.
  rewrite (sess_run_cons cf resp hr _ _ _ _ _ log I0 F D) by lia. reflexivity.
Qed.
