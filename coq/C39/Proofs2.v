From Coq Require Import List ZArith Bool Lia.
Import ListNotations.
Require Import V.C39.Model V.C39.Proofs.
Open Scope Z_scope.

Lemma fold_left_map {A B C} (f : A -> C -> A) (g : B -> C) l : forall a,
  fold_left f (map g l) a = fold_left (fun a x => f a (g x)) l a.
Proof. induction l as [|x l IH]; cbn; intros a; [reflexivity|apply IH]. Qed.
Lemma fold_left_ext {A B} (f g : A -> B -> A) l : (forall a x, f a x = g a x) ->
  forall a, fold_left f l a = fold_left g l a.
Proof. intros H. induction l as [|x l IH]; cbn; intros a; [reflexivity|]. rewrite H. apply IH. Qed.
Lemma fold_left_pres {A B} (P : A -> Prop) (f : A -> B -> A) l :
  (forall a x, P a -> P (f a x)) -> forall a, P a -> P (fold_left f l a).
Proof. intros H. induction l as [|x l IH]; cbn; intros a Ha; [exact Ha|]. apply IH, H, Ha. Qed.

(* ------------------------------------------------------------ lodict *)
Section LO.
  Variable lower : Z -> Z.
  Hypothesis lower_idem : forall k, lower (lower k) = lower k.

  Lemma lo_update_lower ps o : lo_update lower (lower_ps lower ps) o = lo_update lower ps o.
  Proof.
    unfold lo_update, lower_ps. rewrite fold_left_map. cbn [fst snd].
    rewrite (fold_left_ext _ (fun d p => setitem (lower (fst p)) (snd p) d)); [reflexivity|].
    intros a x. rewrite lower_idem. reflexivity.
  Qed.

  (* every mapping operation of lodict gives the same result and the same state whether
     its key arguments are spelled in upper or lower case *)
  Lemma lo_step_lower o x : lo_step lower o x = lo_step lower o (lower_op lower x).
  Proof.
    destruct x; cbn [lo_step lower_op]; unfold lo_set; rewrite ?lower_idem; try reflexivity.
    - f_equal. unfold lower_ps. rewrite fold_left_map. cbn [fst snd]. apply fold_left_ext.
      intros a x. unfold lo_set. rewrite !lower_idem. reflexivity.
    - destruct fs as [l|]; [|reflexivity]. cbn [lo_step]. rewrite map_map.
      rewrite (map_ext (fun x => lower (lower x)) lower) by exact lower_idem. reflexivity.
    - rewrite lo_update_lower. reflexivity.
    - rewrite lo_update_lower. reflexivity.
  Qed.

  Lemma lo_trace_lower ops : forall o, lo_trace lower o ops = lo_trace lower o (map (lower_op lower) ops).
  Proof.
    induction ops as [|x ops IH]; cbn [lo_trace map]; intros o; [reflexivity|].
    rewrite <- lo_step_lower. destruct (lo_step lower o x) as [o' r]. rewrite IH. reflexivity.
  Qed.
End LO.

Lemma lower2_idem k : lower2 (lower2 k) = lower2 k.
Proof. unfold lower2. replace (2 * (k / 2) / 2) with (k / 2); [reflexivity|]. rewrite Z.mul_comm, Z.div_mul by lia. reflexivity. Qed.

(* ------------------------------------------------------------ oset *)
Lemma s_add_In x k s : In x (s_add k s) <-> x = k \/ In x s.
Proof.
  unfold s_add. destruct (kmem k s) eqn:E.
  - apply kmem_In in E. split; [tauto|]. intros [->|H]; assumption.
  - rewrite in_app_iff. cbn. intuition.
Qed.
Lemma s_add_NoDup k s : NoDup s -> NoDup (s_add k s).
Proof.
  intros H. unfold s_add. destruct (kmem k s) eqn:E; [exact H|].
  apply NoDup_app_single; [exact H | apply kmem_false; exact E].
Qed.
Lemma s_discard_NoDup k s : NoDup s -> NoDup (s_discard k s).
Proof. intros H. unfold s_discard. destruct (kmem k s); [apply remove1_NoDup|]; exact H. Qed.
Lemma s_discard_In x k s : NoDup s -> (In x (s_discard k s) <-> In x s /\ x <> k).
Proof.
  intros Hn. unfold s_discard. destruct (kmem k s) eqn:E.
  - rewrite <- !kmem_In, kmem_remove1, andb_true_iff, negb_true_iff, Z.eqb_neq by exact Hn. tauto.
  - apply kmem_false in E. split; [|tauto]. intros H. split; [exact H|]. intros ->. tauto.
Qed.
Lemma s_adds_NoDup it : forall s, NoDup s -> NoDup (s_adds it s).
Proof. apply fold_left_pres. intros a x. apply s_add_NoDup. Qed.
Lemma s_adds_In x it : forall s, In x (s_adds it s) <-> In x s \/ In x it.
Proof.
  induction it as [|k it IH]; cbn; intros s; [tauto|]. fold (s_adds it (s_add k s)).
  rewrite IH, s_add_In. intuition.
Qed.
Lemma s_of_NoDup it : NoDup (s_of it).
Proof. apply s_adds_NoDup. constructor. Qed.
Lemma s_of_In x it : In x (s_of it) <-> In x it.
Proof. unfold s_of. rewrite s_adds_In. cbn. tauto. Qed.

(* adding elements that are new and distinct appends them in order *)
Lemma s_adds_fresh it : forall s, NoDup it -> (forall x, In x it -> ~ In x s) -> s_adds it s = s ++ it.
Proof.
  induction it as [|k it IH]; cbn; intros s Hn Hf; [rewrite app_nil_r; reflexivity|].
  fold (s_adds it (s_add k s)). inversion Hn; subst.
  assert (E : kmem k s = false) by (apply kmem_false, Hf; left; reflexivity).
  unfold s_add. rewrite E. rewrite IH; [rewrite <- app_assoc; reflexivity | assumption |].
  intros x Hx. rewrite in_app_iff. cbn. intros [H|[H|[]]]; [eapply Hf; [right|]; eassumption|subst; tauto].
Qed.
Lemma s_of_id s : NoDup s -> s_of s = s.
Proof. intros H. unfold s_of. rewrite s_adds_fresh; [reflexivity|exact H|intros ? ? []]. Qed.

Lemma s_step_inv s x : NoDup s -> NoDup (fst (s_step s x)).
Proof.
  intros H. destruct x; cbn [s_step fst]; try exact H.
  - apply s_add_NoDup, H.
  - apply s_discard_NoDup, H.
  - destruct (kmem k s); [apply s_discard_NoDup|]; exact H.
  - destruct (if last then rev s else s); [exact H | apply s_discard_NoDup, H].
  - constructor.
  - apply s_adds_NoDup, H.
  - unfold s_iand. apply fold_left_pres; [intros a y; apply s_discard_NoDup | exact H].
  - unfold s_isub. apply fold_left_pres; [intros a y; apply s_discard_NoDup | exact H].
  - unfold s_ixor. apply fold_left_pres; [|exact H].
    intros a y Ha. destruct (kmem y a); [apply s_discard_NoDup | apply s_add_NoDup]; exact Ha.
Qed.
Lemma s_run_inv ops : forall s, NoDup s -> NoDup (s_run s ops).
Proof. induction ops as [|x ops IH]; cbn; intros s H; [exact H|]. apply IH, s_step_inv, H. Qed.

(* set algebra: membership is that of mathematical sets ... *)
Lemma s_or_In x a b : In x (s_or a b) <-> In x a \/ In x b.
Proof. unfold s_or. rewrite s_of_In, in_app_iff. tauto. Qed.
Lemma s_and_In x a b : In x (s_and a b) <-> In x a /\ In x b.
Proof. unfold s_and. rewrite s_of_In, filter_In, kmem_In. tauto. Qed.
Lemma s_sub_In x a b : In x (s_sub a b) <-> In x a /\ ~ In x b.
Proof.
  unfold s_sub. rewrite s_of_In, filter_In, negb_true_iff, kmem_false, s_of_In. tauto.
Qed.
Lemma s_xor_In x a b : In x (s_xor a b) <-> (In x a /\ ~ In x b) \/ (In x b /\ ~ In x a).
Proof. unfold s_xor. rewrite s_or_In, !s_sub_In, s_of_In. tauto. Qed.

(* ... and the order is: union = a then the new elements of b in b's order; difference keeps
   a's order; intersection follows the order of the OTHER operand *)
Lemma filter_NoDup {A} (f : A -> bool) l : NoDup l -> NoDup (filter f l).
Proof.
  induction 1 as [|y l Hy Hn IH]; cbn; [constructor|]. destruct (f y); [|exact IH].
  constructor; [|exact IH]. rewrite filter_In. tauto.
Qed.
Lemma s_sub_order a b : NoDup a -> s_sub a b = filter (fun x => negb (kmem x b)) a.
Proof.
  intros H. unfold s_sub.
  rewrite (filter_ext (fun x => negb (kmem x (s_of b))) (fun x => negb (kmem x b))).
  - apply s_of_id, filter_NoDup, H.
  - intros x. f_equal. apply eq_true_iff_eq. rewrite !kmem_In. apply s_of_In.
Qed.
Lemma s_and_order a b : NoDup b -> s_and a b = filter (fun x => kmem x a) b.
Proof. intros H. unfold s_and. apply s_of_id, filter_NoDup, H. Qed.
Lemma s_or_order a b : NoDup a -> NoDup b -> s_or a b = a ++ filter (fun x => negb (kmem x a)) b.
Proof.
  intros Ha Hb. unfold s_or, s_of. unfold s_adds. rewrite fold_left_app. fold (s_adds a []). fold (s_of a).
  rewrite (s_of_id a Ha). fold (s_adds b a). clear Ha. revert a. induction Hb as [|y b Hy Hb IH]; cbn; intros a.
  - rewrite app_nil_r. reflexivity.
  - fold (s_adds b (s_add y a)). rewrite IH. unfold s_add. destruct (kmem y a) eqn:E; cbn [negb]; [reflexivity|].
    rewrite <- app_assoc. cbn [app]. f_equal. f_equal. apply filter_ext_in. intros x Hx.
    rewrite kmem_app. cbn. rewrite orb_false_r. destruct (x =? y) eqn:Ex; [|rewrite orb_false_r; reflexivity].
    apply Z.eqb_eq in Ex. subst. tauto.
Qed.

Lemma s_add_present k a : In k a -> s_add k a = a.
Proof. intros H. unfold s_add. apply kmem_In in H. rewrite H. reflexivity. Qed.
Lemma s_add_absent k a : ~ In k a -> s_add k a = a ++ [k].
Proof. intros H. unfold s_add. apply kmem_false in H. rewrite H. reflexivity. Qed.
Lemma oset_order_all a b : NoDup a -> NoDup b ->
  s_or a b = a ++ filter (fun x => negb (kmem x a)) b /\
  s_sub a b = filter (fun x => negb (kmem x b)) a /\
  s_and a b = filter (fun x => kmem x a) b /\
  (forall k, In k a -> s_add k a = a) /\ (forall k, ~ In k a -> s_add k a = a ++ [k]) /\
  (forall k x, In x (s_discard k a) <-> In x a /\ x <> k).
Proof.
  intros Ha Hb.
  split; [apply s_or_order; assumption|]. split; [apply s_sub_order; assumption|].
  split; [apply s_and_order; assumption|]. split; [intros k; apply s_add_present|].
  split; [intros k; apply s_add_absent|]. intros k x. apply s_discard_In. exact Ha.
Qed.
