(* C39 -- modict: keeps every value per key (history specification), reads return the newest *)
From Coq Require Import List ZArith Bool Lia.
Import ListNotations.
Require Import V.C39.Model V.C39.Proofs V.C39.Proofs2.
Open Scope Z_scope.

Lemma getlist_dset k v (d : list (Z * list Z)) ks ks' k' :
  getlist k' (mk ks (dset k v d)) = if k' =? k then v else getlist k' (mk ks' d).
Proof. unfold getlist. cbn [dict]. rewrite dget_dset. destruct (k' =? k); reflexivity. Qed.
Lemma getlist_ddel k (d : list (Z * list Z)) ks ks' k' :
  getlist k' (mk ks (ddel k d)) = if k' =? k then [] else getlist k' (mk ks' d).
Proof. unfold getlist. cbn [dict]. rewrite dget_ddel. destruct (k' =? k); reflexivity. Qed.
Lemma getlist_keys ks ks' (d : list (Z * list Z)) k : getlist k (mk ks d) = getlist k (mk ks' d).
Proof. reflexivity. Qed.

Lemma getlist_m_add k v (m : mod_) k' :
  getlist k' (m_add k v m) = if k' =? k then getlist k m ++ [v] else getlist k' m.
Proof.
  unfold m_add, setdefault, getlist. destruct (dget k (dict m)) eqn:E; cbn [dict keys]; rewrite dget_dset;
    destruct (k' =? k) eqn:E2; try reflexivity.
  rewrite dget_dset, E2. reflexivity.
Qed.

Lemma getlist_m_adds ps : forall (m : mod_) k,
  getlist k (m_adds ps m) = getlist k m ++ map snd (filter (fun p => fst p =? k) ps).
Proof.
  unfold m_adds. induction ps as [|[a v] ps IH]; cbn [fold_left filter fst snd]; intros m k; [rewrite app_nil_r; reflexivity|].
  rewrite IH, getlist_m_add. rewrite (Z.eqb_sym k a). destruct (a =? k) eqn:E; cbn [map snd].
  - apply Z.eqb_eq in E. subst. rewrite <- app_assoc. reflexivity.
  - reflexivity.
Qed.

(* m_add keeps the class invariant *)
Lemma inv_rebind {V} k (w : V) (o : od V) : inv o -> dmem k (dict o) = true -> inv (mk (keys o) (dset k w (dict o))).
Proof.
  intros (Hk & Hd & He) Hm. repeat split; cbn [keys dict]; [exact Hk | apply dset_NoDup; exact Hd|].
  intros x. rewrite dmem_dset, He. destruct (x =? k) eqn:E; [|reflexivity]. apply Z.eqb_eq in E. subst. rewrite Hm. reflexivity.
Qed.
Lemma inv_m_add k v (m : mod_) : inv m -> inv (m_add k v m).
Proof.
  intros H. unfold m_add. pose proof (inv_setdefault k [] m H) as H1. pose proof (setdefault_eq k [] m H) as E.
  destruct (setdefault k [] m) as [m' l]. cbn [fst] in *. apply inv_rebind; [exact H1|].
  rewrite E. destruct (dmem k (dict m)) eqn:D; [exact D|]. unfold setitem. cbn [dict]. rewrite dmem_dset, Z.eqb_refl. reflexivity.
Qed.
Lemma inv_m_adds ps : forall (m : mod_), inv m -> inv (m_adds ps m).
Proof. apply fold_left_pres. intros a x. apply inv_m_add. Qed.

Lemma m_reorder_inv its : forall (m : mod_), inv m -> inv (m_reorder its m).
Proof.
  apply fold_left_pres. intros a kl Ha. apply inv_setitem. apply (inv_delitem (fst kl) a Ha).
Qed.

Lemma m_step_inv (m : mod_) x : inv m -> inv (fst (m_step m x)).
Proof.
  intros H. destruct x; cbn [m_step fst]; try exact H.
  - apply inv_m_add, H.
  - apply inv_setitem, H.
  - destruct (dget k (dict m)) as [l|]; [destruct (py_index l (-1))|]; cbn [fst]; try exact H; apply inv_m_add, H.
  - pose proof (inv_pop k None m H). destruct (pop k None m); exact H0.
  - pose proof (inv_pop k None m H). destruct (pop k None m); exact H0.
  - pose proof (inv_pop k None m H). destruct (pop k None m); exact H0.
  - pose proof (inv_popitem last m H). destruct (popitem last m) as [m' [[? ?]|?]]; exact H0.
  - pose proof (inv_popitem last m H). destruct (popitem last m) as [m' [[? ?]|?]]; exact H0.
  - pose proof (inv_delitem k m H) as [H1 _]. destruct (delitem k m); exact H1.
  - apply inv_m_adds, H.
  - apply inv_m_adds, H.
  - apply inv_empty.
  - destruct fs; exact H.
  - match goal with |- context [insert ?i ?k ?w m] =>
      pose proof (inv_insert i k w m H) as HI; destruct (insert i k w m); exact HI end.
  - apply m_reorder_inv, H.
  - apply m_reorder_inv, H.
Qed.
Lemma m_run_inv ops : forall (m : mod_), inv m -> inv (m_run m ops).
Proof. induction ops as [|x ops IH]; cbn; intros m H; [exact H|]. apply IH, m_step_inv, H. Qed.

(* all values of key k, read off allitems *)
Lemma allitems_key (m : mod_) k : inv m ->
  map snd (filter (fun p => fst p =? k) (allitems m)) = getlist k m.
Proof.
  intros (Hn & _ & He). unfold allitems, items, getlist.
  assert (A : forall ks, NoDup ks ->
    map snd (filter (fun p => fst p =? k)
      (flat_map (fun kl : Z * list Z => map (fun v => (fst kl, v)) (snd kl))
        (flat_map (fun k0 => match dget k0 (dict m) with Some v => [(k0, v)] | None => [] end) ks)))
    = if kmem k ks then match dget k (dict m) with Some l => l | None => [] end else []).
  { induction 1 as [|a ks Ha Hk IH]; [reflexivity|]. cbn [flat_map]. rewrite flat_map_app, filter_app, map_app, IH.
    unfold kmem. cbn [existsb]. fold (kmem k ks). destruct (k =? a) eqn:E.
    - apply Z.eqb_eq in E. subst a. assert (Ek : kmem k ks = false) by (apply kmem_false; exact Ha).
      rewrite Ek. cbn [orb]. rewrite app_nil_r. destruct (dget k (dict m)) as [l|]; [|reflexivity].
      cbn [flat_map fst snd]. rewrite app_nil_r. clear. induction l as [|v l IHl]; cbn; [reflexivity|].
      rewrite Z.eqb_refl. cbn. f_equal. exact IHl.
    - cbn [orb]. destruct (dget a (dict m)) as [l|]; [|reflexivity]. cbn [flat_map fst snd]. rewrite app_nil_r.
      replace (filter (fun p : Z * Z => fst p =? k) (map (fun v : Z => (a, v)) l)) with (@nil (Z * Z)); [reflexivity|].
      clear - E. induction l as [|v l IHl]; cbn; [reflexivity|]. rewrite (Z.eqb_sym a k), E. exact IHl. }
  rewrite A by exact Hn. rewrite He. unfold dmem. destruct (dget k (dict m)); reflexivity.
Qed.

Lemma py_index_last l : l <> [] -> py_index l (-1) = Some (last l 0).
Proof.
  intros H. destruct (exists_last H) as (l' & x & ->). unfold py_index. cbv zeta.
  change (-1 <? 0) with true. cbv iota. rewrite app_length. cbn [length].
  rewrite last_last. destruct (_ || _) eqn:B.
  - apply orb_true_iff in B. destruct B as [B|B]; [apply Z.ltb_lt in B | apply Z.leb_le in B]; lia.
  - replace (Z.to_nat (-1 + Z.of_nat (length l' + 1))) with (length l') by lia.
    rewrite nth_error_app2 by lia. rewrite Nat.sub_diag. reflexivity.
Qed.
(* ONE step: the values kept for k change exactly as the history specification says *)
Lemma m_step_hist (m : mod_) x k : is_popitem x = false ->
  getlist k (fst (m_step m x)) = hist_step k (getlist k m) x.
Proof.
  intros NP. destruct x; try discriminate; cbn [m_step fst hist_step]; try reflexivity.
  - rewrite getlist_m_add, (Z.eqb_sym k k0). destruct (k0 =? k) eqn:E; [apply Z.eqb_eq in E; subst|]; reflexivity.
  - unfold setitem. rewrite (getlist_dset k0 [v] (dict m) _ (keys m) k), (Z.eqb_sym k k0). destruct m; reflexivity.
  - destruct (dget k0 (dict m)) as [l|] eqn:E.
    + destruct (py_index l (-1)) eqn:P; cbn [fst].
      * destruct (k0 =? k) eqn:E2; [|reflexivity]. apply Z.eqb_eq in E2. subst. unfold getlist. rewrite E.
        destruct l; [discriminate P | reflexivity].
      * rewrite getlist_m_add, (Z.eqb_sym k k0). destruct (k0 =? k) eqn:E2; [|reflexivity]. apply Z.eqb_eq in E2. subst.
        unfold getlist. rewrite E. destruct l as [|z l]; [reflexivity|]. rewrite py_index_last in P by discriminate. discriminate.
    + cbn [fst]. rewrite getlist_m_add, (Z.eqb_sym k k0). destruct (k0 =? k) eqn:E2; [|reflexivity]. apply Z.eqb_eq in E2. subst.
      unfold getlist. rewrite E. reflexivity.
  - unfold pop. destruct (dget k0 (dict m)) eqn:E; cbn [fst].
    + rewrite (getlist_ddel k0 (dict m) _ (keys m) k), (Z.eqb_sym k k0). destruct m; reflexivity.
    + destruct (k0 =? k) eqn:E2; [|reflexivity]. apply Z.eqb_eq in E2. subst. unfold getlist. rewrite E. reflexivity.
  - unfold pop. destruct (dget k0 (dict m)) eqn:E; cbn [fst].
    + rewrite (getlist_ddel k0 (dict m) _ (keys m) k), (Z.eqb_sym k k0). destruct m; reflexivity.
    + destruct (k0 =? k) eqn:E2; [|reflexivity]. apply Z.eqb_eq in E2. subst. unfold getlist. rewrite E. reflexivity.
  - unfold pop. destruct (dget k0 (dict m)) eqn:E; cbn [fst].
    + rewrite (getlist_ddel k0 (dict m) _ (keys m) k), (Z.eqb_sym k k0). destruct m; reflexivity.
    + destruct (k0 =? k) eqn:E2; [|reflexivity]. apply Z.eqb_eq in E2. subst. unfold getlist. rewrite E. reflexivity.
  - unfold delitem, dmem. destruct (dget k0 (dict m)) eqn:E.
    + destruct (kmem k0 (keys m)); cbn [fst]; rewrite (getlist_ddel k0 (dict m) _ (keys m) k), (Z.eqb_sym k k0); destruct m; reflexivity.
    + cbn [fst]. destruct (k0 =? k) eqn:E2; [|reflexivity]. apply Z.eqb_eq in E2. subst. unfold getlist. rewrite E. reflexivity.
  - apply getlist_m_adds.
  - rewrite getlist_m_adds. f_equal. rewrite allitems_key by (apply inv_m_adds, inv_empty).
    rewrite getlist_m_adds. reflexivity.
  - destruct fs; reflexivity.
Qed.

Definition no_popitem (ops : list mop) : bool := forallb (fun x => negb (is_popitem x)) ops.

Lemma m_run_hist ops : forall (m : mod_) k, no_popitem ops = true ->
  getlist k (m_run m ops) = fold_left (hist_step k) ops (getlist k m).
Proof.
  induction ops as [|x ops IH]; cbn [m_run fold_left no_popitem forallb]; intros m k H; [reflexivity|].
  apply andb_true_iff in H. destruct H as [H1 H2]. apply negb_true_iff in H1.
  rewrite IH by exact H2. rewrite m_step_hist by exact H1. reflexivity.
Qed.

(* reads return the newest value / the whole list *)
Lemma m_get_newest (m : mod_) k : getlist k m <> [] ->
  snd (m_step m (MGet k)) = QInt (last (getlist k m) 0) /\ snd (m_step m (MGetList k)) = QList (getlist k m) /\
  forall d, snd (m_step m (MGetD k d)) = QInt (last (getlist k m) 0).
Proof.
  intros H. cbn [m_step snd]. unfold getlist in *. destruct (dget k (dict m)) as [l|]; [|congruence].
  rewrite (py_index_last l H). repeat split.
Qed.

Lemma modict_main ps0 ops k : no_popitem ops = true ->
  let m := m_run (m_adds ps0 empty) ops in
  inv m /\
  getlist k m = fold_left (hist_step k) ops (map snd (filter (fun p => fst p =? k) ps0)) /\
  (getlist k m <> [] ->
     snd (m_step m (MGet k)) = QInt (last (getlist k m) 0) /\ snd (m_step m (MGetList k)) = QList (getlist k m) /\
     forall d, snd (m_step m (MGetD k d)) = QInt (last (getlist k m) 0)).
Proof.
  intros H m. split; [apply m_run_inv, inv_m_adds, inv_empty|]. split; [|apply m_get_newest].
  unfold m. rewrite m_run_hist by exact H. rewrite getlist_m_adds. reflexivity.
Qed.

(* two live modicts: an operation on one never changes the other, also when it takes the other as its
   argument (reorder / update); and both stay consistent over every op sequence *)
Lemma m2_other_unchanged (a b : mod_) x :
  match x with
  | OnA _ | AReorderB | AUpdateB => snd (fst (m2_step (a, b) x)) = b
  | OnB _ | BReorderA | BUpdateA => fst (fst (m2_step (a, b) x)) = a
  end.
Proof. destruct x; cbn [m2_step]; try reflexivity; [destruct (m_step a x) | destruct (m_step b x)]; reflexivity. Qed.

Lemma m2_step_inv (s : mod_ * mod_) x : inv (fst s) /\ inv (snd s) ->
  inv (fst (fst (m2_step s x))) /\ inv (snd (fst (m2_step s x))).
Proof.
  destruct s as [a b]. cbn [fst snd]. intros [Ha Hb]. destruct x; cbn [m2_step].
  - pose proof (m_step_inv a x Ha). destruct (m_step a x). cbn in *. tauto.
  - pose proof (m_step_inv b x Hb). destruct (m_step b x). cbn in *. tauto.
  - cbn. split; [apply m_reorder_inv, Ha | exact Hb].
  - cbn. split; [exact Ha | apply m_reorder_inv, Hb].
  - cbn. split; [apply inv_m_adds, Ha | exact Hb].
  - cbn. split; [exact Ha | apply inv_m_adds, Hb].
Qed.
Lemma m2_run_inv ops : forall s, inv (fst s) /\ inv (snd s) -> inv (fst (m2_run s ops)) /\ inv (snd (m2_run s ops)).
Proof. induction ops as [|x ops IH]; cbn [m2_run]; intros s H; [exact H|]. apply IH, m2_step_inv, H. Qed.
