(* C39 -- oset: order statements for pop and the in-place operators *)
From Coq Require Import List ZArith Bool Lia.
Import ListNotations.
Require Import V.C39.Model V.C39.Proofs V.C39.Proofs2 V.C39.Proofs3.
Open Scope Z_scope.

Lemma remove1_app_last k s : ~ In k s -> remove1 k (s ++ [k]) = s.
Proof.
  induction s as [|y s IH]; cbn; intros H; [rewrite Z.eqb_refl; reflexivity|].
  destruct (k =? y) eqn:E; [apply Z.eqb_eq in E; subst; tauto|]. f_equal. apply IH. tauto.
Qed.

(* pop() removes and returns the element added last, pop(last=False) the earliest one *)
Lemma s_pop_last s k : ~ In k s -> s_step (s ++ [k]) (SPop true) = (s, TInt k).
Proof.
  intros H. cbn [s_step]. rewrite rev_unit. unfold s_discard. rewrite kmem_app. cbn [kmem existsb].
  rewrite Z.eqb_refl, orb_true_r. rewrite remove1_app_last by exact H. reflexivity.
Qed.
Lemma s_pop_first s k : s_step (k :: s) (SPop false) = (s, TInt k).
Proof. cbn [s_step]. unfold s_discard, kmem. cbn [existsb remove1]. rewrite Z.eqb_refl. reflexivity. Qed.
Lemma s_pop_empty b : s_step [] (SPop b) = ([], TErr KeyError).
Proof. destruct b; reflexivity. Qed.

Lemma s_discard_filter k s : NoDup s -> s_discard k s = filter (fun x => negb (x =? k)) s.
Proof.
  intros H. unfold s_discard. destruct (kmem k s) eqn:E; [apply remove1_filter; exact H|].
  symmetry. apply filter_absent. apply kmem_false. exact E.
Qed.

(* a -= b keeps a's order *)
Lemma s_isub_order b : forall a, NoDup a -> s_isub a b = filter (fun x => negb (kmem x b)) a.
Proof.
  unfold s_isub. induction b as [|k b IH]; cbn [fold_left]; intros a H.
  - symmetry. induction a; cbn; [reflexivity|f_equal; inversion H; auto].
  - rewrite IH by (apply s_discard_NoDup; exact H). rewrite s_discard_filter by exact H. apply filter_filter_keys.
Qed.

(* a &= b keeps a's order (unlike a & b, which follows b) *)
Lemma s_iand_order a b : NoDup a -> s_iand a b = filter (fun x => kmem x b) a.
Proof.
  intros H. unfold s_iand. fold (s_isub a (s_sub a b)). rewrite s_isub_order by exact H.
  apply filter_ext_in. intros x Hx. rewrite s_sub_order by exact H.
  apply eq_true_iff_eq. rewrite negb_true_iff, kmem_false, filter_In, negb_true_iff. split.
  - intros Hn. destruct (kmem x b) eqn:E; [reflexivity|]. exfalso. apply Hn. split; [exact Hx|reflexivity].
  - intros E [_ E2]. congruence.
Qed.

(* a |= b appends b's new elements in b's order *)
Lemma s_adds_order b : forall a, NoDup b -> s_adds b a = a ++ filter (fun x => negb (kmem x a)) b.
Proof.
  induction b as [|y b IH]; cbn [s_adds fold_left filter]; intros a Hb; [rewrite app_nil_r; reflexivity|].
  inversion Hb as [|? ? Hy Hb']; subst. fold (s_adds b (s_add y a)). rewrite IH by exact Hb'.
  unfold s_add. destruct (kmem y a) eqn:E; cbn [negb]; [reflexivity|].
  rewrite <- app_assoc. cbn [app]. f_equal. f_equal. apply filter_ext_in. intros x Hx.
  rewrite kmem_app. cbn. rewrite orb_false_r. destruct (x =? y) eqn:Ex; [|rewrite orb_false_r; reflexivity].
  apply Z.eqb_eq in Ex. subst. tauto.
Qed.

Lemma oset_inplace_order_all a b : NoDup a -> NoDup b ->
  fst (s_step a (SIor b)) = a ++ filter (fun x => negb (kmem x a)) b /\
  fst (s_step a (SIsub b)) = filter (fun x => negb (kmem x b)) a /\
  fst (s_step a (SIand b)) = filter (fun x => kmem x b) a.
Proof.
  intros Ha Hb. cbn [s_step fst]. rewrite (s_of_id b Hb). split; [apply s_adds_order; exact Hb|].
  split; [apply s_isub_order; exact Ha | apply s_iand_order; exact Ha].
Qed.

Lemma oset_pop_order_all s k :
  (~ In k s -> s_step (s ++ [k]) (SPop true) = (s, TInt k)) /\ s_step (k :: s) (SPop false) = (s, TInt k) /\
  (forall b, s_step [] (SPop b) = ([], TErr KeyError)).
Proof. split; [apply s_pop_last|]. split; [apply s_pop_first | apply s_pop_empty]. Qed.
