From Coq Require Import List ZArith Bool Lia Permutation.
Import ListNotations.
Require Import V.C39.Model.
Open Scope Z_scope.

(* ------------------------------------------------------------ lists of keys *)
Lemma kmem_In k l : kmem k l = true <-> In k l.
Proof.
  unfold kmem. rewrite existsb_exists. split.
  - intros [y [Hy He]]. apply Z.eqb_eq in He. subst. exact Hy.
  - intros H. exists k. split; [exact H | apply Z.eqb_refl].
Qed.
Lemma kmem_false k l : kmem k l = false <-> ~ In k l.
Proof. rewrite <- kmem_In. destruct (kmem k l); split; congruence. Qed.
Lemma kmem_app k a b : kmem k (a ++ b) = kmem k a || kmem k b.
Proof. apply existsb_app. Qed.

Lemma remove1_In x k l : In x (remove1 k l) -> In x l.
Proof.
  induction l as [|y l IH]; cbn; [tauto|]. destruct (k =? y); cbn; intuition.
Qed.
Lemma remove1_In_neq x k l : In x l -> x <> k -> In x (remove1 k l).
Proof.
  induction l as [|y l IH]; cbn; [tauto|]. intros [->|H] Hn.
  - destruct (k =? x) eqn:E; [apply Z.eqb_eq in E; congruence | left; reflexivity].
  - destruct (k =? y); [exact H | right; auto].
Qed.
Lemma remove1_NoDup k l : NoDup l -> NoDup (remove1 k l).
Proof.
  induction 1 as [|y l Hy Hn IH]; cbn; [constructor|].
  destruct (k =? y); [exact Hn|]. constructor; [|exact IH]. intro H. apply Hy. eapply remove1_In; eauto.
Qed.
Lemma remove1_notin k l : NoDup l -> ~ In k (remove1 k l).
Proof.
  induction 1 as [|y l Hy Hn IH]; cbn; [tauto|].
  destruct (k =? y) eqn:E.
  - apply Z.eqb_eq in E. subst. exact Hy.
  - apply Z.eqb_neq in E. intros [H|H]; [congruence | tauto].
Qed.
Lemma remove1_absent k l : ~ In k l -> remove1 k l = l.
Proof.
  induction l as [|y l IH]; cbn; [reflexivity|]. intros H.
  destruct (k =? y) eqn:E; [apply Z.eqb_eq in E; subst; tauto|]. f_equal. apply IH. tauto.
Qed.
Lemma kmem_remove1 x k l : NoDup l -> kmem x (remove1 k l) = kmem x l && negb (x =? k).
Proof.
  intros Hn. apply eq_true_iff_eq. rewrite andb_true_iff, negb_true_iff, !kmem_In, Z.eqb_neq. split.
  - intros H. split; [eapply remove1_In; eauto|]. intros ->. eapply remove1_notin; eauto.
  - intros [H1 H2]. apply remove1_In_neq; auto.
Qed.

Lemma NoDup_app_single (l : list Z) k : NoDup l -> ~ In k l -> NoDup (l ++ [k]).
Proof.
  intros Hn Hk. induction Hn as [|y l Hy Hn IH]; cbn; [constructor; [tauto|constructor]|].
  constructor.
  - rewrite in_app_iff. cbn. intros [H|[H|[]]]; [tauto|]. subst. apply Hk. left. reflexivity.
  - apply IH. intro H. apply Hk. right. exact H.
Qed.

Lemma list_insert_In {A} i (x y : A) l : In y (list_insert i x l) <-> y = x \/ In y l.
Proof.
  unfold list_insert. set (n := norm_index i (length l)).
  rewrite in_app_iff. cbn. rewrite <- (firstn_skipn n l) at 3. rewrite in_app_iff. intuition.
Qed.
Lemma list_insert_NoDup i (x : Z) l : NoDup l -> ~ In x l -> NoDup (list_insert i x l).
Proof.
  unfold list_insert. set (n := norm_index i (length l)). intros Hn Hx.
  rewrite <- (firstn_skipn n l) in Hn, Hx.
  apply NoDup_Add with (a := x) (l := firstn n l ++ skipn n l); [|split; assumption].
  apply Add_app.
Qed.

(* ------------------------------------------------------------ association lists *)
Section AL.
  Context {V : Type}.
  Implicit Types d : list (Z * V).

  Lemma dget_ddel k k' d : dget k' (ddel k d) = if k' =? k then None else dget k' d.
  Proof.
    unfold ddel. induction d as [|[a v] d IH]; cbn [filter dget fst]; [destruct (k' =? k); reflexivity|].
    destruct (a =? k) eqn:E; cbn [negb dget].
    - apply Z.eqb_eq in E. subst a. rewrite IH. destruct (k' =? k); reflexivity.
    - rewrite IH. destruct (k' =? a) eqn:E2; [|reflexivity].
      apply Z.eqb_eq in E2. subst a. rewrite E. reflexivity.
  Qed.
  Lemma dget_dset k v k' d : dget k' (dset k v d) = if k' =? k then Some v else dget k' d.
  Proof. unfold dset. cbn. rewrite dget_ddel. destruct (k' =? k); reflexivity. Qed.
  Lemma dmem_dset k v k' d : dmem k' (dset k v d) = (k' =? k) || dmem k' d.
  Proof. unfold dmem. rewrite dget_dset. destruct (k' =? k); reflexivity. Qed.
  Lemma dmem_ddel k k' d : dmem k' (ddel k d) = negb (k' =? k) && dmem k' d.
  Proof. unfold dmem. rewrite dget_ddel. destruct (k' =? k); reflexivity. Qed.
  Lemma dmem_In k d : dmem k d = true <-> In k (map fst d).
  Proof.
    unfold dmem. induction d as [|[a v] d IH]; cbn; [split; [discriminate|tauto]|].
    destruct (k =? a) eqn:E.
    - apply Z.eqb_eq in E. subst. split; auto.
    - apply Z.eqb_neq in E. rewrite IH. split; [auto|]. intros [H|H]; [congruence|exact H].
  Qed.
  Lemma ddel_keys_In x k d : In x (map fst (ddel k d)) <-> In x (map fst d) /\ x <> k.
  Proof.
    rewrite <- !dmem_In, dmem_ddel, andb_true_iff, negb_true_iff, Z.eqb_neq. tauto.
  Qed.
  Lemma ddel_NoDup k d : NoDup (map fst d) -> NoDup (map fst (ddel k d)).
  Proof.
    induction d as [|[a v] d IH]; cbn [map fst]; [constructor|]. intros H. inversion H; subst.
    change (ddel k ((a, v) :: d)) with (if negb (a =? k) then (a, v) :: ddel k d else ddel k d).
    destruct (a =? k); cbn [negb map fst]; [auto|]. constructor; [|auto].
    rewrite ddel_keys_In. tauto.
  Qed.
  Lemma dset_NoDup k v d : NoDup (map fst d) -> NoDup (map fst (dset k v d)).
  Proof.
    intros H. unfold dset. cbn. constructor; [|apply ddel_NoDup; exact H].
    rewrite ddel_keys_In. tauto.
  Qed.

  (* ---------------------------------------------------------- the class invariant *)
  Definition inv (o : od V) : Prop :=
    NoDup (keys o) /\ NoDup (map fst (dict o)) /\ forall k, kmem k (keys o) = dmem k (dict o).

  Lemma inv_empty : inv empty.
  Proof. repeat split; cbn; try constructor. Qed.

  Lemma inv_setitem k v o : inv o -> inv (setitem k v o).
  Proof.
    intros (Hk & Hd & He). unfold setitem. repeat split; cbn [keys dict].
    - destruct (kmem k (keys o)) eqn:E; [exact Hk|]. apply NoDup_app_single; [exact Hk|].
      apply kmem_false. exact E.
    - apply dset_NoDup. exact Hd.
    - intros x. rewrite dmem_dset, <- He. destruct (kmem k (keys o)) eqn:E.
      + destruct (x =? k) eqn:Ex; [|reflexivity]. apply Z.eqb_eq in Ex. subst. exact E.
      + rewrite kmem_app. cbn. rewrite orb_false_r. apply orb_comm.
  Qed.
  Lemma inv_setitems ps : forall o, inv o -> inv (setitems ps o).
  Proof.
    induction ps as [|p ps IH]; cbn; intros o H; [exact H|]. apply IH. apply inv_setitem. exact H.
  Qed.
  Lemma inv_init ps : inv (init ps).
  Proof. apply inv_setitems. apply inv_empty. Qed.

  Lemma inv_remove k o : inv o -> inv (mk (remove1 k (keys o)) (ddel k (dict o))).
  Proof.
    intros (Hk & Hd & He). repeat split; cbn [keys dict].
    - apply remove1_NoDup. exact Hk.
    - apply ddel_NoDup. exact Hd.
    - intros x. rewrite kmem_remove1, dmem_ddel, He by exact Hk. apply andb_comm.
  Qed.
  Lemma inv_delitem k o : inv o -> inv (fst (delitem k o)) /\ snd (delitem k o) <> Some ValueError.
  Proof.
    intros H. unfold delitem. destruct (dmem k (dict o)) eqn:E; cbn; [|split; [exact H|discriminate]].
    destruct H as (Hk & Hd & He). rewrite He, E. cbn. split; [|discriminate].
    apply inv_remove. repeat split; assumption.
  Qed.
  Lemma inv_pop k dflt o : inv o -> inv (fst (pop k dflt o)).
  Proof.
    intros H. unfold pop. destruct (dget k (dict o)) eqn:E; [|destruct dflt; exact H]. cbn.
    destruct H as (Hk & Hd & He). rewrite He. unfold dmem. rewrite E.
    apply inv_remove. repeat split; assumption.
  Qed.
  Lemma inv_popitem last o : inv o -> inv (fst (popitem last o)).
  Proof.
    intros H. unfold popitem. destruct (if last then rev (keys o) else keys o) as [|k ?]; [exact H|].
    destruct (dget k (dict o)); [|exact H].
    pose proof (inv_delitem k o H) as [H1 _]. destruct (delitem k o) as [o' [e|]]; exact H1.
  Qed.
  Lemma inv_insert i k v o : inv o -> inv (fst (insert i k v o)).
  Proof.
    intros H. unfold insert. destruct (dmem k (dict o)) eqn:E; [exact H|]. cbn.
    destruct H as (Hk & Hd & He). repeat split; cbn [keys dict].
    - apply list_insert_NoDup; [exact Hk|]. apply kmem_false. rewrite He. exact E.
    - apply dset_NoDup. exact Hd.
    - intros x. rewrite dmem_dset, <- He. apply eq_true_iff_eq.
      rewrite orb_true_iff, !kmem_In, list_insert_In, Z.eqb_eq. tauto.
  Qed.
  Lemma inv_append k v o : inv o -> inv (fst (append k v o)).
  Proof.
    intros H. unfold append. destruct (dmem k (dict o)); [exact H|]. apply inv_setitem. exact H.
  Qed.
  Lemma setdefault_eq k (dv : V) o : inv o ->
    fst (setdefault k dv o) = if dmem k (dict o) then o else setitem k dv o.
  Proof.
    intros (Hk & Hd & He). unfold setdefault, setitem, dmem. rewrite He. unfold dmem.
    destruct (dget k (dict o)); cbn; [destruct o; reflexivity | reflexivity].
  Qed.
  Lemma inv_setdefault k (dv : V) o : inv o -> inv (fst (setdefault k dv o)).
  Proof.
    intros H. rewrite setdefault_eq by exact H. destruct (dmem k (dict o)); [exact H|].
    apply inv_setitem. exact H.
  Qed.
  Lemma inv_create ps : forall o, inv o -> inv (create ps o).
  Proof.
    unfold create. induction ps as [|p ps IH]; cbn; intros o H; [exact H|]. apply IH.
    destruct (kmem (fst p) (keys o)); [exact H | apply inv_setitem; exact H].
  Qed.

  (* reorder = for each key of other: rebinding in the dict and move to the end of _keys *)
  Lemma inv_moveend k v o : inv o -> inv (mk (move_end k (keys o)) (dset k v (dict o))).
  Proof.
    intros (Hk & Hd & He). unfold move_end. repeat split; cbn [keys dict].
    - destruct (kmem k (keys o)) eqn:E.
      + apply NoDup_app_single; [apply remove1_NoDup; exact Hk | apply remove1_notin; exact Hk].
      + apply NoDup_app_single; [exact Hk | apply kmem_false; exact E].
    - apply dset_NoDup. exact Hd.
    - intros x. rewrite dmem_dset, <- He, kmem_app. cbn. rewrite orb_false_r.
      destruct (kmem k (keys o)) eqn:E.
      + rewrite kmem_remove1 by exact Hk. destruct (x =? k) eqn:Ex; cbn; [apply orb_true_r|].
        rewrite andb_true_r, orb_false_r. reflexivity.
      + apply orb_comm.
  Qed.
End AL.

(* reorder: the two folds run over the same key set (other's invariant) *)
Lemma reorder_dom {V} (other o : od V) : inv other -> inv o ->
  NoDup (keys (reorder other o)) /\ NoDup (map fst (dict (reorder other o))) /\
  forall x, kmem x (keys (reorder other o)) = kmem x (keys o) || kmem x (keys other).
Proof.
  intros Hoth Ho. unfold reorder. cbn.
  assert (A : forall ks l, NoDup l -> NoDup (fold_left (fun ks k => move_end k ks) ks l) /\
             forall x, kmem x (fold_left (fun ks k => move_end k ks) ks l) = kmem x l || kmem x ks).
  { induction ks as [|k ks IH]; cbn [fold_left]; intros l Hl;
      [split; [exact Hl|intros; cbn; rewrite orb_false_r; reflexivity]|].
    assert (Hm : NoDup (move_end k l) /\ forall x, kmem x (move_end k l) = kmem x l || (x =? k)).
    { unfold move_end. destruct (kmem k l) eqn:E; split.
      - apply NoDup_app_single; [apply remove1_NoDup; exact Hl | apply remove1_notin; exact Hl].
      - intros x. rewrite kmem_app, kmem_remove1 by exact Hl. cbn. rewrite orb_false_r.
        destruct (x =? k) eqn:Ex; cbn; [rewrite !orb_true_r; reflexivity|].
        rewrite andb_true_r. reflexivity.
      - apply NoDup_app_single; [exact Hl | apply kmem_false; exact E].
      - intros x. rewrite kmem_app. cbn. rewrite orb_false_r. reflexivity. }
    destruct Hm as [Hm1 Hm2]. destruct (IH _ Hm1) as [I1 I2]. split; [exact I1|].
    intros x. rewrite I2, Hm2. unfold kmem. cbn [existsb]. rewrite <- orb_assoc. reflexivity. }
  destruct Ho as (Hk & Hd & He). destruct (A (keys other) (keys o) Hk) as [A1 A2].
  split; [exact A1|]. split; [|exact A2].
  clear A A1 A2. revert Hd. generalize (dict o). induction (dict other) as [|p ps IH]; cbn; intros d Hd; [exact Hd|].
  apply IH. apply dset_NoDup. exact Hd.
Qed.

Lemma reorder_dict_dom {V} (ps d : list (Z * V)) x :
  dmem x (fold_left (fun d p => dset (fst p) (snd p) d) ps d) = dmem x d || dmem x ps.
Proof.
  revert d. induction ps as [|[k v] ps IH]; cbn; intros d; [rewrite orb_false_r; reflexivity|].
  rewrite IH, dmem_dset. unfold dmem at 4. cbn. destruct (x =? k) eqn:E.
  - rewrite orb_true_r. reflexivity.
  - cbn. reflexivity.
Qed.

Lemma inv_reorder {V} (other o : od V) : inv other -> inv o -> inv (reorder other o).
Proof.
  intros Hoth Ho. destruct (reorder_dom other o Hoth Ho) as (A & B & C).
  repeat split; [exact A | exact B |]. intros x. rewrite C.
  unfold reorder. cbn. rewrite reorder_dict_dom.
  destruct Ho as (_ & _ & He). destruct Hoth as (_ & _ & He'). rewrite He, He'. reflexivity.
Qed.

(* ------------------------------------------------------------ every odict op keeps the invariant *)
Lemma inv_lookups_init (fs : list Z) (d its : pairs) : lookups fs d = Some its -> inv (init its).
Proof. intros _. apply inv_init. Qed.

Lemma step_inv (o : zod) (x : op) : inv o -> inv (fst (step o x)).
Proof.
  intros H. destruct x; cbn [step fst]; try exact H.
  - apply inv_setitem, H.
  - pose proof (inv_delitem k o H) as [H1 _]. destruct (delitem k o); exact H1.
  - pose proof (inv_append k v o H). destruct (append k v o); exact H0.
  - apply inv_empty.
  - apply inv_create, H.
  - pose proof (inv_insert i k v o H). destruct (insert i k v o); exact H0.
  - pose proof (inv_pop k None o H). destruct (pop k None o); exact H0.
  - pose proof (inv_pop k (Some d) o H). destruct (pop k (Some d) o); exact H0.
  - pose proof (inv_popitem last o H). destruct (popitem last o) as [o' [[? ?]|?]]; exact H0.
  - apply inv_reorder; [apply inv_init | exact H].
  - pose proof (inv_setdefault k d o H). destruct (setdefault k d o); exact H0.
  - apply inv_setitems, H.
  - apply inv_setitems, H.
Qed.

Lemma run_inv ops : forall o : zod, inv o -> inv (run o ops).
Proof. induction ops as [|x ops IH]; cbn; intros o H; [exact H|]. apply IH, step_inv, H. Qed.

(* no reachable state ever raises the internal ValueError of _keys.remove *)
Lemma step_no_internal_error (o : zod) x : inv o -> snd (step o x) <> RErr ValueError.
Proof.
  intros H. destruct x; cbn [step snd]; try discriminate.
  - pose proof (inv_delitem k o H) as [_ H1]. destruct (delitem k o) as [o' [[]|]]; cbn in *; congruence.
  - destruct (dget k (dict o)); discriminate.
  - destruct (dget k (dict o)); discriminate.
  - destruct (append k v o) as [o' [[]|]] eqn:E; cbn; try discriminate.
    unfold append in E. destruct (dmem k (dict o)); inversion E.
  - destruct (sift fs o) as [c|[]] eqn:E; cbn; try discriminate.
    unfold sift in E. destruct fs; [destruct (lookups l (dict o))|]; inversion E.
  - destruct (insert i k v o) as [o' [[]|]] eqn:E; cbn; try discriminate.
    unfold insert in E. destruct (dmem k (dict o)); inversion E.
  - destruct (pop k None o) as [o' [v|[]]] eqn:E; try discriminate.
    unfold pop in E. destruct (dget k (dict o)); inversion E.
  - destruct (pop k (Some d) o) as [o' [v|[]]] eqn:E; try discriminate.
    unfold pop in E. destruct (dget k (dict o)); inversion E.
  - destruct (popitem last o) as [o' [[a b]|[]]] eqn:E; try discriminate.
    unfold popitem in E. destruct (if last then rev (keys o) else keys o); [inversion E|].
    destruct (dget z (dict o)); [|inversion E].
    pose proof (inv_delitem z o H) as [_ H1]. destruct (delitem z o) as [o2 [[]|]]; cbn in *; try congruence; inversion E.
  - destruct (setdefault k d o); discriminate.
Qed.

(* ------------------------------------------------------------ items, copy, pickle *)
Section IT.
  Context {V : Type}.
  Definition lk (d : list (Z * V)) (k : Z) : list (Z * V) :=
    match dget k d with Some v => [(k, v)] | None => [] end.
  Lemma items_eq (o : od V) : items o = flat_map (lk (dict o)) (keys o).
  Proof. reflexivity. Qed.

  Lemma flat_map_ext_In {A B} (f g : A -> list B) l :
    (forall a, In a l -> f a = g a) -> flat_map f l = flat_map g l.
  Proof.
    induction l as [|a l IH]; cbn; intros H; [reflexivity|].
    rewrite H by (left; reflexivity). f_equal. apply IH. intros; apply H; right; assumption.
  Qed.

  Lemma items_ext (o1 o2 : od V) :
    keys o1 = keys o2 -> (forall k, dget k (dict o1) = dget k (dict o2)) -> items o1 = items o2.
  Proof.
    intros Hk Hd. rewrite !items_eq, Hk. apply flat_map_ext_In. intros a _. unfold lk. rewrite Hd. reflexivity.
  Qed.

  Lemma items_keys (o : od V) : inv o -> map fst (items o) = keys o.
  Proof.
    intros (_ & _ & He). rewrite items_eq.
    assert (A : forall ks, (forall k, In k ks -> dmem k (dict o) = true) -> map fst (flat_map (lk (dict o)) ks) = ks).
    { induction ks as [|k ks IH]; cbn; intros H; [reflexivity|].
      rewrite map_app, IH by (intros; apply H; right; assumption).
      pose proof (H k (or_introl eq_refl)) as Hk. unfold dmem in Hk. unfold lk.
      destruct (dget k (dict o)); [reflexivity|discriminate]. }
    apply A. intros k Hk. rewrite <- He. apply kmem_In. exact Hk.
  Qed.

  Lemma dget_notin k (l : list (Z * V)) : ~ In k (map fst l) -> dget k l = None.
  Proof.
    intros H. destruct (dget k l) eqn:E; [|reflexivity]. exfalso. apply H. apply dmem_In.
    unfold dmem. rewrite E. reflexivity.
  Qed.

  Lemma dget_items (o : od V) k : inv o -> dget k (items o) = dget k (dict o).
  Proof.
    intros (Hn & _ & He). rewrite items_eq.
    assert (A : forall ks, NoDup ks -> dget k (flat_map (lk (dict o)) ks) = if kmem k ks then dget k (dict o) else None).
    { induction 1 as [|a ks Ha Hk IH]; [reflexivity|].
      cbn [flat_map]. unfold kmem. cbn [existsb]. fold (kmem k ks). unfold lk at 1.
      destruct (k =? a) eqn:E.
      - apply Z.eqb_eq in E. subst a. cbn [orb]. destruct (dget k (dict o)) eqn:G.
        + cbn. rewrite Z.eqb_refl. reflexivity.
        + cbn. rewrite IH. destruct (kmem k ks); reflexivity.
      - cbn [orb]. destruct (dget a (dict o)); cbn; [rewrite E|]; exact IH. }
    rewrite A by exact Hn. specialize (He k). unfold dmem in He. rewrite He.
    destruct (dget k (dict o)); reflexivity.
  Qed.

  Lemma items_NoDup (o : od V) : inv o -> NoDup (map fst (items o)).
  Proof. intros H. rewrite items_keys by exact H. apply H. Qed.

  (* binding fresh distinct keys appends them in order *)
  Lemma setitems_fresh (l : list (Z * V)) : forall o, NoDup (map fst l) ->
    (forall k, In k (map fst l) -> kmem k (keys o) = false) ->
    keys (setitems l o) = keys o ++ map fst l /\
    forall k, dget k (dict (setitems l o)) = match dget k l with Some v => Some v | None => dget k (dict o) end.
  Proof.
    induction l as [|[a v] l IH]; cbn [setitems fold_left map fst snd]; intros o Hn Hf.
    - split; [rewrite app_nil_r; reflexivity | reflexivity].
    - inversion Hn as [|? ? Ha Hl]; subst. fold (setitems l (setitem a v o)).
      assert (Hka : kmem a (keys o) = false) by (apply Hf; left; reflexivity).
      destruct (IH (setitem a v o) Hl) as [K D].
      { intros k Hk. unfold setitem. cbn [keys]. rewrite Hka, kmem_app, (Hf k) by (right; exact Hk).
        cbn. rewrite orb_false_r. apply Z.eqb_neq. intros ->. tauto. }
      split.
      + rewrite K. unfold setitem. cbn [keys]. rewrite Hka, <- app_assoc. reflexivity.
      + intros k. rewrite D. unfold setitem. cbn [dict dget]. rewrite dget_dset.
        destruct (k =? a) eqn:E; [|reflexivity]. apply Z.eqb_eq in E. subst.
        rewrite (dget_notin a l Ha). reflexivity.
  Qed.

  Lemma lk_self (l : list (Z * V)) : NoDup (map fst l) -> flat_map (lk l) (map fst l) = l.
  Proof.
    induction l as [|[a v] l IH]; [reflexivity|]. cbn [map fst]. intros Hn. inversion Hn; subst.
    cbn [flat_map]. unfold lk at 1. cbn [dget]. rewrite Z.eqb_refl. cbn [app]. f_equal.
    transitivity (flat_map (lk l) (map fst l)); [|apply IH; assumption].
    apply flat_map_ext_In. intros k Hk. unfold lk. cbn [dget].
    destruct (k =? a) eqn:E; [|reflexivity]. apply Z.eqb_eq in E. subst. tauto.
  Qed.

  Lemma init_alist (l : list (Z * V)) : NoDup (map fst l) -> keys (init l) = map fst l /\ items (init l) = l.
  Proof.
    intros Hn. destruct (setitems_fresh l empty Hn) as [K D]; [reflexivity|]. unfold init.
    split; [exact K|]. rewrite items_eq, K. cbn [keys empty app].
    rewrite <- (lk_self l Hn) at 3. apply flat_map_ext_In. intros k _. unfold lk. rewrite D. cbn.
    destruct (dget k l); reflexivity.
  Qed.

  (* copy() gives an equal, separately built odict *)
  Lemma copy_equal (o : od V) : inv o -> keys (copy o) = keys o /\ items (copy o) = items o /\ inv (copy o).
  Proof.
    intros H. unfold copy. destruct (init_alist (items o) (items_NoDup o H)) as [K I].
    rewrite items_keys in K by exact H. repeat split; try assumption; apply inv_init.
  Qed.

  (* re-binding what is already bound changes nothing observable *)
  Lemma setitems_same (l : list (Z * V)) : forall o, inv o ->
    (forall k v, In (k, v) l -> dget k (dict o) = Some v) ->
    keys (setitems l o) = keys o /\ forall k, dget k (dict (setitems l o)) = dget k (dict o).
  Proof.
    induction l as [|[a v] l IH]; cbn [setitems fold_left fst snd]; intros o Ho Hs; [split; reflexivity|].
    fold (setitems l (setitem a v o)).
    assert (Ha : dget a (dict o) = Some v) by (apply Hs; left; reflexivity).
    assert (Hk : kmem a (keys o) = true).
    { destruct Ho as (_ & _ & He). rewrite He. unfold dmem. rewrite Ha. reflexivity. }
    assert (Hd : forall k, dget k (dict (setitem a v o)) = dget k (dict o)).
    { intros k. unfold setitem. cbn [dict]. rewrite dget_dset. destruct (k =? a) eqn:E; [|reflexivity].
      apply Z.eqb_eq in E. subst. symmetry. exact Ha. }
    destruct (IH (setitem a v o)) as [K D].
    - apply inv_setitem, Ho.
    - intros k v' Hin. rewrite Hd. apply Hs. right. exact Hin.
    - split.
      + rewrite K. unfold setitem. cbn [keys]. rewrite Hk. reflexivity.
      + intros k. rewrite D. apply Hd.
  Qed.

  Lemma In_items_dget (o : od V) k v : inv o -> In (k, v) (items o) -> dget k (dict o) = Some v.
  Proof.
    intros H Hin. rewrite items_eq in Hin. apply in_flat_map in Hin. destruct Hin as [a [_ Ha]].
    unfold lk in Ha. destruct (dget a (dict o)) eqn:E; [|destruct Ha].
    destruct Ha as [Ha|[]]. inversion Ha; subst. exact E.
  Qed.

  (* pickle / copy.copy / copy.deepcopy round trip, including the empty case where
     __setstate__ is skipped *)
  Lemma pickle_roundtrip (o : od V) : inv o -> keys (pickle o) = keys o /\ items (pickle o) = items o.
  Proof.
    intros H. unfold pickle. destruct (copy_equal o H) as (K & I & Hc). unfold copy, init in K, I, Hc.
    destruct (items o) as [|p its] eqn:E; [split; assumption|]. rewrite <- E in *.
    destruct (setitems_same (items o) (setitems (items o) empty) Hc) as [K2 D2].
    - intros k v Hin. rewrite <- I in Hin. apply In_items_dget; assumption.
    - split; [rewrite K2; exact K|]. transitivity (items (setitems (items o) empty)); [|exact I].
      apply items_ext; [exact K2 | exact D2].
  Qed.
End IT.
