(* C39 -- per-operation simulation: the class representation (keys list + dict) refines the abstract
   insertion-ordered dictionary (one association list) for every modelled odict operation. *)
From Coq Require Import List ZArith Bool Lia Permutation.
Import ListNotations.
Require Import V.C39.Model V.C39.Proofs V.C39.Proofs2.
Open Scope Z_scope.

Definition gv (d : pairs) (k : Z) : Z := match dget k d with Some v => v | None => 0 end.
Definition kv (d : pairs) (k : Z) : Z * Z := (k, gv d k).

Lemma flat_map_single {A B} (f : A -> list B) (g : A -> B) l :
  (forall a, In a l -> f a = [g a]) -> flat_map f l = map g l.
Proof.
  induction l as [|a l IH]; cbn; intros H; [reflexivity|]. rewrite (H a) by (left; reflexivity).
  cbn. f_equal. apply IH. intros; apply H; right; assumption.
Qed.

Lemma items_map (o : zod) : inv o -> items o = map (kv (dict o)) (keys o).
Proof.
  intros (_ & _ & He). unfold items. apply flat_map_single. intros k Hk.
  apply kmem_In in Hk. rewrite He in Hk. unfold dmem in Hk. unfold kv, gv.
  destruct (dget k (dict o)); [reflexivity|discriminate].
Qed.

Lemma dmem_items (o : zod) k : inv o -> dmem k (items o) = dmem k (dict o).
Proof. intros H. unfold dmem. rewrite dget_items by exact H. reflexivity. Qed.
Lemma dmem_kmem (o : zod) k : inv o -> dmem k (dict o) = kmem k (keys o).
Proof. intros (_ & _ & He). symmetry. apply He. Qed.

Lemma gv_dset k v d k' : gv (dset k v d) k' = if k' =? k then v else gv d k'.
Proof. unfold gv. rewrite dget_dset. destruct (k' =? k); reflexivity. Qed.
Lemma gv_ddel k d k' : k' <> k -> gv (ddel k d) k' = gv d k'.
Proof. intros H. unfold gv. rewrite dget_ddel. apply Z.eqb_neq in H. rewrite H. reflexivity. Qed.

Lemma sim_setitem (o : zod) k v : inv o -> items (setitem k v o) = a_set k v (items o).
Proof.
  intros H. rewrite (items_map _ (inv_setitem k v o H)), (items_map o H).
  unfold a_set. rewrite <- (items_map o H), dmem_items, dmem_kmem by exact H. rewrite (items_map o H).
  unfold setitem. cbn [keys dict]. destruct (kmem k (keys o)) eqn:E.
  - rewrite map_map. apply map_ext. intros k'. unfold kv. cbn [fst]. rewrite gv_dset.
    destruct (k' =? k) eqn:E2; [|reflexivity]. apply Z.eqb_eq in E2. subst. reflexivity.
  - rewrite map_app. cbn [map]. f_equal.
    + apply map_ext_in. intros k' Hk. unfold kv. rewrite gv_dset.
      destruct (k' =? k) eqn:E2; [|reflexivity]. apply Z.eqb_eq in E2. subst.
      apply kmem_false in E. tauto.
    + unfold kv. rewrite gv_dset, Z.eqb_refl. reflexivity.
Qed.

Lemma sim_setitems ps : forall (o : zod), inv o -> items (setitems ps o) = a_sets ps (items o).
Proof.
  induction ps as [|p ps IH]; cbn [setitems a_sets fold_left]; intros o H; [reflexivity|].
  fold (setitems ps (setitem (fst p) (snd p) o)). fold (a_sets ps (a_set (fst p) (snd p) (items o))).
  rewrite IH by (apply inv_setitem; exact H). rewrite sim_setitem by exact H. reflexivity.
Qed.

Lemma filter_map_comm {A B} (p : B -> bool) (f : A -> B) l : filter p (map f l) = map f (filter (fun x => p (f x)) l).
Proof. induction l as [|a l IH]; cbn; [reflexivity|]. destruct (p (f a)); cbn; rewrite IH; reflexivity. Qed.

Lemma filter_absent k l : ~ In k l -> filter (fun x => negb (x =? k)) l = l.
Proof.
  induction l as [|z l IH]; cbn; intros H; [reflexivity|].
  destruct (z =? k) eqn:E; [apply Z.eqb_eq in E; subst; tauto|]. cbn. f_equal. apply IH. tauto.
Qed.
Lemma remove1_filter k l : NoDup l -> remove1 k l = filter (fun x => negb (x =? k)) l.
Proof.
  induction 1 as [|y l Hy Hn IH]; cbn; [reflexivity|]. rewrite (Z.eqb_sym y k).
  destruct (k =? y) eqn:E; cbn.
  - apply Z.eqb_eq in E. subst. symmetry. apply filter_absent. exact Hy.
  - f_equal. exact IH.
Qed.

Lemma sim_remove (o : zod) k : inv o ->
  items (mk (remove1 k (keys o)) (ddel k (dict o))) = ddel k (items o).
Proof.
  intros H. rewrite (items_map _ (inv_remove k o H)), (items_map o H). cbn [keys dict].
  unfold ddel at 2. rewrite filter_map_comm. cbn [fst kv]. rewrite remove1_filter by apply H.
  apply map_ext_in. intros k' Hk. apply filter_In in Hk. destruct Hk as [_ Hk].
  apply negb_true_iff, Z.eqb_neq in Hk. unfold kv. rewrite gv_ddel by exact Hk. reflexivity.
Qed.

Lemma length_dict (o : zod) : inv o -> length (dict o) = length (items o).
Proof.
  intros H. rewrite (items_map o H), map_length. destruct H as (Hk & Hd & He).
  rewrite <- (map_length fst (dict o)). apply Permutation_length. apply NoDup_Permutation; try assumption.
  intros x. rewrite <- dmem_In, <- kmem_In, He. tauto.
Qed.

Lemma robj_sim (c o : zod) : inv c -> items c = items o -> inv o -> robj c = a_robj (items o).
Proof.
  intros Hc E Ho. unfold robj, a_robj. rewrite <- E. rewrite (items_keys c Hc). reflexivity.
Qed.

Lemma lookups_items (o : zod) fs : inv o -> lookups fs (items o) = lookups fs (dict o).
Proof.
  intros H. induction fs as [|k fs IH]; cbn; [reflexivity|]. rewrite dget_items by exact H.
  rewrite IH. reflexivity.
Qed.

Lemma sim_create ps : forall (o : zod), inv o ->
  items (create ps o) = fold_left (fun l p => if dmem (fst p) l then l else l ++ [p]) ps (items o).
Proof.
  unfold create. induction ps as [|p ps IH]; cbn [fold_left]; intros o H; [reflexivity|].
  rewrite dmem_items, dmem_kmem by exact H. destruct (kmem (fst p) (keys o)) eqn:E.
  - apply IH. exact H.
  - rewrite IH by (apply inv_setitem; exact H). rewrite sim_setitem by exact H.
    unfold a_set. rewrite dmem_items, dmem_kmem, E by exact H. destruct p; reflexivity.
Qed.

Lemma in_firstn' {A} n (l : list A) x : In x (firstn n l) -> In x l.
Proof. intros H. rewrite <- (firstn_skipn n l). apply in_or_app. left. exact H. Qed.
Lemma in_skipn' {A} n (l : list A) x : In x (skipn n l) -> In x l.
Proof. intros H. rewrite <- (firstn_skipn n l). apply in_or_app. right. exact H. Qed.

Lemma sim_insert (o : zod) i k v : inv o -> dmem k (dict o) = false ->
  items (mk (list_insert i k (keys o)) (dset k v (dict o))) = list_insert i (k, v) (items o).
Proof.
  intros H E. pose proof (inv_insert i k v o H) as Hi. unfold insert in Hi. rewrite E in Hi. cbn [fst] in Hi.
  rewrite (items_map _ Hi), (items_map o H). cbn [keys dict]. unfold list_insert. rewrite map_length.
  set (n := norm_index i (length (keys o))). rewrite map_app. cbn [map].
  assert (Hk : ~ In k (keys o)) by (apply kmem_false; rewrite <- dmem_kmem by exact H; exact E).
  assert (X : forall l, (forall x, In x l -> In x (keys o)) -> map (kv (dset k v (dict o))) l = map (kv (dict o)) l).
  { intros l Hl. apply map_ext_in. intros k' Hk'. unfold kv. rewrite gv_dset.
    destruct (k' =? k) eqn:E2; [|reflexivity]. apply Z.eqb_eq in E2. subst. exfalso. apply Hk, Hl, Hk'. }
  rewrite X by (intros x Hx; eapply in_firstn'; exact Hx).
  rewrite X by (intros x Hx; eapply in_skipn'; exact Hx).
  rewrite firstn_map, skipn_map. unfold kv at 2. rewrite gv_dset, Z.eqb_refl. reflexivity.
Qed.

Lemma hd_rev_items (o : zod) (last : bool) : inv o ->
  (if last then rev (items o) else items o) = map (kv (dict o)) (if last then rev (keys o) else keys o).
Proof. intros H. rewrite (items_map o H). destruct last; [rewrite map_rev|]; reflexivity. Qed.

(* ---- reorder closed forms *)
Lemma move_end_filter k ks : NoDup ks -> move_end k ks = filter (fun x => negb (x =? k)) ks ++ [k].
Proof.
  intros Hn. unfold move_end. destruct (kmem k ks) eqn:E; [rewrite remove1_filter by exact Hn; reflexivity|].
  f_equal. rewrite <- remove1_filter by exact Hn. symmetry. apply remove1_absent. apply kmem_false. exact E.
Qed.

Lemma filter_filter_keys k ks2 ks :
  filter (fun x => negb (kmem x ks2)) (filter (fun x => negb (x =? k)) ks) = filter (fun x => negb (kmem x (k :: ks2))) ks.
Proof.
  induction ks as [|y ks IH]; [reflexivity|]. cbn [filter].
  replace (kmem y (k :: ks2)) with ((y =? k) || kmem y ks2) by reflexivity.
  destruct (y =? k); cbn [negb orb filter]; [exact IH|].
  destruct (kmem y ks2); cbn [negb]; [exact IH | f_equal; exact IH].
Qed.
Lemma filter_filter_pairs (q : Z * Z) (ks2 : list Z) (l : pairs) :
  filter (fun p => negb (kmem (fst p) ks2)) (filter (fun p => negb (fst p =? fst q)) l)
  = filter (fun p => negb (kmem (fst p) (fst q :: ks2))) l.
Proof.
  induction l as [|y l IH]; [reflexivity|]. cbn [filter].
  replace (kmem (fst y) (fst q :: ks2)) with ((fst y =? fst q) || kmem (fst y) ks2) by reflexivity.
  destruct (fst y =? fst q); cbn [negb orb filter]; [exact IH|].
  destruct (kmem (fst y) ks2); cbn [negb]; [exact IH | f_equal; exact IH].
Qed.

Lemma keys_reorder ks2 : forall ks, NoDup ks2 -> NoDup ks ->
  fold_left (fun ks k => move_end k ks) ks2 ks = filter (fun x => negb (kmem x ks2)) ks ++ ks2.
Proof.
  induction ks2 as [|k ks2 IH]; cbn [fold_left]; intros ks H2 Hn.
  - rewrite app_nil_r. symmetry. rewrite <- (filter_ext (fun _ => true)) by reflexivity.
    induction ks; cbn; [reflexivity|f_equal; inversion Hn; auto].
  - inversion H2 as [|? ? Hk H2']; subst. rewrite move_end_filter by exact Hn.
    rewrite IH; [|exact H2'|].
    + rewrite filter_app. cbn [filter]. assert (Ek : kmem k ks2 = false) by (apply kmem_false; exact Hk).
      rewrite Ek. cbn [negb]. rewrite <- app_assoc. cbn [app]. f_equal. apply filter_filter_keys.
    + apply NoDup_app_single; [apply filter_NoDup; exact Hn|]. rewrite filter_In, negb_true_iff, Z.eqb_neq. tauto.
Qed.

Lemma a_reorder its : forall (l : pairs), NoDup (map fst its) ->
  fold_left (fun l p => a_moveend p l) its l = filter (fun p => negb (kmem (fst p) (map fst its))) l ++ its.
Proof.
  induction its as [|q its IH]; cbn [fold_left map]; intros l Hn.
  - rewrite app_nil_r. symmetry. induction l; cbn; [reflexivity|f_equal; assumption].
  - inversion Hn as [|? ? Hk Hn']; subst. rewrite IH by exact Hn'. unfold a_moveend, ddel.
    rewrite filter_app. cbn [filter]. assert (Ek : kmem (fst q) (map fst its) = false) by (apply kmem_false; exact Hk).
    rewrite Ek. cbn [negb]. rewrite <- app_assoc. cbn [app]. f_equal. apply filter_filter_pairs.
Qed.

Lemma dget_fold_dset (ps : pairs) : forall d k, NoDup (map fst ps) ->
  dget k (fold_left (fun d p => dset (fst p) (snd p) d) ps d) = match dget k ps with Some v => Some v | None => dget k d end.
Proof.
  induction ps as [|[a v] ps IH]; cbn [fold_left map fst snd]; intros d k Hn; [reflexivity|].
  inversion Hn; subst. rewrite IH by assumption. cbn [dget]. rewrite dget_dset.
  destruct (k =? a) eqn:E; [|reflexivity]. apply Z.eqb_eq in E. subst.
  rewrite (dget_notin a ps) by assumption. reflexivity.
Qed.

Lemma sim_reorder (other o : zod) : inv other -> inv o ->
  items (reorder other o) = fold_left (fun l p => a_moveend p l) (items other) (items o).
Proof.
  intros Hot Ho. rewrite a_reorder by (apply items_NoDup; exact Hot).
  rewrite (items_map _ (inv_reorder other o Hot Ho)). unfold reorder. cbn [keys dict].
  rewrite keys_reorder by (try apply Hot; apply Ho). rewrite map_app. rewrite (items_keys other Hot).
  assert (G : forall k, gv (fold_left (fun d p => dset (fst p) (snd p) d) (dict other) (dict o)) k =
                        if kmem k (keys other) then gv (dict other) k else gv (dict o) k).
  { intros k. unfold gv. rewrite dget_fold_dset by apply Hot.
    destruct Hot as (_ & _ & He). rewrite He. unfold dmem. destruct (dget k (dict other)); reflexivity. }
  f_equal.
  - rewrite (items_map o Ho), filter_map_comm. cbn [fst kv]. apply map_ext_in. intros k Hk.
    apply filter_In in Hk. destruct Hk as [_ Hk]. apply negb_true_iff in Hk. unfold kv. rewrite G, Hk. reflexivity.
  - rewrite (items_map other Hot). apply map_ext_in. intros k Hk. apply kmem_In in Hk. unfold kv. rewrite G, Hk. reflexivity.
Qed.

(* ------------------------------------------------------------ the simulation *)
Lemma init_sim (ps : pairs) : items (init ps) = a_sets ps [].
Proof. unfold init. rewrite sim_setitems by apply inv_empty. reflexivity. Qed.

Lemma robj_init (its : pairs) : robj (init its) = a_robj (a_sets its []).
Proof. unfold robj, a_robj. rewrite <- init_sim. rewrite (items_keys _ (inv_init its)). reflexivity. Qed.

Lemma step_sim (o : zod) (x : op) : inv o ->
  a_step (items o) x = (items (fst (step o x)), snd (step o x)).
Proof.
  intros H. pose proof (dmem_items o) as DI. pose proof (dmem_kmem o) as DK.
  destruct x; cbn [step a_step fst snd].
  - (* OSet *) rewrite sim_setitem by exact H. reflexivity.
  - (* ODel *) unfold delitem. rewrite DI by exact H. destruct (dmem k (dict o)) eqn:E; [|reflexivity].
    rewrite <- DK, E by exact H. cbn [fst snd oerr]. rewrite sim_remove by exact H. reflexivity.
  - (* OGet *) rewrite dget_items by exact H. reflexivity.
  - (* OGetD *) rewrite dget_items by exact H. reflexivity.
  - (* OHas *) rewrite DI by exact H. reflexivity.
  - (* OLen *) rewrite length_dict by exact H. reflexivity.
  - (* OKeys *) rewrite items_keys by exact H. reflexivity.
  - (* OValues *) reflexivity.
  - (* OItems *) reflexivity.
  - (* OAppend *) unfold append. rewrite DI by exact H. destruct (dmem k (dict o)) eqn:E; [reflexivity|].
    cbn [fst snd oerr]. rewrite sim_setitem by exact H. unfold a_set. rewrite DI, E by exact H. reflexivity.
  - (* OClear *) reflexivity.
  - (* OCopy *) destruct (copy_equal o H) as (_ & I & Hc). rewrite (robj_sim (copy o) o Hc I H). reflexivity.
  - (* OCreate *) rewrite sim_create by exact H. reflexivity.
  - (* OSift *) destruct fs as [fs|]; cbn [sift].
    + rewrite lookups_items by exact H. destruct (lookups fs (dict o)); [rewrite robj_init|]; reflexivity.
    + destruct (copy_equal o H) as (_ & I & Hc). rewrite (robj_sim (copy o) o Hc I H). reflexivity.
  - (* OInsert *) unfold insert. rewrite DI by exact H. destruct (dmem k (dict o)) eqn:E; [reflexivity|].
    cbn [fst snd oerr]. rewrite sim_insert by assumption. reflexivity.
  - (* OPop *) unfold pop. rewrite dget_items by exact H. destruct (dget k (dict o)) eqn:E; [|reflexivity].
    assert (M : kmem k (keys o) = true) by (rewrite <- DK by exact H; unfold dmem; rewrite E; reflexivity).
    rewrite M. cbn [fst snd]. rewrite sim_remove by exact H. reflexivity.
  - (* OPopD *) unfold pop. rewrite dget_items by exact H. destruct (dget k (dict o)) eqn:E; [|reflexivity].
    assert (M : kmem k (keys o) = true) by (rewrite <- DK by exact H; unfold dmem; rewrite E; reflexivity).
    rewrite M. cbn [fst snd]. rewrite sim_remove by exact H. reflexivity.
  - (* OPopItem *) unfold popitem. rewrite (hd_rev_items o last H).
    destruct (if last then rev (keys o) else keys o) as [|k ks] eqn:E; [reflexivity|]. cbn [map kv].
    assert (Hin : In k (keys o)).
    { destruct last; [apply in_rev; rewrite E; left; reflexivity | rewrite E; left; reflexivity]. }
    assert (M : kmem k (keys o) = true) by (apply kmem_In; exact Hin).
    assert (D : dmem k (dict o) = true) by (rewrite DK by exact H; exact M).
    unfold gv. unfold dmem in D. destruct (dget k (dict o)) as [v|] eqn:G; [|discriminate].
    unfold delitem, dmem. rewrite G, M. cbn [fst snd]. rewrite sim_remove by exact H. reflexivity.
  - (* OReorder *) rewrite sim_reorder by (try apply inv_init; exact H). rewrite init_sim. reflexivity.
  - (* OReorderSelf *) reflexivity.
  - (* OSetDefault *) pose proof (setdefault_eq k d o H) as SE. rewrite dget_items by exact H.
    unfold setdefault in *. unfold dmem in SE. destruct (dget k (dict o)) as [v|] eqn:E; cbn [fst snd] in *.
    + rewrite SE. reflexivity.
    + rewrite SE, sim_setitem by exact H. unfold a_set. rewrite DI by exact H. unfold dmem. rewrite E. reflexivity.
  - (* OUpdate *) rewrite sim_setitems by exact H. reflexivity.
  - (* OPickle *) destruct (pickle_roundtrip o H) as [K I]. unfold robj, a_robj. rewrite K, I, items_keys by exact H. reflexivity.
  - (* OIor *) rewrite sim_setitems by exact H. reflexivity.
  - (* OReversed *) rewrite items_keys by exact H. reflexivity.
Qed.

(* whole op sequences: the real representation returns, step by step, exactly what the abstract
   insertion-ordered dictionary returns, and shows the same keys and items *)
Lemma trace_sim ops : forall (o : zod), inv o -> trace o ops = a_trace (items o) ops.
Proof.
  induction ops as [|x ops IH]; cbn [trace a_trace]; intros o H; [reflexivity|].
  rewrite (step_sim o x H). pose proof (step_inv o x H) as H'. destruct (step o x) as [o' r]. cbn [fst snd] in *.
  rewrite (items_keys o' H'), (IH o' H'). reflexivity.
Qed.

Lemma trace_init_sim ps ops : trace (init ps) ops = a_trace (a_sets ps []) ops.
Proof. rewrite (trace_sim ops (init ps) (inv_init ps)), init_sim. reflexivity. Qed.
