(* C39 -- lodict: over every op sequence _keys = dom dict (inv) and every key is lower case *)
From Coq Require Import List ZArith Bool Lia.
Import ListNotations.
Require Import V.C39.Model V.C39.Proofs V.C39.Proofs2.
Open Scope Z_scope.

Section LOINV.
  Variable lower : Z -> Z.
  Hypothesis lower_idem : forall k, lower (lower k) = lower k.

  Definition lowk (o : zod) : Prop := forall x, In x (keys o) -> lower x = x.
  Definition linv (o : zod) : Prop := inv o /\ lowk o.

  Lemma lowk_sub (o' o : zod) : (forall x, In x (keys o') -> In x (keys o)) -> lowk o -> lowk o'.
  Proof. intros S L x Hx. apply L, S, Hx. Qed.

  Lemma linv_empty : linv empty.
  Proof. split; [apply inv_empty | intros x []]. Qed.

  Lemma linv_setitem k v o : lower k = k -> linv o -> linv (setitem k v o).
  Proof.
    intros Hk [I L]. split; [apply inv_setitem; exact I|]. intros x Hx. unfold setitem in Hx. cbn [keys] in Hx.
    destruct (kmem k (keys o)); [apply L; exact Hx|]. apply in_app_or in Hx. destruct Hx as [Hx|[<-|[]]]; [apply L; exact Hx|exact Hk].
  Qed.
  Lemma linv_lo_set k v o : linv o -> linv (lo_set lower k v o).
  Proof. apply linv_setitem. apply lower_idem. Qed.
  Lemma linv_fold_lo_set ps : forall o, linv o -> linv (fold_left (fun o p => lo_set lower (fst p) (snd p) o) ps o).
  Proof. apply fold_left_pres. intros a x. apply linv_lo_set. Qed.
  Lemma linv_lo_update ps o : linv o -> linv (lo_update lower ps o).
  Proof. intros H. unfold lo_update. apply linv_fold_lo_set. exact H. Qed.
  Lemma linv_lo_init ps : linv (lo_init lower ps).
  Proof. apply linv_lo_update, linv_empty. Qed.

  Lemma keys_delitem k (o : zod) x : In x (keys (fst (delitem k o))) -> In x (keys o).
  Proof.
    unfold delitem. destruct (dmem k (dict o)); [|auto]. destruct (kmem k (keys o)); cbn [fst keys]; [apply remove1_In|auto].
  Qed.
  Lemma keys_pop k dflt (o : zod) x : In x (keys (fst (pop k dflt o))) -> In x (keys o).
  Proof.
    unfold pop. destruct (dget k (dict o)); [|destruct dflt; auto]. cbn [fst keys].
    destruct (kmem k (keys o)); [apply remove1_In|auto].
  Qed.
  Lemma keys_popitem last (o : zod) x : In x (keys (fst (popitem last o))) -> In x (keys o).
  Proof.
    unfold popitem. destruct (if last then rev (keys o) else keys o) as [|k ?]; [auto|].
    destruct (dget k (dict o)); [|auto]. pose proof (keys_delitem k o x) as K.
    destruct (delitem k o) as [o' [e|]]; exact K.
  Qed.

  Lemma lo_step_linv o x : linv o -> linv (fst (lo_step lower o x)).
  Proof.
    intros [I L]. assert (H : linv o) by (split; assumption).
    destruct x; cbn [lo_step fst]; try exact H.
    - apply linv_lo_set, H.
    - pose proof (inv_delitem (lower k) o I) as [I1 _]. pose proof (keys_delitem (lower k) o) as K.
      destruct (delitem (lower k) o) as [o' e]. split; [exact I1 | eapply lowk_sub; eauto].
    - destruct (dmem (lower k) (dict o)); [exact H | apply linv_lo_set, H].
    - cbn [step fst]. apply linv_empty.
    - apply (fold_left_pres linv); [|exact H]. intros a p Ha.
      destruct (dmem (lower (fst p)) (dict a)); [exact Ha | apply linv_lo_set, Ha].
    - destruct fs as [l|]; cbn [fst]; exact H.
    - rewrite lower_idem. destruct (dmem (lower k) (dict o)) eqn:E; [exact H|]. cbn [fst]. split.
      + pose proof (inv_insert i (lower k) v o I) as Hi. unfold insert in Hi. rewrite E in Hi. exact Hi.
      + intros x Hx. cbn [keys] in Hx. apply list_insert_In in Hx. destruct Hx as [->|Hx]; [apply lower_idem | apply L, Hx].
    - pose proof (step_inv o (OPop (lower k)) I) as I1. pose proof (keys_pop (lower k) None o) as K.
      cbn [step] in *. destruct (pop (lower k) None o) as [o' r]. split; [exact I1 | eapply lowk_sub; eauto].
    - pose proof (step_inv o (OPopD (lower k) d) I) as I1. pose proof (keys_pop (lower k) (Some d) o) as K.
      cbn [step] in *. destruct (pop (lower k) (Some d) o) as [o' r]. split; [exact I1 | eapply lowk_sub; eauto].
    - pose proof (step_inv o (OPopItem last) I) as I1. pose proof (keys_popitem last o) as K.
      cbn [step] in *. destruct (popitem last o) as [o' r]. split; [exact I1 | eapply lowk_sub; eauto].
    - destruct (linv_lo_init (items (init ps))) as [I2 L2].
      split; [apply inv_reorder; assumption|]. intros x Hx.
      destruct (reorder_dom _ o I2 I) as (_ & _ & C). apply kmem_In in Hx. rewrite C in Hx.
      apply orb_true_iff in Hx. destruct Hx as [Hx|Hx]; apply kmem_In in Hx; [apply L, Hx | apply L2, Hx].
    - destruct (dget (lower k) (dict o)); [exact H|]. cbn [fst]. apply linv_setitem; [apply lower_idem | exact H].
    - apply linv_lo_update, H.
    - apply linv_lo_update, H.
  Qed.

  Lemma lo_run_linv ops : forall o, linv o -> linv (lo_run lower o ops).
  Proof. induction ops as [|x ops IH]; cbn; intros o H; [exact H|]. apply IH, lo_step_linv, H. Qed.
End LOINV.
