(* C39 -- property theorems only.  Each closed by [exact]; Print Assumptions beneath. *)
From Coq Require Import List ZArith Bool.
Import ListNotations.
Require Import V.C39.Model V.C39.Enc V.C39.Proofs V.C39.Proofs2 V.C39.Proofs3 V.C39.Proofs4 V.C39.Proofs5 V.C39.Proofs6.
Open Scope Z_scope.

(* odict: over EVERY sequence of operations (set, del, append, clear, create, insert, pop with and
   without default, popitem first/last, reorder, setdefault, update, |=, and the read-only ones)
   from any constructor argument, _keys has no duplicates, the underlying dict has no duplicate
   keys, and _keys holds exactly the keys of the dict. *)
Theorem odict_keys_inv_all_ops : forall ps ops, inv (run (init ps) ops).
Proof. exact (fun ps ops => run_inv ops (init ps) (inv_init ps)). Qed.
Print Assumptions odict_keys_inv_all_ops.

(* in a consistent state no operation fails with the internal ValueError of _keys.remove *)
Theorem odict_no_internal_error : forall (o : zod) x, inv o -> snd (step o x) <> RErr ValueError.
Proof. exact step_no_internal_error. Qed.
Print Assumptions odict_no_internal_error.

(* the items of an odict are an association list with distinct keys, in _keys order, and reading
   through them agrees with the dict: this is the refinement map to the insertion-ordered dict *)
Theorem odict_items_abstraction : forall (o : zod), inv o ->
  map fst (items o) = keys o /\ NoDup (map fst (items o)) /\ forall k, dget k (items o) = dget k (dict o).
Proof. exact (fun o H => conj (items_keys o H) (conj (items_NoDup o H) (fun k => dget_items o k H))). Qed.
Print Assumptions odict_items_abstraction.

(* odict(pairs with distinct keys) holds exactly those pairs in that order *)
Theorem odict_init_ordered : forall (l : pairs), NoDup (map fst l) -> keys (init l) = map fst l /\ items (init l) = l.
Proof. exact init_alist. Qed.
Print Assumptions odict_init_ordered.

(* copy() : same keys in the same order, same items, and again a consistent odict *)
Theorem odict_copy_equal : forall (o : zod), inv o ->
  keys (copy o) = keys o /\ items (copy o) = items o /\ inv (copy o).
Proof. exact copy_equal. Qed.
Print Assumptions odict_copy_equal.

(* pickle (protocol >= 2) / copy.copy / copy.deepcopy: __new__, dict items replayed through
   __setitem__, then __setstate__ = __init__(items) unless the odict is empty *)
Theorem odict_pickle_roundtrip : forall (o : zod), inv o ->
  keys (pickle o) = keys o /\ items (pickle o) = items o.
Proof. exact pickle_roundtrip. Qed.
Print Assumptions odict_pickle_roundtrip.

(* lodict: for every lower-casing function that is idempotent, every operation returns the same
   result and leaves the same state whatever the case of its key arguments; lifted to whole traces *)
Theorem lodict_case_insensitive : forall lower, (forall k, lower (lower k) = lower k) ->
  forall o ops, lo_trace lower o ops = lo_trace lower o (map (lower_op lower) ops).
Proof. exact (fun lower H o ops => lo_trace_lower lower H ops o). Qed.
Print Assumptions lodict_case_insensitive.

(* oset: over every op sequence (add, discard, remove, pop first/last, clear, |= &= -= ^=) the
   element list never holds a duplicate *)
Theorem oset_nodup_all_ops : forall l ops, NoDup (s_run (s_of l) ops).
Proof. exact (fun l ops => s_run_inv ops (s_of l) (s_of_NoDup l)). Qed.
Print Assumptions oset_nodup_all_ops.

(* oset algebra has set semantics ... *)
Theorem oset_algebra_membership : forall x a b,
  (In x (s_or a b) <-> In x a \/ In x b) /\ (In x (s_and a b) <-> In x a /\ In x b) /\
  (In x (s_sub a b) <-> In x a /\ ~ In x b) /\
  (In x (s_xor a b) <-> (In x a /\ ~ In x b) \/ (In x b /\ ~ In x a)).
Proof. exact (fun x a b => conj (s_or_In x a b) (conj (s_and_In x a b) (conj (s_sub_In x a b) (s_xor_In x a b)))). Qed.
Print Assumptions oset_algebra_membership.

(* ... and a defined order: union = a followed by b's new elements, difference keeps a's order,
   intersection follows the order of the other operand; add appends only new elements *)
Theorem oset_ordered_set : forall a b, NoDup a -> NoDup b ->
  s_or a b = a ++ filter (fun x => negb (kmem x a)) b /\
  s_sub a b = filter (fun x => negb (kmem x b)) a /\
  s_and a b = filter (fun x => kmem x a) b /\
  (forall k, In k a -> s_add k a = a) /\ (forall k, ~ In k a -> s_add k a = a ++ [k]) /\
  (forall k x, In x (s_discard k a) <-> In x a /\ x <> k).
Proof. exact oset_order_all. Qed.
Print Assumptions oset_ordered_set.

(* REFINEMENT, per operation: in a consistent state every one of the 25 modelled odict operations returns
   what the abstract insertion-ordered dictionary (ONE association list: rebinding keeps the position, a
   new key goes to the end, ...; Model.a_step) returns on the items, and leaves the items it leaves *)
Theorem odict_step_refines : forall (o : zod) x, inv o ->
  a_step (items o) x = (items (fst (step o x)), snd (step o x)).
Proof. exact step_sim. Qed.
Print Assumptions odict_step_refines.

(* ... hence for EVERY op sequence from any constructor argument: same return values / exception
   classes, same keys, same items after every step *)
Theorem odict_refines_ordered_dict : forall ps ops, trace (init ps) ops = a_trace (a_sets ps []) ops.
Proof. exact trace_init_sim. Qed.
Print Assumptions odict_refines_ordered_dict.

(* lodict: for every idempotent lower-casing function, over every op sequence from any constructor
   argument, _keys = dom dict without duplicates AND every stored key is lower case *)
Theorem lodict_inv_all_ops : forall lower, (forall k, lower (lower k) = lower k) ->
  forall ps ops, linv lower (lo_run lower (lo_init lower ps) ops).
Proof. exact (fun lower H ps ops => lo_run_linv lower H ops _ (linv_lo_init lower H ps)). Qed.
Print Assumptions lodict_inv_all_ops.

(* modict: over every op sequence without popitem/poplistitem (add, replace, setdefault, pop, poplist,
   del, update from pairs / dict / modict, clear, copy, pickle, reads) the structure stays consistent,
   the list kept for key k is exactly the history specification (all values added since k was last
   removed / replaced / cleared, in order), m[k] / get(k) return its LAST element and getlist the list *)
Theorem modict_keeps_all_returns_newest : forall ps0 ops k, no_popitem ops = true ->
  let m := m_run (m_adds ps0 empty) ops in
  inv m /\
  getlist k m = fold_left (hist_step k) ops (map snd (filter (fun p => fst p =? k) ps0)) /\
  (getlist k m <> [] ->
     snd (m_step m (MGet k)) = QInt (last (getlist k m) 0) /\ snd (m_step m (MGetList k)) = QList (getlist k m) /\
     forall d, snd (m_step m (MGetD k d)) = QInt (last (getlist k m) 0)).
Proof. exact modict_main. Qed.
Print Assumptions modict_keeps_all_returns_newest.

(* modict structure invariant over ALL op sequences, popitem / poplistitem included *)
Theorem modict_inv_all_ops : forall ps0 ops, inv (m_run (m_adds ps0 empty) ops).
Proof. exact (fun ps0 ops => m_run_inv ops _ (inv_m_adds ps0 empty inv_empty)). Qed.
Print Assumptions modict_inv_all_ops.

(* two live modicts a and b: an operation on one NEVER changes the other -- also reorder / update that take
   the other modict as argument (the model is value based: no list is shared) -- and both stay consistent
   over every op sequence; the correspondence observes BOTH real objects after every step *)
Theorem modict_ops_never_change_another : forall (a b : mod_) x,
  match x with
  | OnA _ | AReorderB | AUpdateB => snd (fst (m2_step (a, b) x)) = b
  | OnB _ | BReorderA | BUpdateA => fst (fst (m2_step (a, b) x)) = a
  end.
Proof. exact m2_other_unchanged. Qed.
Print Assumptions modict_ops_never_change_another.

Theorem modict_pair_inv_all_ops : forall pa pb ops,
  inv (fst (m2_run (m_adds pa empty, m_adds pb empty) ops)) /\ inv (snd (m2_run (m_adds pa empty, m_adds pb empty) ops)).
Proof. exact (fun pa pb ops => m2_run_inv ops (m_adds pa empty, m_adds pb empty) (conj (inv_m_adds pa empty inv_empty) (inv_m_adds pb empty inv_empty))). Qed.
Print Assumptions modict_pair_inv_all_ops.

(* oset.pop() returns and removes the element added last, pop(last=False) the earliest, KeyError if empty *)
Theorem oset_pop_order : forall s k,
  (~ In k s -> s_step (s ++ [k]) (SPop true) = (s, TInt k)) /\ s_step (k :: s) (SPop false) = (s, TInt k) /\
  (forall b, s_step [] (SPop b) = ([], TErr KeyError)).
Proof. exact oset_pop_order_all. Qed.
Print Assumptions oset_pop_order.

(* in-place operators: |= appends b's new elements in b's order; -= and &= keep a's order *)
Theorem oset_inplace_order : forall a b, NoDup a -> NoDup b ->
  fst (s_step a (SIor b)) = a ++ filter (fun x => negb (kmem x a)) b /\
  fst (s_step a (SIsub b)) = filter (fun x => negb (kmem x b)) a /\
  fst (s_step a (SIand b)) = filter (fun x => kmem x b) a.
Proof. exact oset_inplace_order_all. Qed.
Print Assumptions oset_inplace_order.

(* non-vacuity *)
Example c39_odict_example :
  trace (init [(4, 1); (0, 2)]) [OSet 0 9; OInsert 0 2 5; OPopItem false; OReorder [(4, 7)]; OPickle]
  = [(RNone, [4; 0], [(4, 1); (0, 9)]); (RNone, [2; 4; 0], [(2, 5); (4, 1); (0, 9)]);
     (RItem 2 5, [4; 0], [(4, 1); (0, 9)]); (RNone, [0; 4], [(0, 9); (4, 7)]);
     (RObj [0; 4] [(0, 9); (4, 7)], [0; 4], [(0, 9); (4, 7)])].
Proof. vm_compute. reflexivity. Qed.
Example c39_lodict_example :
  lo_trace lower2 (lo_init lower2 [(1, 1)]) [OPop 1] = lo_trace lower2 (lo_init lower2 [(1, 1)]) [OPop 0]
  /\ lo_trace lower2 (lo_init lower2 [(1, 1)]) [OPop 1] = [(RInt 1, [], [])].
Proof. vm_compute. split; reflexivity. Qed.
Example c39_modict_example :
  m_trace (m_adds [(0, 1); (0, 2)] empty) [MGet 0; MGetList 0; MPickle]
  = [(QInt 2, [0], [(0, [1; 2])]); (QList [1; 2], [0], [(0, [1; 2])]); (QObj [(0, [1; 2])], [0], [(0, [1; 2])])].
Proof. vm_compute. reflexivity. Qed.
Example c39_oset_example : s_or [1; 2; 3] [3; 0; 2] = [1; 2; 3; 0] /\ s_and [1; 2; 3] [3; 0; 2] = [3; 2].
Proof. vm_compute. split; reflexivity. Qed.
