(* C39 -- flat encodings of results/traces as list Z, used only by the correspondence run
   (the harness encodes what the real classes return in the same way). Definitions only. *)
From Coq Require Import List ZArith Bool.
Import ListNotations.
Require Import V.C39.Model.
Open Scope Z_scope.

Definition enc_err (e : err) : Z := match e with KeyError => 0 | ValueError => 1 end.
Definition enc_l (l : list Z) : list Z := Z.of_nat (length l) :: l.
Definition enc_ps (l : pairs) : list Z := Z.of_nat (length l) :: flat_map (fun p => [fst p; snd p]) l.
Definition enc_lps (l : list (Z * list Z)) : list Z :=
  Z.of_nat (length l) :: flat_map (fun p => fst p :: enc_l (snd p)) l.

Definition enc_res (r : res) : list Z :=
  match r with
  | RNone => [0] | RBool b => [1; if b then 1 else 0] | RInt n => [2; n]
  | RKeys l => 3 :: enc_l l | RVals l => 4 :: enc_l l | RItems l => 5 :: enc_ps l
  | RItem k v => [6; k; v] | RObj ks its => 7 :: enc_l ks ++ enc_ps its | RErr e => [8; enc_err e]
  end.
Definition enc_trace (t : list (res * list Z * pairs)) : list Z :=
  flat_map (fun x => enc_res (fst (fst x)) ++ enc_l (snd (fst x)) ++ enc_ps (snd x)) t.

Definition enc_mres (r : mres) : list Z :=
  match r with
  | QNone => [0] | QBool b => [1; if b then 1 else 0] | QInt n => [2; n]
  | QList l => 3 :: enc_l l | QKeys l => 4 :: enc_l l | QItems l => 5 :: enc_ps l
  | QLItems l => 6 :: enc_lps l | QItem k v => [7; k; v] | QLItem k l => 10 :: k :: enc_l l
  | QObj l => 11 :: enc_lps l | QErr e => [8; enc_err e] | QIndexError => [9; 3]
  end.
Definition enc_mtrace (t : list (mres * list Z * list (Z * list Z))) : list Z :=
  flat_map (fun x => enc_mres (fst (fst x)) ++ enc_l (snd (fst x)) ++ enc_lps (snd x)) t.

Definition enc_sres (r : sres) : list Z :=
  match r with
  | TNone => [0] | TBool b => [1; if b then 1 else 0] | TInt n => [2; n]
  | TList l => 3 :: enc_l l | TErr e => [8; enc_err e]
  end.
Definition enc_strace (t : list (sres * list Z)) : list Z :=
  flat_map (fun x => enc_sres (fst x) ++ enc_l (snd x)) t.

Definition enc_m2trace (t : list (mres * (list Z * list (Z * list Z)) * (list Z * list (Z * list Z)))) : list Z :=
  flat_map (fun x => enc_mres (fst (fst x)) ++ enc_l (fst (snd (fst x))) ++ enc_lps (snd (snd (fst x)))
                     ++ enc_l (fst (snd x)) ++ enc_lps (snd (snd x))) t.
