(* C39 -- odict / lodict / modict (ioflo/aid/odicting.py) and oset (ioflo/aid/osetting.py).
   Hand model (tie H).  Definitions only.

   Keys are interned as Z by the harness; values are Z (odict, lodict) or list Z (modict).
   An odict is mirrored as the class keeps it:  _keys : list of keys  +  the underlying
   builtin dict (association list; [dget] = first binding, [dset] rebinding, [ddel]).
   The iteration order of the UNDERLYING dict is not modelled (no modelled method reads it).
   Exceptions are results:  RErr KeyError | RErr ValueError ...; a step returns the state
   the object is left in together with the result.
   The model describes the FIXED classes (fixes/C39-*.patch):
     lodict.pop/insert/create/sift/reorder lower their keys, odict.popitem(last=True),
     odict.reorder(self) is a no-op, odict.__ior__/__reversed__ go through _keys,
     modict.get indexes the value list, modict pickles all values.                      *)
From Coq Require Import List ZArith Bool.
Import ListNotations.
Open Scope Z_scope.

Inductive err := KeyError | ValueError.

Definition kmem (k : Z) (l : list Z) : bool := existsb (Z.eqb k) l.

(* list.remove(k): first occurrence (the ValueError case is handled by the callers) *)
Fixpoint remove1 (k : Z) (l : list Z) : list Z :=
  match l with [] => [] | x :: l' => if k =? x then l' else x :: remove1 k l' end.

(* list.insert(i, x) : python index normalisation *)
Definition norm_index (i : Z) (len : nat) : nat :=
  let n := Z.of_nat len in
  let j := if i <? 0 then i + n else i in
  if j <? 0 then 0%nat else if n <? j then len else Z.to_nat j.

Definition list_insert {A} (i : Z) (x : A) (l : list A) : list A :=
  let n := norm_index i (length l) in firstn n l ++ x :: skipn n l.

Section OD.
  Variable V : Type.
  Definition alist := list (Z * V).

  Fixpoint dget (k : Z) (d : alist) : option V :=
    match d with [] => None | (k', v) :: d' => if k =? k' then Some v else dget k d' end.
  Definition ddel (k : Z) (d : alist) : alist := filter (fun p => negb (fst p =? k)) d.
  Definition dset (k : Z) (v : V) (d : alist) : alist := (k, v) :: ddel k d.
  Definition dmem (k : Z) (d : alist) : bool := match dget k d with Some _ => true | None => false end.

  Record od := mk { keys : list Z; dict : alist }.
  Definition empty : od := mk [] [].

  (* items(): [(key, dict.__getitem__(self, key)) for key in self._keys] *)
  Definition items (o : od) : alist :=
    flat_map (fun k => match dget k (dict o) with Some v => [(k, v)] | None => [] end) (keys o).
  Definition values (o : od) : list V := map snd (items o).

  (* odict.__setitem__ *)
  Definition setitem (k : Z) (v : V) (o : od) : od :=
    mk (if kmem k (keys o) then keys o else keys o ++ [k]) (dset k v (dict o)).
  Definition setitems (ps : alist) (o : od) : od := fold_left (fun o p => setitem (fst p) (snd p) o) ps o.
  (* odict(pairs) *)
  Definition init (ps : alist) : od := setitems ps empty.

  (* odict.__delitem__ : dict.__delitem__ then _keys.remove *)
  Definition delitem (k : Z) (o : od) : od * option err :=
    if dmem k (dict o)
    then if kmem k (keys o) then (mk (remove1 k (keys o)) (ddel k (dict o)), None)
         else (mk (keys o) (ddel k (dict o)), Some ValueError)
    else (o, Some KeyError).

  (* odict.pop(key[, default]) *)
  Definition pop (k : Z) (dflt : option V) (o : od) : od * (V + err) :=
    match dget k (dict o), dflt with
    | Some v, _ => (mk (if kmem k (keys o) then remove1 k (keys o) else keys o) (ddel k (dict o)), inl v)
    | None, Some d => (o, inl d)
    | None, None => (o, inr KeyError)
    end.

  (* odict.popitem(last=True) *)
  Definition popitem (last : bool) (o : od) : od * ((Z * V) + err) :=
    match (if last then rev (keys o) else keys o) with
    | [] => (o, inr KeyError)
    | k :: _ => match dget k (dict o) with
                | None => (o, inr KeyError)
                | Some v => match delitem k o with
                            | (o', None) => (o', inl (k, v))
                            | (o', Some e) => (o', inr e)
                            end
                end
    end.

  (* odict.insert(index, key, val) *)
  Definition insert (i : Z) (k : Z) (v : V) (o : od) : od * option err :=
    if dmem k (dict o) then (o, Some KeyError)
    else (mk (list_insert i k (keys o)) (dset k v (dict o)), None).

  (* odict.append(key, item) *)
  Definition append (k : Z) (v : V) (o : od) : od * option err :=
    if dmem k (dict o) then (o, Some KeyError) else (setitem k v o, None).

  (* odict.setdefault *)
  Definition setdefault (k : Z) (d : V) (o : od) : od * V :=
    let '(dct, v) := match dget k (dict o) with Some v => (dict o, v) | None => (dset k d (dict o), d) end in
    (mk (if kmem k (keys o) then keys o else keys o ++ [k]) dct, v).

  (* odict.create(pairs) : only keys not in _keys *)
  Definition create (ps : alist) (o : od) : od :=
    fold_left (fun o p => if kmem (fst p) (keys o) then o else setitem (fst p) (snd p) o) ps o.

  (* odict.sift(fields) *)
  Fixpoint lookups (fs : list Z) (d : alist) : option alist :=
    match fs with
    | [] => Some []
    | k :: fs' => match dget k d with
                  | None => None
                  | Some v => match lookups fs' d with None => None | Some r => Some ((k, v) :: r) end
                  end
    end.
  Definition copy (o : od) : od := init (items o).
  Definition sift (fs : option (list Z)) (o : od) : od + err :=
    match fs with
    | None => inl (copy o)
    | Some fs => match lookups fs (dict o) with None => inr KeyError | Some its => inl (init its) end
    end.

  (* odict.reorder(other) with other = odict(ps), other is not self *)
  Definition move_end (k : Z) (ks : list Z) : list Z :=
    (if kmem k ks then remove1 k ks else ks) ++ [k].
  Definition reorder (other : od) (o : od) : od :=
    mk (fold_left (fun ks k => move_end k ks) (keys other) (keys o))
       (fold_left (fun d p => dset (fst p) (snd p) d) (dict other) (dict o)).

  (* pickle protocol >= 2 / copy.copy / copy.deepcopy of an odict:
     cls.__new__ ; obj[k] = v for the dict items ; then, iff the state (= items) is non-empty,
     __setstate__(state) = __init__(state) *)
  Definition pickle (o : od) : od :=
    let o1 := setitems (items o) empty in
    match items o with [] => o1 | _ => setitems (items o) o1 end.
End OD.

Arguments mk {V}. Arguments keys {V}. Arguments dict {V}. Arguments empty {V}.
Arguments dget {V}. Arguments ddel {V}. Arguments dset {V}. Arguments dmem {V}.
Arguments items {V}. Arguments values {V}. Arguments setitem {V}. Arguments setitems {V}.
Arguments init {V}. Arguments delitem {V}. Arguments pop {V}. Arguments popitem {V}.
Arguments insert {V}. Arguments append {V}. Arguments setdefault {V}. Arguments create {V}.
Arguments lookups {V}. Arguments copy {V}. Arguments sift {V}. Arguments reorder {V}.
Arguments pickle {V}.

(* ------------------------------------------------------------------ odict op machine *)
Definition zod := od Z.
Definition pairs := list (Z * Z).

Inductive op :=
| OSet (k v : Z) | ODel (k : Z) | OGet (k : Z) | OGetD (k d : Z) | OHas (k : Z) | OLen
| OKeys | OValues | OItems | OAppend (k v : Z) | OClear | OCopy | OCreate (ps : pairs)
| OSift (fs : option (list Z)) | OInsert (i k v : Z) | OPop (k : Z) | OPopD (k d : Z)
| OPopItem (last : bool) | OReorder (ps : pairs) | OReorderSelf | OSetDefault (k d : Z)
| OUpdate (ps : pairs) | OPickle | OIor (ps : pairs) | OReversed.

Inductive res :=
| RNone | RBool (b : bool) | RInt (n : Z) | RKeys (l : list Z) | RVals (l : list Z)
| RItems (l : pairs) | RItem (k v : Z) | RObj (ks : list Z) (its : pairs) | RErr (e : err).

Definition oerr (e : option err) : res := match e with None => RNone | Some e => RErr e end.
Definition robj (o : zod) : res := RObj (keys o) (items o).

Definition step (o : zod) (x : op) : zod * res :=
  match x with
  | OSet k v => (setitem k v o, RNone)
  | ODel k => let '(o', e) := delitem k o in (o', oerr e)
  | OGet k => (o, match dget k (dict o) with Some v => RInt v | None => RErr KeyError end)
  | OGetD k d => (o, match dget k (dict o) with Some v => RInt v | None => RInt d end)
  | OHas k => (o, RBool (dmem k (dict o)))
  | OLen => (o, RInt (Z.of_nat (length (dict o))))
  | OKeys => (o, RKeys (keys o))
  | OValues => (o, RVals (values o))
  | OItems => (o, RItems (items o))
  | OAppend k v => let '(o', e) := append k v o in (o', oerr e)
  | OClear => (empty, RNone)
  | OCopy => (o, robj (copy o))
  | OCreate ps => (create ps o, RNone)
  | OSift fs => (o, match sift fs o with inl c => robj c | inr e => RErr e end)
  | OInsert i k v => let '(o', e) := insert i k v o in (o', oerr e)
  | OPop k => let '(o', r) := pop k None o in (o', match r with inl v => RInt v | inr e => RErr e end)
  | OPopD k d => let '(o', r) := pop k (Some d) o in (o', match r with inl v => RInt v | inr e => RErr e end)
  | OPopItem last => let '(o', r) := popitem last o in
                     (o', match r with inl (k, v) => RItem k v | inr e => RErr e end)
  | OReorder ps => (reorder (init ps) o, RNone)
  | OReorderSelf => (o, RNone)
  | OSetDefault k d => let '(o', v) := setdefault k d o in (o', RInt v)
  | OUpdate ps => (setitems ps o, RNone)
  | OPickle => (o, robj (pickle o))
  | OIor ps => (setitems ps o, RNone)
  | OReversed => (o, RKeys (rev (keys o)))
  end.

(* run: constructor odict(ps0) then the ops; trace of (result, _keys, items) after every step *)
Fixpoint trace (o : zod) (ops : list op) : list (res * list Z * pairs) :=
  match ops with
  | [] => []
  | x :: ops' => let '(o', r) := step o x in (r, keys o', items o') :: trace o' ops'
  end.
Fixpoint run (o : zod) (ops : list op) : zod :=
  match ops with [] => o | x :: ops' => run (fst (step o x)) ops' end.

(* ------------------------------------------------------------------ abstract spec:
   an insertion-ordered dictionary is ONE association list with distinct keys;
   rebinding keeps the position, a new key goes to the end.                          *)
Definition aod := pairs.
Definition a_set (k v : Z) (l : aod) : aod :=
  if dmem k l then map (fun p => if fst p =? k then (k, v) else p) l else l ++ [(k, v)].
Definition a_sets (ps : pairs) (l : aod) : aod := fold_left (fun l p => a_set (fst p) (snd p) l) ps l.
Definition a_moveend (p : Z * Z) (l : aod) : aod := ddel (fst p) l ++ [p].
Definition a_robj (l : aod) : res := RObj (map fst l) l.

Definition a_step (l : aod) (x : op) : aod * res :=
  match x with
  | OSet k v => (a_set k v l, RNone)
  | ODel k => if dmem k l then (ddel k l, RNone) else (l, RErr KeyError)
  | OGet k => (l, match dget k l with Some v => RInt v | None => RErr KeyError end)
  | OGetD k d => (l, match dget k l with Some v => RInt v | None => RInt d end)
  | OHas k => (l, RBool (dmem k l))
  | OLen => (l, RInt (Z.of_nat (length l)))
  | OKeys => (l, RKeys (map fst l))
  | OValues => (l, RVals (map snd l))
  | OItems => (l, RItems l)
  | OAppend k v => if dmem k l then (l, RErr KeyError) else (l ++ [(k, v)], RNone)
  | OClear => ([], RNone)
  | OCopy => (l, a_robj l)
  | OCreate ps => (fold_left (fun l p => if dmem (fst p) l then l else l ++ [p]) ps l, RNone)
  | OSift None => (l, a_robj l)
  | OSift (Some fs) => (l, match lookups fs l with None => RErr KeyError | Some its => a_robj (a_sets its []) end)
  | OInsert i k v => if dmem k l then (l, RErr KeyError) else (list_insert i (k, v) l, RNone)
  | OPop k => match dget k l with Some v => (ddel k l, RInt v) | None => (l, RErr KeyError) end
  | OPopD k d => match dget k l with Some v => (ddel k l, RInt v) | None => (l, RInt d) end
  | OPopItem last => match (if last then rev l else l) with
                     | [] => (l, RErr KeyError)
                     | (k, v) :: _ => (ddel k l, RItem k v)
                     end
  | OReorder ps => (fold_left (fun l p => a_moveend p l) (a_sets ps []) l, RNone)
  | OReorderSelf => (l, RNone)
  | OSetDefault k d => match dget k l with Some v => (l, RInt v) | None => (l ++ [(k, d)], RInt d) end
  | OUpdate ps => (a_sets ps l, RNone)
  | OPickle => (l, a_robj l)
  | OIor ps => (a_sets ps l, RNone)
  | OReversed => (l, RKeys (rev (map fst l)))
  end.

Fixpoint a_trace (l : aod) (ops : list op) : list (res * list Z * pairs) :=
  match ops with
  | [] => []
  | x :: ops' => let '(l', r) := a_step l x in (r, map fst l', l') :: a_trace l' ops'
  end.

(* ------------------------------------------------------------------ lodict *)
Section LO.
  Variable lower : Z -> Z.
  Definition lo_set (k v : Z) (o : zod) : zod := setitem (lower k) v o.
  (* lodict.update(pairs): temporary odict d of lowered keys, then odict.update(self, d) *)
  Definition lo_update (ps : pairs) (o : zod) : zod :=
    let d := fold_left (fun d p => setitem (lower (fst p)) (snd p) d) ps empty in
    fold_left (fun o p => lo_set (fst p) (snd p) o) (items d) o.
  Definition lo_init (ps : pairs) : zod := lo_update ps empty.
  Definition lower_ps (ps : pairs) : pairs := map (fun p => (lower (fst p), snd p)) ps.

  Definition lo_step (o : zod) (x : op) : zod * res :=
    match x with
    | OSet k v => (lo_set k v o, RNone)
    | ODel k => let '(o', e) := delitem (lower k) o in (o', oerr e)
    | OGet k => (o, match dget (lower k) (dict o) with Some v => RInt v | None => RErr KeyError end)
    | OGetD k d => (o, match dget (lower k) (dict o) with Some v => RInt v | None => RInt d end)
    | OHas k => (o, RBool (dmem (lower k) (dict o)))
    | OAppend k v => if dmem (lower k) (dict o) then (o, RErr KeyError) else (lo_set k v o, RNone)
    | OCopy => (o, robj (lo_init (items o)))
    | OCreate ps => (fold_left (fun o p => if dmem (lower (fst p)) (dict o) then o
                                           else lo_set (fst p) (snd p) o) ps o, RNone)
    | OSift None => (o, robj (lo_init (items o)))
    | OSift (Some fs) => (o, match lookups (map lower fs) (dict o) with
                             | None => RErr KeyError
                             | Some its => robj (lo_init its)
                             end)
    | OInsert i k v => if dmem (lower (lower k)) (dict o) then (o, RErr KeyError)
                       else (mk (list_insert i (lower k) (keys o)) (dset (lower k) v (dict o)), RNone)
    | OPop k => step o (OPop (lower k))
    | OPopD k d => step o (OPopD (lower k) d)
    | OReorder ps => (reorder (lo_init (items (init ps))) o, RNone)   (* other = odict(ps) -> lodict(other) *)
    | OSetDefault k d => match dget (lower k) (dict o) with
                         | Some v => (o, RInt v)
                         | None => (setitem (lower k) d o, RInt d)
                         end
    | OUpdate ps => (lo_update ps o, RNone)
    | OIor ps => (lo_update ps o, RNone)
    | OPickle => (o, robj (let o1 := fold_left (fun o p => lo_set (fst p) (snd p) o) (items o) empty in
                           match items o with [] => o1 | _ => lo_update (items o) o1 end))
    | OLen | OKeys | OValues | OItems | OClear | OPopItem _ | OReorderSelf | OReversed => step o x
    end.

  Fixpoint lo_trace (o : zod) (ops : list op) : list (res * list Z * pairs) :=
    match ops with
    | [] => []
    | x :: ops' => let '(o', r) := lo_step o x in (r, keys o', items o') :: lo_trace o' ops'
    end.
  Fixpoint lo_run (o : zod) (ops : list op) : zod :=
    match ops with [] => o | x :: ops' => lo_run (fst (lo_step o x)) ops' end.

  (* the same op with every key argument lowered (the pairs of OReorder stand for a
     case-SENSITIVE odict argument and are left alone) *)
  Definition lower_op (x : op) : op :=
    match x with
    | OSet k v => OSet (lower k) v | ODel k => ODel (lower k) | OGet k => OGet (lower k)
    | OGetD k d => OGetD (lower k) d | OHas k => OHas (lower k) | OAppend k v => OAppend (lower k) v
    | OCreate ps => OCreate (lower_ps ps) | OSift (Some fs) => OSift (Some (map lower fs))
    | OInsert i k v => OInsert i (lower k) v | OPop k => OPop (lower k) | OPopD k d => OPopD (lower k) d
    | OSetDefault k d => OSetDefault (lower k) d
    | OUpdate ps => OUpdate (lower_ps ps) | OIor ps => OIor (lower_ps ps)
    | _ => x
    end.
End LO.

(* the harness interns keys so that 2i is the lower-case and 2i+1 the upper-case spelling *)
Definition lower2 (k : Z) : Z := 2 * (k / 2).

(* ------------------------------------------------------------------ modict *)
Definition mod_ := od (list Z).
Definition lastd (d : Z) (l : list Z) : Z := last l d.

Inductive mop :=
| MAdd (k v : Z)              (* m[k] = v, m.append(k, v), m.add(k, v) *)
| MGet (k : Z)                (* m[k] *)
| MGetD (k d : Z)             (* m.get(k, d) *)
| MGetIdx (k d i : Z)         (* m.get(k, d, index=i) *)
| MGetList (k : Z) | MReplace (k v : Z) | MSetDefault (k d : Z)
| MPop (k : Z) | MPopD (k d : Z) | MPopList (k : Z) | MPopItem (last : bool) | MPopListItem (last : bool)
| MDel (k : Z) | MHas (k : Z) | MLen | MKeys | MValues | MItems | MListItems | MAllItems
| MUpdate (ps : pairs) | MUpdateM (ps : pairs)   (* update(pairs | dict) ; update(modict(pairs)) *)
| MClear | MCopy | MPickle
| MSift (fs : option (list Z))            (* m.sift() / m.sift(fields) *)
| MInsert (i k v : Z)                     (* m.insert(i, k, v) : v becomes the only value of the new key k *)
| MReorder (ps : pairs) | MReorderO (ps : pairs).   (* m.reorder(modict(ps)) ; m.reorder(odict(ps)) *)

Inductive mres :=
| QNone | QBool (b : bool) | QInt (n : Z) | QList (l : list Z) | QKeys (l : list Z)
| QItems (l : pairs) | QLItems (l : list (Z * list Z)) | QItem (k v : Z) | QLItem (k : Z) (l : list Z)
| QObj (l : list (Z * list Z)) | QErr (e : err) | QIndexError.

(* modict.append : super().setdefault(key, []).append(value) *)
Definition m_add (k v : Z) (m : mod_) : mod_ :=
  let '(m', l) := setdefault k [] m in mk (keys m') (dset k (l ++ [v]) (dict m')).
Definition m_adds (ps : pairs) (m : mod_) : mod_ := fold_left (fun m p => m_add (fst p) (snd p) m) ps m.
Definition allitems (m : mod_) : pairs := flat_map (fun kl => map (fun v => (fst kl, v)) (snd kl)) (items m).
Definition newest (m : mod_) : pairs := map (fun kl => (fst kl, lastd 0 (snd kl))) (items m).

(* python sequence indexing l[i] *)
Definition py_index (l : list Z) (i : Z) : option Z :=
  let n := Z.of_nat (length l) in
  let j := if i <? 0 then i + n else i in
  if (j <? 0) || (n <=? j) then None else nth_error l (Z.to_nat j).

(* modict.sift(fields): every field once, in the order given, with ALL its values *)
Definition m_sift (its : list (Z * list Z)) : mod_ :=
  fold_left (fun r kl => if dmem (fst kl) (dict r) then r else m_adds (map (fun v => (fst kl, v)) (snd kl)) r) its empty.
(* modict.reorder(other): each key of other takes other's value list and moves to the end *)
Definition m_reorder (its : list (Z * list Z)) (m : mod_) : mod_ :=
  fold_left (fun m kl => setitem (fst kl) (snd kl) (fst (delitem (fst kl) m))) its m.

Definition m_step (m : mod_) (x : mop) : mod_ * mres :=
  match x with
  | MAdd k v => (m_add k v m, QNone)
  | MGet k => (m, match dget k (dict m) with Some l => match py_index l (-1) with Some v => QInt v | None => QIndexError end
                                         | None => QErr KeyError end)
  | MGetD k d => (m, match dget k (dict m) with Some l => match py_index l (-1) with Some v => QInt v | None => QInt d end
                                           | None => QInt d end)
  | MGetIdx k d i => (m, match dget k (dict m) with Some l => match py_index l i with Some v => QInt v | None => QInt d end
                                               | None => QInt d end)
  | MGetList k => (m, QList (match dget k (dict m) with Some l => l | None => [] end))
  | MReplace k v => (setitem k [v] m, QNone)
  | MSetDefault k d => match dget k (dict m) with
                       | Some l => match py_index l (-1) with Some v => (m, QInt v) | None => (m_add k d m, QInt d) end
                       | None => (m_add k d m, QInt d)
                       end
  | MPop k => let '(m', r) := pop k None m in
              (m', match r with inl l => match py_index l (-1) with Some v => QInt v | None => QIndexError end
                              | inr e => QErr e end)
  | MPopD k d => let '(m', r) := pop k None m in
              (m', match r with inl l => match py_index l (-1) with Some v => QInt v | None => QIndexError end
                              | inr _ => QInt d end)
  | MPopList k => let '(m', r) := pop k None m in (m', match r with inl l => QList l | inr e => QErr e end)
  | MPopItem last => let '(m', r) := popitem last m in
              (m', match r with inl (k, l) => match py_index l (-1) with Some v => QItem k v | None => QIndexError end
                              | inr e => QErr e end)
  | MPopListItem last => let '(m', r) := popitem last m in
              (m', match r with inl (k, l) => QLItem k l | inr e => QErr e end)
  | MDel k => let '(m', e) := delitem k m in (m', match e with None => QNone | Some e => QErr e end)
  | MHas k => (m, QBool (dmem k (dict m)))
  | MLen => (m, QInt (Z.of_nat (length (dict m))))
  | MKeys => (m, QKeys (keys m))
  | MValues => (m, QList (map snd (newest m)))
  | MItems => (m, QItems (newest m))
  | MListItems => (m, QLItems (items m))
  | MAllItems => (m, QItems (allitems m))
  | MUpdate ps => (m_adds ps m, QNone)
  | MUpdateM ps => (m_adds (allitems (m_adds ps empty)) m, QNone)
  | MClear => (empty, QNone)
  | MCopy => (m, QObj (items (m_adds (allitems m) empty)))
  | MPickle => (m, QObj (items (m_adds (allitems m) empty)))
  | MSift None => (m, QObj (items (m_adds (allitems m) empty)))
  | MSift (Some fs) => (m, match lookups fs (dict m) with
                           | None => QErr KeyError
                           | Some its => QObj (items (m_sift its))
                           end)
  | MInsert i k v => let '(m', e) := insert i k [v] m in (m', match e with None => QNone | Some e => QErr e end)
  | MReorder ps => (m_reorder (items (m_adds ps empty)) m, QNone)
  | MReorderO ps => (m_reorder (map (fun p => (fst p, [snd p])) (items (@init Z ps))) m, QNone)
  end.

Fixpoint m_trace (m : mod_) (ops : list mop) : list (mres * list Z * list (Z * list Z)) :=
  match ops with
  | [] => []
  | x :: ops' => let '(m', r) := m_step m x in (r, keys m', items m') :: m_trace m' ops'
  end.
Fixpoint m_run (m : mod_) (ops : list mop) : mod_ :=
  match ops with [] => m | x :: ops' => m_run (fst (m_step m x)) ops' end.

(* specification of "keeps every value per key, returns the newest", read off the HISTORY:
   the values recorded for k are those added since k was last removed / replaced / cleared.
   (popitem removes whichever key is first/last in the state; it is specified separately.) *)
Definition hist_step (k : Z) (h : list Z) (x : mop) : list Z :=
  match x with
  | MAdd k' v => if k' =? k then h ++ [v] else h
  | MReplace k' v => if k' =? k then [v] else h
  | MSetDefault k' d => if (k' =? k) && (match h with [] => true | _ => false end) then [d] else h
  | MPop k' | MPopD k' _ | MPopList k' | MDel k' => if k' =? k then [] else h
  | MUpdate ps | MUpdateM ps => h ++ map snd (filter (fun p => fst p =? k) ps)
  | MClear => []
  | _ => h
  end.
Definition is_popitem (x : mop) : bool :=
  (* the ops that are outside the per-key history specification [hist_step]: popitem removes whichever
     key is first/last; insert / reorder create or REPLACE a key's list as a whole *)
  match x with MPopItem _ | MPopListItem _ | MInsert _ _ _ | MReorder _ | MReorderO _ => true | _ => false end.
Definition getlist (k : Z) (m : mod_) : list Z := match dget k (dict m) with Some l => l | None => [] end.

(* ------------------------------------------------------------------ oset *)
(* the doubly linked list + map of the class is mirrored by its traversal order *)
Definition oset := list Z.

Definition s_add (k : Z) (s : oset) : oset := if kmem k s then s else s ++ [k].
Definition s_discard (k : Z) (s : oset) : oset := if kmem k s then remove1 k s else s.
Definition s_adds (it : list Z) (s : oset) : oset := fold_left (fun s k => s_add k s) it s.
Definition s_of (it : list Z) : oset := s_adds it [].                         (* oset(iterable) *)
Definition s_or (a : oset) (b : list Z) : oset := s_of (a ++ b).               (* a | b *)
Definition s_and (a : oset) (b : list Z) : oset := s_of (filter (fun x => kmem x a) b).   (* a & b : order of b *)
Definition s_sub (a : oset) (b : list Z) : oset := s_of (filter (fun x => negb (kmem x (s_of b))) a).
Definition s_xor (a : oset) (b : list Z) : oset := s_or (s_sub a b) (s_sub (s_of b) a).
Definition s_ixor (a : oset) (b : list Z) : oset :=
  fold_left (fun s k => if kmem k s then s_discard k s else s_add k s) (s_of b) a.
Definition s_isub (a : oset) (b : list Z) : oset := fold_left (fun s k => s_discard k s) b a.
Definition s_iand (a : oset) (b : list Z) : oset := fold_left (fun s k => s_discard k s) (s_sub a b) a.
Definition s_le (a b : oset) : bool := (length a <=? length b)%nat && forallb (fun x => kmem x b) a.
Fixpoint leqb (a b : list Z) : bool :=
  match a, b with [], [] => true | x :: a', y :: b' => (x =? y) && leqb a' b' | _, _ => false end.

Inductive sop :=
| SAdd (k : Z) | SDiscard (k : Z) | SRemove (k : Z) | SPop (last : bool) | SHas (k : Z) | SLen
| SIter | SReversed | SClear
| SOr (b : list Z) | SAnd (b : list Z) | SSub (b : list Z) | SXor (b : list Z)       (* with oset(b) *)
| SIor (b : list Z) | SIand (b : list Z) | SIsub (b : list Z) | SIxor (b : list Z)
| SEq (b : list Z) | SLe (b : list Z) | SDisjoint (b : list Z) | SPickle.

Inductive sres := TNone | TBool (b : bool) | TInt (n : Z) | TList (l : list Z) | TErr (e : err).

Definition s_step (s : oset) (x : sop) : oset * sres :=
  match x with
  | SAdd k => (s_add k s, TNone)
  | SDiscard k => (s_discard k s, TNone)
  | SRemove k => if kmem k s then (s_discard k s, TNone) else (s, TErr KeyError)
  | SPop last => match (if last then rev s else s) with
                 | [] => (s, TErr KeyError)
                 | k :: _ => (s_discard k s, TInt k)
                 end
  | SHas k => (s, TBool (kmem k s))
  | SLen => (s, TInt (Z.of_nat (length s)))
  | SIter => (s, TList s)
  | SReversed => (s, TList (rev s))
  | SClear => ([], TNone)
  | SOr b => (s, TList (s_or s (s_of b)))
  | SAnd b => (s, TList (s_and s (s_of b)))
  | SSub b => (s, TList (s_sub s (s_of b)))
  | SXor b => (s, TList (s_xor s (s_of b)))
  | SIor b => (s_adds (s_of b) s, TNone)
  | SIand b => (s_iand s (s_of b), TNone)
  | SIsub b => (s_isub s (s_of b), TNone)
  | SIxor b => (s_ixor s (s_of b), TNone)
  | SEq b => (s, TBool (leqb s (s_of b)))
  | SLe b => (s, TBool (s_le s (s_of b)))
  | SDisjoint b => (s, TBool (negb (existsb (fun x => kmem x s) (s_of b))))
  | SPickle => (s, TList (s_of s))
  end.

Fixpoint s_trace (s : oset) (ops : list sop) : list (sres * list Z) :=
  match ops with
  | [] => []
  | x :: ops' => let '(s', r) := s_step s x in (r, s') :: s_trace s' ops'
  end.
Fixpoint s_run (s : oset) (ops : list sop) : oset :=
  match ops with [] => s | x :: ops' => s_run (fst (s_step s x)) ops' end.

(* ------------------------------------------------------------------ two live modicts
   "operations on one dictionary never change another": ops on a, ops on b, and the operations that
   take the other modict as argument; both are observed after every step *)
Inductive mop2 :=
| OnA (x : mop) | OnB (x : mop)
| AReorderB | BReorderA          (* a.reorder(b) ; b.reorder(a) *)
| AUpdateB | BUpdateA.           (* a.update(b)  ; b.update(a)  *)

Definition m2_step (s : mod_ * mod_) (x : mop2) : (mod_ * mod_) * mres :=
  let '(a, b) := s in
  match x with
  | OnA y => let '(a', r) := m_step a y in ((a', b), r)
  | OnB y => let '(b', r) := m_step b y in ((a, b'), r)
  | AReorderB => ((m_reorder (items b) a, b), QNone)
  | BReorderA => ((a, m_reorder (items a) b), QNone)
  | AUpdateB => ((m_adds (allitems b) a, b), QNone)
  | BUpdateA => ((a, m_adds (allitems a) b), QNone)
  end.

Fixpoint m2_trace (s : mod_ * mod_) (ops : list mop2)
  : list (mres * (list Z * list (Z * list Z)) * (list Z * list (Z * list Z))) :=
  match ops with
  | [] => []
  | x :: ops' => let '(s', r) := m2_step s x in
                 (r, (keys (fst s'), items (fst s')), (keys (snd s'), items (snd s'))) :: m2_trace s' ops'
  end.
Fixpoint m2_run (s : mod_ * mod_) (ops : list mop2) : mod_ * mod_ :=
  match ops with [] => s | x :: ops' => m2_run (fst (m2_step s x)) ops' end.
