(* C31 -- keep-alive: N requests -> N ordered, framed responses.   Hand model (tie H), definitions only.

   Part 1  framing decision of ioflo.aio.http.serving.Responder across reuse by Valet
           (Responder.__init__/reset/start/build/write, Valet.serviceReqs "create or reuse").
           The model describes the FIXED reset (fixes/C31-responder-reset-chunkable.patch);
           [reset_unfixed]/[valet_step_unfixed] keep the code as it was found, for the
           refutation example in Props.v.
   Part 2  one persistent connection as a state machine: Patron.requests / .waited / .latest
           / .responses, the request in flight, the Valet's per-connection Responder, the
           bytes in flight and the client's receive buffer, driven by an arbitrary schedule
           of client / server / transfer steps.  The message codec (head serialisation and
           parsing) is a Section parameter with its two contracts (C29's domain).          *)
From Coq Require Import List ZArith Bool.
Import ListNotations.
Open Scope Z_scope.

(* ---------------------------------------------------------------- Part 1: framing *)

Inductive framing := Length (n : Z) | Chunked | UntilClose.

(* Responder.chunkable can hold Python None in the unfixed code: Some b | None *)
Record responder := { chunkable : option bool }.
Definition truthy (o : option bool) : bool := match o with Some true => true | _ => false end.

(* Responder.__init__: self.chunkable = True if chunkable else False *)
Definition new_responder (v11 : bool) : responder := {| chunkable := Some v11 |}.

(* Responder.reset, fixed: if chunkable is not None: self.chunkable = bool(chunkable) *)
Definition reset (r : responder) (arg : option bool) : responder :=
  match arg with Some b => {| chunkable := Some b |} | None => r end.
(* Responder.reset as found: if self.chunkable is not None: self.chunkable = chunkable *)
Definition reset_unfixed (r : responder) (arg : option bool) : responder :=
  match chunkable r with Some _ => {| chunkable := arg |} | None => r end.

(* Valet.serviceReqs: chunkable = version >= (1,1); create Responder or reuse with reset *)
Definition valet_step (sv : option responder) (v11 : bool) : responder :=
  match sv with None => new_responder v11 | Some r => reset r (Some v11) end.
(* as found: reuse calls responder.reset(environ=environ) -- parameter left at None *)
Definition valet_step_unfixed (sv : option responder) (v11 : bool) : responder :=
  match sv with None => new_responder v11 | Some r => reset_unfixed r None end.

(* Responder.start: content-length present -> .length = n, .chunkable = False *)
Definition start (r : responder) (cl : option Z) : responder * option Z :=
  match cl with Some n => ({| chunkable := Some false |}, Some n) | None => (r, None) end.

(* Responder.build: if self.chunkable and 'transfer-encoding' not in headers: chunked *)
Definition build (r : responder) (te_present : bool) : bool := truthy (chunkable r) && negb te_present.

(* Responder.write: chunked -> packChunk; length -> bytes beyond .length are cut; else raw *)
Definition frame_of (len : option Z) (chunked : bool) : framing :=
  if chunked then Chunked else match len with Some n => Length n | None => UntilClose end.

(* what a WSGI application does for one request: status, Content-Length header (if any),
   whether it sets Transfer-Encoding itself, and the concatenation of the bytes it yields *)
Record resp := { r_status : Z; r_cl : option Z; r_te : bool; r_body : list Z }.

Definition sent_body (len : option Z) (body : list Z) : list Z :=
  match len with Some n => firstn (Z.to_nat n) body | None => body end.

Record msg := { m_status : Z; m_frame : framing; m_body : list Z }.

(* one request on the connection: the Responder after the response, and the response *)
Definition respond_with (step : option responder -> bool -> responder)
           (sv : option responder) (v11 : bool) (a : resp) : option responder * msg :=
  let rp := step sv v11 in
  let '(rp1, len) := start rp (r_cl a) in
  let chunked := build rp1 (r_te a) in
  (Some rp1, {| m_status := r_status a; m_frame := frame_of len chunked;
                m_body := sent_body len (r_body a) |}).
Definition respond := respond_with valet_step.
Definition respond_unfixed := respond_with valet_step_unfixed.

(* framings of a sequence of (request is HTTP/1.1, application response) on one connection *)
Fixpoint framings_with (step : option responder -> bool -> responder)
         (sv : option responder) (qs : list (bool * resp)) : list framing :=
  match qs with
  | [] => []
  | (v, a) :: t => let '(sv', m) := respond_with step sv v a in m_frame m :: framings_with step sv' t
  end.
Definition framings := framings_with valet_step None.
Definition framings_unfixed := framings_with valet_step_unfixed None.

(* the application keeps the WSGI contract the property is about: it does not set
   Transfer-Encoding itself and yields at least Content-Length bytes when it declares one *)
Definition wf_resp (a : resp) : bool :=
  negb (r_te a) &&
  match r_cl a with Some n => (0 <=? n) && (n <=? Z.of_nat (length (r_body a))) | None => true end.

(* a response the client can delimit without the connection closing *)
Definition delimited (m : msg) : Prop :=
  match m_frame m with
  | Length n => Z.of_nat (length (m_body m)) = n
  | Chunked => True
  | UntilClose => False
  end.

(* ---------------------------------------------------------------- Part 1b: closing decision *)

(* Valet.serviceReps, per connection: what it looks at before closeConnection(ca).
   FIXED behaviour (fixes/C31-close-before-request-body.patch); [may_close_unfixed] is the code
   as found, which ignores whether the next request is still being parsed. *)
Record vconn := {
  v_responder_ended : bool;     (* Responder.ended -- of the LAST response started            *)
  v_persisted : bool;           (* Requestant.persisted -- set when a head has been parsed   *)
  v_parsing : bool;             (* Requestant.parser is not None: a request is in progress   *)
  v_txes_empty : bool           (* everything queued has been sent                           *)
}.
Definition may_close (c : vconn) : bool :=
  v_responder_ended c && negb (v_persisted c) && negb (v_parsing c) && v_txes_empty c.
Definition may_close_unfixed (c : vconn) : bool :=
  v_responder_ended c && negb (v_persisted c) && v_txes_empty c.

(* ---------------------------------------------------------------- Part 1c: idle timeout *)

(* Requestant.checkPersisted: once the head of a persistent request has been parsed the incomer's
   idle timeout is set to 0.0 = never; Valet.serviceConnects drops a connection iff
   ix.timeout > 0.0 and ix.timer.expired.  Times in milliseconds of STORE time. *)
Definition timeout_after_head (persisted : bool) (configured : Z) : Z := if persisted then 0 else configured.
Definition idle_drop (timeout elapsed : Z) : bool := (0 <? timeout) && (timeout <=? elapsed).

(* ---------------------------------------------------------------- Part 2: the connection *)

Section Session.
  Variable app : Z -> resp.          (* request id -> what the application answers *)
  Variable ver11 : Z -> bool.        (* request id -> request line says HTTP/1.1   *)
  Variable ser : msg -> list Z.      (* Responder.build + write: bytes on the wire  *)
  Variable parse : list Z -> option (msg * list Z).
                                      (* Respondent.parse on the accumulated buffer:
                                         None = needs more bytes                     *)

  Definition respond_to (sv : option responder) (r : Z) := respond sv (ver11 r) (app r).

  (* the N responses the server produces for requests rs, paired with their request *)
  Fixpoint serve_all (sv : option responder) (rs : list Z) : list (Z * msg) :=
    match rs with
    | [] => []
    | r :: t => let '(sv', m) := respond_to sv r in (r, m) :: serve_all sv' t
    end.
  Fixpoint srv_after (sv : option responder) (rs : list Z) : option responder :=
    match rs with
    | [] => sv
    | r :: t => srv_after (fst (respond_to sv r)) t
    end.

  Record st := {
    allreqs : list Z;            (* ghost: every request ever enqueued, in order          *)
    pend : list Z;               (* Patron.requests                                       *)
    waited : option Z;           (* Patron.waited / .latest: request awaiting its response *)
    c2s : list Z;                (* requests sent, not yet parsed by the Valet             *)
    srv : option responder;      (* Valet.reps[ca]                                        *)
    s2c : list Z;                (* response bytes produced, not yet received              *)
    rxbs : list Z;               (* Patron.connector.rxbs                                 *)
    got : list (Z * msg)         (* Patron.responses, each with the request it is filed under *)
  }.
  Definition init : st :=
    {| allreqs := []; pend := []; waited := None; c2s := []; srv := None; s2c := []; rxbs := []; got := [] |}.

  Inductive step :=
  | Enq (r : Z)      (* Patron.request / requests.append                         *)
  | CSend            (* Patron.serviceRequests + serviceTxes                     *)
  | SServe           (* Valet.serviceReqs + serviceReps (+ serviceTxes)          *)
  | Xfer (k : nat)   (* k more bytes reach the client's socket                   *)
  | CRecv            (* Patron.serviceResponse                                   *)
  | Tick (ms : Z).   (* store time advances (idle gap between requests, slow application): on a
                        persistent connection nothing happens -- see idle_drop / Props *)

  Definition do_step (s : st) (o : step) : st :=
    match o with
    | Enq r => {| allreqs := allreqs s ++ [r]; pend := pend s ++ [r]; waited := waited s; c2s := c2s s;
                  srv := srv s; s2c := s2c s; rxbs := rxbs s; got := got s |}
    | CSend =>
        match waited s, pend s with
        | None, r :: p => {| allreqs := allreqs s; pend := p; waited := Some r; c2s := c2s s ++ [r];
                             srv := srv s; s2c := s2c s; rxbs := rxbs s; got := got s |}
        | _, _ => s
        end
    | SServe =>
        match c2s s with
        | r :: q => let '(sv', m) := respond_to (srv s) r in
                    {| allreqs := allreqs s; pend := pend s; waited := waited s; c2s := q;
                       srv := sv'; s2c := s2c s ++ ser m; rxbs := rxbs s; got := got s |}
        | [] => s
        end
    | Xfer k => {| allreqs := allreqs s; pend := pend s; waited := waited s; c2s := c2s s; srv := srv s;
                   s2c := skipn k (s2c s); rxbs := rxbs s ++ firstn k (s2c s); got := got s |}
    | CRecv =>
        match waited s with
        | Some r =>
            match parse (rxbs s) with
            | Some (m, rest) => {| allreqs := allreqs s; pend := pend s; waited := None; c2s := c2s s;
                                   srv := srv s; s2c := s2c s; rxbs := rest; got := got s ++ [(r, m)] |}
            | None => s
            end
        | None => s
        end
    | Tick _ => s
    end.

  Definition run (sched : list step) : st := fold_left do_step sched init.

  (* the schedule that finishes one pending request from a quiescent state *)
  Definition finish_one (big : nat) : list step := [CSend; SServe; Xfer big; CRecv].
End Session.
