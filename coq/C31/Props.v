(* C31 -- property theorems only.  Each closed by [exact]; Print Assumptions beneath. *)
From Coq Require Import List ZArith Bool.
Import ListNotations.
Require Import V.C31.Model V.C31.Proofs V.C31.Instance.
Open Scope Z_scope.

(* Framing decision on a reused connection (Responder.reset/start/build after the fix):
   for ANY sequence of HTTP/1.1 requests and ANY mix of WSGI responses that keep the WSGI
   contract (fixed length, streamed without a length, empty), the i-th response is framed by
   its Content-Length when it has one and chunked otherwise -- whatever came before it. *)
Theorem framing_decision : forall qs,
  Forall (fun q => fst q = true /\ wf_resp (snd q) = true) qs ->
  framings qs = map (fun q => match r_cl (snd q) with Some n => Length n | None => Chunked end) qs.
Proof. exact framings_spec. Qed.
Print Assumptions framing_decision.

(* ... hence every response on a persistent connection is delimited. *)
Theorem persistent_responses_delimited : forall qs,
  Forall (fun q => fst q = true /\ wf_resp (snd q) = true) qs ->
  Forall (fun f => f <> UntilClose) (framings qs).
Proof. exact persistent_delimited. Qed.
Print Assumptions persistent_responses_delimited.

(* The code as found (reset tests the attribute, assigns the parameter; Valet passes nothing)
   refutes that statement with two length-less responses. *)
Theorem unfixed_reset_refuted :
  exists qs, Forall (fun q => fst q = true /\ wf_resp (snd q) = true) qs /\
             In UntilClose (framings_unfixed qs).
Proof. exact unfixed_refuted. Qed.
Print Assumptions unfixed_reset_refuted.

(* One persistent connection, ALL schedules of enqueue / client send / server service /
   partial byte transfer / client receive steps, ALL applications keeping the WSGI contract.
   Premises (the message codec is C29's subject and enters as its two contracts):
     parse_complete   a delimited message followed by anything parses to itself + the rest
     parse_incomplete a proper prefix of a delimited message does not parse yet            *)

(* whenever the client has nothing pending it holds exactly the N responses, in request
   order, each filed under the request that caused it, and both buffers are empty (the
   connection is usable for the next request) *)
Theorem n_requests_n_responses_in_order :
  forall (app : Z -> resp) (ver11 : Z -> bool) (ser : msg -> list Z)
         (parse : list Z -> option (msg * list Z)),
  (forall r, ver11 r = true) ->
  (forall r, wf_resp (app r) = true) ->
  (forall m rest, delimited m -> parse (ser m ++ rest) = Some (m, rest)) ->
  (forall m pre suf, delimited m -> ser m = pre ++ suf -> suf <> [] -> parse pre = None) ->
  forall sched,
    pend (run app ver11 ser parse sched) = [] -> waited (run app ver11 ser parse sched) = None ->
    got (run app ver11 ser parse sched) = serve_all app ver11 None (allreqs (run app ver11 ser parse sched)) /\
    map fst (got (run app ver11 ser parse sched)) = allreqs (run app ver11 ser parse sched) /\
    length (got (run app ver11 ser parse sched)) = length (allreqs (run app ver11 ser parse sched)) /\
    rxbs (run app ver11 ser parse sched) = [] /\ s2c (run app ver11 ser parse sched) = [].
Proof. exact quiescent_all. Qed.
Print Assumptions n_requests_n_responses_in_order.

(* at every moment of every schedule the responses received so far are a prefix of the
   expected ones: never a wrong, misfiled, duplicated or out-of-order response *)
Theorem responses_always_a_prefix :
  forall (app : Z -> resp) (ver11 : Z -> bool) (ser : msg -> list Z)
         (parse : list Z -> option (msg * list Z)),
  (forall r, ver11 r = true) ->
  (forall r, wf_resp (app r) = true) ->
  (forall m rest, delimited m -> parse (ser m ++ rest) = Some (m, rest)) ->
  (forall m pre suf, delimited m -> ser m = pre ++ suf -> suf <> [] -> parse pre = None) ->
  forall sched, exists rest,
    serve_all app ver11 None (allreqs (run app ver11 ser parse sched)) =
    got (run app ver11 ser parse sched) ++ rest.
Proof. exact responses_prefix. Qed.
Print Assumptions responses_always_a_prefix.

(* and every schedule can be continued to such a quiescent state (no request is stuck) *)
Theorem every_request_answerable :
  forall (app : Z -> resp) (ver11 : Z -> bool) (ser : msg -> list Z)
         (parse : list Z -> option (msg * list Z)),
  (forall r, ver11 r = true) ->
  (forall r, wf_resp (app r) = true) ->
  (forall m rest, delimited m -> parse (ser m ++ rest) = Some (m, rest)) ->
  (forall m pre suf, delimited m -> ser m = pre ++ suf -> suf <> [] -> parse pre = None) ->
  forall sched, exists more,
    pend (run app ver11 ser parse (sched ++ more)) = [] /\
    waited (run app ver11 ser parse (sched ++ more)) = None /\
    allreqs (run app ver11 ser parse (sched ++ more)) = allreqs (run app ver11 ser parse sched).
Proof. exact progress. Qed.
Print Assumptions every_request_answerable.

(* The two codec premises are satisfiable (by a concrete self-delimiting codec with a toy
   3-element head), so the three theorems above are not vacuous ... *)
Theorem codec_contracts_satisfiable :
  (forall m rest, delimited m -> toy_parse (toy_ser m ++ rest) = Some (m, rest)) /\
  (forall m pre suf, delimited m -> toy_ser m = pre ++ suf -> suf <> [] -> toy_parse pre = None).
Proof. exact (conj toy_complete toy_incomplete). Qed.
Print Assumptions codec_contracts_satisfiable.

(* ... and for that codec the N-requests theorem holds with no premise about the codec. *)
Theorem n_requests_n_responses_concrete : forall (app : Z -> resp) sched,
  (forall r, wf_resp (app r) = true) ->
  let s := run app (fun _ => true) toy_ser toy_parse sched in
  pend s = [] -> waited s = None ->
  got s = serve_all app (fun _ => true) None (allreqs s) /\ length (got s) = length (allreqs s).
Proof. exact toy_session. Qed.
Print Assumptions n_requests_n_responses_concrete.

(* non-vacuity: fixed, streamed, empty, fixed, streamed on one connection *)
Example c31_framings_example :
  let a cl body := {| r_status := 200; r_cl := cl; r_te := false; r_body := body |} in
  framings [(true, a (Some 1) [120]); (true, a None [121; 121]); (true, a None []);
            (true, a (Some 0) []); (true, a None [122])]
  = [Length 1; Chunked; Chunked; Length 0; Chunked] /\
  framings_unfixed [(true, a (Some 1) [120]); (true, a None [121; 121]); (true, a None []);
            (true, a (Some 0) []); (true, a None [122])]
  = [Length 1; UntilClose; UntilClose; Length 0; UntilClose].
Proof. vm_compute. split; reflexivity. Qed.

(* a concrete schedule with partial transfers: 2 requests, the second enqueued late *)
Example c31_run_example :
  let app := fun r : Z => {| r_status := 200; r_cl := if r =? 1 then Some 2 else None; r_te := false;
                             r_body := [r; r] |} in
  let s := run app (fun _ => true) toy_ser toy_parse
               [Enq 1; CSend; CRecv; SServe; Xfer 2; CRecv; Enq 2; Xfer 1; CRecv; Xfer 9; CSend; CRecv;
                CSend; SServe; Xfer 4; CRecv; Xfer 1; CRecv] in
  map fst (got s) = [1; 2] /\ map (fun x => m_frame (snd x)) (got s) = [Length 2; Chunked] /\
  pend s = [] /\ waited s = None.
Proof. vm_compute. repeat split; reflexivity. Qed.
