(* C31 -- property theorems only.  Each closed by [exact]; Print Assumptions beneath. *)
From Coq Require Import List ZArith Bool.
Import ListNotations.
Require Import V.C31.Model V.C31.Proofs V.C31.Instance.
Open Scope Z_scope.

(* Framing decision on a reused connection (Responder.reset/start/build after the fix):
   for ANY sequence of HTTP/1.1 requests and ANY mix of WSGI responses that keep the WSGI
   contract (fixed length, streamed without a length, empty), the i-th response is framed by
   its Content-Length when it has one and chunked otherwise -- whatever came before it. *)
Theorem framing_decision : forall qs,
  Forall (fun q => fst q = true /\ wf_resp (snd q) = true) qs ->
  framings qs = map (fun q => match r_cl (snd q) with Some n => Length n | None => Chunked end) qs.
Proof. exact framings_spec. Qed.
Print Assumptions framing_decision.

(* ... hence every response on a persistent connection is delimited. *)
Theorem persistent_responses_delimited : forall qs,
  Forall (fun q => fst q = true /\ wf_resp (snd q) = true) qs ->
  Forall (fun f => f <> UntilClose) (framings qs).
Proof. exact persistent_delimited. Qed.
Print Assumptions persistent_responses_delimited.

(* The code as found (reset tests the attribute, assigns the parameter; Valet passes nothing)
   refutes that statement with two length-less responses. *)
Theorem unfixed_reset_refuted :
  exists qs, Forall (fun q => fst q = true /\ wf_resp (snd q) = true) qs /\
             In UntilClose (framings_unfixed qs).
Proof. exact unfixed_refuted. Qed.
Print Assumptions unfixed_reset_refuted.

(* Valet.serviceReps never closes a connection on which a request is still being parsed (its
   head may already say "not persistent" while its body is on the way); it does close once a
   non-persistent request is completely parsed, answered and sent.  The code as found closed
   mid-request. *)
Theorem no_close_while_request_in_progress :
  (forall c, v_parsing c = true -> may_close c = false) /\
  (forall c, v_responder_ended c = true -> v_persisted c = false -> v_parsing c = false ->
             v_txes_empty c = true -> may_close c = true) /\
  (exists c, v_parsing c = true /\ may_close_unfixed c = true).
Proof. exact (conj no_close_mid_request (conj close_when_done unfixed_closes_mid_request)). Qed.
Print Assumptions no_close_while_request_in_progress.

(* Idle timeout: once a persistent request's head is parsed the connection is never dropped for
   idleness, however much STORE time passes (between requests, or while an application yields
   nothing); a connection without such a request is dropped once the configured time is over.
   This is why a Tick step of the connection machine below changes nothing. *)
Theorem keep_alive_survives_any_idle_gap :
  (forall configured elapsed, idle_drop (timeout_after_head true configured) elapsed = false) /\
  (forall configured elapsed, 0 < configured -> configured <= elapsed ->
     idle_drop (timeout_after_head false configured) elapsed = true).
Proof. exact (conj persistent_never_idle_dropped nonpersistent_idle_dropped). Qed.
Print Assumptions keep_alive_survives_any_idle_gap.

(* One persistent connection, ALL schedules of enqueue / client send / server service / partial byte
   transfer / client receive / store-time Tick steps, ALL applications keeping the WSGI contract.  The theorems for the
   REAL codec (C29's parser model) are in V.C31.PropsReal; here the generic form. *)

(* GENERIC form: the same three facts for ANY codec meeting the contracts (okmsg = what the
   codec can carry); the toy instance below shows the generic premises are satisfiable too. *)
Theorem n_requests_n_responses_any_codec :
  forall (app : Z -> resp) (ver11 : Z -> bool) (ser : msg -> list Z)
         (parse : list Z -> option (msg * list Z)) (okmsg : msg -> Prop),
  (forall r, ver11 r = true) ->
  (forall r, wf_resp (app r) = true) ->
  (forall r, okmsg (snd (respond_to app ver11 None r))) ->
  (forall m rest, okmsg m -> delimited m -> parse (ser m ++ rest) = Some (m, rest)) ->
  (forall m pre suf, okmsg m -> delimited m -> ser m = pre ++ suf -> suf <> [] -> parse pre = None) ->
  (forall m, okmsg m -> delimited m -> ser m <> []) ->
  forall sched,
    pend (run app ver11 ser parse sched) = [] -> waited (run app ver11 ser parse sched) = None ->
    got (run app ver11 ser parse sched) = serve_all app ver11 None (allreqs (run app ver11 ser parse sched)) /\
    map fst (got (run app ver11 ser parse sched)) = allreqs (run app ver11 ser parse sched) /\
    length (got (run app ver11 ser parse sched)) = length (allreqs (run app ver11 ser parse sched)) /\
    rxbs (run app ver11 ser parse sched) = [] /\ s2c (run app ver11 ser parse sched) = [].
Proof. exact quiescent_all. Qed.
Print Assumptions n_requests_n_responses_any_codec.

(* a second, toy codec (3-element head) also meets the generic contracts *)
Theorem codec_contracts_satisfiable :
  (forall m rest, delimited m -> toy_parse (toy_ser m ++ rest) = Some (m, rest)) /\
  (forall m pre suf, delimited m -> toy_ser m = pre ++ suf -> suf <> [] -> toy_parse pre = None).
Proof. exact (conj toy_complete toy_incomplete). Qed.
Print Assumptions codec_contracts_satisfiable.

(* ... and for that codec the N-requests theorem holds with no premise about the codec. *)
Theorem n_requests_n_responses_concrete : forall (app : Z -> resp) sched,
  (forall r, wf_resp (app r) = true) ->
  let s := run app (fun _ => true) toy_ser toy_parse sched in
  pend s = [] -> waited s = None ->
  got s = serve_all app (fun _ => true) None (allreqs s) /\ length (got s) = length (allreqs s).
Proof. exact toy_session. Qed.
Print Assumptions n_requests_n_responses_concrete.

(* non-vacuity: fixed, streamed, empty, fixed, streamed on one connection *)
Example c31_framings_example :
  let a cl body := {| r_status := 200; r_cl := cl; r_te := false; r_body := body |} in
  framings [(true, a (Some 1) [120]); (true, a None [121; 121]); (true, a None []);
            (true, a (Some 0) []); (true, a None [122])]
  = [Length 1; Chunked; Chunked; Length 0; Chunked] /\
  framings_unfixed [(true, a (Some 1) [120]); (true, a None [121; 121]); (true, a None []);
            (true, a (Some 0) []); (true, a None [122])]
  = [Length 1; UntilClose; UntilClose; Length 0; UntilClose].
Proof. vm_compute. split; reflexivity. Qed.

(* a concrete schedule with partial transfers: 2 requests, the second enqueued late *)
Example c31_run_example :
  let app := fun r : Z => {| r_status := 200; r_cl := if r =? 1 then Some 2 else None; r_te := false;
                             r_body := [r; r] |} in
  let s := run app (fun _ => true) toy_ser toy_parse
               [Enq 1; CSend; CRecv; SServe; Xfer 2; CRecv; Enq 2; Xfer 1; CRecv; Xfer 9; CSend; CRecv;
                CSend; SServe; Xfer 4; CRecv; Xfer 1; CRecv] in
  map fst (got s) = [1; 2] /\ map (fun x => m_frame (snd x)) (got s) = [Length 2; Chunked] /\
  pend s = [] /\ waited s = None.
Proof. vm_compute. repeat split; reflexivity. Qed.

