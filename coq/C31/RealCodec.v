(* C31 -- the codec premises of the session theorems discharged for the REAL codec model:
     ser   = what Responder.build + write put on the wire for a response (status line, the
             framing header line, CRLF, then the body raw or cut into chunks by an ARBITRARY
             chunking of the body, terminated by the empty chunk), rendered with C29's
             serialisation functions;
     parse = clienting.Respondent as modelled by C29 (V.Lib.C29_Http.http_feed on the
             accumulated buffer), a message being delivered when the machine is in SDone.
   parse_complete comes from C29's response_roundtrip_fixed / _chunked, parse_incomplete from
   C29's bytes_after_message_left_unconsumed.  C29's files are only imported. *)
From Coq Require Import String.
From Coq Require Import List ZArith Bool Lia.
Import ListNotations.
Require Import V.Lib.C29_Http V.Lib.C29_HttpProofs V.Lib.C29_HttpMachine V.C29.Model V.C29.Proofs.
Require Import V.C31.Model V.C31.Proofs.
Open Scope Z_scope.

(* ---------------------------------------------------------------- numerals *)

(* digit values of n, most significant first (at most [fuel] digits) *)
Fixpoint digs (base : Z) (fuel : nat) (n : Z) (acc : list Z) : list Z :=
  match fuel with
  | O => acc
  | S f => if n <? base then n :: acc else digs base f (n / base) (n mod base :: acc)
  end.

Lemma dval_cons base d ds a : dval base (d :: ds) a = dval base ds (a * base + dv d).
Proof. reflexivity. Qed.

Lemma dv_small d : d < 16 -> dv d = d.
Proof. intros H. unfold dv. destruct (d <? 16) eqn:E; [reflexivity|apply Z.ltb_ge in E; lia]. Qed.

Lemma dbound_ge base : base <= dbound base.
Proof. unfold dbound. destruct (base =? 16) eqn:E; [apply Z.eqb_eq in E; lia|lia]. Qed.

Lemma digs_val base : 2 <= base <= 16 -> forall fuel n acc, 0 <= n < base ^ Z.of_nat fuel ->
  dval base (digs base fuel n acc) 0 = dval base acc n.
Proof.
  intros Hb. induction fuel as [|f IH]; intros n acc Hn.
  - cbn in Hn. assert (n = 0) by lia. subst. reflexivity.
  - cbn [digs]. destruct (n <? base) eqn:E.
    + apply Z.ltb_lt in E. rewrite dval_cons, dv_small by lia. f_equal; lia.
    + apply Z.ltb_ge in E. rewrite IH.
      * pose proof (Z.mod_pos_bound n base ltac:(lia)).
        rewrite dval_cons, dv_small by lia. f_equal. pose proof (Z.div_mod n base ltac:(lia)). lia.
      * rewrite Nat2Z.inj_succ, Z.pow_succ_r in Hn by lia. split.
        -- apply Z.div_pos; lia.
        -- apply Z.div_lt_upper_bound; lia.
Qed.

Lemma digs_ok base : 2 <= base -> forall fuel n acc, 0 <= n -> digits_ok base acc = true ->
  (n < base ^ Z.of_nat fuel) -> digits_ok base (digs base fuel n acc) = true.
Proof.
  intros Hb. induction fuel as [|f IH]; intros n acc Hn Hacc Hlt; [exact Hacc|].
  cbn [digs]. destruct (n <? base) eqn:E.
  - apply Z.ltb_lt in E. pose proof (dbound_ge base). unfold digits_ok in *. cbn [forallb]. rewrite Hacc.
    replace (0 <=? n) with true by (symmetry; apply Z.leb_le; lia).
    replace (n <? dbound base) with true by (symmetry; apply Z.ltb_lt; lia). reflexivity.
  - apply Z.ltb_ge in E. apply IH.
    + apply Z.div_pos; lia.
    + unfold digits_ok in *. cbn [forallb]. rewrite Hacc. pose proof (Z.mod_pos_bound n base ltac:(lia)).
      pose proof (dbound_ge base).
      replace (0 <=? n mod base) with true by (symmetry; apply Z.leb_le; lia).
      replace (n mod base <? dbound base) with true by (symmetry; apply Z.ltb_lt; lia). reflexivity.
    + rewrite Nat2Z.inj_succ, Z.pow_succ_r in Hlt by lia. apply Z.div_lt_upper_bound; lia.
Qed.

Lemma digs_len base : forall fuel n acc, (length (digs base fuel n acc) <= fuel + length acc)%nat.
Proof.
  induction fuel as [|f IH]; intros n acc; [cbn; lia|].
  cbn [digs]. destruct (n <? base); [cbn; lia|]. specialize (IH (n / base) (n mod base :: acc)). cbn in IH. lia.
Qed.

Lemma digs_nonempty base : forall fuel n acc, (0 < fuel)%nat -> digs base fuel n acc <> [].
Proof.
  intros fuel n. revert n. induction fuel as [|f IH]; intros n acc Hf; [lia|].
  cbn [digs]. destruct (n <? base); [discriminate|].
  destruct f; [cbn; discriminate|]. apply IH. lia.
Qed.

Definition FUEL : nat := 18%nat.
Definition dec (n : Z) : list Z := digs 10 FUEL n [].
Definition hex (n : Z) : list Z := digs 16 16%nat n [].

Lemma dec_props n : 0 <= n < 10 ^ 18 ->
  dval 10 (dec n) 0 = n /\ digits_ok 10 (dec n) = true /\ dec n <> [] /\ len (dec n) <= 18.
Proof.
  intros Hn. unfold dec, FUEL. repeat split.
  - rewrite digs_val by (cbn; lia). reflexivity.
  - apply digs_ok; first [lia | reflexivity | (cbn; lia)].
  - apply digs_nonempty. lia.
  - unfold len. pose proof (digs_len 10 18 n []). cbn [length] in H. lia.
Qed.

Lemma hex_props n : 0 <= n < 16 ^ 16 ->
  dval 16 (hex n) 0 = n /\ digits_ok 16 (hex n) = true /\ hex n <> [] /\ len (hex n) <= 16.
Proof.
  intros Hn. unfold hex. repeat split.
  - rewrite digs_val by (cbn; lia). reflexivity.
  - apply digs_ok; first [lia | reflexivity | (cbn; lia)].
  - apply digs_nonempty. lia.
  - unfold len. pose proof (digs_len 16 16 n []). cbn [length] in H. lia.
Qed.

(* ---------------------------------------------------------------- the codec *)

Definition cf : cfg := {| maxline := 65536; maxhdrs := 100; url_ok := fun _ => true |}.

Definition status_digits (st : Z) : list Z := [st / 100; (st / 10) mod 10; st mod 10].

Definition hl (n post v : bytes) : hline := {| hl_name := n; hl_pre := []; hl_post := post; hl_value := v; hl_end := LCrLf |}.
Definition cl_line (n : Z) : hline := hl (bz "content-length") [32] (num (dec n)).
Definition te_line : hline := hl (bz "transfer-encoding") [32] (bz "chunked").
Definition REASON : list bytes := [bz "OK"].

Section Codec.
  (* how the application happened to cut the body into the pieces it yielded: arbitrary *)
  Variable chunking : bytes -> list bytes.
  Hypothesis chunking_concat : forall b, concat (chunking b) = b.
  Hypothesis chunking_nonempty : forall b p, In p (chunking b) -> p <> [].

  Definition mk_chunk (p : bytes) : chunk := (hex (len p), [], p).

  Definition real_ser (m : msg) : bytes :=
    match m_frame m with
    | Chunked =>
        head_bytes (status_line true (status_digits (m_status m)) REASON) LCrLf [te_line] LCrLf
        ++ chunked_bytes (map mk_chunk (chunking (m_body m))) [0] [] [] LCrLf
    | _ =>
        head_bytes (status_line true (status_digits (m_status m)) REASON) LCrLf [cl_line (len (m_body m))] LCrLf
        ++ m_body m
    end.

  Definition real_parse (l : bytes) : option (msg * bytes) :=
    let '(s, rest) := http_feed cf (init_pst true false, []) l in
    match p_stage s with
    | SDone => Some ({| m_status := p_status s;
                        m_frame := if p_chunked s then Chunked else Length (len (p_body s));
                        m_body := p_body s |}, rest)
    | _ => None
    end.

  (* what this codec carries: a final status that allows a body, sizes below 10^18 / 16^16 *)
  Definition real_ok (m : msg) : Prop :=
    200 <= m_status m < 1000 /\ m_status m <> 204 /\ m_status m <> 304 /\
    len (m_body m) < 10 ^ 18 /\ len (m_body m) < 16 ^ 16.

  Lemma status_digits_ok st : 200 <= st < 1000 ->
    status_ok (status_digits st) = true /\ dval 10 (status_digits st) 0 = st.
  Proof.
    intros H. unfold status_digits.
    assert (Hv : dval 10 [st / 100; (st / 10) mod 10; st mod 10] 0 = st).
    { assert (A1 : 0 <= st / 100 < 10) by (split; [apply Z.div_pos; lia|apply Z.div_lt_upper_bound; lia]).
      pose proof (Z.mod_pos_bound (st / 10) 10 ltac:(lia)) as A2.
      pose proof (Z.mod_pos_bound st 10 ltac:(lia)) as A3.
      unfold dval. cbn [fold_left]. rewrite !dv_small by lia.
      pose proof (Z.div_mod st 10 ltac:(lia)). pose proof (Z.div_mod (st / 10) 10 ltac:(lia)).
      assert (st / 10 / 10 = st / 100) by (rewrite Z.div_div by lia; reflexivity). lia. }
    split; [|exact Hv]. unfold status_ok. rewrite Hv. cbn [length Nat.eqb andb].
    assert (H1 : 0 <= st / 100 < 10) by (split; [apply Z.div_pos; lia|apply Z.div_lt_upper_bound; lia]).
    pose proof (Z.mod_pos_bound (st / 10) 10 ltac:(lia)) as H2.
    pose proof (Z.mod_pos_bound st 10 ltac:(lia)) as H3.
    unfold digits_ok. change (dbound 10) with 10. cbn [forallb].
    repeat match goal with
           | |- context [?a <=? ?b] => let E := fresh in destruct (a <=? b) eqn:E;
                                        [|apply Z.leb_gt in E; lia]
           | |- context [?a <? ?b] => let E := fresh in destruct (a <? b) eqn:E;
                                        [|apply Z.ltb_ge in E; lia]
           end.
    cbn. destruct (st =? 100) eqn:E; [apply Z.eqb_eq in E; lia|reflexivity].
  Qed.

  Lemma tok_value_ok v : tok_ok v = true -> value_ok v = true.
  Proof.
    intros H. unfold tok_ok in H. apply andb_true_iff in H. destruct H as [_ Hn].
    unfold value_ok. rewrite (strip_no_ws _ _ Hn), beq_refl, andb_true_r.
    unfold no_crlf. unfold no_ws in Hn. rewrite forallb_forall in *. intros c Hc. specialize (Hn c Hc).
    destruct (c =? 13) eqn:E1; [apply Z.eqb_eq in E1; subst; discriminate|].
    destruct (c =? 10) eqn:E2; [apply Z.eqb_eq in E2; subst; discriminate|]. reflexivity.
  Qed.

  Lemma cl_line_ok n : 0 <= n < 10 ^ 18 ->
    hline_ok (cl_line n) = true /\ line_len_ok cf (cl_line n) = true /\
    is_chunked (hdrs_of [cl_line n]) = false /\
    forall st, 200 <= st -> st <> 204 -> st <> 304 -> response_length false st (hdrs_of [cl_line n]) = Some n.
  Proof.
    intros Hn. destruct (dec_props n Hn) as [Hv [Hok [Hne Hlen]]].
    assert (Htok : tok_ok (num (dec n)) = true) by (apply num_tok; assumption).
    split; [|split; [|split]].
    - unfold hline_ok, cl_line, hl. cbn [hl_name hl_value hl_pre hl_post].
      rewrite (tok_value_ok _ Htok). reflexivity.
    - unfold line_len_ok, cl_line, hl, len. cbn [hl_name hl_value hl_pre hl_post].
      apply Z.leb_le. change (maxline cf) with 65536. rewrite !app_length. unfold num. rewrite map_length.
      change (length (bz "content-length")) with 14%nat. cbn [length]. unfold len in Hlen. lia.
    - apply is_chunked_absent. reflexivity.
    - intros st H1 H2 H3. unfold response_length.
      replace ((st =? 204) || (st =? 304) || ((100 <=? st) && (st <? 200)) || false) with false.
      + assert (Hc : is_chunked (hdrs_of [cl_line n]) = false) by (apply is_chunked_absent; reflexivity).
        rewrite Hc. rewrite (content_length_of_header _ (dec n)); [rewrite Hv; reflexivity|reflexivity|assumption..| lia].
      + symmetry. rewrite !orb_false_r.
        destruct (st =? 204) eqn:A; [apply Z.eqb_eq in A; lia|].
        destruct (st =? 304) eqn:B; [apply Z.eqb_eq in B; lia|].
        destruct (st <? 200) eqn:C; [apply Z.ltb_lt in C; lia|]. rewrite andb_false_r. reflexivity.
  Qed.

  Lemma mk_chunk_ok p : p <> [] -> len p < 16 ^ 16 -> chunk_ok cf (mk_chunk p) = true.
  Proof.
    intros Hne Hl. assert (H0 : 0 <= len p < 16 ^ 16) by (unfold len in *; lia).
    destruct (hex_props (len p) H0) as [Hv [Hok [Hn Hlen]]].
    unfold chunk_ok, mk_chunk, ch_size, ch_exts, ch_data. cbn [fst snd].
    rewrite Hok, Hv, Z.eqb_refl. unfold size_line, render_exts. cbn [flat_map]. rewrite app_nil_r.
    replace (is_nil (hex (len p))) with false by (destruct (hex (len p)); [contradiction|reflexivity]).
    replace (is_nil p) with false by (destruct p; [contradiction|reflexivity]).
    assert (A : (len (num (hex (len p))) <=? maxline cf) = true).
    { apply Z.leb_le. change (maxline cf) with 65536. unfold num, len. rewrite map_length. unfold len in Hlen. lia. }
    assert (B : (len (hex (len p)) <=? 4300) = true) by (apply Z.leb_le; lia).
    rewrite A, B. reflexivity.
  Qed.

  Lemma piece_len_le : forall (ps : list bytes) p, In p ps -> len p <= len (concat ps).
  Proof.
    induction ps as [|q ps IH]; intros p H; [contradiction|].
    cbn [concat]. unfold len in *. rewrite app_length. destruct H as [H|H].
    - subst. lia.
    - specialize (IH p H). lia.
  Qed.

  Lemma chunks_ok b : len b < 16 ^ 16 -> forallb (chunk_ok cf) (map mk_chunk (chunking b)) = true.
  Proof.
    intros Hl. apply forallb_forall. intros c Hc. apply in_map_iff in Hc. destruct Hc as [p [E Hp]]. subst c.
    apply mk_chunk_ok; [eapply chunking_nonempty; exact Hp|].
    pose proof (piece_len_le (chunking b) p Hp) as H. rewrite chunking_concat in H. lia.
  Qed.

  Lemma chunk_data_concat b : concat (map ch_data (map mk_chunk (chunking b))) = b.
  Proof.
    rewrite map_map. unfold mk_chunk, ch_data. cbn [snd]. rewrite map_id. apply chunking_concat.
  Qed.

  Lemma parms_none : forall (ps : list bytes), parms_of (map mk_chunk ps) [] [] = [].
  Proof.
    intros ps. unfold parms_of. cbn.
    assert (H : forall acc, fold_left (fun acc0 c => aupdate acc0 (exts_map (ch_exts c))) (map mk_chunk ps) acc = acc).
    { induction ps as [|p ps IH]; intros acc; [reflexivity|]. cbn [map fold_left]. rewrite <- (IH acc) at 2.
      f_equal. }
    rewrite H. reflexivity.
  Qed.

  Lemma done_fields hr v st reason lines body p t :
    let s := set_body (resp_headed hr v st reason lines) body p t SDone in
    p_stage s = SDone /\ p_status s = st /\ p_body s = body /\ p_chunked s = is_chunked (hdrs_of lines).
  Proof. repeat split; reflexivity. Qed.

  (* ---- the feed result on a whole message ---- *)
  Lemma real_feed : forall m rest, real_ok m -> delimited m ->
    exists s, http_feed cf (init_pst true false, []) (real_ser m ++ rest) = (s, rest) /\
              p_stage s = SDone /\ p_status s = m_status m /\ p_body s = m_body m /\
              p_chunked s = match m_frame m with Chunked => true | _ => false end.
  Proof.
    intros [st fr body] rest [Hst [H204 [H304 [Hl10 Hl16]]]] Hd.
    cbn [m_status m_body m_frame] in *. unfold delimited in Hd. cbn [m_frame m_body] in Hd.
    destruct (status_digits_ok st Hst) as [Hsok Hsv].
    assert (Hreason : forallb tok_ok REASON = true) by reflexivity.
    assert (Hsl : len (status_line true (status_digits st) REASON) <= maxline cf).
    { unfold status_line, status_digits, len. cbn. lia. }
    assert (H0 : 0 <= len body) by (unfold len; lia).
    unfold real_ser. cbn [m_frame m_status m_body].
    destruct fr as [n| |]; [| |contradiction].
    - destruct (cl_line_ok (len body) ltac:(lia)) as [Hh [Hll [Hnc Hrl]]].
      rewrite <- app_assoc.
      rewrite (response_fixed_roundtrip cf false true (status_digits st) REASON LCrLf [cl_line (len body)] LCrLf body rest);
        [ | first [ assumption | reflexivity
                  | (change (maxline cf) with 65536; lia)
                  | (change (maxhdrs cf) with 100; cbn [length]; lia)
                  | (cbn [forallb]; rewrite ?Hh, ?Hll; reflexivity)
                  | (rewrite Hsv; apply Hrl; lia) ] .. ].
      eexists. split; [reflexivity|]. unfold with_body.
      destruct (done_fields false true (dval 10 (status_digits st) 0) REASON [cl_line (len body)] body
                            (p_parms (resp_headed false true (dval 10 (status_digits st) 0) REASON [cl_line (len body)])) [])
        as [A [B [C D]]].
      rewrite A, B, C, D, Hsv, Hnc. repeat split; reflexivity.
    - rewrite <- app_assoc.
      assert (Hte : is_chunked (hdrs_of [te_line]) = true) by reflexivity.
      pose proof (chunks_ok body Hl16) as Hck.
      rewrite (response_chunked_roundtrip cf false true (status_digits st) REASON LCrLf [te_line] LCrLf
                 (map mk_chunk (chunking body)) [0] [] [] LCrLf rest);
        [ | first [ assumption | reflexivity
                  | (change (maxline cf) with 65536; lia)
                  | (change (maxhdrs cf) with 100; cbn [length]; lia) ] .. ].
      eexists. split; [reflexivity|]. unfold with_chunked.
      match goal with |- context [set_body ?h ?b ?p ?t SDone] =>
        destruct (done_fields false true (dval 10 (status_digits st) 0) REASON [te_line] b p t) as [A [B [C D]]] end.
      rewrite A, B, C, D, Hsv, Hte, chunk_data_concat. repeat split; reflexivity.
  Qed.

  Lemma real_complete : forall m rest, real_ok m -> delimited m -> real_parse (real_ser m ++ rest) = Some (m, rest).
  Proof.
    intros m rest Hok Hd. destruct (real_feed m rest Hok Hd) as [s [Hf [Hs [Hst [Hb Hc]]]]].
    unfold real_parse. rewrite Hf, Hs, Hst, Hb, Hc.
    destruct m as [st fr body]. cbn [m_frame m_body m_status] in *. unfold delimited in Hd. cbn in Hd.
    destruct fr as [n| |]; [|reflexivity|contradiction]. unfold len. rewrite Hd. reflexivity.
  Qed.

  Lemma real_incomplete : forall m pre suf, real_ok m -> delimited m -> real_ser m = pre ++ suf -> suf <> [] ->
    real_parse pre = None.
  Proof.
    intros m pre suf Hok Hd E Hs.
    destruct (real_feed m [] Hok Hd) as [s [Hf [Hsd _]]]. rewrite app_nil_r in Hf.
    unfold real_parse. destruct (http_feed cf (init_pst true false, []) pre) as [s' b'] eqn:Hp.
    destruct (p_stage s') eqn:Est; try reflexivity. exfalso.
    assert (Ht : terminal (p_stage s') = true) by (rewrite Est; reflexivity).
    pose proof (http_done_leftover cf (init_pst true false) pre s' b' suf Hp Ht) as Hx.
    rewrite <- E, Hf in Hx. injection Hx as Hs2 Hb. destruct suf; [contradiction|]. destruct b'; discriminate.
  Qed.

  Lemma real_nonempty : forall m, real_ok m -> delimited m -> real_ser m <> [].
  Proof.
    intros m _ _. unfold real_ser, head_bytes, status_line. destruct (m_frame m); cbn; discriminate.
  Qed.
End Codec.

(* ---------------------------------------------------------------- the session theorems, real codec *)

Definition real_app_ok (app : Z -> resp) : Prop :=
  forall r, wf_resp (app r) = true /\ 200 <= r_status (app r) < 1000 /\ r_status (app r) <> 204 /\
            r_status (app r) <> 304 /\ len (r_body (app r)) < 10 ^ 18 /\ len (r_body (app r)) < 16 ^ 16.

Lemma sent_body_len cl body : len (sent_body cl body) <= len body.
Proof.
  unfold sent_body, len. destruct cl as [n|]; [|lia]. rewrite firstn_length. lia.
Qed.

Lemma real_answers_ok app : real_app_ok app ->
  forall r, real_ok (snd (respond_to app (fun _ => true) None r)).
Proof.
  intros H r. destruct (H r) as [Hwf [Hs [H2 [H3 [Ha Hb]]]]].
  unfold respond_to. rewrite respond_11. unfold real_ok. cbn [snd m_status m_body].
  pose proof (sent_body_len (r_cl (app r)) (r_body (app r))). repeat split; try assumption; lia.
Qed.

Section RealSession.
  Variable chunking : bytes -> list bytes.
  Hypothesis chunking_concat : forall b, concat (chunking b) = b.
  Hypothesis chunking_nonempty : forall b p, In p (chunking b) -> p <> [].
  Variable app : Z -> resp.
  Hypothesis app_ok : real_app_ok app.

  Let ser := real_ser chunking.
  Let v11 := fun _ : Z => true.

  Lemma real_quiescent : forall sched,
    pend (run app v11 ser real_parse sched) = [] -> waited (run app v11 ser real_parse sched) = None ->
    got (run app v11 ser real_parse sched) = serve_all app v11 None (allreqs (run app v11 ser real_parse sched)) /\
    map fst (got (run app v11 ser real_parse sched)) = allreqs (run app v11 ser real_parse sched) /\
    length (got (run app v11 ser real_parse sched)) = length (allreqs (run app v11 ser real_parse sched)) /\
    rxbs (run app v11 ser real_parse sched) = [] /\ s2c (run app v11 ser real_parse sched) = [].
  Proof.
    apply (quiescent_all app v11 ser real_parse real_ok (fun _ => eq_refl) (fun r => proj1 (app_ok r))
                         (real_answers_ok app app_ok)
                         (real_complete chunking chunking_concat chunking_nonempty)
                         (real_incomplete chunking chunking_concat chunking_nonempty)
                         (real_nonempty chunking)).
  Qed.

  Lemma real_prefix : forall sched, exists rest,
    serve_all app v11 None (allreqs (run app v11 ser real_parse sched)) = got (run app v11 ser real_parse sched) ++ rest.
  Proof.
    apply (responses_prefix app v11 ser real_parse real_ok (fun _ => eq_refl) (fun r => proj1 (app_ok r))
                            (real_answers_ok app app_ok)
                            (real_complete chunking chunking_concat chunking_nonempty)
                            (real_incomplete chunking chunking_concat chunking_nonempty)
                            (real_nonempty chunking)).
  Qed.

  Lemma real_progress : forall sched, exists more,
    pend (run app v11 ser real_parse (sched ++ more)) = [] /\
    waited (run app v11 ser real_parse (sched ++ more)) = None /\
    allreqs (run app v11 ser real_parse (sched ++ more)) = allreqs (run app v11 ser real_parse sched).
  Proof.
    apply (progress app v11 ser real_parse real_ok (fun _ => eq_refl) (fun r => proj1 (app_ok r))
                    (real_answers_ok app app_ok)
                    (real_complete chunking chunking_concat chunking_nonempty)
                    (real_incomplete chunking chunking_concat chunking_nonempty)
                    (real_nonempty chunking)).
  Qed.
End RealSession.
