(* C31 -- the two codec contracts assumed by the session theorems are satisfiable: a concrete
   self-delimiting codec (a 3-element head [tag; status; body length] followed by the body)
   meets both, so n_requests_n_responses_in_order & co. are not vacuous.  This toy head is NOT
   ioflo's head syntax (that is C29's subject); the body framing of the real codec is proved
   in C30 (chunked_response_roundtrip, request_body_roundtrip). *)
From Coq Require Import List ZArith Bool Lia.
Import ListNotations.
Require Import V.C31.Model V.C31.Proofs.
Open Scope Z_scope.

Definition toy_ser (m : msg) : list Z :=
  (match m_frame m with Length _ => 0 | Chunked => 1 | UntilClose => 2 end)
    :: m_status m :: Z.of_nat (length (m_body m)) :: m_body m.

Definition toy_parse (l : list Z) : option (msg * list Z) :=
  match l with
  | tag :: st :: n :: rest =>
      if (tag =? 2) || (n <? 0) || (length rest <? Z.to_nat n)%nat then None
      else Some ({| m_status := st;
                    m_frame := if tag =? 0 then Length n else Chunked;
                    m_body := firstn (Z.to_nat n) rest |}, skipn (Z.to_nat n) rest)
  | _ => None
  end.

Lemma firstn_len_app : forall (A : Type) (a b : list A), firstn (length a) (a ++ b) = a.
Proof. induction a; intros; cbn; [reflexivity|f_equal; auto]. Qed.

Lemma skipn_len_app : forall (A : Type) (a b : list A), skipn (length a) (a ++ b) = b.
Proof. induction a; intros; cbn; auto. Qed.

Lemma toy_complete : forall m rest, delimited m -> toy_parse (toy_ser m ++ rest) = Some (m, rest).
Proof.
  intros [st fr body] rest Hd. unfold delimited in Hd. cbn [m_frame m_body] in Hd.
  unfold toy_ser, toy_parse. cbn [m_frame m_status m_body app].
  rewrite Nat2Z.id.
  assert (Hn : (Z.of_nat (length body) <? 0) = false) by (apply Z.ltb_ge; lia).
  assert (Hl : (length (body ++ rest) <? length body)%nat = false).
  { apply Nat.ltb_ge. rewrite app_length. lia. }
  rewrite Hn, Hl, firstn_len_app, skipn_len_app.
  destruct fr as [n| |]; cbn.
  - rewrite Hd. reflexivity.
  - reflexivity.
  - contradiction.
Qed.

Lemma toy_incomplete : forall m pre suf, delimited m -> toy_ser m = pre ++ suf -> suf <> [] ->
  toy_parse pre = None.
Proof.
  intros m pre suf Hd E Hs. unfold toy_ser in E.
  destruct pre as [|a [|b [|c rest]]]; try reflexivity.
  cbn [app] in E. inversion E as [[Ea Eb Ec Er]]. subst a b c.
  unfold toy_parse. rewrite Nat2Z.id.
  assert (Hlen : (length rest < length (m_body m))%nat).
  { rewrite Er. rewrite app_length. destruct suf; [contradiction|cbn; lia]. }
  apply Nat.ltb_lt in Hlen. rewrite Hlen. rewrite orb_true_r. reflexivity.
Qed.

(* the session theorem instantiated: no premise about the codec left *)
Lemma toy_session : forall (app : Z -> resp) sched,
  (forall r, wf_resp (app r) = true) ->
  let s := run app (fun _ => true) toy_ser toy_parse sched in
  pend s = [] -> waited s = None ->
  got s = serve_all app (fun _ => true) None (allreqs s) /\ length (got s) = length (allreqs s).
Proof.
  intros app sched Hwf s Hp Hw.
  destruct (quiescent_all app (fun _ => true) toy_ser toy_parse (fun _ => True) (fun _ => eq_refl) Hwf
                          (fun _ => I) (fun m rest _ => toy_complete m rest)
                          (fun m pre suf _ => toy_incomplete m pre suf)
                          (fun m _ _ => ltac:(unfold toy_ser; discriminate)) sched Hp Hw) as [A [_ [B _]]].
  split; assumption.
Qed.
