(* C31 -- property theorems for the REAL codec (depends on eng-H's C29 development:
   V.Lib.C29_Http*, V.C29.Model, V.C29.Proofs -- imported, not edited).  Each closed by [exact]. *)
From Coq Require Import List ZArith Bool.
Import ListNotations.
Require Import V.C31.Model V.C31.Proofs V.C31.RealCodec.
Open Scope Z_scope.

(* One persistent connection, ALL schedules of enqueue / client send / server service /
   partial byte transfer / client receive steps, ALL applications keeping the WSGI contract.

   REAL CODEC.  ser = Responder's bytes (status line, Content-Length or Transfer-Encoding
   line, CRLF, body raw or in chunks for an ARBITRARY cutting of the body into non-empty
   pieces, empty chunk) rendered with C29's serialisation; parse = C29's model of
   clienting.Respondent (http_feed on the accumulated buffer, delivered in SDone).  The two
   codec contracts are no longer premises: they are derived from C29's
   response_roundtrip_fixed / _chunked and bytes_after_message_left_unconsumed.
   real_app_ok: WSGI contract, final status 200..999 other than 204/304, body < 10^18 bytes. *)

(* whenever the client has nothing pending it holds exactly the N responses, in request
   order, each filed under the request that caused it, and both buffers are empty (the
   connection is usable for the next request) *)
Theorem n_requests_n_responses_in_order :
  forall (chunking : list Z -> list (list Z)),
  (forall b, concat (chunking b) = b) -> (forall b p, In p (chunking b) -> p <> []) ->
  forall (app : Z -> resp), real_app_ok app ->
  forall sched,
    let s := run app (fun _ => true) (real_ser chunking) real_parse sched in
    pend s = [] -> waited s = None ->
    got s = serve_all app (fun _ => true) None (allreqs s) /\
    map fst (got s) = allreqs s /\ length (got s) = length (allreqs s) /\
    rxbs s = [] /\ s2c s = [].
Proof. exact real_quiescent. Qed.
Print Assumptions n_requests_n_responses_in_order.

(* at every moment of every schedule the responses received so far are a prefix of the
   expected ones: never a wrong, misfiled, duplicated or out-of-order response *)
Theorem responses_always_a_prefix :
  forall (chunking : list Z -> list (list Z)),
  (forall b, concat (chunking b) = b) -> (forall b p, In p (chunking b) -> p <> []) ->
  forall (app : Z -> resp), real_app_ok app ->
  forall sched, exists rest,
    serve_all app (fun _ => true) None (allreqs (run app (fun _ => true) (real_ser chunking) real_parse sched)) =
    got (run app (fun _ => true) (real_ser chunking) real_parse sched) ++ rest.
Proof. exact real_prefix. Qed.
Print Assumptions responses_always_a_prefix.

(* and every schedule can be continued to such a quiescent state (no request is stuck) *)
Theorem every_request_answerable :
  forall (chunking : list Z -> list (list Z)),
  (forall b, concat (chunking b) = b) -> (forall b p, In p (chunking b) -> p <> []) ->
  forall (app : Z -> resp), real_app_ok app ->
  forall sched, exists more,
    pend (run app (fun _ => true) (real_ser chunking) real_parse (sched ++ more)) = [] /\
    waited (run app (fun _ => true) (real_ser chunking) real_parse (sched ++ more)) = None /\
    allreqs (run app (fun _ => true) (real_ser chunking) real_parse (sched ++ more)) =
    allreqs (run app (fun _ => true) (real_ser chunking) real_parse sched).
Proof. exact real_progress. Qed.
Print Assumptions every_request_answerable.

(* the codec contracts themselves, for the real codec *)
Theorem real_codec_contracts :
  forall (chunking : list Z -> list (list Z)),
  (forall b, concat (chunking b) = b) -> (forall b p, In p (chunking b) -> p <> []) ->
  (forall m rest, real_ok m -> delimited m -> real_parse (real_ser chunking m ++ rest) = Some (m, rest)) /\
  (forall m pre suf, real_ok m -> delimited m -> real_ser chunking m = pre ++ suf -> suf <> [] -> real_parse pre = None).
Proof.
  exact (fun ch H1 H2 => conj (real_complete ch H1 H2) (real_incomplete ch H1 H2)).
Qed.
Print Assumptions real_codec_contracts.

(* the same on the REAL codec: bytes are genuine HTTP/1.1 responses, parsed by C29's Respondent model *)
Example c31_real_codec_example :
  let chunking := fun b : list Z => match b with [] => [] | _ => [b] end in
  let app := fun r : Z => {| r_status := 200; r_cl := if r =? 1 then Some 2 else None; r_te := false;
                             r_body := [104 + r; 105] |} in
  let s := run app (fun _ => true) (real_ser chunking) real_parse
               [Enq 1; Enq 2; CSend; SServe; Xfer 20; CRecv; Xfer 17; CRecv; Xfer 3; CRecv; CSend; CRecv;
                SServe; Xfer 40; CRecv; Xfer 40; CRecv] in
  map fst (got s) = [1; 2] /\ map (fun x => (m_frame (snd x), m_body (snd x))) (got s) = [(Length 2, [105; 105]); (Chunked, [106; 105])] /\
  pend s = [] /\ waited s = None /\ rxbs s = [] /\
  real_ser chunking (snd (respond_to app (fun _ => true) None 2)) =
    [72;84;84;80;47;49;46;49;32;50;48;48;32;79;75;13;10;
     116;114;97;110;115;102;101;114;45;101;110;99;111;100;105;110;103;58;32;99;104;117;110;107;101;100;13;10;13;10;
     50;13;10;106;105;13;10;48;13;10;13;10].
Proof. vm_compute. repeat split; reflexivity. Qed.
