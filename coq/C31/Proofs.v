From Coq Require Import List ZArith Bool Lia.
Import ListNotations.
Require Import V.C31.Model.
Open Scope Z_scope.

(* ---------------------------------------------------------------- Part 1 *)

(* after the fix the response to an HTTP/1.1 request does not depend on what the reused
   Responder went through before *)
Lemma respond_11 : forall sv a,
  respond sv true a =
  (Some (fst (start (new_responder true) (r_cl a))),
   {| m_status := r_status a;
      m_frame := match r_cl a with Some n => Length n | None => if r_te a then UntilClose else Chunked end;
      m_body := sent_body (r_cl a) (r_body a) |}).
Proof.
  intros sv a. unfold respond, respond_with.
  assert (Hs : valet_step sv true = new_responder true) by (destruct sv; reflexivity).
  rewrite Hs. destruct (r_cl a) as [n|]; cbn; [reflexivity|].
  destruct (r_te a); reflexivity.
Qed.

Lemma respond_frame : forall sv a, wf_resp a = true ->
  m_frame (snd (respond sv true a)) = match r_cl a with Some n => Length n | None => Chunked end.
Proof.
  intros sv a Hwf. rewrite respond_11. cbn.
  unfold wf_resp in Hwf. apply andb_true_iff in Hwf. destruct Hwf as [Hte _].
  destruct (r_cl a); [reflexivity|]. destruct (r_te a); [discriminate|reflexivity].
Qed.

Lemma respond_delimited : forall sv a, wf_resp a = true -> delimited (snd (respond sv true a)).
Proof.
  intros sv a Hwf. unfold delimited. rewrite respond_frame by exact Hwf.
  rewrite respond_11. cbn [snd m_body].
  unfold wf_resp in Hwf. apply andb_true_iff in Hwf. destruct Hwf as [_ Hcl].
  destruct (r_cl a) as [n|]; [|exact I].
  apply andb_true_iff in Hcl. destruct Hcl as [H0 H1].
  apply Z.leb_le in H0. apply Z.leb_le in H1. cbn [sent_body].
  rewrite firstn_length. rewrite Nat.min_l by lia. lia.
Qed.

Lemma framings_spec_gen : forall qs sv,
  Forall (fun q => fst q = true /\ wf_resp (snd q) = true) qs ->
  framings_with valet_step sv qs =
  map (fun q => match r_cl (snd q) with Some n => Length n | None => Chunked end) qs.
Proof.
  induction qs as [|[v a] qs IH]; intros sv H; [reflexivity|].
  inversion H as [|x l [Hv Hwf] Hrest]; subst. cbn in Hv, Hwf. subst v.
  cbn [framings_with map snd].
  pose proof (respond_frame sv a Hwf) as Hf.
  unfold respond in Hf. destruct (respond_with valet_step sv true a) as [sv' m] eqn:E.
  cbn [snd] in Hf. rewrite Hf. f_equal. apply IH. exact Hrest.
Qed.

Lemma framings_spec : forall qs,
  Forall (fun q => fst q = true /\ wf_resp (snd q) = true) qs ->
  framings qs = map (fun q => match r_cl (snd q) with Some n => Length n | None => Chunked end) qs.
Proof. intros. apply framings_spec_gen. assumption. Qed.

Lemma persistent_delimited : forall qs,
  Forall (fun q => fst q = true /\ wf_resp (snd q) = true) qs ->
  Forall (fun f => f <> UntilClose) (framings qs).
Proof.
  intros qs H. rewrite framings_spec by exact H. apply Forall_forall. intros f Hin.
  apply in_map_iff in Hin. destruct Hin as [q [Hq _]]. subst f.
  destruct (r_cl (snd q)); discriminate.
Qed.

(* the code as found: the second length-less response on a connection is not delimited *)
Lemma unfixed_refuted :
  exists qs, Forall (fun q => fst q = true /\ wf_resp (snd q) = true) qs /\
             In UntilClose (framings_unfixed qs).
Proof.
  exists [(true, {| r_status := 200; r_cl := None; r_te := false; r_body := [120] |});
          (true, {| r_status := 200; r_cl := None; r_te := false; r_body := [121] |})].
  split.
  - repeat constructor.
  - vm_compute. right. left. reflexivity.
Qed.

Lemma no_close_mid_request : forall c, v_parsing c = true -> may_close c = false.
Proof. intros c H. unfold may_close. rewrite H. cbn. rewrite andb_false_r. reflexivity. Qed.

Lemma close_when_done : forall c, v_responder_ended c = true -> v_persisted c = false ->
  v_parsing c = false -> v_txes_empty c = true -> may_close c = true.
Proof. intros c A B C D. unfold may_close. rewrite A, B, C, D. reflexivity. Qed.

Lemma unfixed_closes_mid_request : exists c, v_parsing c = true /\ may_close_unfixed c = true.
Proof.
  exists {| v_responder_ended := true; v_persisted := false; v_parsing := true; v_txes_empty := true |}.
  split; reflexivity.
Qed.

Lemma persistent_never_idle_dropped : forall configured elapsed,
  idle_drop (timeout_after_head true configured) elapsed = false.
Proof. reflexivity. Qed.

Lemma nonpersistent_idle_dropped : forall configured elapsed, 0 < configured -> configured <= elapsed ->
  idle_drop (timeout_after_head false configured) elapsed = true.
Proof.
  intros c e H1 H2. unfold idle_drop, timeout_after_head.
  apply andb_true_iff. split; [apply Z.ltb_lt; exact H1|apply Z.leb_le; exact H2].
Qed.

(* ---------------------------------------------------------------- Part 2 *)

Section SessionProofs.
  Variable app : Z -> resp.
  Variable ver11 : Z -> bool.
  Variable ser : msg -> list Z.
  Variable parse : list Z -> option (msg * list Z).

  Variable okmsg : msg -> Prop.      (* what the codec can carry (status range, sizes ...) *)

  Hypothesis all11 : forall r, ver11 r = true.
  Hypothesis app_wf : forall r, wf_resp (app r) = true.
  Hypothesis app_ok : forall r, okmsg (snd (Model.respond_to app ver11 None r)).
  (* contracts of the message codec (head + framed body), for delimited messages it can carry *)
  Hypothesis parse_complete : forall m rest, okmsg m -> delimited m -> parse (ser m ++ rest) = Some (m, rest).
  Hypothesis parse_incomplete : forall m pre suf, okmsg m -> delimited m -> ser m = pre ++ suf -> suf <> [] ->
                                                  parse pre = None.
  Hypothesis ser_nonempty : forall m, okmsg m -> delimited m -> ser m <> [].

  Notation respond_to := (respond_to app ver11).
  Notation serve_all := (serve_all app ver11).
  Notation do_step := (do_step app ver11 ser parse).
  Notation run := (run app ver11 ser parse).

  Definition answer (r : Z) : msg := snd (respond_to None r).
  Definition ans (r : Z) : Z * msg := (r, answer r).

  Lemma respond_to_indep : forall sv r, snd (respond_to sv r) = answer r.
  Proof.
    intros sv r. unfold answer, Model.respond_to. rewrite all11. rewrite !respond_11. reflexivity.
  Qed.

  Lemma answer_delimited : forall r, delimited (answer r).
  Proof.
    intros r. unfold answer, Model.respond_to. rewrite all11. apply respond_delimited. apply app_wf.
  Qed.

  Lemma serve_all_map : forall rs sv, serve_all sv rs = map ans rs.
  Proof.
    induction rs as [|r rs IH]; intros sv; [reflexivity|].
    cbn [Model.serve_all map]. pose proof (respond_to_indep sv r) as H.
    destruct (respond_to sv r) as [sv' m] eqn:E. cbn [snd] in H. subst m.
    rewrite IH. reflexivity.
  Qed.

  Lemma answer_ok : forall r, okmsg (answer r).
  Proof. intro r. apply app_ok. Qed.

  Definition Inv (s : st) : Prop :=
    (waited s = None /\ c2s s = [] /\ s2c s = [] /\ rxbs s = [] /\
     map ans (allreqs s) = got s ++ map ans (pend s))
    \/ (exists r, waited s = Some r /\ c2s s = [r] /\ s2c s = [] /\ rxbs s = [] /\
                  map ans (allreqs s) = got s ++ ans r :: map ans (pend s))
    \/ (exists r, waited s = Some r /\ c2s s = [] /\ rxbs s ++ s2c s = ser (answer r) /\
                  map ans (allreqs s) = got s ++ ans r :: map ans (pend s)).

  Lemma inv_init : Inv (init).
  Proof. left. cbn. repeat split; reflexivity. Qed.

  Lemma inv_step : forall s o, Inv s -> Inv (do_step s o).
  Proof.
    intros s o HI. destruct o as [r'| | |k| |ms]; [| | | | |exact HI].
    - (* Enq *)
      destruct HI as [[Hw [Hc [Hs [Hr Hm]]]] | [[r [Hw [Hc [Hs [Hr Hm]]]]] | [r [Hw [Hc [Hr Hm]]]]]].
      + left. cbn. repeat split; try assumption. rewrite !map_app, Hm, <- app_assoc. reflexivity.
      + right. left. exists r. cbn. repeat split; try assumption.
        rewrite !map_app, Hm, <- app_assoc. reflexivity.
      + right. right. exists r. cbn. repeat split; try assumption.
        rewrite !map_app, Hm, <- app_assoc. reflexivity.
    - (* CSend *)
      destruct HI as [[Hw [Hc [Hs [Hr Hm]]]] | [[r [Hw [Hc [Hs [Hr Hm]]]]] | [r [Hw [Hc [Hr Hm]]]]]].
      + cbn [Model.do_step]. rewrite Hw. destruct (pend s) as [|r p] eqn:Hp.
        * left. repeat split; try assumption. rewrite Hp. exact Hm.
        * right. left. exists r. cbn. rewrite Hc. repeat split; try assumption.
      + cbn [Model.do_step]. rewrite Hw. right. left. exists r. repeat split; assumption.
      + cbn [Model.do_step]. rewrite Hw. right. right. exists r. repeat split; assumption.
    - (* SServe *)
      destruct HI as [[Hw [Hc [Hs [Hr Hm]]]] | [[r [Hw [Hc [Hs [Hr Hm]]]]] | [r [Hw [Hc [Hr Hm]]]]]].
      + cbn [Model.do_step]. rewrite Hc. left. repeat split; assumption.
      + cbn [Model.do_step]. rewrite Hc.
        pose proof (respond_to_indep (srv s) r) as Hi.
        destruct (respond_to (srv s) r) as [sv' m] eqn:E. cbn [snd] in Hi. subst m.
        right. right. exists r. cbn. rewrite Hs, Hr. repeat split; try assumption.
      + cbn [Model.do_step]. rewrite Hc. right. right. exists r. repeat split; assumption.
    - (* Xfer *)
      destruct HI as [[Hw [Hc [Hs [Hr Hm]]]] | [[r [Hw [Hc [Hs [Hr Hm]]]]] | [r [Hw [Hc [Hr Hm]]]]]].
      + left. cbn. rewrite Hs, Hr, firstn_nil, skipn_nil. repeat split; assumption.
      + right. left. exists r. cbn. rewrite Hs, Hr, firstn_nil, skipn_nil. repeat split; assumption.
      + right. right. exists r. cbn. rewrite <- app_assoc, firstn_skipn. repeat split; assumption.
    - (* CRecv *)
      destruct HI as [[Hw [Hc [Hs [Hr Hm]]]] | [[r [Hw [Hc [Hs [Hr Hm]]]]] | [r [Hw [Hc [Hr Hm]]]]]].
      + cbn [Model.do_step]. rewrite Hw. left. repeat split; assumption.
      + cbn [Model.do_step]. rewrite Hw, Hr.
        assert (Hn : parse [] = None).
        { apply (parse_incomplete (answer r) [] (ser (answer r))).
          - apply answer_ok.
          - apply answer_delimited.
          - reflexivity.
          - apply ser_nonempty; [apply answer_ok|apply answer_delimited]. }
        rewrite Hn. right. left. exists r. repeat split; assumption.
      + cbn [Model.do_step]. rewrite Hw.
        destruct (s2c s) as [|x xs] eqn:Hs.
        * rewrite app_nil_r in Hr. rewrite Hr.
          pose proof (parse_complete (answer r) [] (answer_ok r) (answer_delimited r)) as Hp.
          rewrite app_nil_r in Hp. rewrite Hp.
          left. cbn. repeat split; try assumption.
          rewrite Hm. rewrite <- app_assoc. reflexivity.
        * assert (Hn : parse (rxbs s) = None).
          { apply (parse_incomplete (answer r) (rxbs s) (x :: xs)).
            - apply answer_ok.
            - apply answer_delimited.
            - symmetry. exact Hr.
            - discriminate. }
          rewrite Hn. right. right. exists r. rewrite Hs. repeat split; assumption.
  Qed.

  Lemma run_snoc : forall sched o, run (sched ++ [o]) = do_step (run sched) o.
  Proof. intros. unfold Model.run. rewrite fold_left_app. reflexivity. Qed.

  Lemma inv_run : forall sched, Inv (run sched).
  Proof.
    intros sched. induction sched as [|o sched IH] using rev_ind.
    - apply inv_init.
    - rewrite run_snoc. apply inv_step. exact IH.
  Qed.

  (* never a wrong, misfiled, duplicated or out-of-order response *)
  Lemma responses_prefix : forall sched,
    exists rest, serve_all None (allreqs (run sched)) = got (run sched) ++ rest.
  Proof.
    intros sched. rewrite serve_all_map.
    destruct (inv_run sched) as [[Hw [Hc [Hs [Hr Hm]]]] | [[r [Hw [Hc [Hs [Hr Hm]]]]] | [r [Hw [Hc [Hr Hm]]]]]];
      rewrite Hm; eexists; reflexivity.
  Qed.

  (* when the client has nothing pending: exactly the N responses, in request order, each filed
     under the request that caused it; nothing left in either buffer *)
  Lemma quiescent_all : forall sched,
    pend (run sched) = [] -> waited (run sched) = None ->
    got (run sched) = serve_all None (allreqs (run sched)) /\
    map fst (got (run sched)) = allreqs (run sched) /\
    length (got (run sched)) = length (allreqs (run sched)) /\
    rxbs (run sched) = [] /\ s2c (run sched) = [].
  Proof.
    intros sched Hp Hw0. rewrite serve_all_map.
    destruct (inv_run sched) as [[Hw [Hc [Hs [Hr Hm]]]] | [[r [Hw [Hc [Hs [Hr Hm]]]]] | [r [Hw [Hc [Hr Hm]]]]]];
      try congruence.
    rewrite Hp in Hm. cbn [map] in Hm. rewrite app_nil_r in Hm. rewrite <- Hm.
    repeat split; try assumption.
    - rewrite map_map. cbn. apply map_id.
    - apply map_length.
  Qed.

  (* progress: every reachable state can be driven to quiescence *)
  Lemma drain_pending : forall n s, Inv s -> waited s = None -> length (pend s) = n ->
    exists more, let s' := fold_left do_step more s in
                 pend s' = [] /\ waited s' = None /\ allreqs s' = allreqs s.
  Proof.
    induction n as [|n IH]; intros s HI Hw Hl.
    - exists []. cbn. destruct (pend s); [auto|discriminate].
    - destruct HI as [[_ [Hc [Hs [Hr Hm]]]] | [[r [Hw' _]] | [r [Hw' _]]]]; try congruence.
      destruct (pend s) as [|r p] eqn:Hp; [discriminate|].
      set (s1 := do_step s CSend).
      set (s2 := do_step s1 SServe).
      set (s3 := do_step s2 (Xfer (length (ser (answer r))))).
      set (s4 := do_step s3 CRecv).
      assert (I4 : Inv s4).
      { unfold s4, s3, s2, s1. repeat apply inv_step. left. repeat split; try assumption.
        rewrite Hp. exact Hm. }
      assert (E1 : s1 = {| allreqs := allreqs s; pend := p; waited := Some r; c2s := [r]; srv := srv s;
                           s2c := []; rxbs := []; got := got s |}).
      { unfold s1. cbn [Model.do_step]. rewrite Hw, Hp, Hc, Hs, Hr. reflexivity. }
      pose proof (respond_to_indep (srv s) r) as Hi.
      destruct (respond_to (srv s) r) as [sv' m] eqn:E. cbn [snd] in Hi. subst m.
      assert (E2 : s2 = {| allreqs := allreqs s; pend := p; waited := Some r; c2s := []; srv := sv';
                           s2c := ser (answer r); rxbs := []; got := got s |}).
      { unfold s2. rewrite E1. cbn [Model.do_step c2s srv]. rewrite E. reflexivity. }
      assert (E3 : s3 = {| allreqs := allreqs s; pend := p; waited := Some r; c2s := []; srv := sv';
                           s2c := []; rxbs := ser (answer r); got := got s |}).
      { unfold s3. rewrite E2. cbn [Model.do_step s2c rxbs allreqs pend waited c2s srv got].
        rewrite skipn_all, firstn_all. reflexivity. }
      assert (E4 : s4 = {| allreqs := allreqs s; pend := p; waited := None; c2s := []; srv := sv';
                           s2c := []; rxbs := []; got := got s ++ [(r, answer r)] |}).
      { unfold s4. rewrite E3. cbn [Model.do_step waited rxbs].
        pose proof (parse_complete (answer r) [] (answer_ok r) (answer_delimited r)) as Hpc.
        rewrite app_nil_r in Hpc. rewrite Hpc. reflexivity. }
      destruct (IH s4 I4) as [more Hmore].
      { rewrite E4. reflexivity. }
      { rewrite E4. cbn. cbn in Hl. lia. }
      exists ([CSend; SServe; Xfer (length (ser (answer r))); CRecv] ++ more).
      rewrite fold_left_app. cbn [fold_left]. fold s1. fold s2. fold s3. fold s4.
      cbn zeta in Hmore. destruct Hmore as [A [B C]]. repeat split; try assumption.
      rewrite C, E4. reflexivity.
  Qed.

  Lemma progress : forall sched, exists more,
    pend (run (sched ++ more)) = [] /\ waited (run (sched ++ more)) = None /\
    allreqs (run (sched ++ more)) = allreqs (run sched).
  Proof.
    intros sched. pose proof (inv_run sched) as HI. set (s := run sched) in *.
    assert (Hfin : exists pre, let s' := fold_left do_step pre s in
                               Inv s' /\ waited s' = None /\ allreqs s' = allreqs s).
    { destruct HI as [[Hw [Hc [Hs [Hr Hm]]]] | [[r [Hw [Hc [Hs [Hr Hm]]]]] | [r [Hw [Hc [Hr Hm]]]]]].
      - exists []. cbn. repeat split; [|exact Hw]. left. repeat split; assumption.
      - (* request in flight: serve, transfer, receive *)
        exists [SServe; Xfer (length (ser (answer r))); CRecv]. cbn [fold_left].
        set (s2 := do_step s SServe).
        set (s3 := do_step s2 (Xfer (length (ser (answer r))))).
        set (s4 := do_step s3 CRecv).
        assert (I0 : Inv s) by (right; left; exists r; repeat split; assumption).
        pose proof (respond_to_indep (srv s) r) as Hi.
        destruct (respond_to (srv s) r) as [sv' m] eqn:E. cbn [snd] in Hi. subst m.
        assert (E2 : s2 = {| allreqs := allreqs s; pend := pend s; waited := Some r; c2s := []; srv := sv';
                             s2c := ser (answer r); rxbs := []; got := got s |}).
        { unfold s2. cbn [Model.do_step]. rewrite Hc, E, Hs, Hr, Hw. reflexivity. }
        assert (E3 : s3 = {| allreqs := allreqs s; pend := pend s; waited := Some r; c2s := []; srv := sv';
                             s2c := []; rxbs := ser (answer r); got := got s |}).
        { unfold s3. rewrite E2. cbn [Model.do_step s2c rxbs allreqs pend waited c2s srv got].
          rewrite skipn_all, firstn_all. reflexivity. }
        assert (E4 : s4 = {| allreqs := allreqs s; pend := pend s; waited := None; c2s := []; srv := sv';
                             s2c := []; rxbs := []; got := got s ++ [(r, answer r)] |}).
        { unfold s4. rewrite E3. cbn [Model.do_step waited rxbs].
          pose proof (parse_complete (answer r) [] (answer_ok r) (answer_delimited r)) as Hpc.
          rewrite app_nil_r in Hpc. rewrite Hpc. reflexivity. }
        cbn zeta. split; [repeat apply inv_step; exact I0|]. rewrite E4. split; reflexivity.
      - (* response partly delivered: deliver the rest, receive *)
        exists [Xfer (length (s2c s)); CRecv]. cbn [fold_left].
        set (s3 := do_step s (Xfer (length (s2c s)))).
        set (s4 := do_step s3 CRecv).
        assert (I0 : Inv s) by (right; right; exists r; repeat split; assumption).
        assert (E3 : s3 = {| allreqs := allreqs s; pend := pend s; waited := Some r; c2s := []; srv := srv s;
                             s2c := []; rxbs := ser (answer r); got := got s |}).
        { unfold s3. cbn [Model.do_step]. rewrite skipn_all, firstn_all, Hr, Hw, Hc. reflexivity. }
        assert (E4 : s4 = {| allreqs := allreqs s; pend := pend s; waited := None; c2s := []; srv := srv s;
                             s2c := []; rxbs := []; got := got s ++ [(r, answer r)] |}).
        { unfold s4. rewrite E3. cbn [Model.do_step waited rxbs].
          pose proof (parse_complete (answer r) [] (answer_ok r) (answer_delimited r)) as Hpc.
          rewrite app_nil_r in Hpc. rewrite Hpc. reflexivity. }
        cbn zeta. split; [repeat apply inv_step; exact I0|]. rewrite E4. split; reflexivity. }
    destruct Hfin as [pre Hpre]. cbn zeta in Hpre. destruct Hpre as [I1 [W1 A1]].
    destruct (drain_pending (length (pend (fold_left do_step pre s))) _ I1 W1 eq_refl) as [more Hmore].
    cbn zeta in Hmore. destruct Hmore as [P2 [W2 A2]].
    exists (pre ++ more). unfold Model.run. rewrite !fold_left_app.
    fold (run sched). fold s. repeat split; try assumption. rewrite A2, A1. reflexivity.
  Qed.
End SessionProofs.
