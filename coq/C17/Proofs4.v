(* C17 -- lemmas, part 4: texts of the shape of Python's repr(finite float) reach the float step *)
From Coq Require Import List ZArith Bool Lia.
Import ListNotations.
Require Import V.C17.Model V.C17.Proofs V.C17.Proofs2 V.C17.Proofs3.
Open Scope Z_scope.

Inductive ftail : list Z -> Prop :=
  | ft_dot fp : digits fp -> ftail (46 :: fp)
  | ft_dotexp fp s ds : digits fp -> (s = 43 \/ s = 45) -> digits ds ->
      ftail (46 :: fp ++ 101 :: s :: ds)
  | ft_exp s ds : (s = 43 \/ s = 45) -> digits ds -> ftail (101 :: s :: ds).

Inductive fshape : list Z -> Prop :=
  | fs_mk sg ip tail : (sg = [] \/ sg = [45]) -> digits ip -> ftail tail -> fshape (sg ++ ip ++ tail).

(* ------------------------------------------------------------------ boolean shape -> structure *)
Lemma nonempty_ne l : nonempty l = true -> l <> [].
Proof. destruct l; [discriminate|discriminate]. Qed.

Lemma exp_ok_sound r : exp_ok r = true ->
  exists s ds, r = 101 :: s :: ds /\ (s = 43 \/ s = 45) /\ digits ds.
Proof.
  destruct r as [|e [|s ds]]; try discriminate. cbn [exp_ok].
  rewrite !andb_true_iff, orb_true_iff, !Z.eqb_eq. intros [[[-> Hs] Hn] Hd].
  exists s, ds. split; [reflexivity|]. split; [exact Hs|]. split; [now apply nonempty_ne|exact Hd].
Qed.

Definition fbody (r : list Z) : bool :=
  let (ip, r1) := span_digits r in
  nonempty ip &&
  match r1 with
  | c :: r2 =>
      if c =? 46 then
        let (fp, r3) := span_digits r2 in nonempty fp && (is_nil r3 || exp_ok r3)
      else exp_ok r1
  | [] => false
  end.

Lemma fbody_sound r : fbody r = true -> exists ip tail, r = ip ++ tail /\ digits ip /\ ftail tail.
Proof.
  unfold fbody. destruct (span_digits r) as [ip r1] eqn:E0.
  destruct (span_digits_spec _ _ _ E0) as [-> Hip]. intros H.
  apply andb_true_iff in H as [Hn H].
  assert (Di : digits ip) by (split; [now apply nonempty_ne|exact Hip]).
  destruct r1 as [|c r2]; [discriminate|]. destruct (c =? 46) eqn:Ec.
  - apply Z.eqb_eq in Ec. subst c. destruct (span_digits r2) as [fp r3] eqn:E1.
    destruct (span_digits_spec _ _ _ E1) as [-> Hfp].
    apply andb_true_iff in H as [Hnf H].
    assert (Df : digits fp) by (split; [now apply nonempty_ne|exact Hfp]).
    apply orb_true_iff in H as [H|H].
    + destruct r3; [|discriminate]. rewrite app_nil_r. exists ip, (46 :: fp).
      split; [reflexivity|]. split; [exact Di|now constructor].
    + destruct (exp_ok_sound _ H) as (s & ds & -> & Hs & Hds).
      exists ip, (46 :: fp ++ 101 :: s :: ds). split; [reflexivity|]. split; [exact Di|now constructor].
  - destruct (exp_ok_sound _ H) as (s & ds & E & Hs & Hds). rewrite E.
    exists ip, (101 :: s :: ds). split; [reflexivity|]. split; [exact Di|now constructor].
Qed.

Lemma float_shape_sound t : float_shape t = true -> fshape t.
Proof.
  destruct t as [|c t']; [discriminate|].
  change (float_shape (c :: t')) with (fbody (if c =? 45 then t' else c :: t')).
  destruct (c =? 45) eqn:E; intros H; destruct (fbody_sound _ H) as (ip & tail & Hr & Hi & Ht).
  - apply Z.eqb_eq in E. subst c. rewrite Hr. apply (fs_mk [45] ip tail); auto.
  - rewrite Hr. apply (fs_mk [] ip tail); auto.
Qed.

(* ------------------------------------------------------------------ facts about the structure *)
Lemma ftail_head tail : ftail tail -> exists c r, tail = c :: r /\ (c = 46 \/ c = 101).
Proof. intros [fp H|fp s ds H Hs Hd|s ds Hs Hd]; eexists; eexists; (split; [reflexivity|]); auto. Qed.

Lemma ftail_nondigit tail : ftail tail -> match tail with c :: _ => is_digit c = false | [] => True end.
Proof. intros [fp H|fp s ds H Hs Hd|s ds Hs Hd]; reflexivity. Qed.

Lemma fshape_numhead t : fshape t -> numhead t.
Proof.
  intros [sg ip tail [->| ->] Hi Ht].
  - destruct (digits_head _ Hi) as (c & r & -> & Hc). exists c, (r ++ tail). split; [reflexivity|].
    unfold numc. lia.
  - exists 45, (ip ++ tail). split; [reflexivity|]. unfold numc. lia.
Qed.

(* a numeric-coordinate prefix followed by nothing or by 'e...' *)
Lemma fshape_split t : fshape t ->
  exists pre r, t = pre ++ r /\ numtext pre /\ (r = [] \/ exists r', r = 101 :: r').
Proof.
  intros [sg ip tail Hs Hi Ht].
  assert (Hs' : sign_ok sg) by (destruct Hs as [->| ->]; [now left|right; now left]).
  destruct Ht as [fp [_ Hf]|fp s ds [_ Hf] Hsg Hd|s ds Hsg Hd].
  - exists (sg ++ ip ++ 46 :: fp), []. rewrite app_nil_r. split; [reflexivity|].
    split; [now constructor|now left].
  - exists (sg ++ ip ++ 46 :: fp), (101 :: s :: ds). split.
    + rewrite <- !app_assoc. reflexivity.
    + split; [now constructor|right; now eexists].
  - exists (sg ++ ip), (101 :: s :: ds). split.
    + rewrite <- !app_assoc. reflexivity.
    + split; [now constructor|right; now eexists].
Qed.

(* ------------------------------------------------------------------ lat/lon refuses it *)
Lemma latlon_fshape seps t : fshape t -> memZ 46 seps = false -> m_latlon seps t = None.
Proof.
  intros [sg ip tail [->| ->] [Hn Hd] Ht] H46; unfold m_latlon; cbn [app].
  - rewrite (span_digits_app ip tail Hd (ftail_nondigit _ Ht)).
    rewrite nonempty_digits by (split; assumption). cbn [andb].
    destruct Ht as [fp H|fp s ds H Hs Hds|s ds Hs Hds].
    + now rewrite H46.
    + now rewrite H46.
    + destruct (memZ 101 seps); [|reflexivity].
      destruct Hs as [->| ->]; reflexivity.
  - rewrite span_digits_neg. reflexivity.
Qed.

(* ------------------------------------------------------------------ the point regexes refuse it *)
Lemma pt_rest_fshape sp seps t : fshape t -> memZ 101 sp = false -> pt_rest (sp :: seps) t = None.
Proof.
  intros Ht H101. destruct (fshape_split _ Ht) as (pre & r & -> & Hp & Hr). cbn [pt_rest].
  destruct Hr as [->|(r' & ->)].
  - now rewrite (scan_num_numtext pre [] Hp I).
  - rewrite (scan_num_numtext pre (101 :: r') Hp eq_refl). now rewrite H101.
Qed.

Lemma point_rx_fshape r t : is_point_rx r = true -> fshape t -> rx_groups r t = None.
Proof.
  intros Hr Ht. rewrite point_rx_numhead by (try apply fshape_numhead; assumption).
  destruct r; try discriminate; cbn [rx_seps]; now apply pt_rest_fshape.
Qed.

(* ------------------------------------------------------------------ int(text, 10) and int(text, 16) refuse it *)
Lemma bdigit_not_us base x : is_bdigit base x = true -> (x =? 95) = false.
Proof.
  intros H. destruct (x =? 95) eqn:E; [|reflexivity]. apply Z.eqb_eq in E. subst.
  unfold is_bdigit in H. change (digit_val 95) with (@None Z) in H. discriminate.
Qed.

Lemma digs_stop base : forall pre a c r, forallb (is_bdigit base) pre = true ->
  (c =? 95) = false -> is_bdigit base c = false -> digs base a false (pre ++ c :: r) = None.
Proof.
  induction pre as [|x pre IH]; intros a c r Hp Hc Hb.
  - cbn [app digs]. rewrite Hc. unfold is_bdigit in Hb. destruct (digit_val c); [now rewrite Hb|reflexivity].
  - cbn [forallb] in Hp. apply andb_true_iff in Hp as [Hx Hp].
    cbn [app digs]. rewrite (bdigit_not_us _ _ Hx). unfold is_bdigit in Hx.
    destruct (digit_val x); [|discriminate]. rewrite Hx. now apply IH.
Qed.

Lemma digit_bdigit base c : 10 <= base -> is_digit c = true -> is_bdigit base c = true.
Proof.
  intros Hb Hc. unfold is_bdigit, digit_val. rewrite Hc. apply is_digit_spec in Hc.
  apply Z.ltb_lt. lia.
Qed.

Lemma digits_bdigits base ds : 10 <= base -> forallb is_digit ds = true -> forallb (is_bdigit base) ds = true.
Proof.
  intros Hb. induction ds as [|c ds IH]; [reflexivity|]. cbn [forallb]. intros H.
  apply andb_true_iff in H as [Hc Hd]. now rewrite digit_bdigit, IH.
Qed.

Lemma digs_fshape base ip tail : base = 10 \/ base = 16 -> digits ip -> ftail tail ->
  digs base 0 false (ip ++ tail) = None.
Proof.
  intros Hb [Hn Hd] Ht.
  assert (Hbd : forallb (is_bdigit base) ip = true) by (apply digits_bdigits; [lia|exact Hd]).
  destruct Ht as [fp H|fp s ds H Hs Hds|s ds Hs Hds].
  - apply digs_stop; [exact Hbd|reflexivity|reflexivity].
  - apply digs_stop; [exact Hbd|reflexivity|reflexivity].
  - destruct Hb as [->| ->].
    + apply digs_stop; [exact Hbd|reflexivity|reflexivity].
    + replace (ip ++ 101 :: s :: ds) with ((ip ++ [101]) ++ s :: ds) by (rewrite <- app_assoc; reflexivity).
      apply digs_stop.
      * rewrite forallb_app, Hbd. reflexivity.
      * destruct Hs as [->| ->]; reflexivity.
      * destruct Hs as [->| ->]; reflexivity.
Qed.

Lemma skip16_id ip tail : digits ip -> ftail tail -> skip_prefix16 (ip ++ tail) = ip ++ tail.
Proof.
  intros [Hn Hd] Ht. destruct ip as [|z [|x ip']]; [congruence| |].
  - destruct (ftail_head _ Ht) as (c & r & -> & [->| ->]); cbn [app skip_prefix16];
      change ((46 =? 120) || (46 =? 88)) with false; change ((101 =? 120) || (101 =? 88)) with false;
      now rewrite andb_false_r.
  - cbn [app skip_prefix16]. cbn [forallb] in Hd. apply andb_true_iff in Hd as [_ Hd].
    apply andb_true_iff in Hd as [Hx _]. apply is_digit_spec in Hx.
    replace (x =? 120) with false by (symmetry; apply Z.eqb_neq; lia).
    replace (x =? 88) with false by (symmetry; apply Z.eqb_neq; lia).
    now rewrite andb_false_r.
Qed.

Lemma int_of_fshape base t : base = 10 \/ base = 16 -> fshape t -> int_of base t = None.
Proof.
  intros Hb [sg ip tail Hs Hi Ht].
  assert (Hr : (if base =? 16 then skip_prefix16 (ip ++ tail) else ip ++ tail) = ip ++ tail).
  { destruct (base =? 16); [now apply skip16_id|reflexivity]. }
  pose proof (digs_fshape base ip tail Hb Hi Ht) as Hdg.
  destruct (digits_head _ Hi) as (c & r & -> & Hc). cbn [app] in Hr, Hdg.
  destruct Hs as [->| ->]; unfold int_of; cbn [app].
  - replace (c =? 45) with false by (symmetry; apply Z.eqb_neq; lia).
    replace (c =? 43) with false by (symmetry; apply Z.eqb_neq; lia).
    cbv iota beta. rewrite Hr. destruct (is_bdigit base c); [|reflexivity]. now rewrite Hdg.
  - change (45 =? 45) with true. cbv iota beta. rewrite Hr.
    destruct (is_bdigit base c); [|reflexivity]. now rewrite Hdg.
Qed.

(* ------------------------------------------------------------------ and float(text) accepts it *)
Definition nus (c : Z) : bool := negb (c =? 95).

Lemma digits_nus ds : forallb is_digit ds = true -> forallb nus ds = true.
Proof.
  induction ds as [|c ds IH]; [reflexivity|]. cbn [forallb]. intros H.
  apply andb_true_iff in H as [Hc Hd]. unfold nus at 1. now rewrite (digit_not_us _ Hc), IH.
Qed.

Lemma fshape_nus t : fshape t -> forallb nus t = true.
Proof.
  intros [sg ip tail Hs [_ Hi] Ht]. rewrite !forallb_app, (digits_nus _ Hi).
  replace (forallb nus sg) with true by (destruct Hs as [->| ->]; reflexivity). cbn [andb].
  destruct Ht as [fp [_ H]|fp s ds [_ H] Hsg [_ Hds]|s ds Hsg [_ Hds]]; cbn [forallb].
  - now rewrite (digits_nus _ H).
  - rewrite forallb_app, (digits_nus _ H). cbn [forallb]. rewrite (digits_nus _ Hds).
    destruct Hsg as [->| ->]; reflexivity.
  - rewrite (digits_nus _ Hds). destruct Hsg as [->| ->]; reflexivity.
Qed.

Lemma us_ok_nus : forall t p, (p =? 95) = false -> forallb nus t = true -> us_ok p t = true.
Proof.
  induction t as [|c t IH]; intros p Hp H.
  - cbn [us_ok]. now rewrite Hp.
  - cbn [forallb] in H. apply andb_true_iff in H as [Hc Ht]. unfold nus in Hc.
    apply negb_true_iff in Hc. cbn [us_ok]. rewrite Hc, Hp. cbn [andb]. now apply IH.
Qed.

Lemma no_us_nus t : forallb nus t = true -> no_us t = t.
Proof.
  induction t as [|c t IH]; [reflexivity|]. cbn [forallb]. intros H.
  apply andb_true_iff in H as [Hc Ht]. unfold no_us. cbn [filter]. unfold nus in Hc. rewrite Hc.
  f_equal. now apply IH.
Qed.

Lemma exp_scan s ds : (s = 43 \/ s = 45) -> digits ds ->
  (let (_, r4) := opt_sign (s :: ds) in
   let (d3, r5) := span_digits r4 in
   if nonempty d3 then Some r5 else Some (101 :: s :: ds)) = Some [].
Proof.
  intros Hs [Hn Hd].
  replace (opt_sign (s :: ds)) with ([s], ds) by (destruct Hs as [->| ->]; reflexivity).
  rewrite (span_digits_all ds Hd). now rewrite nonempty_digits by (split; assumption).
Qed.

Lemma scan_double_fshape t : fshape t -> scan_double t = Some [].
Proof.
  intros [sg ip tail Hs [Hn Hd] Ht]. unfold scan_double.
  rewrite (opt_sign_signed sg ip tail); [|destruct Hs as [->| ->]; [now left|right; now left]|split; assumption].
  rewrite (span_digits_app ip tail Hd (ftail_nondigit _ Ht)).
  rewrite nonempty_digits by (split; assumption). cbn [orb].
  destruct Ht as [fp [Hnf Hf]|fp s ds [Hnf Hf] Hsg Hds|s ds Hsg Hds].
  - rewrite (span_digits_all fp Hf). reflexivity.
  - rewrite (span_digits_app fp (101 :: s :: ds) Hf eq_refl).
    change ((101 =? 101) || (101 =? 69)) with true. cbv iota. now apply exp_scan.
  - change ((101 =? 101) || (101 =? 69)) with true. cbv iota. now apply exp_scan.
Qed.

Lemma float_ok_fshape t : fshape t -> float_ok t = true.
Proof.
  intros Ht. unfold float_ok. pose proof (fshape_nus _ Ht) as Hn.
  rewrite (us_ok_nus t 0 eq_refl Hn), (no_us_nus _ Hn), (scan_double_fshape _ Ht). reflexivity.
Qed.

(* ------------------------------------------------------------------ over a chain *)
Definition pre_float_ok (s : step) : bool :=
  match s with
  | StMatchStrip r _ | StMatchText r => is_head_rx r
  | StLowerIn lits _ => lits_alpha lits
  | StFindLatLon r _ => is_latlon_rx r
  | StFindPoint r _ => is_point_rx r
  | StInt b => (b =? 10) || (b =? 16)
  | _ => false
  end.

Fixpoint float_chain_ok (ch : list step) : bool :=
  match ch with
  | [] => false
  | s :: rest => match s with StFloat => true | _ => pre_float_ok s && float_chain_ok rest end
  end.

Lemma pre_float_reject s t : pre_float_ok s = true -> fshape t -> run_step s t = None.
Proof.
  intros Hs Ht. pose proof (fshape_numhead _ Ht) as Hh.
  destruct s; try discriminate; cbn [pre_float_ok] in Hs; cbn [run_step].
  - now rewrite head_rx_reject.
  - now rewrite lower_numhead.
  - now rewrite head_rx_reject.
  - replace (rx_groups r t) with (@None (list (list Z))); [reflexivity|].
    destruct r; try discriminate; cbn [rx_groups]; now rewrite latlon_fshape.
  - now rewrite point_rx_fshape.
  - rewrite int_of_fshape; [reflexivity| |exact Ht].
    apply orb_true_iff in Hs as [H|H]; apply Z.eqb_eq in H; auto.
Qed.

Lemma float_chain_sound ch t : float_chain_ok ch = true -> float_shape t = true ->
  conv ch t = Ok (VFloatText t).
Proof.
  intros Hc Hsh. pose proof (float_shape_sound _ Hsh) as Ht.
  induction ch as [|s ch IH]; [discriminate|].
  cbn [conv].
  destruct s; cbn [float_chain_ok] in Hc;
    try (apply andb_true_iff in Hc as [H1 H2]; rewrite pre_float_reject by assumption; now apply IH).
  cbn [run_step]. now rewrite float_ok_fshape.
Qed.
