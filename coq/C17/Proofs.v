(* C17 -- lemmas *)
From Coq Require Import List ZArith Bool Lia String.
Import ListNotations.
Require Import V.C17.Model.
Open Scope Z_scope.

(* ------------------------------------------------------------------ digits *)
Definition digits (ds : list Z) : Prop := ds <> [] /\ forallb is_digit ds = true.

Lemma is_digit_spec c : is_digit c = true <-> 48 <= c <= 57.
Proof. unfold is_digit. rewrite andb_true_iff, !Z.leb_le. tauto. Qed.

Lemma span_digits_app ds r :
  forallb is_digit ds = true ->
  match r with c :: _ => is_digit c = false | [] => True end ->
  span_digits (ds ++ r) = (ds, r).
Proof.
  induction ds as [|d ds IH]; intros Hd Hr.
  - destruct r as [|c r]; simpl; [reflexivity|]. now rewrite Hr.
  - simpl in Hd. apply andb_true_iff in Hd as [Hd1 Hd2]. simpl. rewrite Hd1.
    now rewrite (IH Hd2 Hr).
Qed.

Lemma span_digits_all ds : forallb is_digit ds = true -> span_digits ds = (ds, []).
Proof. intros H. rewrite <- (app_nil_r ds) at 1. now apply span_digits_app. Qed.

(* ------------------------------------------------------------------ print_nat / print_Z *)
Lemma dg_digits f : forall n acc, 0 <= n -> forallb is_digit acc = true ->
  forallb is_digit (dg f n acc) = true.
Proof.
  induction f as [|f IH]; intros n acc Hn Ha; cbn [dg]; [exact Ha|].
  destruct (n <? 10) eqn:E.
  - apply Z.ltb_lt in E. cbn [forallb]. rewrite Ha, andb_true_r. apply is_digit_spec. lia.
  - apply Z.ltb_ge in E. apply IH.
    + apply Z.div_pos; lia.
    + cbn [forallb]. rewrite Ha, andb_true_r. apply is_digit_spec.
      pose proof (Z.mod_pos_bound n 10 ltac:(lia)). lia.
Qed.

Lemma dg_ne f : forall n acc, acc <> [] -> dg f n acc <> [].
Proof.
  induction f as [|f IH]; intros n acc Ha; cbn [dg]; [exact Ha|].
  destruct (n <? 10); [discriminate|]. apply IH. discriminate.
Qed.

Lemma print_nat_digits n : 0 <= n -> digits (print_nat n).
Proof.
  intros Hn. split.
  - unfold print_nat. cbn [dg]. destruct (n <? 10); [discriminate|]. apply dg_ne. discriminate.
  - unfold print_nat. now apply dg_digits.
Qed.

Fixpoint pd (a : Z) (l : list Z) : Z :=
  match l with [] => a | c :: r => pd (a * 10 + (c - 48)) r end.

Lemma dg_pd f : forall n acc, 0 <= n < 10 ^ Z.of_nat f -> pd 0 (dg f n acc) = pd n acc.
Proof.
  induction f as [|f IH]; intros n acc Hn.
  - simpl in Hn. assert (n = 0) by lia. subst. reflexivity.
  - cbn [dg]. destruct (n <? 10) eqn:E.
    + cbn [pd]. f_equal. lia.
    + apply Z.ltb_ge in E.
      assert (Hp : 10 ^ Z.of_nat (S f) = 10 * 10 ^ Z.of_nat f).
      { rewrite Nat2Z.inj_succ, Z.pow_succ_r by lia. reflexivity. }
      rewrite IH.
      * cbn [pd]. f_equal. pose proof (Z.div_mod n 10). lia.
      * split; [apply Z.div_pos; lia|]. apply Z.div_lt_upper_bound; lia.
Qed.

Lemma fuel_enough n : 0 <= n -> n < 10 ^ Z.of_nat (S (Z.to_nat (Z.log2 n))).
Proof.
  intros Hn. rewrite Nat2Z.inj_succ, Z2Nat.id by apply Z.log2_nonneg.
  destruct (Z.eq_dec n 0) as [->|Hz]; [reflexivity|].
  pose proof (Z.log2_spec n ltac:(lia)) as [_ H2].
  pose proof (Z.log2_nonneg n).
  assert (2 ^ Z.succ (Z.log2 n) <= 10 ^ Z.succ (Z.log2 n)) by (apply Z.pow_le_mono_l; lia).
  lia.
Qed.

Lemma pd_print_nat n : 0 <= n -> pd 0 (print_nat n) = n.
Proof.
  intros Hn. unfold print_nat. rewrite dg_pd; [reflexivity|].
  split; [exact Hn|now apply fuel_enough].
Qed.

Lemma digit_not_us c : is_digit c = true -> (c =? 95) = false.
Proof. intros H. apply is_digit_spec in H. apply Z.eqb_neq. lia. Qed.

Lemma digs10_digits l : forall a, forallb is_digit l = true -> digs 10 a false l = Some (pd a l).
Proof.
  induction l as [|c l IH]; intros a H; [reflexivity|].
  simpl in H. apply andb_true_iff in H as [Hc Hl].
  cbn [digs pd]. rewrite (digit_not_us _ Hc). unfold digit_val. rewrite Hc.
  apply is_digit_spec in Hc.
  replace (c - 48 <? 10) with true by (symmetry; apply Z.ltb_lt; lia).
  now apply IH.
Qed.

Lemma int10_digits ds : digits ds -> int_of 10 ds = Some (pd 0 ds).
Proof.
  intros [Hne Hd]. destruct ds as [|c r]; [congruence|].
  pose proof Hd as Hd'. simpl in Hd'. apply andb_true_iff in Hd' as [Hc _].
  pose proof Hc as Hc'. apply is_digit_spec in Hc'.
  unfold int_of.
  replace (c =? 45) with false by (symmetry; apply Z.eqb_neq; lia).
  replace (c =? 43) with false by (symmetry; apply Z.eqb_neq; lia).
  change (10 =? 16) with false. cbv iota beta.
  unfold is_bdigit, digit_val. rewrite Hc.
  replace (c - 48 <? 10) with true by (symmetry; apply Z.ltb_lt; lia).
  fold (digit_val c). now rewrite digs10_digits.
Qed.

Lemma int10_neg_digits ds : digits ds -> int_of 10 (45 :: ds) = Some (- pd 0 ds).
Proof.
  intros [Hne Hd]. destruct ds as [|c r]; [congruence|].
  pose proof Hd as Hd'. simpl in Hd'. apply andb_true_iff in Hd' as [Hc _].
  pose proof Hc as Hc'. apply is_digit_spec in Hc'.
  unfold int_of. change (45 =? 45) with true. change (10 =? 16) with false. cbv iota beta.
  unfold is_bdigit, digit_val. rewrite Hc.
  replace (c - 48 <? 10) with true by (symmetry; apply Z.ltb_lt; lia).
  fold (digit_val c). now rewrite digs10_digits.
Qed.

(* a numeral: what str(int) prints *)
Inductive numeral : list Z -> Prop :=
  | num_pos ds : digits ds -> numeral ds
  | num_neg ds : digits ds -> numeral (45 :: ds).

Lemma print_Z_numeral z : numeral (print_Z z).
Proof.
  unfold print_Z. destruct (z <? 0) eqn:E.
  - apply Z.ltb_lt in E. apply num_neg, print_nat_digits. lia.
  - apply Z.ltb_ge in E. apply num_pos, print_nat_digits. lia.
Qed.

Lemma int10_print_Z z : int_of 10 (print_Z z) = Some z.
Proof.
  unfold print_Z. destruct (z <? 0) eqn:E.
  - apply Z.ltb_lt in E. rewrite int10_neg_digits by (apply print_nat_digits; lia).
    rewrite pd_print_nat by lia. f_equal. lia.
  - apply Z.ltb_ge in E. rewrite int10_digits by (apply print_nat_digits; lia).
    now rewrite pd_print_nat.
Qed.

(* head character of a numeral *)
Definition numc (c : Z) : Prop := 48 <= c <= 57 \/ c = 45 \/ c = 43.
Definition numhead (t : list Z) : Prop := exists c r, t = c :: r /\ numc c.

Lemma digits_head ds : digits ds -> exists c r, ds = c :: r /\ 48 <= c <= 57.
Proof.
  intros [Hne Hd]. destruct ds as [|c r]; [congruence|]. exists c, r. split; [reflexivity|].
  simpl in Hd. apply andb_true_iff in Hd as [Hc _]. now apply is_digit_spec.
Qed.

Lemma numeral_numhead t : numeral t -> numhead t.
Proof.
  intros [ds H|ds H].
  - destruct (digits_head _ H) as (c & r & -> & Hc). exists c, r. split; [reflexivity|now left].
  - exists 45, ds. split; [reflexivity|right; left; reflexivity].
Qed.

(* ------------------------------------------------------------------ rejections by the head character *)
Lemma quoted_numhead q t : numhead t -> q = 34 \/ q = 39 -> m_quoted q t = false.
Proof.
  intros (c & r & -> & Hc) Hq. unfold m_quoted.
  replace (c =? q) with false; [reflexivity|]. symmetry. apply Z.eqb_neq. unfold numc in Hc. lia.
Qed.

Lemma pathnode_numhead t : numhead t -> m_pathnode t = false.
Proof.
  intros (c & r & -> & Hc). unfold m_pathnode.
  replace (c =? 46) with false by (symmetry; apply Z.eqb_neq; unfold numc in Hc; lia).
  cbn [pnode].
  replace (is_alpha_ c) with false; [reflexivity|].
  symmetry. unfold is_alpha_, is_upper, is_lower. unfold numc in Hc.
  rewrite !orb_false_iff, !andb_false_iff, !Z.leb_gt, Z.eqb_neq. lia.
Qed.

Definition lits_alpha (lits : list (list Z)) : bool :=
  forallb (fun l => match l with c :: _ => is_lower c | [] => false end) lits.

Lemma lower_numhead lits t : numhead t -> lits_alpha lits = true -> mem_txt (lower t) lits = false.
Proof.
  intros (c & r & -> & Hc) Hl. induction lits as [|l lits IH]; [reflexivity|].
  simpl in Hl. apply andb_true_iff in Hl as [Hl1 Hl2].
  cbn [mem_txt]. rewrite (IH Hl2), orb_false_r.
  destruct l as [|x l]; [discriminate|]. cbn [lower map txt_eqb].
  replace (lower_c c =? x) with false; [reflexivity|]. symmetry. apply Z.eqb_neq.
  unfold is_lower in Hl1. apply andb_true_iff in Hl1 as [H1 H2]. apply Z.leb_le in H1, H2.
  unfold lower_c, is_upper. unfold numc in Hc.
  destruct ((65 <=? c) && (c <=? 90)) eqn:E.
  - apply andb_true_iff in E as [E1 E2]. apply Z.leb_le in E1, E2. lia.
  - lia.
Qed.

(* ------------------------------------------------------------------ numerals against the number-shaped regexes *)
Lemma span_digits_neg t : span_digits (45 :: t) = ([], 45 :: t).
Proof. reflexivity. Qed.

Lemma latlon_numeral seps t : numeral t -> m_latlon seps t = None.
Proof.
  intros [ds [Hne Hd]|ds H]; unfold m_latlon.
  - now rewrite span_digits_all.
  - rewrite span_digits_neg. reflexivity.
Qed.

Definition letter (l : Z) : bool := negb (is_digit l) && negb (l =? 46).

Lemma opt_sign_digits ds r : digits ds -> opt_sign (ds ++ r) = ([], ds ++ r).
Proof.
  intros H. destruct (digits_head _ H) as (c & r' & -> & Hc). cbn [app opt_sign].
  replace (c =? 45) with false by (symmetry; apply Z.eqb_neq; lia).
  replace (c =? 43) with false by (symmetry; apply Z.eqb_neq; lia). reflexivity.
Qed.

Lemma nonempty_digits ds : digits ds -> nonempty ds = true.
Proof. intros [H _]. destruct ds; [congruence|reflexivity]. Qed.

(* scan_num on a numeral followed by end of text or a letter *)
Lemma scan_num_numeral t r : numeral t ->
  match r with c :: _ => letter c = true | [] => True end ->
  scan_num (t ++ r) = Some (t, r).
Proof.
  intros Ht Hr.
  assert (Hr' : match r with c :: _ => is_digit c = false | [] => True end).
  { destruct r as [|c r]; [exact I|]. unfold letter in Hr. apply andb_true_iff in Hr as [H _].
    now apply negb_true_iff in H. }
  assert (Hdot : match r with c :: _ => (c =? 46) = false | [] => True end).
  { destruct r as [|c r]; [exact I|]. unfold letter in Hr. apply andb_true_iff in Hr as [_ H].
    now apply negb_true_iff in H. }
  destruct Ht as [ds H|ds H]; unfold scan_num.
  - rewrite (opt_sign_digits _ _ H). destruct H as [Hne Hd].
    rewrite (span_digits_app _ _ Hd Hr'). rewrite nonempty_digits by (split; assumption).
    destruct r as [|c r]; [reflexivity|]. now rewrite Hdot.
  - cbn [app opt_sign]. change (45 =? 45) with true. cbn [orb]. destruct H as [Hne Hd].
    rewrite (span_digits_app _ _ Hd Hr'). rewrite nonempty_digits by (split; assumption).
    destruct r as [|c r]; [reflexivity|]. now rewrite Hdot.
Qed.

Lemma pt_rest_numeral seps t : numeral t -> pt_rest seps t = None.
Proof.
  intros Ht. destruct seps as [|sp seps]; cbn [pt_rest].
  - destruct (numeral_numhead _ Ht) as (c & r & -> & _). reflexivity.
  - rewrite <- (app_nil_r t). now rewrite (scan_num_numeral t [] Ht I).
Qed.

Definition commasep (sp : list Z) : bool := forallb (fun c => (c =? 44) || (58 <=? c)) sp.

Lemma memZ_numc c sp : numc c -> commasep sp = true -> memZ c sp = false.
Proof.
  intros Hc. induction sp as [|x sp IH]; intros H; [reflexivity|].
  simpl in H. apply andb_true_iff in H as [H1 H2]. cbn [memZ]. rewrite (IH H2), orb_false_r.
  apply Z.eqb_neq. apply orb_true_iff in H1. unfold numc in Hc.
  destruct H1 as [H1|H1]; [apply Z.eqb_eq in H1|apply Z.leb_le in H1]; lia.
Qed.

Lemma m_point_numhead opt seps t : numhead t -> forallb commasep seps = true ->
  m_point opt seps t = pt_rest seps t.
Proof.
  intros (c & r & -> & Hc) Hs. unfold m_point.
  destruct (pt_rest seps (c :: r)); [reflexivity|]. destruct opt; [|reflexivity].
  destruct seps as [|sp seps]; [reflexivity|]. simpl in Hs. apply andb_true_iff in Hs as [Hs _].
  now rewrite (memZ_numc _ _ Hc Hs).
Qed.

Definition rx_seps (r : rx) : list (list Z) :=
  match r with
  | REO_PointXY => [sepsOf 88 120; sepsOf 89 121]
  | REO_PointXYZ => [sepsOf 88 120; sepsOf 89 121; sepsOf 90 122]
  | REO_PointNE => [sepsOf 78 110; sepsOf 69 101]
  | REO_PointNED => [sepsOf 78 110; sepsOf 69 101; sepsOf 68 100]
  | REO_PointFS => [sepsOf 70 102; sepsOf 83 115]
  | REO_PointFSB => [sepsOf 70 102; sepsOf 83 115; sepsOf 66 98]
  | _ => []
  end.

Definition is_point_rx (r : rx) : bool :=
  match r with
  | REO_PointXY | REO_PointXYZ | REO_PointNE | REO_PointNED | REO_PointFS | REO_PointFSB => true
  | _ => false
  end.

Lemma point_rx_numhead r t : is_point_rx r = true -> numhead t -> rx_groups r t = pt_rest (rx_seps r) t.
Proof.
  intros Hr Ht. destruct r; try discriminate; cbn [rx_groups rx_seps];
    apply m_point_numhead; try assumption; reflexivity.
Qed.

(* every regex of the chains refuses a numeral *)
Lemma rx_numeral r t : numeral t -> rx_groups r t = None.
Proof.
  intros Ht. pose proof (numeral_numhead _ Ht) as Hh.
  destruct r;
    try (rewrite point_rx_numhead by (reflexivity || assumption); now apply pt_rest_numeral).
  - cbn [rx_groups]. now rewrite quoted_numhead by (auto).
  - cbn [rx_groups]. now rewrite quoted_numhead by (auto).
  - cbn [rx_groups]. now rewrite pathnode_numhead.
  - cbn [rx_groups]. now apply latlon_numeral.
  - cbn [rx_groups]. now apply latlon_numeral.
Qed.

(* ------------------------------------------------------------------ int round trip over a chain *)
Definition pre_num_ok (s : step) : bool :=
  match s with
  | StMatchStrip _ _ | StMatchText _ | StFindLatLon _ _ | StFindPoint _ _ => true
  | StLowerIn lits _ => lits_alpha lits
  | _ => false
  end.

Fixpoint int_chain_ok (ch : list step) : bool :=
  match ch with
  | [] => false
  | s :: r => match s with
              | StInt b => b =? 10
              | _ => pre_num_ok s && int_chain_ok r
              end
  end.

Lemma pre_num_reject s t : numeral t -> pre_num_ok s = true -> run_step s t = None.
Proof.
  intros Ht Hs. destruct s; try discriminate; cbn [run_step].
  - now rewrite rx_numeral.
  - cbn [pre_num_ok] in Hs. now rewrite lower_numhead by (try apply numeral_numhead; assumption).
  - now rewrite rx_numeral.
  - now rewrite rx_numeral.
  - now rewrite rx_numeral.
Qed.

Lemma int_chain_sound ch : int_chain_ok ch = true -> forall z, conv ch (print_Z z) = Ok (VInt z).
Proof.
  intros H z. induction ch as [|s ch IH]; [discriminate|].
  cbn [conv].
  destruct s; cbn [int_chain_ok] in H;
    try (apply andb_true_iff in H as [H1 H2];
         rewrite pre_num_reject by (try apply print_Z_numeral; assumption); now apply IH).
  apply Z.eqb_eq in H. subst. cbn [run_step]. now rewrite int10_print_Z.
Qed.
