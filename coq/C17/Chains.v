(* C17 -- proofs about the GENERATED chains (coq/gen/C17_Chain.v) *)
From Coq Require Import List ZArith Bool Lia String.
Import ListNotations.
Require Import V.C17.Model V.C17.Proofs V.C17.Proofs2 V.C17.Proofs3 V.C17.Proofs4 V.gen.C17_Chain.
Open Scope Z_scope.

Lemma sources_ok : gen_sources = expected_sources /\ gen_points = expected_points.
Proof. split; vm_compute; reflexivity. Qed.

Lemma ctx_table_ok : gen_ctx_table = expected_ctx_table.
Proof. vm_compute. reflexivity. Qed.

Lemma order_doc_proof :
  chain_of CStrBoolPathCoordPointNum =
    [StMatchStrip REO_Quoted 34; StMatchStrip REO_QuotedSingle 39;
     StLowerIn [txt "none"] VNone;
     StLowerIn [txt "true"; txt "yes"] (VBool true);
     StLowerIn [txt "false"; txt "no"] (VBool false);
     StMatchText REO_PathNode;
     StFindLatLon REO_LatLonNE false; StFindLatLon REO_LatLonSW true;
     StFindPoint REO_PointXY Pxy; StFindPoint REO_PointNE Pne; StFindPoint REO_PointFS Pfs;
     StFindPoint REO_PointXYZ Pxyz; StFindPoint REO_PointNED Pned; StFindPoint REO_PointFSB Pfsb;
     StInt 10; StInt 16; StFloat; StComplex] /\
  chain_of CStrBoolCoordNum =
    [StMatchStrip REO_Quoted 34; StMatchStrip REO_QuotedSingle 39;
     StLowerIn [txt "none"] VNone;
     StLowerIn [txt "true"; txt "yes"] (VBool true);
     StLowerIn [txt "false"; txt "no"] (VBool false);
     StFindLatLon REO_LatLonNE false; StFindLatLon REO_LatLonSW true;
     StInt 10; StInt 16; StFloat; StComplex] /\
  chain_of CNum = [StInt 10; StInt 16; StFloat; StComplex].
Proof. repeat split; vm_compute; reflexivity. Qed.

Lemma int_roundtrip_proof : forall c z, c <> CStripQuotes ->
  conv (chain_of c) (print_Z z) = Ok (VInt z).
Proof.
  intros c z Hc. apply int_chain_sound.
  destruct c; try (vm_compute; reflexivity). congruence.
Qed.

Lemma hex_after_dec_proof : forall t,
  (forall z, int_of 10 t = Some z -> conv (chain_of CNum) t = Ok (VInt z)) /\
  (forall z, int_of 10 t = None -> int_of 16 t = Some z -> conv (chain_of CNum) t = Ok (VInt z)).
Proof.
  intros t. split.
  - intros z H. cbn [chain_of]. unfold chain_Num. cbn [conv run_step]. now rewrite H.
  - intros z H1 H2. cbn [chain_of]. unfold chain_Num. cbn [conv run_step]. now rewrite H1, H2.
Qed.

Definition bool_chains : list cid :=
  [CBoolCoordNum; CStrBoolCoordNum; CBoolCoordPointNum; CBoolPathCoordPointNum; CStrBoolPathCoordPointNum].
Definition num_chains : list cid := [CNum; CCoordNum; CPointNum; CCoordPointNum].
Definition quote_chains : list cid := [CStrBoolCoordNum; CStrBoolPathCoordPointNum; CStripQuotes].
Definition point_chains : list cid :=
  [CPointNum; CCoordPointNum; CBoolCoordPointNum; CPathCoordPointNum; CBoolPathCoordPointNum;
   CStrBoolPathCoordPointNum].

Lemma bool_none_proof : forall c t lit v,
  In c bool_chains -> In (lit, v) spellings -> lower t = lit -> conv (chain_of c) t = Ok v.
Proof.
  intros c t lit v Hc. apply spell_chain_sound.
  assert (H : forallb (fun c => spell_chain_ok (chain_of c)) bool_chains = true) by (vm_compute; reflexivity).
  rewrite forallb_forall in H. now apply H.
Qed.

Lemma spellings_lower : forallb (fun p => forallb is_lower (fst p)) spellings = true.
Proof. vm_compute. reflexivity. Qed.

Lemma num_refuse_proof : forall c t lit v,
  In c num_chains -> In (lit, v) spellings -> lower t = lit -> conv (chain_of c) t = Err.
Proof.
  intros c t lit v Hc Hl. apply all_err_sound.
  - pose proof spellings_lower as H. rewrite forallb_forall in H. exact (H _ Hl).
  - assert (H : forallb (fun c => forallb (fun p => all_err (chain_of c) (fst p)) spellings) num_chains = true)
      by (vm_compute; reflexivity).
    rewrite forallb_forall in H. specialize (H _ Hc). rewrite forallb_forall in H. exact (H _ Hl).
Qed.

Lemma quoted_proof : forall c s, In c quote_chains ->
  (noq 34 s = true -> conv (chain_of c) (dq s) = Ok (VStr s)) /\
  (noq 39 s = true -> conv (chain_of c) (sq s) = Ok (VStr s)).
Proof.
  intros c s Hc. apply quoted_chain_sound.
  assert (H : forallb (fun c => quoted_chain_ok (chain_of c)) quote_chains = true) by (vm_compute; reflexivity).
  rewrite forallb_forall in H. now apply H.
Qed.

Definition all_kinds : list pkind := [Pxy; Pne; Pfs; Pxyz; Pned; Pfsb].
Lemma all_kinds_in k : In k all_kinds.
Proof. destruct k; cbn; tauto. Qed.

Definition point_ok (c : cid) (k : pkind) : bool :=
  point_chain_ok (letters k) k (chain_of c) && point_chain_ok (upletters k) k (chain_of c)
  && forallb letter (letters k) && forallb letter (upletters k)
  && (2 <=? Z.of_nat (List.length (letters k))).

Lemma point_proof : forall c k zs, In c point_chains ->
  List.length zs = List.length (letters k) ->
  conv (chain_of c) (render zs (letters k)) = Ok (VPoint k (map print_Z zs)) /\
  conv (chain_of c) (render zs (upletters k)) = Ok (VPoint k (map print_Z zs)).
Proof.
  intros c k zs Hc Hlen.
  assert (H : forallb (fun c => forallb (point_ok c) all_kinds) point_chains = true) by (vm_compute; reflexivity).
  rewrite forallb_forall in H. specialize (H _ Hc). rewrite forallb_forall in H.
  specialize (H k (all_kinds_in k)). unfold point_ok in H.
  repeat (apply andb_true_iff in H as [H ?]).
  assert (L2 : (2 <= List.length (letters k))%nat) by (apply Z.leb_le in H0; lia).
  split.
  - apply point_chain_sound; assumption.
  - apply point_chain_sound; try assumption.
    + unfold upletters. rewrite map_length. exact L2.
    + unfold upletters. rewrite map_length. exact Hlen.
Qed.

(* ------------------------------------------------------------------ deepening: decimal points, lat/lon, float texts *)
Lemma point_dec_proof : forall c k cs, In c point_chains -> Forall numtext cs ->
  List.length cs = List.length (letters k) ->
  conv (chain_of c) (render_t cs (letters k)) = Ok (VPoint k cs) /\
  conv (chain_of c) (render_t cs (upletters k)) = Ok (VPoint k cs).
Proof.
  intros c k cs Hc Hcs Hlen.
  assert (H : forallb (fun c => forallb (point_ok c) all_kinds) point_chains = true) by (vm_compute; reflexivity).
  rewrite forallb_forall in H. specialize (H _ Hc). rewrite forallb_forall in H.
  specialize (H k (all_kinds_in k)). unfold point_ok in H.
  repeat (apply andb_true_iff in H as [H ?]).
  assert (Hne : cs <> []) by (intros ->; apply Z.leb_le in H0; cbn in Hlen; lia).
  split.
  - apply point_chain_sound_t; assumption.
  - apply point_chain_sound_t; try assumption.
    unfold upletters. rewrite map_length. exact Hlen.
Qed.

Definition latlon_chains : list cid :=
  [CCoordNum; CBoolCoordNum; CStrBoolCoordNum; CCoordPointNum; CBoolCoordPointNum;
   CPathCoordPointNum; CBoolPathCoordPointNum; CStrBoolPathCoordPointNum].

Lemma latlon_proof : forall c deg h m1 m2, In c latlon_chains ->
  digits deg -> digits m1 -> digits m2 ->
  (memZ h ne_class = true ->
     conv (chain_of c) (latlon_text deg h m1 m2) = Ok (VLatLon false deg (m1 ++ 46 :: m2))) /\
  (memZ h ne_class = false -> memZ h sw_class = true ->
     conv (chain_of c) (latlon_text deg h m1 m2) = Ok (VLatLon true deg (m1 ++ 46 :: m2))).
Proof.
  intros c deg h m1 m2 Hc. apply latlon_chain_sound.
  assert (H : forallb (fun c => latlon_chain_ok (chain_of c)) latlon_chains = true) by (vm_compute; reflexivity).
  rewrite forallb_forall in H. now apply H.
Qed.

Lemma float_text_proof : forall c t, c <> CStripQuotes -> float_shape t = true ->
  conv (chain_of c) t = Ok (VFloatText t).
Proof.
  intros c t Hc. apply float_chain_sound.
  destruct c; try (vm_compute; reflexivity). congruence.
Qed.

Section FloatOracle.
  Variable F : Type.
  Variable float_of_text : list Z -> option F.     (* CPython float(text) *)
  Variable repr : F -> list Z.                     (* CPython repr(x) *)
  Variable finite : F -> Prop.
  Hypothesis repr_inverse : forall x, finite x -> float_of_text (repr x) = Some x.
  Hypothesis repr_shape : forall x, finite x -> float_shape (repr x) = true.

  Lemma float_roundtrip_proof : forall c x, c <> CStripQuotes -> finite x ->
    conv_f float_of_text (chain_of c) (repr x) = OkFloat x.
  Proof.
    intros c x Hc Hx. unfold conv_f.
    rewrite (float_text_proof c (repr x) Hc (repr_shape x Hx)). now rewrite (repr_inverse x Hx).
  Qed.
End FloatOracle.
