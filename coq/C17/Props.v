(* C17 -- property theorems only.  Each closed by [exact]; Print Assumptions beneath.
   Every statement is about the chains GENERATED from building.py (coq/gen/C17_Chain.v). *)
From Coq Require Import List ZArith Bool String.
Import ListNotations.
Require Import V.C17.Model V.C17.Proofs V.C17.Proofs2 V.C17.Proofs3 V.C17.Proofs4 V.C17.Chains V.gen.C17_Chain.
Open Scope Z_scope.

(* The regex sources and the point classes extracted from globaling.py are exactly the ones the
   hand matchers of Model.v were written for; the call-site table is the expected one. *)
Theorem regex_sources_ok : gen_sources = expected_sources /\ gen_points = expected_points.
Proof. exact sources_ok. Qed.
Print Assumptions regex_sources_ok.

Theorem context_table_ok : gen_ctx_table = expected_ctx_table.
Proof. exact ctx_table_ok. Qed.
Print Assumptions context_table_ok.

(* Documented order for direct data (parseDirect): double-quoted, single-quoted, none, true/yes,
   false/no, path text, lat/lon NE, lat/lon SW, the six point kinds (xy ne fs xyz ned fsb),
   decimal int, hex int, float, complex.  Need goals: the same without path and points.
   Periods / tolerance: decimal int, hex int, float, complex. *)
Theorem order_doc :
  chain_of CStrBoolPathCoordPointNum =
    [StMatchStrip REO_Quoted 34; StMatchStrip REO_QuotedSingle 39;
     StLowerIn [txt "none"] VNone;
     StLowerIn [txt "true"; txt "yes"] (VBool true);
     StLowerIn [txt "false"; txt "no"] (VBool false);
     StMatchText REO_PathNode;
     StFindLatLon REO_LatLonNE false; StFindLatLon REO_LatLonSW true;
     StFindPoint REO_PointXY Pxy; StFindPoint REO_PointNE Pne; StFindPoint REO_PointFS Pfs;
     StFindPoint REO_PointXYZ Pxyz; StFindPoint REO_PointNED Pned; StFindPoint REO_PointFSB Pfsb;
     StInt 10; StInt 16; StFloat; StComplex] /\
  chain_of CStrBoolCoordNum =
    [StMatchStrip REO_Quoted 34; StMatchStrip REO_QuotedSingle 39;
     StLowerIn [txt "none"] VNone;
     StLowerIn [txt "true"; txt "yes"] (VBool true);
     StLowerIn [txt "false"; txt "no"] (VBool false);
     StFindLatLon REO_LatLonNE false; StFindLatLon REO_LatLonSW true;
     StInt 10; StInt 16; StFloat; StComplex] /\
  chain_of CNum = [StInt 10; StInt 16; StFloat; StComplex].
Proof. exact order_doc_proof. Qed.
Print Assumptions order_doc.

(* str(z) converts back to the int z, in EVERY converter chain (all literal contexts). *)
Theorem int_roundtrip : forall c z, c <> CStripQuotes ->
  conv (chain_of c) (print_Z z) = Ok (VInt z).
Proof. exact int_roundtrip_proof. Qed.
Print Assumptions int_roundtrip.

(* decimal is tried before hex, hex before float: whatever int(text,10) accepts is the value, and
   otherwise whatever int(text,16) accepts (so 1e5 -> 0x1e5 = 485, fade -> 64222 in a Num context) *)
Theorem hex_after_dec : forall t,
  (forall z, int_of 10 t = Some z -> conv (chain_of CNum) t = Ok (VInt z)) /\
  (forall z, int_of 10 t = None -> int_of 16 t = Some z -> conv (chain_of CNum) t = Ok (VInt z)).
Proof. exact hex_after_dec_proof. Qed.
Print Assumptions hex_after_dec.

(* none / true / yes / false / no in ANY letter case (so str(True), str(False), str(None) too)
   convert to None / True / False in every chain that has the boolean step. *)
Theorem bool_none_roundtrip : forall c t lit v,
  In c bool_chains -> In (lit, v) spellings -> lower t = lit -> conv (chain_of c) t = Ok v.
Proof. exact bool_none_proof. Qed.
Print Assumptions bool_none_roundtrip.

(* ... and the chains WITHOUT a boolean step (periods, tolerance: Convert2Num, and the Coord /
   Point number chains) refuse every such spelling with ValueError: none of them is a hex int. *)
Theorem num_chains_refuse_spellings : forall c t lit v,
  In c num_chains -> In (lit, v) spellings -> lower t = lit -> conv (chain_of c) t = Err.
Proof. exact num_refuse_proof. Qed.
Print Assumptions num_chains_refuse_spellings.

(* a quote-free string written between double (single) quotes converts to itself, in the chains
   that have the quoted steps (direct data, need goals, StripQuotes); s may be empty and may
   contain the other kind of quote *)
Theorem quoted_roundtrip : forall c s, In c quote_chains ->
  (noq 34 s = true -> conv (chain_of c) (dq s) = Ok (VStr s)) /\
  (noq 39 s = true -> conv (chain_of c) (sq s) = Ok (VStr s)).
Proof. exact quoted_proof. Qed.
Print Assumptions quoted_roundtrip.

(* integer-coordinate points of all six kinds, lower- or upper-case letters (3x-4y, 1N2E3D):
   converted to the point of that kind with those coordinate texts, in every chain with points;
   in particular lat/lon (which comes first and whose class [N,E,n,e] contains n and e) never
   captures them. *)
Theorem point_roundtrip : forall c k zs, In c point_chains ->
  List.length zs = List.length (letters k) ->
  conv (chain_of c) (render zs (letters k)) = Ok (VPoint k (map print_Z zs)) /\
  conv (chain_of c) (render zs (upletters k)) = Ok (VPoint k (map print_Z zs)).
Proof. exact point_proof. Qed.
Print Assumptions point_roundtrip.

(* DECIMAL-coordinate points: every coordinate is ANY text of the regex group language
   [-+]?\d+\.\d*|[-+]?\d+  (numtext: optional sign, digits, optionally '.' and digits, possibly none);
   all six kinds, lower or upper letters, all six chains with points.  There is NO collision with
   lat/lon: REO_LatLon* needs the text to END in a digit and a complete point literal ends in its
   last letter, so the side condition is empty (the near-miss 1n2.5, without the final e, is not a
   point literal at all: see ex_latlon_not_point). *)
Theorem point_dec_roundtrip : forall c k cs, In c point_chains -> Forall numtext cs ->
  List.length cs = List.length (letters k) ->
  conv (chain_of c) (render_t cs (letters k)) = Ok (VPoint k cs) /\
  conv (chain_of c) (render_t cs (upletters k)) = Ok (VPoint k cs).
Proof. exact point_dec_proof. Qed.
Print Assumptions point_dec_roundtrip.

(* lat/lon literals  <digits><h><digits>.<digits>  in all eight chains with the lat/lon steps:
   h in the NE class [N,E,n,e] (the class contains the comma) gives +(deg + min/60) i.e.
   VLatLon false; h in the SW class [S,W,s,w] and not in the NE class (i.e. S W s w) gives the
   negative one; no earlier step (quoted, none/bool, path) captures it. *)
Theorem latlon_roundtrip : forall c deg h m1 m2, In c latlon_chains ->
  digits deg -> digits m1 -> digits m2 ->
  (memZ h ne_class = true ->
     conv (chain_of c) (latlon_text deg h m1 m2) = Ok (VLatLon false deg (m1 ++ 46 :: m2))) /\
  (memZ h ne_class = false -> memZ h sw_class = true ->
     conv (chain_of c) (latlon_text deg h m1 m2) = Ok (VLatLon true deg (m1 ++ 46 :: m2))).
Proof. exact latlon_proof. Qed.
Print Assumptions latlon_roundtrip.

(* any text of the shape of Python's repr of a finite float ([-]digits.digits or
   [-]digits[.digits]e(+|-)digits: float_shape, decidable) passes every earlier step of every
   converter chain (quoted, none/bool, path, lat/lon, six points, int base 10, int base 16) and is
   accepted by the float step, which hands exactly that text to float(). *)
Theorem float_text_accepted : forall c t, c <> CStripQuotes -> float_shape t = true ->
  conv (chain_of c) t = Ok (VFloatText t).
Proof. exact float_text_proof. Qed.
Print Assumptions float_text_accepted.

(* float round trip under ONE oracle: for any float type F with float_of_text / repr such that
   (repr_inverse) float_of_text (repr x) = Some x and (repr_shape) repr x has float_shape for finite
   x -- both premises are validated against CPython by the check on sampled doubles -- converting
   repr x in any converter chain gives back x.  conv_f = conv followed by float_of_text on VFloatText. *)
Theorem float_roundtrip :
  forall (F : Type) (float_of_text : list Z -> option F) (repr : F -> list Z) (finite : F -> Prop),
  (forall x, finite x -> float_of_text (repr x) = Some x) ->
  (forall x, finite x -> float_shape (repr x) = true) ->
  forall c x, c <> CStripQuotes -> finite x ->
  conv_f float_of_text (chain_of c) (repr x) = OkFloat x.
Proof. exact float_roundtrip_proof. Qed.
Print Assumptions float_roundtrip.

(* non-vacuity / documented-order witnesses (examples, by computation) *)
Example ex_latlon_not_point :
  conv (chain_of CStrBoolPathCoordPointNum) (txt "1n2.5") = Ok (VLatLon false (txt "1") (txt "2.5")) /\
  conv (chain_of CStrBoolPathCoordPointNum) (txt "1n2.5e") = Ok (VPoint Pne [txt "1"; txt "2.5"]) /\
  conv (chain_of CStrBoolPathCoordPointNum) (txt "1,2.5") = Ok (VLatLon false (txt "1") (txt "2.5")).
Proof. repeat split; reflexivity. Qed.
Example ex_dec_point : render_t [txt "-1.5"; txt "+2."; txt "007"] (letters Pxyz) = txt "-1.5x+2.y007z" /\
  conv (chain_of CPointNum) (txt "-1.5x+2.y007z") = Ok (VPoint Pxyz [txt "-1.5"; txt "+2."; txt "007"]).
Proof. split; reflexivity. Qed.
Example ex_float_shapes : forallb float_shape [txt "100000.0"; txt "-0.0"; txt "1e+16"; txt "1e-05";
    txt "1.7976931348623157e+308"; txt "5e-324"; txt "-2.5e-07"] = true /\
  forallb (fun t => negb (float_shape t)) [txt "1e5"; txt "100000"; txt "inf"; txt "nan"; txt "1."; txt ".5";
    txt "1e5.0"; txt "1.5e3"; txt "+1.5"; txt "1_0.5"] = true.
Proof. split; reflexivity. Qed.
Example ex_int : conv (chain_of CStrBoolPathCoordPointNum) (txt "-42") = Ok (VInt (-42)).
Proof. reflexivity. Qed.
Example ex_print : print_Z (-1203) = txt "-1203" /\ print_Z 0 = txt "0".
Proof. split; reflexivity. Qed.
Example ex_1e5_is_hex : conv (chain_of CNum) (txt "1e5") = Ok (VInt 485).
Proof. reflexivity. Qed.
Example ex_hex_words : conv (chain_of CNum) (txt "fade") = Ok (VInt 64222) /\
  conv (chain_of CStrBoolCoordNum) (txt "bad") = Ok (VInt 2989) /\
  conv (chain_of CStrBoolPathCoordPointNum) (txt "bad") = Ok (VPath (txt "bad")).
Proof. repeat split; reflexivity. Qed.
Example ex_point : render [3; -4] (letters Pxy) = txt "3x-4y" /\
  conv (chain_of CStrBoolPathCoordPointNum) (txt "1n2e3d") = Ok (VPoint Pned [txt "1"; txt "2"; txt "3"]).
Proof. split; reflexivity. Qed.
Example ex_latlon_before_float :
  conv (chain_of CStrBoolCoordNum) (txt "1e2.5") = Ok (VLatLon false (txt "1") (txt "2.5")).
Proof. reflexivity. Qed.
Example ex_quoted_number_is_string :
  conv (chain_of CStrBoolPathCoordPointNum) (dq (txt "5")) = Ok (VStr (txt "5")).
Proof. reflexivity. Qed.
Example ex_optional_x : conv (chain_of CPointNum) (txt "x5y") = Err.
Proof. reflexivity. Qed.
