(* C17 -- property theorems only.  Each closed by [exact]; Print Assumptions beneath.
   Every statement is about the chains GENERATED from building.py (coq/gen/C17_Chain.v). *)
From Coq Require Import List ZArith Bool String.
Import ListNotations.
Require Import V.C17.Model V.C17.Proofs V.C17.Proofs2 V.C17.Chains V.gen.C17_Chain.
Open Scope Z_scope.

(* The regex sources and the point classes extracted from globaling.py are exactly the ones the
   hand matchers of Model.v were written for; the call-site table is the expected one. *)
Theorem regex_sources_ok : gen_sources = expected_sources /\ gen_points = expected_points.
Proof. exact sources_ok. Qed.
Print Assumptions regex_sources_ok.

Theorem context_table_ok : gen_ctx_table = expected_ctx_table.
Proof. exact ctx_table_ok. Qed.
Print Assumptions context_table_ok.

(* Documented order for direct data (parseDirect): double-quoted, single-quoted, none, true/yes,
   false/no, path text, lat/lon NE, lat/lon SW, the six point kinds (xy ne fs xyz ned fsb),
   decimal int, hex int, float, complex.  Need goals: the same without path and points.
   Periods / tolerance: decimal int, hex int, float, complex. *)
Theorem order_doc :
  chain_of CStrBoolPathCoordPointNum =
    [StMatchStrip REO_Quoted 34; StMatchStrip REO_QuotedSingle 39;
     StLowerIn [txt "none"] VNone;
     StLowerIn [txt "true"; txt "yes"] (VBool true);
     StLowerIn [txt "false"; txt "no"] (VBool false);
     StMatchText REO_PathNode;
     StFindLatLon REO_LatLonNE false; StFindLatLon REO_LatLonSW true;
     StFindPoint REO_PointXY Pxy; StFindPoint REO_PointNE Pne; StFindPoint REO_PointFS Pfs;
     StFindPoint REO_PointXYZ Pxyz; StFindPoint REO_PointNED Pned; StFindPoint REO_PointFSB Pfsb;
     StInt 10; StInt 16; StFloat; StComplex] /\
  chain_of CStrBoolCoordNum =
    [StMatchStrip REO_Quoted 34; StMatchStrip REO_QuotedSingle 39;
     StLowerIn [txt "none"] VNone;
     StLowerIn [txt "true"; txt "yes"] (VBool true);
     StLowerIn [txt "false"; txt "no"] (VBool false);
     StFindLatLon REO_LatLonNE false; StFindLatLon REO_LatLonSW true;
     StInt 10; StInt 16; StFloat; StComplex] /\
  chain_of CNum = [StInt 10; StInt 16; StFloat; StComplex].
Proof. exact order_doc_proof. Qed.
Print Assumptions order_doc.

(* str(z) converts back to the int z, in EVERY converter chain (all literal contexts). *)
Theorem int_roundtrip : forall c z, c <> CStripQuotes ->
  conv (chain_of c) (print_Z z) = Ok (VInt z).
Proof. exact int_roundtrip_proof. Qed.
Print Assumptions int_roundtrip.

(* decimal is tried before hex, hex before float: whatever int(text,10) accepts is the value, and
   otherwise whatever int(text,16) accepts (so 1e5 -> 0x1e5 = 485, fade -> 64222 in a Num context) *)
Theorem hex_after_dec : forall t,
  (forall z, int_of 10 t = Some z -> conv (chain_of CNum) t = Ok (VInt z)) /\
  (forall z, int_of 10 t = None -> int_of 16 t = Some z -> conv (chain_of CNum) t = Ok (VInt z)).
Proof. exact hex_after_dec_proof. Qed.
Print Assumptions hex_after_dec.

(* none / true / yes / false / no in ANY letter case (so str(True), str(False), str(None) too)
   convert to None / True / False in every chain that has the boolean step. *)
Theorem bool_none_roundtrip : forall c t lit v,
  In c bool_chains -> In (lit, v) spellings -> lower t = lit -> conv (chain_of c) t = Ok v.
Proof. exact bool_none_proof. Qed.
Print Assumptions bool_none_roundtrip.

(* ... and the chains WITHOUT a boolean step (periods, tolerance: Convert2Num, and the Coord /
   Point number chains) refuse every such spelling with ValueError: none of them is a hex int. *)
Theorem num_chains_refuse_spellings : forall c t lit v,
  In c num_chains -> In (lit, v) spellings -> lower t = lit -> conv (chain_of c) t = Err.
Proof. exact num_refuse_proof. Qed.
Print Assumptions num_chains_refuse_spellings.

(* a quote-free string written between double (single) quotes converts to itself, in the chains
   that have the quoted steps (direct data, need goals, StripQuotes); s may be empty and may
   contain the other kind of quote *)
Theorem quoted_roundtrip : forall c s, In c quote_chains ->
  (noq 34 s = true -> conv (chain_of c) (dq s) = Ok (VStr s)) /\
  (noq 39 s = true -> conv (chain_of c) (sq s) = Ok (VStr s)).
Proof. exact quoted_proof. Qed.
Print Assumptions quoted_roundtrip.

(* integer-coordinate points of all six kinds, lower- or upper-case letters (3x-4y, 1N2E3D):
   converted to the point of that kind with those coordinate texts, in every chain with points;
   in particular lat/lon (which comes first and whose class [N,E,n,e] contains n and e) never
   captures them. *)
Theorem point_roundtrip : forall c k zs, In c point_chains ->
  List.length zs = List.length (letters k) ->
  conv (chain_of c) (render zs (letters k)) = Ok (VPoint k (map print_Z zs)) /\
  conv (chain_of c) (render zs (upletters k)) = Ok (VPoint k (map print_Z zs)).
Proof. exact point_proof. Qed.
Print Assumptions point_roundtrip.

(* non-vacuity / documented-order witnesses (examples, by computation) *)
Example ex_int : conv (chain_of CStrBoolPathCoordPointNum) (txt "-42") = Ok (VInt (-42)).
Proof. reflexivity. Qed.
Example ex_print : print_Z (-1203) = txt "-1203" /\ print_Z 0 = txt "0".
Proof. split; reflexivity. Qed.
Example ex_1e5_is_hex : conv (chain_of CNum) (txt "1e5") = Ok (VInt 485).
Proof. reflexivity. Qed.
Example ex_hex_words : conv (chain_of CNum) (txt "fade") = Ok (VInt 64222) /\
  conv (chain_of CStrBoolCoordNum) (txt "bad") = Ok (VInt 2989) /\
  conv (chain_of CStrBoolPathCoordPointNum) (txt "bad") = Ok (VPath (txt "bad")).
Proof. repeat split; reflexivity. Qed.
Example ex_point : render [3; -4] (letters Pxy) = txt "3x-4y" /\
  conv (chain_of CStrBoolPathCoordPointNum) (txt "1n2e3d") = Ok (VPoint Pned [txt "1"; txt "2"; txt "3"]).
Proof. split; reflexivity. Qed.
Example ex_latlon_before_float :
  conv (chain_of CStrBoolCoordNum) (txt "1e2.5") = Ok (VLatLon false (txt "1") (txt "2.5")).
Proof. reflexivity. Qed.
Example ex_quoted_number_is_string :
  conv (chain_of CStrBoolPathCoordPointNum) (dq (txt "5")) = Ok (VStr (txt "5")).
Proof. reflexivity. Qed.
Example ex_optional_x : conv (chain_of CPointNum) (txt "x5y") = Err.
Proof. reflexivity. Qed.
