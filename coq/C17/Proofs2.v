(* C17 -- lemmas, part 2: spellings, quoted strings, integer points *)
From Coq Require Import List ZArith Bool Lia String.
Import ListNotations.
Require Import V.C17.Model V.C17.Proofs.
Open Scope Z_scope.

(* ------------------------------------------------------------------ boolean / None spellings *)
Definition lowhead (t : list Z) : Prop := exists c r, t = c :: r /\ is_lower (lower_c c) = true.

Lemma quoted_lowhead q t : lowhead t -> q = 34 \/ q = 39 -> m_quoted q t = false.
Proof.
  intros (c & r & -> & Hc) Hq. unfold m_quoted.
  replace (c =? q) with false; [reflexivity|]. symmetry. apply Z.eqb_neq. intros ->.
  destruct Hq as [->| ->]; discriminate.
Qed.

Definition simple_eqb (a b : value) : bool :=
  match a, b with
  | VNone, VNone => true
  | VBool x, VBool y => Bool.eqb x y
  | _, _ => false
  end.

Lemma simple_eqb_eq a b : simple_eqb a b = true -> a = b.
Proof. destruct a, b; try discriminate; [reflexivity|]. simpl. intros H. now apply eqb_prop in H as ->. Qed.

Definition is_quote_rx (r : rx) : bool :=
  match r with REO_Quoted | REO_QuotedSingle => true | _ => false end.

Fixpoint lit_chain_ok (lit : list Z) (v : value) (ch : list step) : bool :=
  match ch with
  | StMatchStrip r _ :: rest => is_quote_rx r && lit_chain_ok lit v rest
  | StLowerIn lits v' :: rest => if mem_txt lit lits then simple_eqb v v' else lit_chain_ok lit v rest
  | _ => false
  end.

Definition lit_ok (lit : list Z) : bool := match lit with c :: _ => is_lower c | [] => false end.

Lemma lit_chain_sound lit v ch t :
  lit_ok lit = true -> lit_chain_ok lit v ch = true -> lower t = lit -> conv ch t = Ok v.
Proof.
  intros Hl Hc Ht.
  assert (Hh : lowhead t).
  { destruct lit as [|x lit]; [discriminate|]. destruct t as [|c r]; [discriminate|].
    exists c, r. split; [reflexivity|]. cbn [lower map] in Ht. injection Ht as -> _. exact Hl. }
  induction ch as [|s ch IH]; [discriminate|].
  destruct s; try discriminate; cbn [lit_chain_ok] in Hc; cbn [conv run_step].
  - apply andb_true_iff in Hc as [Hq Hc].
    replace (rx_groups r t) with (@None (list (list Z))); [now apply IH|].
    destruct r; try discriminate; cbn [rx_groups]; now rewrite quoted_lowhead by auto.
  - rewrite Ht. destruct (mem_txt lit lits); [now rewrite (simple_eqb_eq _ _ Hc)|now apply IH].
Qed.

Definition spellings : list (list Z * value) :=
  [(txt "none", VNone); (txt "true", VBool true); (txt "yes", VBool true);
   (txt "false", VBool false); (txt "no", VBool false)].

Definition spell_chain_ok (ch : list step) : bool :=
  forallb (fun p => lit_ok (fst p) && lit_chain_ok (fst p) (snd p) ch) spellings.

Lemma spell_chain_sound ch : spell_chain_ok ch = true ->
  forall t lit v, In (lit, v) spellings -> lower t = lit -> conv ch t = Ok v.
Proof.
  intros H t lit v Hin Ht. unfold spell_chain_ok in H. rewrite forallb_forall in H.
  specialize (H _ Hin). cbn [fst snd] in H. apply andb_true_iff in H as [H1 H2].
  now apply (lit_chain_sound lit v ch t).
Qed.

(* all case variants of a lower-case word *)
Fixpoint variants (lit : list Z) : list (list Z) :=
  match lit with
  | [] => [[]]
  | l :: r => flat_map (fun v => [l :: v; (l - 32) :: v]) (variants r)
  end.

Lemma lower_variants lit : forallb is_lower lit = true ->
  forall t, lower t = lit -> In t (variants lit).
Proof.
  induction lit as [|l lit IH]; intros Hl t Ht.
  - destruct t; [now left|discriminate].
  - destruct t as [|c t]; [discriminate|]. cbn [lower map] in Ht. injection Ht as Hc Ht.
    cbn [forallb] in Hl. apply andb_true_iff in Hl as [Hl1 Hl2].
    cbn [variants]. apply in_flat_map. exists t. split; [now apply IH|].
    unfold lower_c in Hc. destruct (is_upper c).
    + right. left. f_equal. lia.
    + left. now f_equal.
Qed.

Definition all_err (ch : list step) (lit : list Z) : bool :=
  forallb (fun t => match conv ch t with Err => true | _ => false end) (variants lit).

Lemma all_err_sound ch lit : forallb is_lower lit = true -> all_err ch lit = true ->
  forall t, lower t = lit -> conv ch t = Err.
Proof.
  intros Hl H t Ht. unfold all_err in H. rewrite forallb_forall in H.
  specialize (H t (lower_variants lit Hl t Ht)). now destruct (conv ch t).
Qed.

(* ------------------------------------------------------------------ quoted strings *)
Definition noq (q : Z) (s : list Z) : bool := forallb (fun c => negb (c =? q)) s.

Lemma quoted_body_ok q s : noq q s = true -> quoted_body q (s ++ [q]) = true.
Proof.
  induction s as [|c s IH]; intros H.
  - cbn. apply Z.eqb_refl.
  - cbn [noq forallb] in H. apply andb_true_iff in H as [H1 H2].
    cbn [app quoted_body]. destruct (s ++ [q]) eqn:E.
    + destruct s; discriminate.
    + rewrite H1. cbn [andb]. now apply IH.
Qed.

Lemma m_quoted_ok q s : noq q s = true -> m_quoted q (q :: s ++ [q]) = true.
Proof. intros H. unfold m_quoted. now rewrite Z.eqb_refl, quoted_body_ok. Qed.

Lemma lstrip_noq q s : noq q s = true -> lstrip q s = s.
Proof.
  destruct s as [|c s]; [reflexivity|]. cbn [noq forallb lstrip]. intros H.
  apply andb_true_iff in H as [H _]. apply negb_true_iff in H. now rewrite H.
Qed.

Lemma noq_rev q s : noq q s = true -> noq q (rev s) = true.
Proof.
  unfold noq. rewrite !forallb_forall. intros H x Hx. apply H. now apply in_rev.
Qed.

Lemma strip_ok q s : noq q s = true -> strip q (q :: s ++ [q]) = s.
Proof.
  intros H. unfold strip. cbn [lstrip]. rewrite Z.eqb_refl.
  destruct s as [|c s].
  - cbn. now rewrite Z.eqb_refl.
  - assert (Hc : (c =? q) = false).
    { cbn [noq forallb] in H. apply andb_true_iff in H as [H1 _]. now apply negb_true_iff in H1. }
    assert (E1 : lstrip q ((c :: s) ++ [q]) = (c :: s) ++ [q]) by (cbn [app lstrip]; now rewrite Hc).
    change (c :: s ++ [q]) with ((c :: s) ++ [q]).
    rewrite E1, rev_app_distr. change (rev [q]) with [q]. cbn [app lstrip]. rewrite Z.eqb_refl.
    rewrite lstrip_noq by now apply noq_rev. apply rev_involutive.
Qed.

Definition quoted_chain_ok (ch : list step) : bool :=
  match ch with
  | StMatchStrip REO_Quoted q1 :: StMatchStrip REO_QuotedSingle q2 :: _ => (q1 =? 34) && (q2 =? 39)
  | _ => false
  end.

Lemma quoted_chain_sound ch : quoted_chain_ok ch = true ->
  forall s, (noq 34 s = true -> conv ch (dq s) = Ok (VStr s)) /\
            (noq 39 s = true -> conv ch (sq s) = Ok (VStr s)).
Proof.
  intros H s. destruct ch as [|[] ch]; try discriminate. destruct r; try discriminate.
  destruct ch as [|[] ch]; try discriminate. destruct r; try discriminate.
  cbn [quoted_chain_ok] in H. apply andb_true_iff in H as [H1 H2].
  apply Z.eqb_eq in H1, H2. subst. split; intros Hs.
  - unfold dq. cbn [conv run_step rx_groups]. now rewrite m_quoted_ok, strip_ok.
  - unfold sq. cbn [conv run_step rx_groups].
    change (m_quoted 34 (39 :: s ++ [39])) with false. cbv iota.
    now rewrite m_quoted_ok, strip_ok.
Qed.

(* ------------------------------------------------------------------ integer points *)
Fixpoint seps_match (ls : list Z) (seps : list (list Z)) : bool :=
  match ls, seps with
  | [], [] => true
  | l :: ls', sp :: seps' => memZ l sp && seps_match ls' seps'
  | _, _ => false
  end.

Lemma numeral_cases t : numeral t -> digits t \/ exists ds, t = 45 :: ds /\ digits ds.
Proof. intros [ds H|ds H]; [now left|right; now exists ds]. Qed.

Lemma print_Z_cons z : exists c r, print_Z z = c :: r.
Proof. destruct (numeral_numhead _ (print_Z_numeral z)) as (c & r & H & _). now exists c, r. Qed.

Lemma pt_rest_render : forall seps zs ls,
  List.length zs = List.length ls -> forallb letter ls = true ->
  pt_rest seps (render zs ls) = if seps_match ls seps then Some (map print_Z zs) else None.
Proof.
  induction seps as [|sp seps IH]; intros zs ls Hlen Hlet.
  - destruct zs as [|z zs], ls as [|l ls]; try discriminate; [reflexivity|].
    cbn [render pt_rest seps_match]. destruct (print_Z_cons z) as (c & r & ->). reflexivity.
  - destruct zs as [|z zs], ls as [|l ls]; try discriminate; [reflexivity|].
    cbn [forallb] in Hlet. apply andb_true_iff in Hlet as [Hl Hlet].
    cbn [render pt_rest seps_match map].
    rewrite (scan_num_numeral (print_Z z) (l :: render zs ls) (print_Z_numeral z) Hl).
    rewrite IH by (try assumption; now injection Hlen).
    destruct (memZ l sp), (seps_match ls seps); reflexivity.
Qed.

Lemma render_numhead z zs l ls : numhead (render (z :: zs) (l :: ls)).
Proof.
  destruct (numeral_numhead _ (print_Z_numeral z)) as (c & r & H & Hc).
  exists c, (r ++ l :: render zs ls). cbn [render]. rewrite H. split; [reflexivity|exact Hc].
Qed.

Lemma latlon_render seps z1 z2 zs l1 l2 ls :
  letter l1 = true -> letter l2 = true ->
  m_latlon seps (render (z1 :: z2 :: zs) (l1 :: l2 :: ls)) = None.
Proof.
  intros H1 H2. cbn [render].
  assert (D1 : is_digit l1 = false) by (unfold letter in H1; apply andb_true_iff in H1 as [H _]; now apply negb_true_iff in H).
  assert (D2 : is_digit l2 = false) by (unfold letter in H2; apply andb_true_iff in H2 as [H _]; now apply negb_true_iff in H).
  assert (E2 : (l2 =? 46) = false) by (unfold letter in H2; apply andb_true_iff in H2 as [_ H]; now apply negb_true_iff in H).
  set (R2 := render zs ls).
  unfold m_latlon.
  destruct (numeral_cases _ (print_Z_numeral z1)) as [[Hn1 Hd1]|(d1 & E1 & _)].
  - rewrite (span_digits_app (print_Z z1) (l1 :: print_Z z2 ++ l2 :: R2) Hd1 D1).
    destruct (nonempty (print_Z z1) && memZ l1 seps); [|reflexivity].
    destruct (numeral_cases _ (print_Z_numeral z2)) as [[Hn2 Hd2]|(d2 & E2' & _)].
    + rewrite (span_digits_app (print_Z z2) (l2 :: R2) Hd2 D2). now rewrite E2.
    + rewrite E2'. cbn [app]. rewrite span_digits_neg. reflexivity.
  - rewrite E1. cbn [app]. rewrite span_digits_neg. reflexivity.
Qed.

Definition is_latlon_rx (r : rx) : bool :=
  match r with REO_LatLonNE | REO_LatLonSW => true | _ => false end.
Definition is_head_rx (r : rx) : bool :=
  match r with REO_Quoted | REO_QuotedSingle | REO_PathNode => true | _ => false end.

Definition pkind_eqb (a b : pkind) : bool :=
  match a, b with
  | Pxy, Pxy | Pne, Pne | Pfs, Pfs | Pxyz, Pxyz | Pned, Pned | Pfsb, Pfsb => true
  | _, _ => false
  end.
Lemma pkind_eqb_eq a b : pkind_eqb a b = true -> a = b.
Proof. destruct a, b; (reflexivity || discriminate). Qed.

Fixpoint point_chain_ok (ls : list Z) (k : pkind) (ch : list step) : bool :=
  match ch with
  | [] => false
  | s :: rest =>
      match s with
      | StMatchStrip r _ | StMatchText r => is_head_rx r && point_chain_ok ls k rest
      | StLowerIn lits _ => lits_alpha lits && point_chain_ok ls k rest
      | StFindLatLon r _ => is_latlon_rx r && point_chain_ok ls k rest
      | StFindPoint r k' =>
          is_point_rx r && (if seps_match ls (rx_seps r) then pkind_eqb k' k else point_chain_ok ls k rest)
      | _ => false
      end
  end.

Lemma head_rx_reject r t : is_head_rx r = true -> numhead t -> rx_groups r t = None.
Proof.
  intros Hr Ht. destruct r; try discriminate; cbn [rx_groups].
  - now rewrite quoted_numhead by auto.
  - now rewrite quoted_numhead by auto.
  - now rewrite pathnode_numhead.
Qed.

Lemma nonempty_prints zs : forallb nonempty (map print_Z zs) = true.
Proof.
  induction zs as [|z zs IH]; [reflexivity|]. cbn [map forallb]. rewrite IH, andb_true_r.
  destruct (print_Z_cons z) as (c & r & ->). reflexivity.
Qed.

Lemma point_chain_sound ls k ch : point_chain_ok ls k ch = true ->
  forallb letter ls = true -> (2 <= List.length ls)%nat ->
  forall zs, List.length zs = List.length ls ->
  conv ch (render zs ls) = Ok (VPoint k (map print_Z zs)).
Proof.
  intros Hc Hlet H2 zs Hlen.
  destruct ls as [|l1 [|l2 ls]]; try (cbn in H2; lia).
  destruct zs as [|z1 [|z2 zs]]; try discriminate.
  pose proof (render_numhead z1 (z2 :: zs) l1 (l2 :: ls)) as Hh.
  assert (L1 : letter l1 = true) by (cbn [forallb] in Hlet; now apply andb_true_iff in Hlet as [H _]).
  assert (L2 : letter l2 = true).
  { cbn [forallb] in Hlet. apply andb_true_iff in Hlet as [_ H]. now apply andb_true_iff in H as [H _]. }
  induction ch as [|s ch IH]; [discriminate|].
  destruct s; try discriminate; cbn [point_chain_ok] in Hc; cbn [conv run_step];
    apply andb_true_iff in Hc as [Hr Hc].
  - rewrite head_rx_reject by assumption. now apply IH.
  - rewrite lower_numhead by assumption. now apply IH.
  - rewrite head_rx_reject by assumption. now apply IH.
  - replace (rx_groups r (render (z1 :: z2 :: zs) (l1 :: l2 :: ls))) with (@None (list (list Z))).
    + now apply IH.
    + destruct r; try discriminate; cbn [rx_groups]; now rewrite latlon_render.
  - rewrite point_rx_numhead by assumption. rewrite pt_rest_render by assumption.
    destruct (seps_match (l1 :: l2 :: ls) (rx_seps r)).
    + rewrite nonempty_prints. now rewrite (pkind_eqb_eq _ _ Hc).
    + now apply IH.
Qed.
