(* C17 -- lemmas, part 3: decimal-coordinate points, lat/lon literals *)
From Coq Require Import List ZArith Bool Lia.
Import ListNotations.
Require Import V.C17.Model V.C17.Proofs V.C17.Proofs2.
Open Scope Z_scope.

Lemma span_digits_spec t : forall d r, span_digits t = (d, r) -> t = d ++ r /\ forallb is_digit d = true.
Proof.
  induction t as [|c t IH]; intros d r H.
  - cbn in H. injection H as <- <-. split; reflexivity.
  - cbn [span_digits] in H. destruct (is_digit c) eqn:E.
    + destruct (span_digits t) as [d' r'] eqn:E2. injection H as <- <-.
      destruct (IH _ _ eq_refl) as [-> Hd]. split; [reflexivity|]. cbn [forallb]. now rewrite E, Hd.
    + injection H as <- <-. split; reflexivity.
Qed.

(* ------------------------------------------------------------------ coordinate texts:
   exactly the language of the regex group  [-+]?\d+\.\d*|[-+]?\d+  *)
Definition sign_ok (sg : list Z) : Prop := sg = [] \/ sg = [45] \/ sg = [43].

Inductive numtext : list Z -> Prop :=
  | nt_int sg ip : sign_ok sg -> digits ip -> numtext (sg ++ ip)
  | nt_dec sg ip fp : sign_ok sg -> digits ip -> forallb is_digit fp = true ->
      numtext (sg ++ ip ++ 46 :: fp).

Lemma numeral_numtext t : numeral t -> numtext t.
Proof.
  intros [ds H|ds H].
  - apply (nt_int [] ds); [now left|exact H].
  - apply (nt_int [45] ds); [right; now left|exact H].
Qed.

Lemma opt_sign_signed sg ip X : sign_ok sg -> digits ip -> opt_sign (sg ++ ip ++ X) = (sg, ip ++ X).
Proof.
  intros [->|[->| ->]] H.
  - cbn [app]. now apply opt_sign_digits.
  - reflexivity.
  - reflexivity.
Qed.

Lemma scan_num_numtext t r : numtext t ->
  match r with c :: _ => letter c = true | [] => True end ->
  scan_num (t ++ r) = Some (t, r).
Proof.
  intros Ht Hr.
  assert (Hr' : match r with c :: _ => is_digit c = false | [] => True end).
  { destruct r as [|c r]; [exact I|]. unfold letter in Hr. apply andb_true_iff in Hr as [H _].
    now apply negb_true_iff in H. }
  assert (Hdot : match r with c :: _ => (c =? 46) = false | [] => True end).
  { destruct r as [|c r]; [exact I|]. unfold letter in Hr. apply andb_true_iff in Hr as [_ H].
    now apply negb_true_iff in H. }
  destruct Ht as [sg ip Hs Hi|sg ip fp Hs Hi Hf]; unfold scan_num.
  - rewrite <- app_assoc. rewrite (opt_sign_signed sg ip r Hs Hi).
    destruct Hi as [Hne Hd]. rewrite (span_digits_app ip r Hd Hr').
    rewrite nonempty_digits by (split; assumption).
    destruct r as [|c r]; [reflexivity|]. now rewrite Hdot.
  - replace ((sg ++ ip ++ 46 :: fp) ++ r) with (sg ++ ip ++ (46 :: fp ++ r))
      by (rewrite <- !app_assoc; reflexivity).
    rewrite (opt_sign_signed sg ip _ Hs Hi). destruct Hi as [Hne Hd].
    rewrite (span_digits_app ip (46 :: fp ++ r) Hd eq_refl).
    rewrite nonempty_digits by (split; assumption).
    change (46 =? 46) with true. cbv iota. rewrite (span_digits_app fp r Hf Hr').
    reflexivity.
Qed.

Lemma numtext_numhead t X : numtext t -> numhead (t ++ X).
Proof.
  intros [sg ip Hs Hi|sg ip fp Hs Hi Hf];
    destruct (digits_head _ Hi) as (c & r & -> & Hc);
    destruct Hs as [->|[->| ->]]; cbn [app]; eexists; eexists; (split; [reflexivity|]); unfold numc; lia.
Qed.

Lemma numtext_nonempty t : numtext t -> nonempty t = true.
Proof.
  intros H. destruct (numtext_numhead t [] H) as (c & r & E & _). rewrite app_nil_r in E. now rewrite E.
Qed.

Lemma pt_rest_render_t : forall seps cs ls,
  List.length cs = List.length ls -> forallb letter ls = true -> Forall numtext cs ->
  pt_rest seps (render_t cs ls) = if seps_match ls seps then Some cs else None.
Proof.
  induction seps as [|sp seps IH]; intros cs ls Hlen Hlet Hcs.
  - destruct cs as [|c cs], ls as [|l ls]; try discriminate; [reflexivity|].
    cbn [render_t pt_rest seps_match]. inversion Hcs as [|? ? Hc _]; subst.
    destruct (numtext_numhead c (l :: render_t cs ls) Hc) as (x & r & -> & _). reflexivity.
  - destruct cs as [|c cs], ls as [|l ls]; try discriminate; [reflexivity|].
    cbn [forallb] in Hlet. apply andb_true_iff in Hlet as [Hl Hlet].
    inversion Hcs as [|? ? Hc Hcs']; subst.
    cbn [render_t pt_rest seps_match].
    rewrite (scan_num_numtext c (l :: render_t cs ls) Hc Hl).
    rewrite IH by (try assumption; now injection Hlen).
    destruct (memZ l sp), (seps_match ls seps); reflexivity.
Qed.

(* ------------------------------------------------------------------ lat/lon needs a final digit:
   a complete point literal ends with its last letter, so lat/lon never captures it *)
Lemma latlon_ends_digit seps t g : m_latlon seps t = Some g ->
  exists p m x, t = p ++ m ++ [x] /\ is_digit x = true.
Proof.
  unfold m_latlon. destruct (span_digits t) as [deg r] eqn:E0.
  destruct r as [|c r1]; [discriminate|].
  destruct (nonempty deg && memZ c seps); [|discriminate].
  destruct (span_digits r1) as [m1 r2] eqn:E1. destruct r2 as [|c2 r3]; [discriminate|].
  destruct (c2 =? 46); [|discriminate].
  destruct (span_digits r3) as [m2 r4] eqn:E2. destruct r4; [|discriminate].
  destruct (nonempty m1 && nonempty m2) eqn:En; [|discriminate]. intros _.
  apply andb_true_iff in En as [_ En].
  destruct (span_digits_spec _ _ _ E0) as [-> _].
  destruct (span_digits_spec _ _ _ E1) as [-> _].
  destruct (span_digits_spec _ _ _ E2) as [-> Hd]. rewrite app_nil_r.
  destruct (exists_last (l := m2)) as (m' & x & ->); [destruct m2; [discriminate|discriminate]|].
  exists (deg ++ c :: m1 ++ [c2]), m', x. split.
  - rewrite <- !app_assoc. cbn [app]. rewrite <- !app_assoc. reflexivity.
  - rewrite forallb_app in Hd. apply andb_true_iff in Hd as [_ Hd]. cbn in Hd.
    now rewrite andb_true_r in Hd.
Qed.

Lemma latlon_ends_letter seps body l : is_digit l = false -> m_latlon seps (body ++ [l]) = None.
Proof.
  intros Hl. destruct (m_latlon seps (body ++ [l])) eqn:E; [|reflexivity].
  destruct (latlon_ends_digit _ _ _ E) as (p & m & x & Ht & Hx).
  rewrite !app_assoc in Ht. apply app_inj_tail in Ht as [_ ->]. congruence.
Qed.

Lemma render_t_last : forall cs ls, List.length cs = List.length ls -> cs <> [] ->
  exists body l, render_t cs ls = body ++ [l] /\ In l ls.
Proof.
  induction cs as [|c cs IH]; intros ls Hlen Hne; [congruence|].
  destruct ls as [|l ls]; [discriminate|]. cbn [render_t].
  destruct cs as [|c2 cs].
  - destruct ls; [|discriminate]. exists c, l. split; [reflexivity|now left].
  - destruct (IH ls ltac:(now injection Hlen) ltac:(discriminate)) as (b & x & E & Hin).
    exists (c ++ l :: b), x. split; [rewrite E, <- app_assoc; reflexivity|now right].
Qed.

Lemma latlon_render_t seps cs ls : List.length cs = List.length ls -> cs <> [] ->
  forallb letter ls = true -> m_latlon seps (render_t cs ls) = None.
Proof.
  intros Hlen Hne Hlet. destruct (render_t_last cs ls Hlen Hne) as (b & l & -> & Hin).
  apply latlon_ends_letter. rewrite forallb_forall in Hlet. specialize (Hlet _ Hin).
  unfold letter in Hlet. apply andb_true_iff in Hlet as [H _]. now apply negb_true_iff in H.
Qed.

Lemma nonempty_numtexts cs : Forall numtext cs -> forallb nonempty cs = true.
Proof.
  induction 1 as [|c cs Hc _ IH]; [reflexivity|]. cbn [forallb]. now rewrite numtext_nonempty, IH.
Qed.

Lemma point_chain_sound_t ls k ch : point_chain_ok ls k ch = true ->
  forallb letter ls = true ->
  forall cs, List.length cs = List.length ls -> cs <> [] -> Forall numtext cs ->
  conv ch (render_t cs ls) = Ok (VPoint k cs).
Proof.
  intros Hc Hlet cs Hlen Hne Hcs.
  assert (Hh : numhead (render_t cs ls)).
  { destruct cs as [|c cs]; [congruence|]. destruct ls as [|l ls]; [discriminate|].
    cbn [render_t]. inversion Hcs; subst. now apply numtext_numhead. }
  induction ch as [|s ch IH]; [discriminate|].
  destruct s; try discriminate; cbn [point_chain_ok] in Hc; cbn [conv run_step];
    apply andb_true_iff in Hc as [Hr Hc].
  - rewrite head_rx_reject by assumption. now apply IH.
  - rewrite lower_numhead by assumption. now apply IH.
  - rewrite head_rx_reject by assumption. now apply IH.
  - replace (rx_groups r (render_t cs ls)) with (@None (list (list Z))).
    + now apply IH.
    + destruct r; try discriminate; cbn [rx_groups]; now rewrite latlon_render_t.
  - rewrite point_rx_numhead by assumption. rewrite pt_rest_render_t by assumption.
    destruct (seps_match ls (rx_seps r)).
    + rewrite nonempty_numtexts by assumption. now rewrite (pkind_eqb_eq _ _ Hc).
    + now apply IH.
Qed.

(* ------------------------------------------------------------------ lat/lon literals *)
Lemma m_latlon_ok seps deg h m1 m2 : digits deg -> digits m1 -> digits m2 -> is_digit h = false ->
  m_latlon seps (latlon_text deg h m1 m2) =
  if memZ h seps then Some [deg; m1 ++ 46 :: m2] else None.
Proof.
  intros [Hn0 Hd0] [Hn1 Hd1] [Hn2 Hd2] Hh. unfold m_latlon, latlon_text.
  rewrite (span_digits_app deg (h :: m1 ++ 46 :: m2) Hd0 Hh).
  rewrite nonempty_digits by (split; assumption). cbn [andb].
  destruct (memZ h seps); [|reflexivity].
  rewrite (span_digits_app m1 (46 :: m2) Hd1 eq_refl).
  change (46 =? 46) with true. cbv iota. rewrite (span_digits_all m2 Hd2).
  now rewrite !nonempty_digits by (split; assumption).
Qed.

Lemma memZ_nondigit h seps : memZ h seps = true ->
  forallb (fun c => negb (is_digit c)) seps = true -> is_digit h = false.
Proof.
  induction seps as [|x seps IH]; [discriminate|]. cbn [memZ forallb]. intros H Hs.
  apply andb_true_iff in Hs as [Hx Hs]. apply orb_true_iff in H as [H|H].
  - apply Z.eqb_eq in H. subst. now apply negb_true_iff in Hx.
  - now apply IH.
Qed.

Definition head_step_ok (s : step) : bool :=
  match s with
  | StMatchStrip r _ | StMatchText r => is_head_rx r
  | StLowerIn lits _ => lits_alpha lits
  | _ => false
  end.

Lemma head_step_reject s t : head_step_ok s = true -> numhead t -> run_step s t = None.
Proof.
  intros Hs Ht. destruct s; try discriminate; cbn [head_step_ok] in Hs; cbn [run_step].
  - now rewrite head_rx_reject.
  - now rewrite lower_numhead.
  - now rewrite head_rx_reject.
Qed.

Definition is_llNE (s : step) : bool :=
  match s with StFindLatLon REO_LatLonNE false => true | _ => false end.
Definition is_llSW (s : step) : bool :=
  match s with StFindLatLon REO_LatLonSW true => true | _ => false end.

Fixpoint latlon_chain_ok (ch : list step) : bool :=
  match ch with
  | [] => false
  | s :: rest =>
      if is_llNE s then match rest with s2 :: _ => is_llSW s2 | [] => false end
      else head_step_ok s && latlon_chain_ok rest
  end.

Lemma latlon_chain_sound ch : latlon_chain_ok ch = true ->
  forall deg h m1 m2, digits deg -> digits m1 -> digits m2 ->
  (memZ h ne_class = true ->
     conv ch (latlon_text deg h m1 m2) = Ok (VLatLon false deg (m1 ++ 46 :: m2))) /\
  (memZ h ne_class = false -> memZ h sw_class = true ->
     conv ch (latlon_text deg h m1 m2) = Ok (VLatLon true deg (m1 ++ 46 :: m2))).
Proof.
  intros Hc deg h m1 m2 H0 H1 H2.
  assert (Hh : numhead (latlon_text deg h m1 m2)).
  { destruct (digits_head _ H0) as (c & r & -> & Hc'). exists c, (r ++ h :: m1 ++ 46 :: m2).
    split; [reflexivity|]. unfold numc. lia. }
  induction ch as [|s ch IH]; [discriminate|].
  cbn [latlon_chain_ok] in Hc. destruct (is_llNE s) eqn:Es.
  - destruct s; try discriminate. destruct r; try discriminate. destruct neg; try discriminate.
    destruct ch as [|s2 ch]; [discriminate|].
    destruct s2; try discriminate. destruct r; try discriminate. destruct neg; try discriminate.
    split.
    + intros Hne. assert (Hd : is_digit h = false) by (apply (memZ_nondigit h ne_class); [assumption|reflexivity]).
      cbn [conv run_step rx_groups]. fold ne_class. rewrite m_latlon_ok by assumption. now rewrite Hne.
    + intros Hne Hsw. assert (Hd : is_digit h = false) by (apply (memZ_nondigit h sw_class); [assumption|reflexivity]).
      cbn [conv run_step rx_groups]. fold ne_class. fold sw_class.
      rewrite !m_latlon_ok by assumption. now rewrite Hne, Hsw.
  - apply andb_true_iff in Hc as [Hs Hc]. cbn [conv]. rewrite head_step_reject by assumption.
    now apply IH.
Qed.
