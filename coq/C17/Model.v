(* C17 -- direct data literals convert to the documented typed values.
   Model (definitions only).

   Text = list Z of code points.  The model is exact for texts over the TOKEN ALPHABET
   (printable ASCII 32..126; the numeric steps additionally assume no space, which holds for every
   unquoted FloScript token).  Outside it (newline before `$`, unicode digits/letters, whitespace
   stripped by int()/float()) the model says nothing.

   Floats are not computed: the float()/complex() steps are recognisers for CPython's text
   grammar and return the text; points and lat/lon return the captured group texts. *)
From Coq Require Import List ZArith Bool String.
Import ListNotations.
Open Scope Z_scope.

(* ------------------------------------------------------------------ vocabulary *)
Inductive rx := REO_Quoted | REO_QuotedSingle | REO_PathNode | REO_LatLonNE | REO_LatLonSW
  | REO_PointXY | REO_PointXYZ | REO_PointNE | REO_PointNED | REO_PointFS | REO_PointFSB.

Inductive pkind := Pxy | Pne | Pfs | Pxyz | Pned | Pfsb.

Inductive cid := CNum | CCoordNum | CBoolCoordNum | CStrBoolCoordNum | CPointNum | CCoordPointNum
  | CBoolCoordPointNum | CPathCoordPointNum | CBoolPathCoordPointNum | CStrBoolPathCoordPointNum
  | CStripQuotes.

Inductive callee := Conv (c : cid) | Parser (name : string).

Inductive value :=
  | VNone
  | VBool (b : bool)
  | VInt (z : Z)
  | VStr (s : list Z)                      (* quotes stripped *)
  | VPath (s : list Z)                     (* a Python str too: the text itself *)
  | VPoint (k : pkind) (coords : list (list Z))   (* the point class k applied to float of each text *)
  | VLatLon (neg : bool) (deg mins : list Z)      (* +-(float deg + float mins / 60.0) *)
  | VFloatText (s : list Z)                (* float(s) *)
  | VComplexText (s : list Z).             (* complex(s) *)

Inductive result := Ok (v : value) | Err.  (* Err = ValueError, the only error class *)

Inductive step :=
  | StMatchStrip (r : rx) (q : Z)          (* if r.match(text): return text.strip(q) *)
  | StLowerIn (lits : list (list Z)) (v : value)  (* if text.lower() in lits: return v *)
  | StMatchText (r : rx)                   (* if r.match(text): return text *)
  | StFindLatLon (r : rx) (neg : bool)
  | StFindPoint (r : rx) (k : pkind)
  | StInt (base : Z)
  | StFloat
  | StComplex
  | StAsIs.                                (* return text *)

(* ------------------------------------------------------------------ characters *)
Definition is_digit (c : Z) := (48 <=? c) && (c <=? 57).
Definition is_upper (c : Z) := (65 <=? c) && (c <=? 90).
Definition is_lower (c : Z) := (97 <=? c) && (c <=? 122).
Definition is_alpha_ (c : Z) := is_upper c || is_lower c || (c =? 95).
Definition is_word (c : Z) := is_alpha_ c || is_digit c.
Definition lower_c (c : Z) := if is_upper c then c + 32 else c.
Definition lower (t : list Z) := map lower_c t.

Fixpoint memZ (c : Z) (l : list Z) : bool :=
  match l with [] => false | x :: r => (c =? x) || memZ c r end.

Fixpoint txt_eqb (a b : list Z) : bool :=
  match a, b with
  | [], [] => true
  | x :: a', y :: b' => (x =? y) && txt_eqb a' b'
  | _, _ => false
  end.

Fixpoint mem_txt (t : list Z) (l : list (list Z)) : bool :=
  match l with [] => false | x :: r => txt_eqb t x || mem_txt t r end.

(* ------------------------------------------------------------------ regex matchers
   Every matcher returns None (no match) or Some groups.  `$` is end of text (no newline in
   tokens). *)

(* ^q[^q]*q$ *)
Fixpoint quoted_body (q : Z) (t : list Z) : bool :=
  match t with
  | [] => false
  | c :: r => match r with
              | [] => c =? q
              | _ => negb (c =? q) && quoted_body q r
              end
  end.
Definition m_quoted (q : Z) (t : list Z) : bool :=
  match t with c :: r => (c =? q) && quoted_body q r | [] => false end.

(* str.strip(q) for a one-character q *)
Fixpoint lstrip (q : Z) (t : list Z) : list Z :=
  match t with c :: r => if c =? q then lstrip q r else t | [] => [] end.
Definition strip (q : Z) (t : list Z) : list Z := rev (lstrip q (rev (lstrip q t))).

(* REO_PathNode: optional leading dot, identifiers separated by single dots, optional trailing dot.
   state 0: identifier start required; 1: inside identifier; 2: just after a dot (end allowed) *)
Fixpoint pnode (st : nat) (t : list Z) : bool :=
  match t with
  | [] => match st with O => false | _ => true end
  | c :: r =>
      match st with
      | 1%nat => if is_word c then pnode 1 r else if c =? 46 then pnode 2 r else false
      | _ => if is_alpha_ c then pnode 1 r else false
      end
  end.
Definition m_pathnode (t : list Z) : bool :=
  match t with c :: r => if c =? 46 then pnode 0 r else pnode 0 t | [] => false end.

(* \d* greedy *)
Fixpoint span_digits (t : list Z) : list Z * list Z :=
  match t with
  | c :: r => if is_digit c then let (d, r') := span_digits r in (c :: d, r') else ([], t)
  | [] => ([], [])
  end.

Definition nonempty (l : list Z) : bool := match l with [] => false | _ => true end.

(* ^(\d+)[seps](\d+\.\d+)$ *)
Definition m_latlon (seps : list Z) (t : list Z) : option (list (list Z)) :=
  let (deg, r) := span_digits t in
  match r with
  | c :: r1 =>
      if nonempty deg && memZ c seps then
        let (m1, r2) := span_digits r1 in
        match r2 with
        | c2 :: r3 =>
            if c2 =? 46 then
              let (m2, r4) := span_digits r3 in
              match r4 with
              | [] => if nonempty m1 && nonempty m2 then Some [deg; m1 ++ 46 :: m2] else None
              | _ => None
              end
            else None
        | [] => None
        end
      else None
  | [] => None
  end.

Definition opt_sign (t : list Z) : list Z * list Z :=
  match t with c :: r => if (c =? 45) || (c =? 43) then ([c], r) else ([], t) | [] => ([], []) end.

(* [-+]?\d+\.\d*|[-+]?\d+   followed by something that is neither a digit nor a dot *)
Definition scan_num (t : list Z) : option (list Z * list Z) :=
  let (sg, r) := opt_sign t in
  let (d, r1) := span_digits r in
  if nonempty d then
    match r1 with
    | c :: r2 =>
        if c =? 46 then let (f, r3) := span_digits r2 in Some (sg ++ d ++ 46 :: f, r3)
        else Some (sg ++ d, r1)
    | [] => Some (sg ++ d, r1)
    end
  else None.

(* (num)[sep1](num)[sep2]...$ *)
Fixpoint pt_rest (seps : list (list Z)) (t : list Z) : option (list (list Z)) :=
  match seps with
  | [] => match t with [] => Some [] | _ => None end
  | sp :: seps' =>
      match scan_num t with
      | Some (g, c :: r) =>
          if memZ c sp then
            match pt_rest seps' r with Some gs => Some (g :: gs) | None => None end
          else None
      | _ => None
      end
  end.

(* REO_PointXY only: the first group is optional (`(...)?`), an absent group is '' in findall *)
Definition m_point (optfirst : bool) (seps : list (list Z)) (t : list Z) : option (list (list Z)) :=
  match pt_rest seps t with
  | Some gs => Some gs
  | None =>
      if optfirst then
        match seps, t with
        | sp :: seps', c :: r =>
            if memZ c sp then
              match pt_rest seps' r with Some gs => Some ([] :: gs) | None => None end
            else None
        | _, _ => None
        end
      else None
  end.

Definition sepsOf (a b : Z) : list Z := [a; 44; b].   (* [X,x] : the comma is in the class *)

Definition rx_groups (r : rx) (t : list Z) : option (list (list Z)) :=
  match r with
  | REO_Quoted => if m_quoted 34 t then Some [] else None
  | REO_QuotedSingle => if m_quoted 39 t then Some [] else None
  | REO_PathNode => if m_pathnode t then Some [] else None
  | REO_LatLonNE => m_latlon [78; 44; 69; 44; 110; 44; 101] t
  | REO_LatLonSW => m_latlon [83; 44; 87; 44; 115; 44; 119] t
  | REO_PointXY => m_point true [sepsOf 88 120; sepsOf 89 121] t
  | REO_PointXYZ => m_point false [sepsOf 88 120; sepsOf 89 121; sepsOf 90 122] t
  | REO_PointNE => m_point false [sepsOf 78 110; sepsOf 69 101] t
  | REO_PointNED => m_point false [sepsOf 78 110; sepsOf 69 101; sepsOf 68 100] t
  | REO_PointFS => m_point false [sepsOf 70 102; sepsOf 83 115] t
  | REO_PointFSB => m_point false [sepsOf 70 102; sepsOf 83 115; sepsOf 66 98] t
  end.

Definition txt (s : string) : list Z :=
  map (fun a => Z.of_nat (Ascii.nat_of_ascii a)) (list_ascii_of_string s).

(* the regex sources the matchers above were written for *)
Definition expected_sources : list (rx * list Z) := [
  (REO_LatLonNE, txt "^(\d+)[N,E,n,e](\d+\.\d+)$");
  (REO_LatLonSW, txt "^(\d+)[S,W,s,w](\d+\.\d+)$");
  (REO_PathNode, txt "^([a-zA-Z_]\w*)+(([.][a-zA-Z_]\w*)*$|([.][a-zA-Z_]\w*)*[.]$)|^([.][a-zA-Z_]\w*)+$|^([.][a-zA-Z_]\w*)+[.]$");
  (REO_PointFS, txt "^([-+]?\d+\.\d*|[-+]?\d+)[F,f]([-+]?\d+\.\d*|[-+]?\d+)[S,s]$");
  (REO_PointFSB, txt "^([-+]?\d+\.\d*|[-+]?\d+)[F,f]([-+]?\d+\.\d*|[-+]?\d+)[S,s]([-+]?\d+\.\d*|[-+]?\d+)[B,b]$");
  (REO_PointNE, txt "^([-+]?\d+\.\d*|[-+]?\d+)[N,n]([-+]?\d+\.\d*|[-+]?\d+)[E,e]$");
  (REO_PointNED, txt "^([-+]?\d+\.\d*|[-+]?\d+)[N,n]([-+]?\d+\.\d*|[-+]?\d+)[E,e]([-+]?\d+\.\d*|[-+]?\d+)[D,d]$");
  (REO_PointXY, txt "^([-+]?\d+\.\d*|[-+]?\d+)?[X,x]([-+]?\d+\.\d*|[-+]?\d+)[Y,y]$");
  (REO_PointXYZ, txt "^([-+]?\d+\.\d*|[-+]?\d+)[X,x]([-+]?\d+\.\d*|[-+]?\d+)[Y,y]([-+]?\d+\.\d*|[-+]?\d+)[Z,z]$");
  (REO_Quoted, txt "^""[^""]*""$");
  (REO_QuotedSingle, txt "^'[^']*'$")
].

Definition expected_points : list (pkind * list (list Z)) := [
  (Pxy, [txt "x"; txt "y"]); (Pne, [txt "n"; txt "e"]); (Pfs, [txt "f"; txt "s"]);
  (Pxyz, [txt "x"; txt "y"; txt "z"]); (Pned, [txt "n"; txt "e"; txt "d"]);
  (Pfsb, [txt "f"; txt "s"; txt "b"])
].

(* ------------------------------------------------------------------ int(text, base), base 10 / 16
   CPython PyLong_FromString without surrounding whitespace: sign, for base 16 an optional
   0x/0X prefix which may be followed by ONE underscore, then digits with single underscores
   between digits.  (CPython >= 3.11 also refuses more than 4300 decimal digits: not modelled,
   see meta.json.) *)
Definition digit_val (c : Z) : option Z :=
  if is_digit c then Some (c - 48)
  else if is_lower c then Some (c - 87)
  else if is_upper c then Some (c - 55)
  else None.

Definition is_bdigit (base c : Z) : bool :=
  match digit_val c with Some d => d <? base | None => false end.

Fixpoint digs (base acc : Z) (prev_us : bool) (t : list Z) : option Z :=
  match t with
  | [] => if prev_us then None else Some acc
  | c :: r =>
      if c =? 95 then (if prev_us then None else digs base acc true r)
      else match digit_val c with
           | Some d => if d <? base then digs base (acc * base + d) false r else None
           | None => None
           end
  end.

Definition skip_prefix16 (t : list Z) : list Z :=
  match t with
  | z :: x :: r =>
      if (z =? 48) && ((x =? 120) || (x =? 88)) then
        match r with u :: r' => if u =? 95 then r' else r | [] => r end
      else t
  | _ => t
  end.

Definition int_of (base : Z) (t : list Z) : option Z :=
  let (neg, r) := match t with
                  | c :: r => if c =? 45 then (true, r) else if c =? 43 then (false, r) else (false, t)
                  | [] => (false, t)
                  end in
  let r := if base =? 16 then skip_prefix16 r else r in
  match r with
  | c :: _ =>
      if is_bdigit base c then
        match digs base 0 false r with
        | Some n => Some (if neg then - n else n)
        | None => None
        end
      else None
  | [] => None
  end.

(* ------------------------------------------------------------------ float(text) / complex(text)
   CPython: underscores only between two digits (then removed); then _PyOS_ascii_strtod's
   longest valid prefix: [sign] (digits [. digits*] | . digits+) [e|E [sign] digits+]
   or [sign] inf | infinity | nan (any case). *)
Fixpoint us_ok (prev : Z) (t : list Z) : bool :=
  match t with
  | [] => negb (prev =? 95)
  | c :: r =>
      (if c =? 95 then is_digit prev
       else if prev =? 95 then is_digit c else true) && us_ok c r
  end.
Definition no_us (t : list Z) : list Z := filter (fun c => negb (c =? 95)) t.

Fixpoint ci_prefix (lit t : list Z) : option (list Z) :=
  match lit with
  | [] => Some t
  | l :: lit' => match t with
                 | c :: r => if lower_c c =? l then ci_prefix lit' r else None
                 | [] => None
                 end
  end.

(* rest of the text after the longest prefix that parses as a double; None if there is none *)
Definition scan_double (t : list Z) : option (list Z) :=
  let (_, r) := opt_sign t in
  let (d1, r1) := span_digits r in
  let (d2, r2) := match r1 with
                  | 46 :: r' => span_digits r'
                  | _ => ([], r1)
                  end in
  if nonempty d1 || nonempty d2 then
    match r2 with
    | c :: r3 =>
        if (c =? 101) || (c =? 69) then
          let (_, r4) := opt_sign r3 in
          let (d3, r5) := span_digits r4 in
          if nonempty d3 then Some r5 else Some r2
        else Some r2
    | [] => Some r2
    end
  else if nonempty d1 || (match r1 with 46 :: _ => true | _ => false end) then None
  else
    match ci_prefix [105; 110; 102] r with          (* inf *)
    | Some r' => match ci_prefix [105; 110; 105; 116; 121] r' with   (* inity *)
                 | Some r'' => Some r''
                 | None => Some r'
                 end
    | None => ci_prefix [110; 97; 110] r             (* nan *)
    end.

Definition is_nil (t : list Z) : bool := match t with [] => true | _ => false end.

Definition float_ok (t : list Z) : bool :=
  us_ok 0 t && match scan_double (no_us t) with Some r => is_nil r | None => false end.

Definition is_j (c : Z) := (c =? 106) || (c =? 74).
Definition is_pm (c : Z) := (c =? 43) || (c =? 45).

(* complex_from_string_inner after the optional parenthesis: returns the unparsed rest *)
Definition complex_inner (s : list Z) : option (list Z) :=
  match scan_double s with
  | Some r =>
      match r with
      | c :: r1 =>
          if is_pm c then
            match scan_double r with
            | Some r2 => match r2 with j :: r3 => if is_j j then Some r3 else None | [] => None end
            | None => match r1 with j :: r3 => if is_j j then Some r3 else None | [] => None end
            end
          else if is_j c then Some r1
          else Some r
      | [] => Some r
      end
  | None =>
      match s with
      | c :: r1 =>
          if is_pm c then
            match r1 with j :: r3 => if is_j j then Some r3 else None | [] => None end
          else if is_j c then Some r1 else None
      | [] => None
      end
  end.

Definition complex_ok (t : list Z) : bool :=
  us_ok 0 t &&
  let s := no_us t in
  match s with
  | 40 :: s' => match complex_inner s' with Some [41] => true | _ => false end
  | _ => match complex_inner s with Some r => is_nil r | None => false end
  end.

(* ------------------------------------------------------------------ the interpreter *)
Definition run_step (s : step) (t : list Z) : option result :=
  match s with
  | StMatchStrip r q =>
      match rx_groups r t with Some _ => Some (Ok (VStr (strip q t))) | None => None end
  | StLowerIn lits v => if mem_txt (lower t) lits then Some (Ok v) else None
  | StMatchText r =>
      match rx_groups r t with Some _ => Some (Ok (VPath t)) | None => None end
  | StFindLatLon r neg =>
      match rx_groups r t with
      | Some [deg; mins] => Some (Ok (VLatLon neg deg mins))
      | Some _ => Some Err
      | None => None
      end
  | StFindPoint r k =>
      match rx_groups r t with
      | Some gs =>
          (* float('') raises ValueError straight out of the converter (absent optional group) *)
          if forallb nonempty gs then Some (Ok (VPoint k gs)) else Some Err
      | None => None
      end
  | StInt base => match int_of base t with Some z => Some (Ok (VInt z)) | None => None end
  | StFloat => if float_ok t then Some (Ok (VFloatText t)) else None
  | StComplex => if complex_ok t then Some (Ok (VComplexText t)) else None
  | StAsIs => Some (Ok (VStr t))
  end.

Fixpoint conv (ch : list step) (t : list Z) : result :=
  match ch with
  | [] => Err
  | s :: rest => match run_step s t with Some r => r | None => conv rest t end
  end.

(* the float oracle view: the text accepted by the float step, read by a given float_of_text
   (CPython float(), not modelled here) *)
Inductive resF (F : Type) := OkFloat (x : F) | Other (r : result).
Arguments OkFloat {F} x.
Arguments Other {F} r.
Definition conv_f {F : Type} (float_of_text : list Z -> option F) (ch : list step) (t : list Z) : resF F :=
  match conv ch t with
  | Ok (VFloatText s) => match float_of_text s with Some x => OkFloat x | None => Other Err end
  | r => Other r
  end.

(* ------------------------------------------------------------------ literal printers *)
(* Python str(int): decimal, no leading zeros, '-' for negatives *)
Fixpoint dg (fuel : nat) (n : Z) (acc : list Z) : list Z :=
  match fuel with
  | O => acc
  | S f => if n <? 10 then (48 + n) :: acc else dg f (n / 10) ((48 + n mod 10) :: acc)
  end.
Definition print_nat (n : Z) : list Z := dg (S (Z.to_nat (Z.log2 n))) n [].
Definition print_Z (z : Z) : list Z := if z <? 0 then 45 :: print_nat (- z) else print_nat z.

(* a point literal from coordinate TEXTS: <c1><l1><c2><l2>[<c3><l3>] *)
Fixpoint render_t (cs : list (list Z)) (ls : list Z) : list Z :=
  match cs, ls with
  | c :: cs', l :: ls' => c ++ l :: render_t cs' ls'
  | _, _ => []
  end.

(* a lat/lon literal: <deg><hemisphere letter><min>.<frac> *)
Definition latlon_text (deg : list Z) (h : Z) (m1 m2 : list Z) : list Z := deg ++ h :: m1 ++ 46 :: m2.
Definition ne_class : list Z := [78; 44; 69; 44; 110; 44; 101].
Definition sw_class : list Z := [83; 44; 87; 44; 115; 44; 119].

(* the shape of Python's repr of a finite float: [-]digits.digits | [-]digits[.digits]e(+|-)digits *)
Definition exp_ok (r : list Z) : bool :=
  match r with
  | e :: s :: ds => (e =? 101) && ((s =? 43) || (s =? 45)) && nonempty ds && forallb is_digit ds
  | _ => false
  end.
Definition float_shape (t : list Z) : bool :=
  let r := match t with c :: r' => if c =? 45 then r' else t | [] => t end in
  let (ip, r1) := span_digits r in
  nonempty ip &&
  match r1 with
  | c :: r2 =>
      if c =? 46 then
        let (fp, r3) := span_digits r2 in nonempty fp && (is_nil r3 || exp_ok r3)
      else exp_ok r1
  | [] => false
  end.

(* a point literal with integer coordinates: <z1><l1><z2><l2>[<z3><l3>] *)
Fixpoint render (zs : list Z) (ls : list Z) : list Z :=
  match zs, ls with
  | z :: zs', l :: ls' => print_Z z ++ l :: render zs' ls'
  | _, _ => []
  end.

Definition letters (k : pkind) : list Z :=
  match k with
  | Pxy => [120; 121] | Pne => [110; 101] | Pfs => [102; 115]
  | Pxyz => [120; 121; 122] | Pned => [110; 101; 100] | Pfsb => [102; 115; 98]
  end.
Definition upletters (k : pkind) : list Z := map (fun c => c - 32) (letters k).

Definition dq (s : list Z) : list Z := 34 :: s ++ [34].
Definition sq (s : list Z) : list Z := 39 :: s ++ [39].

(* ------------------------------------------------------------------ enumeration (for the
   exhaustive matcher-vs-`re` comparison; same order as itertools.product) *)
Fixpoint enum (alpha : list Z) (n : nat) : list (list Z) :=
  match n with
  | O => [[]]
  | S m => flat_map (fun c => map (cons c) (enum alpha m)) alpha
  end.

Definition hits {A} (f : list Z -> option A) (alpha : list Z) (n : nat) : list (list Z * A) :=
  flat_map (fun s => match f s with Some g => [(s, g)] | None => [] end) (enum alpha n).

(* ------------------------------------------------------------------ expected call-site table:
   which converters / data parsers every Builder method calls.  Direct data (init, server, put,
   inc, set, do with/per/cum, framer goal) goes through parseDirect -> StrBoolPathCoordPointNum;
   need goals through parseNeedGoal / parseFramerNeedGoal -> StrBoolCoordNum; periods, timeouts,
   repeats, logger parameters and tolerance through Num. *)
Definition expected_ctx_table : list (string * list callee) := [
  ("Builder.buildInit"%string, [Parser "parseDirect"]);
  ("Builder.buildServer"%string, [Conv CNum; Parser "parseDirect"]);
  ("Builder.buildLogger"%string, [Conv CNum]);
  ("Builder.buildLoggee"%string, [Conv CStripQuotes]);
  ("Builder.buildFramer"%string, [Conv CNum]);
  ("Builder.buildTimeout"%string, [Conv CNum]);
  ("Builder.buildRepeat"%string, [Conv CNum]);
  ("Builder.buildPut"%string, [Parser "parseDirect"]);
  ("Builder.buildInc"%string, [Parser "parseDirect"]);
  ("Builder.buildSet"%string, [Parser "parseDirect"]);
  ("Builder.buildDo"%string, [Parser "parseDirect"]);
  ("Builder.buildBid"%string, [Conv CNum]);
  ("Builder.makeFramerGoal"%string, [Parser "parseDirect"]);
  ("Builder.makeNeed"%string, [Parser "parseNeedGoal"; Parser "parseTolerance"]);
  ("Builder.makeMarkerNeed"%string, [Conv CStripQuotes]);
  ("Builder.makeFramerNeed"%string, [Parser "parseFramerNeedGoal"; Parser "parseTolerance"]);
  ("Builder.parseDirect"%string, [Conv CStrBoolPathCoordPointNum; Conv CStripQuotes]);
  ("Builder.parseFields"%string, [Conv CStripQuotes]);
  ("Builder.parseField"%string, [Conv CStripQuotes]);
  ("Builder.parseFramerState"%string, [Conv CStripQuotes]);
  ("Builder.parseNeedGoal"%string, [Conv CStrBoolCoordNum]);
  ("Builder.parseFramerNeedGoal"%string, [Conv CStrBoolCoordNum]);
  ("Builder.parseTolerance"%string, [Conv CNum])
].
