From Coq Require Import List ZArith Bool Lia Arith.
Import ListNotations.
Require Import V.C47.Model.
Open Scope Z_scope.

Lemma name_eqb_eq a : forall b, name_eqb a b = true <-> a = b.
Proof.
  induction a as [|x a IH]; intros [|y b]; cbn; try (split; [discriminate|congruence]); [tauto|].
  rewrite andb_true_iff, Z.eqb_eq, IH. split; [intros [-> ->]; reflexivity | intros H; inversion H; auto].
Qed.
Lemma name_eqb_refl a : name_eqb a a = true.
Proof. apply name_eqb_eq. reflexivity. Qed.
Lemma name_eqb_sym a b : name_eqb a b = name_eqb b a.
Proof. apply eq_true_iff_eq. rewrite !name_eqb_eq. split; congruence. Qed.

Lemma dmemN_In n d : dmemN n d = true <-> In n (map fst d).
Proof.
  unfold dmemN. rewrite existsb_exists, in_map_iff. split.
  - intros [p [Hp He]]. apply name_eqb_eq in He. exists p. split; [congruence|exact Hp].
  - intros [p [He Hp]]. exists p. split; [exact Hp|]. apply name_eqb_eq. congruence.
Qed.
Lemma dmemN_maxlen n d : dmemN n d = true -> (length n <= maxlen d)%nat.
Proof.
  unfold dmemN, maxlen. induction d as [|p d IH]; cbn [existsb fold_right]; [discriminate|].
  rewrite orb_true_iff. intros [H|H].
  - apply name_eqb_eq in H. subst. apply Nat.le_max_l.
  - specialize (IH H). eapply Nat.le_trans; [exact IH | apply Nat.le_max_r].
Qed.

(* the suffix loop: every iteration lengthens the candidate, so for EVERY oracle it stops within
   1 + maxlen(Names) - len(base) iterations, on a name that is not in Names *)
Lemma autoname_fresh fuel : forall d nm orc, (maxlen d < length nm + fuel)%nat ->
  exists nm', autoname fuel d nm orc = Some nm' /\ dmemN nm' d = false /\ exists suf, nm' = nm ++ suf.
Proof.
  induction fuel as [|f IH]; intros d nm orc Hlt; cbn [autoname].
  - destruct (dmemN nm d) eqn:E.
    + apply dmemN_maxlen in E. lia.
    + exists nm. repeat split; [exact E|]. exists []. rewrite app_nil_r. reflexivity.
  - destruct (dmemN nm d) eqn:E.
    + destruct (IH d (nm ++ [97 + hd 0 orc]) (tl orc)) as (nm' & H1 & H2 & suf & H3).
      { rewrite app_length. cbn. lia. }
      exists nm'. repeat split; [exact H1 | exact H2|]. exists ([97 + hd 0 orc] ++ suf).
      rewrite H3, <- app_assoc. reflexivity.
    + exists nm. repeat split; [exact E|]. exists []. rewrite app_nil_r. reflexivity.
Qed.

(* ------------------------------------------------------------ heap updates *)
Lemma upd_ext di (f g : dictT -> dictT) : forall h, f (nth di h []) = g (nth di h []) -> upd di f h = upd di g h.
Proof.
  induction di as [|di IH]; intros [|x h]; cbn; intros H; try reflexivity; [rewrite H; reflexivity|].
  f_equal. apply IH. exact H.
Qed.
Lemma nth_upd_other i di f : forall h, i <> di -> nth i (upd di f h) [] = nth i h [].
Proof.
  revert i. induction di as [|di IH]; intros [|i] [|x h] Hn; cbn; try reflexivity; try congruence.
  apply IH. congruence.
Qed.
Lemma nth_upd_same di f : forall h, (di < length h)%nat -> nth di (upd di f h) [] = f (nth di h []).
Proof.
  induction di as [|di IH]; intros [|x h] Hl; cbn in *; try lia; [reflexivity|]. apply IH. lia.
Qed.
Lemma upd_length di f : forall h, length (upd di f h) = length h.
Proof. induction di as [|di IH]; intros [|x h]; cbn; auto. Qed.
Lemma upd_oob di f : forall h, (length h <= di)%nat -> upd di f h = h.
Proof. induction di as [|di IH]; intros [|x h] Hl; cbn in *; try reflexivity; try lia. f_equal. apply IH. lia. Qed.
Lemma Forall_upd (P : dictT -> Prop) di f : forall h, Forall P h ->
  (P (nth di h []) -> P (f (nth di h []))) -> Forall P (upd di f h).
Proof.
  induction di as [|di IH]; intros [|x h] HF Hp; cbn; try constructor; inversion HF; subst; cbn in Hp; auto.
Qed.

(* distinct names inside one registry *)
Fixpoint nodupN (d : dictT) : Prop :=
  match d with [] => True | p :: d' => dmemN (fst p) d' = false /\ nodupN d' end.
Lemma dmemN_app n a b : dmemN n (a ++ b) = dmemN n a || dmemN n b.
Proof. apply existsb_app. Qed.
Lemma nodupN_snoc d n i : nodupN d -> dmemN n d = false -> nodupN (d ++ [(n, i)]).
Proof.
  induction d as [|p d IH]; cbn; intros Hn Hm; [auto|]. destruct Hn as [H1 H2].
  apply orb_false_iff in Hm. destruct Hm as [Hm1 Hm2]. split; [|apply IH; assumption].
  rewrite dmemN_app, H1. cbn. rewrite orb_false_r, name_eqb_sym. exact Hm1.
Qed.
Lemma dsetN_fresh n i d : dmemN n d = false -> dsetN n i d = d ++ [(n, i)].
Proof. intros H. unfold dsetN. rewrite H. reflexivity. Qed.

(* ------------------------------------------------------------ Registrar.__init__ *)
Definition cur (s : st) (c : cls) : dictT := nth (eff_nms s c) (heap s) [].

Lemma reg_spec s c nk pre orc :
  snd (reg s c nk pre orc) <> OutOfFuel /\
  ((heap (fst (reg s c nk pre orc)) = heap s /\ snd (reg s c nk pre orc) = ErrParameter) \/
   exists nm, snd (reg s c nk pre orc) = Ok nm /\ dmemN nm (cur s c) = false /\
              heap (fst (reg s c nk pre orc)) = upd (eff_nms s c) (fun d => d ++ [(nm, ninst s)]) (heap s)).
Proof.
  unfold reg, cur.
  set (d := nth (eff_nms s c) (heap s) []).
  set (base := (match pre with [] => clsname c | _ => pre end) ++ digits (eff_cnt s c + 1)).
  assert (A : forall nm, dmemN nm d = false ->
            upd (eff_nms s c) (dsetN nm (ninst s)) (heap s) = upd (eff_nms s c) (fun d => d ++ [(nm, ninst s)]) (heap s)).
  { intros nm H. apply upd_ext. fold d. apply dsetN_fresh. exact H. }
  assert (AUTO : forall orc', exists nm, autoname (S (maxlen d)) d base orc' = Some nm /\ dmemN nm d = false).
  { intros orc'. destruct (autoname_fresh (S (maxlen d)) d base orc') as (nm & H1 & H2 & _); [lia|]. eauto. }
  destruct nk as [|n|].
  - destruct (AUTO orc) as (nm & H1 & H2). rewrite H1. cbn. split; [discriminate|]. right.
    exists nm. repeat split; [exact H2 | apply A; exact H2].
  - destruct n as [|x n].
    + destruct (AUTO orc) as (nm & H1 & H2). rewrite H1. cbn. split; [discriminate|]. right.
      exists nm. repeat split; [exact H2 | apply A; exact H2].
    + destruct (dmemN (x :: n) d) eqn:E; cbn; (split; [discriminate|]).
      * left. split; reflexivity.
      * right. exists (x :: n). repeat split; [exact E | apply A; exact E].
  - cbn. split; [discriminate|]. left. split; reflexivity.
Qed.

(* an explicitly requested duplicate is rejected and leaves every registry unchanged *)
Lemma reg_duplicate_rejected s c x n pre orc : dmemN (x :: n) (cur s c) = true ->
  snd (reg s c (NStr (x :: n)) pre orc) = ErrParameter /\ heap (fst (reg s c (NStr (x :: n)) pre orc)) = heap s.
Proof. unfold cur, reg. intros H. rewrite H. cbn. split; reflexivity. Qed.

(* a registration touches only the namespace that is current for the class *)
Lemma reg_other_untouched s c nk pre orc i : i <> eff_nms s c ->
  nth i (heap (fst (reg s c nk pre orc))) [] = nth i (heap s) [].
Proof.
  intros Hn. destruct (reg_spec s c nk pre orc) as [_ [[H _]|(nm & _ & _ & H)]]; rewrite H; [reflexivity|].
  apply nth_upd_other. exact Hn.
Qed.

Definition hinv (h : list dictT) : Prop := Forall nodupN h.
(* h' extends h: every registry keeps all its entries, in place *)
Definition ext (h h' : list dictT) : Prop := forall i, exists extra, nth i h' [] = nth i h [] ++ extra.
Lemma ext_refl h : ext h h. Proof. intros i. exists []. rewrite app_nil_r. reflexivity. Qed.
Lemma ext_trans a b c : ext a b -> ext b c -> ext a c.
Proof. intros H1 H2 i. destruct (H1 i) as [e1 E1]. destruct (H2 i) as [e2 E2]. exists (e1 ++ e2). rewrite E2, E1, app_assoc. reflexivity. Qed.

Lemma reg_good s c nk pre orc : hinv (heap s) ->
  hinv (heap (fst (reg s c nk pre orc))) /\ ext (heap s) (heap (fst (reg s c nk pre orc))).
Proof.
  intros Hi. destruct (reg_spec s c nk pre orc) as [_ [[H _]|(nm & _ & Hf & H)]]; rewrite H.
  - split; [exact Hi | apply ext_refl].
  - split.
    + apply Forall_upd; [exact Hi|]. intros Hp. apply nodupN_snoc; [exact Hp | exact Hf].
    + intros i. destruct (Nat.eq_dec i (eff_nms s c)) as [->|Hne].
      * destruct (Nat.lt_ge_cases (eff_nms s c) (length (heap s))) as [Hl|Hl].
        -- rewrite nth_upd_same by exact Hl. eexists. reflexivity.
        -- rewrite upd_oob by exact Hl. exists []. rewrite app_nil_r. reflexivity.
      * rewrite nth_upd_other by exact Hne. exists []. rewrite app_nil_r. reflexivity.
Qed.

Lemma alloc_good s : hinv (heap s) -> hinv (heap (fst (alloc s))) /\ ext (heap s) (heap (fst (alloc s))).
Proof.
  intros Hi. cbn. split.
  - apply Forall_app. split; [exact Hi | repeat constructor].
  - intros i. exists []. rewrite app_nil_r. destruct (Nat.lt_ge_cases i (length (heap s))) as [Hl|Hl].
    + rewrite app_nth1 by exact Hl. reflexivity.
    + rewrite (nth_overflow (heap s)) by exact Hl. rewrite app_nth2 by exact Hl.
      destruct (i - length (heap s))%nat as [|[|k]]; reflexivity.
Qed.
Lemma clear_good s c : hinv (heap s) -> hinv (heap (clear s c)) /\ ext (heap s) (heap (clear s c)).
Proof. intros Hi. unfold clear. exact (alloc_good s Hi). Qed.

Definition good (s s' : st) : Prop := hinv (heap s') /\ ext (heap s) (heap s').
Lemma good_trans s1 s2 s3 : good s1 s2 -> (hinv (heap s2) -> good s2 s3) -> good s1 s3.
Proof. intros [A B] H. destruct (H A) as [C D]. split; [exact C | eapply ext_trans; eassumption]. Qed.

Lemma add_framer_good s ho : hinv (heap s) -> good s (fst (add_framer s ho)).
Proof. intros Hi. unfold add_framer. cbn. exact (alloc_good s Hi). Qed.

Lemma clone_frames_good nms_ : forall s, hinv (heap s) -> good s (clone_frames s nms_).
Proof.
  unfold clone_frames. induction nms_ as [|nm l IH]; cbn [fold_left]; intros s Hi.
  - split; [exact Hi | apply ext_refl].
  - eapply good_trans; [exact (reg_good s CFrame (NStr nm) [] [] Hi)|]. intros H1. apply IH. exact H1.
Qed.

Lemma assign_heap s abc : heap (assign s abc) = heap s.
Proof. destruct abc as [[a b] c]. reflexivity. Qed.

Definition is_prune (x : op) : bool := match x with Prune _ => true | _ => false end.

Lemma dmemN_filter n P (d : dictT) : dmemN n (filter P d) = true -> dmemN n d = true.
Proof.
  unfold dmemN. rewrite !existsb_exists. intros (p & Hp & E). apply filter_In in Hp. exists p. tauto.
Qed.
Lemma dremove_nodupN nm i d : nodupN d -> nodupN (dremove nm i d).
Proof.
  unfold dremove. induction d as [|p d IH]; cbn [filter nodupN]; [auto|]. intros [H1 H2].
  destruct (negb _); [|apply IH; exact H2]. cbn [nodupN]. split; [|apply IH; exact H2].
  destruct (dmemN (fst p) (filter _ d)) eqn:E; [|reflexivity]. apply dmemN_filter in E. congruence.
Qed.

Lemma step_good s x : is_prune x = false -> hinv (heap s) -> good s (fst (step s x)).
Proof.
  intros NP Hi. destruct x as [c nk pre orc|h nk pre orc|f n orc|f|nk pre orc|h|f|c|]; cbn [step]; try discriminate NP.
  - pose proof (reg_good s c nk pre orc Hi) as G. destruct (reg s c nk pre orc) as [s1 r]. cbn [fst] in G.
    destruct r; try exact G. destruct c; try exact G.
    eapply good_trans; [exact G|]. intros H1. exact (add_framer_good s1 None H1).
  - pose proof (reg_good s CFramer nk pre orc Hi) as G. destruct (reg s CFramer nk pre orc) as [s1 r]. cbn [fst] in G.
    destruct r; try exact G. eapply good_trans; [exact G|]. intros H1. apply add_framer_good. exact H1.
  - destruct (nth_error (framers s) f) as [fd|]; [|split; [exact Hi | apply ext_refl]].
    destruct (nth_error (fhouse s) f) as [[h|]|]; try (split; [exact Hi | apply ext_refl]).
    destruct (nth_error (houses s) h) as [abc|]; [|split; [exact Hi | apply ext_refl]].
    assert (G1 : good s (assign s abc)) by (unfold good; rewrite assign_heap; split; [exact Hi | apply ext_refl]).
    destruct (_ && _); [exact G1|].
    set (nk := match n with [] => NAuto | _ => NStr n end).
    pose proof (fun H => reg_good (assign s abc) CFramer nk [] orc H) as G2.
    destruct (reg (assign s abc) CFramer nk [] orc) as [s2 r]. cbn [fst] in G2.
    assert (G3 : good s s2) by (eapply good_trans; [exact G1 | exact G2]).
    destruct r; try exact G3.
    pose proof (fun H => add_framer_good s2 (Some h) H) as G4.
    destruct (add_framer s2 (Some h)) as [s3 d]. cbn [fst] in *.
    eapply good_trans; [exact G3|]. intros H2. eapply good_trans; [exact (G4 H2)|]. intros H3.
    exact (clone_frames_good _ (set_attr (note s3 _ _) CFrame {| cnt := Some 0; nms := Some d |}) H3).
  - pose proof (reg_good s CHouse nk pre orc Hi) as G. destruct (reg s CHouse nk pre orc) as [s1 r]. cbn [fst] in G.
    destruct r as [nm| | |]; try exact G. cbn [alloc].
    set (s2 := set_heap s1 (heap s1 ++ [[]])). set (s3 := set_heap s2 (heap s2 ++ [[]])).
    set (s4 := set_heap s3 (heap s3 ++ [[]])).
    assert (G4 : good s s4).
    { eapply good_trans; [exact G|]. intros H1. eapply good_trans; [exact (alloc_good s1 H1)|]. intros H2.
      eapply good_trans; [exact (alloc_good s2 H2)|]. intros H3. exact (alloc_good s3 H3). }
    pose proof (fun H => reg_good s4 CStore (NStr nm) [] [] H) as G5.
    destruct (reg s4 CStore (NStr nm) [] []) as [s5 r2]. cbn [fst] in G5.
    assert (G6 : good s s5) by (eapply good_trans; [exact G4 | exact G5]).
    destruct r2; exact G6.
  - destruct (nth_error (houses s) h) as [abc|]; cbn [fst]; unfold good; rewrite ?assign_heap;
      split; try exact Hi; apply ext_refl.
  - destruct (nth_error (framers s) f); cbn; split; try exact Hi; apply ext_refl.
  - cbn [fst]. exact (clear_good s c Hi).
  - cbn [fst]. eapply good_trans; [exact (clear_good s CStore Hi)|]. intros H1.
    eapply good_trans; [exact (clear_good _ CTasker H1)|]. intros H2. exact (clear_good _ CLog H2).
Qed.

(* every op keeps the names inside each registry pairwise distinct (prune only removes) *)
Lemma step_hinv s x : hinv (heap s) -> hinv (heap (fst (step s x))).
Proof.
  intros Hi. destruct (is_prune x) eqn:E; [|exact (proj1 (step_good s x E Hi))].
  destruct x; try discriminate. cbn [step]. destruct (nth_error (finfo s) f) as [[nm i]|]; [|exact Hi].
  cbn [fst set_heap heap]. apply Forall_upd; [exact Hi|]. apply dremove_nodupN.
Qed.
Lemma run_hinv ops : forall s, hinv (heap s) -> hinv (heap (run s ops)).
Proof. induction ops as [|x ops IH]; cbn [run]; intros s Hi; [exact Hi|]. apply IH, step_hinv, Hi. Qed.

Lemma run_good ops : forall s, forallb (fun x => negb (is_prune x)) ops = true -> hinv (heap s) -> good s (run s ops).
Proof.
  induction ops as [|x ops IH]; cbn [run forallb]; intros s B Hi; [split; [exact Hi | apply ext_refl]|].
  apply andb_true_iff in B. destruct B as [B1 B2]. apply negb_true_iff in B1.
  eapply good_trans; [exact (step_good s x B1 Hi)|]. intros H1. apply IH; assumption.
Qed.

(* Framer.prune removes at most the entry of the pruned instance itself: every other entry of every
   registry -- in particular the same-named live clone of ANOTHER house whose namespace is current -- stays *)
Lemma prune_only_owner s f i p : In p (nth i (heap s) []) ->
  In p (nth i (heap (fst (step s (Prune f)))) []) \/ nth_error (finfo s) f = Some p.
Proof.
  intros Hin. cbn [step]. destruct (nth_error (finfo s) f) as [[nm id]|]; [|left; exact Hin].
  cbn [fst set_heap heap]. destruct (Nat.eq_dec i (eff_nms s CFramer)) as [->|Hne].
  - destruct (Nat.lt_ge_cases (eff_nms s CFramer) (length (heap s))) as [Hl|Hl].
    + rewrite nth_upd_same by exact Hl. unfold dremove.
      destruct (name_eqb nm (fst p) && Nat.eqb id (snd p)) eqn:E.
      * right. apply andb_true_iff in E. destruct E as [E1 E2]. apply name_eqb_eq in E1. apply Nat.eqb_eq in E2.
        destruct p; cbn in *; subst; reflexivity.
      * left. apply filter_In. split; [exact Hin | rewrite E; reflexivity].
    + rewrite upd_oob by exact Hl. left. exact Hin.
  - rewrite nth_upd_other by exact Hne. left. exact Hin.
Qed.

Lemma init_hinv : hinv (heap init).
Proof. repeat constructor. Qed.

(* no step ever reports an exhausted suffix loop *)
Lemma step_no_fuel s x : snd (step s x) <> Some OutOfFuel.
Proof.
  destruct x as [c nk pre orc|h nk pre orc|f n orc|f|nk pre orc|h|f|c|]; cbn [step]; try discriminate.
  - pose proof (reg_spec s c nk pre orc) as [H _]. destruct (reg s c nk pre orc) as [s1 r]. cbn in H.
    destruct r; try (cbn; congruence). destruct c; cbn; discriminate.
  - pose proof (reg_spec s CFramer nk pre orc) as [H _]. destruct (reg s CFramer nk pre orc) as [s1 r]. cbn in H.
    destruct r; cbn; congruence.
  - destruct (nth_error (framers s) f) as [fd|]; [|discriminate].
    destruct (nth_error (fhouse s) f) as [[h|]|]; try discriminate.
    destruct (nth_error (houses s) h) as [abc|]; [|discriminate].
    destruct (_ && _); [discriminate|].
    match goal with |- context [reg ?s1 CFramer ?a ?b ?c] =>
      pose proof (reg_spec s1 CFramer a b c) as [H _]; destruct (reg s1 CFramer a b c) as [s2 r] end.
    cbn in H. destruct r; try (cbn; congruence); try (destruct (add_framer s2 (Some h)); cbn; discriminate).
  - destruct (nth_error (finfo s) f) as [[? ?]|]; discriminate.
  - pose proof (reg_spec s CHouse nk pre orc) as [H _]. destruct (reg s CHouse nk pre orc) as [s1 r]. cbn in H.
    destruct r as [nm| | |]; try (cbn; congruence). cbn [alloc].
    match goal with |- context [reg ?s4 CStore ?a ?b ?c] =>
      pose proof (reg_spec s4 CStore a b c) as [H2 _]; destruct (reg s4 CStore a b c) as [s5 r2] end.
    cbn in H2. destruct r2; cbn; congruence.
  - destruct (nth_error (houses s) h) as [abc|]; discriminate.
  - destruct (nth_error (framers s) f); discriminate.
Qed.

(* after houses[h].assignRegistries() the store / tasker (framer, logger) / log namespaces are house h's *)
Lemma assign_eff s a b c :
  eff_nms (assign s (a, b, c)) CStore = a /\ eff_nms (assign s (a, b, c)) CTasker = b /\
  eff_nms (assign s (a, b, c)) CLog = c /\
  (nms (attrs s CFramer) = None -> eff_nms (assign s (a, b, c)) CFramer = b) /\
  (nms (attrs s CLogger) = None -> eff_nms (assign s (a, b, c)) CLogger = b).
Proof. repeat split; intros E; unfold eff_nms; cbn; rewrite E; reflexivity. Qed.

Lemma assign_points_to_house s h a b c : nth_error (houses s) h = Some (a, b, c) ->
  let s' := fst (step s (Assign h)) in
  eff_nms s' CStore = a /\ eff_nms s' CTasker = b /\ eff_nms s' CLog = c /\
  (nms (attrs s CFramer) = None -> eff_nms s' CFramer = b) /\ (nms (attrs s CLogger) = None -> eff_nms s' CLogger = b).
Proof. intros H. cbn [step]. rewrite H. cbn [fst]. apply assign_eff. Qed.

Lemma reg_ext s c nk pre orc : ext (heap s) (heap (fst (reg s c nk pre orc))).
Proof.
  destruct (reg_spec s c nk pre orc) as [_ [[H _]|(nm & _ & Hf & H)]]; rewrite H; [apply ext_refl|].
  intros i. destruct (Nat.eq_dec i (eff_nms s c)) as [->|Hne].
  - destruct (Nat.lt_ge_cases (eff_nms s c) (length (heap s))) as [Hl|Hl].
    + rewrite nth_upd_same by exact Hl. eexists. reflexivity.
    + rewrite upd_oob by exact Hl. exists []. rewrite app_nil_r. reflexivity.
  - rewrite nth_upd_other by exact Hne. exists []. rewrite app_nil_r. reflexivity.
Qed.
Lemma clone_frames_ext nms_ : forall s, ext (heap s) (heap (clone_frames s nms_)).
Proof.
  unfold clone_frames. induction nms_ as [|nm l IH]; cbn [fold_left]; intros s; [apply ext_refl|].
  eapply ext_trans; [apply reg_ext | apply IH].
Qed.

(* Framer.clone of a framer of house h = (a, b, c), WHATEVER namespace is current when it is called:
   the name is checked against house h's own tasker registry b (rejected iff already there, all
   registries unchanged), and otherwise the clone gets exactly the requested name, registered in b --
   it is never rejected because of, nor registered into, another house's namespace *)
Lemma clone_own_house s f n0 n orc fd h a b c :
  nth_error (framers s) f = Some fd -> nth_error (fhouse s) f = Some (Some h) ->
  nth_error (houses s) h = Some (a, b, c) -> nms (attrs s CFramer) = None -> (b < length (heap s))%nat ->
  (dmemN (n0 :: n) (nth b (heap s) []) = true ->
     snd (step s (Clone f (n0 :: n) orc)) = Some ErrClone /\ heap (fst (step s (Clone f (n0 :: n) orc))) = heap s) /\
  (dmemN (n0 :: n) (nth b (heap s) []) = false ->
     snd (step s (Clone f (n0 :: n) orc)) = Some (Ok (n0 :: n)) /\
     exists extra, nth b (heap (fst (step s (Clone f (n0 :: n) orc)))) [] = (nth b (heap s) [] ++ [(n0 :: n, ninst s)]) ++ extra).
Proof.
  intros Hf Hh Hs Hn Hb. cbn [step]. rewrite Hf, Hh, Hs.
  destruct (assign_eff s a b c) as (_ & _ & _ & E & _). specialize (E Hn).
  rewrite E, assign_heap. cbn [andb]. split; intros Hm; rewrite Hm.
  - split; [reflexivity | apply assign_heap].
  - destruct (reg (assign s (a, b, c)) CFramer (NStr (n0 :: n)) [] orc) as [s2 r] eqn:R.
    assert (R2 : r = Ok (n0 :: n) /\ heap s2 = upd b (dsetN (n0 :: n) (ninst s)) (heap s)).
    { unfold reg in R. rewrite E, assign_heap, Hm in R. inversion R. split; reflexivity. }
    destruct R2 as [-> H2]. destruct (add_framer s2 (Some h)) as [s3 d] eqn:A.
    split; [reflexivity|].
    assert (H3 : heap s3 = heap s2 ++ [[]]) by (unfold add_framer in A; cbn in A; inversion A; reflexivity).
    set (s4 := set_attr (note s3 _ _) CFrame {| cnt := Some 0; nms := Some d |}).
    destruct (clone_frames_ext (map fst (nth fd (heap s4) [])) s4 b) as [extra X]. cbn [fst].
    exists extra. rewrite X. f_equal. change (heap s4) with (heap s3). rewrite H3, H2.
    rewrite app_nth1 by (rewrite upd_length; exact Hb).
    rewrite nth_upd_same by exact Hb. apply dsetN_fresh. exact Hm.
Qed.
