(* C47 -- well-formedness over histories: registry ids of houses and framers are allocated, pairwise
   distinct and distinct from the import-time registries; Framer keeps no Names attribute of its own
   unless Framer.Clear() is called *)
From Coq Require Import List ZArith Bool Lia Arith Permutation.
Import ListNotations.
Require Import V.C47.Model V.C47.Proofs.
Open Scope Z_scope.

Definition flat (hs : list (nat * nat * nat)) : list nat := flat_map (fun t => [fst (fst t); snd (fst t); snd t]) hs.
Definition W (hs : list (nat * nat * nat)) (fs : list nat) (n : nat) : Prop :=
  (5 <= n)%nat /\ NoDup (flat hs ++ fs) /\ forall i, In i (flat hs ++ fs) -> (5 <= i < n)%nat.
Definition wf (s : st) : Prop := W (houses s) (framers s) (length (heap s)).

Lemma W_mono hs fs n n' : W hs fs n -> (n <= n')%nat -> W hs fs n'.
Proof.
  unfold W. intros (A & B & C) H. refine (conj _ (conj B _)); [lia|].
  intros i Hi. specialize (C i Hi). lia.
Qed.
Lemma NoDup_snoc_nat (l : list nat) k : NoDup l -> ~ In k l -> NoDup (l ++ [k]).
Proof.
  intros Hn Hk. induction Hn as [|y l Hy Hn IH]; cbn; [constructor; [tauto|constructor]|].
  constructor.
  - rewrite in_app_iff. cbn. intros [H|[H|[]]]; [tauto|]. subst. apply Hk. left. reflexivity.
  - apply IH. intro H. apply Hk. right. exact H.
Qed.
Lemma W_framer hs fs n : W hs fs n -> W hs (fs ++ [n]) (S n).
Proof.
  intros (A & B & C). split; [lia|]. rewrite app_assoc. split.
  - apply NoDup_snoc_nat; [exact B|]. intros H. specialize (C n H). lia.
  - intros i Hi. apply in_app_or in Hi. destruct Hi as [Hi|[<-|[]]]; [specialize (C i Hi)|]; lia.
Qed.
Lemma W_house hs fs n : W hs fs n -> W (hs ++ [(n, S n, S (S n))]) fs (S (S (S n))).
Proof.
  intros (A & B & C). split; [lia|]. unfold flat. rewrite flat_map_app. cbn [flat_map fst snd app]. fold (flat hs).
  assert (P : Permutation ((flat hs ++ [n; S n; S (S n)]) ++ fs) ([n; S n; S (S n)] ++ (flat hs ++ fs))).
  { rewrite <- app_assoc. apply Permutation_app_swap_app. }
  split.
  - apply (Permutation_NoDup (Permutation_sym P)). cbn [app].
    assert (X : forall j, (n <= j)%nat -> ~ In j (flat hs ++ fs)) by (intros j Hj Hin; specialize (C j Hin); lia).
    repeat constructor; cbn [In]; try (intros [E|[E|E]]; try lia; revert E); try (intros [E|E]; try lia; revert E);
      try (apply X; lia); try exact B.
  - intros i Hi. apply (Permutation_in _ P) in Hi. cbn [app In] in Hi.
    destruct Hi as [<-|[<-|[<-|Hi]]]; try lia. specialize (C i Hi). lia.
Qed.

Lemma cls_eqb_eq a b : cls_eqb a b = true -> a = b.
Proof. destruct a, b; cbn; congruence. Qed.

Definition same (s s' : st) : Prop :=
  houses s' = houses s /\ framers s' = framers s /\ length (heap s') = length (heap s) /\
  nms (attrs s' CFramer) = nms (attrs s CFramer).

Lemma reg_same s c nk pre orc : same s (fst (reg s c nk pre orc)).
Proof.
  assert (A : forall c', nms (attrs (set_attr s c {| cnt := Some (eff_cnt s c + 1); nms := nms (attrs s c) |}) c') = nms (attrs s c')).
  { intros c'. cbn. destruct (cls_eqb c c') eqn:E; [apply cls_eqb_eq in E; subst|]; reflexivity. }
  unfold reg. destruct nk as [|[|x n]|]; try destruct (autoname _ _ _ _); try destruct (dmemN _ _);
    cbn [fst]; repeat split; cbn [houses framers heap attrs]; rewrite ?upd_length; try reflexivity; apply A.
Qed.
Lemma same_trans a b c : same a b -> same b c -> same a c.
Proof.
  intros (A1 & A2 & A3 & A4) (B1 & B2 & B3 & B4). repeat split; congruence.
Qed.
Lemma clone_frames_same l : forall s, same s (clone_frames s l).
Proof.
  unfold clone_frames. induction l as [|nm l IH]; cbn [fold_left]; intros s; [repeat split; reflexivity|].
  eapply same_trans; [apply reg_same | apply IH].
Qed.

Lemma add_framer_shape s ho :
  houses (fst (add_framer s ho)) = houses s /\ framers (fst (add_framer s ho)) = framers s ++ [length (heap s)] /\
  length (heap (fst (add_framer s ho))) = S (length (heap s)) /\
  nms (attrs (fst (add_framer s ho)) CFramer) = nms (attrs s CFramer).
Proof. unfold add_framer, alloc. cbn. rewrite app_length. cbn. repeat split; lia. Qed.

(* no op but Framer.Clear() gives Framer a Names attribute of its own *)
Definition not_clear_framer (x : op) : bool := match x with Clear CFramer => false | _ => true end.

Lemma step_wf s x : wf s ->
  wf (fst (step s x)) /\
  (not_clear_framer x = true -> nms (attrs s CFramer) = None -> nms (attrs (fst (step s x)) CFramer) = None).
Proof.
  unfold wf. intros Hw.
  destruct x as [c nk pre orc|h nk pre orc|f n orc|f|nk pre orc|h|f|c|]; cbn [step not_clear_framer].
  - destruct (reg_same s c nk pre orc) as (E1 & E2 & E3 & E4). destruct (reg s c nk pre orc) as [s1 r]. cbn [fst] in *.
    assert (B : W (houses s1) (framers s1) (length (heap s1))) by (rewrite E1, E2, E3; exact Hw).
    destruct r; cbn [fst]; try (split; [exact B | intros _ H; rewrite E4; exact H]).
    destruct c; cbn [fst]; try (split; [exact B | intros _ H; rewrite E4; exact H]).
    destruct (add_framer_shape s1 None) as (A1 & A2 & A3 & A4). cbn [fst note houses framers heap attrs]. rewrite A1, A2, A3, A4.
    split; [apply W_framer; exact B | intros _ H; rewrite E4; exact H].
  - destruct (reg_same s CFramer nk pre orc) as (E1 & E2 & E3 & E4). destruct (reg s CFramer nk pre orc) as [s1 r]. cbn [fst] in *.
    assert (B : W (houses s1) (framers s1) (length (heap s1))) by (rewrite E1, E2, E3; exact Hw).
    destruct r; cbn [fst]; try (split; [exact B | intros _ H; rewrite E4; exact H]).
    destruct (add_framer_shape s1 (if (h <? length (houses s))%nat then Some h else None)) as (A1 & A2 & A3 & A4). cbn [fst note houses framers heap attrs]. rewrite A1, A2, A3, A4.
    split; [apply W_framer; exact B | intros _ H; rewrite E4; exact H].
  - destruct (nth_error (framers s) f) as [fd|]; [|split; [exact Hw | auto]].
    destruct (nth_error (fhouse s) f) as [[h|]|]; try (split; [exact Hw | auto]).
    destruct (nth_error (houses s) h) as [[[a b] c]|]; [|split; [exact Hw | auto]].
    set (s1 := assign s (a, b, c)).
    assert (S1 : same s s1) by (repeat split; reflexivity).
    destruct (_ && _).
    { cbn [fst]. split; [exact Hw | intros _ H; exact H]. }
    set (nk := match n with [] => NAuto | _ => NStr n end).
    destruct (reg_same s1 CFramer nk [] orc) as (E1 & E2 & E3 & E4).
    destruct (reg s1 CFramer nk [] orc) as [s2 r]. cbn [fst] in *.
    assert (B : W (houses s2) (framers s2) (length (heap s2))) by (rewrite E1, E2, E3; exact Hw).
    assert (N : nms (attrs s CFramer) = None -> nms (attrs s2 CFramer) = None) by (intros H; rewrite E4; exact H).
    destruct r; cbn [fst]; try (split; [exact B | intros _; exact N]).
    destruct (add_framer_shape s2 (Some h)) as (A1 & A2 & A3 & A4).
    destruct (add_framer s2 (Some h)) as [s3 d]. cbn [fst] in *.
    match goal with |- context [clone_frames ?s4 ?l] => destruct (clone_frames_same l s4) as (F1 & F2 & F3 & F4) end.
    rewrite F1, F2, F3, F4. cbn [set_attr note houses framers heap attrs cls_eqb]. rewrite A1, A2, A3, A4.
    split; [apply W_framer; exact B | intros _ H; apply N, H].
  - destruct (nth_error (finfo s) f) as [[nm i]|]; cbn [fst]; [|split; [exact Hw | auto]].
    cbn [set_heap houses framers heap attrs]. rewrite upd_length. split; [exact Hw | intros _ H; exact H].
  - destruct (reg_same s CHouse nk pre orc) as (E1 & E2 & E3 & E4). destruct (reg s CHouse nk pre orc) as [s1 r]. cbn [fst] in *.
    assert (B : W (houses s1) (framers s1) (length (heap s1))) by (rewrite E1, E2, E3; exact Hw).
    destruct r as [nm| | |]; cbn [fst]; try (split; [exact B | intros _ H; rewrite E4; exact H]).
    cbn [alloc].
    set (s4 := set_heap (set_heap (set_heap s1 _) _) _).
    destruct (reg_same s4 CStore (NStr nm) [] []) as (G1 & G2 & G3 & G4).
    destruct (reg s4 CStore (NStr nm) [] []) as [s5 r2]. cbn [fst] in *.
    assert (L4 : length (heap s4) = S (S (S (length (heap s1))))).
    { unfold s4. cbn [set_heap heap]. rewrite !app_length. cbn [length]. lia. }
    assert (N : nms (attrs s CFramer) = None -> nms (attrs s5 CFramer) = None).
    { intros H. rewrite G4. unfold s4. cbn [set_heap attrs]. rewrite E4. exact H. }
    assert (B5 : W (houses s5) (framers s5) (length (heap s5))).
    { rewrite G1, G2, G3, L4. unfold s4. cbn [set_heap houses framers]. eapply W_mono; [exact B | lia]. }
    destruct r2; cbn [fst]; try (split; [exact B5 | intros _; exact N]).
    cbn [fst houses framers heap attrs]. split; [|intros _; exact N].
    rewrite G1, G2, G3, L4. unfold s4. cbn [set_heap houses framers heap]. rewrite !app_length. cbn [length].
    replace (length (heap s1) + 1)%nat with (S (length (heap s1))) by lia.
    replace (S (length (heap s1)) + 1)%nat with (S (S (length (heap s1)))) by lia.
    apply W_house. exact B.
  - destruct (nth_error (houses s) h) as [[[a b] c]|]; cbn [fst]; (split; [exact Hw | intros _ H; exact H]).
  - destruct (nth_error (framers s) f); cbn [fst]; (split; [exact Hw | intros _ H; exact H]).
  - cbn [fst]. unfold clear. cbn [alloc set_heap set_attr houses framers heap attrs]. split.
    + rewrite app_length. eapply W_mono; [exact Hw | lia].
    + destruct c; try discriminate; intros _ H; exact H.
  - cbn [fst]. unfold clear. cbn [alloc set_heap set_attr houses framers heap attrs]. split.
    + rewrite !app_length. eapply W_mono; [exact Hw | lia].
    + intros _ H; exact H.
Qed.

Lemma run_wf ops : forall s, wf s ->
  wf (run s ops) /\
  (forallb not_clear_framer ops = true -> nms (attrs s CFramer) = None -> nms (attrs (run s ops) CFramer) = None).
Proof.
  induction ops as [|x ops IH]; cbn [run forallb]; intros s H; [split; [exact H | auto]|].
  destruct (step_wf s x H) as [H1 N1]. destruct (IH _ H1) as [H2 N2]. split; [exact H2|].
  intros B Hn. apply andb_true_iff in B. destruct B as [B1 B2]. apply N2; [exact B2 | apply N1; assumption].
Qed.

Lemma init_wf : wf init.
Proof. unfold wf, W. cbn. split; [lia|]. split; [constructor|]. intros i []. Qed.

Lemma nd_app {A} (a b : list A) : NoDup (a ++ b) -> NoDup a /\ NoDup b /\ forall x, In x a -> ~ In x b.
Proof.
  induction a as [|y a IH]; cbn; intros H; [repeat split; [constructor | exact H | tauto]|].
  inversion H as [|? ? H2 H3]; subst. destruct (IH H3) as (A1 & A2 & A3). rewrite in_app_iff in H2.
  repeat split; [constructor; [tauto | exact A1] | exact A2|]. intros x [<-|Hx]; [tauto | apply A3, Hx].
Qed.

(* consequences used by clone_house_switch_no_collision *)
Lemma wf_house_ids s h a b c : wf s -> nth_error (houses s) h = Some (a, b, c) ->
  (a < length (heap s))%nat /\ (b < length (heap s))%nat /\ (c < length (heap s))%nat /\
  a <> b /\ b <> c /\ a <> c /\ (5 <= a)%nat /\ (5 <= b)%nat /\ (5 <= c)%nat.
Proof.
  intros (_ & Hn & Hb) Hh. apply nth_error_split in Hh. destruct Hh as (l1 & l2 & E & _). rewrite E in *.
  unfold flat in *. rewrite flat_map_app in *. cbn [flat_map fst snd app] in *.
  assert (Ia : forall x, In x [a; b; c] -> (5 <= x < length (heap s))%nat).
  { intros x Hx. apply Hb. rewrite <- app_assoc. apply in_or_app. right. apply in_or_app. left.
    cbn in Hx. cbn. tauto. }
  pose proof (Ia a (or_introl eq_refl)). pose proof (Ia b (or_intror (or_introl eq_refl))).
  pose proof (Ia c (or_intror (or_intror (or_introl eq_refl)))).
  rewrite <- app_assoc in Hn. apply nd_app in Hn. destruct Hn as (_ & Hn & _). apply nd_app in Hn. destruct Hn as (Hn & _ & _). inversion Hn as [|? ? N1 Hn1]; subst.
  inversion Hn1 as [|? ? N2 Hn2]; subst. cbn [In] in N1, N2.
  repeat split; try lia; intros ->; tauto.
Qed.

(* registries of two different houses (and of any house and any framer) are different dict objects *)
Lemma wf_houses_disjoint s h1 h2 t1 t2 : wf s -> h1 <> h2 ->
  nth_error (houses s) h1 = Some t1 -> nth_error (houses s) h2 = Some t2 ->
  forall x, In x [fst (fst t1); snd (fst t1); snd t1] -> ~ In x [fst (fst t2); snd (fst t2); snd t2].
Proof.
  intros (_ & Hn & _) Hne H1 H2 x X1 X2. apply nd_app in Hn. destruct Hn as (Hn & _ & _).
  revert h1 h2 Hne H1 H2. generalize dependent (houses s). intros hs. induction hs as [|t hs IH]; intros Hn h1 h2 Hne H1 H2.
  - destruct h1; discriminate.
  - unfold flat in Hn. cbn [flat_map] in Hn. fold (flat hs) in Hn.
    assert (Hin : forall h t', nth_error hs h = Some t' -> forall y, In y [fst (fst t'); snd (fst t'); snd t'] -> In y (flat hs)).
    { intros h t' Hh y Hy. unfold flat. apply in_flat_map. exists t'. split; [eapply nth_error_In; exact Hh | exact Hy]. }
    destruct h1 as [|h1], h2 as [|h2]; cbn [nth_error] in H1, H2; try congruence.
    + inversion H1; subst t1. destruct (nd_app _ _ Hn) as (_ & _ & D). eapply (D x); [exact X1 | eapply Hin; eauto].
    + inversion H2; subst t2. destruct (nd_app _ _ Hn) as (_ & _ & D). eapply (D x); [exact X2 | eapply Hin; eauto].
    + destruct (nd_app _ _ Hn) as (_ & D2 & _). apply (IH D2 h1 h2); congruence.
Qed.
