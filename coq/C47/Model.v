(* C47 -- Registrar.__init__ / Clear (ioflo/base/registering.py), House.__init__ +
   House.assignRegistries (housing.py), Framer.assignFrameRegistry (framing.py).
   Hand model (tie H).  Definitions only.

   names       : list Z (code points)
   Names dicts : live in a heap (list) and are referred to by index, because
                 assignRegistries / assignFrameRegistry SHARE them by reference while the
                 counters are copied by value (and the house's / framer's counter is never
                 written back: it stays 0)
   class attrs : Counter / Names are looked up through the class hierarchy
                 (Framer, Logger -> Tasker) but `self.__class__.Counter += 1` and Clear()
                 WRITE the attribute on the class itself
   random      : oracle = list of randint(0,25) results (exhausted -> 0)                 *)
From Coq Require Import List ZArith Bool.
Import ListNotations.
Open Scope Z_scope.

Definition name := list Z.
Fixpoint name_eqb (a b : name) : bool :=
  match a, b with [], [] => true | x :: a', y :: b' => (x =? y) && name_eqb a' b' | _, _ => false end.

Definition dictT := list (name * nat).          (* name -> instance id, insertion order *)
Definition dmemN (n : name) (d : dictT) : bool := existsb (fun p => name_eqb n (fst p)) d.
(* Names[name] = self *)
Definition dsetN (n : name) (i : nat) (d : dictT) : dictT :=
  if dmemN n d then map (fun p => if name_eqb n (fst p) then (n, i) else p) d else d ++ [(n, i)].

Inductive cls := CHouse | CStore | CTasker | CFramer | CLogger | CLog | CFrame.
Definition cls_eqb (a b : cls) : bool :=
  match a, b with
  | CHouse, CHouse | CStore, CStore | CTasker, CTasker | CFramer, CFramer
  | CLogger, CLogger | CLog, CLog | CFrame, CFrame => true
  | _, _ => false
  end.
Definition parent (c : cls) : option cls :=
  match c with CFramer | CLogger => Some CTasker | _ => None end.
(* "House" "Store" "Tasker" "Framer" "Logger" "Log" "Frame" *)
Definition clsname (c : cls) : name :=
  match c with
  | CHouse => [72;111;117;115;101] | CStore => [83;116;111;114;101]
  | CTasker => [84;97;115;107;101;114] | CFramer => [70;114;97;109;101;114]
  | CLogger => [76;111;103;103;101;114] | CLog => [76;111;103] | CFrame => [70;114;97;109;101]
  end.

Record cattr := { cnt : option Z; nms : option nat }.     (* attributes defined ON the class *)
Record st := { heap : list dictT; attrs : cls -> cattr;
               houses : list (nat * nat * nat);            (* names['store'|'tasker'|'log'] *)
               framers : list nat;                          (* .frameNames *)
               fhouse : list (option nat);                  (* framer.store.house (index), parallel to framers *)
               finfo : list (name * nat);                   (* (framer.name, instance id), parallel to framers *)
               ninst : nat }.

Definition init_attrs (c : cls) : cattr :=
  match c with
  | CHouse => {| cnt := Some 0; nms := Some 0%nat |} | CStore => {| cnt := Some 0; nms := Some 1%nat |}
  | CTasker => {| cnt := Some 0; nms := Some 2%nat |} | CLog => {| cnt := Some 0; nms := Some 3%nat |}
  | CFrame => {| cnt := Some 0; nms := Some 4%nat |}
  | CFramer | CLogger => {| cnt := None; nms := None |}
  end.
Definition init : st :=
  {| heap := [[]; []; []; []; []]; attrs := init_attrs; houses := []; framers := []; fhouse := []; finfo := []; ninst := 0 |}.

Definition eff_cnt (s : st) (c : cls) : Z :=
  match cnt (attrs s c) with
  | Some n => n
  | None => match parent c with
            | Some p => match cnt (attrs s p) with Some n => n | None => 0 end
            | None => 0
            end
  end.
Definition eff_nms (s : st) (c : cls) : nat :=
  match nms (attrs s c) with
  | Some d => d
  | None => match parent c with
            | Some p => match nms (attrs s p) with Some d => d | None => 0%nat end
            | None => 0%nat
            end
  end.
Definition set_attr (s : st) (c : cls) (a : cattr) : st :=
  {| heap := heap s; attrs := fun c' => if cls_eqb c c' then a else attrs s c';
     houses := houses s; framers := framers s; fhouse := fhouse s; finfo := finfo s; ninst := ninst s |}.
Definition set_heap (s : st) (h : list dictT) : st :=
  {| heap := h; attrs := attrs s; houses := houses s; framers := framers s; fhouse := fhouse s; finfo := finfo s; ninst := ninst s |}.

Fixpoint upd (d : nat) (f : dictT -> dictT) (h : list dictT) : list dictT :=
  match h, d with
  | [], _ => []
  | x :: h', O => f x :: h'
  | x :: h', S d' => x :: upd d' f h'
  end.

(* str(n) for n >= 0 *)
Fixpoint digits_aux (fuel : nat) (n : Z) (acc : list Z) : list Z :=
  match fuel with
  | O => acc
  | S f => let acc' := (48 + n mod 10) :: acc in if n / 10 =? 0 then acc' else digits_aux f (n / 10) acc'
  end.
Definition digits (n : Z) : list Z := digits_aux 30 n [].

(* while name in Names: name += chr(ord('a') + random.randint(0, 25)) *)
Fixpoint autoname (fuel : nat) (d : dictT) (nm : name) (orc : list Z) : option name :=
  if dmemN nm d then
    match fuel with
    | O => None
    | S f => autoname f d (nm ++ [97 + hd 0 orc]) (tl orc)
    end
  else Some nm.
Definition maxlen (d : dictT) : nat := fold_right (fun p m => Nat.max (length (fst p)) m) 0%nat d.

Inductive namekind := NAuto | NStr (n : name) | NBad.       (* '' | explicit str | not a str *)
Inductive result := Ok (n : name) | ErrParameter | OutOfFuel | ErrClone.

(* Registrar.__init__(name, preface) for an instance of class c *)
Definition reg (s : st) (c : cls) (nk : namekind) (pre : name) (orc : list Z) : st * result :=
  let k := eff_cnt s c + 1 in
  let s1 := set_attr s c {| cnt := Some k; nms := nms (attrs s c) |} in
  let di := eff_nms s c in
  let d := nth di (heap s) [] in
  let register nm :=
    ({| heap := upd di (dsetN nm (ninst s)) (heap s1); attrs := attrs s1; houses := houses s1;
        framers := framers s1; fhouse := fhouse s1; finfo := finfo s1; ninst := S (ninst s) |}, Ok nm) in
  let auto := match autoname (S (maxlen d)) d ((match pre with [] => clsname c | _ => pre end) ++ digits k) orc with
              | Some nm => register nm
              | None => (s1, OutOfFuel)
              end in
  match nk with
  | NBad => (s1, ErrParameter)
  | NAuto => auto
  | NStr [] => auto
  | NStr n => if dmemN n d then (s1, ErrParameter) else register n
  end.

Inductive op :=
| Create (c : cls) (nk : namekind) (pre : name) (orc : list Z)   (* c <> CHouse *)
| CreateFramerIn (h : nat) (nk : namekind) (pre : name) (orc : list Z)   (* Framer(store=houses[h].store, ...) *)
| Clone (f : nat) (n : name) (orc : list Z)   (* framers[f].clone(name=n) ; n = "" -> automatic name *)
| Prune (f : nat)                              (* framers[f].prune() : the framer frees its own name *)
| CreateHouse (nk : namekind) (pre : name) (orc : list Z)
| Assign (h : nat)            (* houses[h].assignRegistries() *)
| AssignFrame (f : nat)       (* framers[f].assignFrameRegistry() *)
| Clear (c : cls)             (* c.Clear() *)
| ClearRegistries.            (* housing.ClearRegistries() *)

Definition alloc (s : st) : st * nat := (set_heap s (heap s ++ [[]]), length (heap s)).
Definition clear (s : st) (c : cls) : st :=
  let '(s1, d) := alloc s in set_attr s1 c {| cnt := Some 0; nms := Some d |}.

(* houses[h].assignRegistries(): Names shared by reference, Counter copied (always 0) *)
Definition assign (s : st) (abc : nat * nat * nat) : st :=
  let '(a, b, c) := abc in
  set_attr (set_attr (set_attr s CStore {| cnt := Some 0; nms := Some a |})
                     CTasker {| cnt := Some 0; nms := Some b |})
           CLog {| cnt := Some 0; nms := Some c |}.

(* a new Framer: its own frame registry; ho = the house of the store it was given *)
Definition add_framer (s : st) (ho : option nat) : st * nat :=
  let '(s2, d) := alloc s in
  ({| heap := heap s2; attrs := attrs s2; houses := houses s2; framers := framers s2 ++ [d];
      fhouse := fhouse s2 ++ [ho]; finfo := finfo s2; ninst := ninst s2 |}, d).
(* remember the new framer's name and identity (used by prune) *)
Definition note (s : st) (nm : name) (i : nat) : st :=
  {| heap := heap s; attrs := attrs s; houses := houses s; framers := framers s; fhouse := fhouse s;
     finfo := finfo s ++ [(nm, i)]; ninst := ninst s |}.
(* Framer.prune: `if self.name in Framer.Names and Framer.Names[self.name] == self: del Framer.Names[self.name]`
   -- the entry goes only if it is THIS instance; Framer.Names is whatever namespace is current *)
Definition dremove (nm : name) (i : nat) (d : dictT) : dictT :=
  filter (fun p => negb (name_eqb nm (fst p) && Nat.eqb i (snd p))) d.

(* for frame in self.frameNames.values(): frame.clone(framer=clone)  ->  Frame(name=frame.name, ...) *)
Definition clone_frames (s : st) (nms_ : list name) : st :=
  fold_left (fun s nm => fst (reg s CFrame (NStr nm) [] [])) nms_ s.

Definition step (s : st) (x : op) : st * option result :=
  match x with
  | Create c nk pre orc =>
      let '(s1, r) := reg s c nk pre orc in
      match r, c with
      | Ok nm, CFramer => (note (fst (add_framer s1 None)) nm (ninst s), Some r)
      | _, _ => (s1, Some r)
      end
  | CreateFramerIn h nk pre orc =>
      let '(s1, r) := reg s CFramer nk pre orc in
      match r with
      | Ok nm => (note (fst (add_framer s1 (if Nat.ltb h (length (houses s)) then Some h else None))) nm (ninst s), Some r)
      | _ => (s1, Some r)
      end
  | Clone f n orc =>
      (* Framer.clone: FIRST self.store.house.assignRegistries(), then the duplicate check against
         Framer.Names (now the own house's registry), then Framer(name=n, store=self.store),
         clone.assignFrameRegistry(), and a Frame of the same name for every frame of the original *)
      match nth_error (framers s) f, nth_error (fhouse s) f with
      | Some fd, Some (Some h) =>
          match nth_error (houses s) h with
          | Some abc =>
              let s1 := assign s abc in
              if (match n with [] => false | _ => true end) && dmemN n (nth (eff_nms s1 CFramer) (heap s1) [])
              then (s1, Some ErrClone)
              else let '(s2, r) := reg s1 CFramer (match n with [] => NAuto | _ => NStr n end) [] orc in
                   match r with
                   | Ok nm => let '(s3, d) := add_framer s2 (Some h) in
                             let s4 := set_attr (note s3 nm (ninst s)) CFrame {| cnt := Some 0; nms := Some d |} in
                             (clone_frames s4 (map fst (nth fd (heap s4) [])), Some r)
                   | _ => (s2, Some r)
                   end
          | None => (s, None)
          end
      | _, _ => (s, None)
      end
  | Prune f =>
      match nth_error (finfo s) f with
      | Some (nm, i) => (set_heap s (upd (eff_nms s CFramer) (dremove nm i) (heap s)), None)
      | None => (s, None)
      end
  | CreateHouse nk pre orc =>
      let '(s1, r) := reg s CHouse nk pre orc in
      match r with
      | Ok nm =>
          let '(s2, a) := alloc s1 in let '(s3, b) := alloc s2 in let '(s4, c) := alloc s3 in
          (* no store given: self.store = storing.Store(name=self.name) *)
          let '(s5, r2) := reg s4 CStore (NStr nm) [] [] in
          match r2 with
          | Ok _ => ({| heap := heap s5; attrs := attrs s5; houses := houses s5 ++ [(a, b, c)];
                        framers := framers s5; fhouse := fhouse s5; finfo := finfo s5; ninst := ninst s5 |}, Some r)
          | _ => (s5, Some r2)
          end
      | _ => (s1, Some r)
      end
  | Assign h =>
      match nth_error (houses s) h with
      | Some abc => (assign s abc, None)
      | None => (s, None)
      end
  | AssignFrame f =>
      match nth_error (framers s) f with
      | Some d => (set_attr s CFrame {| cnt := Some 0; nms := Some d |}, None)
      | None => (s, None)
      end
  | Clear c => (clear s c, None)
  | ClearRegistries => (clear (clear (clear s CStore) CTasker) CLog, None)
  end.

Fixpoint run (s : st) (ops : list op) : st :=
  match ops with [] => s | x :: ops' => run (fst (step s x)) ops' end.

(* observation for the correspondence: result, (Names id, Counter) of every class, all dicts *)
Definition all_cls := [CHouse; CStore; CTasker; CFramer; CLogger; CLog; CFrame].
Definition enc_name (n : name) : list Z := Z.of_nat (length n) :: n.
Definition enc_result (r : option result) : list Z :=
  match r with None => [0] | Some (Ok n) => 1 :: enc_name n | Some ErrParameter => [2] | Some OutOfFuel => [3]
  | Some ErrClone => [4] end.
Definition obs (s : st) : list Z :=
  flat_map (fun c => [Z.of_nat (eff_nms s c); eff_cnt s c]) all_cls ++
  Z.of_nat (length (heap s)) :: flat_map (fun d => Z.of_nat (length d) :: flat_map (fun p => enc_name (fst p)) d) (heap s).
Fixpoint trace (s : st) (ops : list op) : list Z :=
  match ops with
  | [] => []
  | x :: ops' => let '(s', r) := step s x in enc_result r ++ obs s' ++ trace s' ops'
  end.
Fixpoint zleqb (a b : list Z) : bool :=
  match a, b with [], [] => true | x :: a', y :: b' => (x =? y) && zleqb a' b' | _, _ => false end.
