(* C47 -- property theorems only.  Each closed by [exact]; Print Assumptions beneath. *)
From Coq Require Import List ZArith Bool.
Import ListNotations.
Require Import V.C47.Model V.C47.Proofs V.C47.Proofs2.
Open Scope Z_scope.

(* Over EVERY history of explicit / automatic creations (any class, any preface, any random-letter
   oracle), Framer creations in a given house, Framer.clone (with its frames), Framer.prune, House
   creations, Clear, ClearRegistries, assignRegistries and assignFrameRegistry switches: every registry
   dict ever allocated holds pairwise distinct names; and over every continuation WITHOUT prune every
   entry registered so far (name -> instance) is still there, in place: nothing is overwritten. *)
Theorem names_unique_all_histories : forall ops,
  Forall nodupN (heap (run init ops)) /\
  forall ops2 i, forallb (fun x => negb (is_prune x)) ops2 = true ->
    exists extra, nth i (heap (run (run init ops) ops2)) [] = nth i (heap (run init ops)) [] ++ extra.
Proof.
  exact (fun ops => conj (run_hinv ops init init_hinv)
           (fun ops2 i B => proj2 (run_good ops2 (run init ops) B (run_hinv ops init init_hinv)) i)).
Qed.
Print Assumptions names_unique_all_histories.

(* Registrar.__init__: never out of fuel; either ParameterError with all registries unchanged, or the
   returned name was NOT in the current namespace and is appended to that namespace only *)
Theorem registration_never_collides : forall s c nk pre orc,
  snd (reg s c nk pre orc) <> OutOfFuel /\
  ((heap (fst (reg s c nk pre orc)) = heap s /\ snd (reg s c nk pre orc) = ErrParameter) \/
   exists nm, snd (reg s c nk pre orc) = Ok nm /\ dmemN nm (cur s c) = false /\
              heap (fst (reg s c nk pre orc)) = upd (eff_nms s c) (fun d => d ++ [(nm, ninst s)]) (heap s)).
Proof. exact reg_spec. Qed.
Print Assumptions registration_never_collides.

(* an explicitly requested duplicate is rejected, registries unchanged *)
Theorem explicit_duplicate_rejected : forall s c x n pre orc, dmemN (x :: n) (cur s c) = true ->
  snd (reg s c (NStr (x :: n)) pre orc) = ErrParameter /\ heap (fst (reg s c (NStr (x :: n)) pre orc)) = heap s.
Proof. exact reg_duplicate_rejected. Qed.
Print Assumptions explicit_duplicate_rejected.

(* the suffix loop terminates for EVERY oracle within 1 + maxlen(Names) - len(base) iterations and
   returns an extension of the base name that is not in Names (this is what keeps automatic names
   unique although assignRegistries resets the class counter to the house's never-updated 0) *)
Theorem auto_name_fresh_and_terminates : forall fuel d nm orc, (maxlen d < length nm + fuel)%nat ->
  exists nm', autoname fuel d nm orc = Some nm' /\ dmemN nm' d = false /\ exists suf, nm' = nm ++ suf.
Proof. exact autoname_fresh. Qed.
Print Assumptions auto_name_fresh_and_terminates.

(* house switch: a creation touches only the namespace current for its class, and after
   houses[h].assignRegistries() that namespace is house h's own dict *)
Theorem house_switch_no_collision : forall s c nk pre orc i, i <> eff_nms s c ->
  nth i (heap (fst (reg s c nk pre orc))) [] = nth i (heap s) [].
Proof. exact reg_other_untouched. Qed.
Print Assumptions house_switch_no_collision.

Theorem assign_registries_points_to_house : forall s h a b c, nth_error (houses s) h = Some (a, b, c) ->
  let s' := fst (step s (Assign h)) in
  eff_nms s' CStore = a /\ eff_nms s' CTasker = b /\ eff_nms s' CLog = c /\
  (nms (attrs s CFramer) = None -> eff_nms s' CFramer = b) /\ (nms (attrs s CLogger) = None -> eff_nms s' CLogger = b).
Proof. exact assign_points_to_house. Qed.
Print Assumptions assign_registries_points_to_house.

(* Framer.clone (also the run-time Rearer path, which calls it) of a framer whose store belongs to house h,
   called while ANY namespace is current (e.g. another house's): the requested name is checked against
   house h's OWN tasker registry b -- rejected (CloneError, all registries unchanged) iff it is already
   there -- and otherwise the clone is created under exactly that name and registered in b.
   Premises: Framer has no Names attribute of its own (never Clear()ed on Framer itself) and b is an
   allocated registry. *)
Theorem clone_house_switch_no_collision : forall s f n0 n orc fd h a b c,
  nth_error (framers s) f = Some fd -> nth_error (fhouse s) f = Some (Some h) ->
  nth_error (houses s) h = Some (a, b, c) -> nms (attrs s CFramer) = None -> (b < length (heap s))%nat ->
  (dmemN (n0 :: n) (nth b (heap s) []) = true ->
     snd (step s (Clone f (n0 :: n) orc)) = Some ErrClone /\ heap (fst (step s (Clone f (n0 :: n) orc))) = heap s) /\
  (dmemN (n0 :: n) (nth b (heap s) []) = false ->
     snd (step s (Clone f (n0 :: n) orc)) = Some (Ok (n0 :: n)) /\
     exists extra, nth b (heap (fst (step s (Clone f (n0 :: n) orc)))) [] = (nth b (heap s) [] ++ [(n0 :: n, ninst s)]) ++ extra).
Proof. exact clone_own_house. Qed.
Print Assumptions clone_house_switch_no_collision.

(* WELL-FORMEDNESS over all histories: the registry ids of all houses (3 each) and of all framers are
   allocated heap indices, pairwise distinct, and distinct from the 5 import-time class registries;
   and unless Framer.Clear() itself is called, Framer never gets a Names attribute of its own *)
Theorem wf_all_histories : forall ops,
  wf (run init ops) /\
  (forallb not_clear_framer ops = true -> nms (attrs (run init ops) CFramer) = None).
Proof. exact (fun ops => conj (proj1 (run_wf ops init init_wf)) (fun B => proj2 (run_wf ops init init_wf) B eq_refl)). Qed.
Print Assumptions wf_all_histories.

(* the three registries of a house are allocated and different objects, and the registries of two
   different houses are disjoint: in every reachable state *)
Theorem house_registries_distinct : forall ops,
  let s := run init ops in
  (forall h a b c, nth_error (houses s) h = Some (a, b, c) ->
     (a < length (heap s))%nat /\ (b < length (heap s))%nat /\ (c < length (heap s))%nat /\
     a <> b /\ b <> c /\ a <> c /\ (5 <= a)%nat /\ (5 <= b)%nat /\ (5 <= c)%nat) /\
  (forall h1 h2 t1 t2, h1 <> h2 -> nth_error (houses s) h1 = Some t1 -> nth_error (houses s) h2 = Some t2 ->
     forall x, In x [fst (fst t1); snd (fst t1); snd t1] -> ~ In x [fst (fst t2); snd (fst t2); snd t2]).
Proof.
  exact (fun ops => conj (fun h a b c => wf_house_ids _ h a b c (proj1 (run_wf ops init init_wf)))
                         (fun h1 h2 t1 t2 => wf_houses_disjoint _ h1 h2 t1 t2 (proj1 (run_wf ops init init_wf)))).
Qed.
Print Assumptions house_registries_distinct.

(* Framer.clone in every state reachable without Framer.Clear(): no premises left but the lookups *)
Theorem clone_house_switch_no_collision_reachable : forall ops, forallb not_clear_framer ops = true ->
  let s := run init ops in
  forall f n0 n orc fd h a b c,
  nth_error (framers s) f = Some fd -> nth_error (fhouse s) f = Some (Some h) -> nth_error (houses s) h = Some (a, b, c) ->
  (dmemN (n0 :: n) (nth b (heap s) []) = true ->
     snd (step s (Clone f (n0 :: n) orc)) = Some ErrClone /\ heap (fst (step s (Clone f (n0 :: n) orc))) = heap s) /\
  (dmemN (n0 :: n) (nth b (heap s) []) = false ->
     snd (step s (Clone f (n0 :: n) orc)) = Some (Ok (n0 :: n)) /\
     exists extra, nth b (heap (fst (step s (Clone f (n0 :: n) orc)))) [] = (nth b (heap s) [] ++ [(n0 :: n, ninst s)]) ++ extra).
Proof.
  exact (fun ops B f n0 n orc fd h a b c Hf Hh Hs =>
    clone_own_house _ f n0 n orc fd h a b c Hf Hh Hs
      (proj2 (run_wf ops init init_wf) B eq_refl)
      (proj1 (proj2 (wf_house_ids _ h a b c (proj1 (run_wf ops init init_wf)) Hs)))).
Qed.
Print Assumptions clone_house_switch_no_collision_reachable.

(* An entry is only removed by the object that owns it: Framer.prune, in ANY state and whatever
   namespace is current (e.g. another house's, holding a same-named live clone), removes at most the
   entry (name, instance) of the pruned framer itself; every other entry of every registry stays. *)
Theorem entry_removed_only_by_owner : forall s f i p, In p (nth i (heap s) []) ->
  In p (nth i (heap (fst (step s (Prune f)))) []) \/ nth_error (finfo s) f = Some p.
Proof. exact prune_only_owner. Qed.
Print Assumptions entry_removed_only_by_owner.

Theorem suffix_loop_never_exhausted : forall s x, snd (step s x) <> Some OutOfFuel.
Proof. exact step_no_fuel. Qed.
Print Assumptions suffix_loop_never_exhausted.

(* non-vacuity: explicit "Tasker2", "Tasker2a"; the automatic name of the 2nd tasker collides twice *)
Example c47_nonvacuous :
  let s := run init [Create CTasker (NStr [84;97;115;107;101;114;50]) [] [];
                     Create CTasker (NStr [84;97;115;107;101;114;50;97]) [] [];
                     Create CTasker NAuto [] [0; 1]] in
  map fst (nth 2 (heap s) []) = [[84;97;115;107;101;114;50]; [84;97;115;107;101;114;50;97]; [84;97;115;107;101;114;51]].
Proof. vm_compute. reflexivity. Qed.
Example c47_nonvacuous_suffix :
  let s := run init [Create CTasker (NStr [84;97;115;107;101;114;51]) [] [];
                     Create CTasker (NStr [84;97;115;107;101;114;51;97]) [] [];
                     Create CFramer NAuto [84;97;115;107;101;114] [0; 1]] in
  map fst (nth 2 (heap s) []) = [[84;97;115;107;101;114;51]; [84;97;115;107;101;114;51;97]; [84;97;115;107;101;114;51;97;98]].
Proof. vm_compute. reflexivity. Qed.

(* two houses each clone their own framer under the same name "w" while the OTHER house's namespace is
   current: both succeed, each clone lands in its own house's tasker registry *)
Example c47_clone_two_houses :
  let s := run init [CreateHouse (NStr [97]) [] []; CreateHouse (NStr [98]) [] [];
                     Assign 0; CreateFramerIn 0 (NStr [102]) [] []; Assign 1; CreateFramerIn 1 (NStr [102]) [] [];
                     Clone 0 [119] []; Assign 0; Clone 1 [119] []] in
  map fst (nth 6 (heap s) []) = [[102]; [119]] /\ map fst (nth 9 (heap s) []) = [[102]; [119]].
Proof. vm_compute. split; reflexivity. Qed.

(* house a razes its clone "w" while house b's namespace is current and holds b's own live clone "w":
   b's entry stays, and an explicit duplicate "w" in house b is still rejected *)
Example c47_prune_other_house_current :
  let pre := [CreateHouse (NStr [97]) [] []; CreateHouse (NStr [98]) [] [];
              Assign 0; CreateFramerIn 0 (NStr [102]) [] []; Assign 1; CreateFramerIn 1 (NStr [102]) [] [];
              Clone 0 [119] []; Clone 1 [119] []; Prune 2] in
  map fst (nth 9 (heap (run init pre)) []) = [[102]; [119]] /\
  snd (step (run init pre) (CreateFramerIn 1 (NStr [119]) [] [])) = Some ErrParameter.
Proof. vm_compute. split; reflexivity. Qed.
