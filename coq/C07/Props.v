(* C07 -- sub-claims proved for every program: clause evaluation order and first-wins.
   The agreement with the implementation itself is the correspondence run of props/C07/check.py. *)
From Coq Require Import List ZArith Bool Arith.
Import ListNotations.
Require Import V.Kernel.Model V.Kernel.PrecurProofs.

(* the reference interpreter is a function: same program, same inputs, same trace *)
Theorem kernel_deterministic : forall (O : TimeOps) (P : prog O) nv ca n r1 r2,
  run P nv ca n = r1 -> run P nv ca n = r2 -> r1 = r2.
Proof. intros; congruence. Qed.
Print Assumptions kernel_deterministic.

(* within a frame, transition clauses are evaluated in declaration order ... *)
Theorem preacts_in_declaration_order : forall (O : TimeOps) (P : prog O) sub l1 t f l2 w w1,
  precur P sub t f l1 w = (w1, false) ->
  precur P sub t f (l1 ++ l2) w = precur P sub t f l2 w1.
Proof. exact precur_app. Qed.
Print Assumptions preacts_in_declaration_order.

(* ... and the first clause that interrupts (transition taken, or conditional auxiliary running)
   ends evaluation: later clauses of the frame have no effect whatsoever *)
Theorem preacts_first_wins : forall (O : TimeOps) (P : prog O) sub l1 t f pa l2 w w1 w2,
  precur P sub t f l1 w = (w1, false) -> crashed w1 = None ->
  pact_step O P sub t f pa w1 = (w2, true) ->
  precur P sub t f (l1 ++ pa :: l2) w = (w2, true).
Proof. exact precur_first_wins. Qed.
Print Assumptions preacts_first_wins.

(* frames are visited top-down through the active outline and the first frame whose clauses
   interrupt ends evaluation for that tick: frames below it are not evaluated *)
Theorem outline_top_down_first_wins : forall (O : TimeOps) (P : prog O) sub l1 t f l2 w w1 w2,
  segue_frames P sub t l1 w = (w1, false) -> crashed w1 = None ->
  precur P sub t f (preacts (getf P t f)) w1 = (w2, true) ->
  segue_frames P sub t (l1 ++ f :: l2) w = (w2, true).
Proof. exact segue_first_frame_wins. Qed.
Print Assumptions outline_top_down_first_wins.
