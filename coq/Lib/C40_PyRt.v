(* C40_PyRt -- the "Python runtime" prelude the py->Gallina translator (props/C40/translate.py)
   targets.  DEFINITIONS ONLY.  Every Python primitive the translator accepts is rendered by
   exactly one definition of this file; this file (together with the translator) is the trusted
   reading of CPython semantics and is validated by the C40/C41 correspondence runs.

   Representation
     int                      -> Z        (unbounded; & | ^ >> are two's complement like Python)
     bool                     -> bool
     str                      -> list Z   (code points)      a 1-char str got by iterating a str -> Z
     bytes / bytearray        -> list Z   (each element in [0,256): enforced by the constructors)
     list / tuple of ints     -> list Z
     tuple of int-or-bool     -> list val
     X (raises)               -> res X = Ok v | Err cls
   A primitive whose Python behaviour is outside the modelled domain returns [Err Unmodelled]
   (never a made-up value); the correspondence harness skips such inputs and the theorems
   exclude them by hypothesis. *)
From Coq Require Import ZArith List Bool.
From Coq Require String Ascii DecimalString HexadecimalString.
Import ListNotations.
Open Scope Z_scope.

Inductive exc := ValueError | IndexError | TypeError | StructError | ZeroDivisionError
               | OutOfFuel | Unmodelled.

Inductive res (A : Type) := Ok (a : A) | Err (e : exc).
Arguments Ok {A} a.
Arguments Err {A} e.

Definition bind {A B} (m : res A) (f : A -> res B) : res B :=
  match m with Ok a => f a | Err e => Err e end.

(* int-or-bool dynamic value (unpackify's result tuple) *)
Inductive val := VI (z : Z) | VB (b : bool).

(* ---- loops ------------------------------------------------------------------------- *)
Fixpoint for_res {A S} (l : list A) (s : S) (f : S -> A -> res S) : res S :=
  match l with
  | [] => Ok s
  | x :: r => bind (f s x) (fun s' => for_res r s' f)
  end.

Fixpoint map_res {A B} (f : A -> res B) (l : list A) : res (list B) :=
  match l with
  | [] => Ok []
  | x :: r => bind (f x) (fun y => bind (map_res f r) (fun ys => Ok (y :: ys)))
  end.

(* while loop: no syntactic measure -> explicit fuel, OutOfFuel is an error value *)
Fixpoint while_res {S} (fuel : nat) (c : S -> bool) (body : S -> res S) (s : S) : res S :=
  match fuel with
  | O => Err OutOfFuel
  | S k => if c s then bind (body s) (fun s' => while_res k c body s') else Ok s
  end.

(* ---- ints -------------------------------------------------------------------------- *)
Definition py_truthZ (z : Z) : bool := negb (z =? 0).
Definition py_truthL {A} (l : list A) : bool := match l with [] => false | _ => true end.
Definition py_pow (a b : Z) : res Z := if b <? 0 then Err Unmodelled (* float *) else Ok (a ^ b).
Definition py_shl (a k : Z) : res Z := if k <? 0 then Err ValueError else Ok (Z.shiftl a k).
Definition py_shr (a k : Z) : res Z := if k <? 0 then Err ValueError else Ok (Z.shiftr a k).
Definition py_floordiv (a b : Z) : res Z := if b =? 0 then Err ZeroDivisionError else Ok (a / b).
Definition py_mod (a b : Z) : res Z := if b =? 0 then Err ZeroDivisionError else Ok (a mod b).
Definition py_sum (l : list Z) : Z := fold_right Z.add 0 l.

(* ---- sequences --------------------------------------------------------------------- *)
Definition py_len {A} (l : list A) : Z := Z.of_nat (length l).

(* range(a, b, s) with s a non-zero literal *)
Definition py_range (a b s : Z) : list Z :=
  let cnt := if 0 <? s then (b - a + s - 1) / s else (a - b - s - 1) / (- s) in
  map (fun i => a + Z.of_nat i * s) (seq 0 (Z.to_nat cnt)).

Fixpoint py_enumerate_from {A} (i : Z) (l : list A) : list (Z * A) :=
  match l with [] => [] | x :: r => (i, x) :: py_enumerate_from (i + 1) r end.
Definition py_enumerate {A} (l : list A) := py_enumerate_from 0 l.

Definition py_index {A} (l : list A) (i : Z) : res A :=
  let j := if i <? 0 then i + py_len l else i in
  if j <? 0 then Err IndexError
  else match nth_error l (Z.to_nat j) with Some x => Ok x | None => Err IndexError end.

(* slice bound normalisation (no step) *)
Definition py_clip (i n : Z) : Z := if i <? 0 then Z.max (i + n) 0 else Z.min i n.
Definition py_slice {A} (l : list A) (lo hi : Z) : list A :=
  let n := py_len l in
  let lo := py_clip lo n in
  let hi := py_clip hi n in
  firstn (Z.to_nat (hi - lo)) (skipn (Z.to_nat lo) l).
(* l[lo:hi] = v *)
Definition py_slice_assign {A} (l : list A) (lo hi : Z) (v : list A) : list A :=
  let n := py_len l in
  let lo := py_clip lo n in
  let hi := Z.max lo (py_clip hi n) in
  firstn (Z.to_nat lo) l ++ v ++ skipn (Z.to_nat hi) l.

Definition py_list_mul {A} (l : list A) (k : Z) : list A := concat (repeat l (Z.to_nat k)).
Definition py_insert {A} (l : list A) (i : Z) (x : A) : list A :=
  let j := Z.to_nat (py_clip i (py_len l)) in firstn j l ++ x :: skipn j l.
Definition py_pop {A} (l : list A) : res (A * list A) :=
  match rev l with [] => Err IndexError | x :: r => Ok (x, rev r) end.
Definition py_memZ (x : Z) (l : list Z) : bool := existsb (Z.eqb x) l.
(* s.replace(c, '') for a 1-char c *)
Definition py_remove_char (c : Z) (s : list Z) : list Z := filter (fun x => negb (x =? c)) s.

(* ---- bytes / bytearray ------------------------------------------------------------- *)
Definition is_byte (x : Z) : bool := (0 <=? x) && (x <? 256).
Definition bytes_ok (l : list Z) : bool := forallb is_byte l.
(* bytearray(iterable of ints) *)
Definition py_bytearray (l : list Z) : res (list Z) := if bytes_ok l then Ok l else Err ValueError.
Definition py_ba_append (b : list Z) (x : Z) : res (list Z) :=
  if is_byte x then Ok (b ++ [x]) else Err ValueError.
Definition py_ba_insert (b : list Z) (i x : Z) : res (list Z) :=
  if is_byte x then Ok (py_insert b i x) else Err ValueError.
Definition py_ba_extend (b l : list Z) : res (list Z) :=
  if bytes_ok l then Ok (b ++ l) else Err ValueError.
(* ord(x) for a bytes/str object x *)
Definition py_ord (l : list Z) : res Z := match l with [x] => Ok x | _ => Err TypeError end.
(* struct.pack('!B', x), struct.pack('!H', x) *)
Definition py_pack_B (x : Z) : res (list Z) := if is_byte x then Ok [x] else Err StructError.
Definition py_pack_H (x : Z) : res (list Z) :=
  if (0 <=? x) && (x <? 65536) then Ok [x / 256; x mod 256] else Err StructError.

(* ---- text -------------------------------------------------------------------------- *)
Definition codes (s : String.string) : list Z :=
  map (fun a => Z.of_nat (Ascii.nat_of_ascii a)) (String.list_ascii_of_string s).
(* str(int) *)
Definition py_str_int (z : Z) : list Z := codes (DecimalString.NilZero.string_of_int (Z.to_int z)).
(* string.hexdigits = "0123456789abcdefABCDEF" *)
Definition py_hexdigits : list Z :=
  [48; 49; 50; 51; 52; 53; 54; 55; 56; 57; 97; 98; 99; 100; 101; 102; 65; 66; 67; 68; 69; 70].
Definition hexdigit (d : Z) : Z := if d <? 10 then 48 + d else 87 + d.
Definition hexval (c : Z) : option Z :=
  if (48 <=? c) && (c <=? 57) then Some (c - 48)
  else if (97 <=? c) && (c <=? 102) then Some (c - 87)
  else if (65 <=? c) && (c <=? 70) then Some (c - 55)
  else None.
(* "{0:02x}".format(x) *)
Definition py_fmt_02x (x : Z) : list Z :=
  if is_byte x then [hexdigit (x / 16); hexdigit (x mod 16)]
  else if x <? 0 then
    45 :: codes (HexadecimalString.NilZero.string_of_uint (N.to_hex_uint (Z.to_N (- x))))
  else codes (HexadecimalString.NilZero.string_of_uint (N.to_hex_uint (Z.to_N x))).
(* int(s, 16): only the sub-domain "s consists of hex digits" is modelled *)
Definition py_int_hex (s : list Z) : res Z :=
  match s with
  | [] => Err ValueError
  | _ => fold_left (fun acc c => bind acc (fun a =>
             match hexval c with Some d => Ok (a * 16 + d) | None => Err Unmodelled end)) s (Ok 0)
  end.
(* int(c) for a 1-char str c: ASCII only *)
Definition py_int_char (c : Z) : res Z :=
  if (48 <=? c) && (c <=? 57) then Ok (c - 48)
  else if (0 <=? c) && (c <? 128) then Err ValueError else Err Unmodelled.

(* ---- for loop with early exit (a `return` in the body): the body yields
        inl state = go on  |  inr value = the function returns value ------------------------- *)
Fixpoint for_ret {A S T} (l : list A) (s : S) (f : S -> A -> res (S + T)) : res (S + T) :=
  match l with
  | [] => Ok (inl s)
  | x :: r => bind (f s x) (fun o => match o with inl s' => for_ret r s' f | inr v => Ok (inr v) end)
  end.

(* int(b) for a bytes object b of length <= 1 (packByte's int(fmt[i:i+1])): one ASCII digit, else
   ValueError; longer strings (signs, spaces, several digits) are outside the modelled domain *)
Definition py_int_bytes (b : list Z) : res Z :=
  match b with
  | [] => Err ValueError
  | [c] => if (48 <=? c) && (c <=? 57) then Ok (c - 48) else Err ValueError
  | _ => Err Unmodelled
  end.
