(* M-Http -- hand model (tie H) of the resumable HTTP / SSE parsers of
   ioflo/aio/http/{httping,serving,clienting}.py.   DEFINITIONS ONLY (no proofs).
   Shared by C29 (split independence / round trip), C32 (failure classes), C33 (SSE).

   bytes          = list Z (each in 0..255); latin-1 decoded str = the same list.
   generator      = resumable machine  step : St -> bytes -> Adv s' rest | Wait | Halt
                    Wait  <-> the generator's `yield None` (nothing consumed, state unchanged,
                              the same step is retried when more bytes have been appended)
                    Adv   <-> the code between two yield points (consumes a prefix of the buffer)
                    Halt  <-> parser finished (result or failure recorded in the state)
   one Parsent.parse() / EventSource.parse() call = [run] = iterate step until Wait/Halt.

   The model describes the FIXED behaviour (fixes/C33-parseline-earliest-eol,
   fixes/C29-leader-colon, fixes/C32-parse-errors-are-httpexceptions).                 *)
From Coq Require Import String Ascii.
From Coq Require Import List ZArith Bool.
Import ListNotations.
Open Scope Z_scope.

Definition bytes := list Z.

Definition bz (s : String.string) : bytes :=
  map (fun a => Z.of_N (Ascii.N_of_ascii a)) (String.list_ascii_of_string s).

Definition len (b : bytes) : Z := Z.of_nat (length b).

Fixpoint beq (a b : bytes) : bool :=
  match a, b with
  | [], [] => true
  | x :: a', y :: b' => (x =? y) && beq a' b'
  | _, _ => false
  end.

Definition is_nil {A} (l : list A) : bool := match l with [] => true | _ => false end.

(* ------------------------------------------------------------------ *)
(* generic resumable machine                                           *)
(* ------------------------------------------------------------------ *)
Inductive sres (St : Type) := Adv (s : St) (rest : bytes) | Wait | Halt.
Arguments Adv {St} s rest.
Arguments Wait {St}.
Arguments Halt {St}.

Section Machine.
  Variable St : Type.
  Variable step : St -> bytes -> sres St.
  Variable mu : St -> bytes -> nat.        (* fuel measure *)

  Fixpoint run (fuel : nat) (s : St) (b : bytes) : St * bytes :=
    match fuel with
    | O => (s, b)
    | S f => match step s b with
             | Adv s' r => run f s' r
             | _ => (s, b)
             end
    end.

  (* a receive of [piece] followed by one parse() call *)
  Definition feed (c : St * bytes) (piece : bytes) : St * bytes :=
    let b := (snd c ++ piece)%list in run (S (mu (fst c) b)) (fst c) b.

  Definition feed_all (c : St * bytes) (pieces : list bytes) : St * bytes :=
    fold_left feed pieces c.
End Machine.

(* ------------------------------------------------------------------ *)
(* Python str / bytes helpers                                          *)
(* ------------------------------------------------------------------ *)
(* bytes.strip() white space *)
Definition is_ws_b (c : Z) : bool := ((9 <=? c) && (c <=? 13)) || (c =? 32).
(* str.strip() / str.split() / int() white space among code points < 256 *)
Definition is_ws_u (c : Z) : bool :=
  is_ws_b c || ((28 <=? c) && (c <=? 31)) || (c =? 133) || (c =? 160).

Fixpoint lstrip (ws : Z -> bool) (b : bytes) : bytes :=
  match b with
  | c :: t => if ws c then lstrip ws t else b
  | [] => []
  end.
Definition rstrip (ws : Z -> bool) (b : bytes) : bytes := rev (lstrip ws (rev b)).
Definition strip (ws : Z -> bool) (b : bytes) : bytes := rstrip ws (lstrip ws b).

(* str.lower() on code points < 256 *)
Definition lower_c (c : Z) : Z :=
  if ((65 <=? c) && (c <=? 90)) || ((192 <=? c) && (c <=? 222) && negb (c =? 215))
  then c + 32 else c.
Definition lower (b : bytes) : bytes := map lower_c b.

(* x.partition(sep): None when sep absent *)
Fixpoint partition_at (x : Z) (b : bytes) : option (bytes * bytes) :=
  match b with
  | [] => None
  | c :: t => if c =? x then Some ([], t)
              else match partition_at x t with
                   | Some (h, r) => Some (c :: h, r)
                   | None => None
                   end
  end.

(* x.split(sep) for a one byte sep *)
Fixpoint split_on (x : Z) (b : bytes) : list bytes :=
  match b with
  | [] => [[]]
  | c :: t => if c =? x then [] :: split_on x t
              else match split_on x t with
                   | h :: tl => (c :: h) :: tl
                   | [] => [[c]]
                   end
  end.

(* str.split() : runs of white space separate, no empty tokens *)
Fixpoint split_ws_aux (ws : Z -> bool) (cur : bytes) (b : bytes) : list bytes :=
  match b with
  | [] => match cur with [] => [] | _ => [rev cur] end
  | c :: t => if ws c
              then match cur with
                   | [] => split_ws_aux ws [] t
                   | _ => rev cur :: split_ws_aux ws [] t
                   end
              else split_ws_aux ws (c :: cur) t
  end.
Definition split_ws (b : bytes) : list bytes := split_ws_aux is_ws_u [] b.

Fixpoint starts_with (p b : bytes) : bool :=
  match p, b with
  | [], _ => true
  | x :: p', y :: b' => (x =? y) && starts_with p' b'
  | _, [] => false
  end.

Fixpoint join_with (sep : bytes) (l : list bytes) : bytes :=
  match l with
  | [] => []
  | [x] => x
  | x :: t => (x ++ sep ++ join_with sep t)%list
  end.

(* white space skipped by int(): ASCII 9-13, 32 and the non-ASCII spaces; NOT 28-31 *)
Definition is_ws_int (c : Z) : bool := is_ws_b c || (c =? 133) || (c =? 160).

(* int(s, base) for base 10 / 16 on a str whose code points are < 256.
   None = ValueError.  white space stripped, optional sign, for base 16 an optional 0x / 0X
   prefix (one underscore allowed after it), digits separated by single underscores,
   base 10: more than 4300 digits is a ValueError (sys.int_info.default_max_str_digits). *)
Definition digit_val (base c : Z) : option Z :=
  let v := if (48 <=? c) && (c <=? 57) then c - 48
           else if (97 <=? c) && (c <=? 122) then c - 87
           else if (65 <=? c) && (c <=? 90) then c - 55
           else 99 in
  if v <? base then Some v else None.

Fixpoint digits_val (base acc : Z) (prev_us : bool) (b : bytes) : option Z :=
  match b with
  | [] => if prev_us then None else Some acc
  | c :: t => if c =? 95 then (if prev_us then None else digits_val base acc true t)
              else match digit_val base c with
                   | Some v => digits_val base (acc * base + v) false t
                   | None => None
                   end
  end.
Definition digits_top (base : Z) (b : bytes) : option Z :=
  match b with
  | [] => None
  | c :: t => match digit_val base c with
              | Some v => digits_val base v false t
              | None => None
              end
  end.
Definition count_digits (b : bytes) : Z :=
  len (filter (fun c => negb (c =? 95)) b).

Definition py_int (base : Z) (s : bytes) : option Z :=
  let s1 := strip is_ws_int s in
  let '(neg, s2) := match s1 with
                    | c :: t => if c =? 43 then (false, t)
                                else if c =? 45 then (true, t)
                                else (false, s1)
                    | [] => (false, s1)
                    end in
  let s3 := if base =? 16
            then match s2 with
                 | z :: x :: t => if (z =? 48) && ((x =? 120) || (x =? 88))
                                  then match t with
                                       | u :: t' => if u =? 95 then t' else t
                                       | [] => t
                                       end
                                  else s2
                 | _ => s2
                 end
            else s2 in
  if (base =? 10) && (4300 <? count_digits s3) then None
  else match digits_top base s3 with
       | Some v => Some (if neg then - v else v)
       | None => None
       end.

(* ------------------------------------------------------------------ *)
(* odict / lodict as association lists (a set key keeps its position)   *)
(* ------------------------------------------------------------------ *)
Fixpoint aset {V} (k : bytes) (v : V) (h : list (bytes * V)) : list (bytes * V) :=
  match h with
  | [] => [(k, v)]
  | (k', v') :: t => if beq k k' then (k, v) :: t else (k', v') :: aset k v t
  end.
Fixpoint aget {V} (k : bytes) (h : list (bytes * V)) : option V :=
  match h with
  | [] => None
  | (k', v') :: t => if beq k k' then Some v' else aget k t
  end.
Definition aupdate {V} (h upd : list (bytes * V)) : list (bytes * V) :=
  fold_left (fun acc kv => aset (fst kv) (snd kv) acc) upd h.

Definition hdrs := list (bytes * bytes).
Definition parms := list (bytes * option bytes).

(* ------------------------------------------------------------------ *)
(* parseLine (fixed): earliest eol, CRLF before CR at the same offset,  *)
(* a CR in the last byte of the buffer is not yet an eol                *)
(* ------------------------------------------------------------------ *)
Inductive eols := EAll      (* (CRLF, LF, CR)  event lines                 *)
                | ECrLfLf   (* (CRLF, LF)      start lines, header lines   *)
                | ECrLf.    (* (CRLF,)         chunk size / chunk end line *)
Definition lf_is_eol (e : eols) : bool := match e with ECrLf => false | _ => true end.
Definition cr_is_eol (e : eols) : bool := match e with EAll => true | _ => false end.

Definition cons_fst (c : Z) (o : option (bytes * bytes)) : option (bytes * bytes) :=
  match o with Some (l, r) => Some (c :: l, r) | None => None end.

Fixpoint split_line (e : eols) (b : bytes) : option (bytes * bytes) :=
  match b with
  | [] => None
  | c :: t =>
      if c =? 13 then
        match t with
        | [] => None
        | d :: t' => if d =? 10 then Some ([], t')
                     else if cr_is_eol e then Some ([], t)
                     else cons_fst c (split_line e t)
        end
      else if (c =? 10) && lf_is_eol e then Some ([], t)
      else cons_fst c (split_line e t)
  end.

Fixpoint ends_cr (b : bytes) : bool :=
  match b with
  | [] => false
  | c :: t => match t with [] => c =? 13 | _ => ends_cr t end
  end.

Inductive lres := LLine (l r : bytes) | LWait | LTooLong.

Definition next_line (maxl : Z) (e : eols) (b : bytes) : lres :=
  match split_line e b with
  | Some (l, r) => if maxl <? len l then LTooLong else LLine l r
  | None => if maxl <? len b - (if ends_cr b then 1 else 0) then LTooLong else LWait
  end.

(* ------------------------------------------------------------------ *)
(* failure sites                                                       *)
(* ------------------------------------------------------------------ *)
Inductive err :=
| ELineTooLong      (* httping.LineTooLong                                         *)
| EBadStartLine     (* httping.BadRequestLine / BadStatusLine                      *)
| EUnknownProtocol  (* httping.UnknownProtocol                                     *)
| EBadMethod        (* httping.BadMethod                                           *)
| EInvalidURL       (* urlsplit / .port ValueError -> httping.InvalidURL (fix C32) *)
| EBadHeader        (* header line without colon -> HTTPException (fix C29)        *)
| ETooManyHeaders   (* HTTPException                                               *)
| EBadChunkSize     (* int(..,16) / ascii ValueError, negative -> HTTPException (fix C32) *)
| EBadChunkEnd      (* non empty chunk terminator -> HTTPException (fix C32)       *)
| ENoLength         (* request without usable content-length: HTTPException        *)
| EPremature.       (* httping.PrematureClosure (client side)                      *)

Record cfg := { maxline : Z; maxhdrs : Z; url_ok : bytes -> bool }.

(* ------------------------------------------------------------------ *)
(* parseLeader (fixed: partition on ':' + strip)                        *)
(* ------------------------------------------------------------------ *)
Definition header_line (line : bytes) (h : hdrs) : option hdrs :=
  match partition_at 58 line with
  | None => None
  | Some (k, v) => Some (aset (lower (strip is_ws_u k)) (strip is_ws_u v) h)
  end.

Inductive ldres := LdMore (h : hdrs) (r : bytes) | LdDone (h : hdrs) (r : bytes)
                 | LdWait | LdErr (e : err) (r : bytes).

Definition leader_step (c : cfg) (h : hdrs) (b : bytes) : ldres :=
  match next_line (maxline c) ECrLfLf b with
  | LWait => LdWait
  | LTooLong => LdErr ELineTooLong b
  | LLine l r =>
      if is_nil l
      then (if maxhdrs c <? Z.of_nat (length h) then LdErr ETooManyHeaders r else LdDone h r)
      else match header_line l h with
           | None => LdErr EBadHeader r
           | Some h' => if maxhdrs c <? Z.of_nat (length h') then LdErr ETooManyHeaders r
                        else LdMore h' r
           end
  end.

(* ------------------------------------------------------------------ *)
(* start lines                                                         *)
(* ------------------------------------------------------------------ *)
Definition METHODS : list bytes :=
  map bz ["GET"; "HEAD"; "PUT"; "PATCH"; "POST"; "DELETE"; "OPTIONS"; "TRACE"; "CONNECT"]%string.

Definition nth_tok (n : nat) (l : list bytes) : bytes := nth n l [].

(* httping.parseRequestLine + the version / url part of Requestant.parseHead.
   result: (method, url, version string, version code 0 = (1,0) | 1 = (1,1)) *)
Definition parse_request_line (c : cfg) (line : bytes) : err + (bytes * bytes * bytes * Z) :=
  if is_nil line then inl EBadStartLine else
  let toks := split_ws line in
  let method := nth_tok 0 toks in
  let url := nth_tok 1 toks in
  let version := nth_tok 2 toks in
  if negb (starts_with (bz "HTTP/"%string) version) then inl EUnknownProtocol
  else if negb (existsb (beq method) METHODS) then inl EBadMethod
  else if negb (starts_with (bz "HTTP/1."%string) version) then inl EUnknownProtocol
  else if negb (url_ok c url) then inl EInvalidURL
  else inr (method, url, version, if starts_with (bz "HTTP/1.0"%string) version then 0 else 1).

(* httping.parseStatusLine : (version string, status, reason) *)
Definition parse_status_line (line : bytes) : err + (bytes * Z * bytes) :=
  if is_nil line then inl EBadStartLine else
  let toks := split_ws line in
  let version := nth_tok 0 toks in
  let status := nth_tok 1 toks in
  let reason := join_with [32] (skipn 2 toks) in
  if negb (starts_with (bz "HTTP/"%string) version) then inl EBadStartLine
  else match py_int 10 status with
       | None => inl EBadStartLine
       | Some n => if (n <? 100) || (999 <? n) then inl EBadStartLine
                   else inr (version, n, reason)
       end.

Definition response_version (version : bytes) : option Z :=
  if beq version (bz "HTTP/1.0"%string) || beq version (bz "HTTP/0.9"%string) then Some 0
  else if starts_with (bz "HTTP/1."%string) version then Some 1
  else None.

(* ------------------------------------------------------------------ *)
(* framing decision at the end of parseHead                            *)
(* ------------------------------------------------------------------ *)
Definition is_chunked (h : hdrs) : bool :=
  match aget (bz "transfer-encoding"%string) h with
  | Some v => negb (is_nil v) && beq (lower v) (bz "chunked"%string)
  | None => false
  end.

Definition content_length (h : hdrs) : option (option Z) :=   (* None = header absent/empty *)
  match aget (bz "content-length"%string) h with
  | Some v => if is_nil v then None
              else Some (match py_int 10 v with
                         | Some n => if n <? 0 then None else Some n
                         | None => None
                         end)
  | None => None
  end.

Definition request_length (h : hdrs) : option Z :=
  if is_chunked h then None
  else match content_length h with Some l => l | None => Some 0 end.

Definition response_length (head_method : bool) (status : Z) (h : hdrs) : option Z :=
  if (status =? 204) || (status =? 304) || ((100 <=? status) && (status <? 200)) || head_method
  then Some 0
  else if is_chunked h then None
  else match content_length h with Some l => l | None => None end.

(* ------------------------------------------------------------------ *)
(* parseChunk size line                                                *)
(* ------------------------------------------------------------------ *)
Definition part2 (x : Z) (b : bytes) : bytes * bytes :=
  match partition_at x b with Some p => p | None => (b, []) end.

Definition parse_ext (acc : parms) (ext : bytes) : parms :=
  let '(nm, v) := part2 61 (strip is_ws_b ext) in
  let v' := strip is_ws_b v in
  aset (strip is_ws_b nm) (if is_nil v' then None else Some v') acc.

Definition parse_chunk_size (line : bytes) : option (Z * parms) :=
  let '(sz, exts) := part2 59 line in
  let szs := strip is_ws_b sz in
  if existsb (fun c => 127 <? c) szs then None       (* .decode('ascii') fails *)
  else match py_int 16 szs with
       | None => None
       | Some n => if n <? 0 then None
                   else Some (n, if is_nil exts then []
                                 else fold_left parse_ext (split_on 59 exts) [])
       end.

(* ------------------------------------------------------------------ *)
(* Requestant / Respondent parseMessage as one resumable machine        *)
(* ------------------------------------------------------------------ *)
Inductive stage :=
| SStart (first : bool)               (* waiting for the start line                         *)
| SContinue (h : hdrs)                (* Respondent: header lines of a 100 Continue          *)
| SLeader (h : hdrs)                  (* header lines                                        *)
| SChunkSize                          (* chunked body: size line                             *)
| SChunkData (n : Z) (p : parms)      (* n > 0 data bytes                                    *)
| SChunkEnd (p : parms) (chunk : bytes)   (* terminator line                                 *)
| STrailer (p : parms) (h : hdrs)     (* after the last chunk: trailer header lines          *)
| SLength (n : Z)                     (* content-length body                                 *)
| SUntil                              (* Respondent: body until the connection closes        *)
| SDone
| SFail (e : err).

Record pst := {
  p_resp : bool;          (* false = serving.Requestant, true = clienting.Respondent *)
  p_headreq : bool;       (* Respondent.method == "HEAD"                             *)
  p_stage : stage;
  p_start : list bytes;   (* Requestant [method; url] | Respondent [reason]         *)
  p_version : Z;          (* 0 = (1,0), 1 = (1,1), -1 unset                          *)
  p_status : Z;           (* -1 unset                                                *)
  p_headers : hdrs;
  p_chunked : bool;
  p_length : option Z;    (* framing length decided by parseHead                     *)
  p_body : bytes;
  p_parms : parms;
  p_trails : hdrs }.

Definition init_pst (resp headreq : bool) : pst :=
  {| p_resp := resp; p_headreq := headreq; p_stage := SStart true; p_start := [];
     p_version := -1; p_status := -1; p_headers := []; p_chunked := false; p_length := None;
     p_body := []; p_parms := []; p_trails := [] |}.

Definition set_stage (s : pst) (g : stage) : pst :=
  {| p_resp := p_resp s; p_headreq := p_headreq s; p_stage := g; p_start := p_start s;
     p_version := p_version s; p_status := p_status s; p_headers := p_headers s;
     p_chunked := p_chunked s; p_length := p_length s; p_body := p_body s;
     p_parms := p_parms s; p_trails := p_trails s |}.

Definition set_start (s : pst) (start : list bytes) (version status : Z) (g : stage) : pst :=
  {| p_resp := p_resp s; p_headreq := p_headreq s; p_stage := g; p_start := start;
     p_version := version; p_status := status; p_headers := p_headers s;
     p_chunked := p_chunked s; p_length := p_length s; p_body := p_body s;
     p_parms := p_parms s; p_trails := p_trails s |}.

Definition set_head (s : pst) (h : hdrs) (chunked : bool) (l : option Z) (g : stage) : pst :=
  {| p_resp := p_resp s; p_headreq := p_headreq s; p_stage := g; p_start := p_start s;
     p_version := p_version s; p_status := p_status s; p_headers := h;
     p_chunked := chunked; p_length := l; p_body := p_body s;
     p_parms := p_parms s; p_trails := p_trails s |}.

Definition set_body (s : pst) (body : bytes) (p : parms) (t : hdrs) (g : stage) : pst :=
  {| p_resp := p_resp s; p_headreq := p_headreq s; p_stage := g; p_start := p_start s;
     p_version := p_version s; p_status := p_status s; p_headers := p_headers s;
     p_chunked := p_chunked s; p_length := p_length s; p_body := body;
     p_parms := p; p_trails := t |}.

Definition terminal (g : stage) : bool :=
  match g with SDone | SFail _ => true | _ => false end.

(* ---- checkPersisted: keep the connection open after this message? (derived from the head) ---- *)
Fixpoint contains (p b : bytes) : bool :=
  match b with
  | [] => is_nil p
  | _ :: t => starts_with p b || contains p t
  end.

Definition hdr_has (name word : bytes) (h : hdrs) : bool :=        (* word in headers[name].lower() *)
  match aget name h with
  | Some v => negb (is_nil v) && contains word (lower v)
  | None => false
  end.
Definition hdr_set (name : bytes) (h : hdrs) : bool :=
  match aget name h with Some v => negb (is_nil v) | None => false end.

Definition persisted11 (s : pst) : bool :=
  if hdr_has (bz "connection"%string) (bz "close"%string) (p_headers s) then false
  else if negb (p_chunked s) && (match p_length s with None => true | Some _ => false end) then false
  else true.

(* serving.Requestant.checkPersisted *)
Definition req_persisted (s : pst) : bool :=
  if p_version s =? 1 then persisted11 s
  else if p_version s =? 0 then hdr_has (bz "connection"%string) (bz "keep-alive"%string) (p_headers s)
  else false.

(* clienting.Respondent.checkPersisted (not evented) *)
Definition resp_persisted (s : pst) : bool :=
  if p_version s =? 1 then persisted11 s
  else if p_version s =? 0 then
    hdr_set (bz "keep-alive"%string) (p_headers s)
    || hdr_has (bz "connection"%string) (bz "keep-alive"%string) (p_headers s)
    || hdr_has (bz "proxy-connection"%string) (bz "keep-alive"%string) (p_headers s)
  else false.

Definition persisted (s : pst) : bool := if p_resp s then resp_persisted s else req_persisted s.

(* end of parseHead: framing decision and first body stage *)
Definition head_done (s : pst) (h : hdrs) : pst :=
  let chunked := is_chunked h in
  if p_resp s then
    let l := response_length (p_headreq s) (p_status s) h in
    set_head s h chunked l
      (if chunked then SChunkSize
       else match l with Some n => SLength n | None => SUntil end)
  else
    let l := request_length h in
    set_head s h chunked l
      (if chunked then SChunkSize
       else match l with Some n => SLength n | None => SFail ENoLength end).

Definition fail (s : pst) (e : err) (b : bytes) : sres pst := Adv (set_stage s (SFail e)) b.

(* [closed] : the connection has been closed (Respondent.close()); only the Respondent
   looks at it while parsing (Valet deletes a Requestant in the call that closes it). *)
Definition http_step (c : cfg) (closed : bool) (s : pst) (b : bytes) : sres pst :=
  let premature := closed && p_resp s && is_nil b in
  match p_stage s with
  | SDone | SFail _ => Halt
  | SStart first =>
      if is_nil b && first then Wait                       (* parseMessage: not started *)
      else if premature then fail s EPremature b
      else match next_line (maxline c) ECrLfLf b with
           | LWait => Wait
           | LTooLong => fail s ELineTooLong b
           | LLine l r =>
               if p_resp s then
                 match parse_status_line l with
                 | inl e => fail s e r
                 | inr (version, status, reason) =>
                     if status =? 100 then Adv (set_stage s (SContinue [])) r
                     else match response_version version with
                          | None => fail s EUnknownProtocol r
                          | Some v => Adv (set_start s [reason] v status (SLeader [])) r
                          end
                 end
               else
                 match parse_request_line c l with
                 | inl e => fail s e r
                 | inr (method, url, version, v) =>
                     Adv (set_start s [method; url] v (-1) (SLeader [])) r
                 end
           end
  | SContinue h =>
      if premature then fail s EPremature b
      else match leader_step c h b with
           | LdWait => Wait
           | LdErr e r => fail s e r
           | LdMore h' r => Adv (set_stage s (SContinue h')) r
           | LdDone _ r => Adv (set_stage s (SStart false)) r
           end
  | SLeader h =>
      if premature then fail s EPremature b
      else match leader_step c h b with
           | LdWait => Wait
           | LdErr e r => fail s e r
           | LdMore h' r => Adv (set_stage s (SLeader h')) r
           | LdDone h' r => Adv (head_done s h') r
           end
  | SChunkSize =>
      if premature then fail s EPremature b
      else match next_line (maxline c) ECrLf b with
           | LWait => Wait
           | LTooLong => fail s ELineTooLong b
           | LLine l r =>
               match parse_chunk_size l with
               | None => fail s EBadChunkSize r
               | Some (n, p) => Adv (set_stage s (if n =? 0 then STrailer p [] else SChunkData n p)) r
               end
           end
  | SChunkData n p =>
      if premature then fail s EPremature b
      else if n <=? 0 then fail s EBadChunkSize b          (* unreachable: SChunkData only with n > 0 *)
      else if len b <? n then Wait
      else Adv (set_stage s (SChunkEnd p (firstn (Z.to_nat n) b))) (skipn (Z.to_nat n) b)
  | SChunkEnd p chunk =>
      if premature then fail s EPremature b
      else match next_line (maxline c) ECrLf b with
           | LWait => Wait
           | LTooLong => fail s ELineTooLong b
           | LLine l r =>
               if negb (is_nil l) then fail s EBadChunkEnd r
               else Adv (set_body s (p_body s ++ chunk) (aupdate (p_parms s) p) (p_trails s)
                           (if closed && p_resp s && is_nil r then SDone else SChunkSize)) r
           end
  | STrailer p h =>
      if premature then fail s EPremature b
      else match leader_step c h b with
           | LdWait => Wait
           | LdErr e r => fail s e r
           | LdMore h' r => Adv (set_stage s (STrailer p h')) r
           | LdDone h' r => Adv (set_body s (p_body s) (aupdate (p_parms s) p) h' SDone) r
           end
  | SLength n =>
      if len b <? n then (if premature then fail s EPremature b else Wait)
      else Adv (set_body s (firstn (Z.to_nat n) b) (p_parms s) (p_trails s) SDone)
               (skipn (Z.to_nat n) b)
  | SUntil =>
      match b with
      | x :: r => Adv (set_body s (p_body s ++ [x]) (p_parms s) (p_trails s) SUntil) r
      | [] => if closed then Adv (set_stage s SDone) [] else Wait
      end
  end.

Definition http_mu (s : pst) (b : bytes) : nat :=
  (2 * length b + (if terminal (p_stage s) then 0 else 1))%nat.

Definition http_feed (c : cfg) := feed pst (http_step c false) http_mu.
Definition http_feed_all (c : cfg) := feed_all pst (http_step c false) http_mu.
(* Respondent.close() followed by one more parse() *)
Definition http_close (c : cfg) (k : pst * bytes) : pst * bytes :=
  run pst (http_step c true) (S (http_mu (fst k) (snd k))) (fst k) (snd k).

(* ------------------------------------------------------------------ *)
(* EventSource.parseEvents                                             *)
(* ------------------------------------------------------------------ *)
Record event := { ev_id : option bytes; ev_name : bytes; ev_data : bytes }.

Record sse := {
  e_leid : option bytes;      (* .leid, also the id of the events dispatched from now on *)
  e_name : bytes;
  e_parts : list bytes;       (* data lines of the event being assembled *)
  e_retry : option Z;         (* .retry *)
  e_events : list event;      (* .events (append only) *)
  e_failed : bool }.          (* LineTooLong raised *)

Definition init_sse : sse :=
  {| e_leid := None; e_name := []; e_parts := []; e_retry := None; e_events := []; e_failed := false |}.

Definition all_ascii (b : bytes) : bool := forallb (fun c => c <? 128) b.

Definition sse_line (s : sse) (line : bytes) : sse :=
  if is_nil line then
    let data := join_with [10] (e_parts s) in
    {| e_leid := e_leid s; e_name := []; e_parts := []; e_retry := e_retry s;
       e_events := if is_nil data then e_events s
                   else (e_events s ++ [{| ev_id := e_leid s; ev_name := e_name s; ev_data := data |}])%list;
       e_failed := false |}
  else
    match partition_at 58 line with
    | Some ([], _) => s                                        (* comment *)
    | o =>
        let '(field, value0) := match o with Some p => p | None => (line, []) end in
        let value := match value0 with 32 :: v => v | _ => value0 end in
        if beq field (bz "event"%string) then
          {| e_leid := e_leid s; e_name := value; e_parts := e_parts s; e_retry := e_retry s;
             e_events := e_events s; e_failed := false |}
        else if beq field (bz "data"%string) then
          {| e_leid := e_leid s; e_name := e_name s; e_parts := (e_parts s ++ [value])%list;
             e_retry := e_retry s; e_events := e_events s; e_failed := false |}
        else if beq field (bz "id"%string) then
          {| e_leid := Some value; e_name := e_name s; e_parts := e_parts s; e_retry := e_retry s;
             e_events := e_events s; e_failed := false |}
        else if beq field (bz "retry"%string) then
          match (if all_ascii value then py_int 10 value else None) with
          | Some n => {| e_leid := e_leid s; e_name := e_name s; e_parts := e_parts s;
                         e_retry := Some n; e_events := e_events s; e_failed := false |}
          | None => s
          end
        else s
    end.

Definition sse_fail (s : sse) : sse :=
  {| e_leid := e_leid s; e_name := e_name s; e_parts := e_parts s; e_retry := e_retry s;
     e_events := e_events s; e_failed := true |}.

Definition sse_step (maxl : Z) (s : sse) (b : bytes) : sres sse :=
  if e_failed s then Halt
  else match next_line maxl EAll b with
       | LWait => Wait
       | LTooLong => Adv (sse_fail s) b
       | LLine l r => Adv (sse_line s l) r
       end.

Definition sse_mu (s : sse) (b : bytes) : nat :=
  (2 * length b + (if e_failed s then 0 else 1))%nat.

Definition sse_feed (maxl : Z) := feed sse (sse_step maxl) sse_mu.
Definition sse_feed_all (maxl : Z) := feed_all sse (sse_step maxl) sse_mu.

(* ------------------------------------------------------------------ *)
(* a REUSED parser: Valet / Patron call makeParser() after every complete message and the same
   Requestant / Respondent object parses the next message from the bytes left in the buffer.
   A re-made parser starts from the initial state: nothing of the previous message survives
   (parseMessage / parseHead / parseBody must reset or overwrite every field they read).
   State = (parser state, completed messages so far). *)
Definition stage_done (s : pst) : bool := match p_stage s with SDone => true | _ => false end.

Definition sess_step (cf : cfg) (resp hr : bool) (st : pst * list pst) (b : bytes) : sres (pst * list pst) :=
  match http_step cf false (fst st) b with
  | Adv s' r => if stage_done s'
                then Adv (init_pst resp hr, (snd st ++ [s'])%list) r
                else Adv (s', snd st) r
  | Wait => Wait
  | Halt => Halt
  end.

Definition sess_rank (s : pst) : nat :=
  match p_stage s with SDone | SFail _ => 0 | SStart _ => 1 | _ => 2 end%nat.
Definition sess_mu (st : pst * list pst) (b : bytes) : nat := (3 * length b + sess_rank (fst st))%nat.
Definition sess_feed (cf : cfg) (resp hr : bool) := feed (pst * list pst) (sess_step cf resp hr) sess_mu.
Definition sess_feed_all (cf : cfg) (resp hr : bool) := feed_all (pst * list pst) (sess_step cf resp hr) sess_mu.
Definition sess_init (resp hr : bool) : (pst * list pst) * bytes := ((init_pst resp hr, []), []).
