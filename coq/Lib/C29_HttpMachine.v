(* M-Http -- the Requestant / Respondent machine: measure decrease and prefix stability of
   every step; hence split independence of whole-message parsing. *)
From Coq Require Import List ZArith Bool Lia.
Import ListNotations.
Require Import V.Lib.C29_Http V.Lib.C29_HttpProofs.
Open Scope Z_scope.

Lemma leader_step_more_stable cf h : forall b h' r c,
  leader_step cf h b = LdMore h' r -> leader_step cf h (b ++ c) = LdMore h' (r ++ c).
Proof.
  intros b h' r c H. unfold leader_step in *.
  destruct (next_line (maxline cf) ECrLfLf b) as [l r0| |] eqn:E; try discriminate.
  rewrite (next_line_line_stable _ _ _ _ _ c E).
  destruct (is_nil l).
  - destruct (maxhdrs cf <? _); discriminate.
  - destruct (header_line l h); [|discriminate].
    destruct (maxhdrs cf <? _); [discriminate|]. inversion H; reflexivity.
Qed.

Lemma leader_step_done_stable cf h : forall b h' r c,
  leader_step cf h b = LdDone h' r -> leader_step cf h (b ++ c) = LdDone h' (r ++ c).
Proof.
  intros b h' r c H. unfold leader_step in *.
  destruct (next_line (maxline cf) ECrLfLf b) as [l r0| |] eqn:E; try discriminate.
  rewrite (next_line_line_stable _ _ _ _ _ c E).
  destruct (is_nil l).
  - destruct (maxhdrs cf <? _); [discriminate|]. inversion H; reflexivity.
  - destruct (header_line l h); [|discriminate].
    destruct (maxhdrs cf <? _); discriminate.
Qed.

Lemma leader_step_err_stable cf h : forall b e r c,
  leader_step cf h b = LdErr e r -> leader_step cf h (b ++ c) = LdErr e (r ++ c).
Proof.
  intros b e r c H. unfold leader_step in *.
  destruct (next_line (maxline cf) ECrLfLf b) as [l r0| |] eqn:E; try discriminate.
  - rewrite (next_line_line_stable _ _ _ _ _ c E).
    destruct (is_nil l).
    + destruct (maxhdrs cf <? _); [inversion H; reflexivity|discriminate].
    + destruct (header_line l h); [|inversion H; reflexivity].
      destruct (maxhdrs cf <? _); [inversion H; reflexivity|discriminate].
  - rewrite (next_line_toolong_stable _ _ _ c E). inversion H; reflexivity.
Qed.

Lemma leader_step_err_length cf h : forall b e r,
  leader_step cf h b = LdErr e r -> (length r <= length b)%nat.
Proof.
  intros b e r H. unfold leader_step in H.
  destruct (next_line (maxline cf) ECrLfLf b) as [l r0| |] eqn:E; try discriminate.
  - apply next_line_length in E.
    destruct (is_nil l).
    + destruct (maxhdrs cf <? _); [inversion H; subst; lia|discriminate].
    + destruct (header_line l h); [|inversion H; subst; lia].
      destruct (maxhdrs cf <? _); [inversion H; subst; lia|discriminate].
  - inversion H; subst. lia.
Qed.

Lemma leader_step_more_length cf h : forall b h' r,
  leader_step cf h b = LdMore h' r -> (length r < length b)%nat.
Proof.
  intros b h' r H. unfold leader_step in H.
  destruct (next_line (maxline cf) ECrLfLf b) as [l r0| |] eqn:E; try discriminate.
  apply next_line_length in E.
  destruct (is_nil l).
  - destruct (maxhdrs cf <? _); discriminate.
  - destruct (header_line l h); [|discriminate].
    destruct (maxhdrs cf <? _); [discriminate|]. inversion H; subst. lia.
Qed.

Lemma leader_step_done_length cf h : forall b h' r,
  leader_step cf h b = LdDone h' r -> (length r < length b)%nat.
Proof.
  intros b h' r H. unfold leader_step in H.
  destruct (next_line (maxline cf) ECrLfLf b) as [l r0| |] eqn:E; try discriminate.
  apply next_line_length in E.
  destruct (is_nil l).
  - destruct (maxhdrs cf <? _); [discriminate|]. inversion H; subst. lia.
  - destruct (header_line l h); [|discriminate].
    destruct (maxhdrs cf <? _); discriminate.
Qed.

(* ---- measure ---- *)
Lemma mu_shorter s s' (b r : bytes) : (length r < length b)%nat -> (http_mu s' r < http_mu s b)%nat.
Proof. unfold http_mu. destruct (terminal (p_stage s')), (terminal (p_stage s)); lia. Qed.

Lemma mu_to_terminal s s' (b r : bytes) :
  terminal (p_stage s') = true -> terminal (p_stage s) = false ->
  (length r <= length b)%nat -> (http_mu s' r < http_mu s b)%nat.
Proof. unfold http_mu. intros -> ->. lia. Qed.

Lemma firstn_skipn_len (n : Z) (b : bytes) : 0 < n -> n <= len b ->
  (length (skipn (Z.to_nat n) b) < length b)%nat.
Proof. intros H1 H2. unfold len in H2. rewrite skipn_length. lia. Qed.

Ltac break_hyp H :=
  repeat match type of H with
         | context [match ?x with _ => _ end] => destruct x eqn:?
         | context [if ?x then _ else _] => destruct x eqn:?
         end.

Lemma http_step_dec cf closed : forall s b s' r,
  http_step cf closed s b = Adv s' r -> (http_mu s' r < http_mu s b)%nat.
Proof.
  intros s b s' r H. unfold http_step, fail in H.
  destruct (p_stage s) eqn:Hs; break_hyp H; try discriminate; inversion H; subst; clear H;
    try (apply mu_to_terminal; [reflexivity | rewrite Hs; reflexivity | try lia ]);
    repeat match goal with
           | E : next_line _ _ _ = LLine _ _ |- _ => apply next_line_length in E
           | E : leader_step _ _ _ = LdMore _ _ |- _ => apply leader_step_more_length in E
           | E : leader_step _ _ _ = LdDone _ _ |- _ => apply leader_step_done_length in E
           | E : leader_step _ _ _ = LdErr _ _ |- _ => apply leader_step_err_length in E
           end; try lia; try (apply mu_shorter; cbn [length] in *; lia).
  all: try (apply mu_shorter; apply firstn_skipn_len; lia).
  all: try (rewrite skipn_length; lia).
Qed.

(* ---- prefix stability of every step while the connection is open ---- *)
Lemma is_nil_app_false {A} (b c : list A) : is_nil b = false -> is_nil (b ++ c) = false.
Proof. destruct b; [discriminate|reflexivity]. Qed.

Lemma len_app (b c : bytes) : len (b ++ c) = len b + len c.
Proof. unfold len. rewrite app_length. lia. Qed.

Lemma firstn_app_le (n : Z) (b c : bytes) : n <= len b ->
  firstn (Z.to_nat n) (b ++ c) = firstn (Z.to_nat n) b.
Proof.
  intros H. unfold len in H. rewrite firstn_app.
  replace (Z.to_nat n - length b)%nat with 0%nat by lia. cbn. apply app_nil_r.
Qed.

Lemma skipn_app_le (n : Z) (b c : bytes) : n <= len b ->
  skipn (Z.to_nat n) (b ++ c) = skipn (Z.to_nat n) b ++ c.
Proof.
  intros H. unfold len in H. rewrite skipn_app.
  replace (Z.to_nat n - length b)%nat with 0%nat by lia. reflexivity.
Qed.

Lemma http_step_stable cf : forall s b s' r c,
  http_step cf false s b = Adv s' r -> http_step cf false s (b ++ c) = Adv s' (r ++ c).
Proof.
  intros s b s' r c H. unfold http_step in *. cbn [andb] in *.
  destruct (p_stage s) eqn:Hs; try discriminate.
  - (* SStart *)
    destruct (is_nil b && first) eqn:Eb; [discriminate|].
    assert (Eb' : is_nil (b ++ c) && first = false).
    { destruct b; [|reflexivity]. cbn in Eb. destruct first; [discriminate|]. apply andb_false_r. }
    rewrite Eb'.
    destruct (next_line (maxline cf) ECrLfLf b) as [l r0| |] eqn:E; try discriminate.
    + rewrite (next_line_line_stable _ _ _ _ _ c E).
      destruct (p_resp s).
      * destruct (parse_status_line l) as [e|[[v st] re]]; unfold fail in *; [inversion H; reflexivity|].
        destruct (st =? 100); [inversion H; reflexivity|].
        destruct (response_version v); inversion H; reflexivity.
      * destruct (parse_request_line cf l) as [e|[[[m u] v] vc]]; unfold fail in *; inversion H; reflexivity.
    + rewrite (next_line_toolong_stable _ _ _ c E). unfold fail in *. inversion H; reflexivity.
  - (* SContinue *)
    destruct (leader_step cf h b) eqn:E; try discriminate.
    + rewrite (leader_step_more_stable _ _ _ _ _ c E). inversion H; reflexivity.
    + rewrite (leader_step_done_stable _ _ _ _ _ c E). inversion H; reflexivity.
    + rewrite (leader_step_err_stable _ _ _ _ _ c E). unfold fail in *. inversion H; reflexivity.
  - (* SLeader *)
    destruct (leader_step cf h b) eqn:E; try discriminate.
    + rewrite (leader_step_more_stable _ _ _ _ _ c E). inversion H; reflexivity.
    + rewrite (leader_step_done_stable _ _ _ _ _ c E). inversion H; reflexivity.
    + rewrite (leader_step_err_stable _ _ _ _ _ c E). unfold fail in *. inversion H; reflexivity.
  - (* SChunkSize *)
    destruct (next_line (maxline cf) ECrLf b) as [l r0| |] eqn:E; try discriminate.
    + rewrite (next_line_line_stable _ _ _ _ _ c E).
      destruct (parse_chunk_size l) as [[n p]|]; unfold fail in *; inversion H; reflexivity.
    + rewrite (next_line_toolong_stable _ _ _ c E). unfold fail in *. inversion H; reflexivity.
  - (* SChunkData *)
    destruct (n <=? 0) eqn:En; [unfold fail in *; inversion H; reflexivity|].
    destruct (len b <? n) eqn:El; [discriminate|]. apply Z.ltb_ge in El.
    assert (El' : len (b ++ c) <? n = false).
    { apply Z.ltb_ge. rewrite len_app. pose proof (Zle_0_nat (length c)). unfold len at 2. lia. }
    rewrite El'. rewrite firstn_app_le, skipn_app_le by exact El. inversion H; reflexivity.
  - (* SChunkEnd *)
    destruct (next_line (maxline cf) ECrLf b) as [l r0| |] eqn:E; try discriminate.
    + rewrite (next_line_line_stable _ _ _ _ _ c E).
      destruct (negb (is_nil l)); unfold fail in *; inversion H; reflexivity.
    + rewrite (next_line_toolong_stable _ _ _ c E). unfold fail in *. inversion H; reflexivity.
  - (* STrailer *)
    destruct (leader_step cf h b) eqn:E; try discriminate.
    + rewrite (leader_step_more_stable _ _ _ _ _ c E). inversion H; reflexivity.
    + rewrite (leader_step_done_stable _ _ _ _ _ c E). inversion H; reflexivity.
    + rewrite (leader_step_err_stable _ _ _ _ _ c E). unfold fail in *. inversion H; reflexivity.
  - (* SLength *)
    destruct (len b <? n) eqn:El; [discriminate|]. apply Z.ltb_ge in El.
    assert (El' : len (b ++ c) <? n = false).
    { apply Z.ltb_ge. rewrite len_app. pose proof (Zle_0_nat (length c)). unfold len at 2. lia. }
    rewrite El'. rewrite firstn_app_le, skipn_app_le by exact El. inversion H; reflexivity.
  - (* SUntil *)
    destruct b as [|x b']; [discriminate|]. cbn [app]. inversion H; reflexivity.
Qed.

Lemma http_init_quiescent cf resp hr : quiescent pst (http_step cf false) (init_pst resp hr, []).
Proof. intros s' r. cbn. discriminate. Qed.

(* SPLIT INDEPENDENCE of message parsing *)
Lemma http_feed_all_concat cf : forall pieces k, quiescent pst (http_step cf false) k ->
  http_feed_all cf k pieces = http_feed cf k (concat pieces).
Proof.
  intros. unfold http_feed_all, http_feed.
  apply feed_all_concat; [apply http_step_dec | apply http_step_stable | assumption].
Qed.

Lemma http_split_independent_init cf resp hr : forall pieces,
  http_feed_all cf (init_pst resp hr, []) pieces = http_feed cf (init_pst resp hr, []) (concat pieces).
Proof. intros. apply http_feed_all_concat. apply http_init_quiescent. Qed.

Lemma http_two_splits cf resp hr : forall ps qs, concat ps = concat qs ->
  http_feed_all cf (init_pst resp hr, []) ps = http_feed_all cf (init_pst resp hr, []) qs.
Proof. intros ps qs E. rewrite !http_split_independent_init. rewrite E. reflexivity. Qed.

Lemma http_two_splits_then_close cf resp hr : forall ps qs, concat ps = concat qs ->
  http_close cf (http_feed_all cf (init_pst resp hr, []) ps) =
  http_close cf (http_feed_all cf (init_pst resp hr, []) qs).
Proof. intros ps qs E. rewrite (http_two_splits cf resp hr ps qs E). reflexivity. Qed.

(* LEFTOVER: a finished parse (request, or failure) is final and later bytes stay unconsumed *)
Lemma http_terminal_halts cf closed s : terminal (p_stage s) = true -> forall x, http_step cf closed s x = Halt.
Proof. intros T x. unfold http_step. destruct (p_stage s); try discriminate; reflexivity. Qed.

Lemma http_done_leftover cf : forall s0 b s' b' c,
  http_feed cf (s0, []) b = (s', b') -> terminal (p_stage s') = true ->
  http_feed cf (s0, []) (b ++ c) = (s', b' ++ c).
Proof.
  intros s0 b s' b' c R T. unfold http_feed, feed in *. cbn [fst snd app] in *.
  eapply run_halt_app.
  - apply http_step_dec.
  - apply http_step_stable.
  - apply Nat.lt_succ_diag_r.
  - exact R.
  - apply http_terminal_halts. exact T.
  - apply http_terminal_halts. exact T.
Qed.
