(* C40_Bits -- bit-level facts about Z used by the byting / checking proofs *)
From Coq Require Import ZArith List Bool Lia.
Open Scope Z_scope.

Lemma pow2_pos : forall k, 0 <= k -> 0 < 2 ^ k.
Proof. intros; apply Z.pow_pos_nonneg; lia. Qed.

Lemma testbit_small : forall r q i, 0 <= r < 2 ^ q -> q <= i -> Z.testbit r i = false.
Proof.
  intros r q i Hr Hq.
  destruct (Z.ltb_spec q 0) as [Hn|Hn].
  - rewrite Z.pow_neg_r in Hr by lia. lia.
  - apply Z.testbit_false; [lia|].
    rewrite Z.div_small; [reflexivity|].
    split; [lia|]. apply Z.lt_le_trans with (2 ^ q); [lia|].
    apply Z.pow_le_mono_r; lia.
Qed.

Lemma land_small_pow2 : forall y k, 0 <= k -> 0 <= y < 2 ^ k -> Z.land y (2 ^ k) = 0.
Proof.
  intros y k Hk Hy. apply Z.bits_inj'; intros i Hi.
  rewrite Z.land_spec, Z.bits_0, Z.pow2_bits_eqb by lia.
  destruct (Z.eqb_spec k i); subst.
  - rewrite (testbit_small y i i) by lia. reflexivity.
  - apply andb_false_r.
Qed.

Lemma lor_disjoint_add : forall a b, Z.land a b = 0 -> Z.lor a b = a + b.
Proof. intros a b H. rewrite (Z.add_nocarry_lxor a b H). symmetry; apply Z.lxor_lor; exact H. Qed.

Lemma land_pow2m1 : forall a k, 0 <= k -> Z.land a (2 ^ k - 1) = a mod 2 ^ k.
Proof. intros a k Hk. rewrite <- Z.land_ones by lia. rewrite Z.ones_equiv, <- Z.sub_1_r. reflexivity. Qed.

(* xor with a single bit *)
Lemma lxor_pow2_clear : forall x k, 0 <= k -> 0 <= x < 2 ^ k -> Z.lxor x (2 ^ k) = x + 2 ^ k.
Proof.
  intros x k Hk Hx. rewrite Z.lxor_lor by (apply land_small_pow2; lia).
  apply lor_disjoint_add, land_small_pow2; lia.
Qed.

Lemma lxor_pow2_set : forall x k, 0 <= k -> 2 ^ k <= x < 2 * 2 ^ k -> Z.lxor x (2 ^ k) = x - 2 ^ k.
Proof.
  intros x k Hk Hx.
  assert (H: x = Z.lxor (x - 2 ^ k) (2 ^ k)) by (rewrite lxor_pow2_clear by lia; lia).
  rewrite H at 1. rewrite Z.lxor_assoc, Z.lxor_nilpotent, Z.lxor_0_r. reflexivity.
Qed.

Lemma lor_lt_pow2 : forall a b k, 0 <= k -> 0 <= a < 2 ^ k -> 0 <= b < 2 ^ k -> 0 <= Z.lor a b < 2 ^ k.
Proof.
  intros a b k Hk Ha Hb. split; [apply Z.lor_nonneg; lia|].
  assert (E: Z.lor a b = (Z.lor a b) mod 2 ^ k).
  { rewrite <- Z.land_ones by lia. rewrite Z.land_lor_distr_l, !Z.land_ones by lia.
    rewrite !Z.mod_small by lia. reflexivity. }
  rewrite E. apply Z.mod_pos_bound, pow2_pos; lia.
Qed.
