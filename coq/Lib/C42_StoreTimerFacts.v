(* Facts about the Q helpers and the StoreTimer model (used by C42 and C38). *)
From Coq Require Import List QArith Bool Lqa.
Import ListNotations.
Require Import V.Lib.C42_StoreTimer.
Open Scope Q_scope.

Lemma qadd_eq a b : qadd a b == a + b.
Proof. apply Qred_correct. Qed.
Lemma qsub_eq a b : qsub a b == a - b.
Proof. apply Qred_correct. Qed.
Global Opaque qadd qsub.

(* lra that knows the normalised operations: every [qadd a b] / [qsub a b] is abstracted to a
   fresh variable x with the hypothesis  x == a + b  /  x == a - b *)
Ltac qfacts := repeat match goal with
  | |- context [qadd ?a ?b] =>
      let x := fresh "q" in let H := fresh "Hq" in
      pose proof (qadd_eq a b) as H; set (x := qadd a b) in *; clearbody x
  | _ : context [qadd ?a ?b] |- _ =>
      let x := fresh "q" in let H := fresh "Hq" in
      pose proof (qadd_eq a b) as H; set (x := qadd a b) in *; clearbody x
  | |- context [qsub ?a ?b] =>
      let x := fresh "q" in let H := fresh "Hq" in
      pose proof (qsub_eq a b) as H; set (x := qsub a b) in *; clearbody x
  | _ : context [qsub ?a ?b] |- _ =>
      let x := fresh "q" in let H := fresh "Hq" in
      pose proof (qsub_eq a b) as H; set (x := qsub a b) in *; clearbody x
  end.
Ltac lraq := qfacts; lra.

Lemma qleb_true a b : qleb a b = true <-> a <= b.
Proof. unfold qleb. apply Qle_bool_iff. Qed.

Lemma qleb_false a b : qleb a b = false <-> b < a.
Proof.
  unfold qleb. split; intros H.
  - apply Qnot_le_lt. intros Hc. apply Qle_bool_iff in Hc. congruence.
  - destruct (Qle_bool a b) eqn:E; [|reflexivity]. apply Qle_bool_iff in E. lraq.
Qed.

Lemma qltb_true a b : qltb a b = true <-> a < b.
Proof.
  unfold qltb. rewrite negb_true_iff. apply qleb_false.
Qed.

Lemma qltb_false a b : qltb a b = false <-> b <= a.
Proof. unfold qltb. rewrite negb_false_iff. apply qleb_true. Qed.

(* case analysis on a boolean comparison, leaving Q (in)equalities for lraq *)
Ltac qcase a b :=
  let E := fresh "E" in
  destruct (qleb a b) eqn:E; [apply qleb_true in E | apply qleb_false in E].
Ltac qcaselt a b :=
  let E := fresh "E" in
  destruct (qltb a b) eqn:E; [apply qltb_true in E | apply qltb_false in E].

Lemma qabs_nonneg x : 0 <= qabs x.
Proof. unfold qabs. qcase 0 x; lraq. Qed.

Lemma qabs_id x : 0 <= x -> qabs x == x.
Proof. unfold qabs. intros. qcase 0 x; lraq. Qed.

Lemma qabs_neg x : x <= 0 -> qabs x == - x.
Proof. unfold qabs. intros. qcase 0 x; lraq. Qed.

Lemma qabs_proper x y : x == y -> qabs x == qabs y.
Proof. unfold qabs. intros. qcase 0 x; qcase 0 y; lraq. Qed.

Lemma qmax0_nonneg x : 0 <= qmax0 x.
Proof. unfold qmax0. qcase 0 x; lraq. Qed.

Lemma qmax0_pos x : 0 <= x -> qmax0 x == x.
Proof. unfold qmax0. intros. qcase 0 x; lraq. Qed.

Lemma qmax0_pos' x y : 0 <= x -> x == y -> qmax0 x == y.
Proof. unfold qmax0. intros. qcase 0 x; lraq. Qed.

Lemma qmax0_neg x : x <= 0 -> qmax0 x == 0.
Proof. unfold qmax0. intros. qcase 0 x; lraq. Qed.

Lemma qmax0_mono x y : x <= y -> qmax0 x <= qmax0 y.
Proof. unfold qmax0. intros. qcase 0 x; qcase 0 y; lraq. Qed.

Lemma qmax0_zero_iff x : qmax0 x == 0 <-> x <= 0.
Proof. unfold qmax0. qcase 0 x; split; intros; lraq. Qed.

(* ---------------------------------------------------------------- StoreTimer *)
Definition st_inv (t : stimer) : Prop :=
  s_stop t == s_start t + s_dur t /\ 0 <= s_dur t /\ 0 <= s_start t.

Definition stamp_nonneg (s : option Q) : Prop :=
  match s with Some x => 0 <= x | None => True end.

Lemma st_ctor_inv stamp d : st_inv (st_ctor stamp d).
Proof.
  unfold st_inv, st_ctor; cbn. repeat split; try apply qabs_nonneg; lraq.
Qed.

Lemma st_restart_inv t stamp s d t' :
  st_inv t -> stamp_nonneg stamp -> st_restart t stamp s d = Some t' -> st_inv t'.
Proof.
  unfold st_inv, st_restart. intros (H1 & H2 & H3) Hs H.
  assert (Hd : 0 <= match d with Some y => qabs y | None => s_dur t end).
  { destruct d; [apply qabs_nonneg | exact H2]. }
  destruct s as [x|].
  - inversion H; subst; cbn. repeat split; try apply qabs_nonneg; try lraq.
  - destruct stamp as [x|]; [|discriminate]. inversion H; subst; cbn.
    cbn in Hs. repeat split; try lraq.
Qed.

(* expired exactly when the stamp has reached stop; consistent with remaining *)
Lemma st_expired_iff t x : st_expired t (Some x) = true <-> s_stop t <= x.
Proof. cbn. apply qleb_true. Qed.

Lemma st_expired_remaining t x : st_expired t (Some x) = true <-> st_remaining t x == 0.
Proof.
  rewrite st_expired_iff. unfold st_remaining. rewrite qmax0_zero_iff. split; intros; lraq.
Qed.

Lemma st_elapsed_spec t x :
  0 <= st_elapsed t x /\ (s_start t <= x -> st_elapsed t x == x - s_start t) /\
  (x <= s_start t -> st_elapsed t x == 0).
Proof.
  unfold st_elapsed. split; [apply qmax0_nonneg|]. split; intros.
  - apply qmax0_pos'; lraq.
  - apply qmax0_neg. lraq.
Qed.

Lemma st_remaining_spec t x :
  0 <= st_remaining t x /\ (x <= s_stop t -> st_remaining t x == s_stop t - x) /\
  (s_stop t <= x -> st_remaining t x == 0).
Proof.
  unfold st_remaining. split; [apply qmax0_nonneg|]. split; intros.
  - apply qmax0_pos'; lraq.
  - apply qmax0_neg. lraq.
Qed.

(* repeat restarts exactly at the previous stop; extend keeps the start *)
Lemma st_repeat_spec t stamp : st_inv t ->
  exists t', st_repeat t stamp = Some t' /\ s_start t' == s_stop t /\
             s_dur t' == s_dur t /\ s_stop t' == s_stop t + s_dur t.
Proof.
  intros (H1 & H2 & H3). unfold st_repeat, st_restart. eexists. split; [reflexivity|]. cbn.
  assert (qabs (s_stop t) == s_stop t) by (apply qabs_id; lraq).
  repeat split; lraq.
Qed.

Lemma st_extend_spec t stamp e : st_inv t ->
  exists t', st_extend t stamp e = Some t' /\ s_start t' == s_start t /\
             s_dur t' == qabs (s_dur t + match e with Some x => x | None => s_dur t end) /\
             s_stop t' == s_start t' + s_dur t'.
Proof.
  intros (H1 & H2 & H3). unfold st_extend, st_restart. eexists. split; [reflexivity|]. cbn.
  assert (qabs (s_start t) == s_start t) by (apply qabs_id; lraq).
  repeat split; try lraq. apply qabs_proper. lraq.
Qed.
