(* M-Http -- lemmas: generic split independence of resumable machines,
   prefix stability of parseLine / parseLeader / the message machine / the SSE machine. *)
From Coq Require Import List ZArith Bool Lia.
Import ListNotations.
Require Import V.Lib.C29_Http.
Open Scope Z_scope.

(* ------------------------------------------------------------------ *)
(* generic machine                                                     *)
(* ------------------------------------------------------------------ *)
Section MachineProofs.
  Variable St : Type.
  Variable step : St -> bytes -> sres St.
  Variable mu : St -> bytes -> nat.
  Hypothesis step_dec : forall s b s' r, step s b = Adv s' r -> (mu s' r < mu s b)%nat.
  Hypothesis step_stable : forall s b s' r c,
      step s b = Adv s' r -> step s (b ++ c) = Adv s' (r ++ c).

  Lemma run_fuel : forall n m s b, (mu s b < n)%nat -> (mu s b < m)%nat ->
    run St step n s b = run St step m s b.
  Proof.
    induction n as [|n IH]; intros m s b Hn Hm; [lia|].
    destruct m as [|m]; [lia|]. cbn.
    destruct (step s b) as [s' r| |] eqn:E; try reflexivity.
    apply step_dec in E. apply IH; lia.
  Qed.

  Lemma run_app : forall n s b c, (mu s b < n)%nat ->
    run St step (S (mu s (b ++ c))) s (b ++ c) =
    (let '(s', b') := run St step n s b in run St step (S (mu s' (b' ++ c))) s' (b' ++ c)).
  Proof.
    induction n as [|n IH]; intros s b c Hn; [lia|].
    cbn [run]. destruct (step s b) as [s' r| |] eqn:E.
    - pose proof (step_stable _ _ _ _ c E) as E2. rewrite E2.
      pose proof (step_dec _ _ _ _ E) as D1. pose proof (step_dec _ _ _ _ E2) as D2.
      rewrite (run_fuel (mu s (b ++ c)) (S (mu s' (r ++ c)))) by lia.
      apply IH. lia.
    - cbn [run]. reflexivity.
    - cbn [run]. reflexivity.
  Qed.

  Lemma feed_app : forall c p q,
    feed St step mu (feed St step mu c p) q = feed St step mu c (p ++ q).
  Proof.
    intros [s b] p q. unfold feed. cbn [fst snd].
    rewrite app_assoc.
    rewrite (run_app (S (mu s (b ++ p))) s (b ++ p) q) by lia.
    destruct (run St step (S (mu s (b ++ p))) s (b ++ p)) as [s1 b1]. reflexivity.
  Qed.

  (* a configuration in which the parser is waiting (or finished) *)
  Definition quiescent (c : St * bytes) : Prop :=
    forall s' r, step (fst c) (snd c) <> Adv s' r.

  Lemma run_quiescent : forall n s b, (mu s b < n)%nat -> quiescent (run St step n s b).
  Proof.
    induction n as [|n IH]; intros s b Hn; [lia|]. cbn [run].
    destruct (step s b) as [s' r| |] eqn:E.
    - apply IH. apply step_dec in E. lia.
    - intros s' r. cbn. congruence.
    - intros s' r. cbn. congruence.
  Qed.

  Lemma feed_quiescent : forall c p, quiescent (feed St step mu c p).
  Proof. intros c p. unfold feed. apply run_quiescent. lia. Qed.

  Lemma feed_nil : forall c, quiescent c -> feed St step mu c [] = c.
  Proof.
    intros [s b] Q. unfold feed. cbn [fst snd]. rewrite app_nil_r. cbn [run].
    destruct (step s b) as [s' r| |] eqn:E; try reflexivity.
    exfalso. exact (Q s' r E).
  Qed.

  (* SPLIT INDEPENDENCE: feeding the pieces one receive at a time (one parse() after each)
     ends in exactly the configuration (parser state, unconsumed bytes) of feeding their
     concatenation in one receive. *)
  Theorem feed_all_concat : forall pieces c, quiescent c ->
    feed_all St step mu c pieces = feed St step mu c (concat pieces).
  Proof.
    induction pieces as [|p ps IH]; intros c Q.
    - cbn. symmetry. apply feed_nil. exact Q.
    - cbn [feed_all fold_left concat]. change (fold_left (feed St step mu) ps ?x) with (feed_all St step mu x ps).
      rewrite IH by apply feed_quiescent. apply feed_app.
  Qed.

  Corollary split_independent : forall c ps qs, quiescent c -> concat ps = concat qs ->
    feed_all St step mu c ps = feed_all St step mu c qs.
  Proof. intros c ps qs Q E. rewrite !feed_all_concat by exact Q. rewrite E. reflexivity. Qed.

  (* the leftover lemma: what is behind a finished parse is left in the buffer *)
  Lemma run_halt_app : forall n s b c s' b', (mu s b < n)%nat ->
    run St step n s b = (s', b') -> step s' b' = Halt ->
    (forall x, step s' x = Halt) ->
    run St step (S (mu s (b ++ c))) s (b ++ c) = (s', b' ++ c).
  Proof.
    intros n s b c s' b' Hn R H Hall. rewrite (run_app n) by exact Hn. rewrite R.
    cbn [run]. rewrite Hall. reflexivity.
  Qed.
End MachineProofs.

(* ------------------------------------------------------------------ *)
(* parseLine                                                           *)
(* ------------------------------------------------------------------ *)
Lemma split_line_app e : forall b l r c,
  split_line e b = Some (l, r) -> split_line e (b ++ c) = Some (l, r ++ c).
Proof.
  induction b as [|x t IH]; intros l r c H; [discriminate|].
  cbn [split_line] in H. cbn [split_line app].
  destruct (x =? 13) eqn:Ex.
  - destruct t as [|d t']; [discriminate|]. cbn [app].
    destruct (d =? 10); [inversion H; reflexivity|].
    destruct (cr_is_eol e); [inversion H; reflexivity|].
    destruct (split_line e (d :: t')) as [[l' r']|] eqn:E; cbn in H; [|discriminate].
    inversion H; subst. change (d :: t' ++ c) with ((d :: t') ++ c).
    rewrite (IH _ _ c eq_refl). reflexivity.
  - destruct ((x =? 10) && lf_is_eol e); [inversion H; reflexivity|].
    destruct (split_line e t) as [[l' r']|] eqn:E; cbn in H; [|discriminate].
    inversion H; subst. rewrite (IH _ _ c eq_refl). reflexivity.
Qed.

Lemma split_line_length e : forall b l r,
  split_line e b = Some (l, r) -> (length l + length r < length b)%nat.
Proof.
  induction b as [|x t IH]; intros l r H; [discriminate|].
  cbn [split_line] in H.
  destruct (x =? 13).
  - destruct t as [|d t']; [discriminate|].
    destruct (d =? 10); [inversion H; cbn; lia|].
    destruct (cr_is_eol e); [inversion H; cbn; lia|].
    destruct (split_line e (d :: t')) as [[l' r']|] eqn:E; cbn in H; [|discriminate].
    inversion H; subst. specialize (IH _ _ eq_refl). cbn in *. lia.
  - destruct ((x =? 10) && lf_is_eol e); [inversion H; cbn; lia|].
    destruct (split_line e t) as [[l' r']|] eqn:E; cbn in H; [|discriminate].
    inversion H; subst. specialize (IH _ _ eq_refl). cbn in *. lia.
Qed.

Definition pend (b : bytes) : Z := if ends_cr b then 1 else 0.

Lemma ends_cr_app_cons : forall b x c, ends_cr (b ++ x :: c) = ends_cr (x :: c).
Proof.
  induction b as [|a t IH]; intros x c; [reflexivity|].
  cbn [app]. cbn [ends_cr]. destruct (t ++ x :: c) eqn:E.
  - destruct t; discriminate.
  - rewrite <- E. apply IH.
Qed.

Lemma pend_le b : 0 <= pend b <= 1.
Proof. unfold pend. destruct (ends_cr b); lia. Qed.

Lemma plen_app_le : forall b c, len b - pend b <= len (b ++ c) - pend (b ++ c).
Proof.
  intros b [|x c].
  - rewrite app_nil_r. lia.
  - unfold pend at 2. rewrite ends_cr_app_cons. unfold len. rewrite app_length. cbn [length].
    pose proof (pend_le b). destruct (ends_cr (x :: c)); lia.
Qed.

Lemma pend_cons2 x d t : pend (x :: d :: t) = pend (d :: t).
Proof. reflexivity. Qed.
Lemma len_cons x t : len (x :: t) = 1 + len t.
Proof. unfold len. cbn [length]. lia. Qed.

Lemma split_line_none_app e : forall b c l r,
  split_line e b = None -> split_line e (b ++ c) = Some (l, r) -> len b - pend b <= len l.
Proof.
  induction b as [|x t IH]; intros c l r HN HS.
  - unfold len, pend. cbn. lia.
  - cbn [split_line] in HN. cbn [app split_line] in HS.
    destruct (x =? 13) eqn:Ex.
    + destruct t as [|d t'].
      * unfold len, pend. cbn [ends_cr length]. rewrite Ex. lia.
      * cbn [app] in HS. destruct (d =? 10); [discriminate|].
        destruct (cr_is_eol e); [discriminate|].
        destruct (split_line e (d :: t')) eqn:E1; [destruct p; discriminate|].
        change (d :: t' ++ c) with ((d :: t') ++ c) in HS.
        destruct (split_line e ((d :: t') ++ c)) as [[l' r']|] eqn:E2; cbn in HS; [|discriminate].
        inversion HS; subst. specialize (IH c l' r eq_refl E2).
        rewrite pend_cons2, !len_cons in *. lia.
    + destruct ((x =? 10) && lf_is_eol e); [discriminate|].
      destruct (split_line e t) eqn:E1; [destruct p; discriminate|].
      destruct (split_line e (t ++ c)) as [[l' r']|] eqn:E2; cbn in HS; [|discriminate].
      inversion HS; subst. specialize (IH c l' r eq_refl E2).
      destruct t as [|d t'].
      * unfold pend. cbn [ends_cr]. rewrite Ex. rewrite !len_cons. unfold len at 1. cbn [length].
        pose proof (Zle_0_nat (length l')). unfold len. lia.
      * rewrite pend_cons2, !len_cons in *. lia.
Qed.

Lemma next_line_line_stable m e : forall b l r c,
  next_line m e b = LLine l r -> next_line m e (b ++ c) = LLine l (r ++ c).
Proof.
  intros b l r c H. unfold next_line in *.
  destruct (split_line e b) as [[l' r']|] eqn:E.
  - rewrite (split_line_app e _ _ _ c E). destruct (m <? len l'); [discriminate|].
    inversion H; reflexivity.
  - destruct (m <? _); discriminate.
Qed.

Lemma next_line_toolong_stable m e : forall b c,
  next_line m e b = LTooLong -> next_line m e (b ++ c) = LTooLong.
Proof.
  intros b c H. unfold next_line in *.
  destruct (split_line e b) as [[l' r']|] eqn:E.
  - rewrite (split_line_app e _ _ _ c E). destruct (m <? len l'); [reflexivity|discriminate].
  - fold (pend b) in H. fold (pend (b ++ c)).
    destruct (m <? len b - pend b) eqn:Em; [|discriminate]. apply Z.ltb_lt in Em.
    destruct (split_line e (b ++ c)) as [[l r]|] eqn:E2.
    + pose proof (split_line_none_app e b c l r E E2).
      destruct (m <? len l) eqn:El; [reflexivity|]. apply Z.ltb_ge in El. lia.
    + pose proof (plen_app_le b c).
      destruct (m <? len (b ++ c) - pend (b ++ c)) eqn:El; [reflexivity|]. apply Z.ltb_ge in El. lia.
Qed.

Lemma next_line_length m e : forall b l r,
  next_line m e b = LLine l r -> (length l + length r < length b)%nat.
Proof.
  intros b l r H. unfold next_line in H.
  destruct (split_line e b) as [[l' r']|] eqn:E.
  - destruct (m <? len l'); [discriminate|]. inversion H; subst. eapply split_line_length; eauto.
  - destruct (m <? _); discriminate.
Qed.

(* ------------------------------------------------------------------ *)
(* SSE machine                                                         *)
(* ------------------------------------------------------------------ *)
Lemma sse_line_not_failed s l : e_failed s = false -> e_failed (sse_line s l) = false.
Proof.
  intros H. unfold sse_line.
  destruct (is_nil l); [reflexivity|].
  destruct (partition_at 58 l) as [[f v]|].
  - destruct f as [|f0 f']; [exact H|].
    repeat match goal with |- context [if ?c then _ else _] => destruct c end; try reflexivity; try exact H.
    all: destruct (py_int 10 _); try reflexivity; exact H.
  - repeat match goal with |- context [if ?c then _ else _] => destruct c end; try reflexivity; try exact H.
    all: destruct (py_int 10 _); try reflexivity; exact H.
Qed.

Lemma sse_step_dec m : forall s b s' r,
  sse_step m s b = Adv s' r -> (sse_mu s' r < sse_mu s b)%nat.
Proof.
  intros s b s' r H. unfold sse_step in H. unfold sse_mu.
  destruct (e_failed s) eqn:F; [discriminate|].
  destruct (next_line m EAll b) as [l r0| |] eqn:E; try discriminate.
  - inversion H; subst. rewrite (sse_line_not_failed s l F).
    apply next_line_length in E. lia.
  - inversion H; subst. cbn. lia.
Qed.

Lemma sse_step_stable m : forall s b s' r c,
  sse_step m s b = Adv s' r -> sse_step m s (b ++ c) = Adv s' (r ++ c).
Proof.
  intros s b s' r c H. unfold sse_step in *.
  destruct (e_failed s); [discriminate|].
  destruct (next_line m EAll b) as [l r0| |] eqn:E; try discriminate.
  - rewrite (next_line_line_stable _ _ _ _ _ c E). inversion H; reflexivity.
  - rewrite (next_line_toolong_stable _ _ _ c E). inversion H; reflexivity.
Qed.
