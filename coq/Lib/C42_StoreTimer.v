(* Shared by C42 and C38: exact-rational helpers and the hand model of
   ioflo.aid.timing.StoreTimer (definitions only; lemmas in C42_StoreTimerFacts.v).

   Time is Q.  The harness only uses dyadic values of bounded magnitude so that the
   binary64 arithmetic of CPython (abs, +, -, max, comparisons) is exact and equals
   the Q arithmetic here.

   store.stamp is an [option Q]: Store.stamp may be None.                              *)
From Coq Require Import List QArith Bool.
Import ListNotations.
Open Scope Q_scope.

(* + and - with the result normalised (Qred): values stay canonical fractions, so
   vm_compute on long histories does not blow up denominators.  qadd a b == a + b. *)
Definition qadd (a b : Q) : Q := Qred (a + b).
Definition qsub (a b : Q) : Q := Qred (a - b).

Definition qleb (a b : Q) : bool := Qle_bool a b.            (* a <= b *)
Definition qltb (a b : Q) : bool := negb (Qle_bool b a).     (* a <  b *)
Definition qabs (x : Q) : Q := if qleb 0 x then x else - x.  (* abs(x) *)
Definition qmax0 (x : Q) : Q := if qleb 0 x then x else 0.   (* max(0.0, x) *)

Inductive err := TimerRetroError | TypeError | NameError | ValueError.

Record stimer := { s_start : Q; s_stop : Q; s_dur : Q }.

(* StoreTimer.restart(start, duration); [None] result = TypeError
   (start=None with store.stamp None: None + duration) *)
Definition st_restart (t : stimer) (stamp : option Q) (s d : option Q) : option stimer :=
  let st := match s with Some x => Some (qabs x) | None => stamp end in
  let du := match d with Some y => qabs y | None => s_dur t end in
  match st with
  | Some a => Some {| s_start := a; s_stop := qadd a du; s_dur := du |}
  | None => None
  end.

(* StoreTimer.__init__(store, duration):  start = stamp if stamp is not None else 0.0 *)
Definition st_ctor (stamp : option Q) (d : Q) : stimer :=
  let a := qabs (match stamp with Some x => x | None => 0 end) in
  {| s_start := a; s_stop := qadd a (qabs d); s_dur := qabs d |}.

Definition st_elapsed (t : stimer) (stamp : Q) : Q := qmax0 (qsub stamp (s_start t)).
Definition st_remaining (t : stimer) (stamp : Q) : Q := qmax0 (qsub (s_stop t) stamp).
Definition st_expired (t : stimer) (stamp : option Q) : bool :=
  match stamp with Some x => qleb (s_stop t) x | None => false end.
Definition st_repeat (t : stimer) (stamp : option Q) : option stimer :=
  st_restart t stamp (Some (s_stop t)) None.
Definition st_extend (t : stimer) (stamp : option Q) (e : option Q) : option stimer :=
  let ext := match e with Some x => x | None => s_dur t end in
  st_restart t stamp (Some (s_start t)) (Some (qadd (s_dur t) ext)).
