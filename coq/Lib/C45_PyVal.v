(* C45_PyVal -- a small value-level embedding of the Python operations used by the
   translated (T-tie) functions of C45 (Arbiter.FixTruth / GoodTruth) and C21 (Need.Check),
   and by the hand models of C45 / C21 / C20.

   Values: None | bool | int (Z) | float (IDEAL: exact rational Q; nan/inf and binary64
   rounding are NOT modelled) | str (list of code points).
   Exceptions are result values  Ok v | Err cls.

   This file is hand written and trusted; it is validated on every run by the
   translator-validation correspondence of C45 and C21 (the generated functions, which are
   built only from these operations, are compared with the real Python functions).      *)
From Coq Require Import ZArith QArith Qabs List Bool.
Import ListNotations.

Inductive val :=
| VNone
| VBool (b : bool)
| VInt (z : Z)
| VFlt (q : Q)
| VStr (s : list Z).

Inductive exc := TypeError | ValueError | NameError | ZeroDivisionError | KeyError
               | AttributeError | ResolveError | OtherError.

Definition exc_eqb (a b : exc) : bool :=
  match a, b with
  | TypeError, TypeError | ValueError, ValueError | NameError, NameError
  | ZeroDivisionError, ZeroDivisionError | KeyError, KeyError
  | AttributeError, AttributeError | ResolveError, ResolveError | OtherError, OtherError => true
  | _, _ => false
  end.

Inductive res (A : Type) := Ok (a : A) | Err (e : exc).
Arguments Ok {A} a.
Arguments Err {A} e.

Definition bind {A B : Type} (r : res A) (f : A -> res B) : res B :=
  match r with Ok a => f a | Err e => Err e end.

(* try: r  except cls: h *)
Definition catch {A : Type} (cls : exc) (r : res A) (h : res A) : res A :=
  match r with
  | Ok a => Ok a
  | Err e => if exc_eqb e cls then h else Err e
  end.

Definition is_ok {A : Type} (r : res A) : bool := match r with Ok _ => true | Err _ => false end.

(* ---- numbers ------------------------------------------------------------------- *)
Definition Qlt_bool (a b : Q) : bool := negb (Qle_bool b a).

Definition b2z (b : bool) : Z := if b then 1%Z else 0%Z.

(* int-like (bool is a subclass of int) *)
Definition int_of (v : val) : option Z :=
  match v with VBool b => Some (b2z b) | VInt z => Some z | _ => None end.

(* numeric view: bool / int / float *)
Definition num_of (v : val) : option Q :=
  match v with
  | VBool b => Some (inject_Z (b2z b))
  | VInt z => Some (inject_Z z)
  | VFlt q => Some q
  | _ => None
  end.

Definition is_float (v : val) : bool := match v with VFlt _ => true | _ => false end.

(* ---- strings ------------------------------------------------------------------- *)
Fixpoint str_eqb (a b : list Z) : bool :=
  match a, b with
  | [], [] => true
  | x :: a', y :: b' => Z.eqb x y && str_eqb a' b'
  | _, _ => false
  end.

Fixpoint str_ltb (a b : list Z) : bool :=
  match a, b with
  | _, [] => false
  | [], _ :: _ => true
  | x :: a', y :: b' => if Z.ltb x y then true else if Z.eqb x y then str_ltb a' b' else false
  end.

(* ---- truthiness, not, is ------------------------------------------------------- *)
Definition py_truthy (v : val) : bool :=
  match v with
  | VNone => false
  | VBool b => b
  | VInt z => negb (Z.eqb z 0)
  | VFlt q => negb (Qeq_bool q 0)
  | VStr s => match s with [] => false | _ => true end
  end.

Definition py_not (v : val) : val := VBool (negb (py_truthy v)).

(* x is None / x is True / x is False : identity on the singletons *)
Definition py_is_none (v : val) : val := VBool (match v with VNone => true | _ => false end).
Definition py_is_true (v : val) : val := VBool (match v with VBool true => true | _ => false end).
Definition py_is_false (v : val) : val := VBool (match v with VBool false => true | _ => false end).

Definition py_isinstance_float (v : val) : val := VBool (is_float v).

(* ---- comparisons --------------------------------------------------------------- *)
(* ==  never raises *)
Definition py_eqb (a b : val) : bool :=
  match num_of a, num_of b with
  | Some x, Some y => Qeq_bool x y
  | _, _ =>
      match a, b with
      | VStr s, VStr t => str_eqb s t
      | VNone, VNone => true
      | _, _ => false
      end
  end.
Definition py_eq (a b : val) : val := VBool (py_eqb a b).
Definition py_ne (a b : val) : val := VBool (negb (py_eqb a b)).

(* ordering: numbers with numbers, str with str, anything else TypeError *)
Definition py_ord (fq : Q -> Q -> bool) (fs : list Z -> list Z -> bool) (a b : val) : res val :=
  match num_of a, num_of b with
  | Some x, Some y => Ok (VBool (fq x y))
  | _, _ =>
      match a, b with
      | VStr s, VStr t => Ok (VBool (fs s t))
      | _, _ => Err TypeError
      end
  end.

Definition py_lt := py_ord Qlt_bool str_ltb.
Definition py_le := py_ord Qle_bool (fun s t => negb (str_ltb t s)).
Definition py_gt := py_ord (fun x y => Qlt_bool y x) (fun s t => str_ltb t s).
Definition py_ge := py_ord (fun x y => Qle_bool y x) (fun s t => negb (str_ltb s t)).

(* ---- arithmetic ---------------------------------------------------------------- *)
Definition py_add (a b : val) : res val :=
  match int_of a, int_of b with
  | Some x, Some y => Ok (VInt (x + y))
  | _, _ =>
      match num_of a, num_of b with
      | Some x, Some y => Ok (VFlt (Qred (x + y)))
      | _, _ =>
          match a, b with
          | VStr s, VStr t => Ok (VStr (s ++ t))
          | _, _ => Err TypeError
          end
      end
  end.

Definition py_sub (a b : val) : res val :=
  match int_of a, int_of b with
  | Some x, Some y => Ok (VInt (x - y))
  | _, _ =>
      match num_of a, num_of b with
      | Some x, Some y => Ok (VFlt (Qred (x - y)))
      | _, _ => Err TypeError
      end
  end.

Definition py_abs (a : val) : res val :=
  match a with
  | VBool b => Ok (VInt (b2z b))
  | VInt z => Ok (VInt (Z.abs z))
  | VFlt q => Ok (VFlt (Qabs q))
  | _ => Err TypeError
  end.

(* float(x).  float("...") of a string is NOT modelled (ValueError for every string). *)
Definition py_float (a : val) : res val :=
  match a with
  | VBool b => Ok (VFlt (inject_Z (b2z b)))
  | VInt z => Ok (VFlt (inject_Z z))
  | VFlt q => Ok (VFlt q)
  | VStr _ => Err ValueError
  | VNone => Err TypeError
  end.

(* max(a, b): a unless b > a ;  min(a, b): a unless b < a   (CPython's two-argument forms) *)
Definition py_max2 (a b : val) : res val :=
  bind (py_gt b a) (fun c => Ok (if py_truthy c then b else a)).
Definition py_min2 (a b : val) : res val :=
  bind (py_lt b a) (fun c => Ok (if py_truthy c then b else a)).

(* ---- shares seen as their ordered field names (C21 default-field rule) ------------------ *)
Definition share := list (list Z).
(* bool(share): Share.__len__ = number of fields *)
Definition py_share_truthy (sh : share) : val := VBool (match sh with [] => false | _ => true end).
(* key in share: hasattr(data, key) -- only string keys are modelled (anything else: False) *)
Definition py_in_share (k : val) (sh : share) : val :=
  VBool (match k with VStr s => existsb (str_eqb s) sh | _ => false end).
Definition py_not_in_share (k : val) (sh : share) : val :=
  VBool (negb (match k with VStr s => existsb (str_eqb s) sh | _ => false end)).
