(* M-Http -- observation functions used by the correspondence runs (definitions only).
   An observation is flattened to one list Z with length prefixes; the harness flattens the
   fields of the real parser objects the same way, so equality is [beq]. *)
From Coq Require Import List ZArith Bool.
Import ListNotations.
Require Import V.Lib.C29_Http.
Open Scope Z_scope.

Definition enc_b (b : bytes) : bytes := len b :: b.
Definition enc_ob (o : option bytes) : bytes := match o with None => [0] | Some b => 1 :: enc_b b end.
Definition enc_oz (o : option Z) : bytes := match o with None => [0] | Some z => [1; z] end.
Definition enc_list {A} (f : A -> bytes) (l : list A) : bytes := Z.of_nat (length l) :: flat_map f l.
Definition enc_bool (b : bool) : bytes := [if b then 1 else 0].

(* ---- SSE ---- *)
Definition enc_event (e : event) : bytes := enc_ob (ev_id e) ++ enc_b (ev_name e) ++ enc_b (ev_data e).
Definition sse_obs (k : sse * bytes) : bytes :=
  let s := fst k in
  enc_list enc_event (e_events s) ++ enc_ob (e_leid s) ++ enc_oz (e_retry s) ++
  enc_b (e_name s) ++ enc_list enc_b (e_parts s) ++ enc_b (snd k) ++ enc_bool (e_failed s).

Definition sse_case (maxl : Z) (pieces : list bytes) : bytes :=
  sse_obs (sse_feed_all maxl (init_sse, []) pieces).

(* ---- HTTP ---- *)
Definition err_code (e : err) : Z :=
  match e with
  | ELineTooLong => 1 | EBadStartLine => 2 | EUnknownProtocol => 3 | EBadMethod => 4
  | EInvalidURL => 5 | EBadHeader => 6 | ETooManyHeaders => 7 | EBadChunkSize => 8
  | EBadChunkEnd => 9 | ENoLength => 10 | EPremature => 11
  end.

Definition enc_hdr (kv : bytes * bytes) : bytes := enc_b (fst kv) ++ enc_b (snd kv).
Definition enc_parm (kv : bytes * option bytes) : bytes := enc_b (fst kv) ++ enc_ob (snd kv).

Definition headed (g : stage) : bool :=
  match g with SStart _ | SContinue _ | SLeader _ => false | _ => true end.

Definition http_obs (k : pst * bytes) : bytes :=
  let s := fst k in
  match p_stage s with
  | SFail e => [100 + err_code e] ++ enc_b (snd k)
  | g =>
      let done := match g with SDone => true | _ => false end in
      [if done then 2 else if headed g then 1 else 0] ++
      (if headed g
       then enc_list enc_b (p_start s) ++ [p_version s; p_status s] ++
            enc_list enc_hdr (p_headers s) ++ enc_bool (p_chunked s) ++
            enc_oz (if done then Some (len (p_body s)) else p_length s) ++ enc_bool (persisted s)
       else []) ++
      enc_b (p_body s) ++ enc_list enc_parm (p_parms s) ++ enc_list enc_hdr (p_trails s) ++
      enc_b (snd k)
  end.

Definition http_case (c : cfg) (resp headreq close : bool) (pieces : list bytes) : bytes :=
  let k := http_feed_all c (init_pst resp headreq, []) pieces in
  http_obs (if close then http_close c k else k).

Definition mkcfg (maxl maxh : Z) (bad_urls : list bytes) : cfg :=
  {| maxline := maxl; maxhdrs := maxh; url_ok := fun u => negb (existsb (beq u) bad_urls) |}.

(* pieces given as the whole data + the lengths of all pieces but the last *)
Fixpoint cut_pieces (b : bytes) (lens : list Z) : list bytes :=
  match lens with
  | [] => [b]
  | n :: t => firstn (Z.to_nat n) b :: cut_pieces (skipn (Z.to_nat n) b) t
  end.
Definition http_case_cuts (c : cfg) (resp headreq close : bool) (data : bytes) (lens : list Z) : bytes :=
  http_case c resp headreq close (cut_pieces data lens).
Definition sse_case_cuts (maxl : Z) (data : bytes) (lens : list Z) : bytes :=
  sse_case maxl (cut_pieces data lens).

(* a reused parser over a stream of messages: the completed messages, then the current state *)
Definition sess_obs (k : (pst * list pst) * bytes) : bytes :=
  enc_list (fun s => http_obs (s, [])) (snd (fst k)) ++ http_obs (fst (fst k), snd k).
Definition sess_case_cuts (c : cfg) (resp headreq : bool) (data : bytes) (lens : list Z) : bytes :=
  sess_obs (sess_feed_all c resp headreq (sess_init resp headreq) (cut_pieces data lens)).

(* session observation: for a current parser that has not completed a head yet only the
   unconsumed bytes are observable (the object's other fields still show the previous message
   until parseHead / parseBody overwrite them) *)
Definition cur_obs (k : pst * bytes) : bytes :=
  match p_stage (fst k) with
  | SStart _ | SContinue _ | SLeader _ => [0] ++ enc_b (snd k)
  | _ => http_obs k
  end.
Definition sess_obs2 (k : (pst * list pst) * bytes) : bytes :=
  enc_list (fun s => http_obs (s, [])) (snd (fst k)) ++ cur_obs (fst (fst k), snd k).
Definition sess_case2 (c : cfg) (resp headreq : bool) (data : bytes) (lens : list Z) : bytes :=
  sess_obs2 (sess_feed_all c resp headreq (sess_init resp headreq) (cut_pieces data lens)).
