(* Lemmas about the translator's target vocabulary (Lib/C43_PyPrelude.v). *)
From Coq Require Import ZArith QArith Qround Qabs List Bool Lia Lqa.
Import ListNotations.
Require Import V.Lib.C43_PyPrelude.
Open Scope Q_scope.

(* ---------- boolean comparisons on Q ---------- *)
Lemma Qeqb_true a b : Qeqb a b = true <-> a == b.
Proof. unfold Qeqb. apply Qeq_bool_iff. Qed.

Lemma Qneb_true a b : Qneb a b = true <-> ~ a == b.
Proof.
  unfold Qneb. rewrite negb_true_iff. split.
  - intros H E. apply Qeq_bool_iff in E. congruence.
  - intros H. destruct (Qeq_bool a b) eqn:E; auto. apply Qeq_bool_iff in E. contradiction.
Qed.

Lemma Qneb_false a b : Qneb a b = false <-> a == b.
Proof.
  unfold Qneb. rewrite negb_false_iff. apply Qeq_bool_iff.
Qed.

Lemma Qleb_true a b : Qleb a b = true <-> a <= b.
Proof. unfold Qleb. apply Qle_bool_iff. Qed.

Lemma Qltb_true a b : Qltb a b = true <-> a < b.
Proof.
  unfold Qltb. rewrite negb_true_iff. split.
  - intros H. apply Qnot_le_lt. intros L. apply Qle_bool_iff in L. congruence.
  - intros H. destruct (Qle_bool b a) eqn:E; auto. apply Qle_bool_iff in E.
    exfalso. apply (Qlt_not_le _ _ H E).
Qed.

Lemma Qltb_false a b : Qltb a b = false <-> b <= a.
Proof.
  unfold Qltb. rewrite negb_false_iff. apply Qle_bool_iff.
Qed.

Lemma Qgtb_true a b : Qgtb a b = true <-> b < a.
Proof. unfold Qgtb. apply Qltb_true. Qed.

Lemma Qgtb_false a b : Qgtb a b = false <-> a <= b.
Proof. unfold Qgtb. apply Qltb_false. Qed.

(* ---------- Python floored modulo ---------- *)
Lemma pymodQ_turns a b : pymodQ a b == a - inject_Z (Qfloor (a / b)) * b.
Proof. unfold pymodQ. ring. Qed.

Lemma floor_bounds q : inject_Z (Qfloor q) <= q /\ q < inject_Z (Qfloor q) + 1.
Proof.
  split. apply Qfloor_le.
  pose proof (Qlt_floor q) as H. rewrite inject_Z_plus in H. exact H.
Qed.

Lemma pymodQ_pos a b : 0 < b -> 0 <= pymodQ a b /\ pymodQ a b < b.
Proof.
  intros Hb. unfold pymodQ.
  assert (Hn : ~ b == 0) by (intro E; rewrite E in Hb; apply (Qlt_irrefl _ Hb)).
  pose proof (Qmult_div_r a b Hn) as Hq.
  destruct (floor_bounds (a / b)) as [L U].
  set (q := a / b) in *. set (f := inject_Z (Qfloor q)) in *.
  assert (E : a == b * q) by (symmetry; exact Hq).
  rewrite E. split; nra.
Qed.

Lemma pymodQ_neg a b : b < 0 -> b < pymodQ a b /\ pymodQ a b <= 0.
Proof.
  intros Hb. unfold pymodQ.
  assert (Hn : ~ b == 0) by (intro E; rewrite E in Hb; apply (Qlt_irrefl _ Hb)).
  pose proof (Qmult_div_r a b Hn) as Hq.
  destruct (floor_bounds (a / b)) as [L U].
  set (q := a / b) in *. set (f := inject_Z (Qfloor q)) in *.
  assert (E : a == b * q) by (symmetry; exact Hq).
  rewrite E. split; nra.
Qed.

(* the floor of a value already known to lie in [k, k+1) *)
Lemma Qfloor_unique q k : inject_Z k <= q -> q < inject_Z k + 1 -> Qfloor q = k.
Proof.
  intros L U. destruct (floor_bounds q) as [L' U'].
  assert (A : (Qfloor q < k + 1)%Z).
  { rewrite Zlt_Qlt. rewrite inject_Z_plus. change (inject_Z 1) with 1. lra. }
  assert (B : (k < Qfloor q + 1)%Z).
  { rewrite Zlt_Qlt. rewrite inject_Z_plus. change (inject_Z 1) with 1. lra. }
  lia.
Qed.

Global Instance pymodQ_compat : Proper (Qeq ==> Qeq ==> Qeq) pymodQ.
Proof.
  intros a a' Ha b b' Hb. unfold pymodQ.
  assert (E : Qfloor (a / b) = Qfloor (a' / b')).
  { apply Qfloor_comp. rewrite Ha, Hb. reflexivity. }
  rewrite E, Ha, Hb. reflexivity.
Qed.
