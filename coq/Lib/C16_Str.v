(* readable string literals for code-point lists:  zs "put" = [112; 117; 116] *)
From Coq Require Import List ZArith String Ascii NArith.
Import ListNotations.

Definition zs (s : string) : list Z :=
  map (fun a => Z.of_N (N_of_ascii a)) (list_ascii_of_string s).
