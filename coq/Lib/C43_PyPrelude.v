(* C43_PyPrelude -- target vocabulary of the Python-ast -> Gallina translator
   props/C43/translate.py (used by C43, C44, C46).  Definitions only; lemmas about them live in
   Lib/C43_PyPreludeFacts.v.

   Every Python construct the translator accepts is rendered with one of the names below; the
   meaning given here to that name is the translator's semantic claim about the construct
   (trusted base of the T tie, validated by the correspondence runs). *)
From Coq Require Import ZArith QArith Qround Qabs List Bool.
Import ListNotations.

(* ------------------------------------------------------------------ *)
(* dialect Q : Python numbers read as exact rationals                   *)
(* ------------------------------------------------------------------ *)

(* Python's floored modulo  a % b = a - b*floor(a/b)  (sign of the divisor) *)
Definition pymodQ (a b : Q) : Q := a - b * inject_Z (Qfloor (a / b)).

Definition Qeqb (a b : Q) : bool := Qeq_bool a b.
Definition Qneb (a b : Q) : bool := negb (Qeq_bool a b).
Definition Qleb (a b : Q) : bool := Qle_bool a b.
Definition Qltb (a b : Q) : bool := negb (Qle_bool b a).
Definition Qgtb (a b : Q) : bool := Qltb b a.
Definition Qgeb (a b : Q) : bool := Qleb b a.

(* ------------------------------------------------------------------ *)
(* dialect Z : Python ints, 2-tuples of ints, lists of 2-tuples          *)
(* ------------------------------------------------------------------ *)
Open Scope Z_scope.

Definition pt := (Z * Z)%type.

Definition pt_eqb (a b : pt) : bool := (fst a =? fst b) && (snd a =? snd b).
Definition pt_neb (a b : pt) : bool := negb (pt_eqb a b).

(* `p in vs`  (list membership by ==) *)
Definition py_in_pts (p : pt) (vs : list pt) : bool := existsb (pt_eqb p) vs.

(* `vs[i]` for 0 <= i < len(vs).  (IndexError is not modelled: every translated use is
   inside `for i in range(len(vs))` with index i or (i+1) % len(vs).) *)
Definition py_index_pts (vs : list pt) (i : Z) : pt := nth (Z.to_nat i) vs (0, 0).

Definition py_len_pts (vs : list pt) : Z := Z.of_nat (length vs).

(* `for i in range(n): body` with loop-carried state S and early `return` of type R *)
Inductive loop_res (S R : Type) : Type :=
| LCont (s : S)
| LRet (r : R).
Arguments LCont {S R} s.
Arguments LRet {S R} r.

Fixpoint py_for_from {S R : Type} (n : nat) (i : Z) (body : Z -> S -> loop_res S R) (s : S)
  : loop_res S R :=
  match n with
  | O => LCont s
  | Datatypes.S n' => match body i s with
            | LRet r => LRet r
            | LCont s' => py_for_from n' (i + 1) body s'
            end
  end.

Definition py_for_range {S R : Type} (n : Z) (body : Z -> S -> loop_res S R) (s : S)
  : loop_res S R := py_for_from (Z.to_nat n) 0 body s.

(* ------------------------------------------------------------------ *)
(* dialect V : an abstract float-like value type with CPython comparison  *)
(* and arithmetic supplied as a record (C46)                             *)
(* ------------------------------------------------------------------ *)
Record Num (V : Type) : Type := mkNum {
  vlit : Q -> V;                 (* numeric literal *)
  vadd : V -> V -> V;
  vsub : V -> V -> V;
  vmul : V -> V -> V;
  vdiv : V -> V -> V;
  vmod : V -> V -> V;            (* Python % *)
  vneg : V -> V;
  vabs : V -> V;
  vfloat : V -> V;               (* float(x) *)
  vlt : V -> V -> bool;
  vle : V -> V -> bool;
  veq : V -> V -> bool
}.
Arguments vlit {V} _ _.
Arguments vadd {V} _ _ _.
Arguments vsub {V} _ _ _.
Arguments vmul {V} _ _ _.
Arguments vdiv {V} _ _ _.
Arguments vmod {V} _ _ _.
Arguments vneg {V} _ _.
Arguments vabs {V} _ _.
Arguments vfloat {V} _ _.
Arguments vlt {V} _ _ _.
Arguments vle {V} _ _ _.
Arguments veq {V} _ _ _.

Definition vgt {V} (N : Num V) (a b : V) : bool := vlt N b a.
Definition vge {V} (N : Num V) (a b : V) : bool := vle N b a.
Definition vne {V} (N : Num V) (a b : V) : bool := negb (veq N a b).

(* CPython builtin max(a, b): keeps the first argument unless the second compares greater
   (min_max() in bltinmodule.c: `if item > maxitem: maxitem = item`); min symmetric. *)
Definition py_max {V} (N : Num V) (a b : V) : V := if vgt N b a then b else a.
Definition py_min {V} (N : Num V) (a b : V) : V := if vlt N b a then b else a.
