(* C46_XVal -- extended value domain for CPython floats seen exactly:
     NaN | -inf | finite rational | +inf
   with CPython's comparison semantics (every ordered comparison with NaN is False, == with NaN is
   False) and an exact-arithmetic instance of the translator's Num record (used by the
   correspondence on exactly representable inputs; the THEOREMS of C46 quantify over every Num
   whose comparisons are the ones below, whatever its arithmetic).  Definitions only. *)
From Coq Require Import ZArith QArith Qround Qabs Bool.
Require Import V.Lib.C43_PyPrelude.
Open Scope Q_scope.

Inductive xv : Type := XNaN | XNInf | XFin (q : Q) | XPInf.

Definition xlt (a b : xv) : bool :=
  match a, b with
  | XNaN, _ | _, XNaN => false
  | XNInf, XNInf => false
  | XNInf, _ => true
  | _, XNInf => false
  | XPInf, _ => false
  | _, XPInf => true
  | XFin x, XFin y => Qltb x y
  end.

Definition xle (a b : xv) : bool :=
  match a, b with
  | XNaN, _ | _, XNaN => false
  | XNInf, _ => true
  | _, XNInf => false
  | _, XPInf => true
  | XPInf, _ => false
  | XFin x, XFin y => Qleb x y
  end.

Definition xeq (a b : xv) : bool :=
  match a, b with
  | XNInf, XNInf | XPInf, XPInf => true
  | XFin x, XFin y => Qeqb x y
  | _, _ => false
  end.

(* the comparisons of a Num are CPython's float comparisons *)
Definition std_cmp (N : Num xv) : Prop :=
  (forall a b, vlt N a b = xlt a b) /\ (forall a b, vle N a b = xle a b) /\
  (forall a b, veq N a b = xeq a b).

(* ---------------- exact arithmetic instance ---------------- *)
Definition xneg (a : xv) : xv :=
  match a with XNaN => XNaN | XNInf => XPInf | XPInf => XNInf | XFin x => XFin (- x) end.

Definition xabs (a : xv) : xv :=
  match a with XNaN => XNaN | XNInf | XPInf => XPInf | XFin x => XFin (Qabs x) end.

Definition xadd (a b : xv) : xv :=
  match a, b with
  | XNaN, _ | _, XNaN => XNaN
  | XPInf, XNInf | XNInf, XPInf => XNaN
  | XPInf, _ | _, XPInf => XPInf
  | XNInf, _ | _, XNInf => XNInf
  | XFin x, XFin y => XFin (x + y)
  end.

Definition xsub (a b : xv) : xv := xadd a (xneg b).

(* sign of a non-NaN value: -1, 0, 1 *)
Definition xsgn (a : xv) : Z :=
  match a with
  | XNaN => 0%Z | XNInf => (-1)%Z | XPInf => 1%Z
  | XFin x => Z.sgn (Qnum x)
  end.

Definition xinf_of_sign (s : Z) : xv := if (s <? 0)%Z then XNInf else XPInf.

Definition xmul (a b : xv) : xv :=
  match a, b with
  | XNaN, _ | _, XNaN => XNaN
  | XFin x, XFin y => XFin (x * y)
  | _, _ => if (xsgn a * xsgn b =? 0)%Z then XNaN else xinf_of_sign (xsgn a * xsgn b)
  end.

(* x / 0 raises ZeroDivisionError in CPython; rendered XNaN (never reached by the translated code:
   the divisors are lapse > 0 and the literals 2.0, 3.0, 0.1) *)
Definition xdiv (a b : xv) : xv :=
  match a, b with
  | XNaN, _ | _, XNaN => XNaN
  | XFin x, XFin y => if Qeqb y 0 then XNaN else XFin (x / y)
  | XFin _, _ => XFin 0
  | _, XFin y => if Qeqb y 0 then XNaN else xinf_of_sign (xsgn a * xsgn b)
  | _, _ => XNaN
  end.

(* CPython float_rem: fmod, then shifted by the divisor when the signs differ.
   x % 0 raises ZeroDivisionError; rendered XNaN (guarded by `wrap != 0` in wrap2). *)
Definition xmod (a b : xv) : xv :=
  match a, b with
  | XNaN, _ | _, XNaN => XNaN
  | XNInf, _ | XPInf, _ => XNaN
  | XFin x, XFin y => if Qeqb y 0 then XNaN else XFin (pymodQ x y)
  | XFin x, _ => if Qeqb x 0 then XFin 0
                 else if (Z.sgn (Qnum x) =? xsgn b)%Z then XFin x else b
  end.

Definition xnum_exact : Num xv :=
  mkNum xv XFin xadd xsub xmul xdiv xmod xneg xabs (fun x => x) xlt xle xeq.
